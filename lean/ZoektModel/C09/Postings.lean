/-
C09/C10 — model of `utf8.DecodeRune`, `postingsBuilder` (index/shard_builder.go: `newSearchableString`, `reset`)
and `writePostings` (index/write.go).  Core Lean only.

Offsets are `Nat`; the Go code uses `uint32` (the shard format rejects files ≥ 4 GiB, so no wrap-around is
reachable; `newOff - lastOff` is never negative in a reachable builder state — trusted-base item).
-/
import ZoektModel.Basic.Outcome
import ZoektModel.C09.Coders
namespace ZoektModel.C09

/-! ### utf8.DecodeRune -/

def runeError : Nat := 0xFFFD

def isCont (b : Nat) : Bool := 0x80 ≤ b && b ≤ 0xBF

/-- `utf8.DecodeRune` on a non-empty input `b0 :: rest`: `(rune, size)`; invalid or short input gives `(U+FFFD, 1)` -/
def decodeRune (b0 : UInt8) (rest : Bytes) : Nat × Nat :=
  let p0 := b0.toNat
  if p0 < 0x80 then (p0, 1)
  else if p0 < 0xC2 then (runeError, 1)
  else if p0 < 0xE0 then
    match rest with
    | b1 :: _ => if isCont b1.toNat then ((p0 % 32) * 64 + b1.toNat % 64, 2) else (runeError, 1)
    | _ => (runeError, 1)
  else if p0 < 0xF0 then
    match rest with
    | b1 :: b2 :: _ =>
      let lo := if p0 = 0xE0 then 0xA0 else 0x80
      let hi := if p0 = 0xED then 0x9F else 0xBF
      if lo ≤ b1.toNat && b1.toNat ≤ hi then
        if isCont b2.toNat then ((p0 % 16) * 4096 + (b1.toNat % 64) * 64 + b2.toNat % 64, 3) else (runeError, 1)
      else (runeError, 1)
    | _ => (runeError, 1)
  else if p0 < 0xF5 then
    match rest with
    | b1 :: b2 :: b3 :: _ =>
      let lo := if p0 = 0xF0 then 0x90 else 0x80
      let hi := if p0 = 0xF4 then 0x8F else 0xBF
      if lo ≤ b1.toNat && b1.toNat ≤ hi then
        if isCont b2.toNat then
          if isCont b3.toNat then
            ((p0 % 8) * 262144 + (b1.toNat % 64) * 4096 + (b2.toNat % 64) * 64 + b3.toNat % 64, 4)
          else (runeError, 1)
        else (runeError, 1)
      else (runeError, 1)
    | _ => (runeError, 1)
  else (runeError, 1)

/-- one decoded rune of a content: code point, byte offset, byte size, whether its first byte is ≥ 0x80 -/
structure RuneAt where
  r : Nat
  off : Nat
  sz : Nat
  deriving Repr, DecidableEq

/-- the rune sequence the Go loops see (`for len(data) > 0 { c, sz := DecodeRune(data); data = data[sz:] }`) -/
def decodeAllF : Nat → Bytes → Nat → List RuneAt
  | 0, _, _ => []
  | _ + 1, [], _ => []
  | fuel + 1, b0 :: rest, off =>
    let (r, sz) := decodeRune b0 rest
    ⟨r, off, sz⟩ :: decodeAllF fuel (rest.drop (sz - 1)) (off + sz)

def decodeAll (data : Bytes) : List RuneAt := decodeAllF data.length data 0

/-! ### ngrams -/

def runesToNGram (a b c : Nat) : Nat := a * 2 ^ 42 + b * 2 ^ 21 + c

def asciiNgramIndex (a b c : Nat) : Nat := a * 2 ^ 14 + b * 2 ^ 7 + c

def asciiIndexToNgram (idx : Nat) : Nat :=
  runesToNGram (idx / 2 ^ 14) (idx / 2 ^ 7 % 128) (idx % 128)

/-! ### the postings builder -/

structure PL where
  data : Bytes
  lastOff : Nat
  deriving Repr, DecidableEq

def PL.empty : PL := ⟨[], 0⟩

/-- association lists standing for the direct-indexed ASCII array (non-nil slots) and the Go map -/
abbrev Slots := List (Nat × PL)

def slotGet? : Slots → Nat → Option PL
  | [], _ => none
  | (k, v) :: r, key => if k = key then some v else slotGet? r key

def slotSet : Slots → Nat → PL → Slots
  | [], key, v => [(key, v)]
  | (k, w) :: r, key, v => if k = key then (k, v) :: r else (k, w) :: slotSet r key v

structure PB where
  ascii : Slots
  pop : List Nat            -- asciiPopulated
  map : Slots               -- postings (non-ASCII trigrams)
  runeOffsets : List Nat
  runeCount : Nat
  plain : Bool              -- isPlainASCII
  endRunes : List Nat
  endByte : Nat
  deriving Repr, DecidableEq

/-- `newPostingsBuilder` -/
def PB.fresh : PB := ⟨[], [], [], [], 0, true, [], 0⟩

/-- `postingsBuilder.reset`: populated ASCII slots and all map entries are truncated, the slots stay allocated -/
def PB.reset (s : PB) : PB :=
  { ascii := s.ascii.map fun (k, pl) => if s.pop.contains k then (k, PL.empty) else (k, pl)
    pop := []
    map := s.map.map fun (k, _) => (k, PL.empty)
    runeOffsets := []
    runeCount := 0
    plain := true
    endRunes := []
    endByte := 0 }

/-- append one occurrence at rune offset `newOff` (varint of the delta to the previous one) -/
def PL.push (pl : PL) (newOff : Nat) : PL := ⟨pl.data ++ putUvarint (newOff - pl.lastOff), newOff⟩

def isAsciiGram (a b c : Nat) : Bool := a < 0x80 && b < 0x80 && c < 0x80

/-- the trigram branch of the loop body of `newSearchableString` -/
def PB.addTrigram (s : PB) (a b c newOff : Nat) : PB :=
  if isAsciiGram a b c then
    let idx := asciiNgramIndex a b c
    match slotGet? s.ascii idx with
    | none => { s with ascii := slotSet s.ascii idx (PL.empty.push newOff), pop := s.pop ++ [idx] }
    | some pl =>
      { s with ascii := slotSet s.ascii idx (pl.push newOff),
               pop := if pl.data.isEmpty then s.pop ++ [idx] else s.pop }
  else
    let ng := runesToNGram a b c
    match slotGet? s.map ng with
    | none => { s with map := slotSet s.map ng (PL.empty.push newOff) }
    | some pl => { s with map := slotSet s.map ng (pl.push newOff) }

/-- loop state of `newSearchableString` -/
structure Loop where
  pb : PB
  g1 : Nat                  -- runeGram[1], runeGram[2] before the shift
  g2 : Nat
  runeIndex : Nat
  bsb : List Nat            -- byteSectionBoundaries still to place
  rsb : List Nat            -- runeSectionBoundaries placed so far
  deriving Repr

/-- `for len(bsb) > 0 && bsb[0] == byteCount { rsb = append(rsb, v); bsb = bsb[1:] }` -/
def placeBoundaries : List Nat → Nat → Nat → List Nat → List Nat × List Nat
  | [], _, _, rsb => ([], rsb)
  | b :: r, byteCount, v, rsb =>
    if b = byteCount then placeBoundaries r byteCount v (rsb ++ [v]) else (b :: r, rsb)

/-- `s.isPlainASCII = false` when the rune's first byte is ≥ 0x80 -/
def PB.markPlain (pb : PB) (ra : RuneAt) : PB :=
  if ra.r ≥ 0x80 || ra.sz ≠ 1 then { pb with plain := false } else pb

/-- `s.runeOffsets = append(s.runeOffsets, v)` every 100th rune -/
def PB.sample (pb : PB) (runeIdx v : Nat) : PB :=
  if runeIdx % 100 = 0 then { pb with runeOffsets := pb.runeOffsets ++ [v] } else pb

/-- the posting of the trigram ending at this rune, from the third rune of the document on -/
def PB.gram (pb : PB) (runeIndex g1 g2 r newOff : Nat) : PB :=
  if runeIndex < 2 then pb else pb.addTrigram g1 g2 r newOff

/-- one iteration; `rc0`, `eb0` = `s.runeCount`, `s.endByte` at entry (`endRune = rc0`) -/
def Loop.step (rc0 eb0 : Nat) (st : Loop) (ra : RuneAt) : Loop :=
  let pb := ((st.pb.markPlain ra).sample (rc0 + st.runeIndex) (eb0 + ra.off)).gram st.runeIndex st.g1 st.g2 ra.r
    (rc0 + st.runeIndex - 2)
  let pl := placeBoundaries st.bsb ra.off (rc0 + st.runeIndex) st.rsb
  ⟨pb, st.g2, ra.r, st.runeIndex + 1, pl.1, pl.2⟩

def pairUp : List Nat → Option (List (Nat × Nat))
  | [] => some []
  | [_] => none
  | a :: b :: r => (pairUp r).map ((a, b) :: ·)

/-- the builder once the document is accepted: `s.runeCount += runeIndex` happened before, now
    `s.endRunes = append(s.endRunes, s.runeCount)`, `s.endByte += dataSz` -/
def PB.close (pb : PB) (runeCount byteCount : Nat) : PB :=
  { pb with runeCount := runeCount, endRunes := pb.endRunes ++ [runeCount], endByte := pb.endByte + byteCount }

/-- what follows the rune loop of `newSearchableString`; `rc0` = `s.runeCount` at entry -/
def PB.finishAdd (rc0 byteCount : Nat) (st : Loop) : Outcome (PB × List (Nat × Nat)) :=
  match st.bsb with
  | b :: _ =>
    if b < byteCount then .err "no rune for section boundary" else
    match pairUp (placeBoundaries st.bsb byteCount (rc0 + st.runeIndex) st.rsb).2 with
    | none => .panic "runeSectionBoundaries[i+1]"
    | some rs => .ok (st.pb.close (rc0 + st.runeIndex) byteCount, rs)
  | [] =>
    match pairUp st.rsb with
    | none => .panic "runeSectionBoundaries[i+1]"
    | some rs => .ok (st.pb.close (rc0 + st.runeIndex) byteCount, rs)

/-- `postingsBuilder.newSearchableString(data, byteSections)`: new builder state and rune sections, `err` for
    "no rune for section boundary", `panic` for the out-of-range read of `runeSectionBoundaries[i+1]`.
    (On `err` the Go builder is left half-updated; callers drop it — the model returns no state.) -/
def PB.add (s : PB) (data : Bytes) (secs : List (Nat × Nat)) : Outcome (PB × List (Nat × Nat)) :=
  PB.finishAdd s.runeCount data.length
    ((decodeAll data).foldl (Loop.step s.runeCount s.endByte) ⟨s, 0, 0, 0, secs.flatMap fun p => [p.1, p.2], []⟩)

/-! ### writePostings -/

/-- the `all` slice before sorting: populated ASCII slots with data, then map entries with data -/
def PB.collect (s : PB) : List (Nat × Bytes) :=
  (s.pop.filterMap fun idx =>
    match slotGet? s.ascii idx with
    | some pl => if pl.data.isEmpty then none else some (asciiIndexToNgram idx, pl.data)
    | none => none) ++
  (s.map.filterMap fun (k, pl) => if pl.data.isEmpty then none else some (k, pl.data))

def keyLe (a b : Nat × Bytes) : Bool := a.1 ≤ b.1

structure PostingSections where
  ngrams : List Nat          -- ngramText (8 bytes big-endian each)
  postings : List Bytes      -- compound section items
  runeOffsets : Bytes
  endRunes : Bytes
  deriving Repr, DecidableEq

def u32s (l : List Nat) : List UInt32 := l.map UInt32.ofNat

/-- `writePostings` -/
def PB.write (s : PB) : PostingSections :=
  let all := s.collect.mergeSort keyLe
  ⟨all.map (·.1), all.map (·.2), toSizedDeltas (u32s s.runeOffsets), toSizedDeltas (u32s s.endRunes)⟩

end ZoektModel.C09
