/-
C09 — the symbol metadata tables (`symIndex`, `symKindIndex`, `symMetaData`) and reading `symbols.data(i)` back.
-/
import ZoektModel.C09.Compose
namespace ZoektModel.C09
open ZoektModel

/-- one metadata row with the strings its three ids stand for -/
structure Row where
  sym : Sym
  k : Nat
  p : Nat
  pk : Nat

def Row.cells (e : Row) : List Nat := [0, e.k, e.p, e.pk]

/-- ids of a row resolve, in the tables `kt` (kinds) and `st` (symbols/parents), to the row's strings -/
def Row.ok (kt st : List Bytes) (e : Row) : Prop :=
  e.k < kt.length ∧ kt.getD e.k [] = e.sym.kind ∧ e.p < st.length ∧ st.getD e.p [] = e.sym.parent ∧
  e.pk < kt.length ∧ kt.getD e.pk [] = e.sym.parentKind

theorem Row.ok_ext {kt st : List Bytes} {e : Row} (h : e.ok kt st) (kx sx : List Bytes) : e.ok (kt ++ kx) (st ++ sx) := by
  obtain ⟨h1, h2, h3, h4, h5, h6⟩ := h
  refine ⟨by simp; omega, ?_, by simp; omega, ?_, by simp; omega, ?_⟩
  · rw [getD_append_left _ _ _ _ h1]; exact h2
  · rw [getD_append_left _ _ _ _ h3]; exact h4
  · rw [getD_append_left _ _ _ _ h5]; exact h6

/-- the metadata table as rows -/
structure SymRep (b : SB) (rows : List Row) : Prop where
  md : b.symMetaData = (rows.map Row.cells).flatten
  ok : ∀ e ∈ rows, e.ok b.symKindIndex b.symIndex

theorem addSymbols_rows (syms : List Sym) : ∀ (b : SB) (rows : List Row), SymRep b rows →
    ∃ new : List Row, new.map (·.sym) = syms ∧ SymRep (addSymbols b syms) (rows ++ new) ∧
      (∃ kx sx, (addSymbols b syms).symKindIndex = b.symKindIndex ++ kx ∧ (addSymbols b syms).symIndex = b.symIndex ++ sx) := by
  induction syms with
  | nil => intro b rows h; exact ⟨[], rfl, by simpa [addSymbols] using h, ⟨[], [], by simp [addSymbols], by simp [addSymbols]⟩⟩
  | cons x r ih =>
    intro b rows h
    simp only [addSymbols]
    have i1 := intern_spec b.symKindIndex x.kind
    have i2 := intern_spec b.symIndex x.parent
    have i3 := intern_spec (intern b.symKindIndex x.kind).1 x.parentKind
    obtain ⟨kx1, hk1⟩ := i1.2.2.1
    obtain ⟨sx1, hs1⟩ := i2.2.2.1
    obtain ⟨kx2, hk2⟩ := i3.2.2.1
    let b1 : SB := { b with
      symKindIndex := (intern (intern b.symKindIndex x.kind).1 x.parentKind).1,
      symIndex := (intern b.symIndex x.parent).1,
      symMetaData := b.symMetaData ++ [0, (intern b.symKindIndex x.kind).2, (intern b.symIndex x.parent).2,
        (intern (intern b.symKindIndex x.kind).1 x.parentKind).2] }
    let e : Row := ⟨x, (intern b.symKindIndex x.kind).2, (intern b.symIndex x.parent).2,
      (intern (intern b.symKindIndex x.kind).1 x.parentKind).2⟩
    have hrep1 : SymRep b1 (rows ++ [e]) := by
      refine ⟨by simp [b1, e, h.md, Row.cells], ?_⟩
      intro q hq
      simp only [List.mem_append, List.mem_singleton] at hq
      rcases hq with hq | hq
      · have := Row.ok_ext (h.ok q hq) (kx1 ++ kx2) sx1
        show q.ok (intern (intern b.symKindIndex x.kind).1 x.parentKind).1 (intern b.symIndex x.parent).1
        rw [hk2, hk1, hs1, List.append_assoc]
        exact this
      · subst hq
        refine ⟨?_, ?_, i2.1, i2.2.1, i3.1, i3.2.1⟩
        · show (intern b.symKindIndex x.kind).2 < (intern (intern b.symKindIndex x.kind).1 x.parentKind).1.length
          rw [hk2]; simp; have := i1.1; omega
        · show (intern (intern b.symKindIndex x.kind).1 x.parentKind).1.getD (intern b.symKindIndex x.kind).2 [] = x.kind
          rw [hk2, getD_append_left _ _ _ _ i1.1]; exact i1.2.1
    obtain ⟨new, hn1, hn2, kx, sx, hkx, hsx⟩ := ih b1 (rows ++ [e]) hrep1
    refine ⟨e :: new, by simp [hn1, e], by simpa using hn2, ⟨kx1 ++ kx2 ++ kx, sx1 ++ sx, ?_, ?_⟩⟩
    · rw [hkx]
      show (intern (intern b.symKindIndex x.kind).1 x.parentKind).1 ++ kx = _
      rw [hk2, hk1]; simp [List.append_assoc]
    · rw [hsx]
      show (intern b.symIndex x.parent).1 ++ sx = _
      rw [hs1]; simp [List.append_assoc]

/-- rows per document -/
structure Rep3 (b : SB) (rowss : List (List Row)) : Prop where
  sym : SymRep b rowss.flatten

theorem Rep3.new : Rep3 (SB.new PB.fresh PB.fresh) [] := ⟨⟨rfl, by intro e he; simp at he⟩⟩

theorem add_rec3 (repo : Repo) (b b' : SB) (d : Doc) (rowss : List (List Row)) (hrep : Rep3 b rowss)
    (hadd : b.add repo d = .ok b') : ∃ new : List Row, new.map (·.sym) = (effective d).symMeta ∧ Rep3 b' (rowss ++ [new]) := by
  unfold SB.add at hadd
  simp only at hadd
  split at hadd
  · cases hadd
  split at hadd
  · cases hadd
  split at hadd
  · cases hadd
  split at hadd
  · cases hadd
  · cases hadd
  · cases hadd
  split at hadd
  · cases hadd
  · cases hadd
  · cases hadd
  split at hadd
  · cases hadd
  split at hadd
  · cases hadd
  split at hadd
  · cases hadd
  split at hadd
  · cases hadd
  injection hadd with hadd
  subst hadd
  obtain ⟨new, hn1, hn2, _⟩ := addSymbols_rows (effective d).symMeta b rowss.flatten hrep.sym
  refine ⟨new, hn1, ⟨?_⟩⟩
  have e : (rowss ++ [new]).flatten = rowss.flatten ++ new := by simp
  rw [e]
  exact ⟨hn2.md, hn2.ok⟩

theorem addAll_rep3 (repo : Repo) (docs : List Doc) : ∀ (b b' : SB) (rowss : List (List Row)), Rep3 b rowss →
    SB.addAll repo b docs = .ok b' →
    ∃ rs : List (List Row), rs.length = docs.length ∧
      (∀ i, i < docs.length → ∀ d r, docs[i]? = some d → rs[i]? = some r → r.map (·.sym) = (effective d).symMeta) ∧
      Rep3 b' (rowss ++ rs) := by
  induction docs with
  | nil =>
    intro b b' rowss hrep h
    simp only [SB.addAll] at h
    injection h with h
    subst h
    exact ⟨[], rfl, by intro i hi; simp at hi, by simpa using hrep⟩
  | cons d ds ih =>
    intro b b' rowss hrep h
    simp only [SB.addAll] at h
    split at h
    · rename_i b1 hb1
      obtain ⟨r, hro, hrep1⟩ := add_rec3 repo b b1 d rowss hrep hb1
      obtain ⟨rs, hlen, hall, hrep2⟩ := ih b1 b' (rowss ++ [r]) hrep1 h
      refine ⟨r :: rs, by simp [hlen], ?_, by simpa using hrep2⟩
      intro i hi d' r' hd hr
      cases i with
      | zero =>
        simp at hd hr
        subst hd; subst hr
        exact hro
      | succ j =>
        simp at hd hr
        exact hall j (by simpa using hi) d' r' hd hr
    · cases h
    · cases h
    · cases h

/-! ### reading `symbols.data(i)` -/

theorem write_symfields (b : SB) (mj rj : Bytes) : ∃ o1 o2 : Nat,
    (b.write mj rj).2.symbolMap = writeCompound o1 b.symIndex ∧
    (b.write mj rj).2.symbolKindMap = writeCompound o2 b.symKindIndex ∧
    (b.write mj rj).2.symbolMetaData = writeBE 4 b.symMetaData :=
  ⟨_, _, rfl, rfl, rfl⟩

theorem symParent_write (off : Nat) (items : List Bytes) (i : Nat) (hi : i < items.length) :
    symParent (writeCompound off items) i = items.getD i [] := by
  rw [← readItem_write off items i hi]
  have hne : items ≠ [] := by intro h; simp [h] at hi
  unfold symParent readItem
  rw [relativeIndex_write off items hne]
  simp only [writeCompound]
  have hlen := itemOffsets_length items off
  have hsh : List.map (fun x => x - off) (itemOffsets items off) = itemOffsets items 0 := by
    have := itemOffsets_shift items off 0
    rwa [Nat.add_zero] at this
  have h0 : (itemOffsets items off).getD 0 0 = off := by
    cases items with
    | nil => exact absurd rfl hne
    | cons a r => simp [itemOffsets]
  have hget : ∀ j, j < items.length → (itemOffsets items off).getD j 0 - off = (itemOffsets items 0).getD j 0 := by
    intro j hj
    rw [← hsh, getD_map (· - off) _ j 0 0 (by rw [hlen]; exact hj)]
  have hl0 := itemOffsets_length items 0
  rw [h0, hget i hi, getD_append_left _ _ _ _ (by rw [hl0]; exact hi)]
  congr 1
  by_cases hlast : i + 1 = items.length
  · have e : i + 1 = (itemOffsets items off).length := by rw [hlen]; exact hlast
    simp only [e, if_true]
    have : (itemOffsets items 0 ++ [items.flatten.length]).getD (itemOffsets items off).length 0 = items.flatten.length := by
      rw [hlen, ← hl0]
      exact getD_append_len _ _ _
    rw [this]
  · have e : ¬ (i + 1 = (itemOffsets items off).length) := by rw [hlen]; exact hlast
    simp only [e, if_false]
    rw [hget (i + 1) (by omega), getD_append_left _ _ _ _ (by rw [hl0]; omega)]

theorem getD_flat4 (rows : List Row) : ∀ g, g < rows.length →
    (rows.map Row.cells).flatten.getD (g * 4 + 1) 0 = (rows.getD g ⟨⟨[], [], []⟩, 0, 0, 0⟩).k ∧
    (rows.map Row.cells).flatten.getD (g * 4 + 2) 0 = (rows.getD g ⟨⟨[], [], []⟩, 0, 0, 0⟩).p ∧
    (rows.map Row.cells).flatten.getD (g * 4 + 3) 0 = (rows.getD g ⟨⟨[], [], []⟩, 0, 0, 0⟩).pk := by
  induction rows with
  | nil => intro g hg; simp at hg
  | cons e r ih =>
    intro g hg
    cases g with
    | zero => simp [Row.cells]
    | succ j =>
      have := ih j (by simpa using hg)
      simp only [List.map_cons, List.flatten_cons, Row.cells, List.getD_cons_succ]
      rw [show (j + 1) * 4 + 1 = (j * 4 + 1) + 4 by omega, show (j + 1) * 4 + 2 = (j * 4 + 2) + 4 by omega,
        show (j + 1) * 4 + 3 = (j * 4 + 3) + 4 by omega]
      simpa [Row.cells] using this

theorem flat4_length (rows : List Row) : (rows.map Row.cells).flatten.length = 4 * rows.length := by
  induction rows with
  | nil => rfl
  | cons e r ih => simp [Row.cells, ih]; omega

/-- `symbols.data(g)` of the written shard is the `g`-th symbol ever added -/
theorem symData_row (b : SB) (rows : List Row) (h : SymRep b rows) (hmd : ∀ n ∈ b.symMetaData, n < 2 ^ 32)
    (mj rj : Bytes) (g : Nat) (hg : g < rows.length) :
    symData (b.write mj rj).2 g = some (rows.getD g ⟨⟨[], [], []⟩, 0, 0, 0⟩).sym := by
  obtain ⟨o1, o2, f1, f2, f3⟩ := write_symfields b mj rj
  have hmd' : readBE 4 (b.write mj rj).2.symbolMetaData = (rows.map Row.cells).flatten := by
    rw [f3, readBE4_writeBE4 _ hmd, h.md]
  have hnot : ¬ (g * 4 ≥ ((rows.map Row.cells).flatten).length) := by rw [flat4_length]; omega
  simp only [symData, hmd', hnot, if_false]
  have hc := getD_flat4 rows g hg
  rw [hc.1, hc.2.1, hc.2.2, f1, f2]
  have hrow := h.ok _ (getD_mem rows g ⟨⟨[], [], []⟩, 0, 0, 0⟩ hg)
  obtain ⟨h1, h2, h3, h4, h5, h6⟩ := hrow
  rw [readItem_write _ _ _ h1, symParent_write _ _ _ h3, readItem_write _ _ _ h5, h2, h4, h6]

theorem flatten_getD {α} (ls : List (List α)) (d : α) : ∀ (i : Nat) (hi : i < ls.length) (j : Nat), j < ls[i].length →
    ls.flatten.getD ((ls.take i).flatten.length + j) d = ls[i].getD j d := by
  induction ls with
  | nil => intro i hi; simp at hi
  | cons l r ih =>
    intro i hi j hj
    cases i with
    | zero =>
      simp only [List.take_zero, List.flatten_nil, List.length_nil, Nat.zero_add, List.flatten_cons, List.getElem_cons_zero] at hj ⊢
      exact getD_append_left _ _ _ _ hj
    | succ k =>
      have hk : k < r.length := by simpa using hi
      simp only [List.getElem_cons_succ] at hj
      have := ih k hk j hj
      simp only [List.take_succ_cons, List.flatten_cons, List.length_append, List.getElem_cons_succ]
      rw [show l.length + (List.take k r).flatten.length + j = l.length + ((List.take k r).flatten.length + j) by omega]
      simp only [List.getD_eq_getElem?_getD] at this ⊢
      rw [List.getElem?_append_right (by omega)]
      simpa using this

theorem flatten_take_add_lt {α} (ls : List (List α)) : ∀ (i : Nat) (hi : i < ls.length) (j : Nat), j < ls[i].length →
    (ls.take i).flatten.length + j < ls.flatten.length := by
  induction ls with
  | nil => intro i hi; simp at hi
  | cons l r ih =>
    intro i hi j hj
    cases i with
    | zero => simp at hj ⊢; omega
    | succ k =>
      have hk : k < r.length := by simpa using hi
      simp only [List.getElem_cons_succ] at hj
      have := ih k hk j hj
      simp only [List.take_succ_cons, List.flatten_cons, List.length_append]
      omega

theorem take_flatten_length {α β} (l1 : List (List α)) (l2 : List (List β)) (h : l1.map List.length = l2.map List.length) (i : Nat) :
    (l1.take i).flatten.length = (l2.take i).flatten.length := by
  simp only [List.length_flatten]
  rw [List.map_take, List.map_take, h]

theorem effective_lengths (d : Doc) (h : d.symMeta.length = d.symbols.length) :
    (effective d).symMeta.length = (effective d).symbols.length := by
  unfold effective
  split
  · rfl
  · simp

/-- the symbol metadata read back for document `i` -/
theorem readDoc_symbols (b : SB) (recs : List Rec) (recs2 : List Rec2) (rowss : List (List Row)) (hrep : Rep b recs)
    (hb : Bounded b recs) (hrep2 : Rep2 b recs2) (hrep3 : Rep3 b rowss) (hlen : recs2.length = recs.length)
    (hlen3 : rowss.length = recs.length)
    (halign : rowss.map List.length = (recs2.map (·.runeSecs)).map List.length)
    (hfes : ∀ n ∈ b.fileEndSymbol, n < 2 ^ 32) (hmd : ∀ n ∈ b.symMetaData, n < 2 ^ 32)
    (mj rj : Bytes) (repo : Repo) (i : Nat) (hi : i < recs.length)
    (hsecsLen : (recs.getD i default).secs.length = (rowss.getD i []).length)
    (o : DocOut) (ho : readDoc (b.write mj rj).2 repo b.languageMap i = some o) :
    o.symbols = (rowss.getD i []).map fun e => some e.sym := by
  obtain ⟨o1, o2, o3, f1, f2, f3, f4, f5, f6, f7, f8, f9⟩ := write_fields b mj rj
  have hr := getD_mem recs i default hi
  have hbr := hb.each _ hr
  generalize hrd : recs.getD i default = r at hr hbr hsecsLen
  have hsubs : fromSizedDeltas (b.write mj rj).2.subRepos = some (u32s b.subRepos) := by
    rw [f5]
    apply fromSized_toSized
    simp only [u32s, List.length_map, hrep.subs]
    have := hb.ndocs
    omega
  have hitem : readItem (b.write mj rj).2.fileSections i = marshalDocSections (toSecs r.secs) := by
    rw [f3, readItem_write _ _ _ (by simp [hrep.secs, hi])]
    rw [hrep.secs, List.map_map]
    rw [getD_map _ recs i default [] hi, hrd]
    rfl
  have hsecs : unmarshalDocSections (readItem (b.write mj rj).2.fileSections i) = some (toSecs r.secs) := by
    rw [hitem]
    apply unmarshal_marshal
    simp only [toSecs, List.length_map]
    exact hbr.2.2.2.1
  have hrds : unmarshalDocSections (b.write mj rj).2.runeDocSections = some (toSecs b.runeDocSections) := by
    rw [f9]
    apply unmarshal_marshal
    simp only [toSecs, List.length_map]
    exact hb.runeSecs
  unfold readDoc at ho
  simp only [hsubs, hsecs, hrds, Option.bind_eq_bind, Option.bind_some, Option.pure_def] at ho
  injection ho with ho
  subst ho
  simp only
  have hi3 : i < rowss.length := by omega
  have hgi : rowss.getD i [] = rowss[i] := by simp [List.getD_eq_getElem?_getD, List.getElem?_eq_getElem hi3]
  rw [write_fes, readBE4_writeBE4 _ hfes, hrep2.fes i (by omega)]
  have hlo : ((recs2.take i).map (·.runeSecs)).flatten.length = (rowss.take i).flatten.length := by
    rw [List.map_take]
    exact (take_flatten_length rowss (recs2.map (·.runeSecs)) halign i).symm
  rw [hlo]
  have hn : (toSecs r.secs).length = rowss[i].length := by
    simp only [toSecs, List.length_map]
    rw [hsecsLen, hgi]
  rw [hn, hgi]
  apply List.ext_getElem
  · simp
  · intro j h1 h2
    have hj : j < rowss[i].length := by simpa using h1
    simp only [List.getElem_map, List.getElem_range]
    have hg := flatten_take_add_lt rowss i hi3 j hj
    rw [symData_row b rowss.flatten hrep3.sym hmd mj rj _ hg, flatten_getD rowss _ i hi3 j hj]
    simp [List.getD_eq_getElem?_getD, List.getElem?_eq_getElem hj]

end ZoektModel.C09
