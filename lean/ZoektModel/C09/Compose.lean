/-
C09 — helper lemmas for the composition theorems of Props/C09.lean: what `effective` (the first part of `Add`) does to a
document, in the vocabulary of the statement (`rejected`, `placeholderOk`, `expectLanguage`).
-/
import ZoektModel.C09.RuneRep
import ZoektModel.C09.PostingList
namespace ZoektModel.C09
open ZoektModel

theorem rejected_iff (d : Doc) : rejected d = true ↔ effSkip d ≠ 0 := by
  unfold rejected effSkip
  by_cases h1 : d.category = 0 ∧ d.content.contains 0 = true
  · have hm : 0 ∈ d.content := by simpa using h1.2
    simp [h1, hm, skipBinary]
  · rw [if_neg h1]
    constructor
    · intro h
      simp only [Bool.or_eq_true, Bool.and_eq_true, decide_eq_true_eq] at h
      rcases h with h | h
      · exact h
      · exact absurd h h1
    · intro h
      simp [h]

theorem effective_rejected (d : Doc) (h : rejected d = true) :
    placeholderOk d (effective d).content = true ∧ (effective d).symbols = [] := by
  have hs := (rejected_iff d).1 h
  unfold effective
  rw [if_pos hs]
  refine ⟨?_, rfl⟩
  unfold placeholderOk effSkip
  by_cases h1 : d.category = 0 ∧ d.content.contains 0 = true
  · have hm : 0 ∈ d.content := by simpa using h1.2
    simp [h1, hm]
  · unfold effSkip at hs
    rw [if_neg h1] at hs ⊢
    simp [hs]

theorem effective_accepted (d : Doc) (h : rejected d = false) : (effective d).content = d.content := by
  have hs : ¬ effSkip d ≠ 0 := by
    intro hc
    have := (rejected_iff d).2 hc
    rw [h] at this
    cases this
  unfold effective
  rw [if_neg hs]
  split <;> rfl

theorem effective_language (d : Doc) : (effective d).language = expectLanguage d := by
  unfold effective
  split
  · rfl
  · split <;> rfl

theorem effective_category (d : Doc) (h : d.category ≠ 0) : (effective d).category = d.category := by
  have : effCategory d = d.category := by unfold effCategory; rw [if_neg h]
  unfold effective
  split
  · exact this
  · split <;> exact this

theorem encodeCategory_lt (c k : Nat) (h : encodeCategory c = some k) : k < 256 := by
  unfold encodeCategory at h
  split at h <;> first | (injection h with h; subst h; decide) | simp at h

instance : Inhabited DocOut := ⟨⟨[], [], [], [], [], 0, [], [], [], []⟩⟩

theorem mapM_some {α β} (f : α → Option β) (g : α → β) (l : List α) (h : ∀ a ∈ l, f a = some (g a)) :
    l.mapM f = some (l.map g) := by
  induction l with
  | nil => rfl
  | cons a r ih =>
    rw [List.mapM_cons, h a (by simp), ih (fun x hx => h x (by simp [hx]))]
    rfl


end ZoektModel.C09
