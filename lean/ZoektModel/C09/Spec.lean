/-
C09 — the property as an executable predicate, written from the statement:

  every document added to a shard is read back with identical name, content, branches, checksum, language,
  sub-repository and symbol information; rejected documents are still present, with an explanation in place of
  their content.

`checkP repo docs outs` is evaluated by the driver on what the *implementation* read back, and is the conclusion of
`C09_roundtrip` (Props/C09.lean) for what the model reads back.
-/
import ZoektModel.C09.Model
namespace ZoektModel.C09

/-- the reason a document is rejected for, if any: the caller's, or "binary" for NUL content of an unclassified document -/
def rejected (d : Doc) : Bool := d.skip ≠ 0 || (d.category = 0 && d.content.contains 0)

/-- acceptable placeholder contents of a rejected document -/
def placeholderOk (d : Doc) (c : Bytes) : Bool :=
  (d.skip ≠ 0 && c == notIndexedMarker ++ explanation d.skip) ||
  (d.category = 0 && d.content.contains 0 && c == notIndexedMarker ++ explanation skipBinary)

/-- byte offset at which rune `k` of `content` starts (`content.length` for `k` = number of runes), Go's rune counting
    (an invalid byte is one rune) -/
def byteOfRune (content : Bytes) (k : Nat) : Option Nat :=
  let rs := decodeAll content
  if k < rs.length then (rs[k]?).map (·.off) else if k = rs.length then some content.length else none

def sortedByStart : List (Nat × Nat) → Bool
  | [] => true
  | [_] => true
  | a :: b :: r => decide (a.1 ≤ b.1) && sortedByStart (b :: r)

def expectLanguage (d : Doc) : Bytes := if d.language.isEmpty then d.langHint else d.language

/-- one document; `startRune` = number of runes of the contents read back before it. `none` = fine, else the field that differs. -/
def checkDoc (repo : Repo) (d : Doc) (o : DocOut) (startRune : Nat) : Option String :=
  if o.name ≠ d.name then some "name"
  else if rejected d && !placeholderOk d o.content then some "placeholder"
  else if !rejected d && o.content ≠ d.content then some "content"
  else if o.branches ≠ repo.branches.filter (d.branches.contains ·) then some "branches"
  else if o.checksum ≠ be 8 (crc64 o.content).toNat then some "checksum"
  else if o.language ≠ expectLanguage d then some "language"
  else if d.category ≠ 0 && o.category ≠ d.category then some "category"
  else if o.subRepoPath ≠ d.subRepoPath then some "subrepo"
  else if rejected d then
    (if o.sections.isEmpty && o.runeSections.isEmpty && o.symbols.isEmpty then none else some "rejected-symbols")
  else if !sortedByStart o.sections then some "sections-unsorted"
  else if o.symbols.length ≠ o.sections.length then some "symbols-length"
  else if d.symMeta.length = d.symbols.length &&
      !(o.sections.zip o.symbols).isPerm (d.symbols.zip (d.symMeta.map some)) then some "symbols"
  else if d.symMeta.length ≠ d.symbols.length && o.sections ≠ d.symbols then some "sections"
  else if o.runeSections.length ≠ o.sections.length then some "runesections-length"
  else if !(o.sections.zip o.runeSections).all (fun (s, r) =>
      decide (startRune ≤ r.1) && byteOfRune o.content (r.1 - startRune) == some s.1 &&
      decide (startRune ≤ r.2) && byteOfRune o.content (r.2 - startRune) == some s.2) then some "runesections"
  else none

def checkDocs (repo : Repo) : List Doc → List DocOut → Nat → Option String
  | [], [], _ => none
  | d :: ds, o :: os, startRune =>
    match checkDoc repo d o startRune with
    | some e => some e
    | none => checkDocs repo ds os (startRune + (decodeAll o.content).length)
  | _, _, _ => some "count"

/-- the statement, for documents that were all accepted by `Add` -/
def checkP (repo : Repo) (docs : List Doc) (outs : List DocOut) : Bool := (checkDocs repo docs outs 0).isNone

/-! ### the skip rule of the statement -/

/-- number of distinct trigrams of a content the way the indexer counts them (windows of three decoded runes) -/
def distinctTrigrams (content : Bytes) : Nat :=
  ((checkGrams (0 :: 0 :: (decodeAll content).map (·.r))).eraseDups).length

end ZoektModel.C09
