/-
C09 — one posting list: the bytes `newSearchableString` appends for increasing rune offsets decode
(`fromDeltas`, i.e. what `compressedPostingIterator` walks) to exactly those offsets — across the single-byte fast
path (delta < 0x80) and every multi-byte varint length.
-/
import ZoektModel.C09.Lemmas
namespace ZoektModel.C09
open ZoektModel

/-- strictly increasing from `last` on (the first offset may equal `last` only for the very first posting, `last = 0`) -/
def Increasing : Nat → List Nat → Prop
  | _, [] => True
  | last, o :: r => last ≤ o ∧ o < 2 ^ 32 ∧ Increasing o r

def pushAll (pl : PL) (offs : List Nat) : PL := offs.foldl PL.push pl

theorem sub32 (o last : Nat) (h1 : last ≤ o) (h2 : o < 2 ^ 32) :
    (UInt32.ofNat o - UInt32.ofNat last).toNat = o - last := by
  rw [UInt32.toNat_sub]
  simp only [UInt32.toNat_ofNat', Nat.reducePow] at *
  have : last % 4294967296 = last := Nat.mod_eq_of_lt (by omega)
  have : o % 4294967296 = o := Nat.mod_eq_of_lt (by omega)
  omega

theorem pushAll_data (offs : List Nat) : ∀ (pl : PL), Increasing pl.lastOff offs →
    (pushAll pl offs).data = pl.data ++ deltasEnc (u32s offs) (UInt32.ofNat pl.lastOff) := by
  induction offs with
  | nil => intro pl _; simp [pushAll, u32s, deltasEnc]
  | cons o r ih =>
    intro pl h
    obtain ⟨h1, h2, h3⟩ := h
    have := ih (pl.push o) (by simpa [PL.push] using h3)
    simp only [pushAll, List.foldl_cons] at this ⊢
    rw [this]
    simp only [PL.push, u32s, List.map_cons, deltasEnc, List.append_assoc]
    rw [sub32 o pl.lastOff h1 h2]

/-- **postings_roundtrip** -/
theorem postings_decode (offs : List Nat) (h : Increasing 0 offs) :
    fromDeltas (pushAll PL.empty offs).data = some (u32s offs) := by
  have := pushAll_data offs PL.empty (by simpa [PL.empty] using h)
  rw [this]
  simp only [PL.empty, List.nil_append]
  have e : UInt32.ofNat 0 = 0 := rfl
  rw [e]
  unfold fromDeltas
  have hv := varints_deltasEnc (u32s offs) 0 []
  simp [varints_nil] at hv
  simp [hv, undelta_deltaNats]

end ZoektModel.C09
