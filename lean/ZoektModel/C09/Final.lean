/-
C09 — from the per-field facts to the executable statement `checkDocs … = none`.
-/
import ZoektModel.C09.SymRep
namespace ZoektModel.C09
open ZoektModel

theorem insertSorted_perm' {α} (lt : α → α → Bool) (x : α) (l : List α) : (insertSorted lt x l).Perm (x :: l) := by
  induction l with
  | nil => exact List.Perm.refl _
  | cons y r ih =>
    unfold insertSorted
    split
    · exact List.Perm.refl _
    · exact (List.Perm.cons y ih).trans (List.Perm.swap x y r)

theorem isort_perm' {α} (lt : α → α → Bool) (l : List α) : (isort lt l).Perm l := by
  induction l with
  | nil => exact List.Perm.refl _
  | cons x r ih =>
    unfold isort
    exact (insertSorted_perm' lt x _).trans (List.Perm.cons x ih)

abbrev SS := (Nat × Nat) × Sym

def startLt (a b : SS) : Bool := a.1.1 < b.1.1

theorem insertSorted_sorted (x : SS) (l : List SS) (h : l.Pairwise fun a b => a.1.1 ≤ b.1.1) :
    (insertSorted startLt x l).Pairwise fun a b => a.1.1 ≤ b.1.1 := by
  induction l with
  | nil => simp [insertSorted]
  | cons y r ih =>
    have hy : (∀ b ∈ r, y.1.1 ≤ b.1.1) ∧ r.Pairwise fun a b => a.1.1 ≤ b.1.1 := by simpa using h
    unfold insertSorted
    split
    · rename_i hlt
      have hxy : x.1.1 < y.1.1 := by simpa [startLt] using hlt
      refine List.Pairwise.cons ?_ h
      intro b hb
      simp only [List.mem_cons] at hb
      rcases hb with hb | hb
      · subst hb; omega
      · have := hy.1 b hb; omega
    · rename_i hnl
      have hyx : y.1.1 ≤ x.1.1 := by
        have : ¬ (x.1.1 < y.1.1) := by simpa [startLt] using hnl
        omega
      refine List.Pairwise.cons ?_ (ih hy.2)
      intro b hb
      have := (insertSorted_perm' startLt x r).subset hb
      simp only [List.mem_cons] at this
      rcases this with hb' | hb'
      · subst hb'; exact hyx
      · exact hy.1 b hb'

theorem isort_sorted (l : List SS) : (isort startLt l).Pairwise fun a b => a.1.1 ≤ b.1.1 := by
  induction l with
  | nil => simp [isort]
  | cons x r ih => unfold isort; exact insertSorted_sorted x _ ih

theorem sortedByStart_of_pairwise : ∀ (l : List (Nat × Nat)), l.Pairwise (fun a b => a.1 ≤ b.1) → sortedByStart l = true := by
  intro l
  induction l with
  | nil => intro _; rfl
  | cons a r ih =>
    intro h
    cases r with
    | nil => rfl
    | cons b r' =>
      have ha : (∀ c ∈ b :: r', a.1 ≤ c.1) ∧ (b :: r').Pairwise fun a b => a.1 ≤ b.1 := by simpa using h
      simp only [sortedByStart, Bool.and_eq_true, decide_eq_true_eq]
      exact ⟨ha.1 b (by simp), ih ha.2⟩

theorem zip_map_some (z : List SS) :
    (z.map (·.1)).zip ((z.map (·.2)).map some) = z.map fun p => (p.1, some p.2) := by
  induction z with
  | nil => rfl
  | cons a r ih =>
    simp only [List.map_cons, List.zip_cons_cons, ih]

theorem zip_some (secs : List (Nat × Nat)) : ∀ (ms : List Sym),
    secs.zip (ms.map some) = (secs.zip ms).map fun p => (p.1, some p.2) := by
  induction secs with
  | nil => intro m; simp
  | cons a r ih =>
    intro m
    cases m with
    | nil => simp
    | cons b m' => simp [ih]

/-- the accepted, well-formed case of `effective`: sections sorted by start, zipped with their metadata a permutation -/
theorem effective_sorted (d : Doc) (hacc : rejected d = false) (hwf : d.symMeta.length = d.symbols.length) :
    sortedByStart (effective d).symbols = true ∧
    ((effective d).symbols.zip ((effective d).symMeta.map some)).Perm (d.symbols.zip (d.symMeta.map some)) := by
  have hs : ¬ effSkip d ≠ 0 := by
    intro hc
    have := (rejected_iff d).2 hc
    rw [hacc] at this
    cases this
  unfold effective
  rw [if_neg hs, if_pos hwf]
  simp only
  have hsorted := isort_sorted (d.symbols.zip d.symMeta)
  refine ⟨?_, ?_⟩
  · apply sortedByStart_of_pairwise
    unfold sortSymbols
    have : (isort (fun a b => decide (a.1.1 < b.1.1)) (d.symbols.zip d.symMeta)) = isort startLt (d.symbols.zip d.symMeta) := rfl
    rw [this]
    exact hsorted.map _ (fun _ _ h => h)
  · rw [zip_map_some, zip_some]
    exact (isort_perm' _ _).map _

theorem effective_rejected_meta (d : Doc) (h : rejected d = true) : (effective d).symMeta = [] := by
  have hs := (rejected_iff d).1 h
  unfold effective
  rw [if_pos hs]

/-- everything `checkDoc` asks of one document -/
structure DocFacts (repo : Repo) (d : Doc) (o : DocOut) (sr : Nat) : Prop where
  name : o.name = d.name
  content : o.content = (effective d).content
  branches : o.branches = repo.branches.filter (d.branches.contains ·)
  checksum : o.checksum = be 8 (crc64 o.content).toNat
  language : o.language = expectLanguage d
  category : d.category ≠ 0 → o.category = d.category
  subrepo : o.subRepoPath = d.subRepoPath
  sections : o.sections = (effective d).symbols
  symbols : o.symbols = (effective d).symMeta.map some
  runeLen : o.runeSections.length = o.sections.length
  runes : ∀ q ∈ o.sections.zip o.runeSections, Denotes o.content sr q.1.1 q.2.1 ∧ Denotes o.content sr q.1.2 q.2.2

theorem checkDoc_none (repo : Repo) (d : Doc) (o : DocOut) (sr : Nat) (hwf : d.symMeta.length = d.symbols.length)
    (h : DocFacts repo d o sr) : checkDoc repo d o sr = none := by
  unfold checkDoc
  rw [if_neg (by simp [h.name])]
  by_cases hrej : rejected d = true
  · have hp := effective_rejected d hrej
    have hm := effective_rejected_meta d hrej
    have hc : placeholderOk d o.content = true := by rw [h.content]; exact hp.1
    have hs : o.sections = [] := by rw [h.sections]; exact hp.2
    have hy : o.symbols = [] := by rw [h.symbols, hm]; rfl
    have hr : o.runeSections = [] := by
      have := h.runeLen
      rw [hs] at this
      exact List.eq_nil_of_length_eq_zero (by simpa using this)
    simp [hrej, hc, h.branches, ← h.checksum, h.language, h.subrepo, hs, hy, hr]
    intro hcat
    exact h.category hcat
  · have hacc : rejected d = false := by simpa using hrej
    have hcont : o.content = d.content := by rw [h.content]; exact effective_accepted d hacc
    have hsorted := effective_sorted d hacc hwf
    have hlen : (effective d).symMeta.length = (effective d).symbols.length := effective_lengths d hwf
    have hsl : o.symbols.length = o.sections.length := by rw [h.symbols, h.sections]; simp [hlen]
    have hperm : ((o.sections.zip o.symbols).isPerm (d.symbols.zip (d.symMeta.map some))) = true := by
      rw [List.isPerm_iff, h.sections, h.symbols]
      exact hsorted.2
    have hss : sortedByStart o.sections = true := by rw [h.sections]; exact hsorted.1
    have hall : (o.sections.zip o.runeSections).all (fun x =>
        decide (sr ≤ x.2.1) && byteOfRune o.content (x.2.1 - sr) == some x.1.1 &&
        decide (sr ≤ x.2.2) && byteOfRune o.content (x.2.2 - sr) == some x.1.2) = true := by
      rw [List.all_eq_true]
      intro q hq
      have := h.runes q hq
      simp [Denotes] at this
      simp [this.1.1, this.1.2, this.2.1, this.2.2]
    rw [if_neg (by simp [hacc])]
    rw [if_neg (by simp [hacc, hcont])]
    rw [if_neg (fun hne => hne h.branches)]
    rw [if_neg (fun hne => hne h.checksum)]
    rw [if_neg (fun hne => hne h.language)]
    rw [if_neg (by intro hc; simp at hc; exact hc.2 (h.category hc.1))]
    rw [if_neg (fun hne => hne h.subrepo)]
    rw [if_neg (by simp [hacc])]
    rw [if_neg (by simp [hss])]
    rw [if_neg (fun hne => hne hsl)]
    rw [if_neg (by simp [hwf, hperm])]
    rw [if_neg (by simp [hwf])]
    rw [if_neg (fun hne => hne h.runeLen)]
    rw [if_neg (by rw [hall]; simp)]

/-- rune offset at which document `i` of a read-back shard starts: the runes of the contents before it -/
def startRune (outs : List DocOut) (i : Nat) : Nat := ((outs.take i).map fun o => (decodeAll o.content).length).sum

theorem checkDocs_none (repo : Repo) : ∀ (ds : List Doc) (os : List DocOut) (sr : Nat), ds.length = os.length →
    (∀ (i : Nat) (d : Doc) (o : DocOut), ds[i]? = some d → os[i]? = some o → checkDoc repo d o (sr + startRune os i) = none) →
    checkDocs repo ds os sr = none := by
  intro ds
  induction ds with
  | nil =>
    intro os sr hl _
    have : os = [] := List.eq_nil_of_length_eq_zero (by simpa using hl.symm)
    subst this
    rfl
  | cons d r ih =>
    intro os sr hl h
    cases os with
    | nil => simp at hl
    | cons o os' =>
      simp only [checkDocs]
      have h0 := h 0 d o (by simp) (by simp)
      simp only [startRune, List.take_zero, List.map_nil, List.sum_nil, Nat.add_zero] at h0
      rw [h0]
      apply ih os' _ (by simpa using hl)
      intro i d' o' hd ho
      have := h (i + 1) d' o' (by simpa using hd) (by simpa using ho)
      simp only [startRune, List.take_succ_cons, List.map_cons, List.sum_cons] at this
      simp only [startRune]
      rw [show sr + (decodeAll o.content).length + ((os'.take i).map fun o => (decodeAll o.content).length).sum
          = sr + ((decodeAll o.content).length + ((os'.take i).map fun o => (decodeAll o.content).length).sum) by omega]
      exact this

end ZoektModel.C09
