/-
C09 — `DocChecker` as the stateful object it is: one checker (one per `Builder`) is reused for every document, and its
distinct-trigram set survives from call to call. Model of `Check` *with* that state (`clearTrigrams` on entry to the scan,
the set left as it is on every return), so that the reuse itself is inside the model. Core Lean only.
-/
import ZoektModel.C09.Model
namespace ZoektModel.C09

/-- the counting loop of `Check` from a given set: the set when the loop ends, and whether it ended by the early return -/
def scan : List Nat → List Nat → Nat → List Nat × Bool
  | [], seen, _ => (seen, false)
  | g :: r, seen, max =>
    let seen := if seen.contains g then seen else g :: seen
    if seen.length > max then (seen, true) else scan r seen max

/-- `DocChecker.Check` on a checker whose set currently holds `st`: new set and SkipReason. Returns before the scan leave
    the set alone; the scan starts by emptying it (`clearTrigrams`) and leaves behind whatever it collected. -/
def checkSt (st : List Nat) (content : Bytes) (maxTrigramCount : Nat) (allowLargeFile : Bool) : List Nat × Nat :=
  if content.length = 0 then (st, 0)
  else if content.length < 3 then (st, 2)
  else if content.contains 0 then (st, 3)
  else if content.length - 2 ≤ maxTrigramCount || allowLargeFile then (st, 0)
  else
    let r := scan (checkGrams (0 :: 0 :: (decodeAll content).map (·.r))) [] maxTrigramCount
    (r.1, if r.2 then 4 else 0)

/-- a sequence of calls on one checker -/
def checkSeq : List Nat → List (Bytes × Nat × Bool) → List Nat
  | _, [] => []
  | st, (c, m, a) :: rest => (checkSt st c m a).2 :: checkSeq (checkSt st c m a).1 rest

end ZoektModel.C09
