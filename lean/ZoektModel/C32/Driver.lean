import ZoektModel.Basic.Proto
namespace ZoektModel.C32
/-- stub: no model driver for C32 yet -/
def main : IO Unit := ZoektModel.Proto.runLines (fun _ => ZoektModel.Proto.badCase "no model driver for C32")
end ZoektModel.C32
