import ZoektModel.Basic.Proto
import ZoektModel.C32.Spec
namespace ZoektModel.C32
open ZoektModel ZoektModel.Proto

/-! `list index=<files>` (listIndexed: ids alive in the index directory), and
    `cleanup <merging 0|1> <now> <assigned ids> index=<files> trash=<files> tmps=<n>`
    file: `<c|s><key>@<mtime>:<id>.<name>.<tomb>.<date>/…` (`:-` = no repositories), files comma separated, `-` = none.
    Answer / implementation output: `index=<files> trash=<files> tmps=<n>`, files in basename order. -/

def parseRepo (s : String) : Option Repo :=
  match s.splitOn "." with
  | [i, n, t, d] => do pure ⟨← i.toNat?, ← n.toNat?, ← bool? t, ← d.toInt?⟩
  | _ => none

def parseFile (s : String) : Option File :=
  match s.splitOn ":" with
  | [h, rs] =>
    match h.splitOn "@" with
    | [b, m] => do
      let c ← (if b.startsWith "c" then some true else if b.startsWith "s" then some false else none)
      let k ← (b.drop 1).toString.toNat?
      let m ← m.toInt?
      let rs ← (if rs == "-" then some [] else (rs.splitOn "/").mapM parseRepo)
      pure ⟨c, k, m, rs⟩
    | _ => none
  | _ => none

def parseFiles (s : String) : Option (List File) :=
  if s == "-" then some [] else (s.splitOn ",").mapM parseFile

def dropPrefix? (s pre : String) : Option String :=
  if s.startsWith pre then some (s.drop pre.length).toString else none

def parseDir (a b c : String) : Option Dir := do
  pure ⟨← parseFiles (← dropPrefix? a "index="), ← parseFiles (← dropPrefix? b "trash="), ← (← dropPrefix? c "tmps=").toNat?⟩

def showRepo (r : Repo) : String := s!"{r.id}.{r.name}.{showBool r.tomb}.{r.date}"

def showFile (f : File) : String :=
  s!"{if f.compound then "c" else "s"}{f.key}@{f.mtime}:{if f.repos.isEmpty then "-" else "/".intercalate (f.repos.map showRepo)}"

def showFiles (l : List File) : String := showList showFile (sortFiles l)

def showDir (d : Dir) : String := s!"index={showFiles d.index} trash={showFiles d.trash} tmps={d.tmps}"

def insertionSortNat (l : List Nat) : List Nat :=
  l.foldr (fun x acc => (acc.filter (· < x)) ++ x :: (acc.filter (fun y => ¬ y < x))) []

def handle (line : String) : String :=
  let (inp, impl) := splitCase line
  match fields inp with
  | ["cleanup", m, now, asg, a, b, c] =>
    match bool? m, now.toInt?, natList? asg, parseDir a b c with
    | some m, some now, some asg, some pre =>
      let model := showDir (cleanup pre asg now m)
      match fields impl with
      | [x, y, z] =>
        match parseDir x y z with
        | some post =>
          -- the narrowed failure keys must never fire on the model's own result (they are not covered by a theorem)
          if checkPM pre asg now m (cleanup pre asg now m) == some "assigned-lost" then badCase "the model itself loses an assigned repository outside the known classes" else
          match checkPM pre asg now m post with
          | some k => specFail model k
          | none => answer model
        | none => badCase "impl dir"
      | _ => badCase "impl fields"
    | _, _, _, _ => badCase "fields"
  | ["list", a] =>
    -- `listIndexed(indexDir)`: the ids `getShards` finds alive in the index directory; impl output = the ids it returned
    match (do parseFiles (← dropPrefix? a "index=")) with
    | some files =>
      let model := showNatList ((getShards files false).map (·.1))
      let want := (insertionSortNat ((allIds files).filter (searchable files ·))).eraseDups
      match natList? impl with
      | some got => if got == want then answer model else specFail model "listindexed-not-the-alive-repositories"
      | none => badCase "impl ids"
    | none => badCase "files"
  | _ => badCase "op"

def main : IO Unit := runLines handle
end ZoektModel.C32
