/-
C32 — lemmas for `assigned_kept`: a file of the index directory survives, with everything that was alive in it still
alive, every operation that is not aimed at its basename.
-/
import ZoektModel.C32.Phases
namespace ZoektModel.C32

/-- `f`'s basename still holds a file in which everything alive in `f` is alive -/
def Kept (f : File) (fs : List File) : Prop :=
  ∃ g ∈ fs, sameBase g f.compound f.key = true ∧ ∀ id, aliveIn f id = true → aliveIn g id = true

/-- shard `s` does not name `f`'s basename -/
def Off (f : File) (s : Shard) : Prop := ¬ (s.compound = f.compound ∧ s.key = f.key)

theorem kept_rmBase {f : File} {fs : List File} {c : Bool} {k : Nat} (h : ¬ (c = f.compound ∧ k = f.key)) (hk : Kept f fs) :
    Kept f (rmBase fs c k) := by
  obtain ⟨g, hg, hb, ha⟩ := hk
  refine ⟨g, ?_, hb, ha⟩
  simp only [rmBase, List.mem_filter]
  refine ⟨hg, ?_⟩
  rw [sameBase_iff] at hb
  cases hs : sameBase g c k
  · rfl
  · rw [sameBase_iff] at hs
    exact absurd ⟨hs.1.symm.trans hb.1, hs.2.symm.trans hb.2⟩ h

theorem kept_touch {f : File} {fs : List File} {c : Bool} {k : Nat} {t : Int} (hk : Kept f fs) : Kept f (touch fs c k t) := by
  obtain ⟨g, hg, hb, ha⟩ := hk
  refine ⟨if sameBase g c k then { g with mtime := t } else g, ?_, ?_, ?_⟩
  · simp only [touch, List.mem_map]; exact ⟨g, hg, rfl⟩
  · split <;> simpa [sameBase] using hb
  · intro id hid; split <;> simpa [aliveIn] using ha id hid

theorem kept_setTomb {f : File} {fs : List File} {c : Bool} {k a : Nat} {b : Bool}
    (h : b = false ∨ ¬ (c = f.compound ∧ k = f.key) ∨ aliveIn f a = false) (hk : Kept f fs) : Kept f (setTombIn fs c k a b) := by
  obtain ⟨g, hg, hb, ha⟩ := hk
  by_cases hs : sameBase g c k = true
  · refine ⟨{ g with repos := g.repos.map fun r => if r.id = a then { r with tomb := b } else r }, ?_, by simpa [sameBase] using hb, ?_⟩
    · simp only [setTombIn, List.mem_map]; exact ⟨g, hg, by simp [hs]⟩
    · intro id hid
      have hgid := ha id hid
      rw [aliveIn_iff] at hgid ⊢
      obtain ⟨r, hr, h1, h2⟩ := hgid
      by_cases hra : r.id = a
      · rcases h with rfl | h | h
        · exact ⟨{ r with tomb := false }, List.mem_map.mpr ⟨r, hr, by simp [hra]⟩, h1, rfl⟩
        · rw [sameBase_iff] at hs hb
          exact absurd ⟨hs.1.symm.trans hb.1, hs.2.symm.trans hb.2⟩ h
        · rw [← hra, h1, hid] at h; cases h
      · exact ⟨r, List.mem_map.mpr ⟨r, hr, by simp [hra]⟩, h1, h2⟩
  · refine ⟨g, ?_, hb, ha⟩
    simp only [setTombIn, List.mem_map]; exact ⟨g, hg, by simp [hs]⟩

theorem kept_cons {f x : File} {fs : List File} (hk : Kept f fs) : Kept f (x :: fs) := by
  obtain ⟨g, hg, hb, ha⟩ := hk; exact ⟨g, List.mem_cons_of_mem _ hg, hb, ha⟩

theorem kept_removeShard {f : File} {d : Dir} {s : Shard} (h : s.inTrash = true ∨ Off f s) (hk : Kept f d.index) :
    Kept f (removeShard d s).index := by
  unfold removeShard
  cases hs : s.inTrash
  · simp only [Bool.false_eq_true, if_false]
    rcases h with h | h
    · rw [hs] at h; cases h
    · exact kept_rmBase h hk
  · simpa using hk

theorem kept_removeAll {f : File} (shards : List Shard) (d : Dir) (h : ∀ s ∈ shards, s.inTrash = true ∨ Off f s) (hk : Kept f d.index) :
    Kept f (removeAll d shards).index := by
  induction shards generalizing d with
  | nil => exact hk
  | cons s r ih =>
    simp only [removeAll, List.foldl_cons]
    exact ih (removeShard d s) (fun s' hs' => h s' (by simp [hs'])) (kept_removeShard (h s (by simp)) hk)

theorem kept_chtimes {f : File} {d : Dir} {s : Shard} {t : Int} (hk : Kept f d.index) : Kept f (chtimes d s t).index := by
  unfold chtimes
  split
  · exact hk
  · exact kept_touch hk

theorem kept_moveOne {f : File} {d : Dir} {s : Shard} (toTrash : Bool) (h : Off f s) (hk : Kept f d.index) :
    Kept f (moveOne toTrash d s).index := by
  unfold moveOne
  cases toTrash
  · simp only [Bool.false_eq_true, if_false]
    split
    · exact kept_rmBase h hk
    · split
      · exact kept_rmBase h hk
      · exact kept_cons (kept_rmBase h hk)
  · simp only [if_true]
    split
    · exact kept_rmBase h hk
    · split
      · exact hk
      · exact kept_rmBase h hk

theorem kept_moveAll {f : File} (toTrash : Bool) (shards : List Shard) (d : Dir) (h : ∀ s ∈ shards, Off f s) (hk : Kept f d.index) :
    Kept f (moveAll toTrash d shards).index := by
  induction shards generalizing d with
  | nil => exact hk
  | cons s r ih =>
    simp only [moveAll, List.foldl_cons]
    exact ih (moveOne toTrash d s) (fun s' hs' => h s' (by simp [hs'])) (kept_moveOne toTrash (h s (by simp)) hk)

theorem kept_inconsOne {f : File} (merging : Bool) (d : Dir) (e : Nat × List Shard)
    (hoff : consistentRepoName e.2 = false → ∀ s ∈ e.2, Off f s) (hk : Kept f d.index) : Kept f (inconsOne merging d e).index := by
  unfold inconsOne
  cases hc : consistentRepoName e.2
  case true => simpa using hk
  case false =>
    simp only [Bool.false_eq_true, if_false]
    have ho := hoff hc
    have inner : ∀ (l : List Shard) (acc : Dir × List Shard), (∀ s ∈ l, Off f s) → (∀ s ∈ acc.2, Off f s) → Kept f acc.1.index →
        let r := l.foldl (fun (acc : Dir × List Shard) s =>
          if merging && s.compound then (setTomb acc.1 s e.1 true, acc.2) else (acc.1, acc.2 ++ [s])) acc
        Kept f r.1.index ∧ ∀ s ∈ r.2, Off f s := by
      intro l
      induction l with
      | nil => intro acc _ h2 h3; exact ⟨h3, h2⟩
      | cons s r ih =>
        intro acc h1 h2 h3
        simp only [List.foldl_cons]
        split
        · exact ih _ (fun s' hs' => h1 s' (by simp [hs'])) h2 (kept_setTomb (Or.inr (Or.inl (h1 s (by simp)))) h3)
        · refine ih (acc.1, acc.2 ++ [s]) (fun s' hs' => h1 s' (by simp [hs'])) ?_ h3
          intro s' hs'
          rcases List.mem_append.mp hs' with h | h
          · exact h2 s' h
          · simp only [List.mem_singleton] at h; rw [h]; exact h1 s (by simp)
    have hi := inner e.2 (d, []) ho (fun _ h => by cases h) hk
    simp only [] at hi
    exact kept_removeAll _ _ (fun s hs => Or.inr (hi.2 s hs)) hi.1

theorem kept_phase3 {f : File} (merging : Bool) (index0 : SMap) (d : Dir)
    (hoff : ∀ e ∈ index0, consistentRepoName e.2 = false → ∀ s ∈ e.2, Off f s) (hk : Kept f d.index) :
    Kept f (phase3 merging index0 d).1.index := by
  show Kept f (index0.foldl (inconsOne merging) d).index
  induction index0 generalizing d with
  | nil => exact hk
  | cons e r ih =>
    simp only [List.foldl_cons]
    exact ih (inconsOne merging d e) (fun e' he' => hoff e' (by simp [he'])) (kept_inconsOne merging d e (hoff e (by simp)) hk)

theorem kept_restoreOne {f : File} (trash1 : SMap) (tombs : List (Nat × Shard)) (acc : Dir × SMap) (id : Nat)
    (hoff : ∀ e ∈ trash1, ∀ s ∈ e.2, Off f s) (hk : Kept f acc.1.index) : Kept f (restoreOne trash1 tombs acc id).1.index := by
  unfold restoreOne
  simp only []
  cases hg : mapGet trash1 id with
  | some shards =>
    simp only []
    obtain ⟨e, he, _, h2⟩ := mapGet_some_mem trash1 id shards hg
    exact kept_moveAll false shards acc.1 (fun s hs => hoff e he s (by rw [h2]; exact hs)) hk
  | none =>
    simp only []
    cases hg2 : mapGet tombs id with
    | some s => simp only []; exact kept_setTomb (Or.inl rfl) hk
    | none => exact hk

theorem kept_phase4 {f : File} (A : List Nat) (trash1 : SMap) (tombs : List (Nat × Shard)) (d : Dir) (index1 : SMap)
    (hoff : ∀ e ∈ trash1, ∀ s ∈ e.2, Off f s) (hk : Kept f d.index) : Kept f (phase4 A trash1 tombs d index1).1.index := by
  have gen : ∀ (l : List Nat) (acc : Dir × SMap), Kept f acc.1.index → Kept f (l.foldl (restoreOne trash1 tombs) acc).1.index := by
    intro l
    induction l with
    | nil => exact fun _ h => h
    | cons id r ih => intro acc h; simp only [List.foldl_cons]; exact ih _ (kept_restoreOne trash1 tombs acc id hoff h)
  exact gen A (d, index1) hk

theorem phase4_map_sub (A : List Nat) (trash1 : SMap) (tombs : List (Nat × Shard)) (d : Dir) (index1 : SMap) :
    ∀ e ∈ (phase4 A trash1 tombs d index1).2, e ∈ index1 ∧ A.contains e.1 = false := by
  have gen : ∀ (l : List Nat) (acc : Dir × SMap), ∀ e ∈ (l.foldl (restoreOne trash1 tombs) acc).2, e ∈ acc.2 ∧ ∀ id ∈ l, e.1 ≠ id := by
    intro l
    induction l with
    | nil => intro acc e he; exact ⟨he, fun _ h => by cases h⟩
    | cons id r ih =>
      intro acc e he
      simp only [List.foldl_cons] at he
      have h1 := ih _ e he
      have h2 : (restoreOne trash1 tombs acc id).2 = mapErase acc.2 id := by
        unfold restoreOne; simp only []; cases mapGet trash1 id <;> simp only [] <;> cases mapGet tombs id <;> rfl
      rw [h2, mem_mapErase] at h1
      refine ⟨h1.1.1, ?_⟩
      intro id' hid'
      rcases List.mem_cons.mp hid' with rfl | h
      · exact h1.1.2
      · exact h1.2 id' h
  intro e he
  have := gen A (d, index1) e he
  refine ⟨this.1, ?_⟩
  cases hc : A.contains e.1
  · rfl
  · exact absurd rfl (this.2 e.1 (by simpa using hc))

theorem kept_trashOne {f : File} (now : Int) (merging : Bool) (d : Dir) (e : Nat × List Shard) (hoff : ∀ s ∈ e.2, Off f s)
    (hk : Kept f d.index) : Kept f (trashOne now merging d e).index := by
  have touchAll : ∀ (l : List Shard) (d : Dir), Kept f d.index → Kept f (l.foldl (fun d s => chtimes d s now) d).index := by
    intro l
    induction l with
    | nil => intro d h; exact h
    | cons s r ih => intro d h; simp only [List.foldl_cons]; exact ih _ (kept_chtimes h)
  unfold trashOne
  simp only []
  have h1 := touchAll e.2 d hk
  generalize e.2.foldl (fun d s => chtimes d s now) d = d1 at h1
  cases merging
  · simp only [Bool.false_eq_true, if_false]; exact kept_moveAll true e.2 d1 hoff h1
  · simp only [if_true]
    unfold maybeSetTombstone
    split
    · rename_i s hl
      split
      · simp only [if_true]
        exact kept_setTomb (Or.inr (Or.inl (hoff s (by rw [hl]; simp)))) h1
      · simp only [Bool.false_eq_true, if_false]; exact kept_moveAll true e.2 d1 hoff h1
    · simp only [Bool.false_eq_true, if_false]; exact kept_moveAll true e.2 d1 hoff h1

theorem kept_phase5 {f : File} (now : Int) (merging : Bool) (rest : SMap) (d : Dir) (hoff : ∀ e ∈ rest, ∀ s ∈ e.2, Off f s)
    (hk : Kept f d.index) : Kept f (phase5 now merging rest d).index := by
  unfold phase5
  induction rest generalizing d with
  | nil => exact hk
  | cons e r ih =>
    simp only [List.foldl_cons]
    exact ih _ (fun e' he' => hoff e' (by simp [he'])) (kept_trashOne now merging d e (hoff e (by simp)) hk)

/-! ### the statement's "shards disagree on the repository name" and the code's `consistentRepoName` -/

theorem consistentRepoName_iff (l : List Shard) : consistentRepoName l = true ↔ ∀ s ∈ l, ∀ t ∈ l, s.name = t.name := by
  cases l with
  | nil => simp [consistentRepoName]
  | cons a r =>
    simp only [consistentRepoName, List.all_eq_true, beq_iff_eq]
    constructor
    · intro h s hs t ht
      have hs' : s.name = a.name := by
        rcases List.mem_cons.mp hs with rfl | h'
        · rfl
        · exact h s h'
      have ht' : t.name = a.name := by
        rcases List.mem_cons.mp ht with rfl | h'
        · rfl
        · exact h t h'
      rw [hs', ht']
    · intro h x hx; exact h x (by simp [hx]) a (by simp)

theorem consistent_iff (files : List File) (id : Nat) : consistent files id = true ↔ ∀ a ∈ namesOf files id, ∀ b ∈ namesOf files id, a = b := by
  unfold consistent
  cases h : namesOf files id with
  | nil => simp
  | cons n r =>
    simp only [List.all_eq_true, beq_iff_eq]
    constructor
    · intro hh a ha b hb
      have ha' : a = n := by
        rcases List.mem_cons.mp ha with rfl | h'
        · rfl
        · exact hh a h'
      have hb' : b = n := by
        rcases List.mem_cons.mp hb with rfl | h'
        · rfl
        · exact hh b h'
      rw [ha', hb']
    · intro hh x hx; exact hh x (by simp [hx]) n (by simp)

theorem consistent_link (files : List File) (t : Bool) (id : Nat) (h : consistent files id = true)
    (e : Nat × List Shard) (he : e ∈ getShards files t) (hid : e.1 = id) : consistentRepoName e.2 = true := by
  rw [consistentRepoName_iff]
  rw [consistent_iff] at h
  have name_in : ∀ s ∈ e.2, s.name ∈ namesOf files id := by
    intro s hs
    have hk := (getShards_spec files t).1 e he s hs
    obtain ⟨f, hf, r, hr, htomb, rfl⟩ := (getShards_spec files t).2.2 e he s hs
    simp only [namesOf, List.mem_flatMap, List.mem_map, List.mem_filter]
    refine ⟨f, hf, r, ⟨hr, ?_⟩, rfl⟩
    have : r.id = id := by rw [← hid, ← hk]; rfl
    simp [this, htomb]
  intro s hs t' ht'
  exact h _ (name_in s hs) _ (name_in t' ht')

end ZoektModel.C32
