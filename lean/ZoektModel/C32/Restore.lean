/-
C32 — lemmas for `assigned_restored`: counting the shards recorded for one file name, what survives phase 1, and the
restore itself.
-/
import ZoektModel.C32.Purge
namespace ZoektModel.C32

def NamesUnique (fs : List File) : Prop := ∀ f ∈ fs, ∀ g ∈ fs, f.compound = g.compound → f.key = g.key → f = g

theorem namesUnique_rmBase {fs : List File} (h : NamesUnique fs) (c : Bool) (k : Nat) : NamesUnique (rmBase fs c k) := by
  intro f hf g hg
  simp only [rmBase, List.mem_filter] at hf hg
  exact h f hf.1 g hg.1

theorem namesUnique_touch {fs : List File} (h : NamesUnique fs) (c : Bool) (k : Nat) (t : Int) : NamesUnique (touch fs c k t) := by
  intro f hf g hg h1 h2
  simp only [touch, List.mem_map] at hf hg
  obtain ⟨f0, hf0, rfl⟩ := hf
  obtain ⟨g0, hg0, rfl⟩ := hg
  have hc : f0.compound = g0.compound := by
    have := h1; split at this <;> split at this <;> simpa using this
  have hk : f0.key = g0.key := by
    have := h2; split at this <;> split at this <;> simpa using this
  have := h f0 hf0 g0 hg0 hc hk
  subst this; rfl

/-! ### how many shards the map records for one file name -/

def atF (f : File) (s : Shard) : Bool := s.compound == f.compound && s.key == f.key

theorem atF_iff (f : File) (s : Shard) : atF f s = true ↔ ¬ Off f s := by
  simp [atF, Off]

def cntF (f : File) (m : SMap) : Nat := (m.map fun e => e.2.countP (atF f)).sum

theorem cntF_mapAdd (f : File) (m : SMap) (s : Shard) : cntF f (mapAdd m s) = cntF f m + (if atF f s then 1 else 0) := by
  induction m with
  | nil => simp [mapAdd, cntF, List.countP_cons]
  | cons e r ih =>
    obtain ⟨k, v⟩ := e
    simp only [mapAdd]
    split
    · simp only [cntF, List.map_cons, List.sum_cons, List.countP_append, List.countP_cons, List.countP_nil]; omega
    · split
      · simp only [cntF, List.map_cons, List.sum_cons, List.countP_cons, List.countP_nil]; omega
      · simp only [cntF, List.map_cons, List.sum_cons] at ih ⊢; omega

/-- the number of alive repository entries of the files named like `f` -/
def wF (f : File) (g : File) : Nat := if sameBase g f.compound f.key then (g.repos.filter fun r => !r.tomb).length else 0

def WF_ (f : File) (l : List File) : Nat := (l.map (wF f)).sum

theorem WF_insertSorted (f x : File) (l : List File) : WF_ f (insertSorted x l) = wF f x + WF_ f l := by
  induction l with
  | nil => simp [insertSorted, WF_]
  | cons y r ih =>
    simp only [insertSorted]
    split
    · simp [WF_]
    · simp only [WF_, List.map_cons, List.sum_cons] at ih ⊢; omega

theorem WF_sortFiles (f : File) (l : List File) : WF_ f (sortFiles l) = WF_ f l := by
  induction l with
  | nil => simp [sortFiles]
  | cons y r ih =>
    simp only [sortFiles, List.foldr_cons] at ih ⊢
    rw [WF_insertSorted, ih]; simp [WF_]

theorem cntF_getShards (f : File) (files : List File) (t : Bool) : cntF f (getShards files t) = WF_ f files := by
  have inner : ∀ (g : File) (rs : List Repo) (m : SMap),
      cntF f (rs.foldl (fun m r => if r.tomb then m else mapAdd m ⟨r.id, r.name, t, g.compound, g.key, g.mtime⟩) m) =
        cntF f m + (if sameBase g f.compound f.key then (rs.filter fun r => !r.tomb).length else 0) := by
    intro g rs
    induction rs with
    | nil => intro m; simp
    | cons r rest ih =>
      intro m
      simp only [List.foldl_cons]
      cases ht : r.tomb
      · simp only [Bool.false_eq_true, if_false]
        rw [ih, cntF_mapAdd]
        simp only [atF, sameBase, List.filter_cons, ht, Bool.not_false, if_true, List.length_cons]
        by_cases hb : (g.compound == f.compound && g.key == f.key) = true
        · simp only [hb, if_true]; omega
        · have hb' : (g.compound == f.compound && g.key == f.key) = false := by simpa using hb
          simp [hb']
      · simp only [if_true]
        rw [ih]
        simp [List.filter_cons, ht]
  have outer : ∀ (fs : List File) (m : SMap),
      cntF f (fs.foldl (fun m g => g.repos.foldl (fun m r => if r.tomb then m else mapAdd m ⟨r.id, r.name, t, g.compound, g.key, g.mtime⟩) m) m) =
        cntF f m + WF_ f fs := by
    intro fs
    induction fs with
    | nil => intro m; simp [WF_]
    | cons g rest ih =>
      intro m
      simp only [List.foldl_cons]
      rw [ih, inner]
      simp only [WF_, List.map_cons, List.sum_cons, wF]; omega
  have := outer (sortFiles files) []
  rw [WF_sortFiles] at this
  simpa [getShards, cntF] using this

theorem WF_unique (f : File) (l : List File) (hn : l.Nodup) (hu : ∀ g ∈ l, sameBase g f.compound f.key = true → g = f) :
    WF_ f l ≤ wF f f := by
  induction l with
  | nil => simp [WF_]
  | cons y r ih =>
    rw [List.nodup_cons] at hn
    simp only [WF_, List.map_cons, List.sum_cons]
    have hr := ih hn.2 (fun g hg => hu g (by simp [hg]))
    by_cases hy : sameBase y f.compound f.key = true
    · have hyf := hu y (by simp) hy
      subst hyf
      -- no other file of the rest is named like y
      have : WF_ y r = 0 := by
        have : ∀ l : List File, (∀ g ∈ l, sameBase g y.compound y.key = false) → WF_ y l = 0 := by
          intro l
          induction l with
          | nil => intro _; simp [WF_]
          | cons z t ih2 =>
            intro h
            simp only [WF_, List.map_cons, List.sum_cons, wF, h z (by simp)]
            have := ih2 (fun g hg => h g (by simp [hg]))
            simp only [WF_] at this; simp [this]
        apply this
        intro g hg
        cases hs : sameBase g y.compound y.key
        · rfl
        · exact absurd (hu g (by simp [hg]) hs ▸ hg) hn.1
      simp only [WF_] at this
      omega
    · have : wF f y = 0 := by simp [wF, hy]
      simp only [WF_] at hr
      omega

theorem countP_le_cntF (f : File) (m : SMap) (e : Nat × List Shard) (he : e ∈ m) : e.2.countP (atF f) ≤ cntF f m := by
  induction m with
  | nil => cases he
  | cons x r ih =>
    simp only [cntF, List.map_cons, List.sum_cons]
    rcases List.mem_cons.mp he with rfl | h
    · omega
    · have := ih h; simp only [cntF] at this; omega

/-! ### keys of the shard maps -/

def KeysSorted (m : SMap) : Prop := (m.map (·.1)).Pairwise (· < ·)

theorem keysSorted_mapAdd (m : SMap) (s : Shard) (h : KeysSorted m) :
    KeysSorted (mapAdd m s) ∧ ∀ k ∈ (mapAdd m s).map (·.1), k = s.id ∨ k ∈ m.map (·.1) := by
  induction m with
  | nil => simp [mapAdd, KeysSorted]
  | cons e r ih =>
    obtain ⟨k, v⟩ := e
    simp only [KeysSorted, List.map_cons, List.pairwise_cons] at h
    simp only [mapAdd]
    split
    · refine ⟨by simpa [KeysSorted] using h, ?_⟩
      intro k' hk'; simp at hk'; right; simpa using hk'
    · split
      · rename_i hne hlt
        refine ⟨?_, ?_⟩
        · simp only [KeysSorted, List.map_cons, List.pairwise_cons]
          refine ⟨?_, h⟩
          intro k' hk'
          rcases List.mem_cons.mp hk' with rfl | hk''
          · exact hlt
          · exact Nat.lt_trans hlt (h.1 k' hk'')
        · intro k' hk'; simp at hk'; rcases hk' with rfl | rfl | h'
          · exact Or.inl rfl
          · right; simp
          · right; simp; right; exact h'
      · have hr : KeysSorted r := h.2
        have := ih hr
        refine ⟨?_, ?_⟩
        · simp only [KeysSorted, List.map_cons, List.pairwise_cons]
          refine ⟨?_, this.1⟩
          intro k' hk'
          rcases this.2 k' hk' with rfl | hk''
          · omega
          · exact h.1 k' hk''
        · intro k' hk'
          simp only [List.map_cons, List.mem_cons] at hk'
          rcases hk' with rfl | hk''
          · right; simp
          · rcases this.2 k' hk'' with h' | h'
            · exact Or.inl h'
            · right; simp; right; simpa using h'

theorem getShards_keysSorted (files : List File) (t : Bool) : KeysSorted (getShards files t) := by
  have inner : ∀ (f : File) (rs : List Repo) (m : SMap), KeysSorted m →
      KeysSorted (rs.foldl (fun m r => if r.tomb then m else mapAdd m ⟨r.id, r.name, t, f.compound, f.key, f.mtime⟩) m) := by
    intro f rs
    induction rs with
    | nil => exact fun _ h => h
    | cons r rest ih =>
      intro m h
      simp only [List.foldl_cons]
      split
      · exact ih m h
      · exact ih _ (keysSorted_mapAdd m _ h).1
  have outer : ∀ (fs : List File) (m : SMap), KeysSorted m →
      KeysSorted (fs.foldl (fun m f => f.repos.foldl (fun m r => if r.tomb then m else mapAdd m ⟨r.id, r.name, t, f.compound, f.key, f.mtime⟩) m) m) := by
    intro fs
    induction fs with
    | nil => exact fun _ h => h
    | cons f rest ih => intro m h; simp only [List.foldl_cons]; exact ih _ (inner f f.repos m h)
  exact outer (sortFiles files) [] (by simp [KeysSorted])

theorem keysSorted_unique {m : SMap} (h : KeysSorted m) (e e' : Nat × List Shard) (he : e ∈ m) (he' : e' ∈ m) (hk : e.1 = e'.1) : e = e' := by
  induction m with
  | nil => cases he
  | cons x r ih =>
    simp only [KeysSorted, List.map_cons, List.pairwise_cons] at h
    rcases List.mem_cons.mp he with rfl | h1 <;> rcases List.mem_cons.mp he' with rfl | h2
    · rfl
    · have := h.1 e'.1 (List.mem_map.mpr ⟨e', h2, rfl⟩); omega
    · have := h.1 e.1 (List.mem_map.mpr ⟨e, h1, rfl⟩); omega
    · exact ih h.2 h1 h2

theorem mapGet_of_mem {m : SMap} (h : KeysSorted m) (e : Nat × List Shard) (he : e ∈ m) : mapGet m e.1 = some e.2 := by
  cases hg : mapGet m e.1 with
  | none =>
    simp only [mapGet, Option.map_eq_none_iff, List.find?_eq_none] at hg
    have := hg e he; simp at this
  | some v =>
    obtain ⟨e', he', h1, h2⟩ := mapGet_some_mem m e.1 v hg
    have := keysSorted_unique h e' e he' he h1
    rw [← h2, this]

theorem keysSorted_sub {m m' : SMap} (h : KeysSorted m) (hs : List.Sublist m' m) : KeysSorted m' :=
  List.Pairwise.sublist (hs.map _) h

/-! ### phase 1 keeps what it must not purge -/

def purgeable (now : Int) (index0 : SMap) (e : Nat × List Shard) : Bool :=
  mapHas index0 e.1 || e.2.any fun s => decide (s.mtime < now - day)

theorem purgeOne_snd (now : Int) (index0 : SMap) (acc : Dir × SMap) (e : Nat × List Shard) :
    (purgeOne now index0 acc e).2 = if purgeable now index0 e then mapErase acc.2 e.1 else acc.2 := by
  unfold purgeOne purgeable
  simp only []
  cases mapHas index0 e.1 <;> cases (e.2.any fun s => decide (s.mtime < now - day)) <;> simp

theorem phase1_map (now : Int) (index0 trash0 : SMap) (d : Dir) :
    List.Sublist (phase1 now index0 trash0 d).2 trash0 ∧
    ∀ x ∈ trash0, (∀ e ∈ trash0, e.1 = x.1 → purgeable now index0 e = false) → x ∈ (phase1 now index0 trash0 d).2 := by
  have gen : ∀ (l : List (Nat × List Shard)) (acc : Dir × SMap),
      List.Sublist (l.foldl (purgeOne now index0) acc).2 acc.2 ∧
      ∀ x ∈ acc.2, (∀ e ∈ l, e.1 = x.1 → purgeable now index0 e = false) → x ∈ (l.foldl (purgeOne now index0) acc).2 := by
    intro l
    induction l with
    | nil => intro acc; exact ⟨List.Sublist.refl _, fun x hx _ => hx⟩
    | cons e r ih =>
      intro acc
      simp only [List.foldl_cons]
      have h1 := ih (purgeOne now index0 acc e)
      have hs : List.Sublist (purgeOne now index0 acc e).2 acc.2 := by
        rw [purgeOne_snd]; split
        · exact List.filter_sublist
        · exact List.Sublist.refl _
      refine ⟨h1.1.trans hs, ?_⟩
      intro x hx hnp
      apply h1.2 x _ (fun e' he' => hnp e' (by simp [he']))
      rw [purgeOne_snd]
      split
      · rename_i hp
        rw [mem_mapErase]
        refine ⟨hx, fun hk => ?_⟩
        have := hnp e (by simp) hk.symm
        rw [hp] at this; cases this
      · exact hx
  exact gen trash0 (d, trash0)

theorem namesUnique_phase1 (now : Int) (index0 trash0 : SMap) (d : Dir) (h : NamesUnique d.trash) :
    NamesUnique (phase1 now index0 trash0 d).1.trash := by
  have rmAll : ∀ (l : List Shard) (d : Dir), NamesUnique d.trash → NamesUnique (removeAll d l).trash := by
    intro l
    induction l with
    | nil => exact fun _ h => h
    | cons s r ih =>
      intro d h
      simp only [removeAll, List.foldl_cons]
      apply ih
      unfold removeShard
      split
      · exact namesUnique_rmBase h _ _
      · exact h
  have inner : ∀ (l : List Shard) (d : Dir), NamesUnique d.trash →
      NamesUnique (l.foldl (fun d s => if s.mtime < now - day then d else if s.mtime > now then chtimes d s now else d) d).trash := by
    intro l
    induction l with
    | nil => exact fun _ h => h
    | cons s r ih =>
      intro d h
      simp only [List.foldl_cons]
      split
      · exact ih d h
      · split
        · apply ih
          unfold chtimes
          split
          · exact namesUnique_touch h _ _ _
          · exact h
        · exact ih d h
  have gen : ∀ (l : List (Nat × List Shard)) (acc : Dir × SMap), NamesUnique acc.1.trash →
      NamesUnique (l.foldl (purgeOne now index0) acc).1.trash := by
    intro l
    induction l with
    | nil => exact fun _ h => h
    | cons e r ih =>
      intro acc h
      simp only [List.foldl_cons]
      apply ih
      unfold purgeOne
      simp only []
      split
      · exact inner _ _ h
      · exact rmAll _ _ (inner _ _ h)
  exact gen trash0 (d, trash0) h

/-! ### the restore -/

theorem tkept_moveOne_toIndex_off {f : File} {d : Dir} {s : Shard} (h : Off f s) (hk : TKept f d.trash) (hu : NamesUnique d.trash) :
    TKept f (moveOne false d s).trash ∧ NamesUnique (moveOne false d s).trash := by
  unfold moveOne
  simp only [Bool.false_eq_true, if_false]
  split
  · exact ⟨tkept_rmBase (fun e => h ⟨e.1, e.2⟩) hk, namesUnique_rmBase hu _ _⟩
  · split
    · exact ⟨hk, hu⟩
    · exact ⟨tkept_rmBase (fun e => h ⟨e.1, e.2⟩) hk, namesUnique_rmBase hu _ _⟩

theorem kept_of_tkept {f : File} {fs : List File} (h : TKept f fs) : Kept f fs := by
  obtain ⟨g, hg, hb, hr⟩ := h
  exact ⟨g, hg, hb, fun id hid => by simp only [aliveIn] at hid ⊢; rw [hr]; exact hid⟩

/-- restoring the shards of one repository moves the trashed file `f` into the index, if exactly one of the shards
    carries its name -/
theorem restore_moves {f : File} (hfs : f.compound = false) (shards : List Shard) (d : Dir)
    (hcnt : shards.countP (atF f) ≤ 1) (hex : ∃ s ∈ shards, atF f s = true) (hk : TKept f d.trash) (hu : NamesUnique d.trash) :
    Kept f (moveAll false d shards).index := by
  induction shards generalizing d with
  | nil => obtain ⟨s, hs, _⟩ := hex; cases hs
  | cons s r ih =>
    simp only [moveAll, List.foldl_cons]
    by_cases hs : atF f s = true
    · -- this shard is the file: it moves; no later shard carries its name
      have hoffr : ∀ s' ∈ r, Off f s' := by
        intro s' hs'
        have : r.countP (atF f) = 0 := by
          simp only [List.countP_cons, hs, if_true] at hcnt; omega
        have hna := (List.countP_eq_zero.mp this) s' hs'
        exact Classical.not_not.mp (fun hno => hna ((atF_iff f s').mpr hno))
      have hmove : Kept f (moveOne false d s).index := by
        obtain ⟨g, hg, hb, hr⟩ := hk
        have hsb : s.compound = f.compound ∧ s.key = f.key := by simpa [atF] using hs
        unfold moveOne
        simp only [Bool.false_eq_true, if_false]
        rw [hsb.1, hfs]
        simp only [Bool.false_eq_true, if_false]
        rw [hsb.2]
        cases hgb : getBase d.trash false f.key with
        | none =>
          have := getBase_none hgb g hg
          rw [hfs] at hb; rw [hb] at this; cases this
        | some g' =>
          simp only []
          have hg' := getBase_some hgb
          rw [sameBase_iff] at hb
          have hgg : g' = g := hu g' hg'.1 g hg (by rw [(sameBase_iff _ _ _).mp hg'.2 |>.1, hb.1, hfs]) (by rw [(sameBase_iff _ _ _).mp hg'.2 |>.2, hb.2])
          subst hgg
          exact ⟨g', by simp, by rw [sameBase_iff]; exact hb, fun id hid => by simp only [aliveIn] at hid ⊢; rw [hr]; exact hid⟩
      have := kept_moveAll false r (moveOne false d s) hoffr hmove
      simpa [moveAll] using this
    · have hoff : Off f s := Classical.not_not.mp (fun hno => hs ((atF_iff f s).mpr hno))
      have h1 := tkept_moveOne_toIndex_off hoff hk hu
      have hs' : atF f s = false := by simpa using hs
      have := ih (moveOne false d s) (by simp only [List.countP_cons, hs'] at hcnt; simpa using hcnt)
        (by obtain ⟨s', hs'm, hs'a⟩ := hex
            rcases List.mem_cons.mp hs'm with rfl | h
            · rw [hs'] at hs'a; cases hs'a
            · exact ⟨s', h, hs'a⟩) h1.1 h1.2
      simpa [moveAll] using this

theorem tkept_moveAll_toIndex_off {f : File} (shards : List Shard) (d : Dir) (h : ∀ s ∈ shards, Off f s)
    (hk : TKept f d.trash) (hu : NamesUnique d.trash) :
    TKept f (moveAll false d shards).trash ∧ NamesUnique (moveAll false d shards).trash := by
  induction shards generalizing d with
  | nil => exact ⟨hk, hu⟩
  | cons s r ih =>
    simp only [moveAll, List.foldl_cons]
    have h1 := tkept_moveOne_toIndex_off (h s (by simp)) hk hu
    have := ih (moveOne false d s) (fun s' hs' => h s' (by simp [hs'])) h1.1 h1.2
    simpa [moveAll] using this

/-- phase 4 over an assigned list in which `r` occurs exactly once -/
theorem phase4_restores {f : File} (hfs : f.compound = false) (A : List Nat) (r : Nat) (hr : r ∈ A) (hnd : A.Nodup)
    (trash1 : SMap) (tombs : List (Nat × Shard)) (d : Dir) (index1 : SMap) (shards : List Shard)
    (hget : mapGet trash1 r = some shards) (hcnt : shards.countP (atF f) ≤ 1) (hex : ∃ s ∈ shards, atF f s = true)
    (hother : ∀ id, id ≠ r → ∀ sh, mapGet trash1 id = some sh → ∀ s ∈ sh, Off f s)
    (hk : TKept f d.trash) (hu : NamesUnique d.trash) :
    Kept f (phase4 A trash1 tombs d index1).1.index := by
  -- before r: the file stays in the trash; at r: it moves; after r: it stays in the index
  have before : ∀ (l : List Nat) (acc : Dir × SMap), (∀ id ∈ l, id ≠ r) → TKept f acc.1.trash → NamesUnique acc.1.trash →
      TKept f (l.foldl (restoreOne trash1 tombs) acc).1.trash ∧ NamesUnique (l.foldl (restoreOne trash1 tombs) acc).1.trash := by
    intro l
    induction l with
    | nil => exact fun _ _ h1 h2 => ⟨h1, h2⟩
    | cons id rest ih =>
      intro acc hl h1 h2
      simp only [List.foldl_cons]
      apply ih _ (fun id' h => hl id' (by simp [h]))
      all_goals
        unfold restoreOne
        simp only []
        cases hg : mapGet trash1 id with
        | some sh =>
          simp only []
          first
            | exact (tkept_moveAll_toIndex_off sh acc.1 (hother id (hl id (by simp)) sh hg) h1 h2).1
            | exact (tkept_moveAll_toIndex_off sh acc.1 (hother id (hl id (by simp)) sh hg) h1 h2).2
        | none =>
          simp only []
          cases mapGet tombs id <;> simp only [] <;> first | exact h1 | exact h2
  have after : ∀ (l : List Nat) (acc : Dir × SMap), (∀ id ∈ l, id ≠ r) → Kept f acc.1.index →
      Kept f (l.foldl (restoreOne trash1 tombs) acc).1.index := by
    intro l
    induction l with
    | nil => exact fun _ _ h => h
    | cons id rest ih =>
      intro acc hl h
      simp only [List.foldl_cons]
      apply ih _ (fun id' h' => hl id' (by simp [h']))
      unfold restoreOne
      simp only []
      cases hg : mapGet trash1 id with
      | some sh => simp only []; exact kept_moveAll false sh acc.1 (hother id (hl id (by simp)) sh hg) h
      | none =>
        simp only []
        cases mapGet tombs id with
        | some s => simp only []; exact kept_setTomb (Or.inl rfl) h
        | none => exact h
  obtain ⟨l1, l2, rfl⟩ := List.append_of_mem hr
  have hn1 : ∀ id ∈ l1, id ≠ r := by
    intro id hid e; subst e
    have := List.nodup_append.mp hnd
    exact this.2.2 id hid id (by simp) rfl
  have hn2 : ∀ id ∈ l2, id ≠ r := by
    intro id hid e; subst e
    have := (List.nodup_append.mp hnd).2.1
    rw [List.nodup_cons] at this
    exact this.1 hid
  show Kept f ((l1 ++ r :: l2).foldl (restoreOne trash1 tombs) (d, index1)).1.index
  rw [List.foldl_append, List.foldl_cons]
  have hb := before l1 (d, index1) hn1 hk hu
  apply after l2 _ hn2
  unfold restoreOne
  simp only [hget]
  exact restore_moves hfs shards _ hcnt hex hb.1 hb.2

/-! ### the trash in phases 4 and 5 -/

theorem tkept_cons {f x : File} {fs : List File} (hk : TKept f fs) : TKept f (x :: fs) := by
  obtain ⟨g, hg, hb, hr⟩ := hk; exact ⟨g, List.mem_cons_of_mem _ hg, hb, hr⟩

theorem tkept_moveOne_any_off {f : File} {d : Dir} {s : Shard} (toTrash : Bool) (h : Off f s) (hk : TKept f d.trash) :
    TKept f (moveOne toTrash d s).trash := by
  unfold moveOne
  cases toTrash
  · simp only [Bool.false_eq_true, if_false]
    split
    · exact tkept_rmBase (fun e => h ⟨e.1, e.2⟩) hk
    · split
      · exact hk
      · exact tkept_rmBase (fun e => h ⟨e.1, e.2⟩) hk
  · simp only [if_true]
    split
    · exact tkept_rmBase (fun e => h ⟨e.1, e.2⟩) hk
    · split
      · exact tkept_rmBase (fun e => h ⟨e.1, e.2⟩) hk
      · exact tkept_cons (tkept_rmBase (fun e => h ⟨e.1, e.2⟩) hk)

theorem tkept_moveAll_any_off {f : File} (toTrash : Bool) (shards : List Shard) (d : Dir) (h : ∀ s ∈ shards, Off f s)
    (hk : TKept f d.trash) : TKept f (moveAll toTrash d shards).trash := by
  induction shards generalizing d with
  | nil => exact hk
  | cons s r ih =>
    simp only [moveAll, List.foldl_cons]
    exact ih _ (fun s' hs' => h s' (by simp [hs'])) (tkept_moveOne_any_off toTrash (h s (by simp)) hk)

theorem tkept_phase4 {f : File} (A : List Nat) (trash1 : SMap) (tombs : List (Nat × Shard)) (d : Dir) (index1 : SMap)
    (hoff : ∀ id ∈ A, ∀ sh, mapGet trash1 id = some sh → ∀ s ∈ sh, Off f s) (hk : TKept f d.trash) :
    TKept f (phase4 A trash1 tombs d index1).1.trash := by
  have gen : ∀ (l : List Nat) (acc : Dir × SMap), (∀ id ∈ l, id ∈ A) → TKept f acc.1.trash →
      TKept f (l.foldl (restoreOne trash1 tombs) acc).1.trash := by
    intro l
    induction l with
    | nil => exact fun _ _ h => h
    | cons id r ih =>
      intro acc hl h
      simp only [List.foldl_cons]
      apply ih _ (fun id' h' => hl id' (by simp [h']))
      unfold restoreOne
      simp only []
      cases hg : mapGet trash1 id with
      | some sh => simp only []; exact tkept_moveAll_any_off false sh acc.1 (hoff id (hl id (by simp)) sh hg) h
      | none =>
        simp only []
        cases mapGet tombs id with
        | some s => exact h
        | none => exact h
  exact gen A (d, index1) (fun _ h => h) hk

theorem tkept_phase5 {f : File} (now : Int) (merging : Bool) (rest : SMap) (d : Dir)
    (hin : ∀ e ∈ rest, ∀ s ∈ e.2, s.inTrash = false) (hoff : ∀ e ∈ rest, ∀ s ∈ e.2, Off f s) (hk : TKept f d.trash) :
    TKept f (phase5 now merging rest d).trash := by
  unfold phase5
  induction rest generalizing d with
  | nil => exact hk
  | cons e r ih =>
    simp only [List.foldl_cons]
    apply ih _ (fun e' he' => hin e' (by simp [he'])) (fun e' he' => hoff e' (by simp [he']))
    -- one entry
    have touchAll : ∀ (l : List Shard) (d : Dir), (∀ s ∈ l, s.inTrash = false) → (l.foldl (fun d s => chtimes d s now) d).trash = d.trash := by
      intro l
      induction l with
      | nil => exact fun _ _ => rfl
      | cons s r ih2 =>
        intro d hl
        simp only [List.foldl_cons]
        rw [ih2 _ (fun s' hs' => hl s' (by simp [hs'])), (chtimes_facts d s now).2.2.2.2 (hl s (by simp))]
    unfold trashOne
    simp only []
    have ht := touchAll e.2 d (hin e (by simp))
    generalize e.2.foldl (fun d s => chtimes d s now) d = d1 at ht
    have hk1 : TKept f d1.trash := by rw [ht]; exact hk
    have hmove := tkept_moveAll_any_off true e.2 d1 (hoff e (by simp)) hk1
    cases merging
    · simp only [Bool.false_eq_true, if_false]; exact hmove
    · simp only [if_true]
      unfold maybeSetTombstone
      split
      · split
        · simp only [if_true]; exact hk1
        · simp only [Bool.false_eq_true, if_false]; exact hmove
      · simp only [Bool.false_eq_true, if_false]; exact hmove

end ZoektModel.C32
