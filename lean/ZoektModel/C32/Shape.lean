/-
C32 — the shape of real directories (distinct file names, one repository per simple shard, no compound shard in
the trash) is preserved by `cleanup`, so the per-cleanup theorems apply to every cleanup of a sequence.
-/
import ZoektModel.C32.Restore
namespace ZoektModel.C32

/-- a non-compound (simple) shard file lists at most one repository alive -/
def SimpleFiles (fs : List File) : Prop := ∀ f ∈ fs, f.compound = false → ∀ a b, aliveIn f a = true → aliveIn f b = true → a = b

def NoCompound (fs : List File) : Prop := ∀ f ∈ fs, f.compound = false

structure Shape (d : Dir) : Prop where
  inames : NamesUnique d.index
  tnames : NamesUnique d.trash
  isimple : SimpleFiles d.index
  tsimple : SimpleFiles d.trash
  tnocomp : NoCompound d.trash

theorem simple_rmBase {fs : List File} (h : SimpleFiles fs) (c : Bool) (k : Nat) : SimpleFiles (rmBase fs c k) := by
  intro f hf; simp only [rmBase, List.mem_filter] at hf; exact h f hf.1

theorem nocomp_rmBase {fs : List File} (h : NoCompound fs) (c : Bool) (k : Nat) : NoCompound (rmBase fs c k) := by
  intro f hf; simp only [rmBase, List.mem_filter] at hf; exact h f hf.1

theorem simple_touch {fs : List File} (h : SimpleFiles fs) (c : Bool) (k : Nat) (t : Int) : SimpleFiles (touch fs c k t) := by
  intro f hf hc a b ha hb
  simp only [touch, List.mem_map] at hf
  obtain ⟨g, hg, rfl⟩ := hf
  apply h g hg
  · split at hc <;> simpa using hc
  · split at ha <;> simpa [aliveIn] using ha
  · split at hb <;> simpa [aliveIn] using hb

theorem nocomp_touch {fs : List File} (h : NoCompound fs) (c : Bool) (k : Nat) (t : Int) : NoCompound (touch fs c k t) := by
  intro f hf
  simp only [touch, List.mem_map] at hf
  obtain ⟨g, hg, rfl⟩ := hf
  split <;> simpa using h g hg

theorem namesUnique_setTomb {fs : List File} (h : NamesUnique fs) (c : Bool) (k a : Nat) (b : Bool) : NamesUnique (setTombIn fs c k a b) := by
  intro f hf g hg h1 h2
  simp only [setTombIn, List.mem_map] at hf hg
  obtain ⟨f0, hf0, rfl⟩ := hf
  obtain ⟨g0, hg0, rfl⟩ := hg
  have hc : f0.compound = g0.compound := by
    have := h1; split at this <;> split at this <;> simpa using this
  have hk : f0.key = g0.key := by
    have := h2; split at this <;> split at this <;> simpa using this
  have := h f0 hf0 g0 hg0 hc hk
  subst this; rfl

/-- tombstoning shrinks what is alive; un-tombstoning is only applied to compound shard names -/
theorem simple_setTomb {fs : List File} (h : SimpleFiles fs) (c : Bool) (k a : Nat) (b : Bool) (hb : b = true ∨ c = true) :
    SimpleFiles (setTombIn fs c k a b) := by
  intro f hf hc x y hx hy
  simp only [setTombIn, List.mem_map] at hf
  obtain ⟨g, hg, rfl⟩ := hf
  by_cases hs : sameBase g c k = true
  · simp only [hs, if_true] at hc hx hy
    rcases hb with rfl | rfl
    · exact h g hg hc x y (aliveIn_setTomb_true hx).1 (aliveIn_setTomb_true hy).1
    · rw [sameBase_iff] at hs; rw [hs.1] at hc; cases hc
  · simp only [hs, if_false] at hc hx hy
    exact h g hg hc x y hx hy

theorem namesUnique_cons {fs : List File} {f : File} (h : NamesUnique (rmBase fs f.compound f.key)) :
    NamesUnique (f :: rmBase fs f.compound f.key) := by
  intro a ha b hb h1 h2
  rcases List.mem_cons.mp ha with rfl | ha' <;> rcases List.mem_cons.mp hb with rfl | hb'
  · rfl
  · simp only [rmBase, List.mem_filter] at hb'
    have : sameBase b a.compound a.key = true := by rw [sameBase_iff]; exact ⟨h1.symm, h2.symm⟩
    rw [this] at hb'; simp at hb'
  · simp only [rmBase, List.mem_filter] at ha'
    have : sameBase a b.compound b.key = true := by rw [sameBase_iff]; exact ⟨h1, h2⟩
    rw [this] at ha'; simp at ha'
  · exact h a ha' b hb' h1 h2

theorem simple_cons {fs : List File} {f : File} (h : SimpleFiles fs) (hf : f.compound = false → ∀ a b, aliveIn f a = true → aliveIn f b = true → a = b) :
    SimpleFiles (f :: fs) := by
  intro g hg
  rcases List.mem_cons.mp hg with rfl | hg'
  · exact hf
  · exact h g hg'

theorem shape_removeShard {d : Dir} (h : Shape d) (s : Shard) : Shape (removeShard d s) := by
  unfold removeShard
  split
  · exact ⟨h.inames, namesUnique_rmBase h.tnames _ _, h.isimple, simple_rmBase h.tsimple _ _, nocomp_rmBase h.tnocomp _ _⟩
  · exact ⟨namesUnique_rmBase h.inames _ _, h.tnames, simple_rmBase h.isimple _ _, h.tsimple, h.tnocomp⟩

theorem shape_removeAll (shards : List Shard) {d : Dir} (h : Shape d) : Shape (removeAll d shards) := by
  induction shards generalizing d with
  | nil => exact h
  | cons s r ih => simp only [removeAll, List.foldl_cons]; exact ih (shape_removeShard h s)

theorem shape_chtimes {d : Dir} (h : Shape d) (s : Shard) (t : Int) : Shape (chtimes d s t) := by
  unfold chtimes
  split
  · exact ⟨h.inames, namesUnique_touch h.tnames _ _ _, h.isimple, simple_touch h.tsimple _ _ _, nocomp_touch h.tnocomp _ _ _⟩
  · exact ⟨namesUnique_touch h.inames _ _ _, h.tnames, simple_touch h.isimple _ _ _, h.tsimple, h.tnocomp⟩

theorem shape_setTomb {d : Dir} (h : Shape d) (s : Shard) (a : Nat) (b : Bool) (hb : b = true ∨ s.compound = true) : Shape (setTomb d s a b) :=
  ⟨namesUnique_setTomb h.inames _ _ _ _, h.tnames, simple_setTomb h.isimple _ _ _ _ hb, h.tsimple, h.tnocomp⟩

theorem shape_moveOne {d : Dir} (h : Shape d) (toTrash : Bool) (s : Shard) : Shape (moveOne toTrash d s) := by
  unfold moveOne
  cases toTrash
  · simp only [Bool.false_eq_true, if_false]
    split
    · exact ⟨namesUnique_rmBase h.inames _ _, namesUnique_rmBase h.tnames _ _, simple_rmBase h.isimple _ _,
        simple_rmBase h.tsimple _ _, nocomp_rmBase h.tnocomp _ _⟩
    · split
      · exact ⟨namesUnique_rmBase h.inames _ _, h.tnames, simple_rmBase h.isimple _ _, h.tsimple, h.tnocomp⟩
      · rename_i f hf
        have hfm := getBase_some hf
        have hb := (sameBase_iff _ _ _).mp hfm.2
        refine ⟨?_, namesUnique_rmBase h.tnames _ _, ?_, simple_rmBase h.tsimple _ _, nocomp_rmBase h.tnocomp _ _⟩
        · rw [← hb.1, ← hb.2]; exact namesUnique_cons (namesUnique_rmBase h.inames _ _)
        · exact simple_cons (simple_rmBase h.isimple _ _) (h.tsimple f hfm.1)
  · simp only [if_true]
    split
    · exact ⟨namesUnique_rmBase h.inames _ _, namesUnique_rmBase h.tnames _ _, simple_rmBase h.isimple _ _,
        simple_rmBase h.tsimple _ _, nocomp_rmBase h.tnocomp _ _⟩
    · rename_i hsc
      split
      · exact ⟨h.inames, namesUnique_rmBase h.tnames _ _, h.isimple, simple_rmBase h.tsimple _ _, nocomp_rmBase h.tnocomp _ _⟩
      · rename_i f hf
        have hfm := getBase_some hf
        have hb := (sameBase_iff _ _ _).mp hfm.2
        have hfc : f.compound = false := by rw [hb.1]; simpa using hsc
        refine ⟨namesUnique_rmBase h.inames _ _, ?_, simple_rmBase h.isimple _ _, ?_, ?_⟩
        · rw [← hb.1, ← hb.2]; exact namesUnique_cons (namesUnique_rmBase h.tnames _ _)
        · exact simple_cons (simple_rmBase h.tsimple _ _) (h.isimple f hfm.1)
        · intro g hg
          rcases List.mem_cons.mp hg with rfl | hg'
          · exact hfc
          · exact nocomp_rmBase h.tnocomp _ _ g hg'

theorem shape_moveAll (toTrash : Bool) (shards : List Shard) {d : Dir} (h : Shape d) : Shape (moveAll toTrash d shards) := by
  induction shards generalizing d with
  | nil => exact h
  | cons s r ih => simp only [moveAll, List.foldl_cons]; exact ih (shape_moveOne h toTrash s)

/-- the shards recorded as tombstones are compound shards -/
theorem getTombs_compound (files : List File) : ∀ e ∈ getTombs files, e.2.compound = true := by
  have put : ∀ (m : List (Nat × Shard)) (s : Shard), (∀ e ∈ m, e.2.compound = true) → s.compound = true →
      ∀ e ∈ tombPut m s, e.2.compound = true := by
    intro m s
    induction m with
    | nil => intro _ hs e he; simp only [tombPut, List.mem_singleton] at he; rw [he]; exact hs
    | cons x r ih =>
      intro hm hs e he
      obtain ⟨k, v⟩ := x
      simp only [tombPut] at he
      split at he
      · split at he
        · exact hm e he
        · rcases List.mem_cons.mp he with rfl | he'
          · exact hs
          · exact hm e (by simp [he'])
      · split at he
        · rcases List.mem_cons.mp he with rfl | he'
          · exact hs
          · exact hm e he'
        · rcases List.mem_cons.mp he with rfl | he'
          · exact hm _ (by simp)
          · exact ih (fun e he => hm e (by simp [he])) hs e he'
  have inner : ∀ (f : File) (rs : List Repo) (m : List (Nat × Shard)), f.compound = true → (∀ e ∈ m, e.2.compound = true) →
      ∀ e ∈ rs.foldl (fun m r => if r.tomb then tombPut m ⟨r.id, r.name, false, f.compound, f.key, r.date⟩ else m) m, e.2.compound = true := by
    intro f rs
    induction rs with
    | nil => exact fun _ _ h => h
    | cons r rest ih =>
      intro m hf hm
      simp only [List.foldl_cons]
      split
      · exact ih _ hf (put m _ hm hf)
      · exact ih _ hf hm
  have outer : ∀ (fs : List File) (m : List (Nat × Shard)), (∀ f ∈ fs, f.compound = true) → (∀ e ∈ m, e.2.compound = true) →
      ∀ e ∈ fs.foldl (fun m f => f.repos.foldl (fun m r => if r.tomb then tombPut m ⟨r.id, r.name, false, f.compound, f.key, r.date⟩ else m) m) m,
        e.2.compound = true := by
    intro fs
    induction fs with
    | nil => exact fun _ _ h => h
    | cons f rest ih =>
      intro m hfs hm
      simp only [List.foldl_cons]
      exact ih _ (fun g hg => hfs g (by simp [hg])) (inner f f.repos m (hfs f (by simp)) hm)
  exact outer _ [] (fun f hf => by simpa using (List.mem_filter.mp hf).2) (fun _ h => by cases h)

theorem shape_cleanup {d : Dir} (h : Shape d) (A : List Nat) (now : Int) (m : Bool) : Shape (cleanup d A now m) := by
  -- phase 1
  have p1 : Shape (phase1 now (getShards d.index false) (getShards d.trash true) d).1 := by
    have gen : ∀ (l : List (Nat × List Shard)) (acc : Dir × SMap), Shape acc.1 →
        Shape (l.foldl (purgeOne now (getShards d.index false)) acc).1 := by
      intro l
      induction l with
      | nil => exact fun _ h => h
      | cons e r ih =>
        intro acc ha
        simp only [List.foldl_cons]
        apply ih
        have inner : ∀ (l : List Shard) (d : Dir), Shape d →
            Shape (l.foldl (fun d s => if s.mtime < now - day then d else if s.mtime > now then chtimes d s now else d) d) := by
          intro l
          induction l with
          | nil => exact fun _ h => h
          | cons s r ih2 =>
            intro d hd
            simp only [List.foldl_cons]
            split
            · exact ih2 d hd
            · split
              · exact ih2 _ (shape_chtimes hd s now)
              · exact ih2 d hd
        unfold purgeOne
        simp only []
        split
        · exact inner _ _ ha
        · exact shape_removeAll _ (inner _ _ ha)
    exact gen _ (d, _) h
  -- phase 3
  have p3 : ∀ (d1 : Dir), Shape d1 → Shape (phase3 m (getShards d.index false) d1).1 := by
    intro d1 h1
    show Shape ((getShards d.index false).foldl (inconsOne m) d1)
    generalize getShards d.index false = l
    induction l generalizing d1 with
    | nil => exact h1
    | cons e r ih =>
      simp only [List.foldl_cons]
      apply ih
      unfold inconsOne
      split
      · exact h1
      · simp only []
        have inner : ∀ (l : List Shard) (acc : Dir × List Shard), Shape acc.1 →
            Shape (l.foldl (fun (acc : Dir × List Shard) s =>
              if m && s.compound then (setTomb acc.1 s e.1 true, acc.2) else (acc.1, acc.2 ++ [s])) acc).1 := by
          intro l
          induction l with
          | nil => exact fun _ h => h
          | cons s r ih2 =>
            intro acc ha
            simp only [List.foldl_cons]
            split
            · exact ih2 _ (shape_setTomb ha s e.1 true (Or.inl rfl))
            · exact ih2 _ ha
        exact shape_removeAll _ (inner _ _ h1)
  -- phase 4
  have p4 : ∀ (trash1 : SMap) (tombs : List (Nat × Shard)) (d3 : Dir) (i1 : SMap), (∀ e ∈ tombs, e.2.compound = true) → Shape d3 →
      Shape (phase4 A trash1 tombs d3 i1).1 := by
    intro trash1 tombs d3 i1 htc h3
    have gen : ∀ (l : List Nat) (acc : Dir × SMap), Shape acc.1 → Shape (l.foldl (restoreOne trash1 tombs) acc).1 := by
      intro l
      induction l with
      | nil => exact fun _ h => h
      | cons id r ih =>
        intro acc ha
        simp only [List.foldl_cons]
        apply ih
        unfold restoreOne
        simp only []
        cases hg : mapGet trash1 id with
        | some sh => simp only []; exact shape_moveAll false sh ha
        | none =>
          simp only []
          cases hg2 : mapGet tombs id with
          | some s =>
            simp only []
            obtain ⟨e, he, _, h2⟩ := mapGet_some_mem tombs id s hg2
            exact shape_setTomb ha s id false (Or.inr (by rw [← h2]; exact htc e he))
          | none => exact ha
    exact gen A (d3, i1) h3
  -- phase 5
  have p5 : ∀ (rest : SMap) (d4 : Dir), Shape d4 → Shape (phase5 now m rest d4) := by
    intro rest
    unfold phase5
    induction rest with
    | nil => exact fun _ h => h
    | cons e r ih =>
      intro d4 h4
      simp only [List.foldl_cons]
      apply ih
      have touchAll : ∀ (l : List Shard) (d : Dir), Shape d → Shape (l.foldl (fun d s => chtimes d s now) d) := by
        intro l
        induction l with
        | nil => exact fun _ h => h
        | cons s r ih2 => intro d hd; simp only [List.foldl_cons]; exact ih2 _ (shape_chtimes hd s now)
      unfold trashOne
      simp only []
      have h1 := touchAll e.2 d4 h4
      generalize e.2.foldl (fun d s => chtimes d s now) d4 = d1 at h1
      cases m
      · simp only [Bool.false_eq_true, if_false]; exact shape_moveAll true e.2 h1
      · simp only [if_true]
        unfold maybeSetTombstone
        split
        · rename_i s _
          split
          · simp only [if_true]; exact shape_setTomb h1 s e.1 true (Or.inl rfl)
          · simp only [Bool.false_eq_true, if_false]; exact shape_moveAll true e.2 h1
        · simp only [Bool.false_eq_true, if_false]; exact shape_moveAll true e.2 h1
  have htc : ∀ e ∈ phase2 (getShards d.index false) (phase1 now (getShards d.index false) (getShards d.trash true) d).2 (getTombs d.index),
      e.2.compound = true := by
    intro e he
    simp only [phase2, List.mem_filter] at he
    exact getTombs_compound d.index e he.1
  have final : Shape (phase5 now m
      (phase4 A (phase1 now (getShards d.index false) (getShards d.trash true) d).2
        (phase2 (getShards d.index false) (phase1 now (getShards d.index false) (getShards d.trash true) d).2 (getTombs d.index))
        (phase3 m (getShards d.index false) (phase1 now (getShards d.index false) (getShards d.trash true) d).1).1
        (phase3 m (getShards d.index false) (phase1 now (getShards d.index false) (getShards d.trash true) d).1).2).2
      (phase4 A (phase1 now (getShards d.index false) (getShards d.trash true) d).2
        (phase2 (getShards d.index false) (phase1 now (getShards d.index false) (getShards d.trash true) d).2 (getTombs d.index))
        (phase3 m (getShards d.index false) (phase1 now (getShards d.index false) (getShards d.trash true) d).1).1
        (phase3 m (getShards d.index false) (phase1 now (getShards d.index false) (getShards d.trash true) d).1).2).1) :=
    p5 _ _ (p4 _ _ _ _ htc (p3 _ p1))
  exact ⟨final.inames, final.tnames, final.isimple, final.tsimple, final.tnocomp⟩

end ZoektModel.C32
