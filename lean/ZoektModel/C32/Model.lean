/-
C32 — model of cmd/zoekt-sourcegraph-indexserver/cleanup.go: `cleanup` with its six phases, `getShards`,
`getTombstonedRepos`, `removeAll`, `moveAll` (including the "HACK removing compound shard" branch),
`consistentRepoName`, `maybeSetTombstone`, and of `index.SetTombstone` / `UnsetTombstone` (index/tombstones.go) as
far as they change which repositories a shard file lists as alive.

Abstract directory state: the shard files of the index directory and of `.trash`, each with its basename
(`compound` = the name starts with "compound-", `key` = the rest; equal (compound, key) = equal basename), its
mtime (seconds) and the repositories its metadata lists (from the `.meta` sidecar when there is one: id, name,
tombstone flag, latest commit date).  A shard file and its `.meta` sidecar are one unit (`IndexFilePaths`).
Every filesystem call succeeds (the property quantifies over inputs and histories, not faults).

Go ranges over maps in unspecified order; the model visits map entries by ascending repository id.
-/
namespace ZoektModel.C32

structure Repo where
  id : Nat
  name : Nat
  tomb : Bool
  date : Int
  deriving DecidableEq, Repr

structure File where
  compound : Bool
  key : Nat
  mtime : Int
  repos : List Repo
  deriving DecidableEq, Repr

structure Dir where
  index : List File
  trash : List File
  tmps : Nat            -- regular files `*.tmp` in the index directory
  deriving DecidableEq, Repr

/-- Go's `shard` struct; `Path` = (directory, basename) -/
structure Shard where
  id : Nat
  name : Nat
  inTrash : Bool
  compound : Bool
  key : Nat
  mtime : Int
  deriving DecidableEq, Repr

def sameBase (f : File) (c : Bool) (k : Nat) : Bool := f.compound == c && f.key == k

/-- basename order of `sort.Strings`: "compound-…" sorts before the simple shards' names, then by key -/
def baseLe (a b : File) : Bool :=
  if a.compound != b.compound then a.compound else decide (a.key ≤ b.key)

def insertSorted (x : File) : List File → List File
  | [] => [x]
  | y :: r => if baseLe x y then x :: y :: r else y :: insertSorted x r

def sortFiles (l : List File) : List File := l.foldr insertSorted []

abbrev SMap := List (Nat × List Shard)

def mapHas {α} (m : List (Nat × α)) (id : Nat) : Bool := m.any (·.1 == id)

def mapGet {α} (m : List (Nat × α)) (id : Nat) : Option α := (m.find? (·.1 == id)).map (·.2)

def mapErase {α} (m : List (Nat × α)) (id : Nat) : List (Nat × α) := m.filter (·.1 != id)

/-- append a shard to the entry for its id, keeping the entries ordered by id -/
def mapAdd (m : SMap) (s : Shard) : SMap :=
  match m with
  | [] => [(s.id, [s])]
  | (k, v) :: r =>
    if s.id = k then (k, v ++ [s]) :: r
    else if s.id < k then (s.id, [s]) :: (k, v) :: r
    else (k, v) :: mapAdd r s

/-- `getShards(dir)`: names sorted, one entry per *alive* repository of each `.zoekt` file -/
def getShards (files : List File) (inTrash : Bool) : SMap :=
  (sortFiles files).foldl (fun m f =>
    f.repos.foldl (fun m r =>
      if r.tomb then m else mapAdd m ⟨r.id, r.name, inTrash, f.compound, f.key, f.mtime⟩) m) []

/-- `getTombstonedRepos(dir)`: tombstoned entries of `compound-*.zoekt`; for a repository tombstoned in
    several compound shards the one with the latest commit date (the later path on ties). The value's
    `mtime` field holds that date, as in the Go code. -/
def tombPut (m : List (Nat × Shard)) (s : Shard) : List (Nat × Shard) :=
  match m with
  | [] => [(s.id, s)]
  | (k, v) :: r =>
    if s.id = k then (if v.mtime > s.mtime then (k, v) :: r else (k, s) :: r)
    else if s.id < k then (s.id, s) :: (k, v) :: r
    else (k, v) :: tombPut r s

def getTombs (files : List File) : List (Nat × Shard) :=
  ((sortFiles files).filter (·.compound)).foldl (fun m f =>
    f.repos.foldl (fun m r =>
      if r.tomb then tombPut m ⟨r.id, r.name, false, f.compound, f.key, r.date⟩ else m) m) []

/-! filesystem operations -/

def rmBase (files : List File) (c : Bool) (k : Nat) : List File := files.filter fun f => !sameBase f c k

def hasBase (files : List File) (c : Bool) (k : Nat) : Bool := files.any fun f => sameBase f c k

def getBase (files : List File) (c : Bool) (k : Nat) : Option File := files.find? fun f => sameBase f c k

/-- `removeAll(shard)`: the shard file and its `.meta` -/
def removeShard (d : Dir) (s : Shard) : Dir :=
  if s.inTrash then { d with trash := rmBase d.trash s.compound s.key }
  else { d with index := rmBase d.index s.compound s.key }

def removeAll (d : Dir) (shards : List Shard) : Dir := shards.foldl removeShard d

def touch (files : List File) (c : Bool) (k : Nat) (t : Int) : List File :=
  files.map fun f => if sameBase f c k then { f with mtime := t } else f

/-- `os.Chtimes(shard.Path, t, t)` (a missing file is ignored by the callers) -/
def chtimes (d : Dir) (s : Shard) (t : Int) : Dir :=
  if s.inTrash then { d with trash := touch d.trash s.compound s.key t }
  else { d with index := touch d.index s.compound s.key t }

def setTombIn (files : List File) (c : Bool) (k : Nat) (id : Nat) (b : Bool) : List File :=
  files.map fun f =>
    if sameBase f c k then { f with repos := f.repos.map fun r => if r.id = id then { r with tomb := b } else r } else f

/-- `index.SetTombstone` / `UnsetTombstone` on a shard of the index directory: rewrites the `.meta` of the file if it
    can be read; otherwise returns an error and changes nothing -/
def setTomb (d : Dir) (s : Shard) (id : Nat) (b : Bool) : Dir :=
  { d with index := setTombIn d.index s.compound s.key id b }

/-- `maybeSetTombstone(shards, id)`: only for exactly one shard that is a compound shard. If `SetTombstone` fails
    (the file is gone) it `os.Remove`s the path, which is then a no-op. -/
def maybeSetTombstone (d : Dir) (shards : List Shard) (id : Nat) : Dir × Bool :=
  match shards with
  | [s] => if s.compound then (setTomb d s id true, true) else (d, false)
  | _ => (d, false)

/-- one iteration of `moveAll(dstDir, shards)` for a shard lying in the other directory -/
def moveOne (toTrash : Bool) (d : Dir) (s : Shard) : Dir :=
  let src := if toTrash then d.index else d.trash
  let dst := if toTrash then d.trash else d.index
  -- removeAll(dstShard): whatever has that basename in dstDir goes
  let dst := rmBase dst s.compound s.key
  if s.compound then
    -- HACK removing compound shard since we don't support tombstoning
    let src := rmBase src s.compound s.key
    if toTrash then { d with index := src, trash := dst } else { d with index := dst, trash := src }
  else
    match getBase src s.compound s.key with
    | none => if toTrash then { d with trash := dst } else { d with index := dst }   -- nothing to rename
    | some f =>
      let src := rmBase src s.compound s.key
      if toTrash then { d with index := src, trash := f :: dst } else { d with index := f :: dst, trash := src }

def moveAll (toTrash : Bool) (d : Dir) (shards : List Shard) : Dir := shards.foldl (moveOne toTrash) d

/-- `consistentRepoName` -/
def consistentRepoName (shards : List Shard) : Bool :=
  match shards with
  | [] => true
  | s :: r => r.all fun x => x.name == s.name

def day : Int := 86400

/-- phase 1 (trash): delete what is old or conflicts with the index; reset future timestamps -/
def purgeOne (now : Int) (index0 : SMap) (acc : Dir × SMap) (e : Nat × List Shard) : Dir × SMap :=
  let old := e.2.any fun s => decide (s.mtime < now - day)
  let d1 := e.2.foldl (fun d s => if s.mtime < now - day then d else if s.mtime > now then chtimes d s now else d) acc.1
  if !mapHas index0 e.1 && !old then (d1, acc.2)
  else (removeAll d1 e.2, mapErase acc.2 e.1)

def phase1 (now : Int) (index0 trash0 : SMap) (d : Dir) : Dir × SMap :=
  trash0.foldl (purgeOne now index0) (d, trash0)

/-- phase 2 (tombstones): drop those that conflict with the index or with the trash -/
def phase2 (index0 trash1 : SMap) (tombs : List (Nat × Shard)) : List (Nat × Shard) :=
  tombs.filter fun e => !mapHas index0 e.1 && !mapHas trash1 e.1

/-- phase 3 (index): repositories whose shards disagree on the name are deleted (compound shards tombstoned
    instead when shard merging is on) -/
def inconsOne (merging : Bool) (d : Dir) (e : Nat × List Shard) : Dir :=
  if consistentRepoName e.2 then d
  else
    let r := e.2.foldl (fun (acc : Dir × List Shard) s =>
      if merging && s.compound then (setTomb acc.1 s e.1 true, acc.2) else (acc.1, acc.2 ++ [s])) (d, [])
    removeAll r.1 r.2

def phase3 (merging : Bool) (index0 : SMap) (d : Dir) : Dir × SMap :=
  (index0.foldl (inconsOne merging) d, index0.filter fun e => consistentRepoName e.2)

/-- phase 4: restore assigned repositories from the trash, else remove their tombstone -/
def restoreOne (trash1 : SMap) (tombs : List (Nat × Shard)) (acc : Dir × SMap) (id : Nat) : Dir × SMap :=
  let idx := mapErase acc.2 id
  match mapGet trash1 id with
  | some shards => (moveAll false acc.1 shards, idx)
  | none =>
    match mapGet tombs id with
    | some s => (setTomb acc.1 s id false, idx)
    | none => (acc.1, idx)

def phase4 (assigned : List Nat) (trash1 : SMap) (tombs : List (Nat × Shard)) (d : Dir) (index1 : SMap) : Dir × SMap :=
  assigned.foldl (restoreOne trash1 tombs) (d, index1)

/-- phase 5: what is left in the index map is not assigned: touch, then tombstone (compound, merging on) or trash -/
def trashOne (now : Int) (merging : Bool) (d : Dir) (e : Nat × List Shard) : Dir :=
  let d1 := e.2.foldl (fun d s => chtimes d s now) d
  if merging then
    let r := maybeSetTombstone d1 e.2 e.1
    if r.2 then r.1 else moveAll true d1 e.2
  else moveAll true d1 e.2

def phase5 (now : Int) (merging : Bool) (rest : SMap) (d : Dir) : Dir := rest.foldl (trashOne now merging) d

/-- `cleanup(indexDir, repos, now, shardMerging)` -/
def cleanup (d : Dir) (assigned : List Nat) (now : Int) (merging : Bool) : Dir :=
  let trash0 := getShards d.trash true
  let tombs0 := getTombs d.index
  let index0 := getShards d.index false
  let p1 := phase1 now index0 trash0 d
  let tombs1 := phase2 index0 p1.2 tombs0
  let p3 := phase3 merging index0 p1.1
  let p4 := phase4 assigned p1.2 tombs1 p3.1 p3.2
  let d5 := phase5 now merging p4.2 p4.1
  { d5 with tmps := 0 }

end ZoektModel.C32
