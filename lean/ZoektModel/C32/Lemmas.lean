/-
C32 — lemmas: how each filesystem operation of `cleanup` changes which repositories are alive at which basename
of the index directory, and what the shard maps of `getShards` contain.
-/
import ZoektModel.C32.Spec
namespace ZoektModel.C32

/-- `id` is alive in some file with basename `(c, k)` of `files` -/
def AliveAt (files : List File) (id : Nat) (c : Bool) (k : Nat) : Prop :=
  ∃ f ∈ files, sameBase f c k = true ∧ aliveIn f id = true

theorem searchable_iff (files : List File) (id : Nat) : searchable files id = true ↔ ∃ c k, AliveAt files id c k := by
  simp only [searchable, List.any_eq_true, AliveAt]
  constructor
  · rintro ⟨f, hf, ha⟩; exact ⟨f.compound, f.key, f, hf, by simp [sameBase], ha⟩
  · rintro ⟨_, _, f, hf, _, ha⟩; exact ⟨f, hf, ha⟩

theorem sameBase_iff (f : File) (c : Bool) (k : Nat) : sameBase f c k = true ↔ f.compound = c ∧ f.key = k := by
  simp [sameBase]

/-! ### primitive operations never make an unassigned repository alive -/

theorem aliveAt_rmBase {files : List File} {id : Nat} {c c' : Bool} {k k' : Nat}
    (h : AliveAt (rmBase files c' k') id c k) : AliveAt files id c k ∧ ¬ (c = c' ∧ k = k') := by
  obtain ⟨f, hf, hb, ha⟩ := h
  simp only [rmBase, List.mem_filter] at hf
  refine ⟨⟨f, hf.1, hb, ha⟩, ?_⟩
  rintro ⟨rfl, rfl⟩
  rw [hb] at hf; simp at hf

theorem aliveAt_touch {files : List File} {id : Nat} {c c' : Bool} {k k' : Nat} {t : Int} :
    AliveAt (touch files c' k' t) id c k ↔ AliveAt files id c k := by
  simp only [AliveAt, touch, List.mem_map]
  constructor
  · rintro ⟨f, ⟨g, hg, rfl⟩, hb, ha⟩
    refine ⟨g, hg, ?_, ?_⟩
    · split at hb <;> simpa [sameBase] using hb
    · split at ha <;> simpa [aliveIn] using ha
  · rintro ⟨g, hg, hb, ha⟩
    refine ⟨_, ⟨g, hg, rfl⟩, ?_, ?_⟩
    · split <;> simpa [sameBase] using hb
    · split <;> simpa [aliveIn] using ha

theorem aliveIn_setTomb_true {f : File} {a id : Nat} :
    aliveIn { f with repos := f.repos.map fun r => if r.id = a then { r with tomb := true } else r } id = true →
      aliveIn f id = true ∧ id ≠ a := by
  simp only [aliveIn, List.any_map, List.any_eq_true, Function.comp]
  rintro ⟨r, hr, h⟩
  by_cases hra : r.id = a
  · simp [hra] at h
  · simp only [hra, if_false] at h
    refine ⟨⟨r, hr, h⟩, ?_⟩
    simp only [Bool.and_eq_true, beq_iff_eq] at h
    rw [← h.1]; exact hra

theorem aliveAt_setTomb_true {files : List File} {id a : Nat} {c c' : Bool} {k k' : Nat}
    (h : AliveAt (setTombIn files c' k' a true) id c k) : AliveAt files id c k ∧ ¬ (id = a ∧ c = c' ∧ k = k') := by
  obtain ⟨f, hf, hb, ha⟩ := h
  simp only [setTombIn, List.mem_map] at hf
  obtain ⟨g, hg, rfl⟩ := hf
  by_cases hs : sameBase g c' k' = true
  · simp only [hs, if_true] at hb ha
    have := aliveIn_setTomb_true ha
    refine ⟨⟨g, hg, by simpa [sameBase] using hb, this.1⟩, fun ⟨e, _, _⟩ => this.2 e⟩
  · simp only [hs, if_false] at hb ha
    refine ⟨⟨g, hg, hb, ha⟩, ?_⟩
    rintro ⟨_, rfl, rfl⟩
    exact hs hb

theorem aliveIn_setTomb_false {f : File} {a id : Nat} :
    aliveIn { f with repos := f.repos.map fun r => if r.id = a then { r with tomb := false } else r } id = true →
      aliveIn f id = true ∨ id = a := by
  simp only [aliveIn, List.any_map, List.any_eq_true, Function.comp]
  rintro ⟨r, hr, h⟩
  by_cases hra : r.id = a
  · simp only [hra, if_true, Bool.and_eq_true, beq_iff_eq] at h
    exact Or.inr h.1.symm
  · simp only [hra, if_false] at h
    exact Or.inl ⟨r, hr, h⟩

theorem aliveAt_setTomb_false {files : List File} {id a : Nat} {c c' : Bool} {k k' : Nat}
    (h : AliveAt (setTombIn files c' k' a false) id c k) : AliveAt files id c k ∨ id = a := by
  obtain ⟨f, hf, hb, ha⟩ := h
  simp only [setTombIn, List.mem_map] at hf
  obtain ⟨g, hg, rfl⟩ := hf
  by_cases hs : sameBase g c' k' = true
  · simp only [hs, if_true] at hb ha
    rcases aliveIn_setTomb_false ha with h | h
    · exact Or.inl ⟨g, hg, by simpa [sameBase] using hb, h⟩
    · exact Or.inr h
  · simp only [hs, if_false] at hb ha
    exact Or.inl ⟨g, hg, hb, ha⟩

theorem getBase_some {files : List File} {c : Bool} {k : Nat} {f : File} (h : getBase files c k = some f) :
    f ∈ files ∧ sameBase f c k = true := by
  simp only [getBase] at h
  exact ⟨List.mem_of_find?_eq_some h, by simpa using List.find?_some h⟩

theorem getBase_none {files : List File} {c : Bool} {k : Nat} (h : getBase files c k = none) :
    ∀ f ∈ files, sameBase f c k = false := by
  simp only [getBase, List.find?_eq_none] at h
  intro f hf; simpa using h f hf

/-- moving a shard out of the index never makes anything alive there, and nothing stays alive at its basename -/
theorem aliveAt_moveOne_toTrash {d : Dir} {s : Shard} {id : Nat} {c : Bool} {k : Nat}
    (h : AliveAt (moveOne true d s).index id c k) : AliveAt d.index id c k ∧ ¬ (c = s.compound ∧ k = s.key) := by
  unfold moveOne at h
  simp only [if_true] at h
  split at h
  · exact aliveAt_rmBase h
  · split at h
    · rename_i hn
      refine ⟨h, ?_⟩
      rintro ⟨rfl, rfl⟩
      obtain ⟨f, hf, hb, _⟩ := h
      rw [getBase_none hn f hf] at hb; cases hb
    · exact aliveAt_rmBase h

/-! ### the shard maps -/

/-- shard `s` is recorded in the map, under its own id -/
def InMap (m : SMap) (s : Shard) : Prop := ∃ e ∈ m, e.1 = s.id ∧ s ∈ e.2

/-- every shard sits under its own id -/
def Keyed (m : SMap) : Prop := ∀ e ∈ m, ∀ t ∈ e.2, t.id = e.1

theorem inMap_mapAdd_self (m : SMap) (s : Shard) : InMap (mapAdd m s) s := by
  induction m with
  | nil => exact ⟨(s.id, [s]), by simp [mapAdd], rfl, by simp⟩
  | cons e r ih =>
    obtain ⟨k, v⟩ := e
    simp only [mapAdd]
    split
    · rename_i h; exact ⟨(k, v ++ [s]), by simp, h.symm, by simp⟩
    · split
      · exact ⟨(s.id, [s]), by simp, rfl, by simp⟩
      · obtain ⟨e', he', h1, h2⟩ := ih
        exact ⟨e', by simp [he'], h1, h2⟩

theorem inMap_mapAdd_of (m : SMap) (s t : Shard) (h : InMap m t) : InMap (mapAdd m s) t := by
  induction m with
  | nil => obtain ⟨e, he, _⟩ := h; cases he
  | cons e r ih =>
    obtain ⟨k, v⟩ := e
    obtain ⟨e', he', h1, h2⟩ := h
    simp only [mapAdd]
    rcases List.mem_cons.mp he' with rfl | he''
    · split
      · exact ⟨(k, v ++ [s]), by simp, h1, by simp [h2]⟩
      · split
        · exact ⟨(k, v), by simp, h1, h2⟩
        · exact ⟨(k, v), by simp, h1, h2⟩
    · split
      · exact ⟨e', by simp [he''], h1, h2⟩
      · split
        · exact ⟨e', by simp [he''], h1, h2⟩
        · obtain ⟨e2, he2, h3, h4⟩ := ih ⟨e', he'', h1, h2⟩
          exact ⟨e2, by simp [he2], h3, h4⟩

theorem mem_mapAdd (m : SMap) (s : Shard) (e : Nat × List Shard) (he : e ∈ mapAdd m s) (t : Shard) (ht : t ∈ e.2) :
    t = s ∨ ∃ e' ∈ m, e'.1 = e.1 ∧ t ∈ e'.2 := by
  induction m with
  | nil =>
    simp only [mapAdd, List.mem_singleton] at he
    subst he; simp at ht; exact Or.inl ht
  | cons e0 r ih =>
    obtain ⟨k, v⟩ := e0
    simp only [mapAdd] at he
    split at he
    · rcases List.mem_cons.mp he with rfl | he'
      · simp only [List.mem_append, List.mem_singleton] at ht
        rcases ht with ht | ht
        · exact Or.inr ⟨(k, v), by simp, rfl, ht⟩
        · exact Or.inl ht
      · exact Or.inr ⟨e, by simp [he'], rfl, ht⟩
    · split at he
      · rcases List.mem_cons.mp he with rfl | he'
        · simp at ht; exact Or.inl ht
        · exact Or.inr ⟨e, by simpa using he', rfl, ht⟩
      · rcases List.mem_cons.mp he with rfl | he'
        · exact Or.inr ⟨(k, v), by simp, rfl, ht⟩
        · rcases ih he' with h | ⟨e', he2, h3, h4⟩
          · exact Or.inl h
          · exact Or.inr ⟨e', by simp [he2], h3, h4⟩

theorem keyed_mapAdd (m : SMap) (s : Shard) (h : Keyed m) : Keyed (mapAdd m s) := by
  intro e he t ht
  induction m with
  | nil =>
    simp only [mapAdd, List.mem_singleton] at he
    subst he; simp at ht; rw [ht]
  | cons e0 r ih =>
    obtain ⟨k, v⟩ := e0
    simp only [mapAdd] at he
    have hr : Keyed r := fun e he => h e (by simp [he])
    split at he
    · rename_i hk
      rcases List.mem_cons.mp he with rfl | he'
      · simp only [List.mem_append, List.mem_singleton] at ht
        rcases ht with ht | ht
        · exact h (k, v) (by simp) t ht
        · rw [ht]; exact hk
      · exact h e (by simp [he']) t ht
    · split at he
      · rcases List.mem_cons.mp he with rfl | he'
        · simp at ht; rw [ht]
        · exact h e (by simpa using he') t ht
      · rcases List.mem_cons.mp he with rfl | he'
        · exact h (k, v) (by simp) t ht
        · exact ih hr he'

theorem mem_insertSorted (x f : File) (l : List File) : f ∈ insertSorted x l ↔ f = x ∨ f ∈ l := by
  induction l with
  | nil => simp [insertSorted]
  | cons y r ih =>
    simp only [insertSorted]
    split
    · simp
    · simp only [List.mem_cons, ih]
      constructor
      · rintro (h | h | h)
        · exact Or.inr (Or.inl h)
        · exact Or.inl h
        · exact Or.inr (Or.inr h)
      · rintro (h | h | h)
        · exact Or.inr (Or.inl h)
        · exact Or.inl h
        · exact Or.inr (Or.inr h)

theorem mem_sortFiles (f : File) (l : List File) : f ∈ sortFiles l ↔ f ∈ l := by
  induction l with
  | nil => simp [sortFiles]
  | cons y r ih =>
    simp only [sortFiles, List.foldr_cons] at ih ⊢
    rw [mem_insertSorted, ih]; simp

def shardOf (t : Bool) (f : File) (r : Repo) : Shard := ⟨r.id, r.name, t, f.compound, f.key, f.mtime⟩

/-- what `getShards` records: exactly the alive (file, repository) pairs -/
theorem getShards_spec (files : List File) (t : Bool) :
    Keyed (getShards files t) ∧
    (∀ s, InMap (getShards files t) s ↔ ∃ f ∈ files, ∃ r ∈ f.repos, r.tomb = false ∧ s = shardOf t f r) ∧
    (∀ e ∈ getShards files t, ∀ s ∈ e.2, ∃ f ∈ files, ∃ r ∈ f.repos, r.tomb = false ∧ s = shardOf t f r) := by
  -- generalise over the accumulator and the list of files still to visit
  have inner : ∀ (f : File) (rs : List Repo) (m : SMap) (P : Shard → Prop), Keyed m →
      (∀ e ∈ m, ∀ s ∈ e.2, P s) → (∀ r ∈ rs, r.tomb = false → P (shardOf t f r)) →
      let m' := rs.foldl (fun m r => if r.tomb then m else mapAdd m ⟨r.id, r.name, t, f.compound, f.key, f.mtime⟩) m
      Keyed m' ∧ (∀ e ∈ m', ∀ s ∈ e.2, P s) ∧ (∀ s, InMap m s → InMap m' s) ∧
        (∀ r ∈ rs, r.tomb = false → InMap m' (shardOf t f r)) := by
    intro f rs
    induction rs with
    | nil => intro m P hk hp _; exact ⟨hk, hp, fun _ h => h, by simp⟩
    | cons r rest ih =>
      intro m P hk hp hr
      simp only [List.foldl_cons]
      by_cases ht : r.tomb = true
      · simp only [ht, if_true]
        have := ih m P hk hp (fun r' hr' => hr r' (by simp [hr']))
        refine ⟨this.1, this.2.1, this.2.2.1, ?_⟩
        intro r' hr' htomb
        rcases List.mem_cons.mp hr' with rfl | h
        · rw [ht] at htomb; cases htomb
        · exact this.2.2.2 r' h htomb
      · have ht' : r.tomb = false := by simpa using ht
        simp only [ht', Bool.false_eq_true, if_false]
        have hk' := keyed_mapAdd m ⟨r.id, r.name, t, f.compound, f.key, f.mtime⟩ hk
        have hp' : ∀ e ∈ mapAdd m ⟨r.id, r.name, t, f.compound, f.key, f.mtime⟩, ∀ s ∈ e.2, P s := by
          intro e he s hs
          rcases mem_mapAdd m _ e he s hs with h | ⟨e', he', _, h4⟩
          · rw [h]; exact hr r (by simp) ht'
          · exact hp e' he' s h4
        have := ih _ P hk' hp' (fun r' hr' => hr r' (by simp [hr']))
        refine ⟨this.1, this.2.1, fun s hs => this.2.2.1 s (inMap_mapAdd_of m _ s hs), ?_⟩
        intro r' hr' htomb
        rcases List.mem_cons.mp hr' with rfl | h
        · exact this.2.2.1 _ (inMap_mapAdd_self m _)
        · exact this.2.2.2 r' h htomb
  have outer : ∀ (fs : List File) (m : SMap) (P : Shard → Prop), Keyed m → (∀ e ∈ m, ∀ s ∈ e.2, P s) →
      (∀ f ∈ fs, ∀ r ∈ f.repos, r.tomb = false → P (shardOf t f r)) →
      let m' := fs.foldl (fun m f => f.repos.foldl (fun m r => if r.tomb then m else mapAdd m ⟨r.id, r.name, t, f.compound, f.key, f.mtime⟩) m) m
      Keyed m' ∧ (∀ e ∈ m', ∀ s ∈ e.2, P s) ∧ (∀ s, InMap m s → InMap m' s) ∧
        (∀ f ∈ fs, ∀ r ∈ f.repos, r.tomb = false → InMap m' (shardOf t f r)) := by
    intro fs
    induction fs with
    | nil => intro m P hk hp _; exact ⟨hk, hp, fun _ h => h, by simp⟩
    | cons f rest ih =>
      intro m P hk hp hf
      simp only [List.foldl_cons]
      have h1 := inner f f.repos m P hk hp (fun r hr => hf f (by simp) r hr)
      have h2 := ih _ P h1.1 h1.2.1 (fun f' hf' => hf f' (by simp [hf']))
      refine ⟨h2.1, h2.2.1, fun s hs => h2.2.2.1 s (h1.2.2.1 s hs), ?_⟩
      intro f' hf' r hr htomb
      rcases List.mem_cons.mp hf' with rfl | h
      · exact h2.2.2.1 _ (h1.2.2.2 r hr htomb)
      · exact h2.2.2.2 f' h r hr htomb
  let P : Shard → Prop := fun s => ∃ f ∈ files, ∃ r ∈ f.repos, r.tomb = false ∧ s = shardOf t f r
  have := outer (sortFiles files) [] P (fun e he => by cases he) (fun e he => by cases he)
    (fun f hf r hr ht => ⟨f, (mem_sortFiles f files).mp hf, r, hr, ht, rfl⟩)
  refine ⟨this.1, fun s => ⟨?_, ?_⟩, this.2.1⟩
  · rintro ⟨e, he, _, hs⟩; exact this.2.1 e he s hs
  · rintro ⟨f, hf, r, hr, ht, rfl⟩
    exact this.2.2.2 f ((mem_sortFiles f files).mpr hf) r hr ht

theorem aliveIn_iff (f : File) (id : Nat) : aliveIn f id = true ↔ ∃ r ∈ f.repos, r.id = id ∧ r.tomb = false := by
  simp [aliveIn]

/-- completeness of `getShards`: a repository alive at a basename has an entry with a shard for that basename -/
theorem getShards_complete (files : List File) (t : Bool) (id : Nat) (c : Bool) (k : Nat) (h : AliveAt files id c k) :
    ∃ e ∈ getShards files t, e.1 = id ∧ ∃ s ∈ e.2, s.compound = c ∧ s.key = k ∧ s.inTrash = t := by
  obtain ⟨f, hf, hb, ha⟩ := h
  obtain ⟨r, hr, hid, htomb⟩ := (aliveIn_iff f id).mp ha
  obtain ⟨e, he, h1, h2⟩ := ((getShards_spec files t).2.1 (shardOf t f r)).mpr ⟨f, hf, r, hr, htomb, rfl⟩
  rw [sameBase_iff] at hb
  exact ⟨e, he, by rw [h1]; exact hid, shardOf t f r, h2, hb.1, hb.2, rfl⟩

/-- soundness of `getShards` -/
theorem getShards_sound (files : List File) (t : Bool) (e : Nat × List Shard) (he : e ∈ getShards files t) (s : Shard) (hs : s ∈ e.2) :
    s.id = e.1 ∧ s.inTrash = t ∧ ∃ f ∈ files, sameBase f s.compound s.key = true ∧ aliveIn f e.1 = true := by
  have hk := (getShards_spec files t).1 e he s hs
  obtain ⟨f, hf, r, hr, htomb, rfl⟩ := (getShards_spec files t).2.2 e he s hs
  refine ⟨hk, rfl, f, hf, by simp [shardOf, sameBase], ?_⟩
  rw [aliveIn_iff]
  exact ⟨r, hr, by rw [← hk]; rfl, htomb⟩

/-! ### relations between directory listings -/

/-- nothing is alive in `fs'` that was not alive at the same basename in `fs` -/
def Mono (fs fs' : List File) : Prop := ∀ id c k, AliveAt fs' id c k → AliveAt fs id c k

/-- … for repositories outside `A` -/
def NoNew (A : List Nat) (fs fs' : List File) : Prop :=
  ∀ id, A.contains id = false → ∀ c k, AliveAt fs' id c k → AliveAt fs id c k

/-- every file of `fs'` is a file of `fs` up to its mtime -/
def SubMod (fs fs' : List File) : Prop :=
  ∀ f' ∈ fs', ∃ f ∈ fs, f.compound = f'.compound ∧ f.key = f'.key ∧ f.repos = f'.repos

theorem Mono.refl (fs : List File) : Mono fs fs := fun _ _ _ h => h
theorem Mono.trans {a b c : List File} (h1 : Mono a b) (h2 : Mono b c) : Mono a c := fun id c' k h => h1 id c' k (h2 id c' k h)
theorem Mono.noNew {A : List Nat} {a b : List File} (h : Mono a b) : NoNew A a b := fun id _ c k hh => h id c k hh
theorem NoNew.refl (A : List Nat) (fs : List File) : NoNew A fs fs := fun _ _ _ _ h => h
theorem NoNew.trans {A : List Nat} {a b c : List File} (h1 : NoNew A a b) (h2 : NoNew A b c) : NoNew A a c :=
  fun id hid c' k h => h1 id hid c' k (h2 id hid c' k h)
theorem SubMod.refl (fs : List File) : SubMod fs fs := fun f hf => ⟨f, hf, rfl, rfl, rfl⟩
theorem SubMod.trans {a b c : List File} (h1 : SubMod a b) (h2 : SubMod b c) : SubMod a c := by
  intro f hf
  obtain ⟨g, hg, e1, e2, e3⟩ := h2 f hf
  obtain ⟨g', hg', e1', e2', e3'⟩ := h1 g hg
  exact ⟨g', hg', e1'.trans e1, e2'.trans e2, e3'.trans e3⟩

theorem subMod_rmBase (fs : List File) (c : Bool) (k : Nat) : SubMod fs (rmBase fs c k) := by
  intro f hf
  simp only [rmBase, List.mem_filter] at hf
  exact ⟨f, hf.1, rfl, rfl, rfl⟩

theorem subMod_touch (fs : List File) (c : Bool) (k : Nat) (t : Int) : SubMod fs (touch fs c k t) := by
  intro f hf
  simp only [touch, List.mem_map] at hf
  obtain ⟨g, hg, rfl⟩ := hf
  refine ⟨g, hg, ?_, ?_, ?_⟩ <;> split <;> rfl

theorem mono_rmBase (fs : List File) (c : Bool) (k : Nat) : Mono fs (rmBase fs c k) := fun _ _ _ h => (aliveAt_rmBase h).1
theorem mono_touch (fs : List File) (c : Bool) (k : Nat) (t : Int) : Mono fs (touch fs c k t) := fun _ _ _ h => aliveAt_touch.mp h
theorem mono_setTomb_true (fs : List File) (c : Bool) (k a : Nat) : Mono fs (setTombIn fs c k a true) :=
  fun _ _ _ h => (aliveAt_setTomb_true h).1

/-! ### directory operations -/

theorem removeShard_facts (d : Dir) (s : Shard) :
    Mono d.index (removeShard d s).index ∧ SubMod d.trash (removeShard d s).trash ∧
    (s.inTrash = true → (removeShard d s).index = d.index) ∧ (s.inTrash = false → (removeShard d s).trash = d.trash) ∧
    (s.inTrash = false → ∀ id, ¬ AliveAt (removeShard d s).index id s.compound s.key) := by
  unfold removeShard
  cases hs : s.inTrash
  · simp only [Bool.false_eq_true, if_false]
    refine ⟨mono_rmBase _ _ _, SubMod.refl _, fun h => False.elim h, fun _ => trivial, fun _ id h => (aliveAt_rmBase h).2 ⟨rfl, rfl⟩⟩
  · simp only [if_true]
    exact ⟨Mono.refl _, subMod_rmBase _ _ _, fun _ => trivial, fun h => Bool.noConfusion h, fun h => Bool.noConfusion h⟩

theorem removeAll_facts (shards : List Shard) (d : Dir) :
    Mono d.index (removeAll d shards).index ∧ SubMod d.trash (removeAll d shards).trash ∧
    ((∀ s ∈ shards, s.inTrash = true) → (removeAll d shards).index = d.index) ∧
    ((∀ s ∈ shards, s.inTrash = false) → (removeAll d shards).trash = d.trash) ∧
    (∀ s ∈ shards, s.inTrash = false → ∀ id, ¬ AliveAt (removeAll d shards).index id s.compound s.key) := by
  induction shards generalizing d with
  | nil => exact ⟨Mono.refl _, SubMod.refl _, fun _ => rfl, fun _ => rfl, fun _ h => by cases h⟩
  | cons s r ih =>
    simp only [removeAll, List.foldl_cons]
    have h1 := removeShard_facts d s
    have h2 := ih (removeShard d s)
    simp only [removeAll] at h2
    refine ⟨h1.1.trans h2.1, h1.2.1.trans h2.2.1, ?_, ?_, ?_⟩
    · intro h; rw [h2.2.2.1 (fun s' hs' => h s' (by simp [hs'])), h1.2.2.1 (h s (by simp))]
    · intro h; rw [h2.2.2.2.1 (fun s' hs' => h s' (by simp [hs'])), h1.2.2.2.1 (h s (by simp))]
    · intro s' hs' hin id hal
      rcases List.mem_cons.mp hs' with rfl | hs''
      · exact h1.2.2.2.2 hin id (h2.1 id _ _ hal)
      · exact h2.2.2.2.2 s' hs'' hin id hal

theorem chtimes_facts (d : Dir) (s : Shard) (t : Int) :
    Mono d.index (chtimes d s t).index ∧ Mono (chtimes d s t).index d.index ∧ SubMod d.trash (chtimes d s t).trash ∧
    (s.inTrash = true → (chtimes d s t).index = d.index) ∧ (s.inTrash = false → (chtimes d s t).trash = d.trash) := by
  unfold chtimes
  cases hs : s.inTrash
  · simp only [Bool.false_eq_true, if_false]
    exact ⟨mono_touch _ _ _ _, fun _ _ _ h => aliveAt_touch.mpr h, SubMod.refl _, fun h => False.elim h, fun _ => trivial⟩
  · simp only [if_true]
    exact ⟨Mono.refl _, Mono.refl _, subMod_touch _ _ _ _, fun _ => trivial, fun h => Bool.noConfusion h⟩

theorem moveOne_toTrash_facts (d : Dir) (s : Shard) :
    Mono d.index (moveOne true d s).index ∧ ∀ id, ¬ AliveAt (moveOne true d s).index id s.compound s.key :=
  ⟨fun _ _ _ h => (aliveAt_moveOne_toTrash h).1, fun _ h => (aliveAt_moveOne_toTrash h).2 ⟨rfl, rfl⟩⟩

theorem moveAll_toTrash_facts (shards : List Shard) (d : Dir) :
    Mono d.index (moveAll true d shards).index ∧ ∀ s ∈ shards, ∀ id, ¬ AliveAt (moveAll true d shards).index id s.compound s.key := by
  induction shards generalizing d with
  | nil => exact ⟨Mono.refl _, fun _ h => by cases h⟩
  | cons s r ih =>
    simp only [moveAll, List.foldl_cons]
    have h1 := moveOne_toTrash_facts d s
    have h2 := ih (moveOne true d s)
    simp only [moveAll] at h2
    refine ⟨h1.1.trans h2.1, ?_⟩
    intro s' hs' id hal
    rcases List.mem_cons.mp hs' with rfl | hs''
    · exact h1.2 id (h2.1 id _ _ hal)
    · exact h2.2 s' hs'' id hal

/-- restoring is safe for the repositories outside `A` when the restored file lists only repositories of `A` alive -/
def SafeAt (A : List Nat) (trash : List File) (c : Bool) (k : Nat) : Prop :=
  ∀ f ∈ trash, sameBase f c k = true → ∀ id, aliveIn f id = true → A.contains id = true

theorem safeAt_subMod {A : List Nat} {t0 t : List File} {c : Bool} {k : Nat} (hs : SubMod t0 t) (h : SafeAt A t0 c k) : SafeAt A t c k := by
  intro f hf hb id ha
  obtain ⟨g, hg, e1, e2, e3⟩ := hs f hf
  apply h g hg
  · rw [sameBase_iff] at hb ⊢; exact ⟨e1.trans hb.1, e2.trans hb.2⟩
  · simp only [aliveIn] at ha ⊢; rw [e3]; exact ha

theorem moveOne_toIndex_facts (A : List Nat) (d : Dir) (s : Shard) (hsafe : SafeAt A d.trash s.compound s.key) :
    NoNew A d.index (moveOne false d s).index ∧ SubMod d.trash (moveOne false d s).trash := by
  unfold moveOne
  simp only [Bool.false_eq_true, if_false]
  split
  · exact ⟨(mono_rmBase _ _ _).noNew, subMod_rmBase _ _ _⟩
  · split
    · exact ⟨(mono_rmBase _ _ _).noNew, SubMod.refl _⟩
    · rename_i f hf
      refine ⟨?_, subMod_rmBase _ _ _⟩
      intro id hid c k hal
      obtain ⟨g, hg, hb, ha⟩ := hal
      rcases List.mem_cons.mp hg with rfl | hg'
      · have := hsafe g (getBase_some hf).1 (getBase_some hf).2 id ha
        rw [hid] at this; cases this
      · exact (aliveAt_rmBase ⟨g, hg', hb, ha⟩).1

theorem moveAll_toIndex_facts (A : List Nat) (t0 : List File) (shards : List Shard) (d : Dir) (hsub : SubMod t0 d.trash)
    (hsafe : ∀ s ∈ shards, SafeAt A t0 s.compound s.key) :
    NoNew A d.index (moveAll false d shards).index ∧ SubMod t0 (moveAll false d shards).trash := by
  induction shards generalizing d with
  | nil => exact ⟨NoNew.refl _ _, hsub⟩
  | cons s r ih =>
    simp only [moveAll, List.foldl_cons]
    have h1 := moveOne_toIndex_facts A d s (safeAt_subMod hsub (hsafe s (by simp)))
    have h2 := ih (moveOne false d s) (hsub.trans h1.2) (fun s' hs' => hsafe s' (by simp [hs']))
    simp only [moveAll] at h2
    exact ⟨h1.1.trans h2.1, h2.2⟩

theorem setTomb_true_facts (d : Dir) (s : Shard) (a : Nat) :
    Mono d.index (setTomb d s a true).index ∧ (setTomb d s a true).trash = d.trash ∧
    ¬ AliveAt (setTomb d s a true).index a s.compound s.key :=
  ⟨mono_setTomb_true _ _ _ _, rfl, fun h => (aliveAt_setTomb_true h).2 ⟨rfl, rfl, rfl⟩⟩

theorem setTomb_false_facts (A : List Nat) (d : Dir) (s : Shard) (a : Nat) (ha : A.contains a = true) :
    NoNew A d.index (setTomb d s a false).index ∧ (setTomb d s a false).trash = d.trash := by
  refine ⟨?_, rfl⟩
  intro id hid c k hal
  rcases aliveAt_setTomb_false hal with h | h
  · exact h
  · rw [h, ha] at hid; cases hid

end ZoektModel.C32
