/-
C32 — the property as executable predicates over (directory before, assigned set, now, shard merging, directory after):

  Periodic cleanup never deletes or trashes the shards of a repository currently assigned to the server (unless
  its shards disagree on the repository name), restores assigned repositories found in the trash, moves every
  unassigned repository out of the searchable index (to the trash or by tombstoning it in a compound shard), and
  permanently deletes trashed shards only once they are older than 24 hours or conflict with an indexed copy.

Written from the statement, over sets of files and repositories; it does not mention the phases of the code.
-/
import ZoektModel.C32.Model
namespace ZoektModel.C32

/-- repository `id` is listed alive (not tombstoned) by file `f` -/
def aliveIn (f : File) (id : Nat) : Bool := f.repos.any fun r => r.id == id && !r.tomb

/-- `id` is searchable in the directory `files` -/
def searchable (files : List File) (id : Nat) : Bool := files.any (aliveIn · id)

/-- all names under which `id` is alive in `files` -/
def namesOf (files : List File) (id : Nat) : List Nat :=
  files.flatMap fun f => (f.repos.filter fun r => r.id == id && !r.tomb).map (·.name)

def consistent (files : List File) (id : Nat) : Bool :=
  match namesOf files id with
  | [] => true
  | n :: r => r.all (· == n)

/-- a file with this basename and exactly these repositories alive is (still) in `files` -/
def keptIn (files : List File) (f : File) (id : Nat) : Bool :=
  files.any fun g => sameBase g f.compound f.key && aliveIn g id

/-- assigned_kept: every index file that listed an assigned, consistently named repository alive still does -/
def assignedKept (pre post : Dir) (assigned : List Nat) : Option Nat :=
  (assigned.find? fun id =>
    consistent pre.index id &&
    pre.index.any fun f => aliveIn f id && !keptIn post.index f id)

def oldInTrash (pre : Dir) (now : Int) (id : Nat) : Bool :=
  pre.trash.any fun f => aliveIn f id && decide (f.mtime < now - day)

/-- assigned_restored: an assigned repository that is not in the index but in the trash (none of its trashed
    shards older than 24 h) is searchable afterwards, with every one of its trashed shards back in the index -/
def assignedRestored (pre post : Dir) (assigned : List Nat) (now : Int) : Option Nat :=
  (assigned.find? fun id =>
    !searchable pre.index id && searchable pre.trash id && !oldInTrash pre now id &&
    pre.trash.any fun f => aliveIn f id && !keptIn post.index f id)

/-- not part of the statement (and therefore not of `checkP`): an assigned repository that is only tombstoned in a
    compound shard is searchable again -/
def assignedUntombstoned (pre post : Dir) (assigned : List Nat) : Option Nat :=
  (assigned.find? fun id =>
    !searchable pre.index id && !searchable pre.trash id &&
    pre.index.any (fun f => f.compound && f.repos.any fun r => r.id == id && r.tomb) &&
    !searchable post.index id)

def allIds (files : List File) : List Nat := files.flatMap fun f => f.repos.map (·.id)

/-- unassigned_unsearchable -/
def unassignedGone (pre post : Dir) (assigned : List Nat) : Option Nat :=
  ((allIds pre.index ++ allIds pre.trash ++ allIds post.index).find? fun id =>
    !assigned.contains id && searchable post.index id)

/-- trash_purge_rule: a trashed file that is gone (neither still in the trash nor moved back into the index) held a
    repository with a trashed shard older than 24 h, or one that has an indexed copy -/
def purgeRule (pre post : Dir) (now : Int) : Option File :=
  pre.trash.find? fun f =>
    !(post.trash.any fun g => sameBase g f.compound f.key && g.repos == f.repos) &&
    !(post.index.any fun g => sameBase g f.compound f.key && g.repos == f.repos) &&
    !(f.repos.any fun r => !r.tomb && (oldInTrash pre now r.id || searchable pre.index r.id))

/-- the (repository, index file) pairs that violate assigned_kept: the repository is assigned and consistently named, was
    alive in the file, and is not alive under that file name any more -/
def lostPairs (pre post : Dir) (assigned : List Nat) : List (Nat × File) :=
  assigned.flatMap fun id =>
    if consistent pre.index id then
      (pre.index.filter fun f => aliveIn f id && !keptIn post.index f id).map fun f => (id, f)
    else []

/-- the file also held, alive, a repository that is not assigned or whose shards disagree on its name: the one situation
    in which cleanup has to take something out of this very file -/
def holdsForeign (pre : Dir) (assigned : List Nat) (f : File) : Bool :=
  f.repos.any fun r => !r.tomb && (!assigned.contains r.id || !consistent pre.index r.id)

/-- why an assigned repository lost the file `f` — failure keys. Only two classes are known findings (DESIGN §8): the
    whole *compound* shard was deleted although it still held assigned repositories, *because it also held a repository
    that had to leave it* (`holdsForeign`), and file-name collisions with the trash. They are exactly the exclusions of
    theorem `assigned_kept_partial`; every other loss is `assigned-lost`. -/
def lossClass (pre : Dir) (assigned : List Nat) (f : File) : String :=
  if holdsForeign pre assigned f then
    (if f.compound then "assigned-lost-compound-shard-deleted" else "assigned-lost-shared-simple-shard")
  else if hasBase pre.trash f.compound f.key then "assigned-lost-basename-collision"
  else "assigned-lost"

/-- the key reported for a case: an unclassified loss wins over the known classes -/
def lossKey (pre : Dir) (assigned : List Nat) (lost : List (Nat × File)) : Option String :=
  match lost with
  | [] => none
  | p :: _ =>
    if lost.any (fun q => lossClass pre assigned q.2 == "assigned-lost") then some "assigned-lost"
    else some (lossClass pre assigned p.2)

def checkP (pre : Dir) (assigned : List Nat) (now : Int) (post : Dir) : Option String :=
  match lossKey pre assigned (lostPairs pre post assigned) with
  | some k => some k
  | none =>
  match assignedRestored pre post assigned now with
  | some id =>
    some (if pre.trash.any fun f => aliveIn f id && hasBase pre.index f.compound f.key
          then "assigned-not-restored-basename-collision" else "assigned-not-restored")
  | none =>
  match unassignedGone pre post assigned with
  | some _ => some "unassigned-still-searchable"
  | none =>
  match purgeRule pre post now with
  | some f => some (if hasBase pre.index f.compound f.key then "trash-deleted-early-basename-collision" else "trash-deleted-early")
  | none => if post.tmps != 0 then some "tmp-files-left" else none

/-! ### the failure keys used by the driver: the compound-shard class narrowed by the shard-merging setting

`lossClass` above is as wide as the exclusion of theorem `assigned_kept_partial` (the file also holds a repository that
has to leave it).  The code, however, only *deletes* such a compound shard when it cannot tombstone: shard merging off,
or shard merging on and the unassigned repository has a second shard (`maybeSetTombstone` wants exactly one).  With
shard merging on and a single shard the repository must be tombstoned and the file must stay; losing it is `assigned-lost`. -/

/-- number of (index file, alive entry) pairs of repository `id` -/
def aliveCount (files : List File) (id : Nat) : Nat :=
  (files.flatMap fun f => f.repos.filter fun r => r.id == id && !r.tomb).length

def cannotTombstone (pre : Dir) (assigned : List Nat) (merging : Bool) (f : File) : Bool :=
  f.repos.any fun r => !r.tomb &&
    (if merging then !assigned.contains r.id && consistent pre.index r.id && decide (aliveCount pre.index r.id ≥ 2)
     else !assigned.contains r.id || !consistent pre.index r.id)

def lossClassM (pre : Dir) (assigned : List Nat) (merging : Bool) (f : File) : String :=
  if cannotTombstone pre assigned merging f then
    (if f.compound then "assigned-lost-compound-shard-deleted" else "assigned-lost-shared-simple-shard")
  else if hasBase pre.trash f.compound f.key then "assigned-lost-basename-collision"
  else "assigned-lost"

def lossKeyM (pre : Dir) (assigned : List Nat) (merging : Bool) (lost : List (Nat × File)) : Option String :=
  match lost with
  | [] => none
  | p :: _ =>
    if lost.any (fun q => lossClassM pre assigned merging q.2 == "assigned-lost") then some "assigned-lost"
    else some (lossClassM pre assigned merging p.2)

/-- `checkP` with the narrowed keys (same clauses, same order) -/
def checkPM (pre : Dir) (assigned : List Nat) (now : Int) (merging : Bool) (post : Dir) : Option String :=
  match lossKeyM pre assigned merging (lostPairs pre post assigned) with
  | some k => some k
  | none =>
    match checkP pre assigned now post with
    | some k => if (lostPairs pre post assigned).isEmpty then some k else none
    | none => none

end ZoektModel.C32
