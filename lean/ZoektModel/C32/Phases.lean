/-
C32 — lemmas: what each phase of `cleanup` does to the set of (repository, basename) pairs alive in the index.
-/
import ZoektModel.C32.Lemmas
namespace ZoektModel.C32

theorem mapGet_some_mem {α} (m : List (Nat × α)) (id : Nat) (v : α) (h : mapGet m id = some v) :
    ∃ e ∈ m, e.1 = id ∧ e.2 = v := by
  simp only [mapGet, Option.map_eq_some_iff] at h
  obtain ⟨e, he, rfl⟩ := h
  exact ⟨e, List.mem_of_find?_eq_some he, by simpa using List.find?_some he, rfl⟩

theorem mem_mapErase {α} (m : List (Nat × α)) (id : Nat) (e : Nat × α) : e ∈ mapErase m id ↔ e ∈ m ∧ e.1 ≠ id := by
  simp [mapErase]

/-! ### phase 1 touches only the trash -/

theorem purgeOne_facts (now : Int) (index0 : SMap) (acc : Dir × SMap) (e : Nat × List Shard) (hin : ∀ s ∈ e.2, s.inTrash = true) :
    (purgeOne now index0 acc e).1.index = acc.1.index ∧ SubMod acc.1.trash (purgeOne now index0 acc e).1.trash ∧
    (∀ x ∈ (purgeOne now index0 acc e).2, x ∈ acc.2) := by
  have inner : ∀ (l : List Shard) (d : Dir), (∀ s ∈ l, s.inTrash = true) →
      (l.foldl (fun d s => if s.mtime < now - day then d else if s.mtime > now then chtimes d s now else d) d).index = d.index ∧
      SubMod d.trash (l.foldl (fun d s => if s.mtime < now - day then d else if s.mtime > now then chtimes d s now else d) d).trash := by
    intro l
    induction l with
    | nil => intro d _; exact ⟨rfl, SubMod.refl _⟩
    | cons s r ih =>
      intro d hl
      simp only [List.foldl_cons]
      split
      · exact ih d (fun s' hs' => hl s' (by simp [hs']))
      · split
        · have h1 := chtimes_facts d s now
          have h2 := ih (chtimes d s now) (fun s' hs' => hl s' (by simp [hs']))
          exact ⟨h2.1.trans (h1.2.2.2.1 (hl s (by simp))), h1.2.2.1.trans h2.2⟩
        · exact ih d (fun s' hs' => hl s' (by simp [hs']))
  unfold purgeOne
  have hi := inner e.2 acc.1 hin
  simp only []
  split
  · exact ⟨hi.1, hi.2, fun x hx => hx⟩
  · have hr := removeAll_facts e.2 (e.2.foldl (fun d s => if s.mtime < now - day then d else if s.mtime > now then chtimes d s now else d) acc.1)
    refine ⟨(hr.2.2.1 hin).trans hi.1, hi.2.trans hr.2.1, ?_⟩
    intro x hx
    exact ((mem_mapErase _ _ _).mp hx).1

theorem phase1_facts (now : Int) (index0 trash0 : SMap) (d : Dir) (hin : ∀ e ∈ trash0, ∀ s ∈ e.2, s.inTrash = true) :
    (phase1 now index0 trash0 d).1.index = d.index ∧ SubMod d.trash (phase1 now index0 trash0 d).1.trash ∧
    (∀ x ∈ (phase1 now index0 trash0 d).2, x ∈ trash0) := by
  have gen : ∀ (l : List (Nat × List Shard)) (acc : Dir × SMap), (∀ e ∈ l, ∀ s ∈ e.2, s.inTrash = true) →
      (l.foldl (purgeOne now index0) acc).1.index = acc.1.index ∧ SubMod acc.1.trash (l.foldl (purgeOne now index0) acc).1.trash ∧
      (∀ x ∈ (l.foldl (purgeOne now index0) acc).2, x ∈ acc.2) := by
    intro l
    induction l with
    | nil => intro acc _; exact ⟨rfl, SubMod.refl _, fun _ h => h⟩
    | cons e r ih =>
      intro acc hl
      simp only [List.foldl_cons]
      have h1 := purgeOne_facts now index0 acc e (hl e (by simp))
      have h2 := ih (purgeOne now index0 acc e) (fun e' he' => hl e' (by simp [he']))
      exact ⟨h2.1.trans h1.1, h1.2.1.trans h2.2.1, fun x hx => h1.2.2 x (h2.2.2 x hx)⟩
  exact gen trash0 (d, trash0) hin

/-! ### phase 3: inconsistently named repositories leave the index -/

theorem inconsOne_facts (merging : Bool) (d : Dir) (e : Nat × List Shard) (hin : ∀ s ∈ e.2, s.inTrash = false) :
    Mono d.index (inconsOne merging d e).index ∧ (inconsOne merging d e).trash = d.trash ∧
    (consistentRepoName e.2 = false → ∀ s ∈ e.2, ¬ AliveAt (inconsOne merging d e).index e.1 s.compound s.key) := by
  unfold inconsOne
  cases hc : consistentRepoName e.2
  case true => simp only [if_true]; exact ⟨Mono.refl _, trivial, fun h => by cases h⟩
  case false =>
    simp only [Bool.false_eq_true, if_false]
    have inner : ∀ (l : List Shard) (acc : Dir × List Shard), (∀ s ∈ l, s.inTrash = false) → (∀ s ∈ acc.2, s.inTrash = false) →
        let r := l.foldl (fun (acc : Dir × List Shard) s =>
          if merging && s.compound then (setTomb acc.1 s e.1 true, acc.2) else (acc.1, acc.2 ++ [s])) acc
        Mono acc.1.index r.1.index ∧ r.1.trash = acc.1.trash ∧ (∀ s ∈ r.2, s.inTrash = false) ∧ (∀ s ∈ acc.2, s ∈ r.2) ∧
        (∀ s ∈ l, ¬ AliveAt r.1.index e.1 s.compound s.key ∨ s ∈ r.2) := by
      intro l
      induction l with
      | nil => intro acc _ h2; exact ⟨Mono.refl _, rfl, h2, fun _ h => h, fun _ h => by cases h⟩
      | cons s r ih =>
        intro acc h1 h2
        simp only [List.foldl_cons]
        split
        · have hs := setTomb_true_facts acc.1 s e.1
          have := ih (setTomb acc.1 s e.1 true, acc.2) (fun s' hs' => h1 s' (by simp [hs'])) h2
          refine ⟨hs.1.trans this.1, this.2.1.trans hs.2.1, this.2.2.1, this.2.2.2.1, ?_⟩
          intro s' hs'
          rcases List.mem_cons.mp hs' with rfl | hs''
          · exact Or.inl (fun hal => hs.2.2 (this.1 _ _ _ hal))
          · exact this.2.2.2.2 s' hs''
        · have := ih (acc.1, acc.2 ++ [s]) (fun s' hs' => h1 s' (by simp [hs']))
            (fun s' hs' => by
              rcases List.mem_append.mp hs' with h | h
              · exact h2 s' h
              · simp only [List.mem_singleton] at h; rw [h]; exact h1 s (by simp))
          refine ⟨this.1, this.2.1, this.2.2.1, fun s' hs' => this.2.2.2.1 s' (by simp [hs']), ?_⟩
          intro s' hs'
          rcases List.mem_cons.mp hs' with rfl | hs''
          · exact Or.inr (this.2.2.2.1 _ (by simp))
          · exact this.2.2.2.2 s' hs''
    have hi := inner e.2 (d, []) hin (fun _ h => by cases h)
    simp only [] at hi
    generalize e.2.foldl (fun (acc : Dir × List Shard) s =>
          if merging && s.compound then (setTomb acc.1 s e.1 true, acc.2) else (acc.1, acc.2 ++ [s])) (d, []) = r at hi
    have hr := removeAll_facts r.2 r.1
    refine ⟨hi.1.trans hr.1, (hr.2.2.2.1 hi.2.2.1).trans hi.2.1, fun _ s hs hal => ?_⟩
    rcases hi.2.2.2.2 s hs with h | h
    · exact h (hr.1 _ _ _ hal)
    · exact hr.2.2.2.2 s h (hi.2.2.1 s h) e.1 hal

theorem phase3_facts (merging : Bool) (index0 : SMap) (d : Dir) (hin : ∀ e ∈ index0, ∀ s ∈ e.2, s.inTrash = false) :
    Mono d.index (phase3 merging index0 d).1.index ∧ (phase3 merging index0 d).1.trash = d.trash ∧
    (∀ e ∈ index0, consistentRepoName e.2 = false → ∀ s ∈ e.2, ¬ AliveAt (phase3 merging index0 d).1.index e.1 s.compound s.key) ∧
    (phase3 merging index0 d).2 = index0.filter (fun e => consistentRepoName e.2) := by
  have gen : ∀ (l : List (Nat × List Shard)) (d : Dir), (∀ e ∈ l, ∀ s ∈ e.2, s.inTrash = false) →
      Mono d.index (l.foldl (inconsOne merging) d).index ∧ (l.foldl (inconsOne merging) d).trash = d.trash ∧
      (∀ e ∈ l, consistentRepoName e.2 = false → ∀ s ∈ e.2, ¬ AliveAt (l.foldl (inconsOne merging) d).index e.1 s.compound s.key) := by
    intro l
    induction l with
    | nil => intro d _; exact ⟨Mono.refl _, rfl, fun _ h => by cases h⟩
    | cons e r ih =>
      intro d hl
      simp only [List.foldl_cons]
      have h1 := inconsOne_facts merging d e (hl e (by simp))
      have h2 := ih (inconsOne merging d e) (fun e' he' => hl e' (by simp [he']))
      refine ⟨h1.1.trans h2.1, h2.2.1.trans h1.2.1, ?_⟩
      intro e' he' hc s hs hal
      rcases List.mem_cons.mp he' with rfl | he''
      · exact h1.2.2 hc s hs (h2.1 _ _ _ hal)
      · exact h2.2.2 e' he'' hc s hs hal
  have := gen index0 d hin
  exact ⟨this.1, this.2.1, this.2.2, rfl⟩

/-! ### phase 4: only assigned repositories come (back) alive -/

theorem restoreOne_facts (A : List Nat) (t0 : List File) (trash1 : SMap) (tombs : List (Nat × Shard)) (acc : Dir × SMap) (id : Nat)
    (hid : A.contains id = true) (hsub : SubMod t0 acc.1.trash)
    (hsafe : ∀ e ∈ trash1, A.contains e.1 = true → ∀ s ∈ e.2, SafeAt A t0 s.compound s.key) :
    NoNew A acc.1.index (restoreOne trash1 tombs acc id).1.index ∧ SubMod t0 (restoreOne trash1 tombs acc id).1.trash ∧
    (restoreOne trash1 tombs acc id).2 = mapErase acc.2 id := by
  unfold restoreOne
  simp only []
  cases hg : mapGet trash1 id with
  | some shards =>
    simp only []
    obtain ⟨e, he, h1, h2⟩ := mapGet_some_mem trash1 id shards hg
    have := moveAll_toIndex_facts A t0 shards acc.1 hsub (fun s hs => hsafe e he (by rw [h1]; exact hid) s (by rw [h2]; exact hs))
    exact ⟨this.1, this.2, trivial⟩
  | none =>
    simp only []
    cases hg2 : mapGet tombs id with
    | some s =>
      simp only []
      have := setTomb_false_facts A acc.1 s id hid
      exact ⟨this.1, by rw [this.2]; exact hsub, trivial⟩
    | none => exact ⟨NoNew.refl _ _, hsub, rfl⟩

theorem phase4_facts (A : List Nat) (trash1 : SMap) (tombs : List (Nat × Shard)) (d : Dir) (index1 : SMap) (t0 : List File)
    (hsub : SubMod t0 d.trash)
    (hsafe : ∀ e ∈ trash1, A.contains e.1 = true → ∀ s ∈ e.2, SafeAt A t0 s.compound s.key) :
    NoNew A d.index (phase4 A trash1 tombs d index1).1.index ∧
    (∀ e ∈ index1, A.contains e.1 = false → e ∈ (phase4 A trash1 tombs d index1).2) := by
  have gen : ∀ (l : List Nat) (acc : Dir × SMap), (∀ id ∈ l, A.contains id = true) → SubMod t0 acc.1.trash →
      NoNew A acc.1.index (l.foldl (restoreOne trash1 tombs) acc).1.index ∧
      (∀ e ∈ acc.2, A.contains e.1 = false → e ∈ (l.foldl (restoreOne trash1 tombs) acc).2) := by
    intro l
    induction l with
    | nil => intro acc _ _; exact ⟨NoNew.refl _ _, fun _ h _ => h⟩
    | cons id r ih =>
      intro acc hl hs
      simp only [List.foldl_cons]
      have h1 := restoreOne_facts A t0 trash1 tombs acc id (hl id (by simp)) hs hsafe
      have h2 := ih (restoreOne trash1 tombs acc id) (fun id' h => hl id' (by simp [h])) h1.2.1
      refine ⟨h1.1.trans h2.1, ?_⟩
      intro e he hA
      apply h2.2 e _ hA
      rw [h1.2.2, mem_mapErase]
      refine ⟨he, fun h => ?_⟩
      rw [h, hl id (by simp)] at hA; cases hA
  exact gen A (d, index1) (fun id h => by simpa using h) hsub

/-! ### phase 5: whatever is left in the index map leaves the index -/

theorem trashOne_facts (now : Int) (merging : Bool) (d : Dir) (e : Nat × List Shard) :
    Mono d.index (trashOne now merging d e).index ∧ ∀ s ∈ e.2, ¬ AliveAt (trashOne now merging d e).index e.1 s.compound s.key := by
  have touchAll : ∀ (l : List Shard) (d : Dir), Mono d.index (l.foldl (fun d s => chtimes d s now) d).index := by
    intro l
    induction l with
    | nil => intro d; exact Mono.refl _
    | cons s r ih => intro d; simp only [List.foldl_cons]; exact (chtimes_facts d s now).1.trans (ih _)
  unfold trashOne
  simp only []
  generalize hd1 : e.2.foldl (fun d s => chtimes d s now) d = d1
  have hm1 : Mono d.index d1.index := by rw [← hd1]; exact touchAll e.2 d
  have hmove := moveAll_toTrash_facts e.2 d1
  cases merging
  · simp only [Bool.false_eq_true, if_false]
    exact ⟨hm1.trans hmove.1, fun s hs hal => hmove.2 s hs e.1 hal⟩
  · simp only [if_true]
    unfold maybeSetTombstone
    split
    · rename_i s hl
      split
      · simp only [if_true]
        have hs := setTomb_true_facts d1 s e.1
        refine ⟨hm1.trans hs.1, ?_⟩
        intro s' hs' hal
        rw [hl] at hs'
        simp only [List.mem_singleton] at hs'
        rw [hs'] at hal
        exact hs.2.2 hal
      · simp only [Bool.false_eq_true, if_false]
        exact ⟨hm1.trans hmove.1, fun s hs hal => hmove.2 s hs e.1 hal⟩
    · simp only [Bool.false_eq_true, if_false]
      exact ⟨hm1.trans hmove.1, fun s hs hal => hmove.2 s hs e.1 hal⟩

theorem phase5_facts (now : Int) (merging : Bool) (rest : SMap) (d : Dir) :
    Mono d.index (phase5 now merging rest d).index ∧
    ∀ e ∈ rest, ∀ s ∈ e.2, ¬ AliveAt (phase5 now merging rest d).index e.1 s.compound s.key := by
  unfold phase5
  induction rest generalizing d with
  | nil => exact ⟨Mono.refl _, fun _ h => by cases h⟩
  | cons e r ih =>
    simp only [List.foldl_cons]
    have h1 := trashOne_facts now merging d e
    have h2 := ih (trashOne now merging d e)
    refine ⟨h1.1.trans h2.1, ?_⟩
    intro e' he' s hs hal
    rcases List.mem_cons.mp he' with rfl | he''
    · exact h1.2 s hs (h2.1 _ _ _ hal)
    · exact h2.2 e' he'' s hs hal

end ZoektModel.C32
