/-
C32 — lemmas for `trash_purge_rule`: phase 1 deletes a trashed file only for a repository that has a trashed shard
older than 24 h or an indexed copy.
-/
import ZoektModel.C32.Keep
namespace ZoektModel.C32

/-- `f` (up to its mtime) is still in `fs` -/
def TKept (f : File) (fs : List File) : Prop := ∃ g ∈ fs, sameBase g f.compound f.key = true ∧ g.repos = f.repos

theorem tkept_rmBase {f : File} {fs : List File} {c : Bool} {k : Nat} (h : ¬ (c = f.compound ∧ k = f.key)) (hk : TKept f fs) :
    TKept f (rmBase fs c k) := by
  obtain ⟨g, hg, hb, hr⟩ := hk
  refine ⟨g, ?_, hb, hr⟩
  simp only [rmBase, List.mem_filter]
  refine ⟨hg, ?_⟩
  rw [sameBase_iff] at hb
  cases hs : sameBase g c k
  · rfl
  · rw [sameBase_iff] at hs
    exact absurd ⟨hs.1.symm.trans hb.1, hs.2.symm.trans hb.2⟩ h

theorem tkept_touch {f : File} {fs : List File} {c : Bool} {k : Nat} {t : Int} (hk : TKept f fs) : TKept f (touch fs c k t) := by
  obtain ⟨g, hg, hb, hr⟩ := hk
  refine ⟨if sameBase g c k then { g with mtime := t } else g, ?_, ?_, ?_⟩
  · simp only [touch, List.mem_map]; exact ⟨g, hg, rfl⟩
  · split <;> simpa [sameBase] using hb
  · split <;> simpa using hr

theorem tkept_removeAll {f : File} (shards : List Shard) (d : Dir) (h : ∀ s ∈ shards, Off f s) (hk : TKept f d.trash) :
    TKept f (removeAll d shards).trash := by
  induction shards generalizing d with
  | nil => exact hk
  | cons s r ih =>
    simp only [removeAll, List.foldl_cons]
    apply ih (removeShard d s) (fun s' hs' => h s' (by simp [hs']))
    unfold removeShard
    split
    · exact tkept_rmBase (h s (by simp)) hk
    · exact hk

theorem tkept_chtimes {f : File} {d : Dir} {s : Shard} {t : Int} (hk : TKept f d.trash) : TKept f (chtimes d s t).trash := by
  unfold chtimes
  split
  · exact tkept_touch hk
  · exact hk

/-- one entry of phase 1: the file stays unless the entry is purged and one of its shards carries the file's name -/
theorem tkept_purgeOne {f : File} (now : Int) (index0 : SMap) (acc : Dir × SMap) (e : Nat × List Shard)
    (hk : TKept f acc.1.trash) :
    TKept f (purgeOne now index0 acc e).1.trash ∨
      ((mapHas index0 e.1 = true ∨ e.2.any (fun s => decide (s.mtime < now - day)) = true) ∧ ∃ s ∈ e.2, ¬ Off f s) := by
  have inner : ∀ (l : List Shard) (d : Dir), TKept f d.trash →
      TKept f (l.foldl (fun d s => if s.mtime < now - day then d else if s.mtime > now then chtimes d s now else d) d).trash := by
    intro l
    induction l with
    | nil => exact fun _ h => h
    | cons s r ih =>
      intro d h
      simp only [List.foldl_cons]
      split
      · exact ih d h
      · split
        · exact ih _ (tkept_chtimes h)
        · exact ih d h
  unfold purgeOne
  simp only []
  have h1 := inner e.2 acc.1 hk
  split
  · exact Or.inl h1
  · rename_i hcond
    by_cases hoff : ∀ s ∈ e.2, Off f s
    · exact Or.inl (tkept_removeAll e.2 _ hoff h1)
    · refine Or.inr ⟨?_, ?_⟩
      · cases hm : mapHas index0 e.1
        · cases ho : e.2.any (fun s => decide (s.mtime < now - day))
          · simp [hm, ho] at hcond
          · exact Or.inr rfl
        · exact Or.inl rfl
      · have := Classical.not_forall.mp hoff
        obtain ⟨s, hs⟩ := this
        exact ⟨s, Classical.not_imp.mp hs |>.1, Classical.not_imp.mp hs |>.2⟩

theorem tkept_phase1 {f : File} (now : Int) (index0 trash0 : SMap) (d : Dir) (hk : TKept f d.trash) :
    TKept f (phase1 now index0 trash0 d).1.trash ∨
      ∃ e ∈ trash0, (mapHas index0 e.1 = true ∨ e.2.any (fun s => decide (s.mtime < now - day)) = true) ∧ ∃ s ∈ e.2, ¬ Off f s := by
  have gen : ∀ (l : List (Nat × List Shard)) (acc : Dir × SMap), TKept f acc.1.trash →
      TKept f (l.foldl (purgeOne now index0) acc).1.trash ∨
        ∃ e ∈ l, (mapHas index0 e.1 = true ∨ e.2.any (fun s => decide (s.mtime < now - day)) = true) ∧ ∃ s ∈ e.2, ¬ Off f s := by
    intro l
    induction l with
    | nil => exact fun _ h => Or.inl h
    | cons e r ih =>
      intro acc h
      simp only [List.foldl_cons]
      rcases tkept_purgeOne now index0 acc e h with h1 | h1
      · rcases ih _ h1 with h2 | ⟨e', he', h2⟩
        · exact Or.inl h2
        · exact Or.inr ⟨e', by simp [he'], h2⟩
      · exact Or.inr ⟨e, by simp, h1⟩
  exact gen trash0 (d, trash0) hk

/-- every entry of a shard map has at least one shard -/
theorem getShards_entry_nonempty (files : List File) (t : Bool) (e : Nat × List Shard) (he : e ∈ getShards files t) : e.2 ≠ [] := by
  have mapAdd_ne : ∀ (m : SMap) (s : Shard), (∀ e ∈ m, e.2 ≠ []) → ∀ e ∈ mapAdd m s, e.2 ≠ [] := by
    intro m s
    induction m with
    | nil => intro _ e he; simp only [mapAdd, List.mem_singleton] at he; subst he; simp
    | cons e0 r ih =>
      intro h e he
      obtain ⟨k, v⟩ := e0
      simp only [mapAdd] at he
      split at he
      · rcases List.mem_cons.mp he with rfl | he'
        · simp
        · exact h e (by simp [he'])
      · split at he
        · rcases List.mem_cons.mp he with rfl | he'
          · simp
          · exact h e (by simpa using he')
        · rcases List.mem_cons.mp he with rfl | he'
          · exact h _ (by simp)
          · exact ih (fun e he => h e (by simp [he])) e he'
  have inner : ∀ (f : File) (rs : List Repo) (m : SMap), (∀ e ∈ m, e.2 ≠ []) →
      ∀ e ∈ rs.foldl (fun m r => if r.tomb then m else mapAdd m ⟨r.id, r.name, t, f.compound, f.key, f.mtime⟩) m, e.2 ≠ [] := by
    intro f rs
    induction rs with
    | nil => exact fun _ h => h
    | cons r rest ih =>
      intro m h
      simp only [List.foldl_cons]
      split
      · exact ih m h
      · exact ih _ (mapAdd_ne m _ h)
  have outer : ∀ (fs : List File) (m : SMap), (∀ e ∈ m, e.2 ≠ []) →
      ∀ e ∈ fs.foldl (fun m f => f.repos.foldl (fun m r => if r.tomb then m else mapAdd m ⟨r.id, r.name, t, f.compound, f.key, f.mtime⟩) m) m, e.2 ≠ [] := by
    intro fs
    induction fs with
    | nil => exact fun _ h => h
    | cons f rest ih => intro m h; simp only [List.foldl_cons]; exact ih _ (inner f f.repos m h)
  exact outer (sortFiles files) [] (fun _ h => by cases h) e he

end ZoektModel.C32
