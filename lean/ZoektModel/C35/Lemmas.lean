/-
C35 — lemmas: finite-map laws of `Dir`, the frame of each operation, the Hoare rules of `run`.
-/
import ZoektModel.C35.Spec
import Mathlib.Data.List.Nodup
namespace ZoektModel.C35

/-! ### finite-map laws -/

theorem get_del (d : Dir) (p q : Path) : (d.del p).get q = if p = q then none else d.get q := by
  induction d with
  | nil => simp [Dir.del, Dir.get]
  | cons e r ih =>
    obtain ⟨k, f⟩ := e
    unfold Dir.del at ih ⊢
    by_cases hk : k = p
    · subst hk
      by_cases hq : k = q
      · subst hq; simpa [Dir.get] using ih
      · simp [Dir.get, hq] at ih ⊢; simpa [hq] using ih
    · simp only [List.filter_cons, hk, decide_false, Bool.not_false, if_true]
      by_cases hq : k = q
      · subst hq
        have : ¬ p = k := fun h => hk h.symm
        simp [Dir.get, this]
      · simp only [Dir.get, hq, if_false]; exact ih

theorem get_put (d : Dir) (p q : Path) (f : File) : (d.put p f).get q = if p = q then some f else d.get q := by
  unfold Dir.put
  by_cases h : p = q
  · simp [Dir.get, h]
  · simp [Dir.get, h, get_del]

theorem has_iff (d : Dir) (p : Path) : d.has p = true ↔ ∃ f, d.get p = some f := by
  unfold Dir.has; cases d.get p <;> simp

theorem has_false_iff (d : Dir) (p : Path) : d.has p = false ↔ d.get p = none := by
  unfold Dir.has; cases d.get p <;> simp

theorem get_of_mem_wf (d : Dir) (h : d.wf = true) (p : Path) (f : File) (hm : (p, f) ∈ d) : d.get p = some f := by
  induction d with
  | nil => cases hm
  | cons e r ih =>
    obtain ⟨k, g⟩ := e
    simp only [Dir.wf, Bool.and_eq_true, Bool.not_eq_true'] at h
    rcases List.mem_cons.1 hm with heq | hr
    · cases heq; simp [Dir.get]
    · have := ih h.2 hr
      by_cases hk : k = p
      · subst hk; rw [has_false_iff] at h; rw [h.1] at this; cases this
      · simp [Dir.get, hk, this]

theorem mem_of_get (d : Dir) (p : Path) (f : File) (h : d.get p = some f) : (p, f) ∈ d := by
  induction d with
  | nil => cases h
  | cons e r ih =>
    obtain ⟨k, g⟩ := e
    by_cases hk : k = p
    · subst hk; simp [Dir.get] at h; subst h; simp
    · simp [Dir.get, hk] at h; exact List.mem_cons_of_mem _ (ih h)

theorem wf_del (d : Dir) (p : Path) (h : d.wf = true) : (d.del p).wf = true := by
  induction d with
  | nil => rfl
  | cons e r ih =>
    obtain ⟨k, g⟩ := e
    simp only [Dir.wf, Bool.and_eq_true, Bool.not_eq_true'] at h
    unfold Dir.del at ih ⊢
    by_cases hk : k = p
    · simp [List.filter_cons, hk]; exact ih h.2
    · simp only [List.filter_cons, hk, decide_false, Bool.not_false, if_true, Dir.wf, Bool.and_eq_true, Bool.not_eq_true']
      refine ⟨?_, ih h.2⟩
      have := get_del r p k
      rw [has_false_iff] at h ⊢
      unfold Dir.del at this
      rw [this, h.1]; simp

theorem wf_put (d : Dir) (p : Path) (f : File) (h : d.wf = true) : (d.put p f).wf = true := by
  unfold Dir.put
  simp only [Dir.wf, Bool.and_eq_true, Bool.not_eq_true']
  refine ⟨?_, wf_del d p h⟩
  rw [has_false_iff, get_del]; simp

/-! ### operations: frame and well-formedness -/

/-- the paths an operation can change -/
def Op.touches : Op → List Path
  | .create p => [p]
  | .rename a b _ => [a, b]
  | .remove p => [p]
  | _ => []

theorem sem_frame (o : Op) (d : Dir) (inj : Bool) (q : Path) (hq : q ∉ o.touches) :
    (sem o d inj).2.get q = d.get q := by
  unfold sem
  split
  · rfl
  · cases o with
    | openRd p => simp only; split <;> rfl
    | stat p => simp only; split <;> rfl
    | fdop w p => simp only; split <;> rfl
    | create p =>
      simp only [Op.touches, List.mem_singleton] at hq
      simp only [get_put]; rw [if_neg (fun h => hq h.symm)]
    | remove p =>
      simp only [Op.touches, List.mem_singleton] at hq
      simp only; split
      · simp only [get_del]; rw [if_neg (fun h => hq h.symm)]
      · rfl
    | rename a b c =>
      simp only [Op.touches, List.mem_cons, List.mem_singleton, not_or, List.not_mem_nil, or_false] at hq
      simp only; split
      · rfl
      · simp only [get_put, get_del]
        rw [if_neg (fun h => hq.2 h.symm), if_neg (fun h => hq.1 h.symm)]

theorem sem_wf (o : Op) (d : Dir) (inj : Bool) (h : d.wf = true) : (sem o d inj).2.wf = true := by
  unfold sem
  split
  · exact h
  · cases o with
    | openRd p => simp only; split <;> exact h
    | stat p => simp only; split <;> exact h
    | fdop w p => simp only; split <;> exact h
    | create p => exact wf_put _ _ _ h
    | remove p => simp only; split; exact wf_del _ _ h; exact h
    | rename a b c => simp only; split; exact h; exact wf_put _ _ _ (wf_del _ _ h)

/-- operations that never change the directory -/
theorem sem_readonly (o : Op) (d : Dir) (inj : Bool) (h : o.touches = []) : (sem o d inj).2 = d := by
  unfold sem
  split
  · rfl
  · cases o with
    | openRd p => simp only; split <;> rfl
    | stat p => simp only; split <;> rfl
    | fdop w p => simp only; split <;> rfl
    | create p => simp [Op.touches] at h
    | remove p => simp [Op.touches] at h
    | rename a b c => simp [Op.touches] at h

/-! ### Hoare rules -/

def lastDir : List Step → Dir → Dir
  | [], d => d
  | s :: r, _ => lastDir r s.dir

/-- running `p` from `d` (operation counter `n`): every recorded state satisfies `G`, and the exit status and the
    final directory satisfy `Q` -/
def Sat (G : Dir → Prop) (Q : Exit → Dir → Prop) (flt : Nat → Bool) (p : Prog) (n : Nat) (d : Dir) : Prop :=
  (∀ s ∈ (run flt p n d).1, G s.dir) ∧ Q (run flt p n d).2 (lastDir (run flt p n d).1 d)

theorem sat_done (G Q flt e n d) : Sat G Q flt (.done e) n d ↔ Q e d := by
  simp [Sat, run, lastDir]

theorem sat_op (G Q flt o k n d) :
    Sat G Q flt (.op o k) n d ↔
      G (sem o d (flt n)).2 ∧ Sat G Q flt (k (sem o d (flt n)).1) (n + 1) (sem o d (flt n)).2 := by
  simp only [Sat, run, lastDir, List.mem_cons, forall_eq_or_imp]
  constructor
  · rintro ⟨⟨h1, h2⟩, h3⟩; exact ⟨h1, h2, h3⟩
  · rintro ⟨h1, h2, h3⟩; exact ⟨⟨h1, h2⟩, h3⟩

end ZoektModel.C35
