/-
C35 — explode: the invariant after the compound shard is gone, the rename loop, the clean-up.
-/
import ZoektModel.C35.MergeProof
namespace ZoektModel.C35

/-- hypotheses on the repositories `L` that explode writes out -/
structure ExHyp (d0 : Dir) (input : String) (simple : String → String) (L : List Repo) : Prop where
  h0 : NoDupSem d0
  vis : ∀ r ∈ L, Visible d0 input r.name
  live : ∀ r ∈ L, r.tomb = false
  names : (L.map (·.name)).Nodup
  inj : ∀ r1 ∈ L, ∀ r2 ∈ L, simple r1.name = simple r2.name → r1 = r2
  noside : ∀ r ∈ L, d0.get ⟨.sidecar, simple r.name⟩ = none
  ne : ∀ r ∈ L, simple r.name ≠ input

/-- the directory once the compound shard is gone: every shard is an original one (not the input) or a simple shard
    holding exactly its repository; `.tmp` files of the simple shards hold the right content -/
structure E (d0 : Dir) (input : String) (simple : String → String) (L : List Repo) (d : Dir) : Prop where
  wf : d.wf = true
  gone : d.get ⟨.shard, input⟩ = none ∧ d.get ⟨.sidecar, input⟩ = none
  shard : ∀ b rs, d.get ⟨.shard, b⟩ = some (.shard rs) →
    (d0.get ⟨.shard, b⟩ = some (.shard rs) ∧ d.get ⟨.sidecar, b⟩ = d0.get ⟨.sidecar, b⟩) ∨
    (∃ r ∈ L, b = simple r.name ∧ rs = [r] ∧ d.get ⟨.sidecar, b⟩ = none)
  side : ∀ b f, d.get ⟨.sidecar, b⟩ = some f → d0.get ⟨.sidecar, b⟩ = some f
  tmp : ∀ r ∈ L, ∀ f, d.get ⟨.tmp, simple r.name⟩ = some f → f = .shard [r]

variable {d0 : Dir} {input : String} {simple : String → String} {L : List Repo}

theorem E_of_K {d : Dir} (k : K d0 d) (g1 : d.get ⟨.shard, input⟩ = none) (g2 : d.get ⟨.sidecar, input⟩ = none)
    (ht : ∀ r ∈ L, ∀ f, d.get ⟨.tmp, simple r.name⟩ = some f → f = .shard [r]) : E d0 input simple L d :=
  ⟨k.wf, ⟨g1, g2⟩, fun b rs g => Or.inl (k.shard b rs g), k.side, ht⟩

theorem effective_nosidecar (d : Dir) (b : String) (rs : List Repo) (h : d.get ⟨.sidecar, b⟩ = none) :
    effective d b rs = rs := by unfold effective; rw [h]

theorem E_visible (hy : ExHyp d0 input simple L) {d : Dir} (e : E d0 input simple L d) {b x : String}
    (h : Visible d b x) :
    (b ≠ input ∧ Visible d0 b x) ∨ (∃ r ∈ L, b = simple r.name ∧ x = r.name) := by
  obtain ⟨rs, g, hx⟩ := h
  rcases e.shard b rs g with ⟨g0, hs⟩ | ⟨r, hr, hb, hrs, hs⟩
  · left
    refine ⟨?_, rs, g0, by rwa [← effective_congr d d0 b rs hs]⟩
    intro hb; subst hb; rw [e.gone.1] at g; cases g
  · right
    refine ⟨r, hr, hb, ?_⟩
    rw [effective_nosidecar d b rs hs, hrs] at hx
    simpa [liveNames, hy.live r hr] using hx

theorem E_noDup (hy : ExHyp d0 input simple L) {d : Dir} (e : E d0 input simple L d) : NoDupSem d := by
  constructor
  · intro b1 b2 x v1 v2
    rcases E_visible hy e v1 with ⟨n1, w1⟩ | ⟨r1, hr1, hb1, hx1⟩ <;>
      rcases E_visible hy e v2 with ⟨n2, w2⟩ | ⟨r2, hr2, hb2, hx2⟩
    · exact hy.h0.1 b1 b2 x w1 w2
    · have := hy.h0.1 b1 input x w1 (hx2 ▸ hy.vis r2 hr2)
      exact absurd this n1
    · have := hy.h0.1 b2 input x w2 (hx1 ▸ hy.vis r1 hr1)
      exact absurd this n2
    · have hn : r1.name = r2.name := hx1.symm.trans hx2
      have : r1 = r2 := List.inj_on_of_nodup_map hy.names hr1 hr2 hn
      rw [hb1, hb2, this]
  · intro b rs g
    rcases e.shard b rs g with ⟨g0, hs⟩ | ⟨r, hr, hb, hrs, hs⟩
    · rw [effective_congr d d0 b rs hs]; exact hy.h0.2 b rs g0
    · rw [effective_nosidecar d b rs hs, hrs]
      cases h : r.tomb <;> simp [liveNames, h]

theorem E_G (hy : ExHyp d0 input simple L) {d : Dir} (e : E d0 input simple L d) : noDupVis d = true :=
  noDupVis_of_sem d e.wf (E_noDup hy e)

/-- removing a `.tmp` file keeps `E` -/
theorem E_remove_tmp {d : Dir} (e : E d0 input simple L d) (b : String) (inj : Bool) :
    E d0 input simple L (sem (.remove ⟨.tmp, b⟩) d inj).2 := by
  have fr : ∀ q : Path, q ≠ ⟨.tmp, b⟩ → (sem (.remove ⟨.tmp, b⟩) d inj).2.get q = d.get q := by
    intro q hq; apply sem_frame; simpa [Op.touches] using hq
  refine ⟨sem_wf _ _ _ e.wf, ?_, ?_, ?_, ?_⟩
  · rw [fr _ (by intro h; cases h), fr _ (by intro h; cases h)]; exact e.gone
  · intro b' rs g
    rw [fr _ (by intro h; cases h)] at g
    rw [fr _ (by intro h; cases h)]
    exact e.shard b' rs g
  · intro b' f g
    rw [fr _ (by intro h; cases h)] at g
    exact e.side b' f g
  · intro r hr f g
    rcases sem_remove_cases ⟨.tmp, b⟩ d inj with ⟨_, hd, _⟩ | ⟨_, hd⟩
    · rw [hd, get_del] at g
      split at g
      · cases g
      · exact e.tmp r hr f g
    · rw [hd] at g; exact e.tmp r hr f g

/-- the simple shards that are in place -/
def InPlace (simple : String → String) (L : List Repo) (S : List String) (d : Dir) : Prop :=
  ∀ b ∈ S, ∃ r ∈ L, b = simple r.name ∧ d.get ⟨.shard, b⟩ = some (.shard [r])

theorem sem_rename_none_cases (a b : Path) (d : Dir) (inj : Bool) :
    (∃ f, d.get a = some f ∧ (sem (.rename a b none) d inj).1 = .ok ∧
        (sem (.rename a b none) d inj).2 = (d.del a).put b f) ∨
    ((sem (.rename a b none) d inj).1 ≠ .ok ∧ (sem (.rename a b none) d inj).2 = d) := by
  unfold sem
  cases inj
  · simp only [Bool.false_eq_true, if_false]
    cases hg : d.get a with
    | none => right; simp
    | some f => left; exact ⟨f, rfl, by simp⟩
  · right; simp

/-- one final rename `base.tmp → base` keeps `E`; when it succeeds the simple shard is in place -/
theorem E_rename (hy : ExHyp d0 input simple L) {d : Dir} (e : E d0 input simple L d) (r : Repo) (hr : r ∈ L)
    (inj : Bool) (S : List String) (hS : InPlace simple L S d) :
    let res := sem (.rename ⟨.tmp, simple r.name⟩ ⟨.shard, simple r.name⟩ none) d inj
    E d0 input simple L res.2 ∧ InPlace simple L S res.2 ∧
      (res.1 = .ok → res.2.get ⟨.shard, simple r.name⟩ = some (.shard [r])) := by
  intro res
  rcases sem_rename_none_cases ⟨.tmp, simple r.name⟩ ⟨.shard, simple r.name⟩ d inj with ⟨f, hf, hok, hd⟩ | ⟨hnok, hd⟩
  · have hf' : f = .shard [r] := e.tmp r hr f hf
    subst hf'
    have gs : ∀ b, res.2.get ⟨.shard, b⟩ = if simple r.name = b then some (.shard [r]) else d.get ⟨.shard, b⟩ := by
      intro b
      show (sem _ d inj).2.get _ = _
      rw [hd, get_put, get_del]
      by_cases h : simple r.name = b
      · subst h; simp
      · rw [if_neg (by intro h'; cases h'; exact h rfl), if_neg (by intro h'; cases h'), if_neg h]
    have gc : ∀ b, res.2.get ⟨.sidecar, b⟩ = d.get ⟨.sidecar, b⟩ := by
      intro b
      show (sem _ d inj).2.get _ = _
      rw [hd, get_put, get_del, if_neg (by intro h'; cases h'), if_neg (by intro h'; cases h')]
    have gt : ∀ b f', res.2.get ⟨.tmp, b⟩ = some f' → d.get ⟨.tmp, b⟩ = some f' := by
      intro b f' g
      have g' : (sem _ d inj).2.get _ = _ := g
      rw [hd, get_put, if_neg (by intro h'; cases h'), get_del] at g'
      split at g'
      · cases g'
      · exact g'
    have nos : d.get ⟨.sidecar, simple r.name⟩ = none := by
      cases hs : d.get ⟨.sidecar, simple r.name⟩ with
      | none => rfl
      | some f' => have := e.side _ f' hs; rw [hy.noside r hr] at this; cases this
    refine ⟨⟨?_, ?_, ?_, ?_, ?_⟩, ?_, ?_⟩
    · show (sem _ d inj).2.wf = true
      exact sem_wf _ _ _ e.wf
    · rw [gs, gc, if_neg (hy.ne r hr)]; exact e.gone
    · intro b rs g
      rw [gs] at g
      rw [gc]
      by_cases h : simple r.name = b
      · rw [if_pos h] at g; cases g
        exact Or.inr ⟨r, hr, h.symm, rfl, h ▸ nos⟩
      · rw [if_neg h] at g; exact e.shard b rs g
    · intro b f' g; rw [gc] at g; exact e.side b f' g
    · intro r' hr' f' g; exact e.tmp r' hr' f' (gt _ _ g)
    · intro b hb
      obtain ⟨r', hr', hb', hg⟩ := hS b hb
      refine ⟨r', hr', hb', ?_⟩
      rw [gs]
      by_cases h : simple r.name = b
      · rw [if_pos h]
        have : r = r' := hy.inj r hr r' hr' (h.trans hb')
        rw [this]
      · rw [if_neg h]; exact hg
    · intro _; rw [gs, if_pos rfl]
  · have hres : res.2 = d := hd
    refine ⟨hres ▸ e, hres ▸ hS, ?_⟩
    intro hok; exact absurd hok hnok

theorem mem_arrange (order reg : List String) (b : String) : b ∈ arrange order reg ↔ b ∈ reg := by
  unfold arrange
  rw [List.mem_append, List.mem_filter, List.mem_filter]
  constructor
  · rintro (⟨_, h⟩ | ⟨h, _⟩)
    · simpa using h
    · exact h
  · intro h
    by_cases ho : b ∈ order
    · exact Or.inl ⟨ho, by simpa using h⟩
    · exact Or.inr ⟨h, by simpa using ho⟩

end ZoektModel.C35
