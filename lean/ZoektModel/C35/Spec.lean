/-
C35 — the property as executable predicates over an *observed* directory (what a searcher would load), evaluated by the
driver on the implementation's result and used verbatim in Props/C35.lean.

Statement: `merge` reports success only when a compound shard containing every input repository is in place and every
input shard is gone; `explode` only when every repository is back in its own shard and the compound shard is gone; at no
point (failure, kill) is a repository visible in two shards at once.

"Every input repository" is read as in C16: every repository that is not tombstoned and has at least one document.
-/
import ZoektModel.C35.Model
namespace ZoektModel.C35

/-- repositories a searcher shows for one directory entry: only `*.zoekt` files that load, minus tombstones -/
def visOf (d : Dir) : Path × File → List String
  | (⟨.shard, b⟩, .shard rs) => liveNames (effective d b rs)
  | _ => []

/-- every (repository, shard) visibility, as a list of repository names -/
def vis (d : Dir) : List String := d.flatMap (visOf d)

def nodupB : List String → Bool
  | [] => true
  | x :: xs => !xs.contains x && nodupB xs

/-- no repository is visible twice -/
def noDupVis (d : Dir) : Bool := nodupB (vis d)

/-- the repositories an input shard contributes: live, with documents -/
def inputRepos (d0 : Dir) (b : String) : List Repo :=
  match d0.get ⟨.shard, b⟩ with
  | some (.shard rs) => (effective d0 b rs).filter fun r => !r.tomb && decide (r.ndocs ≠ 0)
  | _ => []

def holds (rs : List Repo) (w : Repo) : Bool :=
  rs.any fun r => r.name == w.name && !r.tomb && r.ndocs == w.ndocs

/-- merge succeeded with output `out`: a loadable shard is at `out`, it shows every input repository with all its
    documents, and every input shard (and sidecar) is gone — unless the compound took over the input's own name -/
def mergePost (d0 : Dir) (names : List String) (out : String) (fin : Dir) : Bool :=
  (match fin.get ⟨.shard, out⟩ with
   | some (.shard rs) => (names.flatMap (inputRepos d0)).all (holds (effective fin out rs))
   | _ => false) &&
  names.all fun b => b == out || (!fin.has ⟨.shard, b⟩ && !fin.has ⟨.sidecar, b⟩)

/-- explode succeeded: the compound shard (and sidecar) is gone and every repository is alone in its own shard -/
def explodePost (d0 : Dir) (input : String) (simple : String → String) (fin : Dir) : Bool :=
  !fin.has ⟨.shard, input⟩ && !fin.has ⟨.sidecar, input⟩ &&
  (inputRepos d0 input).all fun w =>
    match fin.get ⟨.shard, simple w.name⟩ with
    | some (.shard rs) =>
      (match effective fin (simple w.name) rs with
       | [r] => r.name == w.name && !r.tomb && r.ndocs == w.ndocs
       | _ => false)
    | _ => false

inductive Cmd where
  | merge (names : List String) (dst : String)
  | explode (input : String) (simple : String → String)

/-- the whole statement on one observed outcome (`exit = none`: the process was killed). Returns the failed clause. -/
def checkP (c : Cmd) (d0 : Dir) (exit : Option Exit) (fin : Dir) : Option String :=
  if !noDupVis fin then some "dup-visible" else
  match exit, c with
  | some (.ok out), .merge names _ => if mergePost d0 names out fin then none else some "merge-false-success"
  | some (.ok _), .explode input simple => if explodePost d0 input simple fin then none else some "explode-false-success"
  | _, _ => none

end ZoektModel.C35
