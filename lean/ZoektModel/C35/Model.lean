/-
C35 — file-system protocol model (`FsProto`) of `zoekt-merge-index merge` / `explode`:
cmd/zoekt-merge-index/main.go:merge, index/merge.go:Merge, builderWriteAll, Explode, explode, index/read.go:IndexFilePaths.

A directory is a finite map path ↦ file.  A command is a *plan*: a tree of file-system operations whose
continuation depends on the result of each operation (success / natural failure such as ENOENT / injected failure).
`run` executes a plan against a directory and a fault oracle and records the directory after every operation, so
"killed before operation k" is the k-th recorded state.

Paths are structured (`kind`, `base`): `base` is the shard's file name (`…​.zoekt`); the kinds are the shard itself,
its `.meta` sidecar, the `.tmp` file and the `.tmp.<random>.tmp` file of `builderWriteAll`.  Only `kind = shard`
is loaded by a searcher (`*.zoekt`).
-/
namespace ZoektModel.C35

inductive Kind where
  | shard | sidecar | tmp | tmptmp | other
  deriving DecidableEq, Repr

structure Path where
  kind : Kind
  base : String
  deriving DecidableEq, Repr

/-- one repository of a shard: name, tombstone flag, number of documents stored for it -/
structure Repo where
  name : String
  tomb : Bool
  ndocs : Nat
  deriving DecidableEq, Repr

inductive File where
  | shard (repos : List Repo)           -- a loadable shard: embedded repository metadata + documents
  | sidecar (repos : List (String × Bool)) -- `.meta` sidecar: replaces the embedded metadata (name, tombstone), by position
  | junk                                -- anything else (partially written temp file, corrupt shard)
  deriving DecidableEq, Repr

abbrev Dir := List (Path × File)

namespace Dir
def get (d : Dir) (p : Path) : Option File :=
  match d with
  | [] => none
  | (q, f) :: r => if q = p then some f else get r p
def del (d : Dir) (p : Path) : Dir := d.filter (fun e => !(decide (e.1 = p)))
def put (d : Dir) (p : Path) (f : File) : Dir := (p, f) :: del d p
def has (d : Dir) (p : Path) : Bool := (get d p).isSome
/-- no path is listed twice -/
def wf : Dir → Bool
  | [] => true
  | (p, _) :: r => !(has r p) && wf r
end Dir

def applyMeta : List Repo → List (String × Bool) → List Repo
  | r :: rs, (n, t) :: ms => { name := n, tomb := t, ndocs := r.ndocs } :: applyMeta rs ms
  | _, _ => []

/-- `parseMetadata`: the repository list a reader sees for shard `base` — the sidecar's, if there is one -/
def effective (d : Dir) (base : String) (rs : List Repo) : List Repo :=
  match d.get ⟨.sidecar, base⟩ with
  | some (.sidecar m) => applyMeta rs m
  | _ => rs

def liveNames (rs : List Repo) : List String := (rs.filter (fun r => !r.tomb)).map (·.name)

/-- what `merge` / `explode` copy: repositories that are not tombstoned and own at least one document
    (`setRepository` is only reached from a document), tombstone cleared -/
def copied : List Repo → List Repo
  | [] => []
  | r :: rs => if r.tomb then copied rs else if r.ndocs = 0 then copied rs else r :: copied rs

/-! ### operations -/

inductive Res where
  | ok        -- the operation succeeded
  | natural   -- it failed because of the directory's state (ENOENT); for `stat`: "does not exist"
  | injected  -- it failed although the state allowed it (EIO, ENOSPC, EPERM, …)
  deriving DecidableEq, Repr

inductive Op where
  | openRd (p : Path)               -- os.Open / os.ReadFile of an existing file
  | stat (p : Path)                 -- os.Stat in IndexFilePaths
  | create (p : Path)               -- os.CreateTemp
  | fdop (what : String) (p : Path) -- Chmod / Write / Close on the temp file's descriptor
  | rename (a b : Path) (content : Option File)  -- os.Rename; `content`: what the source holds once fully written
  | remove (p : Path)               -- os.Remove
  deriving Repr

/-- result of `op` on `d` when the fault oracle says `inj`; the directory changes only on success -/
def sem (o : Op) (d : Dir) (inj : Bool) : Res × Dir :=
  if inj then (.injected, d) else
  match o with
  | .openRd p => if d.has p then (.ok, d) else (.natural, d)
  | .stat p => if d.has p then (.ok, d) else (.natural, d)
  | .create p => (.ok, d.put p .junk)
  | .fdop _ p => if d.has p then (.ok, d) else (.natural, d)
  | .rename a b c =>
    match d.get a with
    | none => (.natural, d)
    | some f => (.ok, (d.del a).put b (c.getD f))
  | .remove p => if d.has p then (.ok, d.del p) else (.natural, d)

inductive Exit where
  | ok (out : String)   -- exit status 0, `out` printed on stdout ("" for explode)
  | err                 -- log.Fatal: exit status 1
  deriving DecidableEq, Repr

inductive Prog where
  | done (e : Exit)
  | op (o : Op) (k : Res → Prog)

structure Step where
  op : Op
  res : Res
  dir : Dir   -- directory after the operation

/-- execute a plan: `flt n` = the n-th operation (counted from `n0`) fails by injection -/
def run (flt : Nat → Bool) : Prog → Nat → Dir → List Step × Exit
  | .done e, _, _ => ([], e)
  | .op o k, n, d =>
    let r := sem o d (flt n)
    let rest := run flt (k r.1) (n + 1) r.2
    (⟨o, r.1, r.2⟩ :: rest.1, rest.2)

/-! ### builderWriteAll -/

/-- `builderWriteAll(base.tmp, content)`: CreateTemp, Chmod, Write, Close, Rename; any failure returns the error
    (the random-named temp file is left behind). `defer f.Close()` is registered after Chmod, so a failed Write is
    followed by a Close whose result is ignored; the later failure paths find the file already closed. -/
def writeTmp (base : String) (content : File) (fail : Prog) (k : Prog) : Prog :=
  let t : Path := ⟨.tmptmp, base⟩
  .op (.create t) fun r => if r ≠ .ok then fail else
  .op (.fdop "chmod" t) fun r => if r ≠ .ok then fail else
  .op (.fdop "write" t) fun r => if r ≠ .ok then (.op (.fdop "close" t) fun _ => fail) else
  .op (.fdop "close" t) fun r => if r ≠ .ok then fail else
  .op (.rename t ⟨.tmp, base⟩ (some content)) fun r => if r ≠ .ok then fail else k

/-! ### merge -/

/-- `for fn in names: os.Open(fn)`.  `openErrIsSuccess` is the unfixed code (`return "", nil`). -/
def openAll (openErrIsSuccess : Bool) : List String → Prog → Prog
  | [], k => k
  | b :: bs, k => .op (.openRd ⟨.shard, b⟩) fun r =>
      if r ≠ .ok then .done (if openErrIsSuccess then .ok "" else .err) else openAll openErrIsSuccess bs k

/-- `NewSearcher` per input, in order: a file that is not a shard fails before its sidecar is looked at;
    `os.ReadFile(name+".meta")`: a missing sidecar is fine, any other error is returned; an empty repository
    list is `ErrEmptyShard` -/
def readMetas (d0 : Dir) : List String → Prog → Prog
  | [], k => k
  | b :: bs, k =>
    match d0.get ⟨.shard, b⟩ with
    | some (.shard rs) =>
      .op (.openRd ⟨.sidecar, b⟩) fun r =>
        if r = .injected then .done .err
        else if (effective d0 b rs).isEmpty then .done .err
        else readMetas d0 bs k
    | _ => .done .err

/-- what `index.merge` puts into the compound shard, input by input (the priority order only permutes inputs) -/
def mergedRepos (d : Dir) : List String → Option (List Repo)
  | [] => some []
  | b :: bs =>
    match d.get ⟨.shard, b⟩ with
    | some (.shard rs) => (mergedRepos d bs).map (copied (effective d b rs) ++ ·)
    | _ => none             -- NewSearcher fails

/-- `IndexFilePaths(name)` + removal of the paths that exist -/
def removeShard (b : String) (fail : Prog) (k : Prog) : Prog :=
  let p : Path := ⟨.shard, b⟩
  let m : Path := ⟨.sidecar, b⟩
  .op (.stat p) fun rp => if rp = .injected then fail else
  .op (.stat m) fun rm => if rm = .injected then fail else
  let rmMeta : Prog := if rm = .ok then .op (.remove m) fun r => if r ≠ .ok then fail else k else k
  if rp = .ok then .op (.remove p) fun r => if r ≠ .ok then fail else rmMeta else rmMeta

def removeAll : List String → Prog → Prog
  | [], k => k
  | b :: bs, k => removeShard b (.done .err) (removeAll bs k)

/-- `zoekt-merge-index merge names…` with compound name `dst` (computed by `index.Merge` from the repository names) -/
def mergePlan (openErrIsSuccess : Bool) (d0 : Dir) (names : List String) (dst : String) : Prog :=
  -- `mergeCmd`: "merge requires at least one shard path" (also for an empty list on stdin)
  if names.isEmpty then .done .err else
  openAll openErrIsSuccess names <|
  readMetas d0 names <|
  match mergedRepos d0 names with
  | none => .done .err
  | some m =>
    writeTmp dst (.shard m) (.done .err) <|
    removeAll names <|
    .op (.rename ⟨.tmp, dst⟩ ⟨.shard, dst⟩ none) fun r => if r ≠ .ok then .done .err else .done (.ok dst)

/-! ### explode -/

/-- deferred `for tmpFn := range exploded { os.Remove(tmpFn) }`, errors ignored -/
def cleanup : List String → Exit → Prog
  | [], e => .done e
  | b :: bs, e => .op (.remove ⟨.tmp, b⟩) fun _ => cleanup bs e

/-- `for tmpFn, dstFn := range exploded { os.Rename(tmpFn, dstFn) }`.
    `renameErrIgnored` is the unfixed code (failure only logged). `failed`: a rename has failed so far. -/
def renameAll (renameErrIgnored : Bool) (cleanOrder : List String) : List String → Bool → Prog
  | [], failed => cleanup cleanOrder (if failed && !renameErrIgnored then .err else .ok "")
  | b :: bs, failed => .op (.rename ⟨.tmp, b⟩ ⟨.shard, b⟩ none) fun r =>
      renameAll renameErrIgnored cleanOrder bs (failed || r ≠ .ok)

/-- arrange `registered` in the order `order` mentions them (map iteration order is an input of the model) -/
def arrange (order registered : List String) : List String :=
  (order.filter (registered.contains ·)) ++ registered.filter (fun b => !order.contains b)

/-- the loop of `explode`: one `builderWriteAll` per copied repository; the name is registered before writing.
    `simple r` is the simple shard's file name for repository `r`. -/
def writeSimple (simple : String → String) (cleanOrder : List String) :
    List Repo → List String → (List String → Prog) → Prog
  | [], reg, k => k reg
  | r :: rs, reg, k =>
    let b := simple r.name
    let reg' := reg ++ [b]
    writeTmp b (.shard [r]) (cleanup (arrange cleanOrder reg') .err) (writeSimple simple cleanOrder rs reg' k)

/-- `zoekt-merge-index explode input` -/
def explodePlan (renameErrIgnored : Bool) (d0 : Dir) (input : String) (simple : String → String)
    (renameOrder cleanOrder : List String) : Prog :=
  .op (.openRd ⟨.shard, input⟩) fun r => if r ≠ .ok then .done .err else
  match d0.get ⟨.shard, input⟩ with
  | some (.shard rs) =>
    .op (.openRd ⟨.sidecar, input⟩) fun r => if r = .injected then .done .err else
    -- an empty repository list is ErrEmptyShard: nothing to write, the input is still removed
    writeSimple simple cleanOrder (copied (effective d0 input rs)) [] fun reg =>
    removeShard input (cleanup (arrange cleanOrder reg) .err) <|
    renameAll renameErrIgnored (arrange cleanOrder reg) (arrange renameOrder reg) false
  | _ => .done .err

end ZoektModel.C35
