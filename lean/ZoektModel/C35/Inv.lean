/-
C35 — the invariant shared by merge and explode: every shard file still in the directory is an original one with its
original sidecar (`K`), and generic rules for the parts of a plan that only touch temporary files.
-/
import ZoektModel.C35.Vis
namespace ZoektModel.C35

/-- `d` was obtained from `d0` by removing shard files / sidecars and by shuffling temporary files:
    every shard in `d` is a shard of `d0` seen through the same sidecar -/
structure K (d0 d : Dir) : Prop where
  wf : d.wf = true
  shard : ∀ b rs, d.get ⟨.shard, b⟩ = some (.shard rs) →
    d0.get ⟨.shard, b⟩ = some (.shard rs) ∧ d.get ⟨.sidecar, b⟩ = d0.get ⟨.sidecar, b⟩
  side : ∀ b f, d.get ⟨.sidecar, b⟩ = some f → d0.get ⟨.sidecar, b⟩ = some f

theorem K_refl (d0 : Dir) (h : d0.wf = true) : K d0 d0 := ⟨h, fun _ _ g => ⟨g, rfl⟩, fun _ _ g => g⟩

theorem effective_congr (d d' : Dir) (b : String) (rs : List Repo)
    (h : d.get ⟨.sidecar, b⟩ = d'.get ⟨.sidecar, b⟩) : effective d b rs = effective d' b rs := by
  unfold effective; rw [h]

theorem K_visible {d0 d : Dir} (k : K d0 d) {b x : String} (h : Visible d b x) : Visible d0 b x := by
  obtain ⟨rs, g, hx⟩ := h
  obtain ⟨g0, hs⟩ := k.shard b rs g
  exact ⟨rs, g0, by rwa [← effective_congr d d0 b rs hs]⟩

theorem K_noDup {d0 d : Dir} (h0 : NoDupSem d0) (k : K d0 d) : NoDupSem d := by
  constructor
  · intro b1 b2 x v1 v2; exact h0.1 b1 b2 x (K_visible k v1) (K_visible k v2)
  · intro b rs g
    obtain ⟨g0, hs⟩ := k.shard b rs g
    rw [effective_congr d d0 b rs hs]; exact h0.2 b rs g0

/-- what every recorded state must satisfy -/
def Gd (d : Dir) : Prop := noDupVis d = true

theorem K_G {d0 d : Dir} (h0 : NoDupSem d0) (k : K d0 d) : noDupVis d = true :=
  noDupVis_of_sem d k.wf (K_noDup h0 k)

/-- the operation only changes temporary / other files -/
def Op.benign (o : Op) : Prop := ∀ p ∈ o.touches, p.kind ≠ .shard ∧ p.kind ≠ .sidecar

theorem K_benign {d0 d : Dir} {o : Op} (inj : Bool) (hb : o.benign) (k : K d0 d) : K d0 (sem o d inj).2 := by
  have fr : ∀ (kd : Kind) (b : String), (kd = .shard ∨ kd = .sidecar) →
      (sem o d inj).2.get ⟨kd, b⟩ = d.get ⟨kd, b⟩ := by
    intro kd b hk
    apply sem_frame
    intro hm
    have := hb _ hm
    rcases hk with rfl | rfl
    · exact this.1 rfl
    · exact this.2 rfl
  refine ⟨sem_wf o d inj k.wf, ?_, ?_⟩
  · intro b rs g
    rw [fr _ _ (Or.inl rfl)] at g
    rw [fr _ _ (Or.inr rfl)]
    exact k.shard b rs g
  · intro b f g
    rw [fr _ _ (Or.inr rfl)] at g
    exact k.side b f g

theorem K_del_shard {d0 d : Dir} (b : String) (k : K d0 d) : K d0 (d.del ⟨.shard, b⟩) := by
  refine ⟨wf_del _ _ k.wf, ?_, ?_⟩
  · intro b' rs g
    rw [get_del] at g
    split at g
    · cases g
    · rw [get_del, if_neg (by intro h; cases h)]
      exact k.shard b' rs g
  · intro b' f g
    rw [get_del, if_neg (by intro h; cases h)] at g
    exact k.side b' f g

theorem K_del_side {d0 d : Dir} (b : String) (k : K d0 d) (hgone : d.get ⟨.shard, b⟩ = none) :
    K d0 (d.del ⟨.sidecar, b⟩) := by
  refine ⟨wf_del _ _ k.wf, ?_, ?_⟩
  · intro b' rs g
    rw [get_del, if_neg (by intro h; cases h)] at g
    have hne : b ≠ b' := by intro h; subst h; rw [hgone] at g; cases g
    rw [get_del, if_neg (by intro h; cases h; exact hne rfl)]
    exact k.shard b' rs g
  · intro b' f g
    rw [get_del] at g
    split at g
    · cases g
    · exact k.side b' f g

/-! ### plans that only touch temporary files -/

/-- every operation is benign and every leaf exits with a status in `L` -/
inductive Benign (L : Exit → Prop) : Prog → Prop
  | done (e : Exit) : L e → Benign L (.done e)
  | op (o : Op) (k : Res → Prog) : o.benign → (∀ r, Benign L (k r)) → Benign L (.op o k)

theorem benign_sat {G : Dir → Prop} {Q : Exit → Dir → Prop} {I : Dir → Prop} {L : Exit → Prop} (flt : Nat → Bool)
    (hstep : ∀ d o inj, Op.benign o → I d → I (sem o d inj).2) (hG : ∀ d, I d → G d)
    (hQ : ∀ e d, L e → I d → Q e d) {p : Prog} (hp : Benign L p) :
    ∀ n d, I d → Sat G Q flt p n d := by
  induction hp with
  | done e hl => intro n d hi; rw [sat_done]; exact hQ e d hl hi
  | op o k hb _ ih =>
    intro n d hi
    rw [sat_op]
    have := hstep d o (flt n) hb hi
    exact ⟨hG _ this, ih _ _ _ this⟩

theorem cleanup_benign (L : Exit → Prop) (e : Exit) (he : L e) : ∀ bs, Benign L (cleanup bs e)
  | [] => Benign.done e he
  | b :: bs => Benign.op _ _ (by intro p hp; simp [Op.touches] at hp; subst hp; simp) (fun _ => cleanup_benign L e he bs)

end ZoektModel.C35
