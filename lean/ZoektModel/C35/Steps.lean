/-
C35 — Hoare rules for the building blocks of the plans: openAll, readMetas, writeTmp, removeShard.
-/
import ZoektModel.C35.Inv
namespace ZoektModel.C35

variable {G : Dir → Prop} {Q : Exit → Dir → Prop} {flt : Nat → Bool}

theorem sem_openRd (p : Path) (d : Dir) (inj : Bool) : (sem (.openRd p) d inj).2 = d :=
  sem_readonly _ _ _ rfl
theorem sem_stat (p : Path) (d : Dir) (inj : Bool) : (sem (.stat p) d inj).2 = d :=
  sem_readonly _ _ _ rfl
theorem sem_fdop (w : String) (p : Path) (d : Dir) (inj : Bool) : (sem (.fdop w p) d inj).2 = d :=
  sem_readonly _ _ _ rfl

theorem sem_stat_res (p : Path) (d : Dir) (inj : Bool) :
    (sem (.stat p) d inj).1 = if inj then .injected else if d.has p then .ok else .natural := by
  unfold sem; cases inj <;> simp <;> split <;> rfl

theorem sem_rename_some_ok (a b : Path) (c : File) (d : Dir) (inj : Bool)
    (h : (sem (.rename a b (some c)) d inj).1 = .ok) : (sem (.rename a b (some c)) d inj).2.get b = some c := by
  unfold sem at h ⊢
  cases inj
  · simp only [Bool.false_eq_true, if_false] at h ⊢
    cases hg : d.get a
    · simp [hg] at h
    · simp [get_put]
  · simp at h

theorem openAll_sat (hQerr : ∀ d, Q .err d) (names : List String) (k : Prog) (d : Dir) (hG : G d)
    (hk : ∀ n', Sat G Q flt k n' d) : ∀ n, Sat G Q flt (openAll false names k) n d := by
  induction names with
  | nil => intro n; exact hk n
  | cons b bs ih =>
    intro n
    unfold openAll
    rw [sat_op, sem_openRd]
    refine ⟨hG, ?_⟩
    split
    · rw [sat_done]; exact hQerr d
    · exact ih (n + 1)

theorem readMetas_sat (hQerr : ∀ d, Q .err d) (d0 : Dir) (names : List String) (k : Prog) (d : Dir) (hG : G d)
    (hk : ∀ n', Sat G Q flt k n' d) : ∀ n, Sat G Q flt (readMetas d0 names k) n d := by
  induction names with
  | nil => intro n; exact hk n
  | cons b bs ih =>
    intro n
    unfold readMetas
    split
    · rw [sat_op, sem_openRd]
      refine ⟨hG, ?_⟩
      split
      · rw [sat_done]; exact hQerr d
      · split
        · rw [sat_done]; exact hQerr d
        · exact ih (n + 1)
    · rw [sat_done]; exact hQerr d

/-- the paths `builderWriteAll(base.tmp)` can change -/
def tmpOnly (base : String) (o : Op) : Prop := ∀ p ∈ o.touches, p = ⟨.tmptmp, base⟩ ∨ p = ⟨.tmp, base⟩

theorem tmpOnly_benign {base : String} {o : Op} (h : tmpOnly base o) : o.benign := by
  intro p hp; rcases h p hp with rfl | rfl <;> simp

/-- `builderWriteAll`: every step keeps an invariant that operations on its two temp files preserve; on success the
    `.tmp` file holds the content -/
theorem writeTmp_sat {I : Dir → Prop} (base : String) (hstep : ∀ d o inj, tmpOnly base o → I d → I (sem o d inj).2)
    (hG : ∀ d, I d → G d) (content : File) (fail k : Prog)
    (hfail : ∀ n' d', I d' → Sat G Q flt fail n' d')
    (hk : ∀ n' d', I d' → d'.get ⟨.tmp, base⟩ = some content → Sat G Q flt k n' d') :
    ∀ n d, I d → Sat G Q flt (writeTmp base content fail k) n d := by
  intro n d hI
  have bcreate : tmpOnly base (.create ⟨.tmptmp, base⟩) := by
    intro p hp; simp [Op.touches] at hp; exact Or.inl hp
  have bfd : ∀ w, tmpOnly base (.fdop w ⟨.tmptmp, base⟩) := by
    intro w p hp; simp [Op.touches] at hp
  have bren : tmpOnly base (.rename ⟨.tmptmp, base⟩ ⟨.tmp, base⟩ (some content)) := by
    intro p hp; simp [Op.touches] at hp; exact hp
  unfold writeTmp
  simp only []
  rw [sat_op]
  have h1 := hstep d _ (flt n) bcreate hI
  refine ⟨hG _ h1, ?_⟩
  split
  · exact hfail _ _ h1
  rw [sat_op]
  have h2 := hstep _ _ (flt (n + 1)) (bfd "chmod") h1
  refine ⟨hG _ h2, ?_⟩
  split
  · exact hfail _ _ h2
  rw [sat_op]
  have h3 := hstep _ _ (flt (n + 1 + 1)) (bfd "write") h2
  refine ⟨hG _ h3, ?_⟩
  split
  · rw [sat_op]
    have h4 := hstep _ _ (flt (n + 1 + 1 + 1)) (bfd "close") h3
    exact ⟨hG _ h4, hfail _ _ h4⟩
  rw [sat_op]
  have h4 := hstep _ _ (flt (n + 1 + 1 + 1)) (bfd "close") h3
  refine ⟨hG _ h4, ?_⟩
  split
  · exact hfail _ _ h4
  rw [sat_op]
  have h5 := hstep _ _ (flt (n + 1 + 1 + 1 + 1)) bren h4
  refine ⟨hG _ h5, ?_⟩
  split
  · exact hfail _ _ h5
  · rename_i hok
    apply hk _ _ h5
    exact sem_rename_some_ok _ _ _ _ _ (by simpa using hok)

end ZoektModel.C35
