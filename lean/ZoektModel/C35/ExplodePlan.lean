/-
C35 — explode: Hoare rules for the clean-up, the rename loop and the write loop.
-/
import ZoektModel.C35.ExplodeProof
namespace ZoektModel.C35

variable {G : Dir → Prop} {Q : Exit → Dir → Prop} {flt : Nat → Bool}
variable {d0 : Dir} {input : String} {simple : String → String} {L : List Repo}

theorem cleanup_sat {I : Dir → Prop} (e : Exit) (hstep : ∀ d b inj, I d → I (sem (.remove ⟨.tmp, b⟩) d inj).2)
    (hG : ∀ d, I d → G d) (hQ : ∀ d, I d → Q e d) :
    ∀ (bs : List String) (n : Nat) (d : Dir), I d → Sat G Q flt (cleanup bs e) n d := by
  intro bs
  induction bs with
  | nil => intro n d hi; unfold cleanup; rw [sat_done]; exact hQ d hi
  | cons b bs ih =>
    intro n d hi
    unfold cleanup
    rw [sat_op]
    have := hstep d b (flt n) hi
    exact ⟨hG _ this, ih _ _ this⟩

/-- explode: exit status 0 implies the post-condition -/
def Qex (d0 : Dir) (input : String) (simple : String → String) (e : Exit) (fin : Dir) : Prop :=
  ∀ out, e = .ok out → explodePost d0 input simple fin = true

theorem InPlace_remove_tmp {S : List String} {d : Dir} (h : InPlace simple L S d) (b : String) (inj : Bool) :
    InPlace simple L S (sem (.remove ⟨.tmp, b⟩) d inj).2 := by
  intro b' hb'
  obtain ⟨r, hr, hb, hg⟩ := h b' hb'
  refine ⟨r, hr, hb, ?_⟩
  rw [sem_frame _ _ _ _ (by simp [Op.touches])]; exact hg

theorem explodePost_of (hy : ExHyp d0 input simple L) (hin : ∀ w ∈ inputRepos d0 input, w ∈ L)
    {S : List String} (hall : ∀ r ∈ L, simple r.name ∈ S) {fin : Dir} (e : E d0 input simple L fin)
    (hp : InPlace simple L S fin) : explodePost d0 input simple fin = true := by
  unfold explodePost
  simp only [Bool.and_eq_true, Bool.not_eq_true', List.all_eq_true]
  refine ⟨⟨(has_false_iff _ _).2 e.gone.1, (has_false_iff _ _).2 e.gone.2⟩, ?_⟩
  intro w hw
  have hwL := hin w hw
  obtain ⟨r, hr, hb, hg⟩ := hp _ (hall w hwL)
  have : w = r := hy.inj w hwL r hr hb
  subst this
  rw [hg]
  have nos : fin.get ⟨.sidecar, simple w.name⟩ = none := by
    cases hs : fin.get ⟨.sidecar, simple w.name⟩ with
    | none => rfl
    | some f => have := e.side _ f hs; rw [hy.noside w hwL] at this; cases this
  simp only [effective_nosidecar _ _ _ nos]
  simp [hy.live w hwL]

theorem renameAll_sat (hy : ExHyp d0 input simple L) (hin : ∀ w ∈ inputRepos d0 input, w ∈ L)
    (co allS : List String) (hall : ∀ r ∈ L, simple r.name ∈ allS) :
    ∀ (bs done : List String) (failed : Bool) (d : Dir) (n : Nat), allS = done ++ bs →
      (∀ b ∈ bs, ∃ r ∈ L, b = simple r.name) → E d0 input simple L d →
      (failed = false → InPlace simple L done d) →
      Sat Gd (Qex d0 input simple) flt (renameAll false co bs failed) n d := by
  intro bs
  induction bs with
  | nil =>
    intro done failed d n hS _ e hp
    unfold renameAll
    simp only [List.append_nil] at hS
    subst hS
    apply cleanup_sat (I := fun d => E d0 input simple L d ∧ (failed = false → InPlace simple L allS d))
    · intro d b inj ⟨e', hp'⟩; exact ⟨E_remove_tmp e' b inj, fun h => InPlace_remove_tmp (hp' h) b inj⟩
    · intro d ⟨e', _⟩; exact E_G hy e'
    · intro d ⟨e', hp'⟩ out hout
      cases failed
      · exact explodePost_of hy hin hall e' (hp' rfl)
      · simp at hout
    · exact ⟨e, hp⟩
  | cons b bs ih =>
    intro done failed d n hS hbs e hp
    obtain ⟨r, hr, hb⟩ := hbs b (by simp)
    subst hb
    unfold renameAll
    rw [sat_op]
    cases hf : failed
    · subst hf
      obtain ⟨e', hp', hok⟩ := E_rename hy e r hr (flt n) done (hp rfl)
      refine ⟨E_G hy e', ?_⟩
      apply ih (done ++ [simple r.name]) _ _ _ (by rw [hS]; simp) (fun b' hb' => hbs b' (List.mem_cons_of_mem _ hb')) e'
      intro hfl
      have hres : (sem (Op.rename ⟨.tmp, simple r.name⟩ ⟨.shard, simple r.name⟩ none) d (flt n)).1 = .ok := by
        by_contra hne
        simp [hne] at hfl
      intro b' hb'
      rcases List.mem_append.1 hb' with h | h
      · exact hp' b' h
      · simp only [List.mem_singleton] at h
        subst h
        exact ⟨r, hr, rfl, hok hres⟩
    · subst hf
      obtain ⟨e', _, _⟩ := E_rename hy e r hr (flt n) [] (by intro b hb; cases hb)
      refine ⟨E_G hy e', ?_⟩
      apply ih (done ++ [simple r.name]) _ _ _ (by rw [hS]; simp) (fun b' hb' => hbs b' (List.mem_cons_of_mem _ hb')) e'
      intro hfl; simp at hfl

/-- the write loop of explode -/
theorem writeSimple_sat (hy : ExHyp d0 input simple L) (hQerr : ∀ d, Q .err d) (hG : ∀ d, K d0 d → G d)
    (co : List String) (k : List String → Prog) :
    ∀ (todo proc : List Repo) (d : Dir) (n : Nat), (∀ r ∈ proc ++ todo, r ∈ L) → (proc ++ todo).Nodup →
      K d0 d → (∀ r ∈ proc, d.get ⟨.tmp, simple r.name⟩ = some (.shard [r])) →
      (∀ n' d', K d0 d' → (∀ r ∈ proc ++ todo, d'.get ⟨.tmp, simple r.name⟩ = some (.shard [r])) →
        Sat G Q flt (k ((proc ++ todo).map fun r => simple r.name)) n' d') →
      Sat G Q flt (writeSimple simple co todo (proc.map fun r => simple r.name) k) n d := by
  intro todo
  induction todo with
  | nil =>
    intro proc d n _ _ hK ht hk
    unfold writeSimple
    simpa using hk n d hK (by simpa using ht)
  | cons r todo ih =>
    intro proc d n hsub hnd hK ht hk
    unfold writeSimple
    simp only []
    apply writeTmp_sat (I := fun d => K d0 d ∧ ∀ r' ∈ proc, d.get ⟨.tmp, simple r'.name⟩ = some (.shard [r']))
      (simple r.name)
    · intro d o inj hto ⟨hK', ht'⟩
      refine ⟨K_benign inj (tmpOnly_benign hto) hK', ?_⟩
      intro r' hr'
      rw [sem_frame _ _ _ _ ?_]
      · exact ht' r' hr'
      · intro hm
        rcases hto _ hm with h | h
        · cases h
        · have hname : simple r'.name = simple r.name := by injection h
          have heq : r' = r := hy.inj r' (hsub r' (by simp [hr'])) r (hsub r (by simp)) hname
          subst heq
          rw [List.nodup_append] at hnd
          exact hnd.2.2 r' hr' r' (by simp) rfl
    · intro d hi; exact hG d hi.1
    · intro n' d' hi
      apply benign_sat (I := K d0) (L := fun e => e = .err) flt (fun d o inj hb hk => K_benign inj hb hk) hG
      · intro e d _ _; subst e; exact hQerr d
      · exact cleanup_benign (fun e => e = Exit.err) Exit.err rfl _
      · exact hi.1
    · intro n' d' ⟨hK', ht'⟩ htmp
      have := ih (proc ++ [r]) d' n' (by simpa using hsub) (by simpa using hnd) hK'
        (by
          intro r' hr'
          rcases List.mem_append.1 hr' with h | h
          · exact ht' r' h
          · simp only [List.mem_singleton] at h; subst h; exact htmp)
        (by simpa using hk)
      simpa using this
    · exact ⟨hK, ht⟩

end ZoektModel.C35
