/-
C35 — merge: the compound's content, the removal loop, the final rename.
-/
import ZoektModel.C35.Remove
namespace ZoektModel.C35

theorem mem_copied (l : List Repo) (r : Repo) : r ∈ copied l ↔ r ∈ l ∧ r.tomb = false ∧ r.ndocs ≠ 0 := by
  induction l with
  | nil => simp [copied]
  | cons a t ih =>
    unfold copied
    by_cases ht : a.tomb = true
    · simp only [ht, if_true, ih, List.mem_cons]
      constructor
      · rintro ⟨h1, h2⟩; exact ⟨Or.inr h1, h2⟩
      · rintro ⟨h1 | h1, h2, h3⟩
        · subst h1; rw [ht] at h2; cases h2
        · exact ⟨h1, h2, h3⟩
    · simp only [ht, Bool.false_eq_true, if_false]
      by_cases hn : a.ndocs = 0
      · simp only [hn, if_true, ih, List.mem_cons]
        constructor
        · rintro ⟨h1, h2⟩; exact ⟨Or.inr h1, h2⟩
        · rintro ⟨h1 | h1, h2, h3⟩
          · subst h1; exact absurd hn h3
          · exact ⟨h1, h2, h3⟩
      · simp only [hn, if_false, List.mem_cons, ih]
        constructor
        · rintro (h1 | ⟨h1, h2⟩)
          · subst h1; exact ⟨Or.inl rfl, by simpa using ht, hn⟩
          · exact ⟨Or.inr h1, h2⟩
        · rintro ⟨h1 | h1, h2⟩
          · exact Or.inl h1
          · exact Or.inr ⟨h1, h2⟩

theorem copied_sublist (l : List Repo) : (copied l).Sublist l := by
  induction l with
  | nil => simp [copied]
  | cons a t ih =>
    unfold copied
    split
    · exact ih.cons _
    · split
      · exact ih.cons _
      · exact ih.cons₂ _

theorem copied_live (l : List Repo) : ∀ r ∈ copied l, r.tomb = false := fun r h => ((mem_copied l r).1 h).2.1

theorem liveNames_of_all_live (l : List Repo) (h : ∀ r ∈ l, r.tomb = false) : liveNames l = l.map (·.name) := by
  unfold liveNames
  rw [List.filter_eq_self.2]
  intro r hr; simp [h r hr]

theorem liveNames_copied_sublist (l : List Repo) : (liveNames (copied l)).Sublist (liveNames l) := by
  unfold liveNames
  exact ((copied_sublist l).filter _).map _

theorem liveNames_append (a b : List Repo) : liveNames (a ++ b) = liveNames a ++ liveNames b := by
  simp [liveNames]

/-- facts about the compound's repository list -/
theorem mergedRepos_spec (d0 : Dir) (h0 : NoDupSem d0) :
    ∀ (names : List String) (m : List Repo), names.Nodup → mergedRepos d0 names = some m →
      (∀ r ∈ m, r.tomb = false) ∧
      (∀ x ∈ liveNames m, ∃ b ∈ names, Visible d0 b x) ∧
      (liveNames m).Nodup ∧
      (∀ b ∈ names, ∀ w ∈ inputRepos d0 b, w ∈ m) := by
  intro names
  induction names with
  | nil =>
    intro m _ hm
    simp [mergedRepos] at hm; subst hm
    simp [liveNames]
  | cons b bs ih =>
    intro m hnd hm
    rw [List.nodup_cons] at hnd
    unfold mergedRepos at hm
    split at hm
    · rename_i rs hg
      cases hrest : mergedRepos d0 bs with
      | none => simp [hrest] at hm
      | some m' =>
        simp [hrest] at hm
        subst hm
        obtain ⟨i1, i2, i3, i4⟩ := ih m' hnd.2 hrest
        have hsub := liveNames_copied_sublist (effective d0 b rs)
        refine ⟨?_, ?_, ?_, ?_⟩
        · intro r hr
          rcases List.mem_append.1 hr with h | h
          · exact copied_live _ r h
          · exact i1 r h
        · intro x hx
          rw [liveNames_append] at hx
          rcases List.mem_append.1 hx with h | h
          · exact ⟨b, by simp, rs, hg, hsub.subset h⟩
          · obtain ⟨b', hb', hv⟩ := i2 x h
            exact ⟨b', List.mem_cons_of_mem _ hb', hv⟩
        · rw [liveNames_append, List.nodup_append]
          refine ⟨(h0.2 b rs hg).sublist hsub, i3, ?_⟩
          intro x hx1 y hx2 hxy
          subst hxy
          obtain ⟨b', hb', hv⟩ := i2 x hx2
          have : b = b' := h0.1 b b' x ⟨rs, hg, hsub.subset hx1⟩ hv
          subst this
          exact hnd.1 hb'
        · intro b' hb' w hw
          rcases List.mem_cons.1 hb' with rfl | hb''
          · unfold inputRepos at hw
            rw [hg] at hw
            simp only [List.mem_filter, Bool.and_eq_true, Bool.not_eq_true', decide_eq_true_eq] at hw
            exact List.mem_append_left _ ((mem_copied _ _).2 ⟨hw.1, hw.2.1, hw.2.2⟩)
          · exact List.mem_append_right _ (i4 b' hb'' w hw)
    · cases hm

variable {G : Dir → Prop} {Q : Exit → Dir → Prop} {flt : Nat → Bool}

/-- the removal loop of merge: afterwards every input (shard and sidecar) is gone, nothing else changed -/
theorem removeAll_sat {d0 : Dir} (hG : ∀ d, K d0 d → G d) (hQerr : ∀ d, Q .err d) (k : Prog) :
    ∀ (bs : List String) (d : Dir), K d0 d →
      (∀ n' d', K d0 d' → (∀ b ∈ bs, d'.get ⟨.shard, b⟩ = none ∧ d'.get ⟨.sidecar, b⟩ = none) →
        (∀ q : Path, (∀ b ∈ bs, q ≠ ⟨.shard, b⟩ ∧ q ≠ ⟨.sidecar, b⟩) → d'.get q = d.get q) →
        (∀ q : Path, d.get q = none → d'.get q = none) → Sat G Q flt k n' d') →
      ∀ n, Sat G Q flt (removeAll bs k) n d := by
  intro bs
  induction bs with
  | nil =>
    intro d hK hk n
    exact hk n d hK (by simp) (fun _ _ => rfl) (fun _ h => h)
  | cons b bs ih =>
    intro d hK hk n
    unfold removeAll
    apply removeShard_sat hG b _ _ d hK
    · intro n' d' _; rw [sat_done]; exact hQerr d'
    · intro n' d' hK' g1 g2 hsame
      have hnone : ∀ q : Path, d.get q = none → d'.get q = none := by
        intro q hq
        by_cases h1 : q = ⟨.shard, b⟩
        · subst h1; exact g1
        · by_cases h2 : q = ⟨.sidecar, b⟩
          · subst h2; exact g2
          · rw [hsame q h1 h2]; exact hq
      apply ih d' hK'
      intro n'' d'' hK'' hgone hsame' hnone'
      apply hk n'' d'' hK''
      · intro b' hb'
        rcases List.mem_cons.1 hb' with rfl | hb''
        · exact ⟨hnone' _ g1, hnone' _ g2⟩
        · exact hgone b' hb''
      · intro q hq
        rw [hsame' q (fun b' hb' => hq b' (List.mem_cons_of_mem _ hb'))]
        exact hsame q (hq b (by simp)).1 (hq b (by simp)).2
      · intro q hq; exact hnone' q (hnone q hq)

end ZoektModel.C35
