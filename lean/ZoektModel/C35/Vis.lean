/-
C35 — lemmas about visibility: the semantic form of "no repository is visible twice" and its equivalence with the
executable `noDupVis` on well-formed directories.
-/
import ZoektModel.C35.Lemmas
namespace ZoektModel.C35

/-- repository `x` is shown by the shard file `b` -/
def Visible (d : Dir) (b x : String) : Prop :=
  ∃ rs, d.get ⟨.shard, b⟩ = some (.shard rs) ∧ x ∈ liveNames (effective d b rs)

/-- no repository is shown by two shard files, nor twice by one -/
def NoDupSem (d : Dir) : Prop :=
  (∀ b1 b2 x, Visible d b1 x → Visible d b2 x → b1 = b2) ∧
  (∀ b rs, d.get ⟨.shard, b⟩ = some (.shard rs) → (liveNames (effective d b rs)).Nodup)

theorem nodupB_iff (l : List String) : nodupB l = true ↔ l.Nodup := by
  induction l with
  | nil => simp [nodupB]
  | cons x xs ih => simp [nodupB, ih]

theorem visOf_mem (d : Dir) (e : Path × File) (x : String) (hx : x ∈ visOf d e) :
    ∃ b rs, e = (⟨.shard, b⟩, .shard rs) ∧ x ∈ liveNames (effective d b rs) := by
  obtain ⟨⟨k, b⟩, f⟩ := e
  cases k <;> cases f <;> simp [visOf] at hx
  exact ⟨b, _, rfl, by simpa using hx⟩

theorem noDupVis_of_sem (d : Dir) (hwf : d.wf = true) (h : NoDupSem d) : noDupVis d = true := by
  unfold noDupVis vis
  rw [nodupB_iff, List.nodup_flatMap]
  constructor
  · intro e he
    obtain ⟨⟨k, b⟩, f⟩ := e
    cases k <;> cases f <;> simp [visOf]
    exact h.2 b _ (get_of_mem_wf d hwf _ _ he)
  · -- pairwise disjoint: two different entries have different keys
    have key : ∀ (l : Dir), l.wf = true → (∀ e ∈ l, e ∈ d) →
        List.Pairwise (fun a b => List.Disjoint (visOf d a) (visOf d b)) l := by
      intro l
      induction l with
      | nil => intro _ _; exact List.Pairwise.nil
      | cons e r ih =>
        intro hl hsub
        obtain ⟨k, f⟩ := e
        simp only [Dir.wf, Bool.and_eq_true, Bool.not_eq_true'] at hl
        refine List.Pairwise.cons ?_ (ih hl.2 (fun e he => hsub e (List.mem_cons_of_mem _ he)))
        intro e' he' x hx1 hx2
        obtain ⟨b1, rs1, heq1, hv1⟩ := visOf_mem d _ x hx1
        obtain ⟨b2, rs2, heq2, hv2⟩ := visOf_mem d _ x hx2
        cases heq1
        subst heq2
        have g1 := get_of_mem_wf d hwf _ _ (hsub _ (List.mem_cons_self))
        have g2 := get_of_mem_wf d hwf _ _ (hsub _ (List.mem_cons_of_mem _ he'))
        have : b1 = b2 := h.1 b1 b2 x ⟨rs1, g1, hv1⟩ ⟨rs2, g2, hv2⟩
        subst this
        have := get_of_mem_wf r hl.2 _ _ he'
        rw [has_false_iff] at hl
        rw [hl.1] at this; cases this
    exact key d hwf (fun e he => he)

theorem pw_mem {α} {R : α → α → Prop} (hs : ∀ a b, R a b → R b a) {l : List α} (h : l.Pairwise R)
    {a b : α} (ha : a ∈ l) (hb : b ∈ l) (hne : a ≠ b) : R a b := by
  induction l with
  | nil => cases ha
  | cons x xs ih =>
    rw [List.pairwise_cons] at h
    rcases List.mem_cons.1 ha with rfl | ha'
    · rcases List.mem_cons.1 hb with rfl | hb'
      · exact absurd rfl hne
      · exact h.1 _ hb'
    · rcases List.mem_cons.1 hb with rfl | hb'
      · exact hs _ _ (h.1 _ ha')
      · exact ih h.2 ha' hb'

theorem sem_of_noDupVis (d : Dir) (hwf : d.wf = true) (h : noDupVis d = true) : NoDupSem d := by
  unfold noDupVis vis at h
  rw [nodupB_iff, List.nodup_flatMap] at h
  obtain ⟨h1, h2⟩ := h
  constructor
  · intro b1 b2 x ⟨rs1, g1, v1⟩ ⟨rs2, g2, v2⟩
    by_contra hne
    have m1 := mem_of_get d _ _ g1
    have m2 := mem_of_get d _ _ g2
    have hne' : ((⟨.shard, b1⟩ : Path), File.shard rs1) ≠ (⟨.shard, b2⟩, File.shard rs2) := by
      intro heq; apply hne; cases heq; rfl
    have := pw_mem (R := fun a b : Path × File => List.Disjoint (visOf d a) (visOf d b))
      (fun a b hab x h1 h2 => hab h2 h1) h2 m1 m2 hne'
    exact this (by simpa [visOf] using v1) (by simpa [visOf] using v2)
  · intro b rs g
    have := h1 _ (mem_of_get d _ _ g)
    simpa [visOf] using this

end ZoektModel.C35
