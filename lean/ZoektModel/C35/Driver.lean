import ZoektModel.Basic.Proto
import ZoektModel.C35.Spec
namespace ZoektModel.C35
open ZoektModel ZoektModel.Proto

/-! line protocol (see harness/cmd/c35/main.go)

  merge   <dst> <names> <dir0> <faults> <kill>
  explode <input> <name=base,…> <dir0> <renameOrder> <cleanOrder> <faults> <kill>

`dir0` entries are separated by `|`: `z:<base>=<name>:<tomb>:<ndocs>;…`, `zj:<base>` (not a shard), `m:<base>=<name>:<tomb>;…`,
`t:<base>`, `r:<base>`, `o:<name>`.  `faults`: indices of the operations that fail by injection; `kill`: number of
operations completed before SIGKILL, `-` = not killed.
answer / implementation: `exit=<0:out|1|killed> trace=<op,…> init=<listing> dir=<listing>`; a listing shows for every
`*.zoekt` file the live repositories a reader sees (`name:ndocs`, sorted).
-/

def kindTag : Kind → String
  | .shard => "z" | .sidecar => "m" | .tmp => "t" | .tmptmp => "r" | .other => "o"

def showPath (p : Path) : String := kindTag p.kind ++ ":" ++ p.base

def showRes : Res → String
  | .ok => "" | .natural => "?" | .injected => "!"

def showOp : Op → String
  | .openRd p => "open:" ++ showPath p
  | .stat p => "stat:" ++ showPath p
  | .create p => "create:" ++ showPath p
  | .fdop w p => w ++ ":" ++ showPath p
  | .rename a b _ => "rename:" ++ showPath a ++ ">" ++ showPath b
  | .remove p => "remove:" ++ showPath p

def sortStrings (l : List String) : List String := l.mergeSort (fun a b => decide (a ≤ b))

def showEntry (d : Dir) : Path × File → String
  | (⟨.shard, b⟩, .shard rs) =>
    let live := (effective d b rs).filter (fun r => !r.tomb)
    "z:" ++ b ++ "=" ++ ";".intercalate (sortStrings (live.map fun r => s!"{r.name}:{r.ndocs}"))
  | (⟨.shard, b⟩, _) => "z:" ++ b ++ "=JUNK"
  | (p, _) => showPath p

def showDir (d : Dir) : String :=
  if d.isEmpty then "-" else "|".intercalate (sortStrings (d.map (showEntry d)))

def splitList (sep : String) (s : String) : List String :=
  if s == "-" || s == "" then [] else s.splitOn sep

def parseRepo3 (s : String) : Option Repo :=
  match s.splitOn ":" with
  | [n, t, k] => do pure ⟨n, ← bool? t, ← k.toNat?⟩
  | _ => none

def parseRepo2 (s : String) : Option Repo :=
  match s.splitOn ":" with
  | [n, k] => do pure ⟨n, false, ← k.toNat?⟩
  | _ => none

def parseMeta (s : String) : Option (String × Bool) :=
  match s.splitOn ":" with
  | [n, t] => do pure (n, ← bool? t)
  | _ => none

/-- `observed = true`: a listing as printed by `showDir` / the harness -/
def parseEntry (observed : Bool) (s : String) : Option (Path × File) :=
  let (head, body) := match s.splitOn "=" with
    | [h] => (h, none)
    | [h, b] => (h, some b)
    | _ => ("", none)
  match head.splitOn ":", body with
  | ["z", b], some body =>
    if body == "JUNK" then some (⟨.shard, b⟩, .junk) else do
      let rs ← (splitList ";" body).mapM (if observed then parseRepo2 else parseRepo3)
      pure (⟨.shard, b⟩, .shard rs)
  | ["zj", b], none => some (⟨.shard, b⟩, .junk)
  | ["m", b], some body => do
      let ms ← (splitList ";" body).mapM parseMeta
      pure (⟨.sidecar, b⟩, .sidecar ms)
  | ["m", b], none => some (⟨.sidecar, b⟩, .junk)
  | ["t", b], none => some (⟨.tmp, b⟩, .junk)
  | ["r", b], none => some (⟨.tmptmp, b⟩, .junk)
  | ["o", b], none => some (⟨.other, b⟩, .junk)
  | _, _ => none

def parseDir (observed : Bool) (s : String) : Option Dir := (splitList "|" s).mapM (parseEntry observed)

def parseKill (s : String) : Option (Option Nat) :=
  if s == "-" then some none else s.toNat?.map some

def showExit : Option Exit → String
  | none => "killed"
  | some .err => "1"
  | some (.ok out) => "0:" ++ (if out.isEmpty then "-" else out)

def parseExit (s : String) : Option (Option Exit) :=
  if s == "killed" then some none
  else if s == "1" then some (some .err)
  else if s.startsWith "0:" then
    let o := (s.drop 2).toString
    some (some (.ok (if o == "-" then "" else o)))
  else none

def field (name : String) (fs : List String) : Option String :=
  (fs.find? (·.startsWith (name ++ "="))).map fun f => (f.drop (name.length + 1)).toString

/-- outcome of a (possibly killed) run of `p` on `d0` -/
def outcome (p : Prog) (d0 : Dir) (faults : List Nat) (kill : Option Nat) : String :=
  let (steps, e) := run (fun n => faults.contains n) p 0 d0
  let (steps, exit) := match kill with
    | none => (steps, some e)
    | some k => (steps.take k, none)
  let fin := match steps.getLast? with
    | none => d0
    | some s => s.dir
  let tr := steps.map (fun s => showOp s.op ++ showRes s.res) ++ (if exit.isNone then ["KILL"] else [])
  s!"exit={showExit exit} trace={showList id tr} init={showDir d0} dir={showDir fin}"

def verdict (c : Cmd) (d0 : Dir) (model impl : String) : String :=
  let fs := fields impl
  match field "exit" fs, field "dir" fs with
  | some e, some d =>
    match parseExit e, parseDir true d with
    | some exit, some fin =>
      match checkP c d0 exit fin with
      | none => answer model
      | some key => specFail model key
    | _, _ => badCase "impl exit/dir"
  | _, _ => badCase "impl fields"

def parseSimple (s : String) : Option (List (String × String)) :=
  (splitList "," s).mapM fun e =>
    match e.splitOn "=" with
    | [a, b] => some (a, b)
    | _ => none

def lookupSimple (m : List (String × String)) (r : String) : String :=
  match m.find? (·.1 == r) with
  | some (_, b) => b
  | none => "UNKNOWN-" ++ r

def handle (line : String) : String :=
  let (inp, impl) := splitCase line
  match fields inp with
  | ["merge", dst, names, dir0, faults, kill] =>
    match parseDir false dir0, natList? faults, parseKill kill with
    | some d0, some fl, some k =>
      if !d0.wf then badCase "dir0 keys" else
      let ns := splitList "," names
      let model := outcome (mergePlan false d0 ns dst) d0 fl k
      verdict (.merge ns dst) d0 model impl
    | _, _, _ => badCase "merge fields"
  | ["explode", input, simple, dir0, ro, co, faults, kill] =>
    match parseDir false dir0, natList? faults, parseKill kill, parseSimple simple with
    | some d0, some fl, some k, some sm =>
      if !d0.wf then badCase "dir0 keys" else
      let model := outcome (explodePlan false d0 input (lookupSimple sm) (splitList "," ro) (splitList "," co)) d0 fl k
      verdict (.explode input (lookupSimple sm)) d0 model impl
    | _, _, _, _ => badCase "explode fields"
  | _ => badCase "op"

def main : IO Unit := runLines handle
end ZoektModel.C35
