import ZoektModel.Basic.Proto
namespace ZoektModel.C35
/-- stub: no model driver for C35 yet -/
def main : IO Unit := ZoektModel.Proto.runLines (fun _ => ZoektModel.Proto.badCase "no model driver for C35")
end ZoektModel.C35
