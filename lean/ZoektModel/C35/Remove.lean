/-
C35 — Hoare rule for `removeShard` (IndexFilePaths + os.Remove of the shard and its sidecar).
-/
import ZoektModel.C35.Steps
namespace ZoektModel.C35

variable {G : Dir → Prop} {Q : Exit → Dir → Prop} {flt : Nat → Bool}

theorem sem_remove_cases (p : Path) (d : Dir) (inj : Bool) :
    ((sem (.remove p) d inj).1 = .ok ∧ (sem (.remove p) d inj).2 = d.del p ∧ inj = false) ∨
    ((sem (.remove p) d inj).1 ≠ .ok ∧ (sem (.remove p) d inj).2 = d) := by
  unfold sem
  cases inj
  · simp only [Bool.false_eq_true, if_false]
    cases d.has p <;> simp
  · simp

theorem removeShard_sat {d0 : Dir} (hG : ∀ d, K d0 d → G d) (b : String) (fail k : Prog) (d : Dir) (hK : K d0 d)
    (hfail : ∀ n' d', K d0 d' → Sat G Q flt fail n' d')
    (hk : ∀ n' d', K d0 d' → d'.get ⟨.shard, b⟩ = none → d'.get ⟨.sidecar, b⟩ = none →
      (∀ q : Path, q ≠ ⟨.shard, b⟩ → q ≠ ⟨.sidecar, b⟩ → d'.get q = d.get q) → Sat G Q flt k n' d') :
    ∀ n, Sat G Q flt (removeShard b fail k) n d := by
  intro n
  unfold removeShard
  simp only []
  rw [sat_op, sem_stat, sem_stat_res]
  refine ⟨hG _ hK, ?_⟩
  by_cases hi1 : flt n = true
  · simp only [hi1, if_true]; exact hfail _ _ hK
  simp only [hi1, Bool.false_eq_true, if_false]
  have hne1 : ∀ x : Bool, (if x = true then Res.ok else Res.natural) ≠ Res.injected := by
    intro x; cases x <;> simp
  rw [if_neg (hne1 _)]
  rw [sat_op, sem_stat, sem_stat_res]
  refine ⟨hG _ hK, ?_⟩
  by_cases hi2 : flt (n + 1) = true
  · simp only [hi2, if_true]; exact hfail _ _ hK
  simp only [hi2, Bool.false_eq_true, if_false]
  rw [if_neg (hne1 _)]
  -- the sidecar part, from a state where the shard is already gone
  have side : ∀ n' d', K d0 d' → d'.get ⟨.shard, b⟩ = none →
      (∀ q : Path, q ≠ ⟨.shard, b⟩ → d'.get q = d.get q) →
      Sat G Q flt (if (if d.has ⟨.sidecar, b⟩ = true then Res.ok else Res.natural) = Res.ok then
        Prog.op (.remove ⟨.sidecar, b⟩) fun r => if r ≠ Res.ok then fail else k else k) n' d' := by
    intro n' d' hK' hgone hsame
    cases hs : d.has ⟨.sidecar, b⟩
    · simp only [Bool.false_eq_true, if_false]
      rw [if_neg (by simp)]
      apply hk _ _ hK' hgone
      · rw [hsame _ (by intro h; cases h)]; exact (has_false_iff _ _).1 hs
      · intro q h1 _; exact hsame q h1
    · simp only [if_true]
      rw [sat_op]
      rcases sem_remove_cases ⟨.sidecar, b⟩ d' (flt n') with ⟨hok, hd, _⟩ | ⟨hnok, hd⟩
      · rw [hd, hok]
        have hK'' := K_del_side b hK' hgone
        refine ⟨hG _ hK'', ?_⟩
        rw [if_neg (by simp)]
        apply hk _ _ hK''
        · rw [get_del, if_neg (by intro h; cases h)]; exact hgone
        · rw [get_del, if_pos rfl]
        · intro q h1 h2
          rw [get_del, if_neg (fun h => h2 h.symm)]; exact hsame q h1
      · rw [hd]
        refine ⟨hG _ hK', ?_⟩
        rw [if_pos hnok]; exact hfail _ _ hK'
  cases hp : d.has ⟨.shard, b⟩
  · simp only [Bool.false_eq_true, if_false]
    rw [if_neg (by simp)]
    exact side _ _ hK ((has_false_iff _ _).1 hp) (fun _ _ => rfl)
  · simp only [if_true]
    rw [sat_op]
    rcases sem_remove_cases ⟨.shard, b⟩ d (flt (n + 1 + 1)) with ⟨hok, hd, _⟩ | ⟨hnok, hd⟩
    · rw [hd, hok]
      have hK' := K_del_shard b hK
      refine ⟨hG _ hK', ?_⟩
      rw [if_neg (by simp)]
      apply side _ _ hK'
      · rw [get_del, if_pos rfl]
      · intro q h1; rw [get_del, if_neg (fun h => h1 h.symm)]
    · rw [hd]
      refine ⟨hG _ hK, ?_⟩
      rw [if_pos hnok]; exact hfail _ _ hK

end ZoektModel.C35
