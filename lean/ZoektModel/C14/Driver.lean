import ZoektModel.Basic.Proto
namespace ZoektModel.C14
/-- stub: no model driver for C14 yet -/
def main : IO Unit := ZoektModel.Proto.runLines (fun _ => ZoektModel.Proto.badCase "no model driver for C14")
end ZoektModel.C14
