import ZoektModel.Basic.Proto
import ZoektModel.C14.Spec
import ZoektModel.C13.Driver
namespace ZoektModel.C14
open ZoektModel ZoektModel.Proto ZoektModel.C13

def hexList? (s : String) : Option (List Bytes) :=
  if s == "-" then some [] else (s.splitOn ",").mapM hexToBytes?

def parseEntries (s : String) : Option (List TEntry) :=
  if s == "-" then some [] else
  (s.splitOn ",").mapM fun e =>
    match e.splitOn ":" with
    | [p, h, m] => do pure ⟨← p.toNat?, ← h.toNat?, ← m.toNat?⟩
    | _ => none

/-- `b|ignoreFileHex|entries` joined by `;` -/
def parseBranches (paths : List Bytes) (s : String) : Option (List BranchTree) :=
  (s.splitOn ";").mapM fun br =>
    match br.splitOn "|" with
    | [b, ig, es] => do
      let b ← b.toNat?
      let file ← hexToBytes? ig
      let es ← parseEntries es
      let pats := parseIgnore file
      pure ⟨b, fun p => ignoreMatch pats (paths.getD p []), es⟩
    | _ => none

def showDocs (m : Files) : String :=
  let ds := C13.sortBy (fun a b => C13.pairLt (a.path, a.blob) (b.path, b.blob)) m
  showList (fun d => s!"{d.path}:{d.blob}:{"+".intercalate (d.branches.map toString)}") ds

def parseDocs (s : String) : Option Files :=
  if s == "-" then some [] else
  (s.splitOn ",").mapM fun e =>
    match e.splitOn ":" with
    | [p, x, bs] => do
      let bs ← (bs.splitOn "+").mapM (·.toNat?)
      pure ⟨← p.toNat?, ← x.toNat?, bs⟩
    | _ => none

def showNext : NextRes → String
  | .eof => "eof" | .err _ => "err" | .missing => "missing" | .excluded => "excluded"
  | .blob n => s!"blob{n}"

def showStatus : RStatus → String
  | .ok => "ok" | .eof => "eof" | .err => "err"

/-- run the cat-file ops against the model -/
def runCF : CF → List String → List String → Option (List String)
  | _, [], acc => some acc.reverse
  | s, op :: ops, acc =>
    if op == "n" then
      let (r, s') := next s
      runCF s' ops (s!"{showNext r}/{s'.pending}" :: acc)
    else if op.startsWith "r" then
      match ((op.drop 1).toString.splitOn ":").map (·.toNat?) with
      | [some plen, some k] =>
        let (data, st, s') := read s plen k
        runCF s' ops (s!"{bytesToHex data}:{showStatus st}/{s'.pending}" :: acc)
      | _ => none
    else if op.startsWith "f" then
      match (op.drop 1).toString.toNat? with
      | some n =>
        let (data, ok, s') := readFull n s n [] []
        runCF s' ops (s!"{bytesToHex data}:{showBool ok}/{s'.pending}" :: acc)
      | none => none
    else none

def showRegion (r : Region) : String :=
  match r.buf with
  | .own i => s!"o{i}+{r.len}/{r.cap}"
  | .slab g => s!"s{g}@{r.off}+{r.len}/{r.cap}"

def parseRegion (s : String) : Option Region :=
  if s.startsWith "o" then
    match (s.drop 1).toString.splitOn "+" with
    | [i, lc] =>
      match lc.splitOn "/" with
      | [l, c] => do pure ⟨.own (← i.toNat?), 0, ← l.toNat?, ← c.toNat?⟩
      | _ => none
    | _ => none
  else if s.startsWith "s" then
    match (s.drop 1).toString.splitOn "@" with
    | [g, rest] =>
      match rest.splitOn "+" with
      | [o, lc] =>
        match lc.splitOn "/" with
        | [l, c] => do pure ⟨.slab (← g.toNat?), ← o.toNat?, ← l.toNat?, ← c.toNat?⟩
        | _ => none
      | _ => none
    | _ => none
  else none

def showSkip : Skip → String
  | .none => "ok" | .tooLarge => "large" | .tooSmall => "small" | .binary => "binary" | .missing => "missing"

def parseSkip : String → Option Skip
  | "ok" => some .none | "large" => some .tooLarge | "small" => some .tooSmall | "binary" => some .binary
  | "missing" => some .missing | _ => none

def showDoc (d : DocOut) : String := s!"{showSkip d.skip}:{bytesToHex d.content}"

def parseDoc (s : String) : Option DocOut :=
  match s.splitOn ":" with
  | [k, c] => do pure ⟨← hexToBytes? c, ← parseSkip k⟩
  | _ => none

def parseBools (s : String) : Option (List Bool) :=
  if s == "-" then some [] else (s.toList.mapM fun c => if c == '1' then some true else if c == '0' then some false else none)

/--
ops:
  collect <pathsHexCSV> <branches>                impl/model: documents `p:x:b+b…`; verdict: checkDocs(impl)
  ignore <fileHex> <pathHex>                      impl/model: 0|1
  cf <streamHex> <op,op,…>                        impl/model: result of every op with the pending counter
  slab <cap> <sizes>                              impl/model: regions; verdict: checkRegions(impl)
  docs <sizeMax> <streamHex> <allowFlags>         impl/model: `error` or the documents after Builder.Add
  doc2 <sizeMax> <allow 0|1> <filter 0|1> <present 0|1> <contentHex>
                                                  impl/model: `g=<doc> c=<doc>` (go-git path, cat-file path);
                                                  verdict: checkContent of both implementation documents, and equality
-/
def handle (line : String) : String :=
  let (inp, impl) := splitCase line
  match fields inp with
  | ["collect", ps, brs] =>
    match hexList? ps with
    | none => badCase "paths"
    | some paths =>
      match parseBranches paths brs, parseDocs impl with
      | some ts, some idocs =>
        let model := showDocs (collectAll ts)
        if checkDocs ts idocs then answer model else specFail model "collect-not-exact"
      | _, _ => badCase "collect fields"
  | ["ignore", f, p] =>
    match hexToBytes? f, hexToBytes? p with
    | some f, some p => answer (showBool (ignoreMatch (parseIgnore f) p))
    | _, _ => badCase "ignore fields"
  | ["cf", st, ops] =>
    match hexToBytes? st with
    | some stream =>
      match runCF ⟨stream, 0⟩ (ops.splitOn ",") [] with
      | some outs => answer (",".intercalate outs)
      | none => badCase "cf ops"
    | none => badCase "cf stream"
  | ["slab", cap, sizes] =>
    match cap.toNat?, natList? sizes with
    | some cap, some sizes =>
      let model := showList showRegion (({ cap := cap } : Slab).allocs sizes)
      match (if impl == "-" then some [] else (impl.splitOn ",").mapM parseRegion) with
      | some irs => if checkRegions irs then answer model else specFail model "slab-overlap"
      | none => badCase "slab impl"
    | _, _ => badCase "slab fields"
  | ["docs", sm, st, allow] =>
    match sm.toNat?, hexToBytes? st, parseBools allow with
    | some sizeMax, some stream, some allows =>
      let (ds, ok) := catfileDocs sizeMax ⟨stream, 0⟩ allows []
      if !ok then answer "error"
      else answer (showList showDoc ((ds.zip allows).map fun p => builderAdd sizeMax p.2 p.1))
    | _, _, _ => badCase "docs fields"
  | ["doc2", sm, allow, filter, present, c] =>
    match sm.toNat?, bool? allow, bool? filter, bool? present, hexToBytes? c with
    | some sizeMax, some allow, some filter, some present, some content =>
      let st : BlobSt := if present then .present content else .missing
      let g := builderAdd sizeMax allow (gogitDoc sizeMax allow st)
      let c := builderAdd sizeMax allow (catfileDoc sizeMax allow (catfileAnswer filter sizeMax st) content)
      let model := s!"g={showDoc g} c={showDoc c}"
      match fields impl with
      | [ig, ic] =>
        match parseDoc (ig.drop 2).toString, parseDoc (ic.drop 2).toString with
        | some ig, some ic =>
          if !(checkContent sizeMax allow st ig) then specFail model "gogit-content"
          else if !(checkContent sizeMax allow st ic) then specFail model "catfile-content"
          else if ig != ic then specFail model (if present then "paths-differ" else "paths-differ-missing-blob")
          else answer model
        | _, _ => badCase "doc2 impl"
      | _ => badCase "doc2 impl fields"
    | _, _, _, _, _ => badCase "doc2 fields"
  | _ => badCase "op"

def main : IO Unit := runLines handle
end ZoektModel.C14
