/-
C14 — the property as executable predicates (written from the statement).
-/
import ZoektModel.C14.Model
namespace ZoektModel.C14
open ZoektModel ZoektModel.C13

/-- branch tree `t` contains path `p` with content `x` as an indexable file that the ignore file does not exclude -/
def BranchTree.contains (t : BranchTree) (p : Path) (x : Blob) : Bool :=
  t.entries.any (fun e => e.path == p && e.hash == x && e.indexed) && !t.ig p

/-- "one document per distinct (path, content) pair across those branches, whose branch list is exactly the
    branches containing that path with that content; no document for paths excluded by the ignore file or for
    submodule links" -/
def checkDocs (ts : List BranchTree) (docs : Files) : Bool :=
  -- at most one document per (path, content)
  docs.all (fun d => docs.countP (fun d' => d'.path == d.path && d'.blob == d.blob) == 1) &&
  -- each document's branch list: exactly the containing branches, each once
  docs.all (fun d =>
    !d.branches.isEmpty &&
    d.branches.all (fun b => d.branches.count b == 1 && ts.any (fun t => t.name == b && t.contains d.path d.blob)) &&
    ts.all (fun t => !t.contains d.path d.blob || d.branches.contains t.name)) &&
  -- every contained pair has its document
  ts.all (fun t => t.entries.all (fun e =>
    !t.contains e.path e.hash || docs.any (fun d => d.path == e.path && d.blob == e.hash)))

/-- "content equals the blob, or carries a skip explanation when too large or binary" (also: too small, the
    builder's third explanation; `missing` only for an object that is absent) -/
def checkContent (sizeMax : Nat) (allowLarge : Bool) (st : BlobSt) (d : DocOut) : Bool :=
  match st with
  | .missing => d.skip == .missing || d.skip == .tooLarge
  | .present c =>
    if c.length > sizeMax && !allowLarge then d.skip == .tooLarge
    else if c.isEmpty then d.skip == .none && d.content.isEmpty
    else if c.length < 3 then d.skip == .tooSmall
    else if c.contains 0 then d.skip == .binary
    else d.skip == .none && d.content == c

/-- slices handed out by the slab never overlap, and none can grow in place (cap = len) -/
def Region.disjoint (a b : Region) : Bool :=
  a.buf != b.buf || a.off + a.cap ≤ b.off || b.off + b.cap ≤ a.off

def checkRegions : List Region → Bool
  | [] => true
  | a :: rest => decide (a.cap = a.len) && rest.all (fun b => a.disjoint b) && checkRegions rest

end ZoektModel.C14
