/-
C14 — lemmas.
-/
import ZoektModel.C14.Spec
import ZoektModel.C13.Lemmas
namespace ZoektModel.C14
open ZoektModel ZoektModel.C13

/-! tree walk -/

theorem has_handleEntry (ig : Path → Bool) (b : Branch) (m : Files) (e : TEntry) (b' : Branch) (p : Path) (x : Blob) :
    Has (handleEntry ig b m e) b' p x ↔
      Has m b' p x ∨ (b' = b ∧ e.path = p ∧ e.hash = x ∧ e.indexed = true ∧ ig e.path = false) := by
  unfold handleEntry
  by_cases h1 : e.indexed = true
  · cases hig : ig e.path
    · simp only [h1, if_true, Bool.false_eq_true, if_false, has_addBranch]
      grind
    · simp [h1]
  · simp [h1]

theorem keys_handleEntry (ig : Path → Bool) (b : Branch) (m : Files) (e : TEntry) (h : KeysPW m) :
    KeysPW (handleEntry ig b m e) := by
  unfold handleEntry
  split
  · split
    · exact h
    · exact keys_addBranch _ _ _ _ h
  · exact h

theorem has_collectFiles (ig : Path → Bool) (b : Branch) (es : List TEntry) (m : Files) (b' : Branch) (p : Path)
    (x : Blob) :
    Has (collectFiles m b ig es) b' p x ↔
      Has m b' p x ∨ (b' = b ∧ ∃ e ∈ es, e.path = p ∧ e.hash = x ∧ e.indexed = true ∧ ig e.path = false) := by
  unfold collectFiles
  induction es generalizing m with
  | nil => simp
  | cons e es ih =>
    rw [List.foldl_cons, ih, has_handleEntry]
    simp only [List.mem_cons, exists_eq_or_imp]
    grind

theorem keys_collectFiles (ig : Path → Bool) (b : Branch) (es : List TEntry) (m : Files) (h : KeysPW m) :
    KeysPW (collectFiles m b ig es) := by
  unfold collectFiles
  induction es generalizing m with
  | nil => exact h
  | cons e es ih => rw [List.foldl_cons]; exact ih _ (keys_handleEntry _ _ _ _ h)

theorem has_collectAll_aux (ts : List BranchTree) (m : Files) (b : Branch) (p : Path) (x : Blob) :
    Has (ts.foldl (fun m t => collectFiles m t.name t.ig t.entries) m) b p x ↔
      Has m b p x ∨ ∃ t ∈ ts, t.name = b ∧ ∃ e ∈ t.entries, e.path = p ∧ e.hash = x ∧ e.indexed = true ∧
        t.ig e.path = false := by
  induction ts generalizing m with
  | nil => simp
  | cons t ts ih =>
    rw [List.foldl_cons, ih, has_collectFiles]
    simp only [List.mem_cons, exists_eq_or_imp]
    grind

theorem has_collectAll (ts : List BranchTree) (b : Branch) (p : Path) (x : Blob) :
    Has (collectAll ts) b p x ↔
      ∃ t ∈ ts, t.name = b ∧ ∃ e ∈ t.entries, e.path = p ∧ e.hash = x ∧ e.indexed = true ∧ t.ig e.path = false := by
  unfold collectAll
  rw [has_collectAll_aux]
  simp [has_nil]

theorem keys_collectAll (ts : List BranchTree) : KeysPW (collectAll ts) := by
  unfold collectAll
  suffices h : ∀ m, KeysPW m → KeysPW (ts.foldl (fun m t => collectFiles m t.name t.ig t.entries) m) from
    h [] keys_nil
  induction ts with
  | nil => intro m h; exact h
  | cons t ts ih => intro m h; rw [List.foldl_cons]; exact ih _ (keys_collectFiles _ _ _ _ h)

theorem nonempty_addBranch (m : Files) (p : Path) (x : Blob) (b : Branch) (h : ∀ d ∈ m, d.branches ≠ []) :
    ∀ d ∈ addBranch m p x b, d.branches ≠ [] := by
  induction m with
  | nil => intro d hd; simp [addBranch] at hd; subst hd; simp
  | cons e r ih =>
    intro d hd
    unfold addBranch at hd
    split at hd
    · rcases List.mem_cons.mp hd with rfl | hd
      · simp
      · exact h d (List.mem_cons_of_mem _ hd)
    · rcases List.mem_cons.mp hd with rfl | hd
      · exact h d (by simp)
      · exact ih (fun d hd => h d (List.mem_cons_of_mem _ hd)) d hd

theorem nonempty_collectAll (ts : List BranchTree) : ∀ d ∈ collectAll ts, d.branches ≠ [] := by
  unfold collectAll
  suffices h : ∀ m : Files, (∀ d ∈ m, d.branches ≠ []) →
      ∀ d ∈ ts.foldl (fun m t => collectFiles m t.name t.ig t.entries) m, d.branches ≠ [] from
    h [] (by simp)
  induction ts with
  | nil => intro m h; exact h
  | cons t ts ih =>
    intro m h
    rw [List.foldl_cons]
    apply ih
    unfold collectFiles
    generalize t.entries = es
    induction es generalizing m with
    | nil => exact h
    | cons e es ih2 =>
      rw [List.foldl_cons]
      apply ih2
      unfold handleEntry
      split
      · split
        · exact h
        · exact nonempty_addBranch _ _ _ _ h
      · exact h

/-! the branch list of a key, in order -/

/-- `m[key].Branches` (empty when the key is absent) -/
def branchesOf : Files → Path → Blob → List Branch
  | [], _, _ => []
  | d :: r, p, x => if d.path = p ∧ d.blob = x then d.branches else branchesOf r p x

theorem branchesOf_addBranch (m : Files) (p : Path) (x : Blob) (b : Branch) (p' : Path) (x' : Blob) :
    branchesOf (addBranch m p x b) p' x' =
      if p = p' ∧ x = x' then branchesOf m p x ++ [b] else branchesOf m p' x' := by
  induction m with
  | nil =>
    by_cases h : p = p' ∧ x = x' <;> simp [addBranch, branchesOf, h]
  | cons d r ih =>
    unfold addBranch
    by_cases hk : d.path = p ∧ d.blob = x
    · rw [if_pos hk]
      by_cases h : p = p' ∧ x = x'
      · obtain ⟨rfl, rfl⟩ := h
        simp [branchesOf, hk]
      · have : ¬ (d.path = p' ∧ d.blob = x') := by
          intro hh; apply h; exact ⟨hk.1.symm.trans hh.1, hk.2.symm.trans hh.2⟩
        simp [branchesOf, h, this]
    · rw [if_neg hk]
      by_cases h : p = p' ∧ x = x'
      · obtain ⟨rfl, rfl⟩ := h
        simp only [branchesOf, hk, if_false, ih, true_and, if_true, and_self]
      · by_cases hd : d.path = p' ∧ d.blob = x'
        · simp [branchesOf, h, hd]
        · simp only [branchesOf, hd, if_false, ih, h]

/-- entry `e` puts branch `b` on key (p, x) -/
def TEntry.hits (ig : Path → Bool) (p : Path) (x : Blob) (e : TEntry) : Bool :=
  e.path == p && e.hash == x && e.indexed && !ig e.path

theorem branchesOf_handleEntry (ig : Path → Bool) (b : Branch) (m : Files) (e : TEntry) (p : Path) (x : Blob) :
    branchesOf (handleEntry ig b m e) p x = branchesOf m p x ++ (if e.hits ig p x then [b] else []) := by
  unfold handleEntry TEntry.hits
  by_cases h1 : e.indexed = true
  · cases hig : ig e.path
    · simp only [h1, if_true, Bool.false_eq_true, if_false, branchesOf_addBranch]
      by_cases h : e.path = p ∧ e.hash = x
      · obtain ⟨rfl, rfl⟩ := h; simp [hig]
      · have : (e.path == p && e.hash == x) = false := by
          simp only [Bool.and_eq_false_imp, beq_iff_eq, beq_eq_false_iff_ne]
          intro hp hx; exact h ⟨hp, hx⟩
        simp [h, this]
    · simp [h1, hig]
  · simp [h1]

theorem branchesOf_collectFiles (ig : Path → Bool) (b : Branch) (es : List TEntry) (m : Files) (p : Path)
    (x : Blob) :
    branchesOf (collectFiles m b ig es) p x =
      branchesOf m p x ++ (es.filter (TEntry.hits ig p x)).map (fun _ => b) := by
  unfold collectFiles
  induction es generalizing m with
  | nil => simp
  | cons e es ih =>
    rw [List.foldl_cons, ih, branchesOf_handleEntry]
    by_cases h : e.hits ig p x = true <;> simp [List.filter_cons, h]

/-- in a tree with distinct paths at most one entry hits a key -/
theorem hits_le_one (ig : Path → Bool) (p : Path) (x : Blob) (es : List TEntry)
    (hnd : (es.map (·.path)).Nodup) : (es.filter (TEntry.hits ig p x)).length ≤ 1 := by
  induction es with
  | nil => simp
  | cons e es ih =>
    simp only [List.map_cons, List.nodup_cons] at hnd
    by_cases h : e.hits ig p x = true
    · have hnone : es.filter (TEntry.hits ig p x) = [] := by
        apply List.filter_eq_nil_iff.mpr
        intro e' he' hh
        apply hnd.1
        have h1 : e.path = p := by
          simp only [TEntry.hits, Bool.and_eq_true, beq_iff_eq] at h; exact h.1.1.1
        have h2 : e'.path = p := by
          simp only [TEntry.hits, Bool.and_eq_true, beq_iff_eq] at hh; exact hh.1.1.1
        exact List.mem_map.mpr ⟨e', he', h2.trans h1.symm⟩
      simp [List.filter_cons, h, hnone]
    · simp only [List.filter_cons, h, Bool.false_eq_true, if_false]
      exact ih hnd.2

theorem branchesOf_collectFiles_nodup (t : BranchTree) (m : Files) (p : Path) (x : Blob)
    (hnd : (t.entries.map (·.path)).Nodup) :
    branchesOf (collectFiles m t.name t.ig t.entries) p x =
      branchesOf m p x ++ (if t.contains p x then [t.name] else []) := by
  rw [branchesOf_collectFiles]
  congr 1
  have hle := hits_le_one t.ig p x t.entries hnd
  by_cases hc : t.contains p x = true
  · rw [if_pos hc]
    have hex : ∃ e ∈ t.entries, e.hits t.ig p x = true := by
      unfold BranchTree.contains at hc
      simp only [Bool.and_eq_true, List.any_eq_true, beq_iff_eq, Bool.not_eq_true'] at hc
      obtain ⟨⟨e, he, ⟨h1, h2⟩, h3⟩, h4⟩ := hc
      refine ⟨e, he, ?_⟩
      simp [TEntry.hits, h1, h2, h3, h4]
    obtain ⟨e, he, hh⟩ := hex
    have hmem : e ∈ t.entries.filter (TEntry.hits t.ig p x) := List.mem_filter.mpr ⟨he, hh⟩
    cases hf : t.entries.filter (TEntry.hits t.ig p x) with
    | nil => rw [hf] at hmem; simp at hmem
    | cons a r =>
      rw [hf] at hle
      cases r with
      | nil => simp
      | cons _ _ => simp at hle
  · rw [if_neg hc]
    have : t.entries.filter (TEntry.hits t.ig p x) = [] := by
      apply List.filter_eq_nil_iff.mpr
      intro e he hh
      apply hc
      unfold BranchTree.contains
      simp only [TEntry.hits, Bool.and_eq_true, beq_iff_eq, Bool.not_eq_true'] at hh
      simp only [Bool.and_eq_true, List.any_eq_true, beq_iff_eq, Bool.not_eq_true']
      obtain ⟨⟨⟨h1, h2⟩, h3⟩, h4⟩ := hh
      exact ⟨⟨e, he, ⟨h1, h2⟩, h3⟩, by rw [← h1]; exact h4⟩
    simp [this]

theorem branchesOf_collectAll_aux (ts : List BranchTree) (hnd : ∀ t ∈ ts, (t.entries.map (·.path)).Nodup)
    (m : Files) (p : Path) (x : Blob) :
    branchesOf (ts.foldl (fun m t => collectFiles m t.name t.ig t.entries) m) p x =
      branchesOf m p x ++ (ts.filter (·.contains p x)).map (·.name) := by
  induction ts generalizing m with
  | nil => simp
  | cons t ts ih =>
    rw [List.foldl_cons, ih (fun t' ht' => hnd t' (List.mem_cons_of_mem _ ht')),
      branchesOf_collectFiles_nodup t m p x (hnd t (by simp))]
    by_cases hc : t.contains p x = true <;> simp [List.filter_cons, hc]

theorem countP_key_eq_one (m : Files) (h : KeysPW m) (d : Doc) (hd : d ∈ m) :
    m.countP (fun d' => d'.path == d.path && d'.blob == d.blob) = 1 := by
  induction m with
  | nil => simp at hd
  | cons e r ih =>
    unfold KeysPW at h
    rw [List.pairwise_cons] at h
    rw [List.countP_cons]
    rcases List.mem_cons.mp hd with rfl | hd
    · have : r.countP (fun d' => d'.path == d.path && d'.blob == d.blob) = 0 := by
        apply List.countP_eq_zero.mpr
        intro d' hd'
        have := h.1 d' hd'
        simp only [Bool.and_eq_true, beq_iff_eq]
        intro hh; exact this ⟨hh.1.symm, hh.2.symm⟩
      simp [this]
    · have hne : ¬ ((e.path == d.path && e.blob == d.blob) = true) := by
        simp only [Bool.and_eq_true, beq_iff_eq]
        exact h.1 d hd
      simp [hne, ih h.2 hd]

theorem branchesOf_of_mem (m : Files) (h : KeysPW m) (d : Doc) (hd : d ∈ m) :
    branchesOf m d.path d.blob = d.branches := by
  induction m with
  | nil => simp at hd
  | cons e r ih =>
    unfold KeysPW at h
    rw [List.pairwise_cons] at h
    unfold branchesOf
    rcases List.mem_cons.mp hd with rfl | hd
    · simp
    · have hne : ¬ (e.path = d.path ∧ e.blob = d.blob) := h.1 d hd
      rw [if_neg hne]
      exact ih h.2 hd

/-! slab -/

/-- region `r` was handed out by slab state `s` or a later one -/
def Later (s : Slab) (r : Region) : Prop :=
  match r.buf with
  | .own i => s.serial ≤ i
  | .slab g => (g = s.gen ∧ s.len ≤ r.off) ∨ s.gen < g

theorem disjoint_of_ne (a b : Region) (h : a.buf ≠ b.buf) : a.disjoint b = true := by
  unfold Region.disjoint; simp [h]

theorem disjoint_of_le (a b : Region) (h : a.off + a.cap ≤ b.off) : a.disjoint b = true := by
  unfold Region.disjoint; simp [h]

theorem allocs_step (s s' : Slab) (r0 : Region) (ns : List Nat) (hr0 : r0.cap = r0.len ∧ Later s r0)
    (hmono : ∀ r, Later s' r → Later s r) (hsep : ∀ r, Later s' r → r0.disjoint r = true)
    (ih : (∀ r ∈ s'.allocs ns, r.cap = r.len ∧ Later s' r) ∧
      (s'.allocs ns).Pairwise (fun a b => a.disjoint b = true)) :
    (∀ r ∈ r0 :: s'.allocs ns, r.cap = r.len ∧ Later s r) ∧
      (r0 :: s'.allocs ns).Pairwise (fun a b => a.disjoint b = true) := by
  obtain ⟨ih1, ih2⟩ := ih
  refine ⟨?_, ?_⟩
  · intro r hr
    rcases List.mem_cons.mp hr with rfl | hr
    · exact hr0
    · exact ⟨(ih1 r hr).1, hmono r (ih1 r hr).2⟩
  · rw [List.pairwise_cons]
    exact ⟨fun r hr => hsep r (ih1 r hr).2, ih2⟩

theorem allocs_spec (s : Slab) (h : s.len ≤ s.cap) (ns : List Nat) :
    (∀ r ∈ s.allocs ns, r.cap = r.len ∧ Later s r) ∧
    (s.allocs ns).Pairwise (fun a b => a.disjoint b = true) := by
  induction ns generalizing s with
  | nil => simp [Slab.allocs]
  | cons n ns ih =>
    unfold Slab.allocs
    unfold Slab.alloc
    by_cases h1 : n > s.cap
    · simp only [h1, if_true]
      refine allocs_step s { s with serial := s.serial + 1 } ⟨.own s.serial, 0, n, n⟩ ns
        ⟨rfl, by simp [Later]⟩ ?_ ?_ (ih _ h)
      · intro r hl
        unfold Later at hl ⊢
        cases hb : r.buf <;> simp only [hb] at hl ⊢ <;> omega
      · intro r hl
        apply disjoint_of_ne
        unfold Later at hl
        cases hb : r.buf with
        | own i => simp only [hb] at hl; simp; omega
        | slab g => simp
    · by_cases h2 : s.len + n > s.cap
      · simp only [h1, h2, if_true, if_false]
        refine allocs_step s { s with gen := s.gen + 1, len := n } ⟨.slab (s.gen + 1), 0, n, n⟩ ns
          ⟨rfl, by simp [Later]⟩ ?_ ?_ (ih _ (by simp; omega))
        · intro r hl
          unfold Later at hl ⊢
          cases hb : r.buf <;> simp only [hb] at hl ⊢ <;> omega
        · intro r hl
          unfold Later at hl
          cases hb : r.buf with
          | own i => apply disjoint_of_ne; simp [hb]
          | slab g =>
            simp only [hb] at hl
            rcases hl with ⟨hg, hoff⟩ | hg
            · apply disjoint_of_le; simpa using hoff
            · apply disjoint_of_ne; simp [hb]; omega
      · simp only [h1, h2, if_false]
        refine allocs_step s { s with len := s.len + n } ⟨.slab s.gen, s.len, n, n⟩ ns
          ⟨rfl, by simp [Later]⟩ ?_ ?_ (ih _ (by simp; omega))
        · intro r hl
          unfold Later at hl ⊢
          cases hb : r.buf <;> simp only [hb] at hl ⊢ <;> omega
        · intro r hl
          unfold Later at hl
          cases hb : r.buf with
          | own i => apply disjoint_of_ne; simp [hb]
          | slab g =>
            simp only [hb] at hl
            rcases hl with ⟨hg, hoff⟩ | hg
            · apply disjoint_of_le; simpa using hoff
            · apply disjoint_of_ne; simp [hb]; omega

theorem checkRegions_of (rs : List Region) (h1 : ∀ r ∈ rs, r.cap = r.len)
    (h2 : rs.Pairwise (fun a b => a.disjoint b = true)) : checkRegions rs = true := by
  induction rs with
  | nil => rfl
  | cons a rest ih =>
    rw [List.pairwise_cons] at h2
    unfold checkRegions
    simp only [Bool.and_eq_true, decide_eq_true_eq, List.all_eq_true]
    exact ⟨⟨h1 a (by simp), h2.1⟩, ih (fun r hr => h1 r (List.mem_cons_of_mem _ hr)) h2.2⟩

theorem checkRegions_allocs (s : Slab) (h : s.len ≤ s.cap) (ns : List Nat) : checkRegions (s.allocs ns) = true := by
  obtain ⟨h1, h2⟩ := allocs_spec s h ns
  exact checkRegions_of _ (fun r hr => (h1 r hr).1) h2

/-! glob -/

theorem gmatch_dstar (s : Bytes) : gmatch [Tok.dstar] s = true := by
  induction s with
  | nil => simp [gmatch]
  | cons c r ih => rw [gmatch]; simp [ih]

theorem gmatch_lits_dstar (l s : Bytes) : gmatch (l.map Tok.lit ++ [Tok.dstar]) s = l.isPrefixOf s := by
  induction l generalizing s with
  | nil => simp [gmatch_dstar]
  | cons c l ih =>
    cases s with
    | nil => simp [gmatch]
    | cons d r =>
      simp only [List.map_cons, List.cons_append]
      rw [gmatch]
      simp [ih, List.isPrefixOf]

/-- characters with a meaning in the glob syntax -/
def isMeta (c : UInt8) : Bool := c == 42 || c == 63 || c == 91 || c == 123 || c == 92

theorem parseSegs_plain (l : Bytes) (hm : l.any isMeta = false) (f : Nat) (hf : l.length + 1 ≤ f) :
    parseSegs f (l ++ [42, 42]) = some (l.map (fun c => Seg.tok (.lit c)) ++ [Seg.tok .dstar]) := by
  induction l generalizing f with
  | nil =>
    cases f with
    | zero => omega
    | succ f => simp [parseSegs]
  | cons c r ih =>
    simp only [List.any_cons, Bool.or_eq_false_iff] at hm
    have h42 : c ≠ 42 := by intro h; subst h; simp [isMeta] at hm
    have h63 : c ≠ 63 := by intro h; subst h; simp [isMeta] at hm
    have h91 : c ≠ 91 := by intro h; subst h; simp [isMeta] at hm
    have h123 : c ≠ 123 := by intro h; subst h; simp [isMeta] at hm
    have h92 : c ≠ 92 := by intro h; subst h; simp [isMeta] at hm
    cases f with
    | zero => simp at hf
    | succ f =>
      simp only [List.cons_append, List.map_cons]
      unfold parseSegs
      split
      all_goals first
        | (exfalso; simp_all; done)
        | skip
      rename_i heq1 heq2
      cases heq1
      cases heq2
      rw [ih hm.2 _ (by simp at hf; omega)]
      rfl

theorem expand_plain (l : Bytes) :
    expand (l.map (fun c => Seg.tok (.lit c)) ++ [Seg.tok .dstar]) = [l.map Tok.lit ++ [Tok.dstar]] := by
  induction l with
  | nil => simp [expand]
  | cons c r ih => simp [expand, ih]

theorem parsePattern_plain (l : Bytes) (hm : l.any isMeta = false) :
    parsePattern (l ++ [42, 42]) = [l.map Tok.lit ++ [Tok.dstar]] := by
  unfold parsePattern
  rw [parseSegs_plain l hm _ (by simp)]
  exact expand_plain l

theorem stripSlash_ne (a : UInt8) (r : Bytes) (h : a ≠ 47) : stripSlash (a :: r) = a :: r := by
  unfold stripSlash
  split
  · rename_i heq; injection heq with h1 _; exact absurd h1 h
  · rfl

end ZoektModel.C14
