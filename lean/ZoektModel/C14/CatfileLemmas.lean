/-
C14 — the cat-file stream machine: records, well-formedness, the between-records invariant, and the lemmas behind
`catfile_parses` (Props/C14.lean).
-/
import ZoektModel.C14.Lemmas
namespace ZoektModel.C14
open ZoektModel

/-- one record of `git cat-file --batch` output: the header line (without its LF) and, for a blob, the content -/
inductive Rec where
  | missing (hdr : Bytes)
  | excluded (hdr : Bytes)
  | blob (hdr : Bytes) (content : Bytes)

def Rec.bytes : Rec → Bytes
  | .missing h => h ++ [10]
  | .excluded h => h ++ [10]
  | .blob h c => h ++ 10 :: (c ++ [10])

def stream (rs : List Rec) : Bytes := rs.flatMap Rec.bytes

/-- well-formed record: the header has no LF and reads as what the record is; a blob header's last field is the
    content length -/
def Rec.WF : Rec → Prop
  | .missing h => 10 ∉ h ∧ hasSuffix h sufMissing = true
  | .excluded h => 10 ∉ h ∧ hasSuffix h sufMissing = false ∧ hasSuffix h sufExcluded = true
  | .blob h c => 10 ∉ h ∧ hasSuffix h sufMissing = false ∧ hasSuffix h sufExcluded = false ∧
      ∃ f, afterLastSpace h = some f ∧ atoi f = some (c.length : Int)

/-- what `Next` must answer for a record -/
def Rec.answer : Rec → NextRes
  | .missing _ => .missing
  | .excluded _ => .excluded
  | .blob _ c => .blob c.length

theorem splitAtNL_append (h rest : Bytes) (hh : 10 ∉ h) : splitAtNL (h ++ 10 :: rest) = some (h, rest) := by
  induction h with
  | nil => simp [splitAtNL]
  | cons a t ih =>
    have ha : a ≠ 10 := by intro e; apply hh; simp [e]
    have ht : 10 ∉ t := by intro e; apply hh; simp [e]
    simp only [List.cons_append]
    unfold splitAtNL
    split
    · rename_i heq; cases heq
    · rename_i heq; injection heq with h1 h2; exact absurd h1 ha
    · rename_i c r hne heq
      injection heq with h1 h2
      subst h1 h2
      rw [ih ht]; rfl

/-- the reader is between records: either exactly at a header, or inside / right after the content of a blob whose
    unread remainder (and trailing LF) is still pending -/
def Between (s : CF) (rs : List Rec) : Prop :=
  (s.pending = 0 ∧ s.inp = stream rs) ∨
  ∃ (c : Bytes) (j : Nat), j ≤ c.length ∧ s.pending = ((c.length - j + 1 : Nat) : Int) ∧
    s.inp = c.drop j ++ 10 :: stream rs

/-- the reader state after `Next` has consumed the header of `r` (`rest` = the stream after the record) -/
def Rec.after (r : Rec) (rest : Bytes) (pend : Int) : CF :=
  match r with
  | .blob _ c => ⟨c ++ 10 :: rest, (c.length : Int) + 1⟩
  | _ => ⟨rest, pend⟩

theorem nextHeader_rec (r : Rec) (hr : r.WF) (rest : Bytes) (pend : Int) :
    nextHeader ⟨r.bytes ++ rest, pend⟩ = (r.answer, r.after rest pend) := by
  cases r with
  | missing h =>
    obtain ⟨h1, h2⟩ := hr
    unfold nextHeader
    simp only [Rec.bytes, List.append_assoc, List.singleton_append]
    rw [splitAtNL_append h rest h1]
    simp [h2, Rec.answer, Rec.after]
  | excluded h =>
    obtain ⟨h1, h2, h3⟩ := hr
    unfold nextHeader
    simp only [Rec.bytes, List.append_assoc, List.singleton_append]
    rw [splitAtNL_append h rest h1]
    simp [h2, h3, Rec.answer, Rec.after]
  | blob h c =>
    obtain ⟨h1, h2, h3, f, h4, h5⟩ := hr
    unfold nextHeader
    simp only [Rec.bytes, List.append_assoc, List.cons_append, List.nil_append]
    rw [splitAtNL_append h _ h1]
    simp [h2, h3, h4, h5, Rec.answer, Rec.after]

theorem stream_cons (r : Rec) (rs : List Rec) : stream (r :: rs) = r.bytes ++ stream rs := by
  simp [stream]

theorem drop_pending (c : Bytes) (j : Nat) (hj : j ≤ c.length) (X : Bytes) :
    (c.drop j ++ 10 :: X).drop (c.length - j + 1) = X := by
  have h1 : c.length - j + 1 = (c.drop j).length + 1 := by simp
  rw [h1, List.drop_append]
  rw [List.drop_eq_nil_of_le (by omega)]
  have : (c.drop j).length + 1 - (c.drop j).length = 1 := by omega
  rw [this]; rfl

/-- **Next is synchronised**: from any between-records state, `Next` answers the next record's header and leaves
    the reader at that record's content (blob) or at the following header -/
theorem next_between (s : CF) (r : Rec) (rs : List Rec) (hr : r.WF) (hb : Between s (r :: rs)) :
    next s = (r.answer, r.after (stream rs) 0) := by
  obtain ⟨inp, pend⟩ := s
  rcases hb with ⟨hp, hi⟩ | ⟨c, j, hj, hp, hi⟩
  · simp only at hp hi
    subst hp hi
    unfold next
    simp only [show ¬ ((0 : Int) > 0) by omega, if_false]
    rw [stream_cons, nextHeader_rec r hr]
  · simp only at hp hi
    subst hp hi
    unfold next
    have hpos : (((c.length - j + 1 : Nat) : Int) > 0) := by omega
    have htn : ((c.length - j + 1 : Nat) : Int).toNat = c.length - j + 1 := by omega
    simp only [hpos, if_true, htn]
    have hlen : ¬ (c.drop j ++ 10 :: stream (r :: rs)).length < c.length - j + 1 := by
      simp
    rw [if_neg hlen, drop_pending c j hj, stream_cons, nextHeader_rec r hr]

/-- the state inside a blob's content after `j` bytes have been delivered -/
def midState (c X : Bytes) (j : Nat) : CF := ⟨c.drop j ++ 10 :: X, ((c.length - j + 1 : Nat) : Int)⟩

/-- **one Read, any chunking**: inside a blob's content, whatever the buffer length `plen ≥ 1` and whatever the
    buffered reader hands out (`k`), `Read` delivers a non-empty prefix of the unread content, never touches the
    trailing LF or the next header, and consumes the LF exactly when the content is exhausted -/
theorem read_mid (c X : Bytes) (j : Nat) (hj : j < c.length) (plen k : Nat) (hp : 1 ≤ plen) :
    ∃ n, 1 ≤ n ∧ n ≤ c.length - j ∧ n ≤ plen ∧
      read (midState c X j) plen k =
        ((c.drop j).take n, .ok, if j + n = c.length then ⟨X, 0⟩ else midState c X (j + n)) := by
  have hlen : (c.drop j ++ 10 :: X).length = c.length - j + 1 + X.length := by simp; omega
  refine ⟨max 1 (min k (min (min plen (c.length - j)) ((c.drop j ++ 10 :: X).length))), Nat.le_max_left _ _,
    by rw [hlen]; omega, by rw [hlen]; omega, ?_⟩
  unfold read midState
  have h1 : ¬ (((c.length - j + 1 : Nat) : Int) ≤ 0) := by omega
  have h2 : ¬ (((c.length - j + 1 : Nat) : Int) = 1) := by omega
  have h3 : ((c.length - j + 1 : Nat) : Int).toNat - 1 = c.length - j := by omega
  simp only [h1, h2, if_false, h3]
  have h4 : (c.drop j ++ 10 :: X).isEmpty = false := by simp
  have h5 : ¬ (min plen (c.length - j) = 0) := by omega
  simp only [h4, h5, if_false, Bool.false_eq_true]
  have hn1 : 1 ≤ max 1 (min k (min (min plen (c.length - j)) ((c.drop j ++ 10 :: X).length))) := Nat.le_max_left _ _
  have hn2 : max 1 (min k (min (min plen (c.length - j)) ((c.drop j ++ 10 :: X).length))) ≤ c.length - j := by
    rw [hlen]; omega
  generalize max 1 (min k (min (min plen (c.length - j)) ((c.drop j ++ 10 :: X).length))) = n at hn1 hn2 ⊢
  have htake : List.take n (c.drop j ++ 10 :: X) = (c.drop j).take n := by
    rw [List.take_append_of_le_length (by simp; omega)]
  have hdrop : List.drop n (c.drop j ++ 10 :: X) = c.drop (j + n) ++ 10 :: X := by
    rw [List.drop_append_of_le_length (by simp; omega), List.drop_drop]
  rw [htake, hdrop]
  by_cases hend : j + n = c.length
  · have hnil : c.drop (j + n) = [] := List.drop_eq_nil_of_le (by omega)
    rw [if_pos hend, hnil]
    split
    · rfl
    · rename_i hne; exfalso; apply hne; omega
  · rw [if_neg hend]
    split
    · rename_i he; exfalso; omega
    · simp only [Prod.mk.injEq, CF.mk.injEq, true_and]
      omega

/-- **ReadFull, any chunking**: reading a blob's remaining content with `io.ReadFull` yields exactly those bytes,
    for every schedule of chunk sizes, and leaves the reader between records -/
theorem readFull_mid (c X : Bytes) (fuel : Nat) (j : Nat) (hj : j ≤ c.length) (hfuel : c.length - j ≤ fuel)
    (sched : List Nat) (acc : Bytes) :
    readFull fuel (midState c X j) (c.length - j) sched acc =
      (acc ++ c.drop j, true, if j = c.length then midState c X j else ⟨X, 0⟩) := by
  induction fuel generalizing j sched acc with
  | zero =>
    have : c.length - j = 0 := by omega
    have hj' : j = c.length := by omega
    unfold readFull
    simp [this, hj']
  | succ fuel ih =>
    unfold readFull
    by_cases h0 : c.length - j = 0
    · have hj' : j = c.length := by omega
      simp [h0, hj']
    · simp only [h0, if_false]
      obtain ⟨n, hn1, hn2, _, hread⟩ := read_mid c X j (by omega) (c.length - j) (sched.headD 1) (by omega)
      rw [hread]
      have hdl : ((c.drop j).take n).length = n := by simp; omega
      simp only [hdl]
      have hjne : ¬ j = c.length := by omega
      by_cases hge : n ≥ c.length - j
      · have hn : j + n = c.length := by omega
        have : (c.drop j).take n = c.drop j := List.take_of_length_le (by simp; omega)
        simp [hge, hn, this, hjne]
      · have hn : ¬ j + n = c.length := by omega
        have hne : ((c.drop j).take n).isEmpty = false := by
          cases h : (c.drop j).take n with
          | nil => rw [h] at hdl; simp at hdl; omega
          | cons _ _ => rfl
        simp only [hge, if_false, hn, hne, Bool.false_eq_true, ne_eq, not_true_eq_false]
        have hrem : c.length - j - n = c.length - (j + n) := by omega
        rw [hrem, ih (j + n) (by omega) (by omega)]
        have : ¬ j + n = c.length := hn
        simp only [this, if_false, hjne, List.append_assoc]
        congr 2
        rw [← List.drop_drop, List.take_append_drop]

theorem between_midState (c : Bytes) (rs : List Rec) (j : Nat) (hj : j ≤ c.length) :
    Between (midState c (stream rs) j) rs :=
  Or.inr ⟨c, j, hj, rfl, rfl⟩

theorem between_sync (rs : List Rec) : Between ⟨stream rs, 0⟩ rs := Or.inl ⟨rfl, rfl⟩

/-- the documents `indexCatfileBlobs` must build for a list of records -/
def expectedDoc (sizeMax : Nat) (allow : Bool) : Rec → DocOut
  | .missing _ => ⟨[], .missing⟩
  | .excluded _ => ⟨[], .tooLarge⟩
  | .blob _ c => if c.length > sizeMax && !allow then ⟨[], .tooLarge⟩ else ⟨c, .none⟩

/-- **catfile_parses** — for every well-formed stream of records, every size limit and pattern of large-file
    exceptions (i.e. every pattern of read-fully / skip decisions), every chunk schedule, and from every
    between-records state: the i-th `Next` returns the i-th record's header, the bytes `ReadFull` delivers are
    exactly its content (including size 0, and a skipped blob followed by another record), no error occurs -/
theorem catfileDocs_between (sizeMax : Nat) (rs : List Rec) (allows : List Bool) (hlen : allows.length = rs.length)
    (hwf : ∀ r ∈ rs, r.WF) (s : CF) (hb : Between s rs) (sched : List Nat) :
    catfileDocs sizeMax s allows sched = ((rs.zip allows).map fun p => expectedDoc sizeMax p.2 p.1, true) := by
  induction rs generalizing s allows sched with
  | nil =>
    cases allows with
    | nil => simp [catfileDocs]
    | cons _ _ => simp at hlen
  | cons r rs ih =>
    cases allows with
    | nil => simp at hlen
    | cons allow allows =>
      have hlen' : allows.length = rs.length := by simpa using hlen
      have hwf' : ∀ r ∈ rs, r.WF := fun r hr => hwf r (List.mem_cons_of_mem _ hr)
      have hnext := next_between s r rs (hwf r (by simp)) hb
      unfold catfileDocs
      cases r with
      | missing h =>
        simp only [hnext, Rec.answer, Rec.after]
        rw [ih allows hlen' hwf' _ (between_sync rs)]
        simp [expectedDoc, catfileDoc]
      | excluded h =>
        simp only [hnext, Rec.answer, Rec.after]
        rw [ih allows hlen' hwf' _ (between_sync rs)]
        simp [expectedDoc, catfileDoc]
      | blob h c =>
        simp only [hnext, Rec.answer, Rec.after]
        have hmid : (⟨c ++ 10 :: stream rs, (c.length : Int) + 1⟩ : CF) = midState c (stream rs) 0 := by
          simp [midState]
        by_cases hbig : (decide ((c.length : Int) > (sizeMax : Int)) && !allow) = true
        · simp only [hbig, if_true]
          rw [hmid, ih allows hlen' hwf' _ (between_midState c rs 0 (by omega))]
          have hh : sizeMax < c.length ∧ allow = false := by
            simp only [Bool.and_eq_true, decide_eq_true_eq, Bool.not_eq_true'] at hbig
            exact ⟨by omega, hbig.2⟩
          simp [expectedDoc, catfileDoc, hh.1, hh.2]
        · have hneg : ¬ ((c.length : Int) < 0) := by omega
          simp only [hbig, if_false, hneg, Bool.false_eq_true]
          have htn : (c.length : Int).toNat = c.length := by omega
          rw [htn, hmid]
          have hrf := readFull_mid c (stream rs) c.length 0 (by omega) (by omega) sched []
          simp only [Nat.sub_zero, List.drop_zero, List.nil_append] at hrf
          rw [hrf]
          have hb' : Between (if 0 = c.length then midState c (stream rs) 0 else ⟨stream rs, 0⟩) rs := by
            split
            · exact between_midState c rs 0 (by omega)
            · exact between_sync rs
          simp only [Bool.not_true, Bool.false_eq_true, if_false]
          rw [ih allows hlen' hwf' _ hb']
          have hh : sizeMax < c.length → allow = true := by
            intro h1
            cases allow with
            | true => rfl
            | false =>
              exfalso; apply hbig
              simp only [Bool.and_eq_true, decide_eq_true_eq]
              exact ⟨by omega, rfl⟩
          simp [expectedDoc, catfileDoc]

/-! what git prints is well-formed: `<anything without LF> <decimal size>` -/

theorem isDigit_ne (d c : UInt8) (hd : isDigit d = true) (hc : isDigit c = false) : d ≠ c := by
  intro h; subst h; rw [hd] at hc; cases hc

theorem go_cons_ne (a : UInt8) (r : Bytes) (b : Option Bytes) (h : a ≠ 32) :
    afterLastSpace.go (a :: r) b = afterLastSpace.go r b := by
  rw [afterLastSpace.go]
  exact h

theorem go_cons_space (r : Bytes) (b : Option Bytes) :
    afterLastSpace.go (32 :: r) b = afterLastSpace.go r (some r) := by
  rw [afterLastSpace.go]

theorem go_nospace (l : Bytes) (best : Option Bytes) (h : 32 ∉ l) : afterLastSpace.go l best = best := by
  induction l generalizing best with
  | nil => rfl
  | cons a t ih =>
    have ha : a ≠ 32 := by intro e; apply h; simp [e]
    have ht : 32 ∉ t := by intro e; apply h; simp [e]
    rw [go_cons_ne a t best ha]; exact ih _ ht

theorem go_append_space (a ds : Bytes) (best : Option Bytes) (h : 32 ∉ ds) :
    afterLastSpace.go (a ++ 32 :: ds) best = some ds := by
  induction a generalizing best with
  | nil =>
    simp only [List.nil_append]
    rw [go_cons_space]
    exact go_nospace ds _ h
  | cons x t ih =>
    simp only [List.cons_append]
    by_cases hx : x = 32
    · subst hx; rw [go_cons_space]; exact ih _
    · rw [go_cons_ne x _ best hx]; exact ih _

theorem digits_no (ds : Bytes) (hd : ds.all isDigit = true) (c : UInt8) (hc : isDigit c = false) : c ∉ ds := by
  intro hm
  have := List.all_eq_true.mp hd c hm
  rw [this] at hc; cases hc

theorem hasSuffix_digit_false (pre ds suf : Bytes) (g : UInt8) (sufInit : Bytes) (hs : suf = sufInit ++ [g])
    (hg : isDigit g = false) (hne : ds ≠ []) (hd : ds.all isDigit = true) :
    hasSuffix (pre ++ 32 :: ds) suf = false := by
  unfold hasSuffix
  subst hs
  obtain ⟨init, last, rfl⟩ : ∃ init last, ds = init ++ [last] := by
    cases h : ds.reverse with
    | nil => simp at h; exact absurd h hne
    | cons l r => exact ⟨r.reverse, l, by rw [← List.reverse_reverse ds, h]; simp⟩
  have hl : isDigit last = true := List.all_eq_true.mp hd last (by simp)
  have : g ≠ last := fun e => by subst e; rw [hl] at hg; cases hg
  simp [List.isPrefixOf, this]

theorem atoi_digits (ds : Bytes) (hne : ds ≠ []) (hd : ds.all isDigit = true)
    (hsmall : digitsVal ds 0 ≤ 9223372036854775807) : atoi ds = some (digitsVal ds 0 : Int) := by
  cases ds with
  | nil => exact absurd rfl hne
  | cons a t =>
    have ha : isDigit a = true := List.all_eq_true.mp hd a (by simp)
    have h45 : a ≠ 45 := isDigit_ne a 45 ha (by decide)
    have h43 : a ≠ 43 := isDigit_ne a 43 ha (by decide)
    unfold atoi
    split
    rename_i neg ds heq
    split at heq
    · simp_all
    · simp_all
    · cases heq
      simp only [hd, List.isEmpty_cons, Bool.false_or, Bool.not_true, Bool.false_eq_true, if_false]
      have : ¬ digitsVal (a :: t) 0 > 9223372036854775807 := by omega
      simp [this]

/-- a blob record as git prints it — any LF-free prefix, a space, the content length in decimal — is well-formed -/
theorem blob_record_wf (pre ds c : Bytes) (hpre : 10 ∉ pre) (hne : ds ≠ []) (hd : ds.all isDigit = true)
    (hv : digitsVal ds 0 = c.length) (hsmall : c.length ≤ 9223372036854775807) :
    (Rec.blob (pre ++ 32 :: ds) c).WF := by
  refine ⟨?_, ?_, ?_, ds, ?_, ?_⟩
  · intro hm
    rcases List.mem_append.mp hm with h | h
    · exact hpre h
    · rcases List.mem_cons.mp h with h | h
      · cases h
      · exact digits_no ds hd 10 (by decide) h
  · exact hasSuffix_digit_false pre ds sufMissing 103 [32, 109, 105, 115, 115, 105, 110] rfl (by decide) hne hd
  · exact hasSuffix_digit_false pre ds sufExcluded 100 [32, 101, 120, 99, 108, 117, 100, 101] rfl (by decide) hne hd
  · unfold afterLastSpace
    exact go_append_space pre ds none (digits_no ds hd 32 (by decide))
  · rw [atoi_digits ds hne hd (by omega), hv]

end ZoektModel.C14
