/-
C14 — model of Git indexing of the branch trees:

* `gitindex/tree.go` `RepoWalker.CollectFiles` / `handleEntry` (`handleEntry`, `collectFiles`, `collectAll`): mode
  filter (regular, executable, symlink are indexed; submodule links, directories and anything else are not),
  ignore matcher, branch merging per (path, blob) key (`addBranch`, shared with C13),
* `ignore/ignore.go` `ParseIgnoreFile`, `Matcher.Match` (`parseIgnore`, `ignoreMatch`) over a model of
  gobwas/glob with separator '/' (`parsePattern`, `gmatch`): literals, escapes, `?`, `*`, `**`, character classes
  and brace alternatives of literal text,
* `gitindex/catfile.go` `catfileReader.Next`, `Read` and `io.ReadFull` over it (`next`, `read`, `readFull`): the
  stream is what remains to be read from `git cat-file --batch`; how many bytes one `bufio.Reader.Read` returns is
  a parameter (`k`) of every read,
* `gitindex/slab.go` `contentSlab.alloc` (`Slab.alloc`),
* `gitindex/index.go` `indexCatfileBlobs` (`catfileDocs`) and `createDocument` (`gogitDoc`), followed by the
  skip decisions of `index.Builder.Add` / `DocChecker.Check` that apply to small documents (`builderAdd`).
-/
import ZoektModel.Basic.Bytes
import ZoektModel.C13.Model
namespace ZoektModel.C14
open ZoektModel ZoektModel.C13

/-! ## tree walk -/

/-- one entry of the tree walk: mode 0 regular, 1 executable, 2 symlink, 3 submodule link, 4 directory, 5 other -/
structure TEntry where
  path : Path
  hash : Blob
  mode : Nat
  deriving Repr, DecidableEq

def TEntry.indexed (e : TEntry) : Bool := e.mode == 0 || e.mode == 1 || e.mode == 2

/-- `handleEntry` without the submodule bookkeeping (`subRepoVersions`, repo cache) -/
def handleEntry (ig : Path → Bool) (b : Branch) (m : Files) (e : TEntry) : Files :=
  if e.indexed then
    if ig e.path then m else addBranch m e.path e.hash b
  else m

/-- `CollectFiles` for one branch -/
def collectFiles (m : Files) (b : Branch) (ig : Path → Bool) (es : List TEntry) : Files :=
  es.foldl (handleEntry ig b) m

/-- one indexed branch: name, its ignore matcher, the entries of its tree walk -/
structure BranchTree where
  name : Branch
  ig : Path → Bool
  entries : List TEntry

/-- `prepareNormalBuild`'s loop over the branches -/
def collectAll (ts : List BranchTree) : Files :=
  ts.foldl (fun m t => collectFiles m t.name t.ig t.entries) []

/-! ## ignore files -/

inductive Tok where
  | lit (c : UInt8)
  | any1      -- `?`: one non-separator character
  | star      -- `*`: any run of non-separator characters
  | dstar     -- `**`: any run of characters
  | cls (neg : Bool) (items : List (UInt8 × UInt8))  -- `[a-cx]` / `[!…]`: one character in (not in) the ranges
  deriving Repr, DecidableEq

def sep : UInt8 := 47 -- '/'

def inClass (items : List (UInt8 × UInt8)) (d : UInt8) : Bool := items.any fun r => r.1 ≤ d && d ≤ r.2

/-- does the whole of `s` match the token list -/
def gmatch : List Tok → Bytes → Bool
  | [], s => s.isEmpty
  | .lit c :: ps, s =>
    match s with
    | d :: r => c == d && gmatch ps r
    | [] => false
  | .any1 :: ps, s =>
    match s with
    | d :: r => d != sep && gmatch ps r
    | [] => false
  | .cls neg items :: ps, s =>
    match s with
    | d :: r => (inClass items d != neg) && gmatch ps r   -- a class may match the separator (gobwas does)
    | [] => false
  | .star :: ps, s =>
    gmatch ps s ||
    match s with
    | d :: r => d != sep && gmatch (.star :: ps) r
    | [] => false
  | .dstar :: ps, s =>
    gmatch ps s ||
    match s with
    | _ :: r => gmatch (.dstar :: ps) r
    | [] => false
termination_by ps s => ps.length + s.length

/-! the pattern syntax of gobwas/glob, restricted to: literals, `\x` escapes, `?`, `*`, `**`, character classes
    `[…]` / `[!…]` with ranges, and brace alternatives `{a,b}` of literal text (no wildcard or nesting inside braces:
    gobwas itself mis-evaluates some of those).  Anything else parses to `none`. -/

/-- one segment of a pattern: a token, or literal alternatives -/
inductive Seg where
  | tok (t : Tok)
  | alts (as : List Bytes)
  deriving Repr

/-- one (possibly escaped) character of a class -/
def classChar : Bytes → Option (UInt8 × Bytes)
  | 92 :: c :: r => some (c, r)
  | 92 :: [] => none
  | c :: r => some (c, r)
  | [] => none

/-- the items of a class up to its closing `]` -/
def parseClass : Nat → Bytes → List (UInt8 × UInt8) → Option (List (UInt8 × UInt8) × Bytes)
  | 0, _, _ => none
  | _, [], _ => none
  | _, 93 :: r, acc => if acc.isEmpty then none else some (acc.reverse, r)
  | f + 1, s, acc =>
    match classChar s with
    | none => none
    | some (lo, 45 :: r2) =>
      (match r2 with
       | 93 :: _ => none
       | _ =>
         match classChar r2 with
         | some (hi, r3) => parseClass f r3 ((lo, hi) :: acc)
         | none => none)
    | some (lo, r1) => parseClass f r1 ((lo, lo) :: acc)

/-- literal alternatives up to the closing `}`: `,` separates, `\` escapes -/
def parseAlts : Bytes → Bytes → List Bytes → Option (List Bytes × Bytes)
  | [], _, _ => none
  | 125 :: r, cur, acc => some ((cur.reverse :: acc).reverse, r)
  | 44 :: r, cur, acc => parseAlts r [] (cur.reverse :: acc)
  | 92 :: c :: r, cur, acc => parseAlts r (c :: cur) acc
  | c :: r, cur, acc =>
    if c == 42 || c == 63 || c == 91 || c == 123 then none else parseAlts r (c :: cur) acc

def parseSegs : Nat → Bytes → Option (List Seg)
  | _, [] => some []
  | 0, _ => none
  | f + 1, 42 :: 42 :: r => (parseSegs f r).map (.tok .dstar :: ·)
  | f + 1, 42 :: r => (parseSegs f r).map (.tok .star :: ·)
  | f + 1, 63 :: r => (parseSegs f r).map (.tok .any1 :: ·)
  | f + 1, 92 :: c :: r => (parseSegs f r).map (.tok (.lit c) :: ·)
  | _ + 1, 92 :: [] => some []
  | f + 1, 91 :: r =>
    let (neg, r') := match r with
      | 33 :: r' => (true, r')
      | _ => (false, r)
    match parseClass (r'.length + 1) r' [] with
    | some (items, rest) => (parseSegs f rest).map (.tok (.cls neg items) :: ·)
    | none => none
  | f + 1, 123 :: r =>
    match parseAlts r [] [] with
    | some (as, rest) => (parseSegs f rest).map (.alts as :: ·)
    | none => none
  | f + 1, c :: r => (parseSegs f r).map (.tok (.lit c) :: ·)

/-- brace expansion: every choice of alternatives gives one token list -/
def expand : List Seg → List (List Tok)
  | [] => [[]]
  | .tok t :: r => (expand r).map (t :: ·)
  | .alts as :: r => as.flatMap fun a => (expand r).map (a.map Tok.lit ++ ·)

/-- a compiled pattern: the token lists of its brace expansion (none outside the modelled fragment) -/
def parsePattern (l : Bytes) : List (List Tok) :=
  match parseSegs (l.length + 1) l with
  | some segs => expand segs
  | none => []

/-- `glob.Glob.Match` -/
def patMatch (pat : List (List Tok)) (s : Bytes) : Bool := pat.any fun ts => gmatch ts s

def isSpace (c : UInt8) : Bool := c == 32 || c == 9 || c == 13 || c == 10 || c == 11 || c == 12

def trimLeft : Bytes → Bytes
  | [] => []
  | c :: r => if isSpace c then trimLeft r else c :: r

/-- `strings.TrimSpace` on ASCII -/
def trimSpace (l : Bytes) : Bytes := (trimLeft (trimLeft l).reverse).reverse

def splitLines (s : Bytes) : List Bytes :=
  let rec go : Bytes → Bytes → List Bytes
    | [], acc => if acc.isEmpty then [] else [acc.reverse]
    | 10 :: r, acc => acc.reverse :: go r []
    | c :: r, acc => go r (c :: acc)
  go s []

/-- characters that switch off the implicit trailing `**`: `.][*?` -/
def isGlobChar (c : UInt8) : Bool := c == 46 || c == 93 || c == 91 || c == 42 || c == 63

/-- `strings.TrimPrefix(line, "/")` -/
def stripSlash : Bytes → Bytes
  | 47 :: r => r
  | l => l

/-- one line of the ignore file → pattern (none: blank or comment) -/
def parseLine (line : Bytes) : Option (List (List Tok)) :=
  let l := trimSpace line
  if l.isEmpty then none
  else if l.head? == some 35 then none
  else
    let l := stripSlash l
    let l := if l.any isGlobChar then l else l ++ [42, 42]
    some (parsePattern l)

/-- `ParseIgnoreFile` -/
def parseIgnore (file : Bytes) : List (List (List Tok)) := (splitLines file).filterMap parseLine

/-- `Matcher.Match` -/
def ignoreMatch (pats : List (List (List Tok))) (path : Bytes) : Bool := pats.any fun p => patMatch p path

/-! ## the cat-file stream -/

structure CF where
  inp : Bytes      -- bytes git has written and the reader has not yet consumed
  pending : Int
  deriving Repr, DecidableEq

inductive NextRes where
  | eof
  | err (cls : String)
  | missing
  | excluded
  | blob (size : Int)
  deriving Repr, DecidableEq

def isDigit (c : UInt8) : Bool := 48 ≤ c && c ≤ 57

def digitsVal : Bytes → Nat → Nat
  | [], acc => acc
  | c :: r, acc => digitsVal r (acc * 10 + (c.toNat - 48))

/-- `strconv.Atoi` -/
def atoi (s : Bytes) : Option Int :=
  let (neg, ds) := match s with
    | 45 :: r => (true, r)
    | 43 :: r => (false, r)
    | _ => (false, s)
  if ds.isEmpty || !ds.all isDigit then none
  else
    let v := digitsVal ds 0
    if neg then (if v > 9223372036854775808 then none else some (-(v : Int)))
    else (if v > 9223372036854775807 then none else some (v : Int))

def splitAtNL : Bytes → Option (Bytes × Bytes)
  | [] => none
  | 10 :: r => some ([], r)
  | c :: r => (splitAtNL r).map fun p => (c :: p.1, p.2)

def hasSuffix (s suf : Bytes) : Bool := suf.reverse.isPrefixOf s.reverse

/-- bytes after the last space (`bytes.LastIndexByte(header, ' ')`), none if there is no space -/
def afterLastSpace (h : Bytes) : Option Bytes :=
  let rec go : Bytes → Option Bytes → Option Bytes
    | [], best => best
    | 32 :: r, _ => go r (some r)
    | _ :: r, best => go r best
  go h none

def sufMissing : Bytes := [32, 109, 105, 115, 115, 105, 110, 103]       -- " missing"
def sufExcluded : Bytes := [32, 101, 120, 99, 108, 117, 100, 101, 100]  -- " excluded"

/-- `Next` after the pending bytes have been discarded -/
def nextHeader (s : CF) : NextRes × CF :=
  match splitAtNL s.inp with
  | none => (.eof, ⟨[], s.pending⟩)
  | some (header, rest) =>
    let s' : CF := ⟨rest, s.pending⟩
    if hasSuffix header sufMissing then (.missing, s')
    else if hasSuffix header sufExcluded then (.excluded, s')
    else match afterLastSpace header with
      | none => (.err "header", s')
      | some f =>
        match atoi f with
        | none => (.err "size", s')
        | some size => (.blob size, ⟨rest, size + 1⟩)

/-- `catfileReader.Next` -/
def next (s : CF) : NextRes × CF :=
  if s.pending > 0 then
    if s.inp.length < s.pending.toNat then (.err "discard", ⟨[], s.pending⟩)
    else nextHeader ⟨s.inp.drop s.pending.toNat, 0⟩
  else nextHeader s

inductive RStatus where
  | ok | eof | err
  deriving Repr, DecidableEq

/-- `catfileReader.Read(p)` with `len(p) = plen`; `k ≥ 1` bounds what the buffered reader hands out in one call -/
def read (s : CF) (plen k : Nat) : Bytes × RStatus × CF :=
  if s.pending ≤ 0 then ([], .eof, s)
  else if s.pending = 1 then
    match s.inp with
    | [] => ([], .err, s)
    | _ :: r => ([], .eof, ⟨r, 0⟩)
  else
    let want := min plen (s.pending.toNat - 1)
    if s.inp.isEmpty then ([], .eof, s)          -- the underlying reader's io.EOF
    else if want = 0 then ([], .ok, s)
    else
      let n := max 1 (min k (min want s.inp.length))
      let data := s.inp.take n
      let rest := s.inp.drop n
      let pend := s.pending - n
      if pend = 1 then
        match rest with
        | [] => (data, .err, ⟨[], 1⟩)
        | _ :: r => (data, .ok, ⟨r, 0⟩)
      else (data, .ok, ⟨rest, pend⟩)

/-- `io.ReadFull(cr, buf)` with `len(buf) = n`: reads until `n` bytes arrived or a read fails; an error that
    comes with the last missing bytes is dropped (`ReadAtLeast`).  `sched` supplies the `k` of every read
    (1 when exhausted). -/
def readFull : (fuel : Nat) → CF → Nat → List Nat → Bytes → Bytes × Bool × CF
  | 0, s, n, _, acc => (acc, decide (n = 0), s)
  | fuel + 1, s, n, sched, acc =>
    if n = 0 then (acc, true, s)
    else
      let (data, st, s') := read s n (sched.headD 1)
      let acc' := acc ++ data
      if data.length ≥ n then (acc', true, s')
      else if st ≠ .ok then (acc', false, s')
      else if data.isEmpty then (acc', false, s')   -- cannot happen with n > 0 and status ok; keeps the model total
      else readFull fuel s' (n - data.length) sched.tail acc'

/-! ## the content slab -/

inductive BufId where
  | slab (gen : Nat)    -- the gen-th buffer of the slab
  | own (serial : Nat)  -- an allocation of its own (`make([]byte, n)`)
  deriving Repr, DecidableEq

structure Region where
  buf : BufId
  off : Nat
  len : Nat
  cap : Nat
  deriving Repr, DecidableEq

structure Slab where
  cap : Nat
  gen : Nat := 0
  len : Nat := 0
  serial : Nat := 0
  deriving Repr

/-- `contentSlab.alloc(n)` for `n ≥ 0` -/
def Slab.alloc (s : Slab) (n : Nat) : Region × Slab :=
  if n > s.cap then (⟨.own s.serial, 0, n, n⟩, { s with serial := s.serial + 1 })
  else if s.len + n > s.cap then (⟨.slab (s.gen + 1), 0, n, n⟩, { s with gen := s.gen + 1, len := n })
  else (⟨.slab s.gen, s.len, n, n⟩, { s with len := s.len + n })

def Slab.allocs (s : Slab) : List Nat → List Region
  | [] => []
  | n :: ns => (s.alloc n).1 :: (s.alloc n).2.allocs ns

/-! ## documents -/

inductive Skip where
  | none | tooLarge | tooSmall | binary | missing
  deriving Repr, DecidableEq

structure DocOut where
  content : Bytes      -- empty when skipped
  skip : Skip
  deriving Repr, DecidableEq

/-- state of a blob in the object store as each reading path sees it -/
inductive BlobSt where
  | present (content : Bytes)
  | missing
  deriving Repr, DecidableEq

/-- `createDocument` (go-git path): `allowLarge` is `opts.IgnoreSizeMax(path)` -/
def gogitDoc (sizeMax : Nat) (allowLarge : Bool) : BlobSt → DocOut
  | .missing => ⟨[], .tooLarge⟩
  | .present c => if c.length > sizeMax && !allowLarge then ⟨[], .tooLarge⟩ else ⟨c, .none⟩

/-- body of `indexCatfileBlobs` for one key, given what `Next` answered and the content `ReadFull` delivers -/
def catfileDoc (sizeMax : Nat) (allowLarge : Bool) (nx : NextRes) (content : Bytes) : DocOut :=
  match nx with
  | .missing => ⟨[], .missing⟩
  | .excluded => ⟨[], .tooLarge⟩
  | .blob size => if size > sizeMax && !allowLarge then ⟨[], .tooLarge⟩ else ⟨content, .none⟩
  | _ => ⟨[], .none⟩

/-- what `git cat-file --batch [--filter=blob:limit=sizeMax+1]` answers for a blob -/
def catfileAnswer (filter : Bool) (sizeMax : Nat) : BlobSt → NextRes
  | .missing => .missing
  | .present c => if filter && c.length > sizeMax then .excluded else .blob c.length

/-- `Builder.Add` + `DocChecker.Check` for documents far below TrigramMax -/
def builderAdd (sizeMax : Nat) (allowLarge : Bool) (d : DocOut) : DocOut :=
  if d.skip ≠ .none then d
  else if d.content.length > sizeMax && !allowLarge then ⟨[], .tooLarge⟩
  else if d.content.isEmpty then d
  else if d.content.length < 3 then ⟨[], .tooSmall⟩
  else if d.content.contains 0 then ⟨[], .binary⟩
  else d

/-- `indexCatfileBlobs`: one `Next` per key; content is read only for documents that are kept.
    Each key comes with `allowLarge`; `sched` feeds the reads.  Stops at the first error. -/
def catfileDocs (sizeMax : Nat) : CF → List Bool → List Nat → List DocOut × Bool
  | _, [], _ => ([], true)
  | s, allow :: keys, sched =>
    match next s with
    | (.eof, _) => ([], false)
    | (.err _, _) => ([], false)
    | (.missing, s') =>
      let (ds, ok) := catfileDocs sizeMax s' keys sched
      (catfileDoc sizeMax allow .missing [] :: ds, ok)
    | (.excluded, s') =>
      let (ds, ok) := catfileDocs sizeMax s' keys sched
      (catfileDoc sizeMax allow .excluded [] :: ds, ok)
    | (.blob size, s') =>
      if size > sizeMax && !allow then
        let (ds, ok) := catfileDocs sizeMax s' keys sched
        (catfileDoc sizeMax allow (.blob size) [] :: ds, ok)
      else if size < 0 then ([], false)   -- `slab.alloc` of a negative size panics; never produced by git
      else
        let (data, ok1, s'') := readFull size.toNat s' size.toNat sched []
        if !ok1 then ([], false)
        else
          let (ds, ok) := catfileDocs sizeMax s'' keys (sched.drop size.toNat)
          (catfileDoc sizeMax allow (.blob size) data :: ds, ok)

end ZoektModel.C14
