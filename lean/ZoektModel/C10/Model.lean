/-
C10 — model of `Builder.Add` / `flush` / `Finish` (index/builder.go): which documents are handed to which
`buildShard` call, and of `sortDocuments` / `rank`.  The posting-buffer reuse (`postingsBuilder.reset`,
`getPostingsBuilder`) is modelled in ZoektModel/C09/Postings.lean (`PB.reset`).  Core Lean only.
-/
import ZoektModel.C09.Model
namespace ZoektModel.C10
open ZoektModel ZoektModel.C09

/-- what `Builder.Add`, `flush` and `rank` look at in a document -/
structure BDoc where
  id : Nat            -- position in the order of `Add` calls (identity only; the code never reads it)
  nameLen : Nat
  contentLen : Nat    -- len(doc.Content) as passed to Add
  skipped : Bool      -- SkipReason ≠ None once Add has decided
  category : Nat      -- FileCategory after DetermineFileCategory
  nSymbols : Nat
  nBranches : Nat
  deriving Repr, DecidableEq

structure BState where
  todo : List BDoc
  size : Nat
  nextShardNum : Nat
  shards : List (List BDoc)   -- the `todo` slices handed to buildShard, in shard-number order
  deriving Repr, DecidableEq

def BState.init : BState := ⟨[], 0, 0, []⟩

/-- `Builder.flush` (no build error): an empty todo list is only written as shard 0 -/
def BState.flush (s : BState) : BState :=
  if s.todo.isEmpty && s.nextShardNum > 0 then { s with todo := [], size := 0 }
  else { todo := [], size := 0, nextShardNum := s.nextShardNum + 1, shards := s.shards ++ [s.todo] }

/-- what a document adds to `b.size`: skipped documents count with their name only -/
def docSize (d : BDoc) : Nat := d.nameLen + (if d.skipped then 0 else d.contentLen)

/-- the document appended to `todo` -/
def BState.push (s : BState) (d : BDoc) : BState := { s with todo := s.todo ++ [d], size := s.size + docSize d }

/-- `Builder.Add` after the skip decision -/
def BState.add (shardMax : Nat) (s : BState) (d : BDoc) : BState :=
  if (s.push d).size > shardMax then (s.push d).flush else s.push d

/-- `Add*` then `Finish` -/
def build (shardMax : Nat) (docs : List BDoc) : BState :=
  (docs.foldl (BState.add shardMax) BState.init).flush

/-! ### sortDocuments -/

def catGenerated : Nat := 4
def catVendored : Nat := 3
def catTest : Nat := 2

def b2n (b : Bool) : Nat := if b then 1 else 0

/-- the rank vector of `rank(d, origIdx)` with every component mapped to a natural number so that
    "smaller is earlier" is kept: `squashRange` is increasing, `1 - squashRange` decreasing (hence `bound - n`);
    the content of a skipped document has already been dropped when `sortDocuments` runs. -/
def rankVec (bound : Nat) (d : BDoc) (origIdx : Nat) : List Nat :=
  [b2n d.skipped, b2n (d.category = catGenerated), b2n (d.category = catVendored), b2n (d.category = catTest),
   d.nameLen, bound - d.nSymbols, if d.skipped then 0 else d.contentLen, bound - d.nBranches, origIdx]

def lexLt : List Nat → List Nat → Bool
  | a :: r, b :: s => a < b || (a == b && lexLt r s)
  | _, _ => false

/-- `sortDocuments`: documents with their original index, sorted by rank vector -/
def sortDocuments (todo : List BDoc) : List BDoc :=
  let bound := (todo.map fun d => d.nSymbols + d.nBranches).sum + 1
  let ranked := todo.zipIdx.map fun (d, i) => (rankVec bound d i, d)
  (isort (fun a b => lexLt a.1 b.1) ranked).map (·.2)

/-- documents of every written shard, in the order they are stored -/
def buildSorted (shardMax : Nat) (docs : List BDoc) : List (List BDoc) :=
  (build shardMax docs).shards.map sortDocuments

end ZoektModel.C10
