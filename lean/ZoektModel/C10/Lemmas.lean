import ZoektModel.C10.Spec
namespace ZoektModel.C10
open ZoektModel ZoektModel.C09

/-! ### flush partition -/

theorem flush_todo (s : BState) : s.flush.todo = [] := by
  unfold BState.flush; split <;> rfl

theorem flush_keeps (s : BState) : s.flush.shards.flatten ++ s.flush.todo = s.shards.flatten ++ s.todo := by
  unfold BState.flush
  split
  · rename_i h
    simp at h
    simp [h.1]
  · simp

theorem add_keeps (m : Nat) (s : BState) (d : BDoc) :
    (s.add m d).shards.flatten ++ (s.add m d).todo = s.shards.flatten ++ s.todo ++ [d] := by
  unfold BState.add
  split
  · rw [flush_keeps]; simp [BState.push]
  · simp [BState.push]

theorem foldl_keeps (m : Nat) (docs : List BDoc) : ∀ s : BState,
    (docs.foldl (BState.add m) s).shards.flatten ++ (docs.foldl (BState.add m) s).todo
      = s.shards.flatten ++ s.todo ++ docs := by
  induction docs with
  | nil => intro s; simp
  | cons d r ih =>
    intro s
    simp only [List.foldl_cons]
    rw [ih, add_keeps]
    simp

/-- state invariant: shard numbers count the emitted shards, and no emitted shard is empty -/
def Good (s : BState) : Prop := s.nextShardNum = s.shards.length ∧ ∀ sh ∈ s.shards, sh ≠ []

theorem flush_good (s : BState) (h : Good s) (hne : s.todo ≠ [] ∨ s.shards ≠ []) : Good s.flush := by
  obtain ⟨h1, h2⟩ := h
  unfold BState.flush
  split
  · exact ⟨h1, h2⟩
  · rename_i hc
    refine ⟨by simp [h1], ?_⟩
    intro sh hsh
    simp at hsh
    rcases hsh with hsh | hsh
    · exact h2 sh hsh
    · subst hsh
      intro he
      simp [he] at hc
      rcases hne with hne | hne
      · exact hne he
      · have : s.shards.length = 0 := by omega
        exact hne (List.eq_nil_of_length_eq_zero this)

theorem add_good (m : Nat) (s : BState) (d : BDoc) (h : Good s) :
    Good (s.add m d) ∧ ((s.add m d).todo ≠ [] ∨ (s.add m d).shards ≠ []) := by
  have hg : Good (s.push d) := h
  unfold BState.add
  split
  · have := flush_good _ hg (Or.inl (by simp [BState.push]))
    refine ⟨this, Or.inr ?_⟩
    unfold BState.flush
    split
    · rename_i hc
      simp [BState.push] at hc
    · simp
  · exact ⟨hg, Or.inl (by simp [BState.push])⟩

theorem foldl_good (m : Nat) (docs : List BDoc) : ∀ s : BState, Good s → (docs ≠ [] ∨ s.todo ≠ [] ∨ s.shards ≠ []) →
    Good (docs.foldl (BState.add m) s) ∧
      ((docs.foldl (BState.add m) s).todo ≠ [] ∨ (docs.foldl (BState.add m) s).shards ≠ []) := by
  induction docs with
  | nil =>
    intro s hg hne
    simp at hne
    exact ⟨hg, hne⟩
  | cons d r ih =>
    intro s hg _
    simp only [List.foldl_cons]
    have ⟨hg', hne'⟩ := add_good m s d hg
    exact ih _ hg' (Or.inr hne')

/-! ### sortDocuments -/

theorem insertSorted_perm {α} (lt : α → α → Bool) (x : α) (l : List α) : (insertSorted lt x l).Perm (x :: l) := by
  induction l with
  | nil => exact List.Perm.refl _
  | cons y r ih =>
    unfold insertSorted
    split
    · exact List.Perm.refl _
    · exact (List.Perm.cons y ih).trans (List.Perm.swap x y r)

theorem isort_perm {α} (lt : α → α → Bool) (l : List α) : (isort lt l).Perm l := by
  induction l with
  | nil => exact List.Perm.refl _
  | cons x r ih =>
    unfold isort
    exact (insertSorted_perm lt x _).trans (List.Perm.cons x ih)

theorem zipIdx_map_fst {α} (l : List α) (k : Nat) : (l.zipIdx k).map (·.1) = l := by
  induction l generalizing k with
  | nil => rfl
  | cons a r ih => simp [List.zipIdx_cons, ih]

end ZoektModel.C10
