/-
C10 — the ngram keys a reachable postings builder hands to `writePostings` are pairwise distinct
(`asciiPopulated` has no duplicates, ASCII and non-ASCII trigrams never collide, map keys are unique).
With `reset_fresh` this makes the written posting sections after buffer reuse byte-identical to a fresh builder's.
-/
import ZoektModel.C10.Reset
namespace ZoektModel.C10
open ZoektModel ZoektModel.C09

theorem decodeRune_lt (b0 : UInt8) (rest : Bytes) : (decodeRune b0 rest).1 < 2 ^ 21 := by
  unfold decodeRune runeError
  simp only [Nat.reducePow]
  repeat' split
  all_goals (simp only []; omega)

theorem decodeAllF_lt : ∀ fuel data off, ∀ ra ∈ decodeAllF fuel data off, ra.r < 2 ^ 21 := by
  intro fuel
  induction fuel with
  | zero => intro data off ra h; simp [decodeAllF] at h
  | succ f ih =>
    intro data off ra h
    cases data with
    | nil => simp [decodeAllF] at h
    | cons b0 rest =>
      simp only [decodeAllF, List.mem_cons] at h
      rcases h with h | h
      · subst h; exact decodeRune_lt b0 rest
      · exact ih _ _ ra h

theorem runesToNGram_inj (a b c a' b' c' : Nat) (hb : b < 2 ^ 21) (hc : c < 2 ^ 21) (hb' : b' < 2 ^ 21) (hc' : c' < 2 ^ 21)
    (h : runesToNGram a b c = runesToNGram a' b' c') : a = a' ∧ b = b' ∧ c = c' := by
  unfold runesToNGram at h
  simp only [Nat.reducePow] at *
  omega

theorem ascii_ngram (a b c : Nat) (_ha : a < 128) (hb : b < 128) (hc : c < 128) :
    asciiIndexToNgram (asciiNgramIndex a b c) = runesToNGram a b c := by
  unfold asciiIndexToNgram asciiNgramIndex runesToNGram
  simp only [Nat.reducePow]
  have h1 : (a * 16384 + b * 128 + c) / 16384 = a := by omega
  have h2 : (a * 16384 + b * 128 + c) / 128 % 128 = b := by omega
  have h3 : (a * 16384 + b * 128 + c) % 128 = c := by omega
  rw [h1, h2, h3]

/-- an ngram of three ASCII runes / of three runes not all ASCII -/
def IsAsciiKey (k : Nat) : Prop := ∃ a b c, a < 128 ∧ b < 128 ∧ c < 128 ∧ k = runesToNGram a b c
def IsWideKey (k : Nat) : Prop :=
  ∃ a b c, a < 2 ^ 21 ∧ b < 2 ^ 21 ∧ c < 2 ^ 21 ∧ isAsciiGram a b c = false ∧ k = runesToNGram a b c

theorem ascii_wide_disjoint (k : Nat) (h1 : IsAsciiKey k) (h2 : IsWideKey k) : False := by
  obtain ⟨a, b, c, ha, hb, hc, e1⟩ := h1
  obtain ⟨a', b', c', _, hb', hc', hw, e2⟩ := h2
  have := runesToNGram_inj a b c a' b' c' (by omega) (by omega) hb' hc' (e1.symm.trans e2)
  obtain ⟨rfl, rfl, rfl⟩ := this
  simp [isAsciiGram, ha, hb, hc] at hw

structure KInv (s : PB) : Prop where
  popNodup : s.pop.Nodup
  popData : ∀ idx ∈ s.pop, ¬ (lk s.ascii idx).data.isEmpty
  popAscii : ∀ idx ∈ s.pop, ∃ a b c, a < 128 ∧ b < 128 ∧ c < 128 ∧ idx = asciiNgramIndex a b c
  mapWide : ∀ k ∈ keys s.map, IsWideKey k
  mapKeys : (keys s.map).Nodup

theorem KInv.fresh : KInv PB.fresh :=
  ⟨by simp [PB.fresh], by simp [PB.fresh], by simp [PB.fresh], by simp [PB.fresh, keys], by simp [PB.fresh, keys]⟩

theorem KInv.reset {s : PB} (h : KInv s) : KInv s.reset := by
  have hk : keys s.reset.map = keys s.map := keys_map_reset s.map
  exact ⟨by simp [PB.reset], by simp [PB.reset], by simp [PB.reset], by rw [hk]; exact h.mapWide, by rw [hk]; exact h.mapKeys⟩

theorem KInv.addTrigram {s : PB} (h : KInv s) (x y z off : Nat) (hx : x < 2 ^ 21) (hy : y < 2 ^ 21) (hz : z < 2 ^ 21) :
    KInv (s.addTrigram x y z off) := by
  rw [addTrigram_norm]
  split
  · rename_i hasc
    have hlt : x < 128 ∧ y < 128 ∧ z < 128 := by
      have : (x < 128 ∧ y < 128) ∧ z < 128 := by simpa [isAsciiGram] using hasc
      exact ⟨this.1.1, this.1.2, this.2⟩
    refine ⟨?_, ?_, ?_, h.mapWide, h.mapKeys⟩
    · simp only
      split
      · rename_i hemp
        rw [List.nodup_append]
        refine ⟨h.popNodup, by simp, ?_⟩
        intro a ha b hb
        simp at hb
        subst hb
        intro e
        subst e
        exact h.popData _ ha hemp
      · exact h.popNodup
    · intro idx hidx
      simp only [lk_slotSet]
      split
      · exact push_ne_empty _ _
      · rename_i hne
        simp only at hidx
        split at hidx
        · simp only [List.mem_append, List.mem_singleton] at hidx
          rcases hidx with hidx | hidx
          · exact h.popData idx hidx
          · exact absurd hidx hne
        · exact h.popData idx hidx
    · intro idx hidx
      simp only at hidx
      split at hidx
      · simp only [List.mem_append, List.mem_singleton] at hidx
        rcases hidx with hidx | hidx
        · exact h.popAscii idx hidx
        · exact ⟨x, y, z, hlt.1, hlt.2.1, hlt.2.2, hidx⟩
      · exact h.popAscii idx hidx
  · rename_i hw
    have hw' : isAsciiGram x y z = false := by simpa using hw
    refine ⟨h.popNodup, h.popData, h.popAscii, ?_, nodup_slotSet _ _ _ h.mapKeys⟩
    intro k hk
    simp only at hk
    rw [keys_slotSet] at hk
    split at hk
    · exact h.mapWide k hk
    · simp only [List.mem_append, List.mem_singleton] at hk
      rcases hk with hk | hk
      · exact h.mapWide k hk
      · exact ⟨x, y, z, hx, hy, hz, hw', hk⟩

/-- loop invariant: the builder is fine and the two remembered runes are code points -/
structure KLoop (st : Loop) : Prop where
  pb : KInv st.pb
  g1 : st.g1 < 2 ^ 21
  g2 : st.g2 < 2 ^ 21

theorem KLoop.step {st : Loop} (h : KLoop st) (rc0 eb0 : Nat) (ra : RuneAt) (hr : ra.r < 2 ^ 21) :
    KLoop (Loop.step rc0 eb0 st ra) := by
  unfold Loop.step
  simp only
  have e1 : KInv (st.pb.markPlain ra) := by
    unfold PB.markPlain
    split
    · exact ⟨h.pb.popNodup, h.pb.popData, h.pb.popAscii, h.pb.mapWide, h.pb.mapKeys⟩
    · exact h.pb
  have e2 : KInv ((st.pb.markPlain ra).sample (rc0 + st.runeIndex) (eb0 + ra.off)) := by
    unfold PB.sample
    split
    · exact ⟨e1.popNodup, e1.popData, e1.popAscii, e1.mapWide, e1.mapKeys⟩
    · exact e1
  refine ⟨?_, h.g2, hr⟩
  unfold PB.gram
  split
  · exact e2
  · exact e2.addTrigram _ _ _ _ h.g1 h.g2 hr

theorem KLoop.foldl (rc0 eb0 : Nat) (runes : List RuneAt) (hr : ∀ ra ∈ runes, ra.r < 2 ^ 21) : ∀ {st : Loop}, KLoop st →
    KLoop (runes.foldl (Loop.step rc0 eb0) st) := by
  induction runes with
  | nil => intro st h; exact h
  | cons r rs ih =>
    intro st h
    exact ih (fun x hx => hr x (by simp [hx])) (h.step rc0 eb0 r (hr r (by simp)))

theorem KInv.add {s : PB} (h : KInv s) (data : Bytes) (secs : List (Nat × Nat)) (s' : PB) (rs : List (Nat × Nat))
    (hok : s.add data secs = .ok (s', rs)) : KInv s' := by
  unfold PB.add at hok
  have hl := KLoop.foldl s.runeCount s.endByte (decodeAll data) (decodeAllF_lt _ _ _)
    (st := ⟨s, 0, 0, 0, secs.flatMap fun p => [p.1, p.2], []⟩) ⟨h, by show (0:Nat) < 2 ^ 21; decide, by show (0:Nat) < 2 ^ 21; decide⟩
  generalize (decodeAll data).foldl (Loop.step s.runeCount s.endByte) ⟨s, 0, 0, 0, secs.flatMap fun p => [p.1, p.2], []⟩ = st at hl hok
  have hc : KInv (st.pb.close (s.runeCount + st.runeIndex) data.length) :=
    ⟨hl.pb.popNodup, hl.pb.popData, hl.pb.popAscii, hl.pb.mapWide, hl.pb.mapKeys⟩
  unfold PB.finishAdd at hok
  split at hok
  · split at hok
    · cases hok
    · split at hok
      · cases hok
      · injection hok with hok
        injection hok with h1 _
        subst h1
        exact hc
  · split at hok
    · cases hok
    · injection hok with hok
      injection hok with h1 _
      subst h1
      exact hc

/-- the keys `writePostings` sees are pairwise distinct -/
theorem KInv.collect_keys_nodup {s : PB} (h : KInv s) : (s.collect.map (·.1)).Nodup := by
  unfold PB.collect
  rw [List.map_append, List.nodup_append]
  refine ⟨?_, ?_, ?_⟩
  · -- ASCII part: injective image of a duplicate-free list
    have hinj : ∀ (l : List Nat), l.Nodup → (∀ idx ∈ l, idx ∈ s.pop) →
        ((l.filterMap fun idx =>
          match slotGet? s.ascii idx with
          | some pl => if pl.data.isEmpty then none else some (asciiIndexToNgram idx, pl.data)
          | none => none).map (·.1)).Nodup ∧
        ∀ k ∈ ((l.filterMap fun idx =>
          match slotGet? s.ascii idx with
          | some pl => if pl.data.isEmpty then none else some (asciiIndexToNgram idx, pl.data)
          | none => none).map (·.1)), ∃ idx ∈ l, k = asciiIndexToNgram idx := by
      intro l
      induction l with
      | nil => intro _ _; simp
      | cons i r ih =>
        intro hn hsub
        have hn' : i ∉ r ∧ r.Nodup := by simpa using hn
        have ⟨ih1, ih2⟩ := ih hn'.2 (fun x hx => hsub x (by simp [hx]))
        simp only [List.filterMap_cons]
        split
        · exact ⟨ih1, fun k hk => by obtain ⟨j, hj, e⟩ := ih2 k hk; exact ⟨j, by simp [hj], e⟩⟩
        · rename_i p hp
          have hp1 : p.1 = asciiIndexToNgram i := by
            split at hp
            · split at hp
              · cases hp
              · injection hp with hp; rw [← hp]
            · cases hp
          refine ⟨?_, ?_⟩
          · simp only [List.map_cons, List.nodup_cons]
            refine ⟨?_, ih1⟩
            intro hmem
            obtain ⟨j, hj, e⟩ := ih2 _ hmem
            rw [hp1] at e
            obtain ⟨a, b, c, ha, hb, hc, ei⟩ := h.popAscii i (hsub i (by simp))
            obtain ⟨a', b', c', ha', hb', hc', ej⟩ := h.popAscii j (hsub j (by simp [hj]))
            rw [ei, ej, ascii_ngram a b c ha hb hc, ascii_ngram a' b' c' ha' hb' hc'] at e
            obtain ⟨rfl, rfl, rfl⟩ := runesToNGram_inj a b c a' b' c' (by omega) (by omega) (by omega) (by omega) e
            exact hn'.1 (ei ▸ ej ▸ hj)
          · intro k hk
            simp only [List.map_cons, List.mem_cons] at hk
            rcases hk with hk | hk
            · exact ⟨i, by simp, hk.trans hp1⟩
            · obtain ⟨j, hj, e⟩ := ih2 k hk
              exact ⟨j, by simp [hj], e⟩
    exact (hinj s.pop h.popNodup (fun _ hx => hx)).1
  · -- map part: keys are a sublist of the map's keys
    have : ((s.map.filterMap fun (x : Nat × PL) => if x.2.data.isEmpty then none else some (x.1, x.2.data)).map (·.1)).Sublist (keys s.map) := by
      unfold keys
      induction s.map with
      | nil => simp
      | cons p r ih =>
        simp only [List.filterMap_cons, List.map_cons]
        split
        · exact List.Sublist.cons _ ih
        · rename_i q hq
          split at hq
          · cases hq
          · injection hq with hq
            rw [← hq]
            exact List.Sublist.cons_cons _ ih
    exact this.nodup h.mapKeys
  · -- disjoint: an ASCII key is never a wide key
    intro k hk1 k' hk2 e
    subst e
    have hA : IsAsciiKey k := by
      simp only [List.mem_map, List.mem_filterMap] at hk1
      obtain ⟨p, ⟨idx, hidx, hp⟩, rfl⟩ := hk1
      obtain ⟨a, b, c, ha, hb, hc, ei⟩ := h.popAscii idx hidx
      split at hp
      · split at hp
        · cases hp
        · injection hp with hp
          rw [← hp, ei]
          exact ⟨a, b, c, ha, hb, hc, ascii_ngram a b c ha hb hc⟩
      · cases hp
    have hW : IsWideKey k := by
      simp only [List.mem_map, List.mem_filterMap] at hk2
      obtain ⟨p, ⟨q, hq, hp⟩, rfl⟩ := hk2
      split at hp
      · cases hp
      · injection hp with hp
        rw [← hp]
        exact h.mapWide q.1 (List.mem_map_of_mem (f := (·.1)) hq)
    exact ascii_wide_disjoint k hA hW

end ZoektModel.C10
