/-
C10 — `postingsBuilder.reset` makes a pooled builder indistinguishable from a fresh one.
Simulation between a reused builder `a` and a fresh one `b`: equal scalar fields and `asciiPopulated`, and equal
posting lists *up to* slots/map entries that are allocated but empty (`lk` reads an absent entry as the empty list).
-/
import ZoektModel.C10.Lemmas
namespace ZoektModel.C10
open ZoektModel ZoektModel.C09

def lk (l : Slots) (k : Nat) : PL := (slotGet? l k).getD PL.empty

theorem slotGet?_slotSet (l : Slots) (k k' : Nat) (v : PL) :
    slotGet? (slotSet l k v) k' = if k' = k then some v else slotGet? l k' := by
  induction l with
  | nil =>
    simp only [slotSet, slotGet?]
    by_cases h : k' = k
    · simp [h]
    · have : ¬ k = k' := fun e => h e.symm
      simp [h, this]
  | cons p r ih =>
    obtain ⟨q, w⟩ := p
    simp only [slotSet]
    by_cases hq : q = k
    · subst hq
      simp only [if_true, slotGet?]
      by_cases h : k' = q
      · subst h; simp
      · have : ¬ q = k' := fun e => h e.symm
        simp [h, this]
    · simp only [hq, if_false, slotGet?]
      by_cases h2 : q = k'
      · subst h2
        have : ¬ q = k := hq
        simp [this]
      · simp [h2, ih]

theorem lk_slotSet (l : Slots) (k k' : Nat) (v : PL) :
    lk (slotSet l k v) k' = if k' = k then v else lk l k' := by
  unfold lk
  rw [slotGet?_slotSet]
  split <;> simp

def keys (l : Slots) : List Nat := l.map (·.1)

theorem keys_slotSet (l : Slots) (k : Nat) (v : PL) :
    keys (slotSet l k v) = if k ∈ keys l then keys l else keys l ++ [k] := by
  induction l with
  | nil => simp [slotSet, keys]
  | cons p r ih =>
    obtain ⟨q, w⟩ := p
    simp only [slotSet]
    by_cases hq : q = k
    · subst hq; simp [keys]
    · have hk : ¬ k = q := fun e => hq e.symm
      simp only [hq, if_false]
      unfold keys at ih ⊢
      simp only [List.map_cons, List.mem_cons, hk, false_or]
      rw [ih]
      split <;> simp

theorem nodup_slotSet (l : Slots) (k : Nat) (v : PL) (h : (keys l).Nodup) : (keys (slotSet l k v)).Nodup := by
  rw [keys_slotSet]
  split
  · exact h
  · rename_i hk
    rw [List.nodup_append]
    refine ⟨h, by simp, ?_⟩
    intro a ha b hb
    simp at hb
    subst hb
    intro e
    subst e
    exact hk ha

theorem slotGet?_mem (l : Slots) (h : (keys l).Nodup) (k : Nat) (pl : PL) :
    slotGet? l k = some pl ↔ (k, pl) ∈ l := by
  induction l with
  | nil => simp [slotGet?]
  | cons p r ih =>
    obtain ⟨q, w⟩ := p
    have hn : q ∉ keys r ∧ (keys r).Nodup := by simpa [keys] using h
    simp only [slotGet?]
    by_cases hq : q = k
    · subst hq
      simp only [if_true, List.mem_cons, Prod.mk.injEq, true_and, Option.some.injEq]
      constructor
      · intro e; exact Or.inl e.symm
      · intro e
        rcases e with e | e
        · exact e.symm
        · exact absurd (List.mem_map_of_mem (f := (·.1)) e) hn.1
    · have hk : ¬ k = q := fun e => hq e.symm
      simp only [hq, if_false, List.mem_cons, Prod.mk.injEq, hk, false_and, false_or]
      exact ih hn.2

/-! ### the simulation -/

structure Sim (a b : PB) : Prop where
  ascii : ∀ k, lk a.ascii k = lk b.ascii k
  map : ∀ k, lk a.map k = lk b.map k
  pop : a.pop = b.pop
  ro : a.runeOffsets = b.runeOffsets
  rc : a.runeCount = b.runeCount
  plain : a.plain = b.plain
  er : a.endRunes = b.endRunes
  eb : a.endByte = b.endByte

theorem Sim.refl (a : PB) : Sim a a := ⟨fun _ => rfl, fun _ => rfl, rfl, rfl, rfl, rfl, rfl, rfl⟩

/-- `addTrigram` only looks at a slot through `lk` -/
theorem addTrigram_norm (s : PB) (x y z off : Nat) :
    s.addTrigram x y z off =
      if isAsciiGram x y z then
        { s with ascii := slotSet s.ascii (asciiNgramIndex x y z) ((lk s.ascii (asciiNgramIndex x y z)).push off),
                 pop := if (lk s.ascii (asciiNgramIndex x y z)).data.isEmpty then s.pop ++ [asciiNgramIndex x y z] else s.pop }
      else { s with map := slotSet s.map (runesToNGram x y z) ((lk s.map (runesToNGram x y z)).push off) } := by
  unfold PB.addTrigram lk
  simp only []
  split
  · generalize slotGet? s.ascii (asciiNgramIndex x y z) = o
    cases o <;> simp [PL.empty]
  · generalize slotGet? s.map (runesToNGram x y z) = o
    cases o <;> simp

theorem Sim.addTrigram {a b : PB} (h : Sim a b) (x y z off : Nat) :
    Sim (a.addTrigram x y z off) (b.addTrigram x y z off) := by
  rw [addTrigram_norm, addTrigram_norm]
  split
  · refine ⟨?_, h.map, ?_, h.ro, h.rc, h.plain, h.er, h.eb⟩
    · intro k
      simp only [lk_slotSet, h.ascii]
    · simp only [h.ascii, h.pop]
  · refine ⟨h.ascii, ?_, h.pop, h.ro, h.rc, h.plain, h.er, h.eb⟩
    intro k
    simp only [lk_slotSet, h.map]

/-- loop states that differ only in the builder, and there only up to `Sim` -/
structure LSim (s t : Loop) : Prop where
  pb : Sim s.pb t.pb
  g1 : s.g1 = t.g1
  g2 : s.g2 = t.g2
  ri : s.runeIndex = t.runeIndex
  bsb : s.bsb = t.bsb
  rsb : s.rsb = t.rsb

theorem Sim.markPlain {a b : PB} (h : Sim a b) (ra : RuneAt) : Sim (a.markPlain ra) (b.markPlain ra) := by
  unfold PB.markPlain
  split
  · exact ⟨h.ascii, h.map, h.pop, h.ro, h.rc, rfl, h.er, h.eb⟩
  · exact h

theorem Sim.sample {a b : PB} (h : Sim a b) (i v : Nat) : Sim (a.sample i v) (b.sample i v) := by
  unfold PB.sample
  split
  · exact ⟨h.ascii, h.map, h.pop, by simp [h.ro], h.rc, h.plain, h.er, h.eb⟩
  · exact h

theorem Sim.gram {a b : PB} (h : Sim a b) (i x y z off : Nat) : Sim (a.gram i x y z off) (b.gram i x y z off) := by
  unfold PB.gram
  split
  · exact h
  · exact h.addTrigram _ _ _ _

theorem LSim.step {s t : Loop} (h : LSim s t) (rc0 eb0 : Nat) (ra : RuneAt) :
    LSim (Loop.step rc0 eb0 s ra) (Loop.step rc0 eb0 t ra) := by
  obtain ⟨hpb, h1, h2, hri, hb, hr⟩ := h
  unfold Loop.step
  simp only [← h1, ← h2, ← hri, ← hb, ← hr]
  exact ⟨((hpb.markPlain ra).sample _ _).gram _ _ _ _ _, rfl, rfl, rfl, rfl, rfl⟩

theorem LSim.foldl (rc0 eb0 : Nat) (runes : List RuneAt) : ∀ {s t : Loop}, LSim s t →
    LSim (runes.foldl (Loop.step rc0 eb0) s) (runes.foldl (Loop.step rc0 eb0) t) := by
  induction runes with
  | nil => intro s t h; exact h
  | cons r rs ih => intro s t h; exact ih (h.step rc0 eb0 r)

/-- outcome of `add` on two similar builders: the same class, the same rune sections, similar builders -/
def OSim : Outcome (PB × List (Nat × Nat)) → Outcome (PB × List (Nat × Nat)) → Prop
  | .ok (a, ra), .ok (b, rb) => Sim a b ∧ ra = rb
  | .err _, .err _ => True
  | .panic _, .panic _ => True
  | .diverge, .diverge => True
  | _, _ => False

theorem Sim.close {a b : PB} (h : Sim a b) (rc bc : Nat) : Sim (a.close rc bc) (b.close rc bc) := by
  unfold PB.close
  exact ⟨h.ascii, h.map, h.pop, h.ro, rfl, h.plain, by simp [h.er], by simp [h.eb]⟩

theorem LSim.finishAdd {s t : Loop} (h : LSim s t) (rc0 bc : Nat) :
    OSim (PB.finishAdd rc0 bc s) (PB.finishAdd rc0 bc t) := by
  obtain ⟨hpb, _, _, hri, hb, hr⟩ := h
  unfold PB.finishAdd
  simp only [← hri, ← hb, ← hr]
  split
  · split
    · trivial
    · split
      · trivial
      · exact ⟨hpb.close _ _, rfl⟩
  · split
    · trivial
    · exact ⟨hpb.close _ _, rfl⟩

theorem Sim.add {a b : PB} (h : Sim a b) (data : Bytes) (secs : List (Nat × Nat)) :
    OSim (a.add data secs) (b.add data secs) := by
  unfold PB.add
  simp only [← h.rc, ← h.eb]
  exact (LSim.foldl a.runeCount a.endByte (decodeAll data)
    (s := ⟨a, 0, 0, 0, secs.flatMap fun p => [p.1, p.2], []⟩) (t := ⟨b, 0, 0, 0, secs.flatMap fun p => [p.1, p.2], []⟩)
    ⟨h, rfl, rfl, rfl, rfl, rfl⟩).finishAdd _ _

theorem addDocs_sim (docs : List (Bytes × List (Nat × Nat))) : ∀ {a b : PB}, Sim a b →
    match addDocs a docs, addDocs b docs with
    | some a', some b' => Sim a' b'
    | none, none => True
    | _, _ => False := by
  induction docs with
  | nil => intro a b h; simpa [addDocs] using h
  | cons d r ih =>
    intro a b h
    obtain ⟨c, s⟩ := d
    have ho := h.add c s
    unfold addDocs
    revert ho
    cases a.add c s <;> cases b.add c s <;> simp [OSim]
    rename_i x y
    obtain ⟨x1, x2⟩ := x
    obtain ⟨y1, y2⟩ := y
    intro hs _
    exact ih hs

/-! ### reachable builders and `reset` -/

/-- every allocated ASCII slot that is not recorded in `asciiPopulated` is empty, and map keys are distinct -/
structure Inv (s : PB) : Prop where
  slots : ∀ k pl, slotGet? s.ascii k = some pl → k ∈ s.pop ∨ pl = PL.empty
  mapKeys : (keys s.map).Nodup

theorem Inv.fresh : Inv PB.fresh := ⟨by intro k pl h; simp [PB.fresh, slotGet?] at h, by simp [PB.fresh, keys]⟩

theorem push_ne_empty (pl : PL) (off : Nat) : ¬ (pl.push off).data.isEmpty := by
  unfold PL.push
  simp only [List.isEmpty_iff, List.append_eq_nil_iff, not_and]
  intro _
  unfold putUvarint
  split <;> simp

theorem Inv.addTrigram {s : PB} (h : Inv s) (x y z off : Nat) : Inv (s.addTrigram x y z off) := by
  rw [addTrigram_norm]
  split
  · refine ⟨?_, h.mapKeys⟩
    intro k pl hk
    simp only [slotGet?_slotSet] at hk
    by_cases e : k = asciiNgramIndex x y z
    · subst e
      left
      simp only
      split
      · simp
      · rename_i hne
        -- the slot held data before, so it was recorded already
        unfold lk at hne
        cases hs : slotGet? s.ascii (asciiNgramIndex x y z) with
        | none => simp [hs, PL.empty] at hne
        | some q =>
          rcases h.slots _ _ hs with hin | he
          · exact hin
          · simp [hs, he, PL.empty] at hne
    · simp only [e, if_false] at hk
      rcases h.slots k pl hk with hin | he
      · left
        simp only
        split
        · exact List.mem_append_left _ hin
        · exact hin
      · exact Or.inr he
  · exact ⟨h.slots, nodup_slotSet _ _ _ h.mapKeys⟩

theorem Inv.step {st : Loop} (h : Inv st.pb) (rc0 eb0 : Nat) (ra : RuneAt) : Inv (Loop.step rc0 eb0 st ra).pb := by
  unfold Loop.step
  simp only
  have e1 : Inv (st.pb.markPlain ra) := by
    unfold PB.markPlain
    split
    · exact ⟨h.slots, h.mapKeys⟩
    · exact h
  have e2 : Inv ((st.pb.markPlain ra).sample (rc0 + st.runeIndex) (eb0 + ra.off)) := by
    unfold PB.sample
    split
    · exact ⟨e1.slots, e1.mapKeys⟩
    · exact e1
  unfold PB.gram
  split
  · exact e2
  · exact e2.addTrigram _ _ _ _

theorem Inv.foldl (rc0 eb0 : Nat) (runes : List RuneAt) : ∀ {st : Loop}, Inv st.pb →
    Inv (runes.foldl (Loop.step rc0 eb0) st).pb := by
  induction runes with
  | nil => intro st h; exact h
  | cons r rs ih => intro st h; exact ih (h.step rc0 eb0 r)

theorem Inv.finishAdd {st : Loop} (h : Inv st.pb) (rc0 bc : Nat) (s' : PB) (rs : List (Nat × Nat))
    (hok : PB.finishAdd rc0 bc st = .ok (s', rs)) : Inv s' := by
  have hc : Inv (st.pb.close (rc0 + st.runeIndex) bc) := ⟨h.slots, h.mapKeys⟩
  unfold PB.finishAdd at hok
  split at hok
  · split at hok
    · cases hok
    · split at hok
      · cases hok
      · injection hok with hok
        injection hok with h1 _
        subst h1
        exact hc
  · split at hok
    · cases hok
    · injection hok with hok
      injection hok with h1 _
      subst h1
      exact hc

theorem Inv.add {s : PB} (h : Inv s) (data : Bytes) (secs : List (Nat × Nat)) (s' : PB) (rs : List (Nat × Nat))
    (hok : s.add data secs = .ok (s', rs)) : Inv s' := by
  unfold PB.add at hok
  exact Inv.finishAdd (Inv.foldl s.runeCount s.endByte (decodeAll data)
    (st := ⟨s, 0, 0, 0, secs.flatMap fun p => [p.1, p.2], []⟩) h) _ _ _ _ hok

theorem keys_map_reset (l : Slots) : keys (l.map fun (k, _) => (k, PL.empty)) = keys l := by
  induction l with
  | nil => rfl
  | cons p r ih => obtain ⟨q, w⟩ := p; simp [keys] at ih ⊢; try exact ih

theorem slotGet?_map (l : Slots) (f : Nat → PL → PL) (k : Nat) :
    slotGet? (l.map fun (q, pl) => (q, f q pl)) k = (slotGet? l k).map (f k) := by
  induction l with
  | nil => rfl
  | cons p r ih =>
    obtain ⟨q, w⟩ := p
    simp only [List.map_cons, slotGet?]
    by_cases h : q = k
    · subst h; simp
    · simp [h, ih]

theorem Inv.reset {s : PB} (h : Inv s) : Inv s.reset ∧ Sim s.reset PB.fresh := by
  have hascii : ∀ k, lk s.reset.ascii k = PL.empty := by
    intro k
    unfold lk PB.reset
    simp only
    have := slotGet?_map s.ascii (fun q pl => if s.pop.contains q then PL.empty else pl) k
    have e : (s.ascii.map fun (x : Nat × PL) => if s.pop.contains x.1 then (x.1, PL.empty) else (x.1, x.2))
        = s.ascii.map fun (x : Nat × PL) => (x.1, if s.pop.contains x.1 then PL.empty else x.2) := by
      apply List.map_congr_left
      intro x _
      split <;> rfl
    rw [e, this]
    cases hs : slotGet? s.ascii k with
    | none => simp
    | some pl =>
      simp only [Option.map_some, Option.getD_some]
      split
      · rfl
      · rename_i hc
        rcases h.slots k pl hs with hin | he
        · simp [hin] at hc
        · exact he
  have hmap : ∀ k, lk s.reset.map k = PL.empty := by
    intro k
    unfold lk PB.reset
    simp only
    have := slotGet?_map s.map (fun _ _ => PL.empty) k
    rw [this]
    cases slotGet? s.map k <;> simp
  refine ⟨⟨?_, ?_⟩, ⟨?_, ?_, rfl, rfl, rfl, rfl, rfl, rfl⟩⟩
  · intro k pl hk
    right
    have := hascii k
    unfold lk at this
    rw [hk] at this
    simpa using this
  · have := keys_map_reset s.map
    unfold PB.reset
    simp only
    rw [this]
    exact h.mapKeys
  · intro k
    rw [hascii]
    simp [lk, PB.fresh, slotGet?]
  · intro k
    rw [hmap]
    simp [lk, PB.fresh, slotGet?]

/-! ### what `writePostings` collects -/

def mapPart (l : Slots) : List (Nat × Bytes) :=
  l.filterMap fun (k, pl) => if pl.data.isEmpty then none else some (k, pl.data)

theorem mem_mapPart (l : Slots) (h : (keys l).Nodup) (k : Nat) (d : Bytes) :
    (k, d) ∈ mapPart l ↔ (lk l k).data = d ∧ d ≠ [] := by
  unfold mapPart
  simp only [List.mem_filterMap]
  constructor
  · rintro ⟨⟨q, pl⟩, hin, hf⟩
    simp only at hf
    split at hf
    · cases hf
    · rename_i hne
      injection hf with hf
      injection hf with h1 h2
      subst h1
      have := (slotGet?_mem l h q pl).2 hin
      unfold lk
      rw [this]
      simp only [Option.getD_some]
      refine ⟨h2, ?_⟩
      subst h2
      simpa using hne
  · rintro ⟨hd, hne⟩
    unfold lk at hd
    cases hs : slotGet? l k with
    | none => simp [hs, PL.empty] at hd; exact absurd hd.symm (by simpa using hne)
    | some pl =>
      simp only [hs, Option.getD_some] at hd
      refine ⟨(k, pl), (slotGet?_mem l h k pl).1 hs, ?_⟩
      simp only
      subst hd
      have : ¬ pl.data.isEmpty := by simpa using hne
      simp [this]

theorem nodup_mapPart (l : Slots) (h : (keys l).Nodup) : (mapPart l).Nodup := by
  induction l with
  | nil => simp [mapPart]
  | cons p r ih =>
    obtain ⟨q, pl⟩ := p
    have hn : q ∉ keys r ∧ (keys r).Nodup := by simpa [keys] using h
    unfold mapPart
    simp only [List.filterMap_cons]
    split
    · exact ih hn.2
    · rename_i x hx
      split at hx
      · cases hx
      · injection hx with hx
        subst hx
        refine List.nodup_cons.2 ⟨?_, ih hn.2⟩
        intro hmem
        have := (mem_mapPart r hn.2 q pl.data).1 hmem
        -- q is not a key of r, so its list there is empty
        have hnone : slotGet? r q = none := by
          cases hs : slotGet? r q with
          | none => rfl
          | some w => exact absurd (List.mem_map_of_mem (f := (·.1)) ((slotGet?_mem r hn.2 q w).1 hs)) hn.1
        unfold lk at this
        rw [hnone] at this
        simp [PL.empty] at this

theorem filterMap_ext {α β} (l : List α) (f g : α → Option β) (h : ∀ x ∈ l, f x = g x) :
    l.filterMap f = l.filterMap g := by
  induction l with
  | nil => rfl
  | cons a r ih =>
    simp only [List.filterMap_cons, h a (by simp)]
    rw [ih (fun x hx => h x (by simp [hx]))]

theorem collect_perm {a b : PB} (h : Sim a b) (ha : (keys a.map).Nodup) (hb : (keys b.map).Nodup) :
    a.collect.Perm b.collect := by
  unfold PB.collect
  apply List.Perm.append
  · rw [h.pop]
    apply List.Perm.of_eq
    apply filterMap_ext
    intro idx _
    have := h.ascii idx
    unfold lk at this
    cases ha' : slotGet? a.ascii idx <;> cases hb' : slotGet? b.ascii idx <;> simp [ha', hb', PL.empty] at this ⊢
    · rw [← this]
    · rw [this]
    · rw [this]
  · have e1 := nodup_mapPart a.map ha
    have e2 := nodup_mapPart b.map hb
    apply (List.perm_ext_iff_of_nodup e1 e2).2
    rintro ⟨k, d⟩
    rw [mem_mapPart a.map ha, mem_mapPart b.map hb, h.map]

end ZoektModel.C10
