import ZoektModel.Basic.Proto
import ZoektModel.C09.Driver
import ZoektModel.C10.Spec
namespace ZoektModel.C10
open ZoektModel ZoektModel.Proto ZoektModel.C09

/-- doc: `nameHex;contentHex;category;nSymbols;nBranches;givenSkip;allowLarge` -/
def bdoc? (sizeMax trigramMax : Nat) (i : Nat) (s : String) : Option BDoc :=
  match s.splitOn ";" with
  | [n, c, cat, ns, nb, gv, al] => do
    let name ← hexToBytes? n
    let content ← hexToBytes? c
    let skip := builderSkip sizeMax trigramMax (← bool? al) (← gv.toNat?) content
    pure ⟨i, name.length, content.length, skip ≠ 0, ← cat.toNat?, ← ns.toNat?, ← nb.toNat?⟩
  | _ => none

def bdocs? (sizeMax trigramMax : Nat) (s : String) : Option (List BDoc) :=
  if s == "_" then some [] else
  ((s.splitOn "|").zipIdx).mapM fun (x, i) => bdoc? sizeMax trigramMax i x

def showShards (l : List (List Nat)) : String := "|".intercalate (l.map showNatList)

def shards? (s : String) : Option (List (List Nat)) := (s.splitOn "|").mapM natList?

def handle (line : String) : String :=
  let (inp, impl) := splitCase line
  match fields inp with
  | ["build", sm, szm, tm, ds] =>
    match sm.toNat?, szm.toNat?, tm.toNat? with
    | some shardMax, some sizeMax, some trigramMax =>
      match bdocs? sizeMax trigramMax ds with
      | some docs =>
        let model := showShards ((buildSorted shardMax docs).map (·.map (·.id)))
        match shards? impl with
        | some ishards => if checkP docs.length ishards then answer model else specFail model "partition"
        | none => badCase "impl shards"
      | none => badCase "docs"
    | _, _, _ => badCase "numbers"
  | ["reuse", script] =>
    -- script = `<anything>~r~a:..~a:..~w`: the last write after the last reset must look like a fresh builder's
    let cmds := script.splitOn "~"
    let model := "~".intercalate (runPB PB.fresh cmds [])
    let afterReset := (cmds.reverse.takeWhile (· != "r")).reverse
    let fresh := runPB PB.fresh afterReset []
    let implLast := (impl.splitOn "~").getLast?.getD ""
    if fresh.getLast?.getD "" == implLast then answer model else specFail model "reuse-visible"
  | _ => badCase "op"

def main : IO Unit := runLines handle
end ZoektModel.C10
