import ZoektModel.Basic.Proto
namespace ZoektModel.C10
/-- stub: no model driver for C10 yet -/
def main : IO Unit := ZoektModel.Proto.runLines (fun _ => ZoektModel.Proto.badCase "no model driver for C10")
end ZoektModel.C10
