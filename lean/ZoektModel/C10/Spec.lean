/-
C10 — executable statements evaluated on the implementation's behaviour.

* `checkPartition n shards`: the document lists of the written shards contain every added document exactly once
  (document ids `0 … n-1`), whatever the shard limit — the build-configuration half of "results do not depend on how
  the index was built" (with C01: a search result depends only on the set of indexed documents).
* `reuseInvisible`: what `writePostings` emits after `reset` + documents equals what a fresh builder emits for the
  same documents.
-/
import ZoektModel.C10.Model
namespace ZoektModel.C10
open ZoektModel ZoektModel.C09

def checkPartition (n : Nat) (shards : List (List Nat)) : Bool :=
  shards.flatten.isPerm (List.range n)

/-- no shard other than a lone first one is empty -/
def noEmptyShard (shards : List (List Nat)) : Bool :=
  shards.length == 1 || shards.all (fun s => !s.isEmpty)

def checkP (n : Nat) (shards : List (List Nat)) : Bool := checkPartition n shards && noEmptyShard shards

/-- run documents (content, sections) through a postings builder -/
def addDocs : PB → List (Bytes × List (Nat × Nat)) → Option PB
  | pb, [] => some pb
  | pb, (c, s) :: r =>
    match pb.add c s with
    | .ok (pb', _) => addDocs pb' r
    | _ => none

def reuseInvisible (old : PB) (docs : List (Bytes × List (Nat × Nat))) : Bool :=
  (addDocs old.reset docs).map (·.write) == (addDocs PB.fresh docs).map (·.write)

end ZoektModel.C10
