/-
C11 — `distanceHitIterator.findNext` (after the fix) terminates: every iteration strictly decreases
`pMeasure i1 + pMeasure i2` (unread posting bytes + iterators not yet exhausted).
-/
import ZoektModel.C11.Dist
import ZoektModel.C11.Lemmas
namespace ZoektModel.C11.L
open ZoektModel ZoektModel.C11

/-- when the loop of `next` runs at all, it consumes posting bytes -/
theorem pIterLoop_shrinks (limit : Nat) (fuel : Nat) (it : PIter) (hf : it.blob.length < fuel)
    (hc : it.first ≤ limit ∧ (!it.blob.isEmpty) = true) :
    ∃ it', pIterLoop limit fuel it = .ok it' ∧ it'.blob.length < it.blob.length := by
  cases fuel with
  | zero => omega
  | succ fuel =>
    unfold pIterLoop
    simp only [hc, and_self, if_true]
    generalize hu : uvarint it.blob = um
    obtain ⟨delta, sz⟩ := um
    simp only
    have hpos : 0 < it.blob.length := by
      cases hb : it.blob with
      | nil => simp [hb] at hc
      | cons x t => simp
    split
    · exact ⟨_, rfl, by simpa using hpos⟩
    · rename_i hsz
      have hle : sz ≤ it.blob.length := by have := uvarint_le it.blob; rw [hu] at this; exact this
      rw [sliceFrom_ok it.blob sz (by omega) hle]
      have hlen : (it.blob.drop sz.toNat).length < fuel := by rw [List.length_drop]; omega
      obtain ⟨it', h1, h2⟩ := pIterLoop_total limit fuel ⟨(it.first + delta % two32) % two32, it.blob.drop sz.toNat⟩ hlen
      refine ⟨it', h1, ?_⟩
      simp only [List.length_drop] at h2
      omega

/-- **progress**: `next(limit)` on an iterator that is not exhausted and whose head is `≤ limit` strictly decreases
    its measure -/
theorem pIterNext_progress (it : PIter) (limit : Nat) (h1 : it.first ≤ limit) (h2 : it.first ≠ maxU32) :
    ∃ it', pIterNext it limit = .ok it' ∧ pMeasure it' < pMeasure it := by
  unfold pIterNext
  split
  · exact ⟨_, rfl, by simp [pMeasure, h2]⟩
  · by_cases hb : (!it.blob.isEmpty) = true
    · obtain ⟨it', e1, e2⟩ := pIterLoop_shrinks limit (it.blob.length + 1) it (by omega) ⟨h1, hb⟩
      rw [e1]
      simp only
      split
      · exact ⟨_, rfl, by simp [pMeasure, h2]⟩
      · refine ⟨it', rfl, ?_⟩
        simp only [pMeasure, h2, if_false]
        split <;> omega
    · have hnil : it.blob = [] := by
        cases hbb : it.blob with
        | nil => rfl
        | cons x t => simp [hbb] at hb
      have hloop : pIterLoop limit (it.blob.length + 1) it = .ok it := by
        unfold pIterLoop
        simp [hnil]
      rw [hloop]
      simp only
      have : it.first ≤ limit ∧ it.blob.isEmpty = true := ⟨h1, by simp [hnil]⟩
      simp only [this, and_self, if_true]
      exact ⟨_, rfl, by simp [pMeasure, h2]⟩

theorem maxU32_succ : maxU32 + 1 = two32 := rfl

theorem pIterLoop_u32 (limit : Nat) : ∀ (fuel : Nat) (it it' : PIter), it.first < two32 →
    pIterLoop limit fuel it = .ok it' → it'.first < two32 := by
  intro fuel
  induction fuel with
  | zero => intro it it' _ h; simp [pIterLoop] at h
  | succ fuel ih =>
    intro it it' hu h
    unfold pIterLoop at h
    split at h
    · generalize hv : uvarint it.blob = um at h
      obtain ⟨delta, sz⟩ := um
      simp only at h
      split at h
      · cases h; exact hu
      · cases hs : sliceFrom it.blob sz with
        | ok rest =>
          rw [hs] at h
          simp only at h
          exact ih _ it' (Nat.mod_lt _ (by unfold two32; omega)) h
        | err e => rw [hs] at h; cases h
        | panic p => rw [hs] at h; cases h
        | diverge => rw [hs] at h; cases h
    · cases h; exact hu

theorem pIterNext_u32 (it it' : PIter) (limit : Nat) (hu : it.first < two32) (h : pIterNext it limit = .ok it') :
    it'.first < two32 := by
  unfold pIterNext at h
  split at h
  · cases h; show maxU32 < two32; decide
  · cases hl : pIterLoop limit (it.blob.length + 1) it with
    | ok it'' =>
      rw [hl] at h
      simp only at h
      have := pIterLoop_u32 limit _ it it'' hu hl
      split at h
      · cases h; show maxU32 < two32; decide
      · cases h; exact this
    | err e => rw [hl] at h; cases h
    | panic p => rw [hl] at h; cases h
    | diverge => rw [hl] at h; cases h

theorem newPIter_u32 (b : Bytes) (it : PIter) (h : newPIter b = .ok it) : it.first < two32 := by
  unfold newPIter at h
  generalize uvarint b = um at h
  obtain ⟨d, sz⟩ := um
  simp only at h
  split at h
  · cases h; show maxU32 < two32; decide
  · cases hs : sliceFrom b sz with
    | ok rest => rw [hs] at h; cases h; exact Nat.mod_lt _ (by unfold two32; omega)
    | err e => rw [hs] at h; cases h
    | panic p => rw [hs] at h; cases h
    | diverge => rw [hs] at h; cases h

/-- **`findNext` is total** with `pMeasure i1 + pMeasure i2 + 1` iterations of fuel, for every pair of iterator states
    (heads are `uint32` values) and every distance -/
theorem distFindNext_total (d : Nat) : ∀ (fuel : Nat) (a b : PIter), a.first < two32 → b.first < two32 →
    pMeasure a + pMeasure b < fuel →
    ∃ r, distFindNext d fuel a b = .ok r ∧ r.1.first < two32 ∧ r.2.first < two32 := by
  intro fuel
  induction fuel with
  | zero => intro a b _ _ h; omega
  | succ fuel ih =>
    intro a b hua hub h
    unfold distFindNext
    split
    · obtain ⟨a', e1, _⟩ := pIterNext_total a maxU32
      rw [e1]
      exact ⟨(a', b), rfl, pIterNext_u32 a a' maxU32 hua e1, hub⟩
    · rename_i hne
      have ha : a.first ≠ maxU32 := fun h => hne (Or.inl h)
      have hb : b.first ≠ maxU32 := fun h => hne (Or.inr h)
      have hm := maxU32_succ
      simp only
      split
      · rename_i hlt
        obtain ⟨a', e1, e2⟩ := pIterNext_progress a (b.first - d - 1) (by omega) ha
        rw [e1]
        simp only
        exact ih a' b (pIterNext_u32 a a' _ hua e1) hub (by omega)
      · split
        · rename_i hge hgt
          obtain ⟨b', e1, e2⟩ := pIterNext_progress b (min (a.first + d - 1) maxU32) (by
            have h1 : b.first ≤ a.first + d - 1 := by omega
            have h2 : b.first ≤ maxU32 := by omega
            exact Nat.le_min.mpr ⟨h1, h2⟩) hb
          rw [e1]
          simp only
          exact ih a b' hua (pIterNext_u32 b b' _ hub e1) (by omega)
        · exact ⟨(a, b), rfl, hua, hub⟩

/-- **`distanceHitIterator.next` is total** -/
theorem distNext_total (d : Nat) (a b : PIter) (limit : Nat) (hua : a.first < two32) (hub : b.first < two32) :
    ∃ r, distNext d a b limit = .ok r ∧ r.1.first < two32 ∧ r.2.first < two32 := by
  unfold distNext
  obtain ⟨a', e1, _⟩ := pIterNext_total a limit
  rw [e1]
  simp only
  obtain ⟨b', e2, _⟩ := pIterNext_total b (if limit + d ≥ two32 then maxU32 else limit + d)
  rw [e2]
  simp only
  exact distFindNext_total d (distFuel a' b') a' b' (pIterNext_u32 a a' _ hua e1) (pIterNext_u32 b b' _ hub e2)
    (by unfold distFuel; omega)

theorem distGo_total (d : Nat) : ∀ (limits : List Nat) (a b : PIter), a.first < two32 → b.first < two32 →
    ∃ l, distGo d a b limits = .ok l := by
  intro limits
  induction limits with
  | nil => intro a b _ _; exact ⟨[], rfl⟩
  | cons x xs ih =>
    intro a b hua hub
    unfold distGo
    obtain ⟨r, e, h1, h2⟩ := distNext_total d a b x hua hub
    rw [e]
    obtain ⟨a', b'⟩ := r
    simp only
    obtain ⟨l, e2⟩ := ih a' b' h1 h2
    rw [e2]
    exact ⟨_, rfl⟩

/-- a whole session — construction, `first()`, any sequence of `next(limit)` — over any two byte strings -/
theorem distRun_total (b1 b2 : Bytes) (d : Nat) (limits : List Nat) : ∃ l, distRun b1 b2 d limits = .ok l := by
  unfold distRun
  obtain ⟨a, e1, _⟩ := newPIter_total b1
  obtain ⟨b, e2, _⟩ := newPIter_total b2
  rw [e1, e2]
  simp only
  obtain ⟨r, e3, h1, h2⟩ := distFindNext_total d (distFuel a b) a b (newPIter_u32 b1 a e1) (newPIter_u32 b2 b e2)
    (by unfold distFuel; omega)
  rw [e3]
  obtain ⟨a', b'⟩ := r
  simp only
  obtain ⟨l, e4⟩ := distGo_total d limits a' b' h1 h2
  rw [e4]
  exact ⟨_, rfl⟩

end ZoektModel.C11.L
