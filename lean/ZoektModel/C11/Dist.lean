/-
C11 — model of index/hititer.go `distanceHitIterator` over two `compressedPostingIterator`s (after the `fix:` commit
that compares `p1 + distance` with `p2` in 64 bits).  `Legacy.distStep` is one iteration of the loop before the fix.
Core Lean only.
-/
import ZoektModel.C11.Model
namespace ZoektModel.C11
open ZoektModel

/-- `distanceHitIterator.findNext` -/
def distFindNext (d : Nat) : Nat → PIter → PIter → Outcome (PIter × PIter)
  | 0, _, _ => .diverge
  | fuel + 1, a, b =>
    if a.first = maxU32 ∨ b.first = maxU32 then
      match pIterNext a maxU32 with
      | .ok a' => .ok (a', b)
      | .err e => .err e
      | .panic s => .panic s
      | .diverge => .diverge
    else
      let want := a.first + d            -- uint64(p1) + uint64(distance)
      if want < b.first then
        match pIterNext a (b.first - d - 1) with
        | .ok a' => distFindNext d fuel a' b
        | .err e => .err e
        | .panic s => .panic s
        | .diverge => .diverge
      else if want > b.first then
        match pIterNext b (min (want - 1) maxU32) with
        | .ok b' => distFindNext d fuel a b'
        | .err e => .err e
        | .panic s => .panic s
        | .diverge => .diverge
      else .ok (a, b)

/-- what bounds the number of iterations: unread bytes plus one per iterator that is not exhausted -/
def pMeasure (it : PIter) : Nat := it.blob.length + (if it.first = maxU32 then 0 else 1)

def distFuel (a b : PIter) : Nat := pMeasure a + pMeasure b + 1

/-- `distanceHitIterator.next(limit)`: `i1.next(limit)`; `l2 := limit + distance` saturating; `i2.next(l2)`; `findNext` -/
def distNext (d : Nat) (a b : PIter) (limit : Nat) : Outcome (PIter × PIter) :=
  match pIterNext a limit with
  | .ok a' =>
    let l2 := if limit + d ≥ two32 then maxU32 else limit + d
    match pIterNext b l2 with
    | .ok b' => distFindNext d (distFuel a' b') a' b'
    | .err e => .err e
    | .panic s => .panic s
    | .diverge => .diverge
  | .err e => .err e
  | .panic s => .panic s
  | .diverge => .diverge

def distGo (d : Nat) (a b : PIter) : List Nat → Outcome (List Nat)
  | [] => .ok []
  | l :: ls =>
    match distNext d a b l with
    | .ok (a', b') =>
      match distGo d a' b' ls with
      | .ok r => .ok (a'.first :: r)
      | o => o
    | .err e => .err e
    | .panic s => .panic s
    | .diverge => .diverge

/-- `first()` after construction and after every `next(limit)` -/
def distRun (b1 b2 : Bytes) (d : Nat) (limits : List Nat) : Outcome (List Nat) :=
  match newPIter b1, newPIter b2 with
  | .ok a, .ok b =>
    match distFindNext d (distFuel a b) a b with
    | .ok (a', b') =>
      match distGo d a' b' limits with
      | .ok r => .ok (a'.first :: r)
      | o => o
    | .err e => .err e
    | .panic s => .panic s
    | .diverge => .diverge
  | .err e, _ => .err e
  | .panic s, _ => .panic s
  | .diverge, _ => .diverge
  | _, .err e => .err e
  | _, .panic s => .panic s
  | _, .diverge => .diverge

namespace Legacy

/-- one iteration of `findNext` before the fix, on in-memory postings (`inMemoryIterator`): `p1 + distance` in uint32.
    Returns `none` when the loop exits, else the two lists after the iteration. -/
def distStep (d : Nat) (l1 l2 : List Nat) : Option (List Nat × List Nat) :=
  match l1, l2 with
  | p1 :: _, p2 :: _ =>
    let s := (p1 + d) % two32
    if s < p2 then some (l1.dropWhile (fun x => x ≤ (p2 + two32 - d - 1) % two32), l2)
    else if s > p2 then some (l1, l2.dropWhile (fun x => x ≤ (p1 + d + two32 - 1) % two32))
    else none
  | _, _ => none

end Legacy
end ZoektModel.C11
