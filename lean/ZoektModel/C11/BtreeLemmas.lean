/-
C11 — the b-tree operations never index or slice out of range: the structural invariant "an inner node has one key
less than children, and at least one child" is preserved by `insert` with splits, for every insertion order.
-/
import ZoektModel.C11.Btree
namespace ZoektModel.C11.Bt

mutual
/-- structural invariant of index/btree.go's nodes -/
def WF : Node → Prop
  | .leaf _ _ => True
  | .inner keys cs => keys.length + 1 = cs.length ∧ WFL cs
def WFL : List Node → Prop
  | [] => True
  | c :: cs => WF c ∧ WFL cs
end

theorem wfl_iff (cs : List Node) : WFL cs ↔ ∀ c ∈ cs, WF c := by
  induction cs with
  | nil => simp [WFL]
  | cons c cs ih => simp [WFL, ih]

theorem heightL_le_iff (cs : List Node) (n : Nat) : heightL cs ≤ n ↔ ∀ c ∈ cs, height c ≤ n := by
  induction cs with
  | nil => simp [heightL]
  | cons c cs ih => simp [heightL, Nat.max_le, ih]

theorem height_le_heightL (cs : List Node) (c : Node) (h : c ∈ cs) : height c ≤ heightL cs :=
  (heightL_le_iff cs (heightL cs)).mp (Nat.le_refl _) c h

theorem childIndex_lt (ng : Nat) (keys : List Nat) (n : Nat) (h : keys.length + 1 = n) : childIndex ng keys n < n := by
  unfold childIndex
  cases hf : keys.findIdx? (fun k => ng < k) with
  | none => simp only; omega
  | some i =>
    simp only
    have := List.findIdx?_eq_some_iff_getElem.mp hf
    obtain ⟨hi, _⟩ := this
    omega

theorem setAt_some {α} : ∀ (l : List α) (i : Nat) (x : α), i < l.length →
    ∃ l', setAt l i x = some l' ∧ l'.length = l.length ∧ ∀ y ∈ l', y = x ∨ y ∈ l := by
  intro l
  induction l with
  | nil => intro i x h; simp at h
  | cons c cs ih =>
    intro i x h
    cases i with
    | zero => exact ⟨x :: cs, rfl, rfl, by intro y hy; simp at hy; rcases hy with h | h <;> simp [h]⟩
    | succ i =>
      obtain ⟨l', h1, h2, h3⟩ := ih i x (by simpa using h)
      refine ⟨c :: l', by simp [setAt, h1], by simp [h2], ?_⟩
      intro y hy
      simp at hy
      rcases hy with h | h
      · simp [h]
      · rcases h3 y h with h | h
        · exact Or.inl h
        · exact Or.inr (by simp [h])

/-- `maybeSplit` never panics on a well-formed node, and the halves are well-formed and not higher -/
theorem maybeSplit_wf (o : Opts) (hv : 1 ≤ o.v) (c : Node) (hc : WF c) :
    maybeSplit o c = some none ∨
    ∃ sp, maybeSplit o c = some (some sp) ∧ WF sp.left ∧ WF sp.right ∧ height sp.left ≤ height c ∧ height sp.right ≤ height c := by
  cases c with
  | leaf size sk =>
    by_cases h : size < o.bucketSize
    · exact Or.inl (by simp [maybeSplit, h])
    · exact Or.inr ⟨⟨.leaf (o.bucketSize / 2) 0, .leaf (o.bucketSize / 2) 0, sk⟩, by simp [maybeSplit, h],
        by simp [WF], by simp [WF], by simp [height], by simp [height]⟩
  | inner keys cs =>
    obtain ⟨hlen, hcs⟩ := hc
    by_cases h : cs.length < 2 * o.v
    · exact Or.inl (by simp [maybeSplit, h])
    · have hno : ¬ (o.v = 0 ∨ o.v - 1 > keys.length ∨ o.v > cs.length ∨ o.v > keys.length ∨ o.v - 1 ≥ keys.length) := by omega
      refine Or.inr ⟨⟨.inner (keys.take (o.v - 1)) (cs.take o.v), .inner (keys.drop o.v) (cs.drop o.v), keys.getD (o.v - 1) 0⟩,
        by simp only [maybeSplit, h, hno, if_false], ?_, ?_, ?_, ?_⟩
      · refine ⟨?_, ?_⟩
        · simp only [List.length_take]; omega
        · rw [wfl_iff] at hcs ⊢
          intro c hc
          exact hcs c (List.mem_of_mem_take hc)
      · refine ⟨?_, ?_⟩
        · simp only [List.length_drop]; omega
        · rw [wfl_iff] at hcs ⊢
          intro c hc
          exact hcs c (List.mem_of_mem_drop hc)
      · simp only [height]
        have : heightL (cs.take o.v) ≤ heightL cs := by
          rw [heightL_le_iff]
          intro c hc
          exact height_le_heightL cs c (List.mem_of_mem_take hc)
        omega
      · simp only [height]
        have : heightL (cs.drop o.v) ≤ heightL cs := by
          rw [heightL_le_iff]
          intro c hc
          exact height_le_heightL cs c (List.mem_of_mem_drop hc)
        omega

/-- **`insert` never panics**: on a well-formed tree, with fuel above its height, for every ngram (whatever the
    insertion order so far), and the result is well-formed and not higher -/
theorem insert_total (o : Opts) (hv : 1 ≤ o.v) (ng : Nat) : ∀ (fuel : Nat) (t : Node), WF t → height t < fuel →
    ∃ t', insert o ng fuel t = some t' ∧ WF t' ∧ height t' ≤ height t := by
  intro fuel
  induction fuel with
  | zero => intro t _ h; omega
  | succ fuel ih =>
    intro t ht hh
    cases t with
    | leaf size sk => exact ⟨_, rfl, trivial, by simp [height]⟩
    | inner keys cs =>
      obtain ⟨hlen, hcs⟩ := ht
      have hcs' := (wfl_iff cs).mp hcs
      simp only [height] at hh
      unfold insert
      have hne : ¬ cs.length = 0 := by omega
      simp only [hne, if_false]
      have hi := childIndex_lt ng keys cs.length hlen
      generalize childIndex ng keys cs.length = i at hi
      have hget : cs[i]? = some cs[i] := List.getElem?_eq_getElem hi
      rw [hget]
      simp only
      have hmem : cs[i] ∈ cs := List.getElem_mem hi
      have hwc := hcs' _ hmem
      have hhc : height cs[i] ≤ heightL cs := height_le_heightL cs _ hmem
      rcases maybeSplit_wf o hv cs[i] hwc with hns | ⟨sp, hsp, wl, wr, hl, hr⟩
      · rw [hns]
        simp only
        obtain ⟨c', e1, w1, h1⟩ := ih cs[i] hwc (by omega)
        rw [e1]
        simp only
        obtain ⟨cs2, e2, l2, m2⟩ := setAt_some cs i c' hi
        rw [e2]
        refine ⟨_, rfl, ⟨by omega, ?_⟩, ?_⟩
        · rw [wfl_iff]
          intro y hy
          rcases m2 y hy with h | h
          · rw [h]; exact w1
          · exact hcs' y h
        · simp only [height]
          have : heightL cs2 ≤ heightL cs := by
            rw [heightL_le_iff]
            intro y hy
            rcases m2 y hy with h | h
            · rw [h]; omega
            · exact height_le_heightL cs y h
          omega
      · rw [hsp]
        simp only
        have hik : ¬ i > keys.length := by omega
        simp only [hik, if_false]
        have klen : (keys.take i ++ sp.key :: keys.drop i).length + 1 = cs.length + 1 := by
          simp [List.length_take, List.length_drop]; omega
        split
        · obtain ⟨r', e1, w1, h1⟩ := ih sp.right wr (by omega)
          rw [e1]
          refine ⟨_, rfl, ⟨?_, ?_⟩, ?_⟩
          · rw [klen]; simp [List.length_take, List.length_drop]; omega
          · rw [wfl_iff]
            intro y hy
            simp at hy
            rcases hy with h | h | h | h
            · exact hcs' y (List.mem_of_mem_take h)
            · rw [h]; exact wl
            · rw [h]; exact w1
            · exact hcs' y (List.mem_of_mem_drop h)
          · simp only [height]
            have : heightL (cs.take i ++ sp.left :: r' :: cs.drop (i + 1)) ≤ heightL cs := by
              rw [heightL_le_iff]
              intro y hy
              simp at hy
              rcases hy with h | h | h | h
              · exact height_le_heightL cs y (List.mem_of_mem_take h)
              · rw [h]; omega
              · rw [h]; omega
              · exact height_le_heightL cs y (List.mem_of_mem_drop h)
            omega
        · obtain ⟨l', e1, w1, h1⟩ := ih sp.left wl (by omega)
          rw [e1]
          refine ⟨_, rfl, ⟨?_, ?_⟩, ?_⟩
          · rw [klen]; simp [List.length_take, List.length_drop]; omega
          · rw [wfl_iff]
            intro y hy
            simp at hy
            rcases hy with h | h | h | h
            · exact hcs' y (List.mem_of_mem_take h)
            · rw [h]; exact w1
            · rw [h]; exact wr
            · exact hcs' y (List.mem_of_mem_drop h)
          · simp only [height]
            have : heightL (cs.take i ++ l' :: sp.right :: cs.drop (i + 1)) ≤ heightL cs := by
              rw [heightL_le_iff]
              intro y hy
              simp at hy
              rcases hy with h | h | h | h
              · exact height_le_heightL cs y (List.mem_of_mem_take h)
              · rw [h]; omega
              · rw [h]; omega
              · exact height_le_heightL cs y (List.mem_of_mem_drop h)
            omega

/-- **`btree.insert` never panics** and keeps the tree well-formed -/
theorem treeInsert_total (o : Opts) (hv : 1 ≤ o.v) (root : Node) (ng : Nat) (hw : WF root) :
    ∃ t', treeInsert o root ng = some t' ∧ WF t' := by
  unfold treeInsert
  rcases maybeSplit_wf o hv root hw with hns | ⟨sp, hsp, wl, wr, hl, hr⟩
  · rw [hns]
    obtain ⟨t', e, w, _⟩ := insert_total o hv ng (height root + 1) root hw (by omega)
    exact ⟨t', e, w⟩
  · rw [hsp]
    have hw2 : WF (.inner [sp.key] [sp.left, sp.right]) := ⟨rfl, wl, wr, trivial⟩
    have hh : height (.inner [sp.key] [sp.left, sp.right]) < height root + 2 := by
      simp only [height, heightL]
      have : max (height sp.left) (max (height sp.right) 0) ≤ height root := by
        simp [Nat.max_le]; exact ⟨hl, hr⟩
      omega
    obtain ⟨t', e, w, _⟩ := insert_total o hv ng _ _ hw2 hh
    exact ⟨t', e, w⟩

/-- **building a tree from any list of ngrams, in any order, never panics** (`newBtreeIndex`'s loop) -/
theorem build_total (o : Opts) (hv : 1 ≤ o.v) (ngs : List Nat) : ∃ t, build o ngs = some t ∧ WF t := by
  unfold build
  have key : ∀ (l : List Nat) (t : Node), WF t →
      ∃ t', l.foldl (fun t ng => t.bind (fun t => treeInsert o t ng)) (some t) = some t' ∧ WF t' := by
    intro l
    induction l with
    | nil => intro t ht; exact ⟨t, rfl, ht⟩
    | cons x xs ih =>
      intro t ht
      obtain ⟨t1, e1, w1⟩ := treeInsert_total o hv t x ht
      simp only [List.foldl_cons, Option.bind_some, e1]
      exact ih t1 w1
  exact key ngs (.leaf 0 0) trivial

theorem findL_total (ng : Nat) : ∀ (cs : List Node) (i bi po : Nat), i < cs.length →
    (∀ c ∈ cs, ∀ bi po, ∃ r, find ng c bi po = some r) → ∃ r, findL ng cs i bi po = some r := by
  intro cs
  induction cs with
  | nil => intro i bi po h; simp at h
  | cons c cs ih =>
    intro i bi po h hall
    cases i with
    | zero => simp only [findL]; exact hall c (by simp) bi po
    | succ i =>
      simp only [findL]
      exact ih i _ _ (by simpa using h) (fun c' hc' => hall c' (by simp [hc']))

/-- **`find` never indexes out of range** on a well-formed tree -/
theorem find_total (ng : Nat) : ∀ (n : Nat) (t : Node) (bi po : Nat), height t ≤ n → WF t →
    ∃ r, find ng t bi po = some r := by
  intro n
  induction n with
  | zero =>
    intro t bi po hh hw
    cases t with
    | leaf size sk => exact ⟨_, rfl⟩
    | inner keys cs => simp [height] at hh
  | succ n ih =>
    intro t bi po hh hw
    cases t with
    | leaf size sk => exact ⟨_, rfl⟩
    | inner keys cs =>
      obtain ⟨hlen, hcs⟩ := hw
      simp only [height] at hh
      simp only [find]
      apply findL_total ng cs _ bi po (childIndex_lt ng keys cs.length hlen)
      intro c hc bi' po'
      exact ih c bi' po' (by have := height_le_heightL cs c hc; omega) ((wfl_iff cs).mp hcs c hc)

/-- building from any ngram list and then looking up any ngram never panics -/
theorem build_find_total (o : Opts) (hv : 1 ≤ o.v) (ngs : List Nat) (q : Nat) :
    ∃ t r, build o ngs = some t ∧ find q t 0 0 = some r := by
  obtain ⟨t, e, w⟩ := build_total o hv ngs
  obtain ⟨r, hr⟩ := find_total q (height t) t 0 0 (Nat.le_refl _) w
  exact ⟨t, r, e, hr⟩

end ZoektModel.C11.Bt
