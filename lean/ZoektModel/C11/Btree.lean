/-
C11 — model of index/btree.go: `btree.insert`, `leaf/innerNode.insert`, `maybeSplit`, `freeze`, `find`, with the Go
slice and index expressions checked explicitly (`none` = a run-time panic), for arbitrary options (bucketSize, v) and
arbitrary — also unsorted, as a corrupt ngram section can hold — insertion orders.  Core Lean only.
-/
namespace ZoektModel.C11.Bt

inductive Node where
  | leaf (size : Nat) (splitKey : Nat)
  | inner (keys : List Nat) (children : List Node)
  deriving Repr

structure Opts where
  bucketSize : Nat
  v : Nat
  deriving Repr

/-- result of `maybeSplit`: `none` = no split -/
structure Split where
  left : Node
  right : Node
  key : Nat

/-- `leaf.maybeSplit` / `innerNode.maybeSplit`. Outer `none` = panic (a slice expression out of range). -/
def maybeSplit (o : Opts) : Node → Option (Option Split)
  | .leaf size sk =>
    if size < o.bucketSize then some none
    else some (some ⟨.leaf (o.bucketSize / 2) 0, .leaf (o.bucketSize / 2) 0, sk⟩)
  | .inner keys cs =>
    if cs.length < 2 * o.v then some none
    else
      -- n.keys[0:v-1], n.children[:v], n.keys[v:], n.children[v:], n.keys[v-1]
      if o.v = 0 ∨ o.v - 1 > keys.length ∨ o.v > cs.length ∨ o.v > keys.length ∨ o.v - 1 ≥ keys.length then none
      else some (some ⟨.inner (keys.take (o.v - 1)) (cs.take o.v), .inner (keys.drop o.v) (cs.drop o.v), keys.getD (o.v - 1) 0⟩)

/-- index of the child an ngram belongs to: first key greater than it, else the last child -/
def childIndex (ng : Nat) (keys : List Nat) (nChildren : Nat) : Nat :=
  match keys.findIdx? (fun k => ng < k) with
  | some i => i
  | none => nChildren - 1

/-- replace element `i` of a list (`none` = index out of range) -/
def setAt {α} : List α → Nat → α → Option (List α)
  | [], _, _ => none
  | _ :: cs, 0, x => some (x :: cs)
  | c :: cs, i + 1, x => (setAt cs i x).map (c :: ·)

/-- `node.insert(ng, opts)`. `fuel` bounds the descent (the height of the tree); `none` = a run-time panic, or fuel
    exhausted (`insert_total` in Props: never, when `fuel` exceeds the height). -/
def insert (o : Opts) (ng : Nat) : Nat → Node → Option Node
  | 0, _ => none
  | _ + 1, .leaf size sk =>
    some (.leaf (size + 1) (if size + 1 = o.bucketSize / 2 + 1 then ng else sk))
  | fuel + 1, .inner keys cs =>
    if cs.length = 0 then none else        -- insertAt(len(n.children) - 1) with no children: index -1
    let i := childIndex ng keys cs.length
    -- insertAt(i): split the child if it is full
    match cs[i]? with
    | none => none                         -- n.children[i]
    | some c =>
      match maybeSplit o c with
      | none => none
      | some none =>
        match insert o ng fuel c with
        | some c' => (setAt cs i c').map (.inner keys ·)
        | none => none
      | some (some sp) =>
        if i > keys.length then none else  -- n.keys[0:i], n.keys[i:]
        let keys' := keys.take i ++ sp.key :: keys.drop i
        if ng ≥ sp.key then
          match insert o ng fuel sp.right with
          | some r' => some (.inner keys' (cs.take i ++ sp.left :: r' :: cs.drop (i + 1)))
          | none => none
        else
          match insert o ng fuel sp.left with
          | some l' => some (.inner keys' (cs.take i ++ l' :: sp.right :: cs.drop (i + 1)))
          | none => none

mutual
def height : Node → Nat
  | .leaf _ _ => 0
  | .inner _ cs => heightL cs + 1
def heightL : List Node → Nat
  | [] => 0
  | c :: cs => max (height c) (heightL cs)
end

/-- `btree.insert`: split the root first if it is full -/
def treeInsert (o : Opts) (root : Node) (ng : Nat) : Option Node :=
  match maybeSplit o root with
  | none => none
  | some none => insert o ng (height root + 1) root
  | some (some sp) => insert o ng (height root + 2) (.inner [sp.key] [sp.left, sp.right])

def build (o : Opts) (ngs : List Nat) : Option Node :=
  ngs.foldl (fun t ng => t.bind (fun t => treeInsert o t ng)) (some (.leaf 0 0))

mutual
/-- leaves in visiting order, as their bucket sizes (`freeze` numbers them and sums the sizes) -/
def leaves : Node → List Nat
  | .leaf size _ => [size]
  | .inner _ cs => leavesL cs
def leavesL : List Node → List Nat
  | [] => []
  | c :: cs => leaves c ++ leavesL cs
end

mutual
/-- `find` after `freeze`: (bucketIndex, postingIndexOffset), given the number of leaves and ngrams to the left.
    `none` = index out of range (an inner node without children). -/
def find (ng : Nat) : Node → Nat → Nat → Option (Nat × Nat)
  | .leaf _ _, bi, po => some (bi, po)
  | .inner keys cs, bi, po => findL ng cs (childIndex ng keys cs.length) bi po
def findL (ng : Nat) : List Node → Nat → Nat → Nat → Option (Nat × Nat)
  | [], _, _, _ => none
  | c :: _, 0, bi, po => find ng c bi po
  | c :: cs, i + 1, bi, po => findL ng cs i (bi + (leaves c).length) (po + (leaves c).sum)
end

mutual
/-- inner keys in visiting order (`btree.String`) -/
def innerKeys : Node → List (List Nat)
  | .leaf _ _ => []
  | .inner keys cs => keys :: innerKeysL cs
def innerKeysL : List Node → List (List Nat)
  | [] => []
  | c :: cs => innerKeys c ++ innerKeysL cs
end

end ZoektModel.C11.Bt
