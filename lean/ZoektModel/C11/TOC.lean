/-
C11 — model of `reader.readTOCSections` (index/read.go) with the section readers of index/section.go:
the tagged loop (`sectionCount == 0`): `for r.off < tocSection.off+tocSection.sz { tag := Str(); kind := Varint(); … }`
with unknown tags, kind mismatches (dummy sections by kind, unknown kind = error), the `tags` filter (skip), and the
legacy branch (`sectionCount` = number of sections of `sections()` or `sectionsNext()`).
Core Lean only.
-/
import ZoektModel.C11.Model
namespace ZoektModel.C11
open ZoektModel

/-- `readHeader`, second half: the section count read at `toc.off` -/
def readHeaderCount (f : File) (toc : SimpleSection) : Outcome (SimpleSection × Nat × Nat) :=
  let r := rdFixed f 4 ⟨toc.off⟩
  match r.1 with
  | .ok n => .ok (toc, n, r.2.off)
  | .err e => .err e
  | .panic s => .panic s
  | .diverge => .diverge

/-- `reader.readHeader`, same function as `readHeader` (Model.lean) written with projections (`readHeader2_eq`) -/
def readHeader2 (f : File) : Outcome (SimpleSection × Nat × Nat) :=
  match (readSimple f (headerStart f)).1 with
  | .ok toc => readHeaderCount f toc
  | .err e => .err e
  | .panic s => .panic s
  | .diverge => .diverge

inductive Kind where
  | simple | compound | lazy
  deriving Repr, DecidableEq

/-- value of a TOC entry after `read`: `idx`/`offsets` stay empty for simple sections; `offsets` for lazy ones -/
structure SecVal where
  data : SimpleSection
  idx : SimpleSection
  offsets : List Nat
  deriving Repr, DecidableEq

def SecVal.zero : SecVal := ⟨⟨0, 0⟩, ⟨0, 0⟩, []⟩

/-- outcome of a section operation: the value (for `read`) and the reader afterwards -/
def secRead (f : File) (k : Kind) (r : Rd) : Outcome SecVal × Rd :=
  match k with
  | .simple =>
    let a := readSimple f r
    match a.1 with
    | .ok s => (.ok ⟨s, ⟨0, 0⟩, []⟩, a.2)
    | .err e => (.err e, a.2)
    | .panic p => (.panic p, a.2)
    | .diverge => (.diverge, a.2)
  | .compound =>
    let a := readSimple f r
    match a.1 with
    | .ok d =>
      let b := readSimple f a.2
      match b.1 with
      | .ok i =>
        match readSectionBE 4 f i with
        | .ok offs => (.ok ⟨d, i, offs⟩, b.2)
        | .err e => (.err e, b.2)
        | .panic p => (.panic p, b.2)
        | .diverge => (.diverge, b.2)
      | .err e => (.err e, b.2)
      | .panic p => (.panic p, b.2)
      | .diverge => (.diverge, b.2)
    | .err e => (.err e, a.2)
    | .panic p => (.panic p, a.2)
    | .diverge => (.diverge, a.2)
  | .lazy =>
    let a := readSimple f r
    match a.1 with
    | .ok d =>
      let b := readSimple f a.2
      match b.1 with
      | .ok i => (.ok ⟨d, i, []⟩, b.2)
      | .err e => (.err e, b.2)
      | .panic p => (.panic p, b.2)
      | .diverge => (.diverge, b.2)
    | .err e => (.err e, a.2)
    | .panic p => (.panic p, a.2)
    | .diverge => (.diverge, a.2)

/-- `skip`: simple = two U32; compound and lazy = `data.skip`, `index.read` (which stores the index section in the
    struct it is called on), then `Read(index.off, index.sz)`. Returns the index section that was stored, if any. -/
def secSkip (f : File) (k : Kind) (r : Rd) : Outcome (Option SimpleSection) × Rd :=
  match k with
  | .simple =>
    let a := readSimple f r
    match a.1 with
    | .ok _ => (.ok none, a.2)
    | .err e => (.err e, a.2)
    | .panic p => (.panic p, a.2)
    | .diverge => (.diverge, a.2)
  | _ =>
    let a := readSimple f r
    match a.1 with
    | .ok _ =>
      let b := readSimple f a.2
      match b.1 with
      | .ok i =>
        match f.read i.off i.sz with
        | .ok _ => (.ok (some i), b.2)
        | .err e => (.err e, b.2)
        | .panic p => (.panic p, b.2)
        | .diverge => (.diverge, b.2)
      | .err e => (.err e, b.2)
      | .panic p => (.panic p, b.2)
      | .diverge => (.diverge, b.2)
    | .err e => (.err e, a.2)
    | .panic p => (.panic p, a.2)
    | .diverge => (.diverge, a.2)

/-- the known tagged sections (`sectionsTaggedList`) with their kinds; the last three share one unused variable -/
def knownSections : List (String × Kind) :=
  [("metaData", .simple), ("repoMetaData", .simple), ("fileContents", .compound), ("fileNames", .compound),
   ("fileSections", .compound), ("fileEndSymbol", .simple), ("symbolMap", .lazy), ("symbolKindMap", .compound),
   ("symbolMetaData", .simple), ("newlines", .compound), ("ngramText", .simple), ("postings", .compound),
   ("nameNgramText", .simple), ("namePostings", .compound), ("branchMasks", .simple), ("subRepos", .simple),
   ("runeOffsets", .simple), ("nameRuneOffsets", .simple), ("fileEndRunes", .simple), ("nameEndRunes", .simple),
   ("contentChecksums", .simple), ("languages", .simple), ("categories", .simple), ("runeDocSections", .simple),
   ("repos", .simple), ("reposIDsBitmap", .simple),
   ("nameBloom", .simple), ("contentBloom", .simple), ("ranks", .simple)]

/-- `sections()` of the legacy branch, in order; `sectionsNext()` appends `repos` -/
def legacySections : List (String × Kind) :=
  [("metaData", .simple), ("repoMetaData", .simple), ("fileContents", .compound), ("fileNames", .compound),
   ("fileSections", .compound), ("fileEndSymbol", .simple), ("symbolMap", .lazy), ("symbolKindMap", .compound),
   ("symbolMetaData", .simple), ("newlines", .compound), ("ngramText", .simple), ("postings", .compound),
   ("nameNgramText", .simple), ("namePostings", .compound), ("branchMasks", .simple), ("subRepos", .simple),
   ("runeOffsets", .simple), ("nameRuneOffsets", .simple), ("fileEndRunes", .simple), ("nameEndRunes", .simple),
   ("contentChecksums", .simple), ("languages", .simple), ("runeDocSections", .simple)]

def strBytes (s : String) : Bytes := s.toUTF8.toList

/-- `secs[tag]`: Go strings are byte strings -/
def lookupKnown (tag : Bytes) : Option (String × Kind) := knownSections.find? (fun p => strBytes p.1 == tag)

def kindOfNat : Nat → Option Kind
  | 0 => some .simple
  | 1 => some .compound
  | 2 => some .lazy
  | _ => none

abbrev TocState := List (String × SecVal)

def TocState.set (st : TocState) (tag : String) (v : SecVal) : TocState :=
  (tag, v) :: st.filter (fun p => p.1 != tag)

/-- one iteration of the tagged loop. `none` in the result = continue with the new state and reader. -/
def tocStep (f : File) (tags : List Bytes) (st : TocState) (r : Rd) : Outcome (TocState × Rd) :=
  let a := rdStr f r
  match a.1 with
  | .ok tagBytes =>
    let b := rdVarint f a.2
    match b.1 with
    | .ok kind =>
      let known := lookupKnown tagBytes
      let skipFilter := !tags.isEmpty && !tags.contains tagBytes
      -- `sectionKind(kind)` is an `int`: kinds ≥ 2^63 become negative, never equal to a section's kind
      let kindOk := match known with
        | some k => kindOfNat kind == some k.2
        | none => false
      if kindOk then
        match known with
        | some (tag, k) =>
          if skipFilter then
            -- skipped because of the tag filter: `skip` runs on the real section and leaves its index field set
            let c := secSkip f k b.2
            match c.1 with
            | .ok (some i) => .ok (st.set tag { (st.lookup tag).getD SecVal.zero with idx := i }, c.2)
            | .ok none => .ok (st, c.2)
            | .err e => .err e
            | .panic p => .panic p
            | .diverge => .diverge
          else
            let c := secRead f k b.2
            match c.1 with
            | .ok v => .ok (st.set tag v, c.2)
            | .err e => .err e
            | .panic p => .panic p
            | .diverge => .diverge
        | none => .panic "unreachable"
      else
        -- unrecognised section: skip over it with a dummy section of the kind the file names
        match kindOfNat kind with
        | some k =>
          let c := secSkip f k b.2
          match c.1 with
          | .ok _ => .ok (st, c.2)
          | .err e => .err e
          | .panic p => .panic p
          | .diverge => .diverge
        | none => .err "unknown section kind"
    | .err e => .err e
    | .panic p => .panic p
    | .diverge => .diverge
  | .err e => .err e
  | .panic p => .panic p
  | .diverge => .diverge

/-- the tagged loop: `for r.off < tocSection.off+tocSection.sz` (uint32 sum) -/
def tocLoop (f : File) (tags : List Bytes) (stop : Nat) : Nat → TocState → Rd → Outcome TocState
  | 0, _, _ => .diverge
  | fuel + 1, st, r =>
    if r.off < stop then
      match tocStep f tags st r with
      | .ok (st', r') => tocLoop f tags stop fuel st' r'
      | .err e => .err e
      | .panic p => .panic p
      | .diverge => .diverge
    else .ok st

/-- the legacy branch: read every section of the list in order -/
def tocLegacy (f : File) : List (String × Kind) → TocState → Rd → Outcome TocState
  | [], st, _ => .ok st
  | (tag, k) :: rest, st, r =>
    let c := secRead f k r
    match c.1 with
    | .ok v => tocLegacy f rest (st.set tag v) c.2
    | .err e => .err e
    | .panic p => .panic p
    | .diverge => .diverge

/-- `reader.readTOCSections(toc, tags)` -/
def readTOCSections (f : File) (tags : List Bytes) : Outcome TocState :=
  match readHeader2 f with
  | .ok (toc, count, pos) =>
    if count = 0 then
      tocLoop f tags ((toc.off + toc.sz) % two32) (f.data.length + 2) [] ⟨pos⟩
    else if count = legacySections.length then tocLegacy f legacySections [] ⟨pos⟩
    else if count = legacySections.length + 1 then tocLegacy f (legacySections ++ [("repos", .simple)]) [] ⟨pos⟩
    else .err "section count mismatch"
  | .err e => .err e
  | .panic p => .panic p
  | .diverge => .diverge

end ZoektModel.C11
