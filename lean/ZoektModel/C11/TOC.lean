/-
C11 — model of `reader.readTOCSections` (index/read.go) with the section readers of index/section.go:
the tagged loop (`sectionCount == 0`): `for r.off < tocSection.off+tocSection.sz { tag := Str(); kind := Varint(); … }`
with unknown tags, kind mismatches (dummy sections by kind, unknown kind = error), the `tags` filter (skip), and the
legacy branch (`sectionCount` = number of sections of `sections()` or `sectionsNext()`).
Core Lean only.
-/
import ZoektModel.C11.Model
namespace ZoektModel.C11
open ZoektModel

inductive Kind where
  | simple | compound | lazy
  deriving Repr, DecidableEq

/-- value of a TOC entry after `read`: `idx`/`offsets` stay empty for simple sections; `offsets` for lazy ones -/
structure SecVal where
  data : SimpleSection
  idx : SimpleSection
  offsets : List Nat
  deriving Repr, DecidableEq

def SecVal.zero : SecVal := ⟨⟨0, 0⟩, ⟨0, 0⟩, []⟩

/-- a reader action: an outcome and the reader afterwards (the reader moves even when the action fails) -/
abbrev RdM (α : Type) := Rd → Outcome α × Rd

def RdM.pure {α} (a : α) : RdM α := fun r => (.ok a, r)

def RdM.bind {α β} (m : RdM α) (k : α → RdM β) : RdM β := fun r =>
  match (m r).1 with
  | .ok a => k a (m r).2
  | .err e => (.err e, (m r).2)
  | .panic p => (.panic p, (m r).2)
  | .diverge => (.diverge, (m r).2)

/-- an operation that does not move the reader (`readSectionU32(r.r, …)`, `r.r.Read(…)`) -/
def RdM.lift {α} (o : Outcome α) : RdM α := fun r => (o, r)

/-- `section.read` by kind: simple = `off`, `sz`; compound = data, index, then the offsets table; lazy = data, index -/
def secRead (f : File) (k : Kind) : RdM SecVal :=
  match k with
  | .simple => RdM.bind (readSimple f) fun s => RdM.pure ⟨s, ⟨0, 0⟩, []⟩
  | .compound => RdM.bind (readSimple f) fun d => RdM.bind (readSimple f) fun i =>
      RdM.bind (RdM.lift (readSectionBE 4 f i)) fun offs => RdM.pure ⟨d, i, offs⟩
  | .lazy => RdM.bind (readSimple f) fun d => RdM.bind (readSimple f) fun i => RdM.pure ⟨d, i, []⟩

/-- `skip`: simple = two U32; compound and lazy = `data.skip`, `index.read` (which stores the index section in the
    struct it is called on), then `Read(index.off, index.sz)`. Returns the index section that was stored, if any. -/
def secSkip (f : File) (k : Kind) : RdM (Option SimpleSection) :=
  match k with
  | .simple => RdM.bind (readSimple f) fun _ => RdM.pure none
  | _ => RdM.bind (readSimple f) fun _ => RdM.bind (readSimple f) fun i =>
      RdM.bind (RdM.lift (f.read i.off i.sz)) fun _ => RdM.pure (some i)

/-- the known tagged sections (`sectionsTaggedList`) with their kinds; the last three share one unused variable -/
def knownSections : List (String × Kind) :=
  [("metaData", .simple), ("repoMetaData", .simple), ("fileContents", .compound), ("fileNames", .compound),
   ("fileSections", .compound), ("fileEndSymbol", .simple), ("symbolMap", .lazy), ("symbolKindMap", .compound),
   ("symbolMetaData", .simple), ("newlines", .compound), ("ngramText", .simple), ("postings", .compound),
   ("nameNgramText", .simple), ("namePostings", .compound), ("branchMasks", .simple), ("subRepos", .simple),
   ("runeOffsets", .simple), ("nameRuneOffsets", .simple), ("fileEndRunes", .simple), ("nameEndRunes", .simple),
   ("contentChecksums", .simple), ("languages", .simple), ("categories", .simple), ("runeDocSections", .simple),
   ("repos", .simple), ("reposIDsBitmap", .simple),
   ("nameBloom", .simple), ("contentBloom", .simple), ("ranks", .simple)]

/-- `sections()` of the legacy branch, in order; `sectionsNext()` appends `repos` -/
def legacySections : List (String × Kind) :=
  [("metaData", .simple), ("repoMetaData", .simple), ("fileContents", .compound), ("fileNames", .compound),
   ("fileSections", .compound), ("fileEndSymbol", .simple), ("symbolMap", .lazy), ("symbolKindMap", .compound),
   ("symbolMetaData", .simple), ("newlines", .compound), ("ngramText", .simple), ("postings", .compound),
   ("nameNgramText", .simple), ("namePostings", .compound), ("branchMasks", .simple), ("subRepos", .simple),
   ("runeOffsets", .simple), ("nameRuneOffsets", .simple), ("fileEndRunes", .simple), ("nameEndRunes", .simple),
   ("contentChecksums", .simple), ("languages", .simple), ("runeDocSections", .simple)]

def strBytes (s : String) : Bytes := s.toUTF8.toList

/-- `secs[tag]`: Go strings are byte strings -/
def lookupKnown (tag : Bytes) : Option (String × Kind) := knownSections.find? (fun p => strBytes p.1 == tag)

def kindOfNat : Nat → Option Kind
  | 0 => some .simple
  | 1 => some .compound
  | 2 => some .lazy
  | _ => none

abbrev TocState := List (String × SecVal)

def TocState.set (st : TocState) (tag : String) (v : SecVal) : TocState :=
  (tag, v) :: st.filter (fun p => p.1 != tag)

/-- what the loop body does once tag and kind are read -/
def tocEntry (f : File) (tags : List Bytes) (st : TocState) (tagBytes : Bytes) (kind : Nat) : RdM TocState :=
  let known := lookupKnown tagBytes
  let skipFilter := !tags.isEmpty && !tags.contains tagBytes
  -- `sectionKind(kind)` is an `int`: kinds ≥ 2^63 become negative, never equal to a section's kind
  match known with
  | some (tag, k) =>
    if kindOfNat kind = some k then
      if skipFilter then
        -- skipped because of the tag filter: `skip` runs on the real section and leaves its index field set
        RdM.bind (secSkip f k) fun oi =>
          match oi with
          | some i => RdM.pure (st.set tag { (st.lookup tag).getD SecVal.zero with idx := i })
          | none => RdM.pure st
      else RdM.bind (secRead f k) fun v => RdM.pure (st.set tag v)
    else
      match kindOfNat kind with
      | some k' => RdM.bind (secSkip f k') fun _ => RdM.pure st
      | none => RdM.lift (.err "unknown section kind")
  | none =>
    -- unrecognised section: skip over it with a dummy section of the kind the file names
    match kindOfNat kind with
    | some k' => RdM.bind (secSkip f k') fun _ => RdM.pure st
    | none => RdM.lift (.err "unknown section kind")

/-- one iteration of the tagged loop: `tag, err := r.Str(); kind, err := r.Varint(); …` -/
def tocStep (f : File) (tags : List Bytes) (st : TocState) : RdM TocState :=
  RdM.bind (rdStr f) fun tagBytes => RdM.bind (rdVarint f) fun kind => tocEntry f tags st tagBytes kind

/-- the tagged loop: `for r.off < tocSection.off+tocSection.sz` (uint32 sum) -/
def tocLoop (f : File) (tags : List Bytes) (stop : Nat) : Nat → TocState → Rd → Outcome TocState
  | 0, _, _ => .diverge
  | fuel + 1, st, r =>
    if r.off < stop then
      match (tocStep f tags st r).1 with
      | .ok st' => tocLoop f tags stop fuel st' (tocStep f tags st r).2
      | .err e => .err e
      | .panic p => .panic p
      | .diverge => .diverge
    else .ok st

/-- the legacy branch: read every section of the list in order -/
def tocLegacy (f : File) : List (String × Kind) → TocState → Rd → Outcome TocState
  | [], st, _ => .ok st
  | (tag, k) :: rest, st, r =>
    match (secRead f k r).1 with
    | .ok v => tocLegacy f rest (st.set tag v) (secRead f k r).2
    | .err e => .err e
    | .panic p => .panic p
    | .diverge => .diverge

/-- `readTOCSections` after `readHeader` returned `hdr` -/
def readTOCAfter (f : File) (tags : List Bytes) (hdr : Outcome (SimpleSection × Nat × Nat)) : Outcome TocState :=
  match hdr with
  | .ok (toc, count, pos) =>
    if count = 0 then
      tocLoop f tags ((toc.off + toc.sz) % two32) (f.data.length + 2) [] ⟨pos⟩
    else if count = legacySections.length then tocLegacy f legacySections [] ⟨pos⟩
    else if count = legacySections.length + 1 then tocLegacy f (legacySections ++ [("repos", .simple)]) [] ⟨pos⟩
    else .err "section count mismatch"
  | .err e => .err e
  | .panic p => .panic p
  | .diverge => .diverge

/-- `reader.readTOCSections(toc, tags)` -/
def readTOCSections (f : File) (tags : List Bytes) : Outcome TocState := readTOCAfter f tags (readHeader f)

end ZoektModel.C11
