/-
C11 — the property on a reader primitive: whatever bytes it is given, it either returns a value or an error; it does
not panic and it terminates ("loading it either fails with an error, or it is served").  Evaluated on the
implementation's observed outcome class and proved of the model (Props/C11.lean).
-/
import ZoektModel.C11.Model
namespace ZoektModel.C11
open ZoektModel

/-- on the observed outcome of the implementation: `ok:<value>`, `err`, `panic`, `diverge` -/
def checkP (impl : String) : Bool := impl.startsWith "ok:" || impl == "err"

/-- on a model outcome -/
def Total {α} (o : Outcome α) : Prop := o.isOkOrErr = true

end ZoektModel.C11
