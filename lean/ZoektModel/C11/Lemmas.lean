/-
C11 — proofs about the reader primitives (statements are restated, one by one, in Props/C11.lean).
-/
import ZoektModel.C11.Spec
namespace ZoektModel.C11.L
open ZoektModel ZoektModel.C11

/-! ### binary.Uvarint -/

theorem uvarintAux_le : ∀ (buf : Bytes) (i x s : Nat), (uvarintAux buf i x s).2 ≤ (i : Int) + buf.length := by
  intro buf
  induction buf with
  | nil => intro i x s; simp [uvarintAux]
  | cons b r ih =>
    intro i x s
    unfold uvarintAux
    split
    · simp only [List.length_cons]; omega
    · split
      · split
        · simp only [List.length_cons]; omega
        · simp only [List.length_cons]; omega
      · have := ih (i + 1) (x ||| ((b.toNat &&& 127) <<< s)) (s + 7)
        simp only [List.length_cons]
        omega

/-- `n ≤ len(buf)`: the number of bytes `Uvarint` reports never exceeds the buffer -/
theorem uvarint_le (buf : Bytes) : (uvarint buf).2 ≤ buf.length := by
  have := uvarintAux_le buf 0 0 0
  simpa [uvarint] using this

theorem sliceFrom_ok (data : Bytes) (m : Int) (h0 : 0 ≤ m) (h1 : m ≤ data.length) :
    sliceFrom data m = .ok (data.drop m.toNat) := by
  unfold sliceFrom
  have : ¬ (m < 0 ∨ m > data.length) := by omega
  simp [this]

/-! ### the delta decoders (fixed code) -/

/-- the decoding loop terminates within `len(data)` iterations, never panics, and yields at most one element per byte -/
theorem decodeLoop_total (w : Nat) : ∀ (fuel : Nat) (data : Bytes) (last : Nat), data.length < fuel →
    ∃ l, decodeLoop w fuel data last = .ok l ∧ l.length ≤ data.length := by
  intro fuel
  induction fuel with
  | zero => intro data last h; omega
  | succ fuel ih =>
    intro data last h
    unfold decodeLoop
    split
    · exact ⟨[], rfl, by simp⟩
    · rename_i hne
      generalize hu : uvarint data = um
      obtain ⟨delta, m⟩ := um
      simp only
      split
      · exact ⟨[], rfl, by simp⟩
      · rename_i hm
        have hle : m ≤ data.length := by have := uvarint_le data; rw [hu] at this; exact this
        rw [sliceFrom_ok data m (by omega) hle]
        have hlen : (data.drop m.toNat).length < fuel := by
          rw [List.length_drop]; omega
        obtain ⟨l, hl, hll⟩ := ih (data.drop m.toNat) ((last + delta % w) % w) hlen
        simp only [hl]
        refine ⟨_, rfl, ?_⟩
        rw [List.length_drop] at hll
        simp only [List.length_cons]
        omega

/-- more fuel never changes the result: the bound `len(data) + 1` used by the model hides no divergence -/
theorem decodeLoop_fuel (w : Nat) (fuel fuel' : Nat) (data : Bytes) (last : Nat) (h : data.length < fuel) (h' : data.length < fuel') :
    decodeLoop w fuel data last = decodeLoop w fuel' data last := by
  induction fuel generalizing fuel' data last with
  | zero => omega
  | succ fuel ih =>
    cases fuel' with
    | zero => omega
    | succ fuel' =>
      unfold decodeLoop
      split
      · rfl
      · generalize hu : uvarint data = um
        obtain ⟨delta, m⟩ := um
        simp only
        split
        · rfl
        · rename_i hm
          have hle : m ≤ data.length := by have := uvarint_le data; rw [hu] at this; exact this
          rw [sliceFrom_ok data m (by omega) hle]
          have hlen : (data.drop m.toNat).length < fuel := by rw [List.length_drop]; omega
          have hlen' : (data.drop m.toNat).length < fuel' := by rw [List.length_drop]; omega
          simp only
          rw [ih fuel' _ _ hlen hlen']

/-- **`fromSizedDeltas` / `fromSizedDeltas16` are total**: for every byte string the result is a list (no panic, no
    divergence) with at most `len(data)` elements -/
theorem fromSizedDeltasW_total (w : Nat) (data : Bytes) :
    ∃ l, fromSizedDeltasW w data = .ok l ∧ l.length ≤ data.length := by
  unfold fromSizedDeltasW
  generalize hu : uvarint data = um
  obtain ⟨sz, m⟩ := um
  simp only
  split
  · exact ⟨[], rfl, by simp⟩
  · rename_i hm
    have hle : m ≤ data.length := by have := uvarint_le data; rw [hu] at this; exact this
    rw [sliceFrom_ok data m (by omega) hle]
    obtain ⟨l, hl, hll⟩ := decodeLoop_total w ((data.drop m.toNat).length + 1) (data.drop m.toNat) 0 (by omega)
    refine ⟨l, hl, ?_⟩
    rw [List.length_drop] at hll
    omega

theorem fromSizedDeltas_total (data : Bytes) : Total (fromSizedDeltas data) := by
  obtain ⟨l, hl, _⟩ := fromSizedDeltasW_total two32 data
  simp [Total, fromSizedDeltas, hl, Outcome.isOkOrErr]

theorem fromSizedDeltas16_total (data : Bytes) : Total (fromSizedDeltas16 data) := by
  obtain ⟨l, hl, _⟩ := fromSizedDeltasW_total 65536 data
  simp [Total, fromSizedDeltas16, hl, Outcome.isOkOrErr]

/-- the capacity passed to `make` is bounded by the input, whatever the size prefix claims -/
theorem sizedAlloc_le (data : Bytes) : sizedAlloc data ≤ data.length := by
  unfold sizedAlloc
  generalize uvarint data = um
  obtain ⟨sz, m⟩ := um
  simp only
  split
  · omega
  · have : min sz (data.length - m.toNat) ≤ data.length - m.toNat := Nat.min_le_right _ _
    omega

theorem fromDeltas_total (data : Bytes) : ∃ l, fromDeltas data = .ok l ∧ l.length ≤ data.length :=
  decodeLoop_total two32 (data.length + 1) data 0 (by omega)

theorem docSecLoop_total : ∀ (fuel : Nat) (data : Bytes) (last : Nat), data.length < fuel →
    ∃ l, docSecLoop fuel data last = .ok l ∧ l.length ≤ data.length := by
  intro fuel
  induction fuel with
  | zero => intro data last h; omega
  | succ fuel ih =>
    intro data last h
    unfold docSecLoop
    split
    · exact ⟨[], rfl, by simp⟩
    · generalize hu : uvarint data = um
      obtain ⟨d1, m1⟩ := um
      simp only
      split
      · exact ⟨[], rfl, by simp⟩
      · rename_i hm1
        have hle1 : m1 ≤ data.length := by have := uvarint_le data; rw [hu] at this; exact this
        rw [sliceFrom_ok data m1 (by omega) hle1]
        simp only
        generalize hu2 : uvarint (data.drop m1.toNat) = um2
        obtain ⟨d2, m2⟩ := um2
        simp only
        split
        · exact ⟨[], rfl, by simp⟩
        · rename_i hm2
          have hle2 : m2 ≤ (data.drop m1.toNat).length := by
            have := uvarint_le (data.drop m1.toNat); rw [hu2] at this; exact this
          rw [sliceFrom_ok _ m2 (by omega) hle2]
          have hlen : ((data.drop m1.toNat).drop m2.toNat).length < fuel := by
            simp only [List.length_drop] at hle2 ⊢; omega
          obtain ⟨l, hl, hll⟩ := ih _ (((last + d1 % two32) % two32 + d2 % two32) % two32) hlen
          simp only [hl]
          refine ⟨_, rfl, ?_⟩
          simp only [List.length_drop] at hll hle2
          simp only [List.length_cons]
          omega

/-- **`unmarshalDocSections` is total**, and yields at most `len(data)/2` sections -/
theorem unmarshalDocSections_total (data : Bytes) :
    ∃ l, unmarshalDocSections data = .ok l ∧ l.length ≤ data.length := by
  unfold unmarshalDocSections
  generalize hu : uvarint data = um
  obtain ⟨sz, m⟩ := um
  simp only
  split
  · exact ⟨[], rfl, by simp⟩
  · rename_i hm
    have hle : m ≤ data.length := by have := uvarint_le data; rw [hu] at this; exact this
    rw [sliceFrom_ok data m (by omega) hle]
    obtain ⟨l, hl, hll⟩ := docSecLoop_total ((data.drop m.toNat).length + 1) (data.drop m.toNat) 0 (by omega)
    refine ⟨l, hl, ?_⟩
    rw [List.length_drop] at hll
    omega

/-! ### compressedPostingIterator (fixed code) -/

theorem newPIter_total (b : Bytes) : ∃ it, newPIter b = .ok it ∧ it.blob.length ≤ b.length := by
  unfold newPIter
  generalize hu : uvarint b = um
  obtain ⟨d, sz⟩ := um
  simp only
  split
  · exact ⟨_, rfl, by simp⟩
  · rename_i hcond
    have hle : sz ≤ b.length := by have := uvarint_le b; rw [hu] at this; exact this
    have h0 : 0 ≤ sz := by
      by_cases h : 0 ≤ sz
      · exact h
      · exfalso
        apply hcond
        refine ⟨by omega, ?_⟩
        cases b with
        | nil =>
          have h00 : uvarint ([] : Bytes) = (0, 0) := rfl
          rw [h00] at hu
          cases hu
          omega
        | cons x r => simp
    rw [sliceFrom_ok b sz h0 hle]
    exact ⟨_, rfl, by simp [List.length_drop]⟩

theorem pIterLoop_total (limit : Nat) : ∀ (fuel : Nat) (it : PIter), it.blob.length < fuel →
    ∃ it', pIterLoop limit fuel it = .ok it' ∧ it'.blob.length ≤ it.blob.length := by
  intro fuel
  induction fuel with
  | zero => intro it h; omega
  | succ fuel ih =>
    intro it h
    unfold pIterLoop
    split
    · rename_i hc
      generalize hu : uvarint it.blob = um
      obtain ⟨delta, sz⟩ := um
      simp only
      split
      · exact ⟨_, rfl, by simp⟩
      · rename_i hsz
        have hle : sz ≤ it.blob.length := by have := uvarint_le it.blob; rw [hu] at this; exact this
        rw [sliceFrom_ok it.blob sz (by omega) hle]
        have hlen : (it.blob.drop sz.toNat).length < fuel := by rw [List.length_drop]; omega
        obtain ⟨it', h1, h2⟩ := ih ⟨(it.first + delta % two32) % two32, it.blob.drop sz.toNat⟩ hlen
        refine ⟨it', h1, ?_⟩
        simp only [List.length_drop] at h2
        omega
    · exact ⟨it, rfl, Nat.le_refl _⟩

/-- **`compressedPostingIterator.next` is total** for every iterator state and limit -/
theorem pIterNext_total (it : PIter) (limit : Nat) : ∃ it', pIterNext it limit = .ok it' ∧ it'.blob.length ≤ it.blob.length := by
  unfold pIterNext
  split
  · exact ⟨_, rfl, by simp⟩
  · obtain ⟨it', h1, h2⟩ := pIterLoop_total limit (it.blob.length + 1) it (by omega)
    rw [h1]
    simp only
    split
    · exact ⟨_, rfl, by simp⟩
    · exact ⟨it', rfl, h2⟩

/-! ### mmapedIndexFile.Read and the reader -/

/-- **`Read` never panics**: the bounds check (with the `off > off+sz` wrap-around guard) covers the slice expression -/
theorem read_total (f : File) (off sz : Nat) : Total (f.read off sz) := by
  unfold File.read Total
  simp only
  split
  · rfl
  · first
      | rfl
      | (split
         · rename_i h h2
           exact absurd (h2.elim Or.inl Or.inr) h
         · rfl)

/-- a successful `Read(off, sz)` with `uint32` arguments returns exactly `sz` bytes -/
theorem read_length (f : File) (off sz : Nat) (b : Bytes) (ho : off < two32) (hs : sz < two32) (h : f.read off sz = .ok b) :
    b.length = sz := by
  unfold File.read at h
  simp only at h
  split at h
  · cases h
  · rename_i h1
    first
      | (cases h
         simp only [List.length_take, List.length_drop]
         unfold two32 at *
         omega)
      | (split at h
         · cases h
         · cases h
           simp only [List.length_take, List.length_drop]
           unfold two32 at *
           omega)

theorem rdFixed_total (f : File) (n : Nat) (r : Rd) : Total (rdFixed f n r).1 := by
  unfold rdFixed
  have := read_total f r.off n
  revert this
  cases f.read r.off n <;> simp [Total, Outcome.isOkOrErr]

theorem rdByte_total (f : File) (r : Rd) (hr : r.off < two32) : Total (rdByte f r).1 := by
  unfold rdByte
  cases h : f.read r.off 1 with
  | ok b =>
    have := read_length f r.off 1 b hr (by unfold two32; omega) h
    cases b with
    | nil => simp at this
    | cons x t => simp [Total, Outcome.isOkOrErr]
  | err e => simp [Total, Outcome.isOkOrErr]
  | panic s => have := read_total f r.off 1; rw [h] at this; simp [Total, Outcome.isOkOrErr] at this
  | diverge => have := read_total f r.off 1; rw [h] at this; simp [Total, Outcome.isOkOrErr] at this

theorem rdByte_off (f : File) (r : Rd) : (rdByte f r).2.off < two32 := by
  unfold rdByte
  have : (r.off + 1) % two32 < two32 := Nat.mod_lt _ (by unfold two32; omega)
  cases f.read r.off 1 with
  | ok b => cases b <;> exact this
  | err e => exact this
  | panic s => exact this
  | diverge => exact this

/-- **`reader.Varint`** (`binary.ReadUvarint` over `ReadByte`) is total and reads at most 10 bytes -/
theorem rdVarintAux_total (f : File) : ∀ (fuel i x s : Nat) (r : Rd), r.off < two32 →
    Total (rdVarintAux f fuel i x s r).1 ∧ (rdVarintAux f fuel i x s r).2.off < two32 := by
  intro fuel
  induction fuel with
  | zero => intro i x s r hr; exact ⟨by simp [rdVarintAux, Total, Outcome.isOkOrErr], hr⟩
  | succ fuel ih =>
    intro i x s r hr
    unfold rdVarintAux
    have hb := rdByte_total f r hr
    have ho := rdByte_off f r
    revert hb ho
    generalize rdByte f r = res
    obtain ⟨o, r'⟩ := res
    intro hb ho
    cases o with
    | ok b =>
      simp only
      split
      · split
        · exact ⟨by simp [Total, Outcome.isOkOrErr], ho⟩
        · exact ⟨by simp [Total, Outcome.isOkOrErr], ho⟩
      · exact ih _ _ _ r' ho
    | err e => exact ⟨by simp [Total, Outcome.isOkOrErr], ho⟩
    | panic p => simp [Total, Outcome.isOkOrErr] at hb
    | diverge => simp [Total, Outcome.isOkOrErr] at hb

theorem rdVarint_total (f : File) (r : Rd) (hr : r.off < two32) : Total (rdVarint f r).1 :=
  (rdVarintAux_total f 10 0 0 0 r hr).1

/-- **`reader.Str`** is total: the length prefix is checked by `Read` before anything is sliced or allocated -/
theorem rdStr_total (f : File) (r : Rd) (hr : r.off < two32) : Total (rdStr f r).1 := by
  unfold rdStr
  have hv := rdVarintAux_total f 10 0 0 0 r hr
  unfold rdVarint
  revert hv
  generalize rdVarintAux f 10 0 0 0 r = res
  obtain ⟨o, r'⟩ := res
  intro hv
  cases o with
  | ok slen =>
    simp only
    have := read_total f r'.off (slen % two32)
    revert this
    cases f.read r'.off (slen % two32) <;> simp [Total, Outcome.isOkOrErr]
  | err e => simp [Total, Outcome.isOkOrErr]
  | panic p => have := hv.1; simp [Total, Outcome.isOkOrErr] at this
  | diverge => have := hv.1; simp [Total, Outcome.isOkOrErr] at this

theorem readSimple_total (f : File) (r : Rd) : Total (readSimple f r).1 := by
  unfold readSimple
  have h1 := rdFixed_total f 4 r
  revert h1
  generalize rdFixed f 4 r = res1
  obtain ⟨o1, r1⟩ := res1
  intro h1
  cases o1 with
  | ok off =>
    simp only
    have h2 := rdFixed_total f 4 r1
    revert h2
    generalize rdFixed f 4 r1 = res2
    obtain ⟨o2, r2⟩ := res2
    intro h2
    cases o2 with
    | ok v => simp [Total, Outcome.isOkOrErr]
    | err e => simp [Total, Outcome.isOkOrErr]
    | panic p => simp [Total, Outcome.isOkOrErr] at h2
    | diverge => simp [Total, Outcome.isOkOrErr] at h2
  | err e => simp [Total, Outcome.isOkOrErr]
  | panic p => simp [Total, Outcome.isOkOrErr] at h1
  | diverge => simp [Total, Outcome.isOkOrErr] at h1

/-- stepping through a blob `k` bytes at a time never indexes past its end when `k` divides its length -/
theorem chunksBE_total (k : Nat) (hk : 0 < k) : ∀ (fuel : Nat) (blob : Bytes), blob.length < fuel → blob.length % k = 0 →
    ∃ l, chunksBE k fuel blob = .ok l ∧ l.length * k = blob.length := by
  intro fuel
  induction fuel with
  | zero => intro blob h; omega
  | succ fuel ih =>
    intro blob h hmod
    unfold chunksBE
    split
    · rename_i he
      have : blob = [] := by simpa using he
      subst this
      exact ⟨[], rfl, by simp⟩
    · rename_i hne
      have hpos : 0 < blob.length := by
        cases blob with
        | nil => simp at hne
        | cons x t => simp
      have hge : k ≤ blob.length := Nat.le_of_dvd hpos (Nat.dvd_of_mod_eq_zero hmod)
      have hnl : ¬ blob.length < k := by omega
      simp only [hnl, if_false]
      have hlen : (blob.drop k).length < fuel := by rw [List.length_drop]; omega
      have hmod' : (blob.drop k).length % k = 0 := by
        rw [List.length_drop]
        obtain ⟨q, hq⟩ := Nat.dvd_of_mod_eq_zero hmod
        cases q with
        | zero => rw [Nat.mul_zero] at hq; omega
        | succ q' =>
          have : blob.length - k = k * q' := by rw [hq, Nat.mul_succ, Nat.add_sub_cancel]
          rw [this]; exact Nat.mul_mod_right _ _
      obtain ⟨l, hl, hll⟩ := ih (blob.drop k) hlen hmod'
      rw [hl]
      refine ⟨_, rfl, ?_⟩
      rw [List.length_drop] at hll
      simp only [List.length_cons, Nat.succ_mul]
      omega

/-- **`readSectionU32` / `readSectionU64` are total** (k = 4, 8) for `uint32` section fields -/
theorem readSectionBE_total (k : Nat) (hk : 0 < k) (f : File) (sec : SimpleSection) (ho : sec.off < two32) (hs : sec.sz < two32) :
    Total (readSectionBE k f sec) := by
  unfold readSectionBE
  split
  · simp [Total, Outcome.isOkOrErr]
  · rename_i hmod
    cases h : f.read sec.off sec.sz with
    | ok blob =>
      simp only
      have hl := read_length f sec.off sec.sz blob ho hs h
      have hm : blob.length % k = 0 := by rw [hl]; simpa using hmod
      obtain ⟨l, h1, _⟩ := chunksBE_total k hk (blob.length + 1) blob (by omega) hm
      simp [h1, Total, Outcome.isOkOrErr]
    | err e => simp [Total, Outcome.isOkOrErr]
    | panic s => have := read_total f sec.off sec.sz; rw [h] at this; simp [Total, Outcome.isOkOrErr] at this
    | diverge => have := read_total f sec.off sec.sz; rw [h] at this; simp [Total, Outcome.isOkOrErr] at this

/-- **`newBtreeIndex` (after the fix) is total**: a section whose size is not a multiple of 8 is an error, and the
    8-byte stepping stays inside the section -/
theorem btreeLoad_total (f : File) (sec : SimpleSection) : Total (btreeLoad f sec) := by
  unfold btreeLoad
  cases h : f.read sec.off sec.sz with
  | ok text =>
    simp only
    split
    · simp [Total, Outcome.isOkOrErr]
    · rename_i hmod
      have hm : text.length % 8 = 0 := by simpa using hmod
      obtain ⟨l, h1, _⟩ := chunksBE_total 8 (by omega) (text.length + 1) text (by omega) hm
      simp [h1, Total, Outcome.isOkOrErr]
  | err e => simp [Total, Outcome.isOkOrErr]
  | panic s => have := read_total f sec.off sec.sz; rw [h] at this; simp [Total, Outcome.isOkOrErr] at this
  | diverge => have := read_total f sec.off sec.sz; rw [h] at this; simp [Total, Outcome.isOkOrErr] at this


end ZoektModel.C11.L
