/-
C11 — model of the shard reader's primitives, with every Go operation that can panic (slice expressions, indexing)
or fail to terminate made explicit through `Outcome`:

* `binary.Uvarint` (n = 0: buffer too small, n < 0: overflow) and `binary.ReadUvarint` over `reader.ReadByte`;
* index/bits.go `fromSizedDeltas`, `fromSizedDeltas16`, `fromDeltas`, `unmarshalDocSections` and index/hititer.go
  `newCompressedPostingIterator` / `compressedPostingIterator.next` — as they are after the `fix:` commit
  (stop at the first malformed varint, clamp the claimed element count); `Legacy.*` is the code before it;
* index/indexfile.go `mmapedIndexFile.Read` on `uint32` arithmetic (the `off > off+sz` overflow guard, the page-rounded
  mapping whose tail reads as zeros), `NewIndexFile` failing on an empty file;
* index/read.go `reader.U32/U64/ReadByte/Varint/Str`, `readHeader` (`sz - 8` wraps on files shorter than 8 bytes),
  `readSectionU32/U64`, `newBtreeIndex`'s size check and 8-byte stepping;
* index/section.go `simpleSection.read`, `compoundSection.read`, `compoundSection.relativeIndex` (`o - offsets[0]` wraps).

The ghost allocation bound of a decoder is the capacity it passes to `make` (`…Alloc`).  Core Lean only.
-/
import ZoektModel.Basic.Outcome
namespace ZoektModel.C11
open ZoektModel

abbrev Bytes := List UInt8

def two32 : Nat := 4294967296
def maxU32 : Nat := 4294967295

/-- `binary.Uvarint` from byte `i` on, accumulated value `x`, shift `s`. Returns (value, n). -/
def uvarintAux : Bytes → Nat → Nat → Nat → Nat × Int
  | [], _, _, _ => (0, 0)
  | b :: r, i, x, s =>
    if i = 10 then (0, -((i : Int) + 1))
    else if b.toNat < 128 then
      if i = 9 ∧ b.toNat > 1 then (0, -((i : Int) + 1))
      else ((x ||| (b.toNat <<< s)) % 18446744073709551616, (i : Int) + 1)
    else uvarintAux r (i + 1) (x ||| ((b.toNat &&& 127) <<< s)) (s + 7)

def uvarint (buf : Bytes) : Nat × Int := uvarintAux buf 0 0 0

/-- Go `data[m:]` for an `int` m -/
def sliceFrom (data : Bytes) (m : Int) : Outcome Bytes :=
  if m < 0 ∨ m > data.length then .panic "slice bounds out of range" else .ok (data.drop m.toNat)

/-- the decoding loop shared by the delta decoders: `for len(data) > 0 { delta, m := Uvarint(data); if m <= 0 {break};
    offset := last + uintW(delta); last = offset; data = data[m:]; ps = append(ps, offset) }`.
    `fuel` bounds the iterations; `decodeLoop_fuel` (Props) shows `data.length` iterations always suffice. -/
def decodeLoop (w : Nat) : Nat → Bytes → Nat → Outcome (List Nat)
  | 0, _, _ => .diverge
  | fuel + 1, data, last =>
    if data.isEmpty then .ok [] else
    let (delta, m) := uvarint data
    if m ≤ 0 then .ok [] else
    let offset := (last + delta % w) % w
    match sliceFrom data m with
    | .ok rest =>
      match decodeLoop w fuel rest offset with
      | .ok l => .ok (offset :: l)
      | o => o
    | .err e => .err e
    | .panic s => .panic s
    | .diverge => .diverge

/-- capacity passed to `make` by `fromSizedDeltas` / `fromSizedDeltas16` with a nil buffer -/
def sizedAlloc (data : Bytes) : Nat :=
  let (sz, m) := uvarint data
  if m ≤ 0 then 0 else min sz (data.length - m.toNat)

def fromSizedDeltasW (w : Nat) (data : Bytes) : Outcome (List Nat) :=
  let (_, m) := uvarint data
  if m ≤ 0 then .ok [] else
  match sliceFrom data m with
  | .ok rest => decodeLoop w (rest.length + 1) rest 0
  | .err e => .err e
  | .panic s => .panic s
  | .diverge => .diverge

def fromSizedDeltas (data : Bytes) : Outcome (List Nat) := fromSizedDeltasW two32 data
def fromSizedDeltas16 (data : Bytes) : Outcome (List Nat) := fromSizedDeltasW 65536 data

/-- `fromDeltas` (posting lists; no size prefix; capacity `len(data)/2`) -/
def fromDeltas (data : Bytes) : Outcome (List Nat) := decodeLoop two32 (data.length + 1) data 0
def fromDeltasAlloc (data : Bytes) : Nat := data.length / 2

/-- the loop of `unmarshalDocSections`: two varints per section; a section is appended only when both decode -/
def docSecLoop : Nat → Bytes → Nat → Outcome (List Nat)
  | 0, _, _ => .diverge
  | fuel + 1, data, last =>
    if data.isEmpty then .ok [] else
    let (d1, m1) := uvarint data
    if m1 ≤ 0 then .ok [] else
    let start := (last + d1 % two32) % two32
    match sliceFrom data m1 with
    | .ok rest1 =>
      let (d2, m2) := uvarint rest1
      if m2 ≤ 0 then .ok [] else
      let stop := (start + d2 % two32) % two32
      match sliceFrom rest1 m2 with
      | .ok rest2 =>
        match docSecLoop fuel rest2 stop with
        | .ok l => .ok (start :: stop :: l)
        | o => o
      | .err e => .err e
      | .panic s => .panic s
      | .diverge => .diverge
    | .err e => .err e
    | .panic s => .panic s
    | .diverge => .diverge

/-- `unmarshalDocSections`, result flattened to start₀, end₀, start₁, … -/
def unmarshalDocSections (data : Bytes) : Outcome (List Nat) :=
  let (_, m) := uvarint data
  if m ≤ 0 then .ok [] else
  match sliceFrom data m with
  | .ok rest => docSecLoop (rest.length + 1) rest 0
  | .err e => .err e
  | .panic s => .panic s
  | .diverge => .diverge

def docSecAlloc (data : Bytes) : Nat := sizedAlloc data / 2

/-! ### compressedPostingIterator -/

structure PIter where
  first : Nat
  blob : Bytes
  deriving Repr, DecidableEq

def newPIter (b : Bytes) : Outcome PIter :=
  let (d, sz) := uvarint b
  if sz ≤ 0 ∧ !b.isEmpty then .ok ⟨maxU32, []⟩ else
  match sliceFrom b sz with
  | .ok rest => .ok ⟨d % two32, rest⟩
  | .err e => .err e
  | .panic s => .panic s
  | .diverge => .diverge

def pIterLoop (limit : Nat) : Nat → PIter → Outcome PIter
  | 0, _ => .diverge
  | fuel + 1, it =>
    if it.first ≤ limit ∧ !it.blob.isEmpty then
      let (delta, sz) := uvarint it.blob
      if sz ≤ 0 then .ok ⟨it.first, []⟩ else
      match sliceFrom it.blob sz with
      | .ok rest => pIterLoop limit fuel ⟨(it.first + delta % two32) % two32, rest⟩
      | .err e => .err e
      | .panic s => .panic s
      | .diverge => .diverge
    else .ok it

def pIterNext (it : PIter) (limit : Nat) : Outcome PIter :=
  if limit = maxU32 then .ok ⟨maxU32, []⟩ else
  match pIterLoop limit (it.blob.length + 1) it with
  | .ok it' => if it'.first ≤ limit ∧ it'.blob.isEmpty then .ok ⟨maxU32, []⟩ else .ok it'
  | o => o

/-- `first()` after construction and after each `next(limit)` -/
def pIterRun (b : Bytes) (limits : List Nat) : Outcome (List Nat) :=
  match newPIter b with
  | .ok it =>
    let rec go (it : PIter) : List Nat → Outcome (List Nat)
      | [] => .ok []
      | l :: ls =>
        match pIterNext it l with
        | .ok it' => match go it' ls with
          | .ok r => .ok (it'.first :: r)
          | o => o
        | .err e => .err e
        | .panic s => .panic s
        | .diverge => .diverge
    match go it limits with
    | .ok r => .ok (it.first :: r)
    | o => o
  | .err e => .err e
  | .panic s => .panic s
  | .diverge => .diverge

/-! ### the mmap-backed index file -/

/-- an opened index file: its size and the mapping (`(size + 4095) &^ 4095` bytes, zeros after the file's end) -/
structure File where
  size : Nat
  data : Bytes

/-- `NewIndexFile`: mmap of length 0 fails (`EINVAL`) -/
def openFile (content : Bytes) : Outcome File :=
  if content.isEmpty then .err "mmap" else
  let rounded := (content.length + 4095) / 4096 * 4096
  .ok ⟨content.length, content ++ List.replicate (rounded - content.length) 0⟩

/-- `mmapedIndexFile.Read(off, sz)` with `uint32` wrap-around in `off+sz` -/
def File.read (f : File) (off sz : Nat) : Outcome Bytes :=
  let e := (off + sz) % two32
  if off > e ∨ e > f.data.length then .err "out of bounds"
  else if e < off ∨ e > f.data.length then .panic "slice bounds out of range"   -- f.data[off : off+sz]
  else .ok ((f.data.drop off).take (e - off))

def beNat : Bytes → Nat
  | [] => 0
  | b :: r => b.toNat * 256 ^ r.length + beNat r

/-- `reader`: the file and the current offset (`uint32`) -/
structure Rd where
  off : Nat

/-- `reader.U32` / `U64`: note that `r.off` advances even when the read fails -/
def rdFixed (f : File) (n : Nat) (r : Rd) : Outcome Nat × Rd :=
  let r' : Rd := ⟨(r.off + n) % two32⟩
  match f.read r.off n with
  | .ok b => (.ok (beNat b), r')
  | .err e => (.err e, r')
  | .panic s => (.panic s, r')
  | .diverge => (.diverge, r')

/-- `reader.ReadByte` -/
def rdByte (f : File) (r : Rd) : Outcome Nat × Rd :=
  let r' : Rd := ⟨(r.off + 1) % two32⟩
  match f.read r.off 1 with
  | .ok b =>
    match b with
    | x :: _ => (.ok x.toNat, r')
    | [] => (.panic "index out of range", r')       -- b[0]
  | .err e => (.err e, r')
  | .panic s => (.panic s, r')
  | .diverge => (.diverge, r')

/-- `binary.ReadUvarint(r)`: at most 10 bytes -/
def rdVarintAux (f : File) : Nat → Nat → Nat → Nat → Rd → Outcome Nat × Rd
  | 0, _, _, _, r => (.err "overflow", r)
  | fuel + 1, i, x, s, r =>
    match rdByte f r with
    | (.ok b, r') =>
      if b < 128 then
        if i = 9 ∧ b > 1 then (.err "overflow", r')
        else (.ok ((x ||| (b <<< s)) % 18446744073709551616), r')
      else rdVarintAux f fuel (i + 1) (x ||| ((b &&& 127) <<< s)) (s + 7) r'
    | (.err e, r') => (.err e, r')
    | (.panic p, r') => (.panic p, r')
    | (.diverge, r') => (.diverge, r')

def rdVarint (f : File) (r : Rd) : Outcome Nat × Rd := rdVarintAux f 10 0 0 0 r

/-- `reader.Str`: a varint length, then that many bytes (`uint32(slen)` truncation) -/
def rdStr (f : File) (r : Rd) : Outcome Bytes × Rd :=
  match rdVarint f r with
  | (.ok slen, r') =>
    let n := slen % two32
    match f.read r'.off n with
    | .ok b => (.ok b, ⟨(r'.off + n) % two32⟩)
    | .err e => (.err e, r')
    | .panic s => (.panic s, r')
    | .diverge => (.diverge, r')
  | (.err e, r') => (.err e, r')
  | (.panic s, r') => (.panic s, r')
  | (.diverge, r') => (.diverge, r')

structure SimpleSection where
  off : Nat
  sz : Nat
  deriving Repr, DecidableEq

/-- `simpleSection.read` -/
def readSimple (f : File) (r : Rd) : Outcome SimpleSection × Rd :=
  match rdFixed f 4 r with
  | (.ok off, r1) =>
    match rdFixed f 4 r1 with
    | (.ok sz, r2) => (.ok ⟨off, sz⟩, r2)
    | (.err e, r2) => (.err e, r2)
    | (.panic s, r2) => (.panic s, r2)
    | (.diverge, r2) => (.diverge, r2)
  | (.err e, r1) => (.err e, r1)
  | (.panic s, r1) => (.panic s, r1)
  | (.diverge, r1) => (.diverge, r1)

/-- `reader.readHeader`: `r.off = sz - 8` (wraps below 8), the TOC section, seek, section count -/
def headerStart (f : File) : Rd := ⟨(f.size + two32 - 8) % two32⟩

/-- `readHeader`, second half: `r.seek(tocSection.off)`; the section count; the reader position afterwards -/
def readHeaderCount (f : File) (toc : SimpleSection) : Outcome (SimpleSection × Nat × Nat) :=
  let r := rdFixed f 4 ⟨toc.off⟩
  match r.1 with
  | .ok n => .ok (toc, n, r.2.off)
  | .err e => .err e
  | .panic s => .panic s
  | .diverge => .diverge

/-- `readHeader` from reader position `r` on: the TOC section, then the count -/
def readHeaderAt (f : File) (r : Rd) : Outcome (SimpleSection × Nat × Nat) :=
  match (readSimple f r).1 with
  | .ok toc => readHeaderCount f toc
  | .err e => .err e
  | .panic s => .panic s
  | .diverge => .diverge

def readHeader (f : File) : Outcome (SimpleSection × Nat × Nat) := readHeaderAt f (headerStart f)

/-- `for len(blob) > 0 { arr = append(arr, BigEndian.UintN(blob)); blob = blob[k:] }` -/
def chunksBE (k : Nat) : Nat → Bytes → Outcome (List Nat)
  | 0, _ => .diverge
  | fuel + 1, blob =>
    if blob.isEmpty then .ok [] else
    if blob.length < k then .panic "index out of range" else
    match chunksBE k fuel (blob.drop k) with
    | .ok l => .ok (beNat (blob.take k) :: l)
    | o => o

/-- `readSectionU32` (k = 4) / `readSectionU64` (k = 8) -/
def readSectionBE (k : Nat) (f : File) (sec : SimpleSection) : Outcome (List Nat) :=
  if sec.sz % k ≠ 0 then .err "barf" else
  match f.read sec.off sec.sz with
  | .ok blob => chunksBE k (blob.length + 1) blob
  | .err e => .err e
  | .panic s => .panic s
  | .diverge => .diverge

structure Compound where
  data : SimpleSection
  offsets : List Nat
  deriving Repr, DecidableEq

/-- `compoundSection.read` -/
def readCompound (f : File) (r : Rd) : Outcome Compound :=
  match readSimple f r with
  | (.ok data, r1) =>
    match readSimple f r1 with
    | (.ok idx, _) =>
      match readSectionBE 4 f idx with
      | .ok offs => .ok ⟨data, offs⟩
      | .err e => .err e
      | .panic s => .panic s
      | .diverge => .diverge
    | (.err e, _) => .err e
    | (.panic s, _) => .panic s
    | (.diverge, _) => .diverge
  | (.err e, _) => .err e
  | (.panic s, _) => .panic s
  | (.diverge, _) => .diverge

/-- `compoundSection.relativeIndex`: `o - s.offsets[0]` in `uint32`, then `data.sz` -/
def relativeIndex (c : Compound) : List Nat :=
  match c.offsets with
  | [] => []
  | o0 :: _ => c.offsets.map (fun o => (o + two32 - o0) % two32) ++ [c.data.sz]

/-- `newBtreeIndex`: read the ngram section, (after the fix) reject sizes that are not a multiple of 8, then step
    through it 8 bytes at a time (`textContent[i : i+8]`). Returns the number of ngrams inserted. -/
def btreeLoad (f : File) (sec : SimpleSection) : Outcome Nat :=
  match f.read sec.off sec.sz with
  | .ok text =>
    if text.length % 8 ≠ 0 then .err "barf" else
    match chunksBE 8 (text.length + 1) text with
    | .ok l => .ok l.length
    | .err e => .err e
    | .panic s => .panic s
    | .diverge => .diverge
  | .err e => .err e
  | .panic s => .panic s
  | .diverge => .diverge

/-! ### the code before the fix: the decoding loop as a small-step machine, so that non-termination is a statement -/
namespace Legacy

structure St where
  data : Bytes
  last : Nat
  out : List Nat
  deriving Repr, DecidableEq

inductive Step where
  | done (out : List Nat)
  | panic
  | next (s : St)
  deriving Repr, DecidableEq

/-- one iteration of the old `for len(data) > 0 { delta, m := Uvarint(data); …; data = data[m:]; ps = append(ps, offset) }` -/
def step (s : St) : Step :=
  if s.data.isEmpty then .done s.out else
  let (delta, m) := uvarint s.data
  let offset := (s.last + delta % two32) % two32
  if m < 0 then .panic else
  .next ⟨s.data.drop m.toNat, offset, s.out ++ [offset]⟩

/-- the old `fromSizedDeltas` prologue: `sz, m := Uvarint(data); data = data[m:]` -/
def start (data : Bytes) : Step :=
  let (_, m) := uvarint data
  if m < 0 then .panic else .next ⟨data.drop m.toNat, 0, []⟩

def iter : Nat → St → Step
  | 0, s => .next s
  | n + 1, s => match step s with
    | .next s' => iter n s'
    | r => r

/-- capacity the old code passed to `make`: the claimed count, whatever the data holds -/
def alloc (data : Bytes) : Nat := (uvarint data).1

end Legacy
end ZoektModel.C11
