/-
C11 — `readHeader` and `readTOCSections` are total: every step is a bounds-checked read, and every iteration of the
tagged loop moves the reader forward inside the mapping.
-/
import ZoektModel.C11.TOC
import ZoektModel.C11.Lemmas
namespace ZoektModel.C11.L
open ZoektModel ZoektModel.C11

/-- reader offsets the code can produce: `uint32` values -/
def RdOk (r : Rd) : Prop := r.off < two32

theorem two32_pos : 0 < two32 := by unfold two32; omega

/-- a successful `Read(off, sz)` lies inside the mapping and does not wrap -/
theorem read_ok_bounds (f : File) (off sz : Nat) (b : Bytes) (h : f.read off sz = .ok b) :
    off ≤ (off + sz) % two32 ∧ (off + sz) % two32 ≤ f.data.length := by
  unfold File.read at h
  simp only at h
  split at h
  · cases h
  · rename_i h1
    omega

theorem beNat_lt : ∀ (b : Bytes), beNat b < 256 ^ b.length := by
  intro b
  induction b with
  | nil => simp [beNat]
  | cons x r ih =>
    simp only [beNat, List.length_cons, Nat.pow_succ]
    have hx : x.toNat < 256 := x.toNat_lt
    have hp : 0 < 256 ^ r.length := Nat.pow_pos (by omega)
    calc x.toNat * 256 ^ r.length + beNat r
        < x.toNat * 256 ^ r.length + 256 ^ r.length := by omega
      _ = (x.toNat + 1) * 256 ^ r.length := by rw [Nat.add_mul, Nat.one_mul]
      _ ≤ 256 * 256 ^ r.length := Nat.mul_le_mul_right _ (by omega)
      _ = 256 ^ r.length * 256 := Nat.mul_comm _ _

/-- facts about a successful fixed-width read (`U32`: n = 4) -/
theorem rdFixed_ok (f : File) (n : Nat) (r : Rd) (v : Nat) (hr : RdOk r) (hn : n < two32)
    (h : (rdFixed f n r).1 = .ok v) :
    v < 256 ^ n ∧ r.off ≤ (rdFixed f n r).2.off ∧ (rdFixed f n r).2.off ≤ f.data.length ∧ RdOk (rdFixed f n r).2 := by
  unfold rdFixed at h ⊢
  cases hrd : f.read r.off n with
  | ok b =>
    rw [hrd] at h
    simp only at h ⊢
    cases h
    have hl := read_length f r.off n b hr hn hrd
    have hb := read_ok_bounds f r.off n b hrd
    refine ⟨by rw [← hl]; exact beNat_lt b, hb.1, hb.2, Nat.mod_lt _ two32_pos⟩
  | err e => rw [hrd] at h; cases h
  | panic s => rw [hrd] at h; cases h
  | diverge => rw [hrd] at h; cases h

theorem rdFixed_rdok (f : File) (n : Nat) (r : Rd) : RdOk (rdFixed f n r).2 := by
  unfold rdFixed
  cases f.read r.off n <;> exact Nat.mod_lt _ two32_pos

theorem rdFixed_total' (f : File) (n : Nat) (r : Rd) : Total (rdFixed f n r).1 := rdFixed_total f n r

theorem pow4 : (256 : Nat) ^ 4 = two32 := by decide

/-- `simpleSection.read`: on success both fields are `uint32`, the reader moved forward and stays in the mapping -/
theorem readSimple_ok (f : File) (r : Rd) (s : SimpleSection) (hr : RdOk r) (h : (readSimple f r).1 = .ok s) :
    s.off < two32 ∧ s.sz < two32 ∧ r.off ≤ (readSimple f r).2.off ∧ (readSimple f r).2.off ≤ f.data.length ∧
      RdOk (readSimple f r).2 := by
  unfold readSimple at h ⊢
  have h4 : 4 < two32 := by unfold two32; omega
  cases h1 : rdFixed f 4 r with
  | mk o1 r1 =>
    rw [h1] at h
    cases o1 with
    | ok off =>
      simp only at h ⊢
      have e1 : (rdFixed f 4 r).1 = .ok off := by rw [h1]
      have f1 := rdFixed_ok f 4 r off hr h4 e1
      rw [h1] at f1
      simp only at f1
      cases h2 : rdFixed f 4 r1 with
      | mk o2 r2 =>
        rw [h2] at h
        cases o2 with
        | ok sz =>
          simp only at h ⊢
          cases h
          have e2 : (rdFixed f 4 r1).1 = .ok sz := by rw [h2]
          have f2 := rdFixed_ok f 4 r1 sz f1.2.2.2 h4 e2
          rw [h2] at f2
          simp only at f2
          rw [pow4] at f1 f2
          exact ⟨f1.1, f2.1, by omega, f2.2.2.1, f2.2.2.2⟩
        | err e => simp at h
        | panic p => simp at h
        | diverge => simp at h
    | err e => simp at h
    | panic p => simp at h
    | diverge => simp at h

theorem readSimple_rdok (f : File) (r : Rd) : RdOk (readSimple f r).2 := by
  unfold readSimple
  cases h1 : rdFixed f 4 r with
  | mk o1 r1 =>
    have k1 : RdOk r1 := by have := rdFixed_rdok f 4 r; rw [h1] at this; exact this
    cases o1 with
    | ok off =>
      simp only
      cases h2 : rdFixed f 4 r1 with
      | mk o2 r2 =>
        have k2 : RdOk r2 := by have := rdFixed_rdok f 4 r1; rw [h2] at this; exact this
        cases o2 <;> exact k2
    | err e => exact k1
    | panic p => exact k1
    | diverge => exact k1

theorem headerStart_rdok (f : File) : RdOk (headerStart f) := Nat.mod_lt _ two32_pos

-- NOTE: never unfold a `match` whose discriminant mentions `headerStart f` = `(f.size + 4294967296 - 8) % 4294967296`:
-- Lean then tries to evaluate the reads at that offset and peels the literal one successor at a time. All lemmas
-- below are about an arbitrary reader position and are instantiated at `headerStart f` at the very end.

theorem readHeaderAt_total (f : File) (r : Rd) : Total (readHeaderAt f r) := by
  unfold readHeaderAt
  have h1 := readSimple_total f r
  cases h : (readSimple f r).1 with
  | ok toc =>
    simp only
    unfold readHeaderCount
    simp only
    have h2 := rdFixed_total f 4 ⟨toc.off⟩
    cases h3 : (rdFixed f 4 ⟨toc.off⟩).1 with
    | ok n => simp [Total, Outcome.isOkOrErr]
    | err e => simp [Total, Outcome.isOkOrErr]
    | panic p => rw [h3] at h2; simp [Total, Outcome.isOkOrErr] at h2
    | diverge => rw [h3] at h2; simp [Total, Outcome.isOkOrErr] at h2
  | err e => simp [Total, Outcome.isOkOrErr]
  | panic p => rw [h] at h1; simp [Total, Outcome.isOkOrErr] at h1
  | diverge => rw [h] at h1; simp [Total, Outcome.isOkOrErr] at h1

/-- **`readHeader` is total**, including on files shorter than 8 bytes where `sz - 8` wraps around -/
theorem readHeader_total (f : File) : Total (readHeader f) := by
  unfold readHeader
  exact readHeaderAt_total f _

theorem readHeaderAt_ok (f : File) (r : Rd) (hr : RdOk r) (toc : SimpleSection) (n pos : Nat)
    (h : readHeaderAt f r = .ok (toc, n, pos)) :
    pos < two32 ∧ pos ≤ f.data.length ∧ toc.off < two32 ∧ toc.sz < two32 := by
  unfold readHeaderAt at h
  cases h1 : (readSimple f r).1 with
  | ok toc' =>
    rw [h1] at h
    simp only at h
    have s1 := readSimple_ok f r toc' hr h1
    unfold readHeaderCount at h
    simp only at h
    cases h3 : (rdFixed f 4 ⟨toc'.off⟩).1 with
    | ok n' =>
      have := rdFixed_ok f 4 ⟨toc'.off⟩ n' s1.1 (by unfold two32; omega) h3
      rw [h3] at h
      simp only at h
      cases h
      exact ⟨this.2.2.2, this.2.2.1, s1.1, s1.2.1⟩
    | err e => rw [h3] at h; cases h
    | panic p => rw [h3] at h; cases h
    | diverge => rw [h3] at h; cases h
  | err e => rw [h1] at h; cases h
  | panic p => rw [h1] at h; cases h
  | diverge => rw [h1] at h; cases h

/-- on success the TOC section's fields are `uint32` and the reader stands inside the mapping -/
theorem readHeader_ok (f : File) (toc : SimpleSection) (n pos : Nat) (h : readHeader f = .ok (toc, n, pos)) :
    pos < two32 ∧ pos ≤ f.data.length ∧ toc.off < two32 ∧ toc.sz < two32 := by
  unfold readHeader at h
  exact readHeaderAt_ok f _ (headerStart_rdok f) toc n pos h

end ZoektModel.C11.L
