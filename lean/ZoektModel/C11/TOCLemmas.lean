/-
C11 — `readHeader` and `readTOCSections` are total: every step is a bounds-checked read, and every iteration of the
tagged loop moves the reader forward inside the mapping.
-/
import ZoektModel.C11.TOC
import ZoektModel.C11.Lemmas
namespace ZoektModel.C11.L
open ZoektModel ZoektModel.C11

/-- reader offsets the code can produce: `uint32` values -/
def RdOk (r : Rd) : Prop := r.off < two32

theorem two32_pos : 0 < two32 := by unfold two32; omega

/-- a successful `Read(off, sz)` lies inside the mapping and does not wrap -/
theorem read_ok_bounds (f : File) (off sz : Nat) (b : Bytes) (h : f.read off sz = .ok b) :
    off ≤ (off + sz) % two32 ∧ (off + sz) % two32 ≤ f.data.length := by
  unfold File.read at h
  simp only at h
  split at h
  · cases h
  · rename_i h1
    omega

theorem beNat_lt : ∀ (b : Bytes), beNat b < 256 ^ b.length := by
  intro b
  induction b with
  | nil => simp [beNat]
  | cons x r ih =>
    simp only [beNat, List.length_cons, Nat.pow_succ]
    have hx : x.toNat < 256 := x.toNat_lt
    have hp : 0 < 256 ^ r.length := Nat.pow_pos (by omega)
    calc x.toNat * 256 ^ r.length + beNat r
        < x.toNat * 256 ^ r.length + 256 ^ r.length := by omega
      _ = (x.toNat + 1) * 256 ^ r.length := by rw [Nat.add_mul, Nat.one_mul]
      _ ≤ 256 * 256 ^ r.length := Nat.mul_le_mul_right _ (by omega)
      _ = 256 ^ r.length * 256 := Nat.mul_comm _ _

/-- facts about a successful fixed-width read (`U32`: n = 4) -/
theorem rdFixed_ok (f : File) (n : Nat) (r : Rd) (v : Nat) (hr : RdOk r) (hn : n < two32)
    (h : (rdFixed f n r).1 = .ok v) :
    v < 256 ^ n ∧ r.off ≤ (rdFixed f n r).2.off ∧ (rdFixed f n r).2.off ≤ f.data.length ∧ RdOk (rdFixed f n r).2 := by
  unfold rdFixed at h ⊢
  cases hrd : f.read r.off n with
  | ok b =>
    rw [hrd] at h
    simp only at h ⊢
    cases h
    have hl := read_length f r.off n b hr hn hrd
    have hb := read_ok_bounds f r.off n b hrd
    refine ⟨by rw [← hl]; exact beNat_lt b, hb.1, hb.2, Nat.mod_lt _ two32_pos⟩
  | err e => rw [hrd] at h; cases h
  | panic s => rw [hrd] at h; cases h
  | diverge => rw [hrd] at h; cases h

theorem rdFixed_rdok (f : File) (n : Nat) (r : Rd) : RdOk (rdFixed f n r).2 := by
  unfold rdFixed
  cases f.read r.off n <;> exact Nat.mod_lt _ two32_pos

theorem rdFixed_total' (f : File) (n : Nat) (r : Rd) : Total (rdFixed f n r).1 := rdFixed_total f n r

theorem pow4 : (256 : Nat) ^ 4 = two32 := by decide

/-- `simpleSection.read`: on success both fields are `uint32`, the reader moved forward and stays in the mapping -/
theorem readSimple_ok (f : File) (r : Rd) (s : SimpleSection) (hr : RdOk r) (h : (readSimple f r).1 = .ok s) :
    s.off < two32 ∧ s.sz < two32 ∧ r.off ≤ (readSimple f r).2.off ∧ (readSimple f r).2.off ≤ f.data.length ∧
      RdOk (readSimple f r).2 := by
  unfold readSimple at h ⊢
  have h4 : 4 < two32 := by unfold two32; omega
  cases h1 : rdFixed f 4 r with
  | mk o1 r1 =>
    rw [h1] at h
    cases o1 with
    | ok off =>
      simp only at h ⊢
      have e1 : (rdFixed f 4 r).1 = .ok off := by rw [h1]
      have f1 := rdFixed_ok f 4 r off hr h4 e1
      rw [h1] at f1
      simp only at f1
      cases h2 : rdFixed f 4 r1 with
      | mk o2 r2 =>
        rw [h2] at h
        cases o2 with
        | ok sz =>
          simp only at h ⊢
          cases h
          have e2 : (rdFixed f 4 r1).1 = .ok sz := by rw [h2]
          have f2 := rdFixed_ok f 4 r1 sz f1.2.2.2 h4 e2
          rw [h2] at f2
          simp only at f2
          rw [pow4] at f1 f2
          exact ⟨f1.1, f2.1, by omega, f2.2.2.1, f2.2.2.2⟩
        | err e => simp at h
        | panic p => simp at h
        | diverge => simp at h
    | err e => simp at h
    | panic p => simp at h
    | diverge => simp at h

theorem readSimple_rdok (f : File) (r : Rd) : RdOk (readSimple f r).2 := by
  unfold readSimple
  cases h1 : rdFixed f 4 r with
  | mk o1 r1 =>
    have k1 : RdOk r1 := by have := rdFixed_rdok f 4 r; rw [h1] at this; exact this
    cases o1 with
    | ok off =>
      simp only
      cases h2 : rdFixed f 4 r1 with
      | mk o2 r2 =>
        have k2 : RdOk r2 := by have := rdFixed_rdok f 4 r1; rw [h2] at this; exact this
        cases o2 <;> exact k2
    | err e => exact k1
    | panic p => exact k1
    | diverge => exact k1

theorem headerStart_rdok (f : File) : RdOk (headerStart f) := Nat.mod_lt _ two32_pos

-- NOTE: never unfold a `match` whose discriminant mentions `headerStart f` = `(f.size + 4294967296 - 8) % 4294967296`:
-- Lean then tries to evaluate the reads at that offset and peels the literal one successor at a time. All lemmas
-- below are about an arbitrary reader position and are instantiated at `headerStart f` at the very end.

theorem readHeaderAt_total (f : File) (r : Rd) : Total (readHeaderAt f r) := by
  unfold readHeaderAt
  have h1 := readSimple_total f r
  cases h : (readSimple f r).1 with
  | ok toc =>
    simp only
    unfold readHeaderCount
    simp only
    have h2 := rdFixed_total f 4 ⟨toc.off⟩
    cases h3 : (rdFixed f 4 ⟨toc.off⟩).1 with
    | ok n => simp [Total, Outcome.isOkOrErr]
    | err e => simp [Total, Outcome.isOkOrErr]
    | panic p => rw [h3] at h2; simp [Total, Outcome.isOkOrErr] at h2
    | diverge => rw [h3] at h2; simp [Total, Outcome.isOkOrErr] at h2
  | err e => simp [Total, Outcome.isOkOrErr]
  | panic p => rw [h] at h1; simp [Total, Outcome.isOkOrErr] at h1
  | diverge => rw [h] at h1; simp [Total, Outcome.isOkOrErr] at h1

/-- **`readHeader` is total**, including on files shorter than 8 bytes where `sz - 8` wraps around -/
theorem readHeader_total (f : File) : Total (readHeader f) := by
  unfold readHeader
  exact readHeaderAt_total f _

theorem readHeaderAt_ok (f : File) (r : Rd) (hr : RdOk r) (toc : SimpleSection) (n pos : Nat)
    (h : readHeaderAt f r = .ok (toc, n, pos)) :
    pos < two32 ∧ pos ≤ f.data.length ∧ toc.off < two32 ∧ toc.sz < two32 := by
  unfold readHeaderAt at h
  cases h1 : (readSimple f r).1 with
  | ok toc' =>
    rw [h1] at h
    simp only at h
    have s1 := readSimple_ok f r toc' hr h1
    unfold readHeaderCount at h
    simp only at h
    cases h3 : (rdFixed f 4 ⟨toc'.off⟩).1 with
    | ok n' =>
      have := rdFixed_ok f 4 ⟨toc'.off⟩ n' s1.1 (by unfold two32; omega) h3
      rw [h3] at h
      simp only at h
      cases h
      exact ⟨this.2.2.2, this.2.2.1, s1.1, s1.2.1⟩
    | err e => rw [h3] at h; cases h
    | panic p => rw [h3] at h; cases h
    | diverge => rw [h3] at h; cases h
  | err e => rw [h1] at h; cases h
  | panic p => rw [h1] at h; cases h
  | diverge => rw [h1] at h; cases h

/-- on success the TOC section's fields are `uint32` and the reader stands inside the mapping -/
theorem readHeader_ok (f : File) (toc : SimpleSection) (n pos : Nat) (h : readHeader f = .ok (toc, n, pos)) :
    pos < two32 ∧ pos ≤ f.data.length ∧ toc.off < two32 ∧ toc.sz < two32 := by
  unfold readHeader at h
  exact readHeaderAt_ok f _ (headerStart_rdok f) toc n pos h

/-! ### reader actions: totality and movement of the reader -/

/-- started inside the mapping at a `uint32` position, `m` never panics or diverges, keeps the reader a `uint32`, and
    when it succeeds its value satisfies `P`, the reader has not moved backwards and still stands inside the mapping -/
def Good {α} (f : File) (m : RdM α) (P : α → Prop) : Prop :=
  ∀ r, RdOk r → r.off ≤ f.data.length → Total (m r).1 ∧ RdOk (m r).2 ∧
    ∀ a, (m r).1 = .ok a → P a ∧ r.off ≤ (m r).2.off ∧ (m r).2.off ≤ f.data.length

/-- like `Good`, and a success moves the reader strictly forward -/
def Strict {α} (f : File) (m : RdM α) : Prop :=
  ∀ r, RdOk r → r.off ≤ f.data.length → Total (m r).1 ∧ RdOk (m r).2 ∧
    ∀ a, (m r).1 = .ok a → r.off < (m r).2.off ∧ (m r).2.off ≤ f.data.length

theorem good_pure {α} (f : File) (a : α) (P : α → Prop) (h : P a) : Good f (RdM.pure a) P := by
  intro r hr hl
  refine ⟨by simp [RdM.pure, Total, Outcome.isOkOrErr], hr, ?_⟩
  intro b hb
  simp only [RdM.pure] at hb ⊢
  cases hb
  exact ⟨h, Nat.le_refl _, hl⟩

theorem good_lift {α} (f : File) (o : Outcome α) (P : α → Prop) (ht : Total o) (hp : ∀ a, o = .ok a → P a) :
    Good f (RdM.lift o) P := by
  intro r hr hl
  exact ⟨ht, hr, fun a ha => ⟨hp a ha, Nat.le_refl _, hl⟩⟩

/-- the reader position after `bind m k` when `m` succeeded -/
theorem bind_ok_eq {α β} (m : RdM α) (k : α → RdM β) (r : Rd) (a : α) (h : (m r).1 = .ok a) :
    RdM.bind m k r = k a (m r).2 := by
  unfold RdM.bind
  rw [h]

theorem bind_total {α β} (m : RdM α) (k : α → RdM β) (r : Rd) (hm : Total (m r).1)
    (hk : ∀ a, (m r).1 = .ok a → Total (k a (m r).2).1) : Total (RdM.bind m k r).1 := by
  unfold RdM.bind
  cases h : (m r).1 with
  | ok a => simp only; exact hk a h
  | err e => simp [Total, Outcome.isOkOrErr]
  | panic p => rw [h] at hm; simp [Total, Outcome.isOkOrErr] at hm
  | diverge => rw [h] at hm; simp [Total, Outcome.isOkOrErr] at hm

theorem bind_rdok {α β} (m : RdM α) (k : α → RdM β) (r : Rd) (hm : RdOk (m r).2)
    (hk : ∀ a, (m r).1 = .ok a → RdOk (k a (m r).2).2) : RdOk (RdM.bind m k r).2 := by
  unfold RdM.bind
  cases h : (m r).1 with
  | ok a => simp only; exact hk a h
  | err e => exact hm
  | panic p => exact hm
  | diverge => exact hm

theorem bind_ok_inv {α β} (m : RdM α) (k : α → RdM β) (r : Rd) (b : β) (h : (RdM.bind m k r).1 = .ok b) :
    ∃ a, (m r).1 = .ok a ∧ (k a (m r).2).1 = .ok b ∧ (RdM.bind m k r).2 = (k a (m r).2).2 := by
  unfold RdM.bind at h ⊢
  cases hm : (m r).1 with
  | ok a => rw [hm] at h; simp only at h ⊢; exact ⟨a, rfl, h, rfl⟩
  | err e => rw [hm] at h; cases h
  | panic p => rw [hm] at h; cases h
  | diverge => rw [hm] at h; cases h

/-- `Good` composes -/
theorem good_bind {α β} (f : File) (m : RdM α) (k : α → RdM β) (P : α → Prop) (Q : β → Prop)
    (hm : Good f m P) (hk : ∀ a, P a → Good f (k a) Q) : Good f (RdM.bind m k) Q := by
  intro r hr hl
  obtain ⟨t1, o1, s1⟩ := hm r hr hl
  refine ⟨?_, ?_, ?_⟩
  · exact bind_total m k r t1 (fun a ha => ((hk a (s1 a ha).1) _ o1 (s1 a ha).2.2).1)
  · exact bind_rdok m k r o1 (fun a ha => ((hk a (s1 a ha).1) _ o1 (s1 a ha).2.2).2.1)
  · intro b hb
    obtain ⟨a, ha, hkb, heq⟩ := bind_ok_inv m k r b hb
    obtain ⟨pa, le1, le0⟩ := s1 a ha
    obtain ⟨_, _, s2⟩ := (hk a pa) _ o1 le0
    obtain ⟨qb, le2, le3⟩ := s2 b hkb
    rw [heq]
    exact ⟨qb, Nat.le_trans le1 le2, le3⟩

/-- a strict action followed by good ones is strict -/
theorem strict_bind {α β} (f : File) (m : RdM α) (k : α → RdM β) (Q : β → Prop)
    (hm : Strict f m) (hk : ∀ a, Good f (k a) Q) : Strict f (RdM.bind m k) := by
  intro r hr hl
  obtain ⟨t1, o1, s1⟩ := hm r hr hl
  refine ⟨?_, ?_, ?_⟩
  · exact bind_total m k r t1 (fun a ha => ((hk a) _ o1 (s1 a ha).2).1)
  · exact bind_rdok m k r o1 (fun a ha => ((hk a) _ o1 (s1 a ha).2).2.1)
  · intro b hb
    obtain ⟨a, ha, hkb, heq⟩ := bind_ok_inv m k r b hb
    obtain ⟨lt1, le0⟩ := s1 a ha
    obtain ⟨_, _, s2⟩ := (hk a) _ o1 le0
    obtain ⟨_, le2, le3⟩ := s2 b hkb
    rw [heq]
    exact ⟨Nat.lt_of_lt_of_le lt1 le2, le3⟩

theorem good_of_strict {α} (f : File) (m : RdM α) (h : Strict f m) : Good f m (fun _ => True) := by
  intro r hr hl
  obtain ⟨t, o, s⟩ := h r hr hl
  exact ⟨t, o, fun a ha => ⟨trivial, Nat.le_of_lt (s a ha).1, (s a ha).2⟩⟩

theorem good_weaken {α} (f : File) (m : RdM α) (P Q : α → Prop) (h : Good f m P) (hpq : ∀ a, P a → Q a) : Good f m Q := by
  intro r hr hl
  obtain ⟨t, o, s⟩ := h r hr hl
  exact ⟨t, o, fun a ha => ⟨hpq a (s a ha).1, (s a ha).2⟩⟩

/-! ### the basic actions -/

theorem good_readSimple (f : File) : Good f (readSimple f) (fun s => s.off < two32 ∧ s.sz < two32) := by
  intro r hr _
  refine ⟨readSimple_total f r, readSimple_rdok f r, ?_⟩
  intro s hs
  have := readSimple_ok f r s hr hs
  exact ⟨⟨this.1, this.2.1⟩, this.2.2.1, this.2.2.2.1⟩

theorem rdByte_ok (f : File) (r : Rd) (b : Nat) (hr : RdOk r) (h : (rdByte f r).1 = .ok b) :
    (rdByte f r).2.off = r.off + 1 ∧ r.off + 1 ≤ f.data.length := by
  unfold rdByte at h ⊢
  cases hrd : f.read r.off 1 with
  | ok bs =>
    have hb := read_ok_bounds f r.off 1 bs hrd
    have hr' : r.off < two32 := hr
    have : (r.off + 1) % two32 = r.off + 1 := by
      unfold two32 at *
      omega
    rw [this] at hb
    cases bs <;> simp only <;> exact ⟨this, hb.2⟩
  | err e => rw [hrd] at h; cases h
  | panic s => rw [hrd] at h; cases h
  | diverge => rw [hrd] at h; cases h

theorem rdVarintAux_ok (f : File) : ∀ (fuel i x s : Nat) (r : Rd) (v : Nat), RdOk r →
    (rdVarintAux f fuel i x s r).1 = .ok v →
    r.off < (rdVarintAux f fuel i x s r).2.off ∧ (rdVarintAux f fuel i x s r).2.off ≤ f.data.length := by
  intro fuel
  induction fuel with
  | zero => intro i x s r v _ h; simp [rdVarintAux] at h
  | succ fuel ih =>
    intro i x s r v hr h
    unfold rdVarintAux at h ⊢
    have hro := rdByte_off f r
    cases hb : rdByte f r with
    | mk o r' =>
      rw [hb] at h hro
      cases o with
      | ok b =>
        have e1 : (rdByte f r).1 = .ok b := by rw [hb]
        have k := rdByte_ok f r b hr e1
        rw [hb] at k
        dsimp only at k h ⊢
        split
        · rename_i hlt
          simp only [hlt, if_true] at h
          split
          · rename_i hov; simp [hov] at h
          · dsimp only
            exact ⟨by omega, by omega⟩
        · rename_i hge
          simp only [hge, if_false] at h
          have := ih (i + 1) _ (s + 7) r' v hro h
          exact ⟨by omega, this.2⟩
      | err e => simp at h
      | panic p => simp at h
      | diverge => simp at h

theorem strict_rdVarint (f : File) : Strict f (rdVarint f) := by
  intro r hr _
  have t := rdVarintAux_total f 10 0 0 0 r hr
  refine ⟨t.1, t.2, ?_⟩
  intro v hv
  exact rdVarintAux_ok f 10 0 0 0 r v hr hv

theorem strict_rdStr (f : File) : Strict f (rdStr f) := by
  intro r hr hl
  obtain ⟨t1, o1, s1⟩ := strict_rdVarint f r hr hl
  refine ⟨rdStr_total f r hr, ?_, ?_⟩
  · unfold rdStr
    cases hv : rdVarint f r with
    | mk o r' =>
      rw [hv] at o1
      cases o with
      | ok slen =>
        simp only
        cases f.read r'.off (slen % two32) <;> first | exact Nat.mod_lt _ two32_pos | exact o1
      | err e => exact o1
      | panic p => exact o1
      | diverge => exact o1
  · intro b hb
    unfold rdStr at hb ⊢
    cases hv : rdVarint f r with
    | mk o r' =>
      rw [hv] at hb s1
      cases o with
      | ok slen =>
        simp only at hb ⊢
        have k := s1 slen rfl
        simp only at k
        cases hrd : f.read r'.off (slen % two32) with
        | ok bs =>
          have bb := read_ok_bounds f r'.off (slen % two32) bs hrd
          simp only
          exact ⟨by omega, bb.2⟩
        | err e => rw [hrd] at hb; cases hb
        | panic p => rw [hrd] at hb; cases hb
        | diverge => rw [hrd] at hb; cases hb
      | err e => simp at hb
      | panic p => simp at hb
      | diverge => simp at hb

/-! ### sections, the loop body, the loop -/

theorem good_secRead (f : File) (k : Kind) : Good f (secRead f k) (fun _ => True) := by
  cases k with
  | simple =>
    exact good_bind f _ _ _ _ (good_readSimple f) (fun s _ => good_pure f _ _ trivial)
  | compound =>
    refine good_bind f _ _ _ _ (good_readSimple f) (fun d _ => ?_)
    refine good_bind f _ _ _ _ (good_readSimple f) (fun i hi => ?_)
    refine good_bind f _ _ (fun _ => True) _ (good_lift f _ _ (readSectionBE_total 4 (by omega) f i hi.1 hi.2) (fun _ _ => trivial))
      (fun offs _ => good_pure f _ _ trivial)
  | lazy =>
    refine good_bind f _ _ _ _ (good_readSimple f) (fun d _ => ?_)
    exact good_bind f _ _ _ _ (good_readSimple f) (fun i _ => good_pure f _ _ trivial)

theorem good_secSkip (f : File) (k : Kind) : Good f (secSkip f k) (fun _ => True) := by
  have hc : Good f (RdM.bind (readSimple f) fun _ => RdM.bind (readSimple f) fun i =>
      RdM.bind (RdM.lift (f.read i.off i.sz)) fun _ => RdM.pure (some i)) (fun _ => True) := by
    refine good_bind f _ _ _ _ (good_readSimple f) (fun d _ => ?_)
    refine good_bind f _ _ _ _ (good_readSimple f) (fun i _ => ?_)
    exact good_bind f _ _ (fun _ => True) _ (good_lift f _ _ (read_total f i.off i.sz) (fun _ _ => trivial))
      (fun _ _ => good_pure f _ _ trivial)
  cases k with
  | simple => exact good_bind f _ _ _ _ (good_readSimple f) (fun s _ => good_pure f _ _ trivial)
  | compound => exact hc
  | lazy => exact hc

theorem good_skipThen (f : File) (k : Kind) (st : TocState) :
    Good f (RdM.bind (secSkip f k) fun _ => RdM.pure st) (fun _ => True) :=
  good_bind f _ _ _ _ (good_secSkip f k) (fun _ _ => good_pure f _ _ trivial)

theorem good_unknownKind (f : File) : Good f (RdM.lift (.err "unknown section kind") : RdM TocState) (fun _ => True) :=
  good_lift f _ _ (by simp [Total, Outcome.isOkOrErr]) (fun _ _ => trivial)

/-- what follows tag and kind: a `read`, a `skip` or the unknown-kind error — never a panic -/
theorem good_tocEntry (f : File) (tags : List Bytes) (st : TocState) (tagBytes : Bytes) (kind : Nat) :
    Good f (tocEntry f tags st tagBytes kind) (fun _ => True) := by
  unfold tocEntry
  simp only
  split
  · rename_i tag k _
    split
    · split
      · refine good_bind f _ _ _ _ (good_secSkip f k) (fun oi _ => ?_)
        cases oi with
        | some i => exact good_pure f _ _ trivial
        | none => exact good_pure f _ _ trivial
      · exact good_bind f _ _ _ _ (good_secRead f k) (fun v _ => good_pure f _ _ trivial)
    · split
      · exact good_skipThen f _ st
      · exact good_unknownKind f
  · split
    · exact good_skipThen f _ st
    · exact good_unknownKind f

/-- **one iteration of the tagged loop** is total and, when it succeeds, has moved the reader strictly forward inside
    the mapping (a tag is at least its one-byte length prefix) -/
theorem strict_tocStep (f : File) (tags : List Bytes) (st : TocState) : Strict f (tocStep f tags st) := by
  unfold tocStep
  refine strict_bind f _ _ (fun _ => True) (strict_rdStr f) (fun tagBytes => ?_)
  exact good_bind f _ _ _ _ (good_of_strict f _ (strict_rdVarint f)) (fun kind _ => good_tocEntry f tags st tagBytes kind)

/-- **the tagged loop terminates**: `len(mapping) + 1 - r.off` iterations of fuel always suffice -/
theorem tocLoop_total (f : File) (tags : List Bytes) (stop : Nat) : ∀ (fuel : Nat) (st : TocState) (r : Rd),
    RdOk r → r.off ≤ f.data.length → f.data.length + 1 - r.off < fuel → Total (tocLoop f tags stop fuel st r) := by
  intro fuel
  induction fuel with
  | zero => intro st r _ _ h; omega
  | succ fuel ih =>
    intro st r hr hl hf
    unfold tocLoop
    split
    · obtain ⟨t, o, s⟩ := strict_tocStep f tags st r hr hl
      cases hs : (tocStep f tags st r).1 with
      | ok st' =>
        simp only
        obtain ⟨lt, le⟩ := s st' hs
        exact ih st' _ o le (by omega)
      | err e => simp [Total, Outcome.isOkOrErr]
      | panic p => rw [hs] at t; simp [Total, Outcome.isOkOrErr] at t
      | diverge => rw [hs] at t; simp [Total, Outcome.isOkOrErr] at t
    · simp [Total, Outcome.isOkOrErr]

/-- the legacy branch reads a fixed list of sections -/
theorem tocLegacy_total (f : File) : ∀ (secs : List (String × Kind)) (st : TocState) (r : Rd),
    RdOk r → r.off ≤ f.data.length → Total (tocLegacy f secs st r) := by
  intro secs
  induction secs with
  | nil => intro st r _ _; simp [tocLegacy, Total, Outcome.isOkOrErr]
  | cons p rest ih =>
    intro st r hr hl
    obtain ⟨tag, k⟩ := p
    unfold tocLegacy
    obtain ⟨t, o, s⟩ := good_secRead f k r hr hl
    cases hs : (secRead f k r).1 with
    | ok v =>
      simp only
      exact ih _ _ o (s v hs).2.2
    | err e => simp [Total, Outcome.isOkOrErr]
    | panic p => rw [hs] at t; simp [Total, Outcome.isOkOrErr] at t
    | diverge => rw [hs] at t; simp [Total, Outcome.isOkOrErr] at t

theorem readTOCAfter_total (f : File) (tags : List Bytes) (hdr : Outcome (SimpleSection × Nat × Nat)) (ht : Total hdr)
    (hok : ∀ toc n pos, hdr = .ok (toc, n, pos) → pos < two32 ∧ pos ≤ f.data.length) :
    Total (readTOCAfter f tags hdr) := by
  unfold readTOCAfter
  cases hdr with
  | ok x =>
    obtain ⟨toc, count, pos⟩ := x
    have hp := hok toc count pos rfl
    simp only
    split
    · exact tocLoop_total f tags _ _ [] ⟨pos⟩ hp.1 hp.2 (by simp only; omega)
    · split
      · exact tocLegacy_total f _ [] ⟨pos⟩ hp.1 hp.2
      · split
        · exact tocLegacy_total f _ [] ⟨pos⟩ hp.1 hp.2
        · simp [Total, Outcome.isOkOrErr]
  | err e => simp [Total, Outcome.isOkOrErr]
  | panic p => simp [Total, Outcome.isOkOrErr] at ht
  | diverge => simp [Total, Outcome.isOkOrErr] at ht

/-- **`readTOCSections` is total** for every file and every tag filter: header, then the tagged loop (unknown tags,
    kind mismatches, unknown kinds, filtered sections) or the legacy list -/
theorem readTOCSections_total (f : File) (tags : List Bytes) : Total (readTOCSections f tags) := by
  unfold readTOCSections
  exact readTOCAfter_total f tags _ (readHeader_total f)
    (fun toc n pos h => by have := readHeader_ok f toc n pos h; exact ⟨this.1, this.2.1⟩)

end ZoektModel.C11.L
