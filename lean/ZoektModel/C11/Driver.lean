import ZoektModel.Basic.Proto
namespace ZoektModel.C11
/-- stub: no model driver for C11 yet -/
def main : IO Unit := ZoektModel.Proto.runLines (fun _ => ZoektModel.Proto.badCase "no model driver for C11")
end ZoektModel.C11
