import ZoektModel.Basic.Proto
import ZoektModel.C11.Spec
import ZoektModel.C11.Dist
import ZoektModel.C11.TOC
import ZoektModel.C11.Btree
namespace ZoektModel.C11
open ZoektModel ZoektModel.Proto

def render {α} (f : α → String) : Outcome α → String
  | .ok a => "ok:" ++ f a
  | .err _ => "err"
  | .panic _ => "panic"
  | .diverge => "diverge"

/-- Go's `fmt.Sprintf("%x", s)`: empty for the empty string -/
def hexNoDash (b : Bytes) : String := if b.isEmpty then "" else bytesToHex b

def readerOps (f : File) : List String → Rd → Option (List String × Rd)
  | [], r => some ([], r)
  | op :: ops, r =>
    let step : Option (String × Rd) :=
      match op with
      | "u32" => let (o, r') := rdFixed f 4 r; some (match o with | .ok v => toString v | .err _ => "err" | .panic _ => "PANIC" | .diverge => "DIVERGE", r')
      | "u64" => let (o, r') := rdFixed f 8 r; some (match o with | .ok v => toString v | .err _ => "err" | .panic _ => "PANIC" | .diverge => "DIVERGE", r')
      | "varint" => let (o, r') := rdVarint f r; some (match o with | .ok v => toString v | .err _ => "err" | .panic _ => "PANIC" | .diverge => "DIVERGE", r')
      | "str" => let (o, r') := rdStr f r; some (match o with | .ok v => hexNoDash v | .err _ => "err" | .panic _ => "PANIC" | .diverge => "DIVERGE", r')
      | _ => none
    match step with
    | none => none
    | some (s, r') => (readerOps f ops r').map fun (ss, rf) => (s :: ss, rf)

def withFile (hex : String) (k : File → String) : String :=
  match hexToBytes? hex with
  | none => "?"
  | some content =>
    match openFile content with
    | .ok f => k f
    | _ => "err"

def renderToc (st : TocState) : String :=
  ",".intercalate ((knownSections.take 26).map fun (name, k) =>
    let v := (st.lookup name).getD SecVal.zero
    match k with
    | .simple => s!"{name}={v.data.off}+{v.data.sz}"
    | _ => s!"{name}={v.data.off}+{v.data.sz}/{v.idx.off}+{v.idx.sz}#{v.offsets.length}")

def model (inp : String) : Option String :=
  match fields inp with
  | ["fsd", h] => (hexToBytes? h).map fun d => render showNatList (fromSizedDeltas d)
  | ["fsd16", h] => (hexToBytes? h).map fun d => render showNatList (fromSizedDeltas16 d)
  | ["fd", h] => (hexToBytes? h).map fun d => render showNatList (fromDeltas d)
  | ["uds", h] => (hexToBytes? h).map fun d => render showNatList (unmarshalDocSections d)
  | ["pit", h, ls] => do
    let d ← hexToBytes? h
    let ls ← natList? ls
    pure (render showNatList (pIterRun d ls))
  | ["dist", h1, h2, d, ls] => do
    let b1 ← hexToBytes? h1
    let b2 ← hexToBytes? h2
    let d ← d.toNat?
    let ls ← natList? ls
    pure (render showNatList (distRun b1 b2 d ls))
  | ["btree", b, v, ngs, qs] => do
    let b ← b.toNat?
    let v ← v.toNat?
    let ngs ← natList? ngs
    let qs ← natList? qs
    match Bt.build ⟨b, v⟩ ngs with
    | none => pure "panic"
    | some t =>
      let finds := qs.map fun q => match Bt.find q t 0 0 with
        | some (a, c) => s!"{a}:{c}"
        | none => "PANIC"
      if finds.contains "PANIC" then pure "panic" else
      let iks := (Bt.innerKeys t).map showNatList
      pure ("ok:" ++ showNatList (Bt.leaves t) ++ ";" ++ (if iks.isEmpty then "-" else "|".intercalate iks) ++ ";" ++
        (if finds.isEmpty then "-" else ",".intercalate finds))
  | ["toc", h, tags] =>
    let tagList : List Bytes := if tags == "-" then [] else (tags.splitOn ",").map strBytes
    some (withFile h fun f => render renderToc (readTOCSections f tagList))
  | ["rd", h, off, sz] => do
    let off ← off.toNat?
    let sz ← sz.toNat?
    pure (withFile h fun f => render bytesToHex (f.read off sz))
  | ["reader", h, off, ops] => do
    let off ← off.toNat?
    pure (withFile h fun f =>
      match readerOps f (ops.splitOn ",") ⟨off⟩ with
      | none => "?"
      | some (ss, r) =>
        if ss.contains "PANIC" then "panic" else if ss.contains "DIVERGE" then "diverge"
        else "ok:" ++ ",".intercalate ss ++ "@" ++ toString r.off)
  | ["hdr", h] => some (withFile h fun f =>
      render (fun (x : SimpleSection × Nat × Nat) => s!"{x.1.off},{x.1.sz},{x.2.1},{x.2.2}") (readHeader f))
  | ["su32", h, off, sz] => do
    let off ← off.toNat?
    let sz ← sz.toNat?
    pure (withFile h fun f => render showNatList (readSectionBE 4 f ⟨off, sz⟩))
  | ["su64", h, off, sz] => do
    let off ← off.toNat?
    let sz ← sz.toNat?
    pure (withFile h fun f => render showNatList (readSectionBE 8 f ⟨off, sz⟩))
  | ["comp", h, pos] => do
    let pos ← pos.toNat?
    pure (withFile h fun f =>
      render (fun (c : Compound) => s!"{c.data.off},{c.data.sz};{showNatList c.offsets};{showNatList (relativeIndex c)}") (readCompound f ⟨pos⟩))
  | ["bt", h, off, sz] => do
    let off ← off.toNat?
    let sz ← sz.toNat?
    -- the number of buckets (leaves) of the tree built with btreeBucketSize = 1024, v = 50 from the section's ngrams
    pure (withFile h fun f =>
      match btreeLoad f ⟨off, sz⟩ with
      | .ok _ =>
        match f.read off sz with
        | .ok text =>
          match chunksBE 8 (text.length + 1) text with
          | .ok ngs =>
            match Bt.build ⟨1024, 50⟩ ngs with
            | some t => s!"ok:{(Bt.leaves t).length}"
            | none => "panic"
          | _ => "panic"
        | _ => "err"
      | o => render (fun (_ : Nat) => "") o)
  | _ => none

def handle (line : String) : String :=
  let (inp, impl) := splitCase line
  match model inp with
  | none => badCase "op"
  | some m =>
    if m == "?" then badCase "hex"
    else if !(checkP impl) then
      let cls := if impl.startsWith "panic" then "panic" else if impl.startsWith "diverge" then "diverge" else "other"
      specFail m s!"prim-{cls}:{(fields inp).headD ""}"
    else answer m

def main : IO Unit := runLines handle
end ZoektModel.C11
