/-
C25 — the property as an executable predicate over (produced events, messages received by the client).
Written from the statement in properties.jsonl, not from the code:

  "every file match produced by the shards is delivered exactly once and in the order produced,
   messages stay within the size budget unless a single file exceeds it,
   and for every statistics counter the sum over delivered messages equals the sum over the produced results."
-/
import ZoektModel.C25.Model
namespace ZoektModel.C25

/-- the file matches produced, in production order -/
def producedFiles (evs : List Event) : List File := evs.flatMap (·.files)

/-- the file matches delivered, in delivery order -/
def deliveredFiles (msgs : List Msg) : List File := msgs.flatMap (·.files)

/-- counter `i` of a message (a message without a `Stats` sub-message carries 0) -/
def Msg.ctr (m : Msg) (i : Nat) : Nat :=
  match m.stats with
  | none => 0
  | some s => s.ctr i

def producedCtr (evs : List Event) (i : Nat) : Nat := (evs.map (·.stats.ctr i)).sum
def deliveredCtr (msgs : List Msg) (i : Nat) : Nat := (msgs.map (·.ctr i)).sum

/-- the size budget: the files of one message total less than `max`, unless the message has at most one file -/
def withinBudget (max : Nat) (m : Msg) : Bool :=
  decide (sumSize m.files < max) || decide (m.files.length ≤ 1)

def maxLen : List Nat → Nat
  | [] => 0
  | x :: r => Nat.max x (maxLen r)

def Msg.statsLen (m : Msg) : Nat :=
  match m.stats with
  | none => 0
  | some s => s.c.length

/-- number of counter positions that occur anywhere in the case -/
def width (evs : List Event) (msgs : List Msg) : Nat :=
  maxLen (evs.map (·.stats.c.length) ++ msgs.map Msg.statsLen)

def filesOk (evs : List Event) (msgs : List Msg) : Bool := decide (deliveredFiles msgs = producedFiles evs)

def countersOk (evs : List Event) (msgs : List Msg) : Bool :=
  (List.range (width evs msgs)).all fun i => deliveredCtr msgs i == producedCtr evs i

def budgetOk (max : Nat) (msgs : List Msg) : Bool := msgs.all (withinBudget max)

/-- the whole statement -/
def checkP (max : Nat) (evs : List Event) (msgs : List Msg) : Bool :=
  filesOk evs msgs && countersOk evs msgs && budgetOk max msgs

/-- ranking used by the driver for the collector cases: descending by a key that is injective on small ids
    (the harness gives file `id` the score `(id * 7919) % 10007`) -/
def scoreKey (id : Nat) : Nat := (id * 7919) % 10007
def sortByScore (l : List File) : List File := l.mergeSort fun a b => decide (scoreKey b.id ≤ scoreKey a.id)

/-- the statement for the collector alone: counters conserved, files delivered exactly once (as a multiset: ranking may
    reorder them) -/
def checkCollector (evs out : List Event) : Bool :=
  let msgs : List Msg := out.map fun e => ⟨e.files, some e.stats, e.prog⟩
  countersOk evs msgs &&
  decide (((deliveredFiles msgs).map (·.id)).mergeSort (· ≤ ·) = ((producedFiles evs).map (·.id)).mergeSort (· ≤ ·))

/-- which clause fails first (key of a SPECFAIL) -/
def failKey (max : Nat) (evs : List Event) (msgs : List Msg) : String :=
  if !filesOk evs msgs then "files-not-exactly-once-in-order"
  else if !countersOk evs msgs then "counter-not-conserved"
  else if !budgetOk max msgs then "message-over-budget"
  else "ok"

/-- the `Prop` form used in the theorems: counters are quantified over *all* positions -/
def Holds (max : Nat) (evs : List Event) (msgs : List Msg) : Prop :=
  deliveredFiles msgs = producedFiles evs ∧
  (∀ i, deliveredCtr msgs i = producedCtr evs i) ∧
  (∀ m ∈ msgs, sumSize m.files < max ∨ m.files.length ≤ 1)

/-! ## the statement on observable traces of the collector under concurrency

"Delivered exactly once and in the order produced … for every counter the sum over delivered messages equals the sum over
the produced results", observed at the moment the stream ends: downstream Sends never overlap (the senders below are not
thread-safe, and an overlapping Send can overtake), and when the final flush returns — StreamSearch returns, the RPC ends —
every result that was produced has been delivered. -/

structure TraceState where
  fly : Option Nat
  delivered : Nat
  returned : Nat
  deriving DecidableEq, Repr

def obsStep (t : TraceState) : Obs → Option TraceState
  | .dBegin n => if t.fly = none ∧ 0 < n then some { t with fly := some n } else none
  | .dEnd n => if t.fly = some n then some { t with fly := none, delivered := t.delivered + n } else none
  | .sendRet => some { t with returned := t.returned + 1 }
  | .finalRet => if t.fly = none ∧ t.delivered = t.returned then some t else none

def runObs (t : TraceState) : List Obs → Option TraceState
  | [] => some t
  | o :: rest => (obsStep t o).bind fun t' => runObs t' rest

def checkTrace (tr : List Obs) : Bool := (runObs ⟨none, 0, 0⟩ tr).isSome

/-- which clause a trace breaks first -/
def traceFailKey : TraceState → List Obs → String
  | _, [] => "ok"
  | t, o :: rest =>
    match obsStep t o with
    | some t' => traceFailKey t' rest
    | none =>
      match o with
      | .dBegin _ => "downstream-sends-overlap"
      | .dEnd _ => "downstream-send-ends-without-begin"
      | .finalRet => "final-flush-returns-before-everything-is-delivered"
      | .sendRet => "ok"

end ZoektModel.C25
