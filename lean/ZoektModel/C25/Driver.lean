import ZoektModel.Basic.Proto
namespace ZoektModel.C25
/-- stub: no model driver for C25 yet -/
def main : IO Unit := ZoektModel.Proto.runLines (fun _ => ZoektModel.Proto.badCase "no model driver for C25")
end ZoektModel.C25
