import ZoektModel.Basic.Proto
import ZoektModel.C25.Spec
namespace ZoektModel.C25
open ZoektModel ZoektModel.Proto

/-! line syntax
  event : `counters/dur/fr/prio/maxp/files`   counters = nat list, files = `id:size,…` or `-`
  msg   : `files/stats/prio/maxp`             stats = `nil` or `counters~dur~fr`
  lists of events / msgs are `;` separated, `-` = empty list; priorities are integers, `-inf` or `+inf`
-/

def parsePri (s : String) : Option Pri :=
  if s == "-inf" then some .negInf
  else if s == "+inf" then some .posInf
  else s.toInt?.map .fin

def showPri : Pri → String
  | .negInf => "-inf"
  | .posInf => "+inf"
  | .fin i => toString i

def parseFiles (s : String) : Option (List File) :=
  if s == "-" then some [] else
  (s.splitOn ",").mapM fun e =>
    match e.splitOn ":" with
    | [a, b] => do pure ⟨← a.toNat?, ← b.toNat?⟩
    | _ => none

def showFiles (l : List File) : String := showList (fun f => s!"{f.id}:{f.size}") l

def parseEvent (s : String) : Option Event :=
  match s.splitOn "/" with
  | [c, d, fr, p, mp, fs] => do
    let c ← natList? c
    let d ← d.toNat?
    let fr ← fr.toNat?
    let p ← parsePri p
    let mp ← parsePri mp
    let fs ← parseFiles fs
    pure ⟨⟨c, d, fr⟩, ⟨p, mp⟩, fs⟩
  | _ => none

def parseEvents (s : String) : Option (List Event) :=
  if s == "-" then some [] else (s.splitOn ";").mapM parseEvent

def padTo (w : Nat) (l : List Nat) : List Nat := l ++ List.replicate (w - l.length) 0

def showStats (w : Nat) (s : Stats) : String := s!"{showNatList (padTo w s.c)}~{s.dur}~{s.fr}"

def showEvent (w : Nat) (e : Event) : String :=
  s!"{showNatList (padTo w e.stats.c)}/{e.stats.dur}/{e.stats.fr}/{showPri e.prog.prio}/{showPri e.prog.maxp}/{showFiles e.files}"

def showEvents (w : Nat) (l : List Event) : String :=
  if l.isEmpty then "-" else ";".intercalate (l.map (showEvent w))

def parseMsgStats (s : String) : Option (Option Stats) :=
  if s == "nil" then some none else
  match s.splitOn "~" with
  | [c, d, fr] => do pure (some ⟨← natList? c, ← d.toNat?, ← fr.toNat?⟩)
  | _ => none

def parseMsg (s : String) : Option Msg :=
  match s.splitOn "/" with
  | [fs, st, p, mp] => do
    let fs ← parseFiles fs
    let st ← parseMsgStats st
    let p ← parsePri p
    let mp ← parsePri mp
    pure ⟨fs, st, ⟨p, mp⟩⟩
  | _ => none

def parseMsgs (s : String) : Option (List Msg) :=
  if s == "-" then some [] else (s.splitOn ";").mapM parseMsg

def showMsg (w : Nat) (m : Msg) : String :=
  let st := match m.stats with | none => "nil" | some s => showStats w s
  s!"{showFiles m.files}/{st}/{showPri m.prog.prio}/{showPri m.prog.maxp}"

def showMsgs (w : Nat) (l : List Msg) : String :=
  if l.isEmpty then "-" else ";".intercalate (l.map (showMsg w))

def evWidth (evs : List Event) : Nat := (evs.map (·.stats.c.length)).foldl Nat.max 0

/-- chunks: `|` separated, each a file list (`-` = the empty chunk); `none` = no chunk at all -/
def showChunks (l : List (List File)) : String :=
  if l.isEmpty then "none" else "|".intercalate (l.map showFiles)

def parseChunks (s : String) : Option (List (List File)) :=
  if s == "none" then some [] else (s.splitOn "|").mapM parseFiles

/-- forwarded events seen as messages (every event carries stats) -/
def evAsMsg (e : Event) : Msg := ⟨e.files, some e.stats, e.prog⟩

def parseRFiles (s : String) : Option (List RFile) :=
  if s == "-" then some [] else
  (s.splitOn ",").mapM fun e =>
    match e.splitOn ":" with
    | [a, b] => do pure ⟨← a.toNat?, ← b.toNat?⟩
    | _ => none

def parseByRepoOut (s : String) : Option (List (List Nat × Stats)) :=
  if s == "-" then some [] else
  (s.splitOn ";").mapM fun e =>
    match e.splitOn "/" with
    | [ids, st] => do
      let ids ← natList? ids
      match ← parseMsgStats st with
      | some st => pure (ids, st)
      | none => none
    | _ => none

def showObs : Obs → String
  | .dBegin n => s!"B{n}"
  | .dEnd n => s!"E{n}"
  | .sendRet => "R"
  | .finalRet => "F"

def parseObs (s : String) : Option Obs :=
  if s == "R" then some .sendRet
  else if s == "F" then some .finalRet
  else if s.startsWith "B" then (s.drop 1).toString.toNat?.map .dBegin
  else if s.startsWith "E" then (s.drop 1).toString.toNat?.map .dEnd
  else none

def parseTrace (s : String) : Option (List Obs) :=
  if s == "-" then some [] else (s.splitOn ",").mapM parseObs

def parseSched (s : String) : Option (List Tid) :=
  s.toList.mapM fun c => if c == 'm' then some Tid.main else if c == 't' then some Tid.timer else none

def verdict (model : String) (max : Nat) (evs : List Event) (msgs : List Msg) : String :=
  if checkP max evs msgs then answer model else specFail model (failKey max evs msgs)

def handle (line : String) : String :=
  let (inp, impl) := splitCase line
  match fields inp with
  | ["pipe", mx, per, es] =>
    match mx.toNat?, per.toNat?, parseEvents es with
    | some mx, some per, some evs =>
      let model := showMsgs (evWidth evs) (pipeline mx per evs)
      match parseMsgs impl with
      | none => badCase "impl msgs"
      | some msgs => verdict model mx evs msgs
    | _, _, _ => badCase "pipe fields"
  | ["grpc", mx, e] =>
    match mx.toNat?, parseEvent e with
    | some mx, some ev =>
      let model := showMsgs ev.stats.c.length (grpcSend mx ev)
      match parseMsgs impl with
      | none => badCase "impl msgs"
      | some msgs => verdict model mx [ev] msgs
    | _, _ => badCase "grpc fields"
  | ["samp", per, es] =>
    match per.toNat?, parseEvents es with
    | some per, some evs =>
      let model := showEvents (evWidth evs) (sample per evs)
      match parseEvents impl with
      | none => badCase "impl events"
      | some out =>
        -- the budget clause does not apply to the sampler alone
        let msgs := out.map evAsMsg
        if filesOk evs msgs && countersOk evs msgs then answer model
        else specFail model ("sampler-" ++
          (if !filesOk evs msgs then "files-not-exactly-once-in-order" else "counter-not-conserved"))
    | _, _ => badCase "samp fields"
  | ["coll", k, es] =>
    -- `k` = number of results sent before the timer fired, `none` = the timer never fired
    match parseEvents es with
    | some evs =>
      let sends := evs.map FOp.send
      let ops? : Option (List FOp) :=
        if k == "none" then some sends
        else k.toNat?.map fun k => sends.take k ++ [FOp.timer] ++ sends.drop k
      match ops? with
      | none => badCase "coll flush point"
      | some ops =>
        let model := showEvents (evWidth evs) (collect sortByScore ops)
        match parseEvents impl with
        | none => badCase "impl events"
        | some out =>
          if checkCollector evs out then answer model
          else specFail model "collector-files-or-counters-not-conserved"
    | none => badCase "coll fields"
  | ["byrepo", multi, st, fs] =>
    -- one shard result through sendByRepository: `multi` = more than one entry in RepoURLs; files are `id:repo`
    match bool? multi, parseMsgStats st, parseRFiles fs with
    | some multi, some (some stats), some files =>
      let sort := fun (l : List RFile) => l.mergeSort fun a b => decide (scoreKey b.id ≤ scoreKey a.id)
      let out := byRepo sort multi stats files
      let model := if out.isEmpty then "-" else ";".intercalate (out.map fun p => s!"{showNatList (p.1.map (·.id))}/{showStats stats.c.length p.2}")
      match parseByRepoOut impl with
      | none => badCase "impl byrepo"
      | some got =>
        let ids : List Nat := (got.flatMap (·.1)).mergeSort (· ≤ ·)
        let want : List Nat := (files.map (·.id)).mergeSort (· ≤ ·)
        let ctrOk := (List.range stats.c.length).all fun i => ((got.map (·.2.ctr i)).sum == stats.ctr i)
        if decide (ids = want) && ctrOk then answer model else specFail model "byrepo-files-or-counters-not-conserved"
    | _, _, _ => badCase "byrepo fields"
  | ["sched", n, sc] =>
    -- the collector with two goroutines: the harness forced the schedule `sc` (m = a step of the search loop, t = a step
    -- of the flush timer; steps that are not enabled are no-ops) with a gated downstream sender and reports the observed
    -- trace; the model runs the same schedule
    match n.toNat?, parseSched sc, parseTrace impl with
    | some n, some sched, some tr =>
      let model := showList showObs (runSched false (Sys.init n) sched).trace
      if checkTrace tr then answer model else specFail model ("collector-" ++ traceFailKey ⟨none, 0, 0⟩ tr)
    | _, _, _ => badCase "sched fields"
  | ["chunk", mx, fs] =>
    match mx.toNat?, parseFiles fs with
    | some mx, some items =>
      let model := showChunks (sendAll mx items)
      match parseChunks impl with
      | none => badCase "impl chunks"
      | some chunks =>
        let msgs : List Msg := chunks.map fun ch => ⟨ch, none, Prog.empty⟩
        if filesOk [⟨Stats.empty, Prog.empty, items⟩] msgs && budgetOk mx msgs then answer model
        else specFail model ("chunker-" ++ (if !filesOk [⟨Stats.empty, Prog.empty, items⟩] msgs then "files-not-exactly-once-in-order" else "message-over-budget"))
    | _, _ => badCase "chunk fields"
  | _ => badCase "op"

def main : IO Unit := runLines handle
end ZoektModel.C25
