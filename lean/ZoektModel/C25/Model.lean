/-
C25 — model of the gRPC result-streaming pipeline of zoekt-webserver:

  cmd/zoekt-webserver/grpc/server/sampling.go   samplingSender.Send / Flush
  cmd/zoekt-webserver/grpc/server/server.go     gRPCChunkSender (stats on the first chunk only, progress patching)
  grpc/chunk/chunker.go                         Chunker.sendOne / sendResponseMsg / Flush, SendAll
  api.go                                        Stats.Add, Stats.Zero

A file match is `(id, size)`: `id` identifies it, `size` is `proto.Size` of its wire form (the only thing the
chunker looks at).  `Stats` is the vector of the counters that `Stats.Add` adds (in the order of the translator
table `Gen.c25StatsAddFields`), plus `Duration` (neither added nor tested by `Zero`) and the sticky `FlushReason`.
Counters are `Nat` (assumption: statistics counters are never negative; `Zero` tests `> 0`).
Priorities are Go `float64` restricted to integers and ±Inf (no NaN).

The size budget `max` (= `chunk.maxMessageSize`) and the sampling period (= the literal `100` in
`samplingSender.Send`) are parameters: every theorem holds for all values of both.
-/
namespace ZoektModel.C25

/-- a Go float64 priority: an integer or ±Inf -/
inductive Pri where
  | negInf
  | fin (i : Int)
  | posInf
  deriving Repr, DecidableEq, BEq

/-- `math.Max` on the modelled values -/
def Pri.max : Pri → Pri → Pri
  | .posInf, _ => .posInf
  | _, .posInf => .posInf
  | .negInf, b => b
  | a, .negInf => a
  | .fin a, .fin b => .fin (if a ≤ b then b else a)

/-- pointwise addition of counter vectors; a missing position counts as 0 -/
def addL : List Nat → List Nat → List Nat
  | [], ys => ys
  | xs, [] => xs
  | x :: xs, y :: ys => (x + y) :: addL xs ys

structure Stats where
  c : List Nat      -- the counters added by `Stats.Add`
  dur : Nat         -- `Duration`: not added by `Add`, not tested by `Zero`
  fr : Nat          -- `FlushReason`: first non-zero value is sticky
  deriving Repr, DecidableEq, BEq

def Stats.empty : Stats := ⟨[], 0, 0⟩

/-- `s.Add(o)` -/
def Stats.add (s o : Stats) : Stats :=
  ⟨addL s.c o.c, s.dur, if s.fr = 0 then o.fr else s.fr⟩

/-- `s.Zero()`: no counter is `> 0` -/
def Stats.zero (s : Stats) : Bool := s.c.all (· == 0)

/-- value of counter `i` -/
def Stats.ctr (s : Stats) (i : Nat) : Nat := s.c.getD i 0

structure Prog where
  prio : Pri
  maxp : Pri
  deriving Repr, DecidableEq, BEq

def Prog.empty : Prog := ⟨.fin 0, .fin 0⟩

structure File where
  id : Nat
  size : Nat
  deriving Repr, DecidableEq, BEq

/-- one `*zoekt.SearchResult` handed to a `zoekt.Sender` -/
structure Event where
  stats : Stats
  prog : Prog
  files : List File
  deriving Repr, DecidableEq, BEq

/-- `zoekt.SearchResult{}` -/
def Event.empty : Event := ⟨Stats.empty, Prog.empty, []⟩

/-! ## samplingSender -/

structure Sampler where
  agg : Event
  aggCount : Nat
  deriving Repr

def Sampler.init : Sampler := ⟨Event.empty, 0⟩

/-- `samplingSender.Send`: new state and the events handed to `next.Send` -/
def Sampler.send (period : Nat) (s : Sampler) (ev : Event) : Sampler × List Event :=
  if ev.files.isEmpty then
    let cnt := s.aggCount + 1
    let agg : Event := { s.agg with stats := s.agg.stats.add ev.stats, prog := ev.prog }
    if cnt % period == 0 && !agg.stats.zero then
      (⟨Event.empty, cnt⟩, [agg])
    else
      (⟨agg, cnt⟩, [])
  else if !s.agg.stats.zero then
    (⟨Event.empty, s.aggCount⟩, [{ ev with stats := ev.stats.add s.agg.stats }])
  else
    (s, [ev])

/-- `samplingSender.Flush` -/
def Sampler.flush (s : Sampler) : List Event :=
  if !s.agg.stats.zero then [⟨s.agg.stats, ⟨.negInf, .negInf⟩, []⟩] else []

/-- a whole run of `Send`s from state `s` -/
def Sampler.run (period : Nat) : Sampler → List Event → Sampler × List Event
  | s, [] => (s, [])
  | s, ev :: rest =>
    let r := s.send period ev
    let r' := Sampler.run period r.1 rest
    (r'.1, r.2 ++ r'.2)

/-- `Server.StreamSearch` on success: every event through a fresh sampler, then `Flush` -/
def sample (period : Nat) (evs : List Event) : List Event :=
  let r := Sampler.run period Sampler.init evs
  r.2 ++ r.1.flush

/-- the same without the final `Flush` (what a client sees if `Flush` were forgotten) -/
def sampleNoFlush (period : Nat) (evs : List Event) : List Event :=
  (Sampler.run period Sampler.init evs).2

/-! ## chunk.Chunker -/

def sumSize (l : List File) : Nat := (l.map (·.size)).sum

structure Chunker where
  buf : List File
  size : Nat
  deriving Repr

/-- `Chunker.sendOne`: new state and the chunks handed to `sendFunc` -/
def Chunker.sendOne (max : Nat) (c : Chunker) (it : File) : Chunker × List (List File) :=
  if it.size + c.size ≥ max then
    -- sendResponseMsg: sizeBytes = 0; sendFunc(buffer) — also when the buffer is empty; buffer = buffer[:0]
    (⟨[it], it.size⟩, [c.buf])
  else
    (⟨c.buf ++ [it], c.size + it.size⟩, [])

/-- `Chunker.Flush` -/
def Chunker.flush (c : Chunker) : List (List File) :=
  if c.buf.length = 0 then [] else [c.buf]

/-- `Chunker.Send(items...)` then `Flush()` from state `c` -/
def Chunker.go (max : Nat) : Chunker → List File → List (List File)
  | c, [] => c.flush
  | c, it :: rest =>
    let r := c.sendOne max it
    r.2 ++ Chunker.go max r.1 rest

/-- `chunk.SendAll` (with a `sendFunc` that never fails) -/
def sendAll (max : Nat) (items : List File) : List (List File) := Chunker.go max ⟨[], 0⟩ items

/-! ## gRPCChunkSender -/

/-- one `StreamSearchResponse` as seen by the client; `stats = none` is a nil `Stats` message -/
structure Msg where
  files : List File
  stats : Option Stats
  prog : Prog
  deriving Repr, DecidableEq, BEq

/-- the `sendFunc` closure of `gRPCChunkSender` applied to successive chunks -/
def grpcChunks (ev : Event) (total : Nat) : List (List File) → Bool → Nat → List Msg
  | [], _, _ => []
  | ch :: rest, statsSent, numSent =>
    let n := numSent + ch.length
    let stats := if statsSent then none else some ev.stats
    let prog : Prog :=
      if n < total then ⟨ev.prog.prio, Pri.max ev.prog.prio ev.prog.maxp⟩ else ev.prog
    ⟨ch, stats, prog⟩ :: grpcChunks ev total rest true n

/-- `gRPCChunkSender(ss).Send(ev)`: the messages written to the stream -/
def grpcSend (max : Nat) (ev : Event) : List Msg :=
  if ev.files.isEmpty then [⟨[], some ev.stats, ev.prog⟩]
  else grpcChunks ev ev.files.length (sendAll max ev.files) false 0

/-- `Server.StreamSearch`: sampler, then chunk sender, then final `Flush` through the same chunk sender -/
def pipeline (max period : Nat) (evs : List Event) : List Msg :=
  (sample period evs).flatMap (grpcSend max)

/-! ## search/aggregate.go: collectSender and newFlushCollectSender (no display limit)

`newFlushCollectSender(opts, sender)` with `opts.FlushWallTime > 0`: until the flush point (timer or final flush, whichever
comes first) every result is aggregated by `collectSender` (stats added, files appended); at the flush point the
aggregate is ranked (`SortAndTruncateFiles`, a permutation when no display limit is set — display limits are C22's
subject) and sent with `FlushReason` set; afterwards results pass straight through.  The ranking function is a parameter. -/

inductive FOp where
  | send (e : Event)
  | timer            -- the FlushWallTime timer fires (a flush point)
  deriving Repr

structure Collector where
  collecting : Bool
  agg : Option Event
  deriving Repr

def Collector.init : Collector := ⟨true, none⟩

/-- `collectSender.Send` -/
def collectAdd (agg : Option Event) (e : Event) : Event :=
  let a := agg.getD Event.empty
  { stats := a.stats.add e.stats,
    prog := ⟨Pri.max a.prog.prio e.prog.prio, e.prog.maxp⟩,   -- `if agg.Priority < r.Priority { agg.Priority = r.Priority }`
    files := a.files ++ e.files }

/-- `stopCollectingAndFlush(reason)` when still collecting: `Done()` then `sender.Send(agg)` -/
def flushOut (sort : List File → List File) (agg : Option Event) (reason : Nat) : List Event :=
  match agg with
  | none => []
  | some a => [{ a with files := sort a.files, stats := { a.stats with fr := reason } }]

def Collector.step (sort : List File → List File) (c : Collector) : FOp → Collector × List Event
  | .send e => if c.collecting then (⟨true, some (collectAdd c.agg e)⟩, []) else (c, [e])
  | .timer => if c.collecting then (⟨false, none⟩, flushOut sort c.agg 1) else (c, [])

def Collector.run (sort : List File → List File) : Collector → List FOp → Collector × List Event
  | c, [] => (c, [])
  | c, op :: rest =>
    let r := c.step sort op
    let r' := Collector.run sort r.1 rest
    (r'.1, r.2 ++ r'.2)

/-- the whole life of the sender: the operations, then `finalFlush` (reason 2) -/
def collect (sort : List File → List File) (ops : List FOp) : List Event :=
  let r := Collector.run sort Collector.init ops
  r.2 ++ (if r.1.collecting then flushOut sort r.1.agg 2 else [])

/-- the events handed to the sender by the searcher -/
def sentEvents : List FOp → List Event
  | [] => []
  | .send e :: rest => e :: sentEvents rest
  | .timer :: rest => sentEvents rest

/-- searcher → flush collector → sampler → chunk sender -/
def pipelineWithCollector (sort : List File → List File) (max period : Nat) (ops : List FOp) : List Msg :=
  pipeline max period (collect sort ops)

/-! ## search/shards.go: sendByRepository

One shard result is split into one event per run of consecutive files of the same repository (compound shards); every
run is ranked on its own; the statistics travel with the last event ("Stats must stay aggregate-able"). -/

structure RFile where
  id : Nat
  repo : Nat
  deriving Repr, DecidableEq

/-- the loop over `result.Files`: `cur` is the run being collected, `curRepo` its `RepositoryID` -/
def groupLoop (curRepo : Nat) (cur : List RFile) : List RFile → List (List RFile)
  | [] => [cur]
  | f :: rest =>
    if curRepo != f.repo then cur :: groupLoop f.repo [f] rest
    else groupLoop curRepo (cur ++ [f]) rest

def groups : List RFile → List (List RFile)
  | [] => []
  | f :: rest => groupLoop f.repo [f] rest

/-- `send(…, zoekt.Stats{})` for every run but the last, `send(…, result.Stats)` for the last -/
def attachStats (sort : List RFile → List RFile) (stats : Stats) : List (List RFile) → List (List RFile × Stats)
  | [] => []
  | [g] => [(sort g, stats)]
  | g :: rest => (sort g, Stats.empty) :: attachStats sort stats rest

/-- `sendByRepository`; `multi` = `len(result.RepoURLs) > 1` -/
def byRepo (sort : List RFile → List RFile) (multi : Bool) (stats : Stats) (files : List RFile) :
    List (List RFile × Stats) :=
  if !multi || files.isEmpty then [(sort files, stats)] else attachStats sort stats (groups files)

/-! ## search/aggregate.go: the flush of the collector under concurrency (lock granularity)

`newFlushCollectSender` is used by two goroutines: the search loop (`Send` for every shard result, then the final flush)
and the `FlushWallTime` timer (`stopCollectingAndFlush(TimerExpired)`). Both take `mu` and — as the code is written —
keep it while the aggregate (or a direct result) is handed to the downstream sender, which may block for a long time (a
slow client).  The model below runs the two goroutines under an arbitrary scheduler, one atomic step at a time:

    idle → want (called, waiting for mu) → locked (has mu) → sending (inside the downstream Send) → sent → idle (returned)

`unlockEarly = true` is the variant that releases `mu` before the downstream Send of the aggregate (not the code as
written; used to show that the statement really depends on the lock being held). Results are counted, not identified. -/

inductive Tid where
  | main | timer
  deriving DecidableEq, Repr

inductive Pc where
  | idle | want | locked | sending | sent
  deriving DecidableEq, Repr

inductive MOp where
  | send | final
  deriving DecidableEq, Repr

/-- what can be observed from outside: a downstream Send carrying `n` results begins / ends, a `Send` of the search loop
    returns, the final flush returns (after which StreamSearch returns and the stream is closed) -/
inductive Obs where
  | dBegin (n : Nat)
  | dEnd (n : Nat)
  | sendRet
  | finalRet
  deriving DecidableEq, Repr

structure Sys where
  holder : Option Tid
  pcM : Pc
  pcT : Pc
  curM : MOp
  opsLeft : Nat          -- results the search loop has still to send; then the final flush
  finalDone : Bool
  timerArmed : Bool
  collecting : Bool
  agg : Nat              -- results held by the collectSender
  flyM : Nat             -- results inside the downstream Send of the search loop's goroutine
  flyT : Nat             -- … of the timer goroutine
  processed : Nat        -- results that have gone through the critical section (ghost)
  delivered : Nat        -- results whose downstream Send has returned
  returned : Nat         -- results whose `Send` has returned to the search loop
  trace : List Obs
  deriving Repr

def Sys.init (n : Nat) : Sys :=
  { holder := none, pcM := .idle, pcT := .idle, curM := .send, opsLeft := n, finalDone := false, timerArmed := true,
    collecting := true, agg := 0, flyM := 0, flyT := 0, processed := 0, delivered := 0, returned := 0, trace := [] }

def stepMain (u : Bool) (s : Sys) : Sys :=
  match s.pcM with
  | .idle =>
    if s.finalDone then s
    else if s.opsLeft > 0 then { s with curM := .send, opsLeft := s.opsLeft - 1, pcM := .want }
    else { s with curM := .final, pcM := .want }
  | .want => if s.holder = none then { s with holder := some .main, pcM := .locked } else s
  | .locked =>
    match s.curM with
    | .send =>
      if s.collecting then { s with agg := s.agg + 1, processed := s.processed + 1, pcM := .sent }
      else { s with flyM := 1, processed := s.processed + 1, pcM := .sending, trace := s.trace ++ [.dBegin 1] }
    | .final =>
      if s.collecting then
        if s.agg > 0 then
          { s with collecting := false, timerArmed := false, flyM := s.agg, agg := 0,
                   holder := if u then none else s.holder, pcM := .sending, trace := s.trace ++ [.dBegin s.agg] }
        else { s with collecting := false, timerArmed := false, holder := if u then none else s.holder, pcM := .sent }
      else { s with pcM := .sent }
  | .sending =>
    { s with delivered := s.delivered + s.flyM, trace := s.trace ++ [.dEnd s.flyM], flyM := 0, pcM := .sent }
  | .sent =>
    match s.curM with
    | .send =>
      { s with holder := if s.holder = some .main then none else s.holder, pcM := .idle,
               returned := s.returned + 1, trace := s.trace ++ [.sendRet] }
    | .final =>
      { s with holder := if s.holder = some .main then none else s.holder, pcM := .idle,
               finalDone := true, trace := s.trace ++ [.finalRet] }

def stepTimer (u : Bool) (s : Sys) : Sys :=
  match s.pcT with
  | .idle => if s.timerArmed then { s with timerArmed := false, pcT := .want } else s
  | .want => if s.holder = none then { s with holder := some .timer, pcT := .locked } else s
  | .locked =>
    if s.collecting then
      if s.agg > 0 then
        { s with collecting := false, timerArmed := false, flyT := s.agg, agg := 0,
                 holder := if u then none else s.holder, pcT := .sending, trace := s.trace ++ [.dBegin s.agg] }
      else { s with collecting := false, timerArmed := false, holder := if u then none else s.holder, pcT := .sent }
    else { s with pcT := .sent }
  | .sending =>
    { s with delivered := s.delivered + s.flyT, trace := s.trace ++ [.dEnd s.flyT], flyT := 0, pcT := .sent }
  | .sent => { s with holder := if s.holder = some .timer then none else s.holder, pcT := .idle }

def step (u : Bool) (s : Sys) : Tid → Sys
  | .main => stepMain u s
  | .timer => stepTimer u s

/-- run a schedule: which goroutine gets the next atomic step (a step that is not enabled changes nothing) -/
def runSched (u : Bool) (s : Sys) (sched : List Tid) : Sys := sched.foldl (step u) s

end ZoektModel.C25
