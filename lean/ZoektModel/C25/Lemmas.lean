/-
C25 — lemmas about the streaming model (core Lean only).
-/
import ZoektModel.C25.Spec
namespace ZoektModel.C25

/-! ## counters -/

theorem getD_addL (a b : List Nat) (i : Nat) : (addL a b).getD i 0 = a.getD i 0 + b.getD i 0 := by
  induction a generalizing b i with
  | nil => simp [addL]
  | cons x xs ih =>
    cases b with
    | nil => simp [addL]
    | cons y ys =>
      cases i with
      | zero => simp [addL]
      | succ j => simpa [addL] using ih ys j

theorem ctr_add (s o : Stats) (i : Nat) : (s.add o).ctr i = s.ctr i + o.ctr i := by
  unfold Stats.ctr Stats.add
  exact getD_addL _ _ _

theorem ctr_empty (i : Nat) : Stats.empty.ctr i = 0 := by
  simp [Stats.empty, Stats.ctr]

theorem all_zero_getD (l : List Nat) (h : l.all (· == 0) = true) (i : Nat) : l.getD i 0 = 0 := by
  induction l generalizing i with
  | nil => simp
  | cons x xs ih =>
    simp only [List.all_cons, Bool.and_eq_true, beq_iff_eq] at h
    cases i with
    | zero => simpa using h.1
    | succ j => simpa using ih h.2 j

/-- `Zero()` means every counter is 0 (counters are naturals) -/
theorem zero_ctr (s : Stats) (h : s.zero = true) (i : Nat) : s.ctr i = 0 :=
  all_zero_getD s.c h i

theorem getD_zero_all (l : List Nat) (h : ∀ i, l.getD i 0 = 0) : l.all (· == 0) = true := by
  induction l with
  | nil => rfl
  | cons x xs ih =>
    simp only [List.all_cons, Bool.and_eq_true, beq_iff_eq]
    refine ⟨by simpa using h 0, ih fun i => ?_⟩
    simpa using h (i + 1)

theorem zero_iff (s : Stats) : s.zero = true ↔ ∀ i, s.ctr i = 0 :=
  ⟨zero_ctr s, getD_zero_all s.c⟩

/-! ## sums over event / message lists -/

@[simp] theorem producedFiles_nil : producedFiles [] = [] := rfl
@[simp] theorem producedFiles_cons (e : Event) (l : List Event) :
    producedFiles (e :: l) = e.files ++ producedFiles l := by simp [producedFiles]
@[simp] theorem producedFiles_append (a b : List Event) :
    producedFiles (a ++ b) = producedFiles a ++ producedFiles b := by simp [producedFiles]

@[simp] theorem producedCtr_nil (i : Nat) : producedCtr [] i = 0 := rfl
@[simp] theorem producedCtr_cons (e : Event) (l : List Event) (i : Nat) :
    producedCtr (e :: l) i = e.stats.ctr i + producedCtr l i := by simp [producedCtr]
@[simp] theorem producedCtr_append (a b : List Event) (i : Nat) :
    producedCtr (a ++ b) i = producedCtr a i + producedCtr b i := by simp [producedCtr]

@[simp] theorem deliveredFiles_nil : deliveredFiles [] = [] := rfl
@[simp] theorem deliveredFiles_cons (m : Msg) (l : List Msg) :
    deliveredFiles (m :: l) = m.files ++ deliveredFiles l := by simp [deliveredFiles]
@[simp] theorem deliveredFiles_append (a b : List Msg) :
    deliveredFiles (a ++ b) = deliveredFiles a ++ deliveredFiles b := by simp [deliveredFiles]

@[simp] theorem deliveredCtr_nil (i : Nat) : deliveredCtr [] i = 0 := rfl
@[simp] theorem deliveredCtr_cons (m : Msg) (l : List Msg) (i : Nat) :
    deliveredCtr (m :: l) i = m.ctr i + deliveredCtr l i := by simp [deliveredCtr]
@[simp] theorem deliveredCtr_append (a b : List Msg) (i : Nat) :
    deliveredCtr (a ++ b) i = deliveredCtr a i + deliveredCtr b i := by simp [deliveredCtr]

/-! ## chunker -/

@[simp] theorem sumSize_nil : sumSize [] = 0 := rfl
@[simp] theorem sumSize_cons (f : File) (l : List File) : sumSize (f :: l) = f.size + sumSize l := by
  simp [sumSize]
@[simp] theorem sumSize_append (a b : List File) : sumSize (a ++ b) = sumSize a + sumSize b := by
  simp [sumSize]

/-- a chunk is fine when it is under the budget or has at most one item -/
def ChunkOk (max : Nat) (ch : List File) : Prop := sumSize ch < max ∨ ch.length ≤ 1

/-- invariant of the chunker state: `sizeBytes` is the size of the buffer, and the buffer is itself a fine chunk -/
def CInv (max : Nat) (c : Chunker) : Prop := c.size = sumSize c.buf ∧ ChunkOk max c.buf

theorem cinv_init (max : Nat) : CInv max ⟨[], 0⟩ := ⟨rfl, Or.inr (by simp)⟩

theorem sendOne_inv (max : Nat) (c : Chunker) (it : File) (h : CInv max c) :
    CInv max (c.sendOne max it).1 ∧ ∀ ch ∈ (c.sendOne max it).2, ChunkOk max ch := by
  unfold Chunker.sendOne
  obtain ⟨hs, hok⟩ := h
  split
  · refine ⟨⟨by simp, Or.inr (by simp)⟩, ?_⟩
    intro ch hch
    simp at hch
    subst hch
    exact hok
  · rename_i hlt
    refine ⟨⟨by simp [hs], Or.inl ?_⟩, by simp⟩
    simp only [sumSize_append, sumSize_cons, sumSize_nil]
    omega

theorem sendOne_flatten (max : Nat) (c : Chunker) (it : File) :
    (c.sendOne max it).2.flatten ++ (c.sendOne max it).1.buf = c.buf ++ [it] := by
  unfold Chunker.sendOne
  split <;> simp

theorem flush_flatten (c : Chunker) : c.flush.flatten = c.buf := by
  unfold Chunker.flush
  split
  · rename_i h
    have : c.buf = [] := List.eq_nil_of_length_eq_zero h
    simp [this]
  · simp

/-- order and exactly-once: the chunks concatenate to the buffered items followed by the new items -/
theorem go_flatten (max : Nat) (c : Chunker) (items : List File) :
    (Chunker.go max c items).flatten = c.buf ++ items := by
  induction items generalizing c with
  | nil => simp [Chunker.go, flush_flatten]
  | cons it rest ih =>
    simp only [Chunker.go, List.flatten_append, ih]
    rw [← List.append_assoc, sendOne_flatten]
    simp

theorem go_ok (max : Nat) (c : Chunker) (items : List File) (h : CInv max c) :
    ∀ ch ∈ Chunker.go max c items, ChunkOk max ch := by
  induction items generalizing c with
  | nil =>
    intro ch hch
    unfold Chunker.go Chunker.flush at hch
    split at hch
    · simp at hch
    · simp at hch; subst hch; exact h.2
  | cons it rest ih =>
    intro ch hch
    simp only [Chunker.go, List.mem_append] at hch
    obtain ⟨hinv, hout⟩ := sendOne_inv max c it h
    rcases hch with hch | hch
    · exact hout ch hch
    · exact ih _ hinv ch hch

theorem sendOne_buf_ne_nil (max : Nat) (c : Chunker) (it : File) : (c.sendOne max it).1.buf ≠ [] := by
  unfold Chunker.sendOne
  split <;> simp

/-- once the buffer is non-empty, no empty chunk is ever sent -/
theorem go_no_empty (max : Nat) (c : Chunker) (items : List File) (h : c.buf ≠ []) :
    ∀ ch ∈ Chunker.go max c items, ch ≠ [] := by
  induction items generalizing c with
  | nil =>
    intro ch hch
    unfold Chunker.go Chunker.flush at hch
    split at hch
    · simp at hch
    · simp at hch; subst hch; exact h
  | cons it rest ih =>
    intro ch hch
    simp only [Chunker.go, List.mem_append] at hch
    rcases hch with hch | hch
    · unfold Chunker.sendOne at hch
      split at hch
      · simp at hch; subst hch; exact h
      · simp at hch
    · exact ih _ (sendOne_buf_ne_nil max c it) ch hch

theorem go_ne_nil (max : Nat) (c : Chunker) (items : List File) (h : c.buf ≠ [] ∨ items ≠ []) :
    Chunker.go max c items ≠ [] := by
  intro hnil
  have := go_flatten max c items
  rw [hnil] at this
  simp at this
  rcases h with h | h
  · exact h this.1
  · exact h this.2

/-! ## gRPCChunkSender -/

theorem grpcChunks_files (ev : Event) (t : Nat) (chunks : List (List File)) (b : Bool) (n : Nat) :
    deliveredFiles (grpcChunks ev t chunks b n) = chunks.flatten := by
  induction chunks generalizing b n with
  | nil => simp [grpcChunks]
  | cons ch rest ih => simp [grpcChunks, ih]

theorem grpcChunks_ctr_sent (ev : Event) (t : Nat) (chunks : List (List File)) (n : Nat) (i : Nat) :
    deliveredCtr (grpcChunks ev t chunks true n) i = 0 := by
  induction chunks generalizing n with
  | nil => simp [grpcChunks]
  | cons ch rest ih => simp [grpcChunks, ih, Msg.ctr]

/-- the stats go out exactly once: with the first chunk -/
theorem grpcChunks_ctr (ev : Event) (t : Nat) (chunks : List (List File)) (n : Nat) (i : Nat)
    (h : chunks ≠ []) : deliveredCtr (grpcChunks ev t chunks false n) i = ev.stats.ctr i := by
  cases chunks with
  | nil => exact absurd rfl h
  | cons ch rest => simp [grpcChunks, grpcChunks_ctr_sent, Msg.ctr]

theorem grpcChunks_mem (ev : Event) (t : Nat) (chunks : List (List File)) (b : Bool) (n : Nat) :
    ∀ m ∈ grpcChunks ev t chunks b n, m.files ∈ chunks := by
  induction chunks generalizing b n with
  | nil => simp [grpcChunks]
  | cons ch rest ih =>
    intro m hm
    simp only [grpcChunks, List.mem_cons] at hm
    rcases hm with rfl | hm
    · simp
    · exact List.mem_cons_of_mem _ (ih _ _ m hm)

theorem sendAll_flatten (max : Nat) (items : List File) : (sendAll max items).flatten = items := by
  simp [sendAll, go_flatten]

theorem sendAll_ok (max : Nat) (items : List File) : ∀ ch ∈ sendAll max items, ChunkOk max ch :=
  go_ok max _ items (cinv_init max)

theorem grpcSend_files (max : Nat) (ev : Event) : deliveredFiles (grpcSend max ev) = ev.files := by
  unfold grpcSend
  split
  · rename_i h
    have : ev.files = [] := by simpa using h
    simp [this]
  · rw [grpcChunks_files, sendAll_flatten]

theorem grpcSend_ctr (max : Nat) (ev : Event) (i : Nat) : deliveredCtr (grpcSend max ev) i = ev.stats.ctr i := by
  unfold grpcSend
  split
  · simp [Msg.ctr]
  · rename_i h
    apply grpcChunks_ctr
    apply go_ne_nil
    right
    intro hnil
    simp [hnil] at h

theorem grpcSend_ok (max : Nat) (ev : Event) : ∀ m ∈ grpcSend max ev, ChunkOk max m.files := by
  unfold grpcSend
  split
  · intro m hm
    simp at hm
    subst hm
    exact Or.inr (by simp)
  · intro m hm
    exact sendAll_ok max ev.files _ (grpcChunks_mem _ _ _ _ _ m hm)

/-! ## the chunk sender over a list of events -/

theorem flatMap_grpc_files (max : Nat) (evs : List Event) :
    deliveredFiles (evs.flatMap (grpcSend max)) = producedFiles evs := by
  induction evs with
  | nil => rfl
  | cons e rest ih => simp [List.flatMap_cons, grpcSend_files, ih]

theorem flatMap_grpc_ctr (max : Nat) (evs : List Event) (i : Nat) :
    deliveredCtr (evs.flatMap (grpcSend max)) i = producedCtr evs i := by
  induction evs with
  | nil => rfl
  | cons e rest ih => simp [List.flatMap_cons, grpcSend_ctr, ih]

theorem flatMap_grpc_ok (max : Nat) (evs : List Event) :
    ∀ m ∈ evs.flatMap (grpcSend max), ChunkOk max m.files := by
  intro m hm
  rw [List.mem_flatMap] at hm
  obtain ⟨e, _, hm⟩ := hm
  exact grpcSend_ok max e m hm

/-! ## sampler -/

/-- the aggregate never holds files -/
def SInv (s : Sampler) : Prop := s.agg.files = []

theorem sinv_init : SInv Sampler.init := rfl

theorem send_inv (p : Nat) (s : Sampler) (ev : Event) (h : SInv s) : SInv (s.send p ev).1 := by
  unfold Sampler.send
  dsimp only
  split
  · split
    · rfl
    · exact h
  · split
    · rfl
    · exact h

theorem send_files (p : Nat) (s : Sampler) (ev : Event) (h : SInv s) :
    producedFiles (s.send p ev).2 = ev.files := by
  unfold Sampler.send
  dsimp only
  split
  · rename_i he
    have he : ev.files = [] := by simpa using he
    split
    · simp [he]; exact h
    · simp [he]
  · split <;> simp

/-- one `Send`: what is forwarded plus what is kept equals what was kept plus the event -/
theorem send_ctr (p : Nat) (s : Sampler) (ev : Event) (i : Nat) :
    producedCtr (s.send p ev).2 i + (s.send p ev).1.agg.stats.ctr i = s.agg.stats.ctr i + ev.stats.ctr i := by
  unfold Sampler.send
  dsimp only
  split
  · split
    · simp [ctr_add, Event.empty, ctr_empty]
    · simp [ctr_add]
  · split
    · simp [ctr_add, Event.empty, ctr_empty]; omega
    · rename_i hz
      have hz : s.agg.stats.zero = true := by simpa using hz
      simp [zero_ctr _ hz i]

theorem run_inv (p : Nat) (s : Sampler) (evs : List Event) (h : SInv s) : SInv (Sampler.run p s evs).1 := by
  induction evs generalizing s with
  | nil => exact h
  | cons e rest ih => exact ih _ (send_inv p s e h)

theorem run_files (p : Nat) (s : Sampler) (evs : List Event) (h : SInv s) :
    producedFiles (Sampler.run p s evs).2 = producedFiles evs := by
  induction evs generalizing s with
  | nil => rfl
  | cons e rest ih =>
    simp only [Sampler.run, producedFiles_append, producedFiles_cons]
    rw [send_files p s e h, ih _ (send_inv p s e h)]

theorem run_ctr (p : Nat) (s : Sampler) (evs : List Event) (i : Nat) :
    producedCtr (Sampler.run p s evs).2 i + (Sampler.run p s evs).1.agg.stats.ctr i
      = s.agg.stats.ctr i + producedCtr evs i := by
  induction evs generalizing s with
  | nil => simp [Sampler.run]
  | cons e rest ih =>
    simp only [Sampler.run, producedCtr_append, producedCtr_cons]
    have h1 := send_ctr p s e i
    have h2 := ih (s.send p e).1
    omega

theorem flush_files (s : Sampler) : producedFiles s.flush = [] := by
  unfold Sampler.flush
  split <;> simp

/-- `Flush` forwards exactly what the aggregate still holds -/
theorem flush_ctr (s : Sampler) (i : Nat) : producedCtr s.flush i = s.agg.stats.ctr i := by
  unfold Sampler.flush
  split
  · simp
  · rename_i hz
    have hz : s.agg.stats.zero = true := by simpa using hz
    simp [zero_ctr _ hz i]

theorem sample_files (p : Nat) (evs : List Event) : producedFiles (sample p evs) = producedFiles evs := by
  simp [sample, run_files p _ evs sinv_init, flush_files]

theorem sample_ctr (p : Nat) (evs : List Event) (i : Nat) : producedCtr (sample p evs) i = producedCtr evs i := by
  have h := run_ctr p Sampler.init evs i
  have h0 : Sampler.init.agg.stats.ctr i = 0 := ctr_empty i
  simp only [sample, producedCtr_append, flush_ctr]
  omega

/-! ## the executable statement is the statement -/

theorem le_maxLen (l : List Nat) (x : Nat) (h : x ∈ l) : x ≤ maxLen l := by
  induction l with
  | nil => cases h
  | cons y r ih =>
    simp only [List.mem_cons] at h
    simp only [maxLen]
    rcases h with rfl | h
    · exact Nat.le_max_left _ _
    · exact Nat.le_trans (ih h) (Nat.le_max_right _ _)

theorem ctr_beyond (s : Stats) (i : Nat) (h : s.c.length ≤ i) : s.ctr i = 0 := by
  unfold Stats.ctr
  simp [List.getD, List.getElem?_eq_none h]

theorem producedCtr_beyond (evs : List Event) (i : Nat) (h : ∀ e ∈ evs, e.stats.c.length ≤ i) : producedCtr evs i = 0 := by
  induction evs with
  | nil => rfl
  | cons e r ih =>
    simp only [producedCtr_cons]
    rw [ctr_beyond _ _ (h e (by simp)), ih (fun x hx => h x (by simp [hx]))]

theorem deliveredCtr_beyond (msgs : List Msg) (i : Nat) (h : ∀ m ∈ msgs, m.statsLen ≤ i) : deliveredCtr msgs i = 0 := by
  induction msgs with
  | nil => rfl
  | cons m r ih =>
    simp only [deliveredCtr_cons]
    rw [ih (fun x hx => h x (by simp [hx]))]
    have hm := h m (by simp)
    unfold Msg.ctr
    unfold Msg.statsLen at hm
    cases hs : m.stats with
    | none => simp
    | some st =>
      rw [hs] at hm
      simp [ctr_beyond _ _ hm]

/-- beyond `width` every counter is 0 on both sides -/
theorem beyond_width (evs : List Event) (msgs : List Msg) (i : Nat) (h : width evs msgs ≤ i) :
    deliveredCtr msgs i = 0 ∧ producedCtr evs i = 0 := by
  constructor
  · apply deliveredCtr_beyond
    intro m hm
    exact Nat.le_trans (le_maxLen _ _ (by simp; exact Or.inr ⟨m, hm, rfl⟩)) h
  · apply producedCtr_beyond
    intro e he
    exact Nat.le_trans (le_maxLen _ _ (by simp; exact Or.inl ⟨e, he, rfl⟩)) h

/-! ## flush collector (search/aggregate.go) -/

/-- what the collector still holds -/
def heldF (c : Collector) : List File := if c.collecting then (c.agg.getD Event.empty).files else []
def heldC (c : Collector) (i : Nat) : Nat := if c.collecting then (c.agg.getD Event.empty).stats.ctr i else 0

def opFiles : FOp → List File
  | .send e => e.files
  | .timer => []
def opCtr (i : Nat) : FOp → Nat
  | .send e => e.stats.ctr i
  | .timer => 0

theorem sentEvents_cons_files (op : FOp) (rest : List FOp) :
    producedFiles (sentEvents (op :: rest)) = opFiles op ++ producedFiles (sentEvents rest) := by
  cases op <;> simp [sentEvents, opFiles]

theorem sentEvents_cons_ctr (op : FOp) (rest : List FOp) (i : Nat) :
    producedCtr (sentEvents (op :: rest)) i = opCtr i op + producedCtr (sentEvents rest) i := by
  cases op <;> simp [sentEvents, opCtr]

theorem flushOut_files (sort : List File → List File) (hsort : ∀ l, (sort l).Perm l) (agg : Option Event) (r : Nat) :
    (producedFiles (flushOut sort agg r)).Perm (agg.getD Event.empty).files := by
  cases agg with
  | none => simp [flushOut, Event.empty]
  | some a => simpa [flushOut] using hsort a.files

theorem flushOut_ctr (sort : List File → List File) (agg : Option Event) (r i : Nat) :
    producedCtr (flushOut sort agg r) i = (agg.getD Event.empty).stats.ctr i := by
  cases agg with
  | none => simp [flushOut, Event.empty, ctr_empty]
  | some a => simp [flushOut, Stats.ctr]

theorem step_files (sort : List File → List File) (hsort : ∀ l, (sort l).Perm l) (c : Collector) (op : FOp) :
    (producedFiles (c.step sort op).2 ++ heldF (c.step sort op).1).Perm (heldF c ++ opFiles op) := by
  cases op with
  | send e =>
    by_cases hc : c.collecting = true
    · simp [Collector.step, hc, heldF, collectAdd, opFiles]
    · simp [Collector.step, hc, heldF, opFiles]
  | timer =>
    by_cases hc : c.collecting = true
    · simpa [Collector.step, hc, heldF, opFiles] using flushOut_files sort hsort c.agg 1
    · simp [Collector.step, hc, heldF, opFiles]

theorem step_ctr (sort : List File → List File) (c : Collector) (op : FOp) (i : Nat) :
    producedCtr (c.step sort op).2 i + heldC (c.step sort op).1 i = heldC c i + opCtr i op := by
  cases op with
  | send e =>
    by_cases hc : c.collecting = true
    · simp [Collector.step, hc, heldC, collectAdd, opCtr, ctr_add]
    · simp [Collector.step, hc, heldC, opCtr]
  | timer =>
    by_cases hc : c.collecting = true
    · simp [Collector.step, hc, heldC, opCtr, flushOut_ctr]
    · simp [Collector.step, hc, heldC, opCtr]

theorem crun_files (sort : List File → List File) (hsort : ∀ l, (sort l).Perm l) (c : Collector) (ops : List FOp) :
    (producedFiles (Collector.run sort c ops).2 ++ heldF (Collector.run sort c ops).1).Perm
      (heldF c ++ producedFiles (sentEvents ops)) := by
  induction ops generalizing c with
  | nil => simp [Collector.run, sentEvents]
  | cons op rest ih =>
    simp only [Collector.run, producedFiles_append, sentEvents_cons_files, List.append_assoc]
    have h1 := step_files sort hsort c op
    have h2 := ih (c.step sort op).1
    -- o1 ++ (o2 ++ held2) ~ o1 ++ (held1 ++ sent) ~ (held ++ opF) ++ sent
    refine (List.Perm.append_left _ h2).trans ?_
    rw [← List.append_assoc, ← List.append_assoc]
    exact List.Perm.append_right _ h1

theorem crun_ctr (sort : List File → List File) (c : Collector) (ops : List FOp) (i : Nat) :
    producedCtr (Collector.run sort c ops).2 i + heldC (Collector.run sort c ops).1 i
      = heldC c i + producedCtr (sentEvents ops) i := by
  induction ops generalizing c with
  | nil => simp [Collector.run, sentEvents]
  | cons op rest ih =>
    simp only [Collector.run, producedCtr_append, sentEvents_cons_ctr]
    have h1 := step_ctr sort c op i
    have h2 := ih (c.step sort op).1
    omega

theorem collect_files (sort : List File → List File) (hsort : ∀ l, (sort l).Perm l) (ops : List FOp) :
    (producedFiles (collect sort ops)).Perm (producedFiles (sentEvents ops)) := by
  have h := crun_files sort hsort Collector.init ops
  simp only [collect, producedFiles_append]
  have h0 : heldF Collector.init = [] := by simp [heldF, Collector.init, Event.empty]
  rw [h0, List.nil_append] at h
  refine List.Perm.trans (List.Perm.append_left _ ?_) h
  by_cases hc : (Collector.run sort Collector.init ops).1.collecting = true
  · simpa [hc, heldF] using flushOut_files sort hsort _ 2
  · simp [hc, heldF]

theorem collect_ctr (sort : List File → List File) (ops : List FOp) (i : Nat) :
    producedCtr (collect sort ops) i = producedCtr (sentEvents ops) i := by
  have h := crun_ctr sort Collector.init ops i
  have h0 : heldC Collector.init i = 0 := by simp [heldC, Collector.init, Event.empty, ctr_empty]
  simp only [collect, producedCtr_append]
  rw [h0] at h
  by_cases hc : (Collector.run sort Collector.init ops).1.collecting = true
  · simp only [hc, if_true, flushOut_ctr]
    simp only [heldC, hc, if_true] at h
    omega
  · simp only [hc]
    simp only [heldC, hc] at h
    simp at h ⊢
    omega

/-! ## sendByRepository -/

theorem groupLoop_flatten (r : Nat) (cur l : List RFile) : (groupLoop r cur l).flatten = cur ++ l := by
  induction l generalizing r cur with
  | nil => simp [groupLoop]
  | cons f rest ih =>
    unfold groupLoop
    split
    · simp [ih]
    · simp [ih]

theorem groupLoop_ne_nil (r : Nat) (cur l : List RFile) : groupLoop r cur l ≠ [] := by
  induction l generalizing r cur with
  | nil => simp [groupLoop]
  | cons f rest ih =>
    unfold groupLoop
    split
    · simp
    · exact ih _ _

theorem groups_flatten (l : List RFile) : (groups l).flatten = l := by
  cases l with
  | nil => rfl
  | cons f rest => simp [groups, groupLoop_flatten]

theorem groups_ne_nil (l : List RFile) (h : l ≠ []) : groups l ≠ [] := by
  cases l with
  | nil => exact absurd rfl h
  | cons f rest => exact groupLoop_ne_nil _ _ _

/-- every run holds files of one repository only -/
theorem groupLoop_same_repo (r : Nat) (cur l : List RFile) (hcur : ∀ f ∈ cur, f.repo = r) :
    ∀ g ∈ groupLoop r cur l, ∃ r', ∀ f ∈ g, f.repo = r' := by
  induction l generalizing r cur with
  | nil =>
    intro g hg
    simp [groupLoop] at hg
    subst hg
    exact ⟨r, hcur⟩
  | cons f rest ih =>
    intro g hg
    unfold groupLoop at hg
    split at hg
    · simp only [List.mem_cons] at hg
      rcases hg with rfl | hg
      · exact ⟨r, hcur⟩
      · exact ih f.repo [f] (by simp) g hg
    · rename_i hne
      have heq : r = f.repo := by simpa using hne
      apply ih r (cur ++ [f]) _ g hg
      intro x hx
      simp only [List.mem_append, List.mem_singleton] at hx
      rcases hx with hx | rfl
      · exact hcur x hx
      · exact heq.symm

def outFiles (out : List (List RFile × Stats)) : List RFile := out.flatMap (·.1)
def outCtr (out : List (List RFile × Stats)) (i : Nat) : Nat := (out.map (·.2.ctr i)).sum

theorem attachStats_files (sort : List RFile → List RFile) (hsort : ∀ l, (sort l).Perm l) (stats : Stats)
    (gs : List (List RFile)) : (outFiles (attachStats sort stats gs)).Perm gs.flatten := by
  induction gs with
  | nil => simp [attachStats, outFiles]
  | cons g rest ih =>
    cases rest with
    | nil => simpa [attachStats, outFiles] using hsort g
    | cons g2 r =>
      simp only [attachStats, outFiles, List.flatMap_cons, List.flatten_cons] at ih ⊢
      exact List.Perm.append (hsort g) ih

theorem attachStats_ctr (sort : List RFile → List RFile) (stats : Stats) (gs : List (List RFile)) (h : gs ≠ []) (i : Nat) :
    outCtr (attachStats sort stats gs) i = stats.ctr i := by
  induction gs with
  | nil => exact absurd rfl h
  | cons g rest ih =>
    cases rest with
    | nil => simp [attachStats, outCtr]
    | cons g2 r =>
      have := ih (by simp)
      simp only [attachStats, outCtr, List.map_cons, List.sum_cons] at this ⊢
      rw [this]
      simp [ctr_empty]

/-! ## the collector under concurrency: invariant of the lock-level model (code as written: `unlockEarly = false`) -/

def inCrit : Pc → Bool
  | .locked => true
  | .sending => true
  | .sent => true
  | _ => false

/-- the downstream Send in progress, if any -/
def Sys.fly (s : Sys) : Option Nat :=
  if s.pcM = .sending then some s.flyM else if s.pcT = .sending then some s.flyT else none

structure Inv (s : Sys) : Prop where
  holdM : s.holder = some .main ↔ inCrit s.pcM = true
  holdT : s.holder = some .timer ↔ inCrit s.pcT = true
  flyM0 : s.pcM ≠ .sending → s.flyM = 0
  flyT0 : s.pcT ≠ .sending → s.flyT = 0
  flyMpos : s.pcM = .sending → 0 < s.flyM
  flyTpos : s.pcT = .sending → 0 < s.flyT
  aggZero : s.collecting = false → s.agg = 0
  account : s.processed = s.agg + s.flyM + s.flyT + s.delivered
  ret : s.processed = s.returned + (if s.curM = .send ∧ (s.pcM = .sending ∨ s.pcM = .sent) then 1 else 0)
  finalNC : s.curM = .final → (s.pcM = .sending ∨ s.pcM = .sent) → s.collecting = false
  obs : runObs ⟨none, 0, 0⟩ s.trace = some ⟨s.fly, s.delivered, s.returned⟩

theorem runObs_append (t : TraceState) (a b : List Obs) :
    runObs t (a ++ b) = (runObs t a).bind fun t' => runObs t' b := by
  induction a generalizing t with
  | nil => simp [runObs]
  | cons o r ih =>
    simp only [List.cons_append, runObs]
    cases obsStep t o with
    | none => simp
    | some t' => simp [ih]

theorem runObs_snoc (tr : List Obs) (o : Obs) (t t' : TraceState) (h : runObs ⟨none, 0, 0⟩ tr = some t)
    (ho : obsStep t o = some t') : runObs ⟨none, 0, 0⟩ (tr ++ [o]) = some t' := by
  rw [runObs_append, h]
  simp [runObs, ho]

theorem inv_init (n : Nat) : Inv (Sys.init n) := by
  constructor <;> simp [Sys.init, inCrit, Sys.fly, runObs]

theorem stepMain_inv (s : Sys) (h : Inv s) : Inv (stepMain false s) := by
  obtain ⟨hM, hT, hfM0, hfT0, hfMp, hfTp, hagg, hacc, hret, hfin, hobs⟩ := h
  unfold stepMain
  cases hp : s.pcM with
  | idle =>
    simp only []
    split
    · exact ⟨hM, hT, hfM0, hfT0, hfMp, hfTp, hagg, hacc, hret, hfin, hobs⟩
    · split
      · constructor <;> simp_all [inCrit, Sys.fly]
      · constructor <;> simp_all [inCrit, Sys.fly]
  | want =>
    simp only []
    split
    · rename_i hnone
      have hTn : inCrit s.pcT = false := by
        cases hc : inCrit s.pcT with
        | false => rfl
        | true => have := hT.mpr hc; simp [hnone] at this
      constructor <;> simp_all [inCrit, Sys.fly]
    · exact ⟨hM, hT, hfM0, hfT0, hfMp, hfTp, hagg, hacc, hret, hfin, hobs⟩
  | locked =>
    have hhold : s.holder = some .main := hM.mpr (by simp [hp, inCrit])
    have hTn : s.pcT ≠ .sending := by
      intro hc
      have := hT.mpr (by simp [hc, inCrit])
      simp [hhold] at this
    have hflyN : s.fly = none := by simp [Sys.fly, hp, hTn]
    have hfM := hfM0 (by simp [hp])
    simp only []
    cases hc : s.curM with
    | send =>
      simp only []
      split
      · constructor <;> simp_all [inCrit, Sys.fly] <;> omega
      · refine ⟨by simp_all [inCrit], by simp_all [inCrit], by simp, by simp_all, by simp, by simp_all, by simp_all,
          by first | (simp_all; omega) | simp_all, by simp_all, by simp_all, ?_⟩
        apply runObs_snoc _ _ _ _ hobs
        simp [obsStep, hflyN, Sys.fly, hTn, hp]
    | final =>
      simp only []
      split
      · split
        · rename_i hcol hpos
          refine ⟨by simp_all [inCrit], by simp_all [inCrit], by simp, by simp_all, by simp_all, by simp_all, by simp,
            by first | (simp_all; omega) | simp_all, by simp_all, by simp, ?_⟩
          apply runObs_snoc _ _ _ _ hobs
          simp [obsStep, hflyN, Sys.fly, hTn, hpos, hp]
        · rename_i hcol hz
          have : s.agg = 0 := by omega
          constructor <;> simp_all [inCrit, Sys.fly]
      · constructor <;> simp_all [inCrit, Sys.fly]
  | sending =>
    have hhold : s.holder = some .main := hM.mpr (by simp [hp, inCrit])
    have hTn : s.pcT ≠ .sending := by
      intro hc
      have := hT.mpr (by simp [hc, inCrit])
      simp [hhold] at this
    have hflyS : s.fly = some s.flyM := by simp [Sys.fly, hp]
    have hfT := hfT0 hTn
    simp only []
    refine ⟨by simp_all [inCrit], by simp_all [inCrit], by simp, by simp_all, by simp, by simp_all, by simp_all,
      by first | (simp_all; omega) | simp_all, by simp_all, by simp_all, ?_⟩
    apply runObs_snoc _ _ _ _ hobs
    simp [obsStep, hflyS, Sys.fly, hTn, hp]
  | sent =>
    have hhold : s.holder = some .main := hM.mpr (by simp [hp, inCrit])
    have hTn : s.pcT ≠ .sending := by
      intro hc
      have := hT.mpr (by simp [hc, inCrit])
      simp [hhold] at this
    have hTc : inCrit s.pcT = false := by
      cases hc : inCrit s.pcT with
      | false => rfl
      | true => have := hT.mpr hc; simp [hhold] at this
    have hflyN : s.fly = none := by simp [Sys.fly, hp, hTn]
    have hfM := hfM0 (by simp [hp])
    have hfT := hfT0 hTn
    simp only []
    cases hc : s.curM with
    | send =>
      simp only []
      refine ⟨by simp_all [inCrit], by simp_all [inCrit], by simp_all, by simp_all, by simp, by simp_all, by simp_all,
        by simp_all, by simp_all, by simp_all, ?_⟩
      apply runObs_snoc _ _ _ _ hobs
      simp [obsStep, hflyN, Sys.fly, hTn, hp]
    | final =>
      simp only []
      have hnc := hfin hc (Or.inr hp)
      have ha := hagg hnc
      refine ⟨by simp_all [inCrit], by simp_all [inCrit], by simp_all, by simp_all, by simp, by simp_all, by simp_all,
        by simp_all, by simp_all, by simp_all, ?_⟩
      apply runObs_snoc _ _ _ _ hobs
      have : s.delivered = s.returned := by simp_all
      simp [obsStep, hflyN, Sys.fly, hTn, this, hp]

theorem stepTimer_inv (s : Sys) (h : Inv s) : Inv (stepTimer false s) := by
  obtain ⟨hM, hT, hfM0, hfT0, hfMp, hfTp, hagg, hacc, hret, hfin, hobs⟩ := h
  unfold stepTimer
  cases hp : s.pcT with
  | idle =>
    simp only []
    split
    · constructor <;> simp_all [inCrit, Sys.fly]
    · exact ⟨hM, hT, hfM0, hfT0, hfMp, hfTp, hagg, hacc, hret, hfin, hobs⟩
  | want =>
    simp only []
    split
    · rename_i hnone
      have hMn : inCrit s.pcM = false := by
        cases hc : inCrit s.pcM with
        | false => rfl
        | true => have := hM.mpr hc; simp [hnone] at this
      have hMs : s.pcM ≠ .sending ∧ s.pcM ≠ .sent := by
        constructor <;> (intro hc; simp [hc, inCrit] at hMn)
      constructor <;> simp_all [inCrit, Sys.fly]
    · exact ⟨hM, hT, hfM0, hfT0, hfMp, hfTp, hagg, hacc, hret, hfin, hobs⟩
  | locked =>
    have hhold : s.holder = some .timer := hT.mpr (by simp [hp, inCrit])
    have hMc : inCrit s.pcM = false := by
      cases hc : inCrit s.pcM with
      | false => rfl
      | true => have := hM.mpr hc; simp [hhold] at this
    have hMn : s.pcM ≠ .sending ∧ s.pcM ≠ .sent := by
      constructor <;> (intro hc; simp [hc, inCrit] at hMc)
    have hflyN : s.fly = none := by simp [Sys.fly, hp, hMn.1]
    have hfT := hfT0 (by simp [hp])
    have hfM := hfM0 hMn.1
    simp only []
    split
    · split
      · rename_i hcol hpos
        refine ⟨by simp_all [inCrit], by simp_all [inCrit], by simp_all, by simp, by simp_all, by simp_all, by simp,
          by first | (simp_all; omega) | simp_all, by simp_all, by simp_all, ?_⟩
        apply runObs_snoc _ _ _ _ hobs
        simp [obsStep, hflyN, Sys.fly, hMn.1, hpos, hp]
      · rename_i hcol hz
        have : s.agg = 0 := by omega
        constructor <;> simp_all [inCrit, Sys.fly]
    · constructor <;> simp_all [inCrit, Sys.fly]
  | sending =>
    have hhold : s.holder = some .timer := hT.mpr (by simp [hp, inCrit])
    have hMc : inCrit s.pcM = false := by
      cases hc : inCrit s.pcM with
      | false => rfl
      | true => have := hM.mpr hc; simp [hhold] at this
    have hMn : s.pcM ≠ .sending ∧ s.pcM ≠ .sent := by
      constructor <;> (intro hc; simp [hc, inCrit] at hMc)
    have hflyS : s.fly = some s.flyT := by simp [Sys.fly, hp, hMn.1]
    have hfM := hfM0 hMn.1
    simp only []
    refine ⟨by simp_all [inCrit], by simp_all [inCrit], by simp_all, by simp, by simp_all, by simp, by simp_all,
      by first | (simp_all; omega) | simp_all, by simp_all, by simp_all, ?_⟩
    apply runObs_snoc _ _ _ _ hobs
    simp [obsStep, hflyS, Sys.fly, hMn.1, hp]
  | sent =>
    have hhold : s.holder = some .timer := hT.mpr (by simp [hp, inCrit])
    have hMc : inCrit s.pcM = false := by
      cases hc : inCrit s.pcM with
      | false => rfl
      | true => have := hM.mpr hc; simp [hhold] at this
    have hMn : s.pcM ≠ .sending ∧ s.pcM ≠ .sent := by
      constructor <;> (intro hc; simp [hc, inCrit] at hMc)
    simp only []
    constructor <;> simp_all [inCrit, Sys.fly]

theorem runSched_inv (sched : List Tid) (s : Sys) (h : Inv s) : Inv (runSched false s sched) := by
  induction sched generalizing s with
  | nil => exact h
  | cons t rest ih =>
    simp only [runSched, List.foldl_cons]
    apply ih
    cases t
    · exact stepMain_inv s h
    · exact stepTimer_inv s h

end ZoektModel.C25
