/-
C24 — helper lemmas for the round-trip and totality theorems.
-/
import ZoektModel.C24.Spec
import ZoektModel.C24.ApiModel
import ZoektModel.C24.Orig
namespace ZoektModel.C24
open ZoektModel

@[simp] theorem bind_ok {α β} (a : α) (f : α → Outcome β) : (Outcome.ok a >>= f) = f a := rfl
@[simp] theorem bind_err {α β} (e : String) (f : α → Outcome β) : (Outcome.err e >>= f) = .err e := rfl
@[simp] theorem pure_eq {α} (a : α) : (pure a : Outcome α) = .ok a := rfl

theorem isOkOrErr_bind {α β} (x : Outcome α) (f : α → Outcome β) (hx : x.isOkOrErr = true)
    (hf : ∀ a, (f a).isOkOrErr = true) : (x >>= f).isOkOrErr = true := by
  cases x with
  | ok a => exact hf a
  | err e => rfl
  | panic s => simp [Outcome.isOkOrErr] at hx
  | diverge => simp [Outcome.isOkOrErr] at hx

theorem brsFromProto_total (env : Env) : ∀ l, (brsFromProto env l).isOkOrErr = true := by
  intro l
  induction l with
  | nil => rfl
  | cons p rest ih =>
    obtain ⟨b, bm⟩ := p
    unfold brsFromProto
    split
    · rfl
    · exact isOkOrErr_bind _ _ ih (fun _ => rfl)

theorem brsFromProto_id (env : Env) : ∀ l : List (String × String),
    (l.all fun p => env.bmParse p.2 == some p.2) = true → brsFromProto env l = .ok l := by
  intro l
  induction l with
  | nil => intro _; rfl
  | cons p rest ih =>
    obtain ⟨b, bm⟩ := p
    intro h
    simp only [List.all_cons, Bool.and_eq_true, beq_iff_eq] at h
    unfold brsFromProto
    simp only [h.1, ih h.2, bind_ok, pure_eq]

theorem setOfList_append : ∀ (s acc : List String), (∀ k ∈ s, k ∉ acc) → nodupB s = true →
    setOfList acc s = acc ++ s := by
  intro s
  induction s with
  | nil => intro acc _ _; simp [setOfList]
  | cons k ks ih =>
    intro acc hdis hnd
    simp only [nodupB, Bool.and_eq_true, Bool.not_eq_true', List.contains_eq_mem, decide_eq_false_iff_not] at hnd
    have hk : acc.contains k = false := by
      simpa using hdis k (by simp)
    unfold setOfList
    simp only [hk, Bool.false_eq_true, if_false]
    rw [ih (acc ++ [k]) ?_ hnd.2]
    · simp
    · intro x hx
      simp only [List.mem_append, List.mem_singleton, not_or]
      exact ⟨hdis x (by simp [hx]), fun h => hnd.1 (h ▸ hx)⟩

theorem setOfList_id (s : List String) (h : nodupB s = true) : setOfList [] s = s := by
  simpa using setOfList_append s [] (by simp) h

theorem raw_roundtrip : ∀ r, r < 64 → rawFlagsFromProto (rawFlagsToProto r) = r := by
  decide

theorem kind_roundtrip (t : Nat) (h : t < 3) : kindFromProto (kindToProto t) = t := by
  unfold kindFromProto kindToProto
  split <;> (try split) <;> (try split) <;> simp_all <;> omega

end ZoektModel.C24
