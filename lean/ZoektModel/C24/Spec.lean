/-
C24 — the property as executable predicates, written from the statement:
 (1) "every query … survives conversion to the wire format and back unchanged"   → `checkRoundTripP`
 (2) "the gRPC search service answers every well-formed wire request … with a response or an error status and
      never crashes the server"                                                  → `checkHandlerP`
and the well-formedness predicate `wf` that delimits "every query" (values a Go program can construct through the
package's exported API and that denote a query: no nil children, no package-internal node, parseable regular
expressions and bitmaps, the three defined `Type` constants, the six defined `RawConfig` flags, set keys distinct).
-/
import ZoektModel.C24.Model
namespace ZoektModel.C24

def checkRoundTripP (sent received : Q) : Bool := sent == received

/-- outcome class of a handler call: `ok` (response, or the Streamer's own error passed on) or `status:<code>` -/
def checkHandlerP (cls : String) : Bool := cls == "ok" || cls.startsWith "status:"

def nodupB : List String → Bool
  | [] => true
  | k :: ks => !ks.contains k && nodupB ks

mutual
def wf (env : Env) : Q → Bool
  | .nilQ => false
  | .caseQ _ => false
  | .rawConfig f => decide (f < 64)
  | .regexp re _ _ _ => env.reParse re == some re
  | .symbol e => wf env e
  | .language _ => true
  | .const _ => true
  | .repo re => env.creOk re
  | .repoRegexp re => env.creOk re
  | .branchesRepos l => l.all fun p => env.bmParse p.2 == some p.2
  | .repoIDs bm => env.bmParse bm == some bm
  | .repoSet _ => true
  | .fileNameSet s => nodupB s
  | .type_ c t => wf env c && decide (t < 3)
  | .substring _ _ _ _ => true
  | .and_ cs => wfList env cs
  | .or_ cs => wfList env cs
  | .not_ c => wf env c
  | .branch _ _ => true
  | .boost c _ => wf env c
  | .metaQ _ re => env.creOk re
def wfList (env : Env) : List Q → Bool
  | [] => true
  | q :: qs => wf env q && wfList env qs
end

-- only the exported node kinds, no nil child: what `QToProto` must accept
mutual
def publicQ : Q → Bool
  | .nilQ => false
  | .caseQ _ => false
  | .symbol e => publicQ e
  | .type_ c _ => publicQ c
  | .and_ cs => publicList cs
  | .or_ cs => publicList cs
  | .not_ c => publicQ c
  | .boost c _ => publicQ c
  | _ => true
def publicList : List Q → Bool
  | [] => true
  | q :: qs => publicQ q && publicList qs
end

/-! ## what the translator tables must satisfy (checked as theorems over `Generated/C24Wire.lean`) -/

/-- the node kinds the model's `Q` has a constructor for (besides `nilQ` and the internal `caseQ`), by Go type name,
    sorted: must be exactly the exported types of package query that implement `Q` -/
def modelKinds : List String :=
  ["And", "Boost", "Branch", "BranchesRepos", "Const", "FileNameSet", "Language", "Meta", "Not", "Or", "RawConfig",
   "Regexp", "Repo", "RepoIDs", "RepoRegexp", "RepoSet", "Substring", "Symbol", "Type"]

/-- struct fields that are deliberately not on the wire (each is reported as a KNOWN-FINDING by the harness) -/
def wireExempt : List (String × String) :=
  [("SearchOptions", "SpanContext"), ("SearchResult", "RepoURLs"), ("SearchResult", "LineFragments")]

/-- every field of the Go struct is read by `ToProto` and written by `FromProto` -/
def fieldsCovered (row : String × List String × List String × List String) : Bool :=
  row.2.1.all fun f => wireExempt.contains (row.1, f) || (row.2.2.1.contains f && row.2.2.2.contains f)

/-- every field of the protobuf message is set by `ToProto` and read by `FromProto` -/
def protoFieldsCovered (row : String × List String × List String × List String) : Bool :=
  row.2.1.all fun f => row.2.2.1.contains f && row.2.2.2.contains f

def swapPair (p : String × String) : String × String := (p.2, p.1)

end ZoektModel.C24
