/-
C24 — model of the query wire converters (query/query_proto.go: `QToProto`, `QFromProto` and the per-kind
`ToProto`/`…FromProto` functions) and of the request handling of the gRPC handlers
(cmd/zoekt-webserver/grpc/server/server.go: `Server.Search`, `StreamSearch`, `List`).

The model follows the code *after* the `fix:` commit (QToProto has a `*Meta` case; QFromProto returns an error for
a nil message and for an unset oneof instead of panicking). `Orig.lean` has the two functions as they were.

Conventions
* `Q` is the Go interface `query.Q`: one constructor per implementing type, plus `nilQ` (the nil interface) and the
  package-internal `caseQ`, which has no wire form. `PQ` is `*webserverv1.Q` as a handler can receive it from the
  wire: `absent` (message field not set, Go nil), `unset` (message present, oneof not set) or one arm. Sub-messages
  of a set arm are never nil after `proto.Unmarshal`, so they are not optional here.
* Strings, regular-expression sources, serialised bitmaps and floats are opaque tokens (`String`); the external
  parsers are parameters (`Env`): `reParse` = `syntax.Parse` followed by `RegexpString` (none = error), `creOk` =
  `regexp.Compile` succeeds, `bmParse` = roaring `UnmarshalBinary` followed by `ToBytes` (none = error).
* Go maps are lists of entries in iteration order; `FileNameSetFromProto` inserts into a map (duplicates collapse).
* Every Go `panic` is `Outcome.panic`; a returned error is `Outcome.err`.
-/
import ZoektModel.Basic.Outcome
namespace ZoektModel.C24
open ZoektModel

inductive Q where
  | nilQ
  | caseQ (flavor : String)
  | rawConfig (flags : Nat)
  | regexp (re : String) (fileName content caseSensitive : Bool)
  | symbol (expr : Q)
  | language (l : String)
  | const (v : Bool)
  | repo (re : String)
  | repoRegexp (re : String)
  | branchesRepos (l : List (String × String))
  | repoIDs (bm : String)
  | repoSet (s : List (String × Bool))
  | fileNameSet (s : List String)
  | type_ (child : Q) (t : Nat)
  | substring (pattern : String) (caseSensitive fileName content : Bool)
  | and_ (children : List Q)
  | or_ (children : List Q)
  | not_ (child : Q)
  | branch (pattern : String) (exact : Bool)
  | boost (child : Q) (boost : String)
  | metaQ (field : String) (re : String)
  deriving Repr, BEq, Inhabited

inductive PQ where
  | absent
  | unset
  | rawConfig (flags : List Nat)
  | regexp (re : String) (fileName content caseSensitive : Bool)
  | symbol (expr : PQ)
  | language (l : String)
  | const (v : Bool)
  | repo (re : String)
  | repoRegexp (re : String)
  | branchesRepos (l : List (String × String))
  | repoIds (bm : String)
  | repoSet (s : List (String × Bool))
  | fileNameSet (s : List String)
  | type_ (child : PQ) (kind : Nat)
  | substring (pattern : String) (caseSensitive fileName content : Bool)
  | and_ (children : List PQ)
  | or_ (children : List PQ)
  | not_ (child : PQ)
  | branch (pattern : String) (exact : Bool)
  | boost (child : PQ) (boost : String)
  | metaQ (key : String) (value : String)
  deriving Repr, BEq, Inhabited

structure Env where
  reParse : String → Option String
  creOk : String → Bool
  bmParse : String → Option String

/-! ## RawConfig flags (`RawConfig.ToProto` / `RawConfigFromProto`) -/

/-- the six masks of `flagNames`, in that order; the protobuf enum values are the same numbers -/
def rawMasks : List Nat := [1, 2, 4, 8, 16, 32]

/-- `RawConfig.ToProto`: one enum value per mask present, in `flagNames` order -/
def rawFlagsToProto (r : Nat) : List Nat := rawMasks.filter fun m => r &&& m != 0

/-- `RawConfigFromProto`: OR of the recognised flags, others ignored -/
def rawFlagsFromProto (fl : List Nat) : Nat := fl.foldl (fun res f => if rawMasks.contains f then res ||| f else res) 0

/-! ## Type kinds -/

/-- `(*Type).ToProto`: TypeFileMatch=0, TypeFileName=1, TypeRepo=2 ↦ KIND_FILE_MATCH=1, KIND_FILE_NAME=2, KIND_REPO=3;
    anything else ↦ KIND_UNKNOWN_UNSPECIFIED=0 -/
def kindToProto (t : Nat) : Nat := if t = 0 then 1 else if t = 1 then 2 else if t = 2 then 3 else 0

/-- `TypeFromProto`: unknown kinds leave `kind` at its zero value, TypeFileMatch -/
def kindFromProto (k : Nat) : Nat := if k = 1 then 0 else if k = 2 then 1 else if k = 3 then 2 else 0

/-! ## QToProto -/

mutual
def toProto : Q → Outcome PQ
  | .nilQ => .panic "unknown query node <nil>"
  | .caseQ _ => .panic "unknown query node *query.caseQ"
  | .rawConfig f => .ok (.rawConfig (rawFlagsToProto f))
  | .regexp re a b c => .ok (.regexp re a b c)
  | .symbol e => do let p ← toProto e; pure (.symbol p)
  | .language l => .ok (.language l)
  | .const v => .ok (.const v)
  | .repo re => .ok (.repo re)
  | .repoRegexp re => .ok (.repoRegexp re)
  | .branchesRepos l => .ok (.branchesRepos l)
  | .repoIDs bm => .ok (.repoIds bm)
  | .repoSet s => .ok (.repoSet s)
  | .fileNameSet s => .ok (.fileNameSet s)
  | .type_ c t => do let p ← toProto c; pure (.type_ p (kindToProto t))
  | .substring p a b c => .ok (.substring p a b c)
  | .and_ cs => do let ps ← toProtoList cs; pure (.and_ ps)
  | .or_ cs => do let ps ← toProtoList cs; pure (.or_ ps)
  | .not_ c => do let p ← toProto c; pure (.not_ p)
  | .branch p e => .ok (.branch p e)
  | .boost c b => do let p ← toProto c; pure (.boost p b)
  | .metaQ f re => .ok (.metaQ f re)
def toProtoList : List Q → Outcome (List PQ)
  | [] => .ok []
  | q :: qs => do let p ← toProto q; let ps ← toProtoList qs; pure (p :: ps)
end

/-! ## QFromProto -/

/-- `BranchesReposFromProto`: entries in order, the first bitmap that fails to parse is the error -/
def brsFromProto (env : Env) : List (String × String) → Outcome (List (String × String))
  | [] => .ok []
  | (b, bm) :: rest =>
    match env.bmParse bm with
    | none => .err "bitmap"
    | some c => do let r ← brsFromProto env rest; pure ((b, c) :: r)

/-- `m[name] = struct{}{}` for each name, in order -/
def setOfList : List String → List String → List String
  | acc, [] => acc
  | acc, k :: ks => setOfList (if acc.contains k then acc else acc ++ [k]) ks

mutual
def fromProto (env : Env) : PQ → Outcome Q
  | .absent => .err "nil query"
  | .unset => .err "unknown query node"
  | .rawConfig fl => .ok (.rawConfig (rawFlagsFromProto fl))
  | .regexp re a b c =>
    match env.reParse re with
    | none => .err "regexp"
    | some r => .ok (.regexp r a b c)
  | .symbol e => do let q ← fromProto env e; pure (.symbol q)
  | .language l => .ok (.language l)
  | .const v => .ok (.const v)
  | .repo re => if env.creOk re then .ok (.repo re) else .err "regexp"
  | .repoRegexp re => if env.creOk re then .ok (.repoRegexp re) else .err "regexp"
  | .branchesRepos l => do let l' ← brsFromProto env l; pure (.branchesRepos l')
  | .repoIds bm =>
    match env.bmParse bm with
    | none => .err "bitmap"
    | some c => .ok (.repoIDs c)
  | .repoSet s => .ok (.repoSet s)
  | .fileNameSet s => .ok (.fileNameSet (setOfList [] s))
  | .type_ c k => do let q ← fromProto env c; pure (.type_ q (kindFromProto k))
  | .substring p a b c => .ok (.substring p a b c)
  | .and_ cs => do let qs ← fromProtoList env cs; pure (.and_ qs)
  | .or_ cs => do let qs ← fromProtoList env cs; pure (.or_ qs)
  | .not_ c => do let q ← fromProto env c; pure (.not_ q)
  | .branch p e => .ok (.branch p e)
  | .boost c b => do let q ← fromProto env c; pure (.boost q b)
  | .metaQ k v => if env.creOk v then .ok (.metaQ k v) else .err "regexp"
def fromProtoList (env : Env) : List PQ → Outcome (List Q)
  | [] => .ok []
  | p :: ps => do let q ← fromProto env p; let qs ← fromProtoList env ps; pure (q :: qs)
end

/-! ## the gRPC handlers, up to the call of the Streamer

`Search(ctx, req)`: `q, err := QFromProto(req.GetQuery())`; an error becomes `status.Error(codes.InvalidArgument)`;
otherwise the streamer is called with `SearchOptionsFromProto(req.GetOpts())` (nil-safe) and its result converted by
the nil-safe `ToProto`. `StreamSearch` first takes `req.GetRequest()` (nil-safe getters all the way down); `List`
is `Search` with `ListOptionsFromProto`. The request is therefore characterised by the `PQ` the getters yield
(`absent` when the request, the inner request or the query field is unset). -/

/-- which options value the Streamer is called with -/
inductive OptsArg where
  | fromWire   -- the request's `opts` message, converted
  | zero       -- `&zoekt.SearchOptions{}`: the request left `opts` unset (Search / StreamSearch)
  | nilOpts    -- nil: the request left `opts` unset (List; `ListOptions.GetField` is nil-safe)
  deriving Repr, BEq, DecidableEq

inductive Rpc where
  | search | stream | list
  deriving Repr, BEq, DecidableEq

inductive HandlerResult where
  | invalidArgument                        -- status.Error(codes.InvalidArgument, …)
  | callsStreamer (q : Q) (opts : OptsArg) -- the Streamer is invoked; its response or error is returned
  deriving Repr, BEq

/-- `searchOptionsFromRequest` / `ListOptionsFromProto(req.GetOpts())` -/
def optsArg (rpc : Rpc) (optsSet : Bool) : OptsArg :=
  if optsSet then .fromWire else match rpc with
    | .list => .nilOpts
    | _ => .zero

def handler (env : Env) (rpc : Rpc) (query : PQ) (optsSet : Bool) : Outcome HandlerResult :=
  match fromProto env query with
  | .ok q => .ok (.callsStreamer q (optsArg rpc optsSet))
  | .err _ => .ok .invalidArgument
  | .panic s => .panic s
  | .diverge => .diverge

end ZoektModel.C24
