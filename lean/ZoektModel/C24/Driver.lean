import ZoektModel.Basic.Proto
namespace ZoektModel.C24
/-- stub: no model driver for C24 yet -/
def main : IO Unit := ZoektModel.Proto.runLines (fun _ => ZoektModel.Proto.badCase "no model driver for C24")
end ZoektModel.C24
