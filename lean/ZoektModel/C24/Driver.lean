import ZoektModel.Basic.Proto
import ZoektModel.C24.Spec
import ZoektModel.C24.ApiModel
namespace ZoektModel.C24
open ZoektModel ZoektModel.Proto

/-! generic term syntax shared with harness/cmd/c24: `name(arg,…)`, `[arg,…]`, atoms (no spaces anywhere) -/

inductive T where
  | atom (s : String)
  | node (name : String) (args : List T)
  deriving Repr, Inhabited

def isDelim (c : Char) : Bool := c == '(' || c == ')' || c == ',' || c == '[' || c == ']'

mutual
partial def parseTerm (cs : List Char) : Option (T × List Char) :=
  let (word, rest) := cs.span (fun c => !isDelim c)
  match rest with
  | '(' :: rest' =>
    match parseArgs rest' ')' [] with
    | some (args, rest'') => some (.node (String.ofList word) args, rest'')
    | none => none
  | '[' :: rest' =>
    if word.isEmpty then
      match parseArgs rest' ']' [] with
      | some (args, rest'') => some (.node "" args, rest'')
      | none => none
    else none
  | _ => if word.isEmpty then none else some (.atom (String.ofList word), rest)
partial def parseArgs (cs : List Char) (close : Char) (acc : List T) : Option (List T × List Char) :=
  match cs with
  | c :: rest =>
    if c == close then some (acc.reverse, rest) else
    match parseTerm cs with
    | some (t, ',' :: rest') => parseArgs rest' close (t :: acc)
    | some (t, c' :: rest') => if c' == close then some ((t :: acc).reverse, rest') else none
    | _ => none
  | [] => none
end

def parseT (s : String) : Option T :=
  match parseTerm s.toList with
  | some (t, []) => some t
  | _ => none

def tBool : T → Option Bool
  | .atom "1" => some true
  | .atom "0" => some false
  | _ => none

def tNat : T → Option Nat
  | .atom s => s.toNat?
  | _ => none

def tStr : T → Option String
  | .atom s => some s
  | _ => none

def tPairs {α} (f : T → Option α) : List T → Option (List (String × α))
  | [] => some []
  | .node "p" [a, b] :: rest => do pure ((← tStr a, ← f b) :: (← tPairs f rest))
  | _ => none

mutual
partial def tToQ : T → Option Q
  | .atom "nil" => some .nilQ
  | .node "case" [a] => do pure (.caseQ (← tStr a))
  | .node "raw" [a] => do pure (.rawConfig (← tNat a))
  | .node "re" [a, b, c, d] => do pure (.regexp (← tStr a) (← tBool b) (← tBool c) (← tBool d))
  | .node "sym" [a] => do pure (.symbol (← tToQ a))
  | .node "lang" [a] => do pure (.language (← tStr a))
  | .node "const" [a] => do pure (.const (← tBool a))
  | .node "repo" [a] => do pure (.repo (← tStr a))
  | .node "reporx" [a] => do pure (.repoRegexp (← tStr a))
  | .node "brs" [.node "" l] => do pure (.branchesRepos (← tPairs tStr l))
  | .node "ids" [a] => do pure (.repoIDs (← tStr a))
  | .node "rset" [.node "" l] => do pure (.repoSet (← tPairs tBool l))
  | .node "fset" [.node "" l] => do pure (.fileNameSet (← l.mapM tStr))
  | .node "type" [a, b] => do pure (.type_ (← tToQ a) (← tNat b))
  | .node "sub" [a, b, c, d] => do pure (.substring (← tStr a) (← tBool b) (← tBool c) (← tBool d))
  | .node "and" [.node "" l] => do pure (.and_ (← l.mapM tToQ))
  | .node "or" [.node "" l] => do pure (.or_ (← l.mapM tToQ))
  | .node "not" [a] => do pure (.not_ (← tToQ a))
  | .node "branch" [a, b] => do pure (.branch (← tStr a) (← tBool b))
  | .node "boost" [a, b] => do pure (.boost (← tToQ a) (← tStr b))
  | .node "meta" [a, b] => do pure (.metaQ (← tStr a) (← tStr b))
  | _ => none
end

mutual
partial def tToPQ : T → Option PQ
  | .atom "absent" => some .absent
  | .atom "unset" => some .unset
  | .node "raw" [.node "" l] => do pure (.rawConfig (← l.mapM tNat))
  | .node "re" [a, b, c, d] => do pure (.regexp (← tStr a) (← tBool b) (← tBool c) (← tBool d))
  | .node "sym" [a] => do pure (.symbol (← tToPQ a))
  | .node "lang" [a] => do pure (.language (← tStr a))
  | .node "const" [a] => do pure (.const (← tBool a))
  | .node "repo" [a] => do pure (.repo (← tStr a))
  | .node "reporx" [a] => do pure (.repoRegexp (← tStr a))
  | .node "brs" [.node "" l] => do pure (.branchesRepos (← tPairs tStr l))
  | .node "ids" [a] => do pure (.repoIds (← tStr a))
  | .node "rset" [.node "" l] => do pure (.repoSet (← tPairs tBool l))
  | .node "fset" [.node "" l] => do pure (.fileNameSet (← l.mapM tStr))
  | .node "type" [a, b] => do pure (.type_ (← tToPQ a) (← tNat b))
  | .node "sub" [a, b, c, d] => do pure (.substring (← tStr a) (← tBool b) (← tBool c) (← tBool d))
  | .node "and" [.node "" l] => do pure (.and_ (← l.mapM tToPQ))
  | .node "or" [.node "" l] => do pure (.or_ (← l.mapM tToPQ))
  | .node "not" [a] => do pure (.not_ (← tToPQ a))
  | .node "branch" [a, b] => do pure (.branch (← tStr a) (← tBool b))
  | .node "boost" [a, b] => do pure (.boost (← tToPQ a) (← tStr b))
  | .node "meta" [a, b] => do pure (.metaQ (← tStr a) (← tStr b))
  | _ => none
end

def bl (l : List String) : String := "[" ++ ",".intercalate l ++ "]"
def sortS (l : List String) : List String := l.mergeSort fun a b => !(b < a)
def b01 (b : Bool) : String := if b then "1" else "0"

/-- sets and maps are rendered sorted (their Go iteration order is arbitrary) -/
partial def showQ : Q → String
  | .nilQ => "nil"
  | .caseQ f => s!"case({f})"
  | .rawConfig n => s!"raw({n})"
  | .regexp r a b c => s!"re({r},{b01 a},{b01 b},{b01 c})"
  | .symbol e => s!"sym({showQ e})"
  | .language l => s!"lang({l})"
  | .const v => s!"const({b01 v})"
  | .repo r => s!"repo({r})"
  | .repoRegexp r => s!"reporx({r})"
  | .branchesRepos l => s!"brs({bl (l.map fun p => s!"p({p.1},{p.2})")})"
  | .repoIDs b => s!"ids({b})"
  | .repoSet s => s!"rset({bl (sortS (s.map fun p => s!"p({p.1},{b01 p.2})"))})"
  | .fileNameSet s => s!"fset({bl (sortS s)})"
  | .type_ c t => s!"type({showQ c},{t})"
  | .substring p a b c => s!"sub({p},{b01 a},{b01 b},{b01 c})"
  | .and_ cs => s!"and({bl (cs.map showQ)})"
  | .or_ cs => s!"or({bl (cs.map showQ)})"
  | .not_ c => s!"not({showQ c})"
  | .branch p e => s!"branch({p},{b01 e})"
  | .boost c b => s!"boost({showQ c},{b})"
  | .metaQ f r => s!"meta({f},{r})"

partial def showPQ : PQ → String
  | .absent => "absent"
  | .unset => "unset"
  | .rawConfig l => s!"raw({bl (l.map toString)})"
  | .regexp r a b c => s!"re({r},{b01 a},{b01 b},{b01 c})"
  | .symbol e => s!"sym({showPQ e})"
  | .language l => s!"lang({l})"
  | .const v => s!"const({b01 v})"
  | .repo r => s!"repo({r})"
  | .repoRegexp r => s!"reporx({r})"
  | .branchesRepos l => s!"brs({bl (l.map fun p => s!"p({p.1},{p.2})")})"
  | .repoIds b => s!"ids({b})"
  | .repoSet s => s!"rset({bl (sortS (s.map fun p => s!"p({p.1},{b01 p.2})"))})"
  | .fileNameSet s => s!"fset({bl (sortS s)})"
  | .type_ c t => s!"type({showPQ c},{t})"
  | .substring p a b c => s!"sub({p},{b01 a},{b01 b},{b01 c})"
  | .and_ cs => s!"and({bl (cs.map showPQ)})"
  | .or_ cs => s!"or({bl (cs.map showPQ)})"
  | .not_ c => s!"not({showPQ c})"
  | .branch p e => s!"branch({p},{b01 e})"
  | .boost c b => s!"boost({showPQ c},{b})"
  | .metaQ k v => s!"meta({k},{v})"

/-- table of the external parsers' behaviour on the strings of this case:
    `[re(in,out|E),cre(in,0|1),bm(in,out|E)]`; a missing entry shows up as the token `MISSING` -/
def envOfTable : T → Option Env
  | .node "" l =>
    let find (kind : String) (key : String) : Option String :=
      l.findSome? fun
        | .node k [.atom a, .atom b] => if k == kind && a == key then some b else none
        | _ => none
    some {
      reParse := fun s => match find "re" s with | some "E" => none | some o => some o | none => some "MISSING"
      creOk := fun s => match find "cre" s with | some "1" => true | some _ => false | none => true
      bmParse := fun s => match find "bm" s with | some "E" => none | some o => some o | none => some "MISSING" }
  | _ => none

def showOut {α} (f : α → String) : Outcome α → String
  | .ok a => f a
  | .err _ => "err"
  | .panic _ => "panic"
  | .diverge => "diverge"

def handle (line : String) : String :=
  let (inp, impl) := splitCase line
  match fields inp with
  | ["toproto", qs] =>
    match parseT qs >>= tToQ with
    | some q => answer (showOut showPQ (toProto q))
    | none => badCase "query term"
  | ["fromproto", ps, ts] =>
    match parseT ps >>= tToPQ, parseT ts >>= envOfTable with
    | some p, some env => answer (showOut showQ (fromProto env p))
    | _, _ => badCase "proto term / table"
  | ["rt", qs, ts] =>
    -- impl: `<proto term>|<query term that came back>`
    match parseT qs >>= tToQ, parseT ts >>= envOfTable with
    | some q, some env =>
      let back : Outcome Q := do let p ← toProto q; fromProto env p
      let model := showOut showPQ (toProto q) ++ "|" ++ showOut showQ back
      match impl.splitOn "|" with
      | [_, iq] =>
        match parseT iq >>= tToQ with
        | some q' => if checkRoundTripP q q' || showQ q == showQ q' then answer model else specFail model "roundtrip:query"
        | none => specFail model ("roundtrip:query:" ++ iq)
      | _ => specFail model ("roundtrip:query:" ++ impl)
    | _, _ => badCase "query term / table"
  | ["handler", which, ps, os, ts] =>
    match parseT ps >>= tToPQ, bool? os, parseT ts >>= envOfTable with
    | some p, some optsSet, some env =>
      let rpc : Rpc := if which == "list" then .list else if which == "stream" then .stream else .search
      let model := match handler env rpc p optsSet with
        | .ok .invalidArgument => "status:InvalidArgument"
        | .ok (.callsStreamer q o) => "ok " ++ showQ q ++ " opts=" ++
            (match o with | .fromWire => "wire" | .zero => "zero" | .nilOpts => "nil")
        | .panic _ => "panic"
        | _ => "?"
      if checkHandlerP ((impl.splitOn " ").headD "") then answer model else specFail model ("handler-not-total:" ++ (impl.splitOn " ").headD "")
    | _, _, _ => badCase "proto term / table"
  | ["flush", a] =>
    match a.toNat? with
    | some fr =>
      let model := s!"{flushToProto fr} {flushFromProto (flushToProto fr)}"
      answer model
    | none => badCase "fields"
  | ["flushfrom", a] =>
    match a.toNat? with
    | some p => answer s!"{flushFromProto p}"
    | none => badCase "fields"
  | ["listfield", a] =>
    match a.toInt? with
    | some f => answer s!"{listFieldToProto f} {listFieldFromProto (listFieldToProto f)}"
    | none => badCase "fields"
  | ["listfieldfrom", a] =>
    match a.toNat? with
    | some p => answer s!"{listFieldFromProto p}"
    | none => badCase "fields"
  | ["duration", a] =>
    match a.toInt? with
    | some d => answer s!"{(durationSplit d).1} {(durationSplit d).2} {durationJoin (durationSplit d)}"
    | none => badCase "fields"
  | ["rank", a] =>
    match a.toNat? with
    | some x => answer s!"{u16ViaU32 x}"
    | none => badCase "fields"
  | _ => badCase "op"

def main : IO Unit := runLines handle
end ZoektModel.C24
