/-
C24 — `QToProto` / `QFromProto` as they were *before* commit ce3d04e (query/query_proto.go at the snapshot): no case
for `*query.Meta` in `QToProto`; `QFromProto` dereferenced a nil message (`p.Query`) and its default clause
panicked on an unset oneof. Everything else is identical to Model.lean. Used only to state, as theorems, that the
property was false on that code (Props/C24.lean: `orig_*`); the witnesses are replayed against the real code from
corpus/C24. Not used by the driver.
-/
import ZoektModel.C24.Model
namespace ZoektModel.C24
open ZoektModel

mutual
def toProtoOrig : Q → Outcome PQ
  | .nilQ => .panic "unknown query node <nil>"
  | .caseQ _ => .panic "unknown query node *query.caseQ"
  | .rawConfig f => .ok (.rawConfig (rawFlagsToProto f))
  | .regexp re a b c => .ok (.regexp re a b c)
  | .symbol e => do let p ← toProtoOrig e; pure (.symbol p)
  | .language l => .ok (.language l)
  | .const v => .ok (.const v)
  | .repo re => .ok (.repo re)
  | .repoRegexp re => .ok (.repoRegexp re)
  | .branchesRepos l => .ok (.branchesRepos l)
  | .repoIDs bm => .ok (.repoIds bm)
  | .repoSet s => .ok (.repoSet s)
  | .fileNameSet s => .ok (.fileNameSet s)
  | .type_ c t => do let p ← toProtoOrig c; pure (.type_ p (kindToProto t))
  | .substring p a b c => .ok (.substring p a b c)
  | .and_ cs => do let ps ← toProtoListOrig cs; pure (.and_ ps)
  | .or_ cs => do let ps ← toProtoListOrig cs; pure (.or_ ps)
  | .not_ c => do let p ← toProtoOrig c; pure (.not_ p)
  | .branch p e => .ok (.branch p e)
  | .boost c b => do let p ← toProtoOrig c; pure (.boost p b)
  | .metaQ _ _ => .panic "unknown query node *query.Meta"
def toProtoListOrig : List Q → Outcome (List PQ)
  | [] => .ok []
  | q :: qs => do let p ← toProtoOrig q; let ps ← toProtoListOrig qs; pure (p :: ps)
end

mutual
def fromProtoOrig (env : Env) : PQ → Outcome Q
  | .absent => .panic "invalid memory address or nil pointer dereference"
  | .unset => .panic "unknown query node <nil>"
  | .rawConfig fl => .ok (.rawConfig (rawFlagsFromProto fl))
  | .regexp re a b c =>
    match env.reParse re with
    | none => .err "regexp"
    | some r => .ok (.regexp r a b c)
  | .symbol e => do let q ← fromProtoOrig env e; pure (.symbol q)
  | .language l => .ok (.language l)
  | .const v => .ok (.const v)
  | .repo re => if env.creOk re then .ok (.repo re) else .err "regexp"
  | .repoRegexp re => if env.creOk re then .ok (.repoRegexp re) else .err "regexp"
  | .branchesRepos l => do let l' ← brsFromProto env l; pure (.branchesRepos l')
  | .repoIds bm =>
    match env.bmParse bm with
    | none => .err "bitmap"
    | some c => .ok (.repoIDs c)
  | .repoSet s => .ok (.repoSet s)
  | .fileNameSet s => .ok (.fileNameSet (setOfList [] s))
  | .type_ c k => do let q ← fromProtoOrig env c; pure (.type_ q (kindFromProto k))
  | .substring p a b c => .ok (.substring p a b c)
  | .and_ cs => do let qs ← fromProtoListOrig env cs; pure (.and_ qs)
  | .or_ cs => do let qs ← fromProtoListOrig env cs; pure (.or_ qs)
  | .not_ c => do let q ← fromProtoOrig env c; pure (.not_ q)
  | .branch p e => .ok (.branch p e)
  | .boost c b => do let q ← fromProtoOrig env c; pure (.boost q b)
  | .metaQ k v => if env.creOk v then .ok (.metaQ k v) else .err "regexp"
def fromProtoListOrig (env : Env) : List PQ → Outcome (List Q)
  | [] => .ok []
  | p :: ps => do let q ← fromProtoOrig env p; let qs ← fromProtoListOrig env ps; pure (q :: qs)
end

/-- the handlers before the fix: same code, on top of the panicking `QFromProto` -/
def handlerOrig (env : Env) (query : PQ) : Outcome HandlerResult :=
  match fromProtoOrig env query with
  | .ok q => .ok (.callsStreamer q .fromWire)
  | .err _ => .ok .invalidArgument
  | .panic s => .panic s
  | .diverge => .diverge

end ZoektModel.C24
