/-
C24 — the value conversions of api_proto.go that are not plain copies: enum mappings and integer narrowing /
widening, duration and timestamp splitting.  Core Lean only (the driver evaluates them against the real converters).
-/
namespace ZoektModel.C24

/-- `FlushReason.ToProto`: the Go constants are bit flags (TimerExpired = 1, FinalFlush = 2, MaxSize = 4), the
    protobuf enum counts 1, 2, 3; anything else ↦ FLUSH_REASON_UNKNOWN_UNSPECIFIED = 0 -/
def flushToProto (fr : Nat) : Nat := if fr = 1 then 1 else if fr = 2 then 2 else if fr = 4 then 3 else 0

/-- `FlushReasonFromProto` -/
def flushFromProto (p : Nat) : Nat := if p = 1 then 1 else if p = 2 then 2 else if p = 3 then 4 else 0

/-- `(*ListOptions).ToProto`: RepoListFieldRepos = 0 ↦ REPOS = 1, RepoListFieldReposMap = 2 ↦ REPOS_MAP = 3,
    anything else ↦ UNKNOWN_UNSPECIFIED = 0 -/
def listFieldToProto (f : Int) : Nat := if f = 0 then 1 else if f = 2 then 3 else 0

/-- `ListOptionsFromProto` -/
def listFieldFromProto (p : Nat) : Int := if p = 1 then 0 else if p = 3 then 2 else 0

/-- `uint32(r.Rank)` then `uint16(p.GetRank())`; `uint32(id)` then `uint16(id)` for LanguageMap -/
def u16ViaU32 (x : Nat) : Nat := (x % 4294967296) % 65536

/-- `durationpb.New(d)`: seconds and nanos, both truncated toward zero (Go `/` and `%` on int64) -/
def durationSplit (d : Int) : Int × Int := (Int.tdiv d 1000000000, Int.tmod d 1000000000)

/-- `(*durationpb.Duration).AsDuration` for values `New` produces (no overflow: |secs·10⁹ + nanos| = |d|) -/
def durationJoin (p : Int × Int) : Int := p.1 * 1000000000 + p.2

end ZoektModel.C24
