/-
C22 — lemmas for Props/C22.lean.
-/
import ZoektModel.C22.Spec
namespace ZoektModel.C22
open ZoektModel

/-! ### limitFiles over an appended list -/

theorem limitFiles_append (c : Bool) (a b : List File) : ∀ m, 0 < m →
    limitFiles c (a ++ b) m =
      if (limitFiles c a m).2 = 0 then limitFiles c a m
      else ((limitFiles c a m).1 ++ (limitFiles c b (limitFiles c a m).2).1, (limitFiles c b (limitFiles c a m).2).2) := by
  induction a with
  | nil =>
    intro m hm
    have : m ≠ 0 := by omega
    simp [limitFiles, this]
  | cons f a ih =>
    intro m hm
    simp only [List.cons_append, limitFiles]
    by_cases h : (limitUnits c f.units m).2 = 0
    · simp [h]
    · simp only [h, if_false]
      rw [ih _ (by omega)]
      split <;> simp_all

/-- the truncator's state is well formed: an active match limit is positive -/
def TState.WF (st : TState) : Prop := st.done = false → st.matchLimited = true → 0 < st.matchLimit

theorem newTruncator_wf (D M : Nat) (c : Bool) : (newTruncator D M c).WF := by
  intro _ h
  simpa [newTruncator] using h

theorem limitFiles_nil (c : Bool) (m : Nat) : limitFiles c [] m = ([], m) := rfl

/-! ### an explicit form of one truncator call -/

def takeD (st : TState) (fm : List File) : List File := if st.docLimited then fm.take st.docLimit else fm

def limM (st : TState) (fm : List File) : List File × Nat :=
  if st.matchLimited then limitFiles st.chunk fm st.matchLimit else (fm, st.matchLimit)

def stepOut (st : TState) (fm : List File) : List File := (limM st (takeD st fm)).1

def stepSt (st : TState) (fm : List File) : TState :=
  { st with
    docLimit := if st.docLimited then st.docLimit - (takeD st fm).length else st.docLimit,
    matchLimit := (limM st (takeD st fm)).2,
    done := (st.docLimited && decide (fm.length ≥ st.docLimit)) ||
            (st.matchLimited && decide ((limM st (takeD st fm)).2 = 0)) }

theorem truncStep_eq (st : TState) (fm : List File) (hd : st.done = false)
    (hl : (!st.docLimited && !st.matchLimited) = false) :
    truncStep st fm = (stepOut st fm, !(stepSt st fm).done, stepSt st fm) := by
  obtain ⟨dl, ml, c, D, M, dn⟩ := st
  simp only at hd hl
  subst hd
  cases dl <;> cases ml
  · simp at hl
  · simp [truncStep, docPhase, matchPhase, stepOut, stepSt, limM, takeD]
  · by_cases h : fm.length ≥ D
    · simp [truncStep, docPhase, matchPhase, stepOut, stepSt, limM, takeD, h]
    · have h2 : List.take D fm = fm := List.take_of_length_le (by omega)
      simp [truncStep, docPhase, matchPhase, stepOut, stepSt, limM, takeD, h, h2]
  · by_cases h : fm.length ≥ D
    · simp [truncStep, docPhase, matchPhase, stepOut, stepSt, limM, takeD, h]
    · have h2 : List.take D fm = fm := List.take_of_length_le (by omega)
      simp [truncStep, docPhase, matchPhase, stepOut, stepSt, limM, takeD, h, h2]

theorem truncStep_done (st : TState) (fm : List File) (hd : st.done = true)
    (hl : (!st.docLimited && !st.matchLimited) = false) : truncStep st fm = ([], false, st) := by
  simp [truncStep, hd, hl]

theorem truncStep_nolimit (st : TState) (fm : List File)
    (hl : (!st.docLimited && !st.matchLimited) = true) : truncStep st fm = (fm, true, st) := by
  simp [truncStep, hl]

theorem stepOut_nil (st : TState) : stepOut st [] = [] := by
  unfold stepOut limM takeD
  split <;> split <;> simp [limitFiles]

theorem truncStep_nil (st : TState) : (truncStep st []).1 = [] := by
  by_cases hl : (!st.docLimited && !st.matchLimited) = true
  · rw [truncStep_nolimit st [] hl]
  · have hl : (!st.docLimited && !st.matchLimited) = false := by simpa using hl
    cases hd : st.done
    · rw [truncStep_eq st [] hd hl]; exact stepOut_nil st
    · rw [truncStep_done st [] hd hl]

theorem truncStep_wf (st : TState) (fm : List File) (h : st.WF) : (truncStep st fm).2.2.WF := by
  by_cases hl : (!st.docLimited && !st.matchLimited) = true
  · rw [truncStep_nolimit st fm hl]; exact h
  · have hl : (!st.docLimited && !st.matchLimited) = false := by simpa using hl
    cases hd : st.done
    · rw [truncStep_eq st fm hd hl]
      intro hdone hml
      simp only [stepSt] at hdone hml ⊢
      simp only [hml, Bool.true_and, Bool.or_eq_false_iff, decide_eq_false_iff_not] at hdone
      omega
    · rw [truncStep_done st fm hd hl]; exact h

theorem stepOut_append (st : TState) (a b : List File) (h : st.WF) (hd : st.done = false) :
    stepOut st (a ++ b) = stepOut st a ++ (if (stepSt st a).done then [] else stepOut (stepSt st a) b) := by
  obtain ⟨dl, ml, c, D, M, dn⟩ := st
  simp only at hd
  subst hd
  have hM : ml = true → 0 < M := fun hml => h rfl hml
  cases dl <;> cases ml
  · simp [stepOut, stepSt, limM, takeD]
  · have hM := hM rfl
    simp only [stepOut, stepSt, limM, takeD, Bool.false_eq_true, if_false, if_true, Bool.false_and, Bool.false_or,
      Bool.true_and]
    rw [limitFiles_append _ _ _ _ hM]
    by_cases hr : (limitFiles c a M).2 = 0 <;> simp [hr]
  · simp only [stepOut, stepSt, limM, takeD, Bool.false_eq_true, if_false, if_true, Bool.false_and, Bool.or_false,
      Bool.true_and]
    rw [List.take_append]
    by_cases hlen : a.length ≥ D
    · have : D - a.length = 0 := by omega
      simp [hlen, this]
    · have : min D a.length = a.length := by omega
      simp [hlen, List.length_take, this]
  · have hM := hM rfl
    simp only [stepOut, stepSt, limM, takeD, if_true, Bool.true_and]
    rw [List.take_append, limitFiles_append _ _ _ _ hM]
    by_cases hlen : a.length ≥ D
    · have : D - a.length = 0 := by omega
      by_cases hr : (limitFiles c (List.take D a) M).2 = 0 <;> simp [hlen, this, hr, limitFiles]
    · have h1 : min D a.length = a.length := by omega
      have h2 : List.take D a = a := List.take_of_length_le (by omega)
      by_cases hr : (limitFiles c a M).2 = 0 <;> simp [hlen, h2, hr]

/-- **batch-split invariance of one truncator call**: truncating `a ++ b` in one call returns what truncating `a`
    and then `b` returns -/
theorem truncStep_append (st : TState) (a b : List File) (h : st.WF) :
    (truncStep st (a ++ b)).1 = (truncStep st a).1 ++ (truncStep (truncStep st a).2.2 b).1 := by
  by_cases hl : (!st.docLimited && !st.matchLimited) = true
  · simp [truncStep_nolimit _ _ hl]
  · have hl : (!st.docLimited && !st.matchLimited) = false := by simpa using hl
    cases hd : st.done
    · rw [truncStep_eq st (a ++ b) hd hl, truncStep_eq st a hd hl]
      simp only
      rw [stepOut_append st a b h hd]
      have hl' : (!(stepSt st a).docLimited && !(stepSt st a).matchLimited) = false := by simpa [stepSt] using hl
      cases hd' : (stepSt st a).done
      · rw [truncStep_eq _ b hd' hl']; simp
      · rw [truncStep_done _ b hd' hl']; simp
    · simp [truncStep_done _ _ hd hl]

/-! ### what one truncation returns: the structure of `limitUnits` / `limitFiles` -/

/-- cutting unit `u` to any `0 < k < len` leading matches yields a unit the statement accepts -/
def CutOK (c : Bool) (ctx : Nat) (u : MUnit) : Prop :=
  ∀ k, 0 < k → k < u.items.length → unitCutOf c ctx u (cutUnit c k u) = true

theorem cutUnit_items (c : Bool) (k : Nat) (u : MUnit) : (cutUnit c k u).items = u.items.take k := by
  unfold cutUnit
  split <;> rfl

theorem unitsCutOf_single (c : Bool) (x : Nat) (u : MUnit) (us : List MUnit) (o : MUnit) :
    unitsCutOf c x (u :: us) [o] = unitCutOf c x u o := by simp [unitsCutOf]

theorem unitsCutOf_cons2 (c : Bool) (x : Nat) (u : MUnit) (us : List MUnit) (o o2 : MUnit) (os : List MUnit) :
    unitsCutOf c x (u :: us) (o :: o2 :: os) = (o == u && unitsCutOf c x us (o2 :: os)) := by simp [unitsCutOf]

theorem unitsCutOf_ne_nil (c : Bool) (x : Nat) (us os : List MUnit) (h : unitsCutOf c x us os = true) : os ≠ [] := by
  intro h0; subst h0; cases us <;> simp [unitsCutOf] at h

theorem unitCutOf_refl (c : Bool) (x : Nat) (u : MUnit) : unitCutOf c x u u = true := by simp [unitCutOf]

theorem sumCount_cons (u : MUnit) (us : List MUnit) :
    ((u :: us).map unitCount).sum = u.items.length + (us.map unitCount).sum := by simp [unitCount]

theorem limitUnits_spec (c : Bool) (ctx : Nat) (us : List MUnit) : ∀ m, 0 < m → (∀ u ∈ us, CutOK c ctx u) →
    ((limitUnits c us m).2 ≠ 0 → (limitUnits c us m).1 = us ∧ (us.map unitCount).sum + (limitUnits c us m).2 = m) ∧
    ((limitUnits c us m).2 = 0 → unitsCutOf c ctx us (limitUnits c us m).1 = true ∧
        ((limitUnits c us m).1.map unitCount).sum = m) := by
  induction us with
  | nil => intro m hm _; simp [limitUnits]; omega
  | cons u rest ih =>
    intro m hm hok
    have hu := hok u List.mem_cons_self
    have hrest : ∀ v ∈ rest, CutOK c ctx v := fun v hv => hok v (List.mem_cons_of_mem _ hv)
    unfold limitUnits
    by_cases hgt : u.items.length > m
    · have hlen : (cutUnit c m u).items.length = m := by
        rw [cutUnit_items, List.length_take]; omega
      simp only [hgt, if_true, hlen]
      refine ⟨fun h => absurd rfl h, fun _ => ?_⟩
      rw [unitsCutOf_single]
      exact ⟨hu m hm hgt, by simp [unitCount, hlen]⟩
    · simp only [hgt, if_false]
      by_cases heq : u.items.length = m
      · simp only [heq, if_true]
        refine ⟨fun h => absurd rfl h, fun _ => ?_⟩
        rw [unitsCutOf_single]
        exact ⟨unitCutOf_refl c ctx u, by simp [unitCount, heq]⟩
      · simp only [heq, if_false]
        have hm' : 0 < m - u.items.length := by omega
        obtain ⟨ih1, ih2⟩ := ih (m - u.items.length) hm' hrest
        refine ⟨fun h => ?_, fun h => ?_⟩
        · obtain ⟨e1, e2⟩ := ih1 h
          refine ⟨by rw [e1], ?_⟩
          rw [sumCount_cons]; omega
        · obtain ⟨e1, e2⟩ := ih2 h
          have hne := unitsCutOf_ne_nil _ _ _ _ e1
          refine ⟨?_, ?_⟩
          · cases hr : (limitUnits c rest (m - u.items.length)).1 with
            | nil => exact absurd hr hne
            | cons o os =>
              rw [unitsCutOf_cons2, ← hr, e1]; simp
          · rw [sumCount_cons, e2]; omega

theorem prefixCut_nil (c : Bool) (x : Nat) (l : List File) : prefixCut c x l [] = true := by
  cases l <;> simp [prefixCut]

theorem prefixCut_single (c : Bool) (x : Nat) (f : File) (fs : List File) (o : File) :
    prefixCut c x (f :: fs) [o] = fileCutOf c x f o := by simp [prefixCut]

theorem prefixCut_cons2 (c : Bool) (x : Nat) (f : File) (fs : List File) (o o2 : File) (os : List File) :
    prefixCut c x (f :: fs) (o :: o2 :: os) = (o == f && prefixCut c x fs (o2 :: os)) := by simp [prefixCut]

theorem fileCutOf_refl (c : Bool) (x : Nat) (f : File) : fileCutOf c x f f = true := by simp [fileCutOf]

theorem prefixCut_refl (c : Bool) (x : Nat) (l : List File) : prefixCut c x l l = true := by
  induction l with
  | nil => simp [prefixCut]
  | cons f fs ih =>
    cases fs with
    | nil => rw [prefixCut_single]; exact fileCutOf_refl c x f
    | cons g gs => rw [prefixCut_cons2, ih]; simp

theorem prefixCut_of_take (c : Bool) (x : Nat) (o : List File) : ∀ (l : List File) (D : Nat),
    prefixCut c x (l.take D) o = true → prefixCut c x l o = true := by
  induction o with
  | nil => intro l D _; exact prefixCut_nil c x l
  | cons a os ih =>
    intro l D h
    cases l with
    | nil => simpa using h
    | cons f fs =>
      cases D with
      | zero => simp [prefixCut] at h
      | succ D =>
        rw [List.take_succ_cons] at h
        cases os with
        | nil => rw [prefixCut_single] at h ⊢; exact h
        | cons b bs =>
          rw [prefixCut_cons2] at h ⊢
          simp only [Bool.and_eq_true] at h ⊢
          exact ⟨h.1, ih fs D h.2⟩

theorem prefixCut_take (c : Bool) (x : Nat) (l : List File) (D : Nat) : prefixCut c x l (l.take D) = true :=
  prefixCut_of_take c x _ l D (prefixCut_refl c x _)

theorem matchCount_cons (f : File) (l : List File) : matchCount (f :: l) = fileCount f + matchCount l := by
  simp [matchCount]

theorem limitFiles_spec (c : Bool) (ctx : Nat) (l : List File) : ∀ m, 0 < m →
    (∀ f ∈ l, ∀ u ∈ f.units, CutOK c ctx u) →
    ((limitFiles c l m).2 ≠ 0 → (limitFiles c l m).1 = l ∧ matchCount l + (limitFiles c l m).2 = m) ∧
    ((limitFiles c l m).2 = 0 → prefixCut c ctx l (limitFiles c l m).1 = true ∧
        matchCount (limitFiles c l m).1 = m) := by
  induction l with
  | nil => intro m hm _; simp [limitFiles, matchCount]; omega
  | cons f rest ih =>
    intro m hm hok
    have hf := hok f List.mem_cons_self
    have hrest : ∀ g ∈ rest, ∀ u ∈ g.units, CutOK c ctx u := fun g hg => hok g (List.mem_cons_of_mem _ hg)
    obtain ⟨lu1, lu2⟩ := limitUnits_spec c ctx f.units m hm hf
    unfold limitFiles
    by_cases hr : (limitUnits c f.units m).2 = 0
    · simp only [hr, if_true]
      obtain ⟨e1, e2⟩ := lu2 hr
      refine ⟨fun h => absurd rfl h, fun _ => ?_⟩
      rw [prefixCut_single]
      refine ⟨?_, ?_⟩
      · simp [fileCutOf, e1]
      · simp [matchCount, fileCount, e2]
    · simp only [hr, if_false]
      obtain ⟨e1, e2⟩ := lu1 hr
      have hfe : ({ f with units := (limitUnits c f.units m).1 } : File) = f := by rw [e1]
      rw [hfe]
      have hm' : 0 < (limitUnits c f.units m).2 := by omega
      obtain ⟨ih1, ih2⟩ := ih _ hm' hrest
      refine ⟨fun h => ?_, fun h => ?_⟩
      · obtain ⟨q1, q2⟩ := ih1 h
        refine ⟨by rw [q1], ?_⟩
        rw [matchCount_cons]
        simp only [fileCount]
        omega
      · obtain ⟨q1, q2⟩ := ih2 h
        refine ⟨?_, ?_⟩
        · cases hq : (limitFiles c rest (limitUnits c f.units m).2).1 with
          | nil => rw [hq] at q2; simp [matchCount] at q2; omega
          | cons o os => rw [prefixCut_cons2, ← hq, q1]; simp
        · rw [matchCount_cons, q2]
          simp only [fileCount]
          omega

theorem prefixCut_length (c : Bool) (x : Nat) (o : List File) : ∀ (l : List File),
    prefixCut c x l o = true → o.length ≤ l.length := by
  induction o with
  | nil => intro l _; simp
  | cons a os ih =>
    intro l h
    cases l with
    | nil => simp [prefixCut] at h
    | cons f fs =>
      cases os with
      | nil => simp
      | cons b bs =>
        rw [prefixCut_cons2] at h
        simp only [Bool.and_eq_true] at h
        have := ih fs h.2
        simp only [List.length_cons] at this ⊢
        omega

theorem display_ok (D M : Nat) (c : Bool) (x : Nat) (l out : List File)
    (h1 : D = 0 ∨ out.length ≤ D) (h2 : M = 0 ∨ matchCount out ≤ M) (h3 : prefixCut c x l out = true)
    (h4 : out = l ∨ (M ≠ 0 ∧ matchCount out = M) ∨ (D ≠ 0 ∧ out.length = D ∧ out = l.take D)) :
    checkDisplay D M c x l out = true := by
  simp only [checkDisplay, Bool.and_eq_true, Bool.or_eq_true, beq_iff_eq, decide_eq_true_eq, bne_iff_ne, ne_eq]
  exact ⟨⟨⟨h1, h2⟩, h3⟩, by
    rcases h4 with h | h | h
    · exact Or.inl (Or.inl h)
    · exact Or.inl (Or.inr h)
    · exact Or.inr ⟨⟨h.1, h.2.1⟩, h.2.2⟩⟩

/-- the files a fresh truncator returns for one list -/
theorem trunc1_eq (D M : Nat) (c : Bool) (l : List File) :
    (truncStep (newTruncator D M c) l).1 =
      if D = 0 ∧ M = 0 then l
      else if M = 0 then l.take D
      else if D = 0 then (limitFiles c l M).1
      else (limitFiles c (l.take D) M).1 := by
  by_cases hD : D = 0 <;> by_cases hM : M = 0
  · subst hD; subst hM; simp [truncStep, newTruncator]
  · subst hD
    have : 0 < M := by omega
    rw [truncStep_eq _ _ rfl (by simp [newTruncator, this])]
    simp [stepOut, limM, takeD, newTruncator, this, hM]
  · subst hM
    have : 0 < D := by omega
    rw [truncStep_eq _ _ rfl (by simp [newTruncator, this])]
    simp [stepOut, limM, takeD, newTruncator, this, hD]
  · have h1 : 0 < D := by omega
    have h2 : 0 < M := by omega
    rw [truncStep_eq _ _ rfl (by simp [newTruncator, h1])]
    simp [stepOut, limM, takeD, newTruncator, h1, h2, hD, hM]

theorem take_display (D : Nat) (l : List File) (hD : D ≠ 0) :
    l.take D = l ∨ ((l.take D).length = D ∧ l.take D = l.take D) := by
  by_cases h : l.length ≤ D
  · exact Or.inl (List.take_of_length_le h)
  · exact Or.inr ⟨by rw [List.length_take]; omega, rfl⟩

/-- **one truncation satisfies the statement** (given that every cut of a unit does) -/
theorem trunc1_display (D M : Nat) (c : Bool) (x : Nat) (l : List File)
    (hok : ∀ f ∈ l, ∀ u ∈ f.units, CutOK c x u) :
    checkDisplay D M c x l (truncStep (newTruncator D M c) l).1 = true := by
  rw [trunc1_eq]
  by_cases hD : D = 0 <;> by_cases hM : M = 0
  · simp only [hD, hM, and_self, if_true]
    exact display_ok _ _ _ _ _ _ (Or.inl rfl) (Or.inl rfl) (prefixCut_refl _ _ _) (Or.inl rfl)
  · have hm : 0 < M := by omega
    simp only [hD, hM, and_false, if_false, if_true]
    obtain ⟨s1, s2⟩ := limitFiles_spec c x l M hm hok
    by_cases hr : (limitFiles c l M).2 = 0
    · obtain ⟨e1, e2⟩ := s2 hr
      exact display_ok _ _ _ _ _ _ (Or.inl rfl) (Or.inr (by omega)) e1 (Or.inr (Or.inl ⟨hM, e2⟩))
    · obtain ⟨e1, e2⟩ := s1 hr
      rw [e1]
      exact display_ok _ _ _ _ _ _ (Or.inl rfl) (Or.inr (by omega)) (prefixCut_refl _ _ _) (Or.inl rfl)
  · simp only [hD, hM, false_and, if_false, if_true]
    refine display_ok _ _ _ _ _ _ (Or.inr (by rw [List.length_take]; omega)) (Or.inl rfl) (prefixCut_take _ _ _ _) ?_
    rcases take_display D l hD with h | h
    · exact Or.inl h
    · exact Or.inr (Or.inr ⟨hD, h.1, rfl⟩)
  · have hm : 0 < M := by omega
    simp only [hD, hM, false_and, if_false]
    have hok' : ∀ f ∈ l.take D, ∀ u ∈ f.units, CutOK c x u := fun f hf => hok f (List.mem_of_mem_take hf)
    obtain ⟨s1, s2⟩ := limitFiles_spec c x (l.take D) M hm hok'
    by_cases hr : (limitFiles c (l.take D) M).2 = 0
    · obtain ⟨e1, e2⟩ := s2 hr
      have hlen := prefixCut_length _ _ _ _ e1
      rw [List.length_take] at hlen
      exact display_ok _ _ _ _ _ _ (Or.inr (by omega)) (Or.inr (by omega)) (prefixCut_of_take _ _ _ _ _ e1)
        (Or.inr (Or.inl ⟨hM, e2⟩))
    · obtain ⟨e1, e2⟩ := s1 hr
      rw [e1]
      refine display_ok _ _ _ _ _ _ (Or.inr (by rw [List.length_take]; omega)) (Or.inr (by omega))
        (prefixCut_take _ _ _ _) ?_
      rcases take_display D l hD with h | h
      · exact Or.inl h
      · exact Or.inr (Or.inr ⟨hD, h.1, rfl⟩)

/-- in line mode every cut of a unit is accepted by the statement -/
theorem cutOK_line (x : Nat) (u : MUnit) (hb : u.bad = false) : CutOK false x u := by
  intro k hk hlt
  have hlen : (u.items.take k).length = k := by rw [List.length_take]; omega
  simp [unitCutOf, cutUnit, hb, hlen, hk, hlt]

end ZoektModel.C22
