/-
C22 — the property as executable predicates, written from the statement:

  "With a file or match display limit, a search returns at most that many files and at most that many matches in
   total, and what it returns is the beginning of its unlimited ranked result: the same leading files with their
   leading matches, the last file cut at the limit.  A chunk shortened by the match limit still consists of whole
   lines covering exactly its remaining ranges plus the requested context."

`checkDisplay D M chunk ctx full out` is evaluated by the driver on the implementation's output (`out`) against
the implementation's own unlimited ranked result (`full`), and is what the theorems of Props/C22.lean prove of
the model.  `D = 0` / `M = 0` mean "no limit".
-/
import ZoektModel.C22.Model
namespace ZoektModel.C22

def unitCount (u : MUnit) : Nat := u.items.length
def fileCount (f : File) : Nat := (f.units.map unitCount).sum
def matchCount (l : List File) : Nat := (l.map fileCount).sum

/-- the first `k` lines of `c`, each with its terminating '\n' if it has one -/
def takeLines : Nat → Bytes → Bytes
  | 0, _ => []
  | _ + 1, [] => []
  | k + 1, b :: r => if b = 10 then b :: takeLines k r else b :: takeLines (k + 1) r

/-- `a` is the whole lines `b`, except that the terminator of the last line may be missing -/
def eqModFinalNL (a b : Bytes) : Bool := a == b || a ++ [10] == b

def maxEnd (l : List Item) : Nat := l.foldl (fun m i => max m i.endLine) 0

/-- number of lines in a chunk's content (a final line without '\n' counts) -/
def lineCount (c : Bytes) : Nat :=
  (c.filter (· = 10)).length + (match c.getLast? with | some b => if b = 10 then 0 else 1 | none => 0)

/-- the content a chunk must have once only `items` (a proper, non-empty prefix of `u.items`) remain:
    the whole lines of `u.content` from the chunk's first line through (last remaining end line + context) -/
def expectedContent (ctx : Nat) (u : MUnit) (items : List Item) : Bytes :=
  takeLines (maxEnd items + ctx + 1 - u.firstLine) u.content

/-- `o` is `u` cut to its leading matches (or `u` itself) -/
def unitCutOf (chunk : Bool) (ctx : Nat) (u o : MUnit) : Bool :=
  o == u ||
  (o.id == u.id && !o.bad && o.firstLine == u.firstLine &&
   decide (0 < o.items.length) && decide (o.items.length < u.items.length) &&
   o.items == u.items.take o.items.length &&
   (if chunk then
      o.sym == u.sym.map (·.take o.items.length) &&
      eqModFinalNL o.content (expectedContent ctx u o.items)
    else o.sym == u.sym && o.content == u.content))

/-- `os` = the leading units of `us`, the last one possibly cut -/
def unitsCutOf (chunk : Bool) (ctx : Nat) : List MUnit → List MUnit → Bool
  | _, [] => false
  | [], _ :: _ => false
  | u :: _, [o] => unitCutOf chunk ctx u o
  | u :: us, o :: os => o == u && unitsCutOf chunk ctx us os

/-- `o` is `f` with its leading matches (or `f` itself) -/
def fileCutOf (chunk : Bool) (ctx : Nat) (f o : File) : Bool :=
  o == f || (o.id == f.id && o.score == f.score && o.ext == f.ext && unitsCutOf chunk ctx f.units o.units)

/-- `out` = the leading files of `full`, all identical except that the last may be cut -/
def prefixCut (chunk : Bool) (ctx : Nat) : List File → List File → Bool
  | _, [] => true
  | [], _ :: _ => false
  | f :: _, [o] => fileCutOf chunk ctx f o
  | f :: fs, o :: os => o == f && prefixCut chunk ctx fs os

/-- the whole statement -/
def checkDisplay (D M : Nat) (chunk : Bool) (ctx : Nat) (full out : List File) : Bool :=
  (D == 0 || decide (out.length ≤ D)) &&
  (M == 0 || decide (matchCount out ≤ M)) &&
  prefixCut chunk ctx full out &&
  -- it is the *whole* beginning: it stops only where a limit is reached
  (out == full || (M != 0 && matchCount out == M) || (D != 0 && out.length == D && out == full.take D))

/-! Failure classification for the driver (keys of known findings).  Only used to *name* a failure. -/

/-- some output chunk was cut, has whole leading lines of the original covering its remaining ranges, but fewer
    context lines than requested, and the original chunk's trailing context was itself clipped by the end of
    the file (it has fewer than `ctx` lines after its last range) -/
def ctxShortAtEof (ctx : Nat) (u o : MUnit) : Bool :=
  decide (o.items.length < u.items.length) && decide (0 < o.items.length) &&
  o.items == u.items.take o.items.length &&
  decide (u.firstLine + lineCount u.content < maxEnd u.items + ctx + 1) &&
  (let lo := maxEnd o.items + 1 - u.firstLine
   let hi := maxEnd o.items + ctx + 1 - u.firstLine
   -- `o.content` is the first `h` whole lines of `u.content` for some `lo ≤ h < hi`
   (List.range hi).any fun h => decide (lo ≤ h) &&
     eqModFinalNL o.content (takeLines h u.content))

def anyUnitPair (p : MUnit → MUnit → Bool) (full out : List File) : Bool :=
  (full.zip out).any fun fo => (fo.1.units.zip fo.2.units).any fun uo => p uo.1 uo.2

/-- is the failure of `checkDisplay` explained by the end-of-file context shortfall alone?  (true iff replacing the
    content of every such chunk by the expected content makes the check pass) -/
def repairCtxShort (ctx : Nat) (full out : List File) : List File :=
  (out.zip full).map fun of_ =>
    { of_.1 with units := (of_.1.units.zip of_.2.units).map fun ou =>
        if ctxShortAtEof ctx ou.2 ou.1 then { ou.1 with content := expectedContent ctx ou.2 ou.1.items } else ou.1 }

def failKey (D M : Nat) (chunk : Bool) (ctx : Nat) (full out : List File) : String :=
  if chunk && out.length ≤ full.length && anyUnitPair (ctxShortAtEof ctx) full out &&
     checkDisplay D M chunk ctx full (repairCtxShort ctx full out) then "chunk-context-short-at-eof"
  else if !(D == 0 || decide (out.length ≤ D)) || !(M == 0 || decide (matchCount out ≤ M)) then "over-limit"
  else if !(prefixCut chunk ctx full out) then "not-a-prefix"
  else "stops-early"

end ZoektModel.C22
