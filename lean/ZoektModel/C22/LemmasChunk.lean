/-
C22 — lemmas for `chunk_cut_whole_lines`: the backwards newline scan of `limitChunkMatches` removes whole lines.
-/
import ZoektModel.C22.Lemmas
namespace ZoektModel.C22
open ZoektModel

/-- number of '\n' bytes -/
def nl (c : Bytes) : Nat := (c.filter (· = 10)).length

theorem nl_nil : nl [] = 0 := rfl
theorem nl_cons (b : UInt8) (r : Bytes) : nl (b :: r) = (if b = 10 then 1 else 0) + nl r := by
  unfold nl
  by_cases h : b = 10 <;> simp [List.filter_cons, h]; omega
theorem nl_append (x y : Bytes) : nl (x ++ y) = nl x + nl y := by simp [nl]
theorem nl_reverse (x : Bytes) : nl x.reverse = nl x := by simp [nl, List.filter_reverse]

theorem cutRev_append (x y : Bytes) : ∀ n, 1 ≤ n →
    cutRev (x ++ y) n = if n ≤ nl x then (cutRev x n).map (· ++ y) else cutRev y (n - nl x) := by
  induction x with
  | nil => intro n hn; simp [nl_nil]; omega
  | cons b x ih =>
    intro n hn
    by_cases hb : b = 10
    · subst hb
      simp only [List.cons_append, cutRev, if_true, nl_cons]
      by_cases h1 : n ≤ 1
      · have : n ≤ 1 + nl x := by omega
        simp [h1, this]
      · simp only [h1, if_false]
        rw [ih (n - 1) (by omega)]
        by_cases h2 : n - 1 ≤ nl x
        · have : n ≤ 1 + nl x := by omega
          simp [h2, this]
        · have : ¬ n ≤ 1 + nl x := by omega
          simp only [h2, this, if_false]
          congr 1; omega
    · simp only [List.cons_append, cutRev, hb, if_false, nl_cons, Nat.zero_add]
      exact ih n hn

/-- the prefix of `c` with exactly `j` newlines that ends just before the next newline (or at the end) -/
def takeNL : Nat → Bytes → Bytes
  | _, [] => []
  | 0, b :: r => if b = 10 then [] else b :: takeNL 0 r
  | j + 1, b :: r => if b = 10 then b :: takeNL j r else b :: takeNL (j + 1) r

theorem takeNL_cons_ne (j : Nat) (b : UInt8) (r : Bytes) (h : b ≠ 10) : takeNL j (b :: r) = b :: takeNL j r := by
  cases j <;> simp [takeNL, h]

theorem cutRev_reverse (c : Bytes) : ∀ n, 1 ≤ n → n ≤ nl c →
    cutRev c.reverse n = some (takeNL (nl c - n) c).reverse := by
  induction c with
  | nil => intro n h1 h2; simp [nl_nil] at h2; omega
  | cons b c ih =>
    intro n h1 h2
    rw [List.reverse_cons, cutRev_append _ _ n h1, nl_reverse]
    by_cases hle : n ≤ nl c
    · simp only [hle, if_true]
      rw [ih n h1 hle]
      simp only [Option.map_some]
      congr 1
      by_cases hb : b = 10
      · subst hb
        have : nl ((10 : UInt8) :: c) - n = (nl c - n) + 1 := by rw [nl_cons]; simp; omega
        rw [this]
        simp [takeNL]
      · rw [takeNL_cons_ne _ _ _ hb]
        have : nl (b :: c) = nl c := by rw [nl_cons]; simp [hb]
        rw [this]; simp
    · simp only [hle, if_false]
      have hb : b = 10 := by
        by_cases hb : b = 10
        · exact hb
        · have : nl (b :: c) = nl c := by rw [nl_cons]; simp [hb]
          omega
      subst hb
      have hn : n = nl c + 1 := by rw [nl_cons] at h2; simp at h2; omega
      subst hn
      have : nl ((10 : UInt8) :: c) - (nl c + 1) = 0 := by rw [nl_cons]; simp; omega
      rw [this]
      simp [cutRev, takeNL]

theorem takeLines_succ_of_lt (c : Bytes) : ∀ j, j < nl c → takeLines (j + 1) c = takeNL j c ++ [10] := by
  induction c with
  | nil => intro j h; simp [nl_nil] at h
  | cons b r ih =>
    intro j h
    by_cases hb : b = 10
    · subst hb
      rw [nl_cons] at h
      simp only [if_true] at h
      cases j with
      | zero => simp [takeLines, takeNL]
      | succ j =>
        simp only [takeLines, takeNL, if_true, List.cons_append, List.cons.injEq, true_and]
        exact ih j (by omega)
    · rw [nl_cons] at h
      simp only [hb, if_false, Nat.zero_add] at h
      rw [takeNL_cons_ne _ _ _ hb]
      simp only [takeLines, hb, if_false, List.cons_append, List.cons.injEq, true_and]
      exact ih j h

theorem takeNL_append_of_lt (x y : Bytes) : ∀ j, j < nl x → takeNL j (x ++ y) = takeNL j x := by
  induction x with
  | nil => intro j h; simp [nl_nil] at h
  | cons b r ih =>
    intro j h
    by_cases hb : b = 10
    · subst hb
      rw [nl_cons] at h
      simp only [if_true] at h
      cases j with
      | zero => simp [takeNL]
      | succ j =>
        simp only [List.cons_append, takeNL, if_true, List.cons.injEq, true_and]
        exact ih j (by omega)
    · rw [nl_cons] at h
      simp only [hb, if_false, Nat.zero_add] at h
      rw [List.cons_append, takeNL_cons_ne _ _ _ hb, takeNL_cons_ne _ _ _ hb, ih j h]

theorem lineCount_concat (init : Bytes) (last : UInt8) :
    lineCount (init ++ [last]) = nl init + 1 := by
  unfold lineCount
  have : (init ++ [last]).getLast? = some last := by simp
  rw [this]
  by_cases h : last = 10
  · subst h; simp [nl]
  · simp [h, nl]

/-- **the cut removes exactly the last `n` lines**: the result is the first `lineCount - n` whole lines of the
    content; if the content did not end in a newline the new last line has lost its terminator -/
theorem cutContent_spec (c : Bytes) (n : Nat) (h0 : 0 < n) (hn : n < lineCount c) :
    ∃ c', cutContent c n = some c' ∧
      (c' = takeLines (lineCount c - n) c ∨ c' ++ [10] = takeLines (lineCount c - n) c) := by
  rcases List.eq_nil_or_concat c with rfl | ⟨init, last, rfl⟩
  · simp [lineCount] at hn
  · rw [List.concat_eq_append] at hn ⊢
    rw [lineCount_concat] at hn ⊢
    unfold cutContent
    have hrev : (init ++ [last]).reverse = last :: init.reverse := by simp
    rw [hrev]
    simp only
    by_cases hl : last = 10
    · subst hl
      simp only [if_true]
      rw [cutRev_reverse init n h0 (by omega)]
      refine ⟨_, rfl, Or.inl ?_⟩
      have hj : nl init + 1 - n = (nl init - n) + 1 := by omega
      rw [hj, takeLines_succ_of_lt _ _ (by rw [nl_append]; simp [nl]; omega),
        takeNL_append_of_lt _ _ _ (by omega)]
      simp
    · simp only [hl, if_false]
      have hnl : nl (init ++ [last]) = nl init := by rw [nl_append]; simp [nl, hl]
      have := cutRev_reverse (init ++ [last]) n h0 (by rw [hnl]; omega)
      rw [hrev] at this
      rw [this]
      refine ⟨_, rfl, Or.inr ?_⟩
      have hj : nl init + 1 - n = (nl init - n) + 1 := by omega
      rw [hj, takeLines_succ_of_lt _ _ (by rw [hnl]; omega), hnl]
      simp

theorem lineCount_cons (b : UInt8) (r : Bytes) (hr : r ≠ []) :
    lineCount (b :: r) = (if b = 10 then 1 else 0) + lineCount r := by
  unfold lineCount
  have : (b :: r).getLast? = r.getLast? := by
    cases r with
    | nil => exact absurd rfl hr
    | cons x xs => simp [List.getLast?_cons_cons]
  rw [this]
  by_cases h : b = 10 <;> simp [List.filter_cons, h]; omega

theorem lineCount_pos (r : Bytes) (hr : r ≠ []) : 0 < lineCount r := by
  rcases List.eq_nil_or_concat r with rfl | ⟨init, last, rfl⟩
  · exact absurd rfl hr
  · rw [List.concat_eq_append, lineCount_concat]; omega

theorem takeLines_all (c : Bytes) : ∀ k, lineCount c ≤ k → takeLines k c = c := by
  induction c with
  | nil => intro k _; cases k <;> rfl
  | cons b r ih =>
    intro k hk
    by_cases hr : r = []
    · subst hr
      have h1 : lineCount [b] = 1 := by
        have := lineCount_concat [] b
        simpa [nl] using this
      rw [h1] at hk
      obtain ⟨k', rfl⟩ : ∃ k', k = k' + 1 := ⟨k - 1, by omega⟩
      by_cases hb : b = 10
      · subst hb; cases k' <;> simp [takeLines]
      · simp [takeLines, hb]
    · rw [lineCount_cons b r hr] at hk
      have hpos := lineCount_pos r hr
      obtain ⟨k', rfl⟩ : ∃ k', k = k' + 1 := ⟨k - 1, by omega⟩
      by_cases hb : b = 10
      · subst hb
        simp only [if_true] at hk
        simp only [takeLines, if_true, List.cons.injEq, true_and]
        exact ih k' (by omega)
      · simp only [hb, if_false, Nat.zero_add] at hk
        simp only [takeLines, hb, if_false, List.cons.injEq, true_and]
        exact ih (k' + 1) hk

/-! ### end lines of ordered ranges -/

def Mono (l : List Item) : Prop := l.Pairwise (fun a b => a.endLine ≤ b.endLine)

theorem lastEnd_cons_cons (a b : Item) (r : List Item) : lastEnd (a :: b :: r) = lastEnd (b :: r) := by
  simp [lastEnd, List.getLast?_cons_cons]

theorem lastEnd_single (a : Item) : lastEnd [a] = a.endLine := by simp [lastEnd]

theorem le_lastEnd (l : List Item) (h : Mono l) : ∀ i ∈ l, i.endLine ≤ lastEnd l := by
  induction l with
  | nil => intro i hi; simp at hi
  | cons a r ih =>
    intro i hi
    unfold Mono at h
    rw [List.pairwise_cons] at h
    cases r with
    | nil =>
      simp only [List.mem_singleton] at hi
      subst hi; rw [lastEnd_single]; exact Nat.le_refl _
    | cons b r' =>
      rw [lastEnd_cons_cons]
      rcases List.mem_cons.mp hi with rfl | hi'
      · exact Nat.le_trans (h.1 b List.mem_cons_self) (ih h.2 b List.mem_cons_self)
      · exact ih h.2 i hi'

theorem lastEnd_mem (l : List Item) (hne : l ≠ []) : ∃ i ∈ l, lastEnd l = i.endLine := by
  refine ⟨l.getLast hne, List.getLast_mem hne, ?_⟩
  simp [lastEnd, List.getLast?_eq_some_getLast hne]

theorem foldl_max_mono (l : List Item) (h : Mono l) (hne : l ≠ []) : ∀ a,
    l.foldl (fun m i => max m i.endLine) a = max a (lastEnd l) := by
  induction l with
  | nil => exact absurd rfl hne
  | cons x r ih =>
    intro a
    unfold Mono at h
    rw [List.pairwise_cons] at h
    cases r with
    | nil => simp [lastEnd_single]
    | cons b r' =>
      rw [List.foldl_cons, ih h.2 (by simp), lastEnd_cons_cons]
      have h1 : x.endLine ≤ lastEnd (b :: r') :=
        Nat.le_trans (h.1 b List.mem_cons_self) (le_lastEnd _ h.2 b List.mem_cons_self)
      omega

theorem maxEnd_eq_lastEnd (l : List Item) (h : Mono l) (hne : l ≠ []) : maxEnd l = lastEnd l := by
  unfold maxEnd
  rw [foldl_max_mono l h hne]; omega

/-- a chunk as `fillContentChunkMatches` builds it when the file does not end inside its trailing context:
    ranges in increasing order, none above the content's first line, and `Content` = the whole lines from
    `ContentStart.LineNumber` through (last end line + context) -/
structure WFChunk (ctx : Nat) (u : MUnit) : Prop where
  nobad : u.bad = false
  mono : Mono u.items
  lo : ∀ i ∈ u.items, u.firstLine ≤ i.endLine
  hi : ∀ i ∈ u.items, i.endLine < 4294967296
  full : lineCount u.content = lastEnd u.items + ctx + 1 - u.firstLine

/-- **`chunk_cut_whole_lines`, unit form**: cutting a well-formed chunk to its `k` leading ranges leaves the whole
    lines from its first line through (last remaining end line + context); the "Should be impossible" panic is
    unreachable -/
theorem cutOK_chunk (ctx : Nat) (u : MUnit) (h : WFChunk ctx u) : CutOK true ctx u := by
  intro k hk hlt
  have hne : u.items.take k ≠ [] := by
    intro h0
    have hl : (u.items.take k).length = k := by rw [List.length_take]; omega
    rw [h0] at hl
    simp only [List.length_nil] at hl
    omega
  have hmono' : Mono (u.items.take k) := List.Pairwise.sublist (List.take_sublist _ _) h.mono
  obtain ⟨i, hi, hie⟩ := lastEnd_mem _ hne
  have himem : i ∈ u.items := List.mem_of_mem_take hi
  have hle : lastEnd (u.items.take k) ≤ lastEnd u.items := by rw [hie]; exact le_lastEnd _ h.mono i himem
  have hlo : u.firstLine ≤ lastEnd (u.items.take k) := by rw [hie]; exact h.lo i himem
  have hne0 : u.items ≠ [] := by intro h0; rw [h0] at hlt; simp at hlt
  obtain ⟨j, hj, hje⟩ := lastEnd_mem _ hne0
  have hhi : lastEnd u.items < 4294967296 := by rw [hje]; exact h.hi j hj
  have hn : (lastEnd u.items + 4294967296 - lastEnd (u.items.take k)) % 4294967296 =
      lastEnd u.items - lastEnd (u.items.take k) := by omega
  have hmax : maxEnd (u.items.take k) = lastEnd (u.items.take k) := maxEnd_eq_lastEnd _ hmono' hne
  have hlen : (u.items.take k).length = k := by rw [List.length_take]; omega
  have hfull := h.full
  unfold unitCutOf
  rw [Bool.or_eq_true]
  right
  by_cases hz : lastEnd u.items - lastEnd (u.items.take k) = 0
  · -- the removed ranges end on the same line: content unchanged
    have hcut : cutUnit true k u = { u with items := u.items.take k, sym := u.sym.map (·.take k) } := by
      simp [cutUnit, hn, hz]
    rw [hcut]
    have hexp : expectedContent ctx u (u.items.take k) = u.content := by
      unfold expectedContent
      rw [hmax]
      exact takeLines_all _ _ (by omega)
    simp [h.nobad, hlen, hk, hlt, hexp, eqModFinalNL]
  · have hpos : 0 < lastEnd u.items - lastEnd (u.items.take k) := by omega
    obtain ⟨c', hc', hspec⟩ := cutContent_spec u.content _ hpos (by omega)
    have hcut : cutUnit true k u =
        { u with content := c', items := u.items.take k, sym := u.sym.map (·.take k) } := by
      simp [cutUnit, hn, hpos, hc']
    rw [hcut]
    have hexp : expectedContent ctx u (u.items.take k) =
        takeLines (lineCount u.content - (lastEnd u.items - lastEnd (u.items.take k))) u.content := by
      unfold expectedContent
      rw [hmax]
      congr 1
      omega
    have hcont : eqModFinalNL c' (expectedContent ctx u (u.items.take k)) = true := by
      rw [hexp]
      unfold eqModFinalNL
      rcases hspec with e | e
      · simp [e]
      · rw [Bool.or_eq_true]; right; simp [e]
    simp [h.nobad, hlen, hk, hlt, hcont]

end ZoektModel.C22
