/-
C22 — model of index/limit.go (`NewDisplayTruncator`, `limitMatches`, `limitLineMatches`, `limitChunkMatches`
with its newline-counting cut of `ChunkMatch.Content`), of index/contentprovider.go `SortFiles` /
`boostNovelExtension`, and of search/aggregate.go `collectSender.Send/Done` and `limitSender`.

A `FileMatch` is reduced to what this code reads or writes: its identity (`id` stands for every other field),
`Score`, `path.Ext(FileName)` (as an opaque token `ext`) and its matches.  A `LineMatch` and a `ChunkMatch`
are both a `MUnit`: the list of its `LineFragments` / `Ranges` (`items`), and for chunks `Content`,
`ContentStart.LineNumber` and `SymbolInfo`.

Integers: all limits are Go `int`s that the code keeps ≥ 0 (a limiter is only ever entered with `limit > 0`,
see `limitFiles`), so `Nat` is exact.  `LineNumber` is a `uint32`; the subtraction in `limitChunkMatches`
wraps and is modelled as such.  Scores are `float64` in Go; the model uses `Nat` scores, for which
`c.Score < c0.Score*0.9` is exactly `10*c < 9*c0` (the harness only sends integral scores < 2^50).
`sort.Sort` is modelled by insertion sort; it is only compared with the implementation on pairwise distinct scores.
-/
import ZoektModel.Basic.Bytes
namespace ZoektModel.C22

/-- a `LineFragmentMatch` (line mode) or a `Range` (chunk mode): identity + `End.LineNumber` -/
structure Item where
  id : Nat
  endLine : Nat
  deriving Repr, DecidableEq

/-- a `LineMatch` or a `ChunkMatch` -/
structure MUnit where
  id : Nat
  items : List Item
  content : Bytes            -- ChunkMatch.Content ([] in line mode)
  firstLine : Nat            -- ChunkMatch.ContentStart.LineNumber
  sym : Option (List Nat)    -- ChunkMatch.SymbolInfo: `none` = nil
  bad : Bool                 -- was set when the cut hit `log.Panicf("Failed to find enough newlines …")`; never set since that branch keeps the content uncut
  deriving Repr, DecidableEq

structure File where
  id : Nat
  score : Nat
  ext : Nat
  units : List MUnit
  deriving Repr, DecidableEq

/-! ### limitChunkMatches: the content cut -/

/-- the backwards scan `for b := end-1; b >= 0; b--` over the reversed content: drop bytes until the `n`-th
    '\n' (n > 0) has been seen; what is left (still reversed) is `content[:b]`.  `none`: ran out of bytes. -/
def cutRev : List UInt8 → Nat → Option (List UInt8)
  | [], _ => none
  | b :: rest, n =>
    if b = 10 then (if n ≤ 1 then some rest else cutRev rest (n - 1))
    else cutRev rest n

/-- The cut of `limitChunkMatches` (after `fix: limitChunkMatches…`): remove the last `n > 0` lines of `content`.
    If `content` ends in '\n' that byte terminates the last line and is not counted as a separator, and the
    new last line keeps its terminator (`content[:b+1]`); otherwise `content[:b]` as before. -/
def cutContent (content : Bytes) (n : Nat) : Option Bytes :=
  match content.reverse with
  | [] => none
  | last :: before =>
    if last = 10 then (cutRev before n).map fun r => (10 :: r).reverse
    else (cutRev (last :: before) n).map List.reverse

def lastEnd (l : List Item) : Nat := (l.getLast?.map (·.endLine)).getD 0

/-- `len(cm.Ranges) > limit` branch of `limitChunkMatches` / `limitLineMatches` -/
def cutUnit (chunk : Bool) (limit : Nat) (u : MUnit) : MUnit :=
  if chunk then
    -- n := Ranges[len-1].End.LineNumber - Ranges[limit-1].End.LineNumber   (uint32)
    let n := (lastEnd u.items + 4294967296 - lastEnd (u.items.take limit)) % 4294967296
    let u1 : MUnit :=
      if n > 0 then
        match cutContent u.content n with
        | some c => { u with content := c }
        -- fewer newlines than the line numbers imply (a chunk from a corrupt shard): after
        -- `fix: limitChunkMatches panics in the request goroutine…` the content is left uncut (it used to `log.Panicf`)
        | none => u
      else u
    { u1 with items := u.items.take limit, sym := u.sym.map (·.take limit) }
  else
    { u with items := u.items.take limit }

/-- the loop of `limitChunkMatches` / `limitLineMatches`; entered with `limit > 0`.  Returns the kept units and
    the remaining limit. -/
def limitUnits (chunk : Bool) : List MUnit → Nat → List MUnit × Nat
  | [], limit => ([], limit)
  | u :: rest, limit =>
    let u' := if u.items.length > limit then cutUnit chunk limit u else u
    if u'.items.length = limit then ([u'], 0)
    else
      let r := limitUnits chunk rest (limit - u'.items.length)
      (u' :: r.1, r.2)

/-- `limitMatches`: entered with `limit > 0` -/
def limitFiles (chunk : Bool) : List File → Nat → List File × Nat
  | [], limit => ([], limit)
  | f :: rest, limit =>
    let r := limitUnits chunk f.units limit
    let f' := { f with units := r.1 }
    if r.2 = 0 then ([f'], 0)
    else
      let q := limitFiles chunk rest r.2
      (f' :: q.1, q.2)

/-! ### NewDisplayTruncator -/

/-- the closure state of a `DisplayTruncator` -/
structure TState where
  docLimited : Bool
  matchLimited : Bool
  chunk : Bool
  docLimit : Nat
  matchLimit : Nat
  done : Bool
  deriving Repr, DecidableEq

/-- `NewDisplayTruncator(opts)`; limits ≤ 0 mean "no limit" (the harness sends max(limit,0)) -/
def newTruncator (maxDoc maxMatch : Nat) (chunk : Bool) : TState :=
  ⟨decide (maxDoc > 0), decide (maxMatch > 0), chunk, maxDoc, maxMatch, false⟩

/-- `if docLimited { if len(fm) >= docLimit { done = true; fm = fm[:docLimit] }; docLimit -= len(fm) }` -/
def docPhase (st : TState) (fm : List File) : List File × TState :=
  if st.docLimited then
    if fm.length ≥ st.docLimit then
      (fm.take st.docLimit, { st with docLimit := st.docLimit - (fm.take st.docLimit).length, done := true })
    else (fm, { st with docLimit := st.docLimit - fm.length })
  else (fm, st)

/-- `if matchLimited { fm, matchLimit = limitMatches(fm, matchLimit, chunk); if matchLimit <= 0 { done = true } }` -/
def matchPhase (st : TState) (fm : List File) : List File × TState :=
  if st.matchLimited then
    let r := limitFiles st.chunk fm st.matchLimit
    (r.1, { st with matchLimit := r.2, done := st.done || decide (r.2 = 0) })
  else (fm, st)

/-- one call of the truncator: `(after, hasMore, state')` -/
def truncStep (st : TState) (fm : List File) : List File × Bool × TState :=
  if !st.docLimited && !st.matchLimited then (fm, true, st)
  else if st.done then ([], false, st)
  else
    let d := docPhase st fm
    let m := matchPhase d.2 d.1
    (m.1, !m.2.done, m.2)

/-- a truncator applied to a stream of batches (this is also `limitSender`: it forwards `after` and cancels
    when `hasMore` is false) -/
def truncRun : TState → List (List File) → List (List File × Bool)
  | _, [] => []
  | st, b :: bs =>
    let r := truncStep st b
    (r.1, r.2.1) :: truncRun r.2.2 bs

/-! ### SortFiles -/

/-- insertion into a list sorted by decreasing score (`Less(i,j) = Score[i] > Score[j]`) -/
def ins (x : File) : List File → List File
  | [] => [x]
  | y :: r => if y.score < x.score then x :: y :: r else y :: ins x r

def sortDesc (l : List File) : List File := l.foldr ins []

/-- the candidate scan of `boostNovelExtension`: index (in `cands`) of the first candidate whose score is not
    below `minScore` (given as `10*score < 9*score₀`) and whose extension is not among `exts` -/
def findNovel (exts : List Nat) (s0 : Nat) : List File → Option Nat
  | [] => none
  | c :: r =>
    if 10 * c.score < 9 * s0 then (findNovel exts s0 r).map (· + 1)
    else if exts.contains c.ext then (findNovel exts s0 r).map (· + 1)
    else some 0

/-- `boostNovelExtension(ms, boostOffset, 0.9)` -/
def boost (ms : List File) (boostOffset : Nat) : List File :=
  if ms.length ≤ boostOffset + 1 then ms
  else
    let top := ms.take boostOffset
    let cands := ms.drop boostOffset
    match cands with
    | [] => ms
    | c0 :: _ =>
      match findNovel (top.map (·.ext)) c0.score cands with
      | none => ms
      | some i =>
        match cands[i]? with
        | none => ms
        | some c => top ++ c :: (cands.take i ++ cands.drop (i + 1))

/-- `SortFiles` -/
def sortFiles (ms : List File) : List File := boost (sortDesc ms) 2

/-- `SortAndTruncateFiles` -/
def sortAndTruncate (maxDoc maxMatch : Nat) (chunk : Bool) (files : List File) : List File :=
  (truncStep (newTruncator maxDoc maxMatch chunk) (sortFiles files)).1

/-! ### collectSender -/

def hasDisplayLimit (maxDoc maxMatch : Nat) : Bool := decide (maxDoc > 0) || decide (maxMatch > 0)

/-- `collectSender.Send` on the aggregate's `Files` (`none` = `c.aggregate == nil`) -/
def collectSend (maxDoc maxMatch : Nat) (chunk : Bool) (agg : Option (List File)) (r : List File) :
    Option (List File) :=
  let a := agg.getD []
  if r.isEmpty then some a
  else
    let a' := a ++ r
    if hasDisplayLimit maxDoc maxMatch then some (sortAndTruncate maxDoc maxMatch chunk a') else some a'

/-- `collectSender.Done` -/
def collectDone (maxDoc maxMatch : Nat) (chunk : Bool) (agg : Option (List File)) : Option (List File) :=
  match agg with
  | none => none
  | some a =>
    if hasDisplayLimit maxDoc maxMatch then some a else some (sortAndTruncate maxDoc maxMatch chunk a)

/-- all of `Send … Send; Done` -/
def collect (maxDoc maxMatch : Nat) (chunk : Bool) (batches : List (List File)) : Option (List File) :=
  collectDone maxDoc maxMatch chunk (batches.foldl (collectSend maxDoc maxMatch chunk) none)

end ZoektModel.C22
