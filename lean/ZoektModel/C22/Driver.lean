import ZoektModel.Basic.Proto
import ZoektModel.C22.Spec
namespace ZoektModel.C22
open ZoektModel ZoektModel.Proto

/-! line protocol

files   := file ("," file)* | "-"
file    := id "/" score "/" ext "/" units
units   := unit ("+" unit)* | "-"
unit    := id "~" firstLine "~" contentHex "~" items "~" sym "~" bad
items   := id "." endLine ("_" id "." endLine)* | "-"
sym     := "n" (nil) | "-" (empty) | id ("_" id)*
batches := files ("|" files)*
-/

def sepList {α} (sep : String) (f : String → Option α) (s : String) : Option (List α) :=
  if s == "-" then some [] else (s.splitOn sep).mapM f

def parseItem (s : String) : Option Item :=
  match s.splitOn "." with
  | [a, b] => do pure ⟨← a.toNat?, ← b.toNat?⟩
  | _ => none

def parseSym (s : String) : Option (Option (List Nat)) :=
  if s == "n" then some none else (sepList "_" String.toNat? s).map some

def parseUnit (s : String) : Option MUnit :=
  match s.splitOn "~" with
  | [i, fl, c, its, sy, bad] => do
    pure ⟨← i.toNat?, ← sepList "_" parseItem its, ← hexToBytes? c, ← fl.toNat?, ← parseSym sy, ← bool? bad⟩
  | _ => none

def parseFile (s : String) : Option File :=
  match s.splitOn "/" with
  | [i, sc, e, us] => do pure ⟨← i.toNat?, ← sc.toNat?, ← e.toNat?, ← sepList "+" parseUnit us⟩
  | _ => none

def parseFiles (s : String) : Option (List File) := sepList "," parseFile s
def parseBatches (s : String) : Option (List (List File)) := (s.splitOn "|").mapM parseFiles

def showItem (i : Item) : String := s!"{i.id}.{i.endLine}"
def showSym : Option (List Nat) → String
  | none => "n"
  | some l => showList toString l |>.replace "," "_"
def showUnit (u : MUnit) : String :=
  let its := if u.items.isEmpty then "-" else "_".intercalate (u.items.map showItem)
  s!"{u.id}~{u.firstLine}~{bytesToHex u.content}~{its}~{showSym u.sym}~{showBool u.bad}"
def showFile (f : File) : String :=
  let us := if f.units.isEmpty then "-" else "+".intercalate (f.units.map showUnit)
  s!"{f.id}/{f.score}/{f.ext}/{us}"
def showFiles (l : List File) : String := if l.isEmpty then "-" else ",".intercalate (l.map showFile)
def showBatches (l : List (List File)) : String := "|".intercalate (l.map showFiles)
def showOptFiles : Option (List File) → String
  | none => "none"
  | some l => showFiles l

def anyBad (l : List File) : Bool := l.any fun f => f.units.any (·.bad)

/-- is this chunk inside the domain of search results?  (what `fillContentChunkMatches` produces: non-empty ranges
    in increasing order, content starting at `firstLine ≤` every end line and containing every range's lines,
    `SymbolInfo` nil or parallel) -/
def wfUnit (chunk : Bool) (u : MUnit) : Bool :=
  if chunk then
    !u.items.isEmpty && !u.bad &&
    (u.items.zip (u.items.drop 1)).all (fun p => decide (p.1.endLine ≤ p.2.endLine)) &&
    u.items.all (fun i => decide (u.firstLine ≤ i.endLine) && decide (i.endLine < 4294967296)) &&
    decide (1 ≤ u.firstLine) &&
    decide (maxEnd u.items + 1 - u.firstLine ≤ lineCount u.content) &&
    (match u.sym with | none => true | some s => s.length == u.items.length)
  else !u.bad

def wfFiles (chunk : Bool) (l : List File) : Bool := l.all fun f => f.units.all (wfUnit chunk)

def parseOpts (d m c x : String) : Option (Nat × Nat × Bool × Nat) := do
  pure (← d.toNat?, ← m.toNat?, ← bool? c, ← x.toNat?)

/-- impl of `trunc`: `<outbatches> more=<bits>` or `panic` -/
def parseTruncImpl (s : String) : Option (Option (List (List File) × String)) :=
  if s == "panic" then some none else
  match fields s with
  | [a, b] => if b.startsWith "more=" then do
      let bs ← parseBatches a
      pure (some (bs, (b.drop 5).toString))
    else none
  | _ => none

def moreBits (l : List Bool) : String := if l.isEmpty then "-" else String.ofList (l.map fun b => if b then '1' else '0')

/-- after `hasMore = false` every later output is empty -/
def quietAfterDone : List (List File × Bool) → Bool
  | [] => true
  | (_, true) :: r => quietAfterDone r
  | (_, false) :: r => r.all (fun p => p.1.isEmpty && !p.2)

def handleTrunc (D M : Nat) (chunk : Bool) (ctx : Nat) (batches : List (List File)) (impl : String) : String :=
  let run := truncRun (newTruncator D M chunk) batches
  let outs := run.map (·.1)
  let model := if anyBad outs.flatten then "panic" else s!"{showBatches outs} more={moreBits (run.map (·.2))}"
  match parseTruncImpl impl with
  | none => badCase "impl output"
  | some none =>
    if wfFiles chunk batches.flatten then specFail model "panic" else answer model
  | some (some (iouts, ibits)) =>
    if !wfFiles chunk batches.flatten then answer model
    else if iouts.length != batches.length then specFail model "batch-count"
    else
      let full := batches.flatten
      let out := iouts.flatten
      if !(checkDisplay D M chunk ctx full out) then specFail model ("trunc:" ++ failKey D M chunk ctx full out)
      else if !(quietAfterDone (iouts.zip (ibits.toList.map (· == '1')))) then specFail model "trunc:output-after-done"
      else answer model

/-- does the novel-extension promotion change any ranking on the way? (`boost` not the identity on the final
    ranking or on some intermediate aggregate) -/
def promotionInPlay (D M : Nat) (chunk : Bool) (batches : List (List File)) : Bool :=
  let rec go (agg : List File) : List (List File) → Bool
    | [] => false
    | b :: bs =>
      if b.isEmpty then go agg bs else
      let a := agg ++ b
      (sortFiles a != sortDesc a) ||
        go (if hasDisplayLimit D M then sortAndTruncate D M chunk a else a) bs
  go [] batches || sortFiles batches.flatten != sortDesc batches.flatten

/-- impl of `agg`: `lim=<files|none> unl=<files|none>` or `panic` -/
def parseAggImpl (s : String) : Option (Option (Option (List File) × Option (List File))) :=
  if s == "panic" then some none else
  let p (x : String) : Option (Option (List File)) := if x == "none" then some none else (parseFiles x).map some
  match fields s with
  | [a, b] => if a.startsWith "lim=" && b.startsWith "unl=" then do
      pure (some (← p (a.drop 4).toString, ← p (b.drop 4).toString))
    else none
  | _ => none

/-- did `log.Panicf` fire while one of the intermediate aggregates was truncated? (a cut chunk can be dropped again
    by a later truncation, so the final aggregate does not show it) -/
def aggPanics (D M : Nat) (chunk : Bool) (batches : List (List File)) : Bool :=
  let rec go (agg : Option (List File)) : List (List File) → Bool
    | [] => false
    | b :: bs =>
      let a := collectSend D M chunk agg b
      anyBad (a.getD []) || go a bs
  go none batches

def handleAgg (D M : Nat) (chunk : Bool) (ctx : Nat) (batches : List (List File)) (impl : String) : String :=
  let lim := collect D M chunk batches
  let unl := collect 0 0 chunk batches
  let model := if aggPanics D M chunk batches then "panic" else s!"lim={showOptFiles lim} unl={showOptFiles unl}"
  match parseAggImpl impl with
  | none => badCase "impl output"
  | some none => if wfFiles chunk batches.flatten then specFail model "panic" else answer model
  | some (some (ilim, iunl)) =>
    if !wfFiles chunk batches.flatten then answer model
    else match ilim, iunl with
    | some l, some u =>
      if checkDisplay D M chunk ctx u l then answer model
      else
        let k := failKey D M chunk ctx u l
        if k == "chunk-context-short-at-eof" then specFail model ("agg:" ++ k)
        -- the documented defect and nothing else: the implementation returned exactly what the unchanged algorithm
        -- (rank with promotion + truncate after every shard result = this model) returns for this arrival order, and
        -- a promotion was in play; any other deviation from the top of the unlimited ranking is a violation
        else if promotionInPlay D M chunk batches && some l == lim && some u == unl then
          specFail model ("agg:novel-extension:" ++ k)
        else if promotionInPlay D M chunk batches then specFail model ("agg:deviates-from-rank-and-truncate:" ++ k)
        else specFail model ("agg:" ++ k)
    | none, none => answer model
    | _, _ => specFail model "agg:ok-flag"

def handle (line : String) : String :=
  let (inp, impl) := splitCase line
  match fields inp with
  | [op, d, m, c, x, bs] =>
    match parseOpts d m c x, parseBatches bs with
    | some (D, M, chunk, ctx), some batches =>
      if op == "trunc" then handleTrunc D M chunk ctx batches impl
      else if op == "agg" then handleAgg D M chunk ctx batches impl
      else badCase "op"
    | _, _ => badCase "fields"
  | _ => badCase "arity"

def main : IO Unit := runLines handle
end ZoektModel.C22
