import ZoektModel.Basic.Proto
namespace ZoektModel.C22
/-- stub: no model driver for C22 yet -/
def main : IO Unit := ZoektModel.Proto.runLines (fun _ => ZoektModel.Proto.badCase "no model driver for C22")
end ZoektModel.C22
