/-
C22 — lemmas for the aggregation theorem (`collectSender` = repeated sort + truncate).
-/
import ZoektModel.C22.Lemmas
namespace ZoektModel.C22
open ZoektModel

/-! ### remaining budget of `limitUnits` -/

theorem limitUnits_rem (c : Bool) (us : List MUnit) : ∀ m, 0 < m →
    ((limitUnits c us m).2 ≠ 0 ↔ (us.map unitCount).sum < m) ∧
    ((limitUnits c us m).2 ≠ 0 → (limitUnits c us m).2 = m - (us.map unitCount).sum) := by
  induction us with
  | nil => intro m hm; simp [limitUnits]; omega
  | cons u rest ih =>
    intro m hm
    unfold limitUnits
    rw [sumCount_cons]
    by_cases hgt : u.items.length > m
    · have hlen : (cutUnit c m u).items.length = m := by rw [cutUnit_items, List.length_take]; omega
      simp only [hgt, if_true, hlen]
      constructor
      · constructor
        · intro h; exact absurd rfl h
        · intro h; omega
      · intro h; exact absurd rfl h
    · simp only [hgt, if_false]
      by_cases heq : u.items.length = m
      · simp only [heq, if_true]
        constructor
        · constructor
          · intro h; exact absurd rfl h
          · intro h; omega
        · intro h; exact absurd rfl h
      · simp only [heq, if_false]
        obtain ⟨i1, i2⟩ := ih (m - u.items.length) (by omega)
        constructor
        · rw [i1]; omega
        · intro h; rw [i2 h]; omega

/-- `limitUnits` with a budget that the first unit already exhausts does not look at the rest -/
theorem limitUnits_head (c : Bool) (u : MUnit) (rest : List MUnit) (m : Nat) (h : m ≤ u.items.length) (hm : 0 < m) :
    limitUnits c (u :: rest) m = ([if u.items.length > m then cutUnit c m u else u], 0) := by
  unfold limitUnits
  by_cases hgt : u.items.length > m
  · have hlen : (cutUnit c m u).items.length = m := by rw [cutUnit_items, List.length_take]; omega
    simp [hgt, hlen]
  · have : u.items.length = m := by omega
    simp [hgt, this]

/-- cutting twice is cutting once (holds for every unit in line mode) -/
def Comp (c : Bool) : Prop :=
  ∀ (u : MUnit) (k' k : Nat), k' ≤ k → cutUnit c k' (cutUnit c k u) = cutUnit c k' u

theorem comp_line : Comp false := by
  intro u k' k h
  simp [cutUnit, List.take_take, Nat.min_eq_left h]

theorem limitUnits_twice (c : Bool) (hc : Comp c) (us : List MUnit) : ∀ m m', 0 < m' → m' ≤ m →
    limitUnits c (limitUnits c us m).1 m' = limitUnits c us m' := by
  induction us with
  | nil => intro m m' _ _; simp [limitUnits]
  | cons u rest ih =>
    intro m m' hm' hle
    by_cases hge : m ≤ u.items.length
    · -- the first unit exhausts `m`, hence also `m'`
      rw [limitUnits_head c u rest m hge (by omega), limitUnits_head c u rest m' (by omega) hm']
      by_cases hgt : u.items.length > m
      · have hlen : (cutUnit c m u).items.length = m := by rw [cutUnit_items, List.length_take]; omega
        simp only [hgt, if_true]
        rw [limitUnits_head c _ [] m' (by omega) hm', hlen]
        have hgt' : u.items.length > m' := by omega
        simp only [hgt', if_true]
        by_cases hmm : m > m'
        · simp only [hmm, if_true]; rw [hc u m' m (by omega)]
        · have : m' = m := by omega
          subst this; simp
      · have heq : u.items.length = m := by omega
        simp only [hgt, if_false]
        rw [limitUnits_head c _ [] m' (by omega) hm']
    · have hlt : u.items.length < m := by omega
      have hstep : (limitUnits c (u :: rest) m).1 = u :: (limitUnits c rest (m - u.items.length)).1 := by
        simp only [limitUnits]
        have h1 : ¬ u.items.length > m := by omega
        have h2 : ¬ u.items.length = m := by omega
        simp [h1, h2]
      rw [hstep]
      by_cases hge' : m' ≤ u.items.length
      · rw [limitUnits_head c u _ m' hge' hm', limitUnits_head c u _ m' hge' hm']
      · have h1 : ¬ u.items.length > m' := by omega
        have h2 : ¬ u.items.length = m' := by omega
        simp only [limitUnits, h1, h2, if_false]
        rw [ih (m - u.items.length) (m' - u.items.length) (by omega) (by omega)]

/-! ### a fused form of one truncation: `topN` -/

def decO : Option Nat → Option Nat
  | none => none
  | some d => some (d - 1)

def exhausted : Option Nat → Bool
  | some 0 => true
  | _ => false

/-- budgets: `none` = unlimited -/
def leO : Option Nat → Option Nat → Prop
  | _, none => True
  | some a, some b => a ≤ b
  | none, some _ => False

def PosO : Option Nat → Prop
  | none => True
  | some k => 0 < k

/-- the file as it is returned under match budget `m` -/
def cutF (c : Bool) (m : Option Nat) (f : File) : File :=
  match m with
  | none => f
  | some k => { f with units := (limitUnits c f.units k).1 }

/-- the match budget left after file `f` (`none` = exhausted: stop after this file) -/
def nextM (c : Bool) (m : Option Nat) (f : File) : Option (Option Nat) :=
  match m with
  | none => some none
  | some k => if (limitUnits c f.units k).2 = 0 then none else some (some (limitUnits c f.units k).2)

def topN (c : Bool) : Option Nat → Option Nat → List File → List File
  | _, _, [] => []
  | D, m, f :: rest =>
    if exhausted D then []
    else match nextM c m f with
      | none => [cutF c m f]
      | some m2 => cutF c m f :: topN c (decO D) m2 rest

theorem cutF_score (c : Bool) (m : Option Nat) (f : File) : (cutF c m f).score = f.score := by
  cases m <;> rfl

theorem cutF_ext (c : Bool) (m : Option Nat) (f : File) : (cutF c m f).ext = f.ext := by
  cases m <;> rfl

theorem leO_refl (a : Option Nat) : leO a a := by cases a <;> simp [leO]

theorem leO_dec (a b : Option Nat) (h : leO a b) : leO (decO a) (decO b) := by
  cases a <;> cases b <;> simp_all [leO, decO]; omega

theorem leO_dec_self (a : Option Nat) : leO (decO a) a := by
  cases a <;> simp [leO, decO]

theorem exhausted_of_le (a b : Option Nat) (h : leO a b) (hb : exhausted b = true) : exhausted a = true := by
  cases a <;> cases b <;> simp_all [leO, exhausted]
  rename_i x y
  cases y <;> simp_all [exhausted]

theorem nextM_pos (c : Bool) (m : Option Nat) (f : File) (m2 : Option Nat) (h : nextM c m f = some m2)
    : PosO m2 := by
  cases m with
  | none => simp [nextM] at h; subst h; simp [PosO]
  | some k =>
    simp only [nextM] at h
    split at h
    · simp at h
    · simp at h; subst h; simp only [PosO]; omega

theorem cutF_twice (c : Bool) (hc : Comp c) (m' m : Option Nat) (f : File) (hle : leO m' m) (hp : PosO m') :
    cutF c m' (cutF c m f) = cutF c m' f := by
  cases m with
  | none => rfl
  | some k =>
    cases m' with
    | none => simp [leO] at hle
    | some k' =>
      simp only [leO] at hle
      simp only [PosO] at hp
      simp only [cutF]
      rw [limitUnits_twice c hc _ k k' hp hle]

theorem nextM_twice (c : Bool) (hc : Comp c) (m' m : Option Nat) (f : File) (hle : leO m' m) (hp : PosO m') :
    nextM c m' (cutF c m f) = nextM c m' f := by
  cases m with
  | none => rfl
  | some k =>
    cases m' with
    | none => simp [leO] at hle
    | some k' =>
      simp only [leO] at hle
      simp only [PosO] at hp
      have e := limitUnits_twice c hc f.units k k' hp hle
      simp only [cutF, nextM, e]

theorem nextM_mono (c : Bool) (m' m : Option Nat) (f : File) (hle : leO m' m) (hp : PosO m') (hpm : PosO m)
    (m2' : Option Nat) (h : nextM c m' f = some m2') : ∃ m2, nextM c m f = some m2 ∧ leO m2' m2 := by
  cases m with
  | none => exact ⟨none, rfl, by cases m2' <;> simp [leO]⟩
  | some k =>
    cases m' with
    | none => simp [leO] at hle
    | some k' =>
      simp only [leO] at hle
      simp only [PosO] at hp hpm
      simp only [nextM] at h ⊢
      obtain ⟨a1, a2⟩ := limitUnits_rem c f.units k' hp
      obtain ⟨b1, b2⟩ := limitUnits_rem c f.units k hpm
      by_cases hr' : (limitUnits c f.units k').2 = 0
      · simp [hr'] at h
      · simp only [hr', if_false, Option.some.injEq] at h
        have hlt := a1.mp hr'
        have hr : (limitUnits c f.units k).2 ≠ 0 := b1.mpr (by omega)
        refine ⟨some (limitUnits c f.units k).2, by simp [hr], ?_⟩
        subst h
        simp only [leO]
        rw [a2 hr', b2 hr]; omega

theorem topN_nil (c : Bool) (D m : Option Nat) : topN c D m [] = [] := by simp [topN]

theorem topN_exhausted (c : Bool) (D m : Option Nat) (l : List File) (h : exhausted D = true) : topN c D m l = [] := by
  cases l <;> simp [topN, h]

theorem topN_cons (c : Bool) (D m : Option Nat) (f : File) (rest : List File) (hx : exhausted D = false) :
    topN c D m (f :: rest) =
      match nextM c m f with
      | none => [cutF c m f]
      | some m2 => cutF c m f :: topN c (decO D) m2 rest := by simp [topN, hx]

/-- **truncating a truncation with smaller budgets is truncating the original with the smaller budgets** -/
theorem topN_twice (c : Bool) (hc : Comp c) (l : List File) : ∀ (D' D m' m : Option Nat),
    leO D' D → leO m' m → PosO m' → PosO m → topN c D' m' (topN c D m l) = topN c D' m' l := by
  induction l with
  | nil => intro D' D m' m _ _ _ _; simp [topN]
  | cons f rest ih =>
    intro D' D m' m hD hm hp' hp
    cases hx' : exhausted D' with
    | true => rw [topN_exhausted _ _ _ _ hx', topN_exhausted _ _ _ _ hx']
    | false =>
      have hx : exhausted D = false := by
        cases h : exhausted D with
        | false => rfl
        | true => rw [exhausted_of_le _ _ hD h] at hx'; exact absurd hx' (by simp)
      rw [topN_cons c D m f rest hx, topN_cons c D' m' f rest hx']
      cases hn : nextM c m f with
      | none =>
        simp only
        rw [topN_cons c D' m' _ [] hx', nextM_twice c hc m' m f hm hp', cutF_twice c hc m' m f hm hp']
        cases hn' : nextM c m' f with
        | none => rfl
        | some m2' =>
          obtain ⟨m2, e, _⟩ := nextM_mono c m' m f hm hp' hp m2' hn'
          rw [hn] at e; simp at e
      | some m2 =>
        simp only
        rw [topN_cons c D' m' _ _ hx', nextM_twice c hc m' m f hm hp', cutF_twice c hc m' m f hm hp']
        cases hn' : nextM c m' f with
        | none => rfl
        | some m2' =>
          obtain ⟨m2x, e, hle2⟩ := nextM_mono c m' m f hm hp' hp m2' hn'
          rw [hn] at e
          simp only [Option.some.injEq] at e
          subst e
          simp only
          rw [ih (decO D') (decO D) m2' m2 (leO_dec _ _ hD) hle2 (nextM_pos c m' f m2' hn') (nextM_pos c m f m2 hn)]

theorem ins_cons (y x : File) (r : List File) :
    ins y (x :: r) = if x.score < y.score then y :: x :: r else x :: ins y r := rfl

/-- **inserting into a list and truncating only needs the truncation of the list** -/
theorem topN_ins (c : Bool) (hc : Comp c) (y : File) (X : List File) : ∀ (D m : Option Nat), PosO m →
    topN c D m (ins y X) = topN c D m (ins y (topN c D m X)) := by
  induction X with
  | nil => intro D m _; simp [topN_nil]
  | cons x X2 ih =>
    intro D m hp
    cases hx : exhausted D with
    | true => rw [topN_exhausted _ _ _ _ hx, topN_exhausted _ _ _ _ hx]
    | false =>
      have hxx : topN c D m (x :: X2) = match nextM c m x with
          | none => [cutF c m x]
          | some m2 => cutF c m x :: topN c (decO D) m2 X2 := topN_cons c D m x X2 hx
      by_cases hlt : x.score < y.score
      · -- y goes first
        have h1 : ins y (x :: X2) = y :: x :: X2 := by rw [ins_cons]; simp [hlt]
        have h2 : ins y (topN c D m (x :: X2)) = y :: topN c D m (x :: X2) := by
          rw [hxx]
          cases nextM c m x <;> simp [ins, cutF_score, hlt]
        rw [h1, h2, topN_cons c D m y _ hx, topN_cons c D m y _ hx]
        cases hn : nextM c m y with
        | none => rfl
        | some m2 =>
          simp only
          rw [topN_twice c hc (x :: X2) (decO D) D m2 m (leO_dec_self D)
            (by obtain ⟨q, e, hle⟩ := nextM_mono c m m y (leO_refl m) hp hp m2 hn
                rw [hn] at e; simp only [Option.some.injEq] at e; subst e
                cases m with
                | none => cases m2 <;> simp [leO]
                | some k =>
                  simp only [nextM] at hn
                  split at hn
                  · simp at hn
                  · simp only [Option.some.injEq] at hn; subst hn
                    simp only [leO]
                    have := (limitUnits_rem c y.units k hp).2 (by assumption)
                    omega)
            (nextM_pos c m y m2 hn) hp]
      · -- x stays first
        have h1 : ins y (x :: X2) = x :: ins y X2 := by rw [ins_cons]; simp [hlt]
        rw [h1, topN_cons c D m x _ hx, hxx]
        cases hn : nextM c m x with
        | none =>
          simp only
          have h2 : ins y [cutF c m x] = [cutF c m x, y] := by simp [ins, cutF_score, hlt]
          rw [h2, topN_cons c D m _ _ hx, nextM_twice c hc m m x (leO_refl m) hp, hn,
            cutF_twice c hc m m x (leO_refl m) hp]
        | some m2 =>
          simp only
          have h2 : ins y (cutF c m x :: topN c (decO D) m2 X2) = cutF c m x :: ins y (topN c (decO D) m2 X2) := by
            rw [ins_cons]; simp [cutF_score, hlt]
          rw [h2, topN_cons c D m _ _ hx, nextM_twice c hc m m x (leO_refl m) hp, hn,
            cutF_twice c hc m m x (leO_refl m) hp]
          simp only
          rw [← ih (decO D) m2 (nextM_pos c m x m2 hn)]

/-- **inserting a batch into a truncated sorted aggregate = inserting it into the untruncated one** -/
theorem topN_foldr_ins (c : Bool) (hc : Comp c) (D m : Option Nat) (hp : PosO m) (L : List File) (ys : List File) :
    topN c D m (ys.foldr ins (topN c D m L)) = topN c D m (ys.foldr ins L) := by
  induction ys with
  | nil => exact topN_twice c hc L D D m m (leO_refl D) (leO_refl m) hp hp
  | cons y ys ih =>
    simp only [List.foldr_cons]
    rw [topN_ins c hc y _ D m hp, ih, ← topN_ins c hc y _ D m hp]

/-! ### sorting -/

def scores (l : List File) : List Nat := l.map (·.score)

def SortedD (l : List File) : Prop := l.Pairwise (fun a b => b.score < a.score)

theorem ins_perm (x : File) (l : List File) : (ins x l).Perm (x :: l) := by
  induction l with
  | nil => exact List.Perm.refl _
  | cons y r ih =>
    rw [ins_cons]
    split
    · exact List.Perm.refl _
    · exact (List.Perm.cons y ih).trans (List.Perm.swap x y r)

theorem sortDesc_perm (l : List File) : (sortDesc l).Perm l := by
  induction l with
  | nil => exact List.Perm.refl _
  | cons x r ih => exact (ins_perm x (sortDesc r)).trans (List.Perm.cons x ih)

theorem ins_sorted (x : File) (l : List File) (hs : SortedD l) (hn : ∀ z ∈ l, z.score ≠ x.score) :
    SortedD (ins x l) := by
  induction l with
  | nil => simp [ins, SortedD]
  | cons y r ih =>
    unfold SortedD at hs
    rw [List.pairwise_cons] at hs
    rw [ins_cons]
    split
    · rename_i hlt
      unfold SortedD
      rw [List.pairwise_cons]
      refine ⟨?_, List.pairwise_cons.mpr hs⟩
      intro z hz
      rcases List.mem_cons.mp hz with rfl | hz
      · exact hlt
      · have := hs.1 z hz; omega
    · rename_i hnlt
      have hne := hn y List.mem_cons_self
      unfold SortedD
      rw [List.pairwise_cons]
      refine ⟨?_, ih hs.2 (fun z hz => hn z (List.mem_cons_of_mem _ hz))⟩
      intro z hz
      rcases List.mem_cons.mp ((ins_perm x r).mem_iff.mp hz) with rfl | hz
      · omega
      · exact hs.1 z hz

theorem sortDesc_sorted (l : List File) (hnd : (scores l).Nodup) : SortedD (sortDesc l) := by
  induction l with
  | nil => simp [sortDesc, SortedD]
  | cons x r ih =>
    simp only [scores, List.map_cons, List.nodup_cons] at hnd
    refine ins_sorted x _ (ih hnd.2) ?_
    intro z hz heq
    exact hnd.1 (List.mem_map.mpr ⟨z, (sortDesc_perm r).mem_iff.mp hz, heq⟩)

theorem sortDesc_of_sorted (l : List File) (hs : SortedD l) : sortDesc l = l := by
  induction l with
  | nil => rfl
  | cons x r ih =>
    unfold SortedD at hs
    rw [List.pairwise_cons] at hs
    show ins x (sortDesc r) = x :: r
    rw [ih hs.2]
    cases r with
    | nil => rfl
    | cons y r' => rw [ins_cons]; simp [hs.1 y List.mem_cons_self]

theorem ins_comm (x y : File) (h : x.score ≠ y.score) : ∀ z : List File, ins y (ins x z) = ins x (ins y z) := by
  intro z
  induction z with
  | nil =>
    by_cases h1 : x.score < y.score
    · have h2 : ¬ y.score < x.score := by omega
      simp [ins, h1, h2]
    · have h2 : y.score < x.score := by omega
      simp [ins, h1, h2]
  | cons w r ih =>
    by_cases a : w.score < x.score <;> by_cases b : w.score < y.score
    · by_cases h1 : x.score < y.score
      · have h2 : ¬ y.score < x.score := by omega
        simp [ins, a, b, h1, h2]
      · have h2 : y.score < x.score := by omega
        simp [ins, a, b, h1, h2]
    · have h1 : ¬ x.score < y.score := by omega
      simp [ins, a, b, h1]
    · have h1 : ¬ y.score < x.score := by omega
      simp [ins, a, b, h1]
    · simp [ins, a, b, ih]

theorem eq_of_score_eq (l : List File) (hnd : (scores l).Nodup) (x y : File) (hx : x ∈ l) (hy : y ∈ l)
    (h : x.score = y.score) : x = y := by
  induction l with
  | nil => simp at hx
  | cons a r ih =>
    simp only [scores, List.map_cons, List.nodup_cons] at hnd
    rcases List.mem_cons.mp hx with rfl | hx' <;> rcases List.mem_cons.mp hy with rfl | hy'
    · rfl
    · exact absurd (List.mem_map.mpr ⟨y, hy', h.symm⟩) hnd.1
    · exact absurd (List.mem_map.mpr ⟨x, hx', h⟩) hnd.1
    · exact ih hnd.2 hx' hy'

/-- with pairwise distinct scores the ranking does not depend on the order of arrival -/
theorem sortDesc_perm_eq (l l' : List File) (hp : l.Perm l') (hnd : (scores l).Nodup) : sortDesc l = sortDesc l' := by
  unfold sortDesc
  refine List.Perm.foldr_eq' hp ?_ []
  intro x hx y hy z
  by_cases h : x.score = y.score
  · rw [eq_of_score_eq l hnd x y hx hy h]
  · exact ins_comm x y h z

/-! ### `topN` keeps order, scores and extensions -/

theorem topN_scores_sublist (c : Bool) (l : List File) : ∀ (D m : Option Nat),
    (scores (topN c D m l)).Sublist (scores l) := by
  induction l with
  | nil => intro D m; simp [topN_nil, scores]
  | cons f rest ih =>
    intro D m
    cases hx : exhausted D with
    | true => rw [topN_exhausted _ _ _ _ hx]; simp [scores]
    | false =>
      rw [topN_cons c D m f rest hx]
      cases nextM c m f with
      | none => simp [scores, cutF_score]
      | some m2 =>
        simp only [scores, List.map_cons, cutF_score]
        exact List.Sublist.cons_cons _ (ih _ _)

theorem sortedD_iff (l : List File) : SortedD l ↔ (scores l).Pairwise (fun a b => b < a) := by
  unfold SortedD scores
  rw [List.pairwise_map]

theorem topN_sorted (c : Bool) (D m : Option Nat) (l : List File) (hs : SortedD l) : SortedD (topN c D m l) := by
  rw [sortedD_iff] at hs ⊢
  exact List.Pairwise.sublist (topN_scores_sublist c l D m) hs

theorem topN_ext (c : Bool) (l : List File) : ∀ (D m : Option Nat) (g : File), g ∈ topN c D m l →
    ∃ f ∈ l, g.ext = f.ext := by
  induction l with
  | nil => intro D m g h; simp [topN_nil] at h
  | cons f rest ih =>
    intro D m g h
    cases hx : exhausted D with
    | true => rw [topN_exhausted _ _ _ _ hx] at h; simp at h
    | false =>
      rw [topN_cons c D m f rest hx] at h
      cases hn : nextM c m f with
      | none =>
        rw [hn] at h
        simp only [List.mem_singleton] at h
        exact ⟨f, List.mem_cons_self, by rw [h, cutF_ext]⟩
      | some m2 =>
        rw [hn] at h
        rcases List.mem_cons.mp h with rfl | h'
        · exact ⟨f, List.mem_cons_self, cutF_ext c m f⟩
        · obtain ⟨f', hf', e⟩ := ih _ _ g h'
          exact ⟨f', List.mem_cons_of_mem _ hf', e⟩

/-! ### one truncation is `topN` -/

def optL (n : Nat) : Option Nat := if n = 0 then none else some n

theorem topN_none_none (c : Bool) (l : List File) : topN c none none l = l := by
  induction l with
  | nil => rfl
  | cons f rest ih =>
    rw [topN_cons c none none f rest rfl]
    simp [nextM, cutF, decO, ih]

theorem topN_take (c : Bool) (l : List File) : ∀ D : Nat, topN c (some D) none l = l.take D := by
  induction l with
  | nil => intro D; simp [topN_nil]
  | cons f rest ih =>
    intro D
    cases D with
    | zero => rw [topN_exhausted _ _ _ _ rfl]; rfl
    | succ D =>
      rw [topN_cons c (some (D + 1)) none f rest rfl]
      simp [nextM, cutF, decO, ih]

theorem topN_limit (c : Bool) (l : List File) : ∀ M : Nat, topN c none (some M) l = (limitFiles c l M).1 := by
  induction l with
  | nil => intro M; simp [topN_nil, limitFiles]
  | cons f rest ih =>
    intro M
    rw [topN_cons c none (some M) f rest rfl]
    simp only [nextM, cutF, limitFiles]
    by_cases hr : (limitUnits c f.units M).2 = 0
    · simp [hr]
    · simp [hr, decO, ih]

theorem topN_take_limit (c : Bool) (l : List File) : ∀ D M : Nat,
    topN c (some D) (some M) l = (limitFiles c (l.take D) M).1 := by
  induction l with
  | nil => intro D M; simp [topN_nil, limitFiles]
  | cons f rest ih =>
    intro D M
    cases D with
    | zero => rw [topN_exhausted _ _ _ _ rfl]; simp [limitFiles]
    | succ D =>
      rw [topN_cons c (some (D + 1)) (some M) f rest rfl]
      simp only [nextM, cutF, List.take_succ_cons, limitFiles]
      by_cases hr : (limitUnits c f.units M).2 = 0
      · simp [hr]
      · simp [hr, decO, ih]

theorem trunc1_topN (D M : Nat) (c : Bool) (l : List File) :
    (truncStep (newTruncator D M c) l).1 = topN c (optL D) (optL M) l := by
  rw [trunc1_eq]
  by_cases hD : D = 0 <;> by_cases hM : M = 0
  · simp [hD, hM, optL, topN_none_none]
  · simp [hD, hM, optL, topN_limit]
  · simp [hD, hM, optL, topN_take]
  · simp [hD, hM, optL, topN_take_limit]

theorem posO_optL (n : Nat) : PosO (optL n) := by
  unfold optL
  split
  · simp [PosO]
  · simp only [PosO]; omega

/-! ### no promotion when every file has the same extension -/

theorem findNovel_none (exts : List Nat) (s0 : Nat) (cands : List File)
    (h : ∀ c ∈ cands, exts.contains c.ext = true) : findNovel exts s0 cands = none := by
  induction cands with
  | nil => rfl
  | cons c r ih =>
    have hc := h c List.mem_cons_self
    have hr := ih (fun x hx => h x (List.mem_cons_of_mem _ hx))
    unfold findNovel
    split
    · simp [hr]
    · simp [hc, hr]

theorem boost_sameExt (e : Nat) (ms : List File) (h : ∀ f ∈ ms, f.ext = e) : boost ms 2 = ms := by
  unfold boost
  split
  · rfl
  · rename_i hlen
    simp only
    split
    · rfl
    · rename_i c0 tl hc
      have hmem : ∀ c ∈ c0 :: tl, c ∈ ms := by
        intro c hcm; rw [← hc] at hcm; exact List.mem_of_mem_drop hcm
      have hex : ∀ c ∈ c0 :: tl, ((ms.take 2).map (·.ext)).contains c.ext = true := by
        intro c hcm
        rw [h c (hmem c hcm)]
        match ms, hlen, h with
        | a :: b :: _, _, h =>
          simp [h a (by simp)]
        | [a], hlen, _ => simp at hlen
        | [], hlen, _ => simp at hlen
      rw [← hc] at hex
      rw [findNovel_none _ _ _ hex]

/-! ### one `collectSender.Send` -/

theorem scores_append (a b : List File) : scores (a ++ b) = scores a ++ scores b := by simp [scores]

theorem sortDesc_append (a b : List File) : sortDesc (a ++ b) = a.foldr ins (sortDesc b) := by
  simp [sortDesc, List.foldr_append]

/-- ranking and truncating (truncated ranked aggregate ++ new batch) = ranking and truncating (everything ++ new batch),
    when scores are pairwise distinct and the promotion does not change what the truncation returns (`hB`) -/
theorem agg_step (c : Bool) (hc : Comp c) (D M : Nat) (U r : List File)
    (hnd : (scores (U ++ r)).Nodup)
    (hB : topN c (optL D) (optL M) (sortFiles (topN c (optL D) (optL M) (sortDesc U) ++ r)) =
          topN c (optL D) (optL M) (sortDesc (topN c (optL D) (optL M) (sortDesc U) ++ r))) :
    topN c (optL D) (optL M) (sortFiles (topN c (optL D) (optL M) (sortDesc U) ++ r)) =
      topN c (optL D) (optL M) (sortDesc (U ++ r)) := by
  have hndU : (scores U).Nodup := by
    rw [scores_append] at hnd; exact (List.nodup_append.mp hnd).1
  have hA_sorted : SortedD (topN c (optL D) (optL M) (sortDesc U)) :=
    topN_sorted c _ _ _ (sortDesc_sorted U hndU)
  -- distinct scores of (A ++ r)
  have hndA : (scores (topN c (optL D) (optL M) (sortDesc U) ++ r)).Nodup := by
    rw [scores_append]
    have hsub : (scores (topN c (optL D) (optL M) (sortDesc U)) ++ scores r).Sublist (scores (sortDesc U) ++ scores r) :=
      List.Sublist.append (topN_scores_sublist c _ _ _) (List.Sublist.refl _)
    refine List.Sublist.nodup hsub ?_
    have hperm : (scores (sortDesc U) ++ scores r).Perm (scores (U ++ r)) := by
      rw [scores_append]
      exact List.Perm.append ((sortDesc_perm U).map _) (List.Perm.refl _)
    exact hperm.nodup_iff.mpr hnd
  rw [hB]
  rw [sortDesc_perm_eq _ _ List.perm_append_comm hndA, sortDesc_append, sortDesc_of_sorted _ hA_sorted]
  rw [topN_foldr_ins c hc _ _ (posO_optL M)]
  rw [← sortDesc_append, sortDesc_perm_eq (r ++ U) (U ++ r) List.perm_append_comm
    (List.perm_append_comm.map _ |>.nodup_iff.mpr hnd)]

theorem sortAndTruncate_eq (D M : Nat) (c : Bool) (l : List File) :
    sortAndTruncate D M c l = topN c (optL D) (optL M) (sortFiles l) := by
  unfold sortAndTruncate
  exact trunc1_topN D M c _

/-- "the promotion does not change what the truncation returns", for every list whose files carry extensions of
    files of `U0` -/
def NoPromo (c : Bool) (D M : Nat) (U0 : List File) : Prop :=
  ∀ l : List File, (∀ f ∈ l, ∃ g ∈ U0, f.ext = g.ext) →
    topN c (optL D) (optL M) (sortFiles l) = topN c (optL D) (optL M) (sortDesc l)

theorem collect_fold (c : Bool) (hc : Comp c) (D M : Nat) (hlim : hasDisplayLimit D M = true) (U0 : List File)
    (hB : NoPromo c D M U0)
    (batches : List (List File)) : ∀ (agg : Option (List File)) (U : List File),
    agg.getD [] = topN c (optL D) (optL M) (sortDesc U) →
    (scores (U ++ batches.flatten)).Nodup → (∀ f ∈ U ++ batches.flatten, f ∈ U0) →
    (batches.foldl (collectSend D M c) agg).getD [] = topN c (optL D) (optL M) (sortDesc (U ++ batches.flatten)) := by
  induction batches with
  | nil => intro agg U h _ _; simpa using h
  | cons b bs ih =>
    intro agg U h hnd hmem
    simp only [List.foldl_cons, List.flatten_cons] at hnd hmem ⊢
    by_cases hb : b = []
    · subst hb
      have : collectSend D M c agg [] = some (agg.getD []) := by simp [collectSend]
      rw [this]
      simpa using ih (some (agg.getD [])) U (by simpa using h) (by simpa using hnd) (by simpa using hmem)
    · have hne : b.isEmpty = false := by cases b <;> simp_all
      have hs : collectSend D M c agg b = some (sortAndTruncate D M c (agg.getD [] ++ b)) := by
        simp [collectSend, hne, hlim]
      rw [hs, ← List.append_assoc]
      refine ih _ (U ++ b) ?_ (by rw [List.append_assoc]; exact hnd) (by rw [List.append_assoc]; exact hmem)
      simp only [Option.getD_some]
      rw [sortAndTruncate_eq, h]
      refine agg_step c hc D M U b ?_ ?_
      · rw [← List.append_assoc, scores_append] at hnd
        exact (List.nodup_append.mp hnd).1
      · apply hB
        intro f hf
        rcases List.mem_append.mp hf with hf | hf
        · obtain ⟨g, hg, eg⟩ := topN_ext c _ _ _ f hf
          exact ⟨g, hmem g (List.mem_append_left _ ((sortDesc_perm U).mem_iff.mp hg)), eg⟩
        · exact ⟨f, hmem f (List.mem_append_right _ (List.mem_append_left _ hf)), rfl⟩

theorem foldl_collectSend_isSome (D M : Nat) (c : Bool) (batches : List (List File)) (a : List File) :
    ∃ x, batches.foldl (collectSend D M c) (some a) = some x := by
  induction batches generalizing a with
  | nil => exact ⟨a, rfl⟩
  | cons b bs ih =>
    simp only [List.foldl_cons]
    have : ∃ y, collectSend D M c (some a) b = some y := by
      unfold collectSend; simp only []; split
      · exact ⟨_, rfl⟩
      · split <;> exact ⟨_, rfl⟩
    obtain ⟨y, hy⟩ := this
    rw [hy]; exact ih y

theorem collectSend_isSome (D M : Nat) (c : Bool) (agg : Option (List File)) (b : List File) :
    ∃ y, collectSend D M c agg b = some y := by
  unfold collectSend; simp only []; split
  · exact ⟨_, rfl⟩
  · split <;> exact ⟨_, rfl⟩

theorem collect_nolimit_fold (c : Bool) (batches : List (List File)) : ∀ (agg : Option (List File)),
    (batches.foldl (collectSend 0 0 c) agg).getD [] = agg.getD [] ++ batches.flatten := by
  induction batches with
  | nil => intro agg; simp
  | cons b bs ih =>
    intro agg
    simp only [List.foldl_cons, List.flatten_cons]
    rw [ih]
    by_cases hb : b = []
    · subst hb; simp [collectSend]
    · have hne : b.isEmpty = false := by cases b <;> simp_all
      simp [collectSend, hne, hasDisplayLimit]

/-! ### with a file limit of 1 or 2 the promotion cannot matter: it never touches the first two places -/

theorem boost_take2 (l : List File) : (boost l 2).take 2 = l.take 2 := by
  unfold boost
  split
  · rfl
  · rename_i hlen
    simp only
    split
    · rfl
    · split
      · rfl
      · split
        · rfl
        · have h2 : (l.take 2).length = 2 := by rw [List.length_take]; omega
          rw [List.take_append_of_le_length (by omega), List.take_of_length_le (by omega)]

theorem topN_take_D (c : Bool) (l : List File) : ∀ (D : Nat) (m : Option Nat),
    topN c (some D) m l = topN c (some D) m (l.take D) := by
  induction l with
  | nil => intro D m; simp
  | cons f rest ih =>
    intro D m
    cases D with
    | zero => rw [topN_exhausted _ _ _ _ rfl, topN_exhausted _ _ _ _ rfl]
    | succ D =>
      rw [List.take_succ_cons, topN_cons c _ m f rest rfl, topN_cons c _ m f _ rfl]
      cases nextM c m f with
      | none => rfl
      | some m2 =>
        simp only [decO, Nat.add_sub_cancel]
        rw [ih D m2]

theorem topN_boost_small (c : Bool) (D : Nat) (hD : D ≤ 2) (m : Option Nat) (l : List File) :
    topN c (some D) m (boost l 2) = topN c (some D) m l := by
  rw [topN_take_D c (boost l 2), topN_take_D c l]
  have h1 : (boost l 2).take D = ((boost l 2).take 2).take D := by
    rw [List.take_take, Nat.min_eq_left hD]
  have h2 : l.take D = (l.take 2).take D := by
    rw [List.take_take, Nat.min_eq_left hD]
  rw [h1, h2, boost_take2]

end ZoektModel.C22
