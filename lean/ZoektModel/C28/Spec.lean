/-
C28 — executable statements.  The property compares search results across threshold settings; its content is that
the two engines agree on valid UTF-8.  `enginesAgree` is that statement on one (pattern, subject) pair, and both
engines are additionally held to the model's match semantics (`C27.validFindAll`).  Core Lean only.
-/
import ZoektModel.C28.Model
import ZoektModel.C27.Spec
namespace ZoektModel.C28
open ZoektModel.Regex

/-- on one pattern/subject: the two engines report the same spans, and these are admissible for the tree -/
def checkEngines (env : Env) (s : Array Nat) (r : Re) (g r2 : List (Nat × Nat)) : Option String :=
  if !C27.validFindAll env s r g then some "grafana-vs-model-semantics"
  else if !C27.validFindAll env s r r2 then some "re2-vs-model-semantics"
  else if g != r2 then some "engines-differ"
  else none

/-- results under every threshold of a list equal the results under the first one -/
def allSame {α} [BEq α] : List α → Bool
  | [] => true
  | x :: xs => xs.all (· == x)

end ZoektModel.C28
