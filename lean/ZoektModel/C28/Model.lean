/-
C28 model: internal/hybridre2 (threshold parsing, Compile's "RE2 only when enabled", useRE2, FindAllIndex dispatch) and
the use index/matchtree.go:regexpMatchTree.matches makes of it (content → hybrid, file names → grafana/regexp only;
one candidate per reported index pair).  The two engines are parameters.  Core Lean only.
-/
import ZoektModel.C27.Regex
namespace ZoektModel.C28
open ZoektModel.Regex

/-! ### `threshold`: `strconv.ParseInt(val, 10, 64)` on the environment value, `-1` when unset or malformed -/

def disabled : Int := -1

def digitVal (c : Char) : Option Nat := if '0' ≤ c ∧ c ≤ '9' then some (c.toNat - 48) else none

def parseDigits : List Char → Nat → Option Nat
  | [], acc => some acc
  | c :: cs, acc => match digitVal c with
    | some d => parseDigits cs (acc * 10 + d)
    | none => none

/-- `strconv.ParseInt(s, 10, 64)`: optional sign, at least one digit, no other characters (base 10 given explicitly:
    no prefixes, no underscores), value within int64 — otherwise an error -/
def parseInt64 (s : List Char) : Option Int :=
  let (neg, ds) := match s with
    | '+' :: r => (false, r)
    | '-' :: r => (true, r)
    | r => (false, r)
  if ds.isEmpty then none else
  match parseDigits ds 0 with
  | none => none
  | some n =>
    if neg then (if n ≤ 9223372036854775808 then some (-(n : Int)) else none)
    else (if n ≤ 9223372036854775807 then some (n : Int) else none)

/-- `threshold()` for an environment in which the variable is unset (`none`) or has the given value -/
def thresholdOf (envVal : Option (List Char)) : Int :=
  match envVal with
  | none => disabled
  | some v => match parseInt64 v with
    | some n => n
    | none => disabled

/-- `useRE2(inputLen)` -/
def useRE2 (t : Int) (inputLen : Nat) : Bool := decide (t ≥ 0) && decide ((inputLen : Int) ≥ t)

/-- `Compile`: the go-re2 variant exists only when `threshold() >= 0` -/
def hasRE2 (t : Int) : Bool := decide (t ≥ 0)

/-- the two engines (`FindAllIndex(b, -1)` of grafana/regexp and of go-re2 for a compiled pattern), as functions of
    the pattern tree and the input bytes -/
structure Engines where
  grafana : Re → List UInt8 → List (Nat × Nat)
  re2 : Re → List UInt8 → List (Nat × Nat)

/-- `(*hybridre2.Regexp).FindAllIndex(b, -1)` under threshold `t` -/
def hybridFindAll (E : Engines) (t : Int) (r : Re) (b : List UInt8) : List (Nat × Nat) :=
  if hasRE2 t && useRE2 t b.length then E.re2 r b else E.grafana r b

/-- `FindAllIndex` as a choice between the two engines' own results for the same call (`g`, `r2`): the wrapper adds
    nothing of its own — no splitting, no re-compilation in another mode, no post-processing — at any input size -/
def hybridSelect {α : Type} (t : Int) (inputLen : Nat) (g r2 : α) : α :=
  if hasRE2 t && useRE2 t inputLen then r2 else g

/-- which engine `FindAllIndex` runs: `true` = go-re2 -/
def dispatch (t : Int) (inputLen : Nat) : Bool := hasRE2 t && useRE2 t inputLen

/-- `newRegexpMatchTree`: the pattern text handed to the engines for a query regexp printed as `printed`:
    `(?i)` is prepended iff the query is not case sensitive.  It depends on the query alone — not on the threshold, not
    on earlier searches of the process. -/
def compiledPattern (caseSensitive : Bool) (printed : List UInt8) : List UInt8 :=
  (if caseSensitive then [] else [40, 63, 105, 41]) ++ printed

/-- the regexps of the match tree for one query: the grafana/regexp one, and the hybrid one for content queries only -/
def matchTreePatterns (caseSensitive fileName : Bool) (printed : List UInt8) : List UInt8 × Option (List UInt8) :=
  (compiledPattern caseSensitive printed, if fileName then none else some (compiledPattern caseSensitive printed))

structure Candidate where
  byteOffset : Nat
  byteMatchSz : Nat
  fileName : Bool
  deriving Repr, DecidableEq

/-- `regexpMatchTree.matches`: the candidate matches produced for one document (`data` = content or file name) -/
def regexpMatches (E : Engines) (t : Int) (r : Re) (fileName : Bool) (data : List UInt8) : List Candidate :=
  let idxs := if fileName then E.grafana r data else hybridFindAll E t r data
  idxs.map fun (a, b) => ⟨a, b - a, fileName⟩

end ZoektModel.C28
