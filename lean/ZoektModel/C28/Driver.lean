import ZoektModel.Basic.Proto
namespace ZoektModel.C28
/-- stub: no model driver for C28 yet -/
def main : IO Unit := ZoektModel.Proto.runLines (fun _ => ZoektModel.Proto.badCase "no model driver for C28")
end ZoektModel.C28
