import ZoektModel.Basic.Proto
import ZoektModel.C28.Spec
import ZoektModel.C27.Wire
namespace ZoektModel.C28
open ZoektModel ZoektModel.Proto ZoektModel.Regex ZoektModel.Regex.Wire

def stripPrefix? (p s : String) : Option String :=
  if s.startsWith p then some (s.drop p.length).toString else none

def parseFaImpl (s : String) : Option (List (Nat × Nat) × List (Nat × Nat)) :=
  match fields s with
  | [a, b] => do
    let g ← parseSpans (← stripPrefix? "g=" a)
    let r ← parseSpans (← stripPrefix? "r=" b)
    pure (g, r)
  | _ => none

def envValOf (s : String) : Option (Option (List Char)) :=
  if s == "unset" then some none else
  match hexToBytes? s with
  | some bs => some (some (bs.map fun b => Char.ofNat b.toNat))
  | none => none

/--
ops
  `thr <unset|hex of the value>`   → `threshold()`
  `disp <t> <len>`                 → `re2` | `grafana`: the engine `FindAllIndex` runs under threshold `t` for `len` input bytes
  `pat <caseSensitive> <fileName> <printed hex>` → `g=<hex> h=<hex|none>`: the regexps newRegexpMatchTree evaluates for the query — asked
                                     in long in-process sequences that repeat a regexp with other case / file-name settings under every threshold
  `hyb <t> <len> g=<digest> r=<digest>` → the digest of what `hybridre2.FindAllIndex` must return for an input of `len` bytes under
                                     threshold `t`, given the digests of the two engines' own results for the same call
  `fa <tree> <orbits> <subject>`   → spec only: spans of both engines (rune indices) admissible for the tree and equal
-/
def handle (line : String) : String :=
  let (inp, impl) := splitCase line
  match fields inp with
  | ["thr", v] =>
    match envValOf v with
    | some ev => answer (toString (thresholdOf ev))
    | none => badCase "thr value"
  | ["disp", t, n] =>
    match t.toInt?, n.toNat? with
    | some t, some n => answer (if dispatch t n then "re2" else "grafana")
    | _, _ => badCase "disp fields"
  | ["pat", cs, fn, printed] =>
    match bool? cs, bool? fn, hexToBytes? printed with
    | some cs, some fn, some pr =>
      let (g, h) := matchTreePatterns cs fn pr
      answer s!"g={bytesToHex g} h={match h with | some x => bytesToHex x | none => "none"}"
    | _, _, _ => badCase "pat fields"
  | ["hyb", t, n, g, r2] =>
    match t.toInt?, n.toNat?, stripPrefix? "g=" g, stripPrefix? "r=" r2 with
    | some t, some n, some g, some r2 => answer (hybridSelect t n g r2)
    | _, _, _, _ => badCase "hyb fields"
  | ["fa", t, orb, subj] =>
    match parseTree t, parseOrbits orb, parseNats subj, parseFaImpl impl with
    | some r, some tab, some s, some (g, r2) =>
      match checkEngines (envOf tab) s.toArray r g r2 with
      | none => answer impl
      | some key => specFail impl key
    | _, _, _, _ => badCase "fa fields"
  | _ => badCase "op"

def main : IO Unit := runLines handle
end ZoektModel.C28
