/-
C26 — the property as executable predicates, written from the statement:
 (1) "decode every encoded value back to an equal value"      → `checkRoundTripP`
 (2) "decoding arbitrary bytes returns a value or an error without panicking or allocating unboundedly"
                                                               → `checkDecodeP` (on the implementation, measured bytes)
                                                                 `TotalP` (on the model, ghost counters)
-/
import ZoektModel.C26.Model
namespace ZoektModel.C26

/-- allowance for the real decoders: bytes allocated ≤ `allocSlope * len + allocSlack` (Go map buckets and slice
    headers cost a few dozen bytes per declared element; the slack covers fixed costs of roaring and the runtime) -/
def allocSlope : Nat := 512
def allocSlack : Nat := 65536

/-- clause (2) evaluated on the implementation: `cls` is the observed outcome class
    (`ok`/`err`/`panic`/`diverge`/`oom`), `allocBytes` the heap bytes allocated during the call -/
def checkDecodeP (len : Nat) (cls : String) (allocBytes : Nat) : Bool :=
  (cls == "ok" || cls == "err") && decide (allocBytes ≤ allocSlope * len + allocSlack)

/-- clause (2) on the model: a normal return (value or error), with allocation and running time linear in the input -/
def TotalP {α} (len : Nat) (o : Outcome (Ret α)) : Prop :=
  ∃ r, o = .ok r ∧ r.alloc ≤ 4 * len ∧ r.steps ≤ 2 * len

/-- the value a decoder returned (`none`: it returned an error, or did not return normally) -/
def decoded {α} : Outcome (Ret α) → Option α
  | .ok r => r.val
  | _ => none

/-- clause (1): the decoded value, in canonical rendering, is the original (nil and empty collections identified) -/
def normEmpty (s : String) : String := if s == "nil" then "-" else s

def checkRoundTripP (orig decoded : String) : Bool :=
  decoded == "ok " ++ orig || (decoded.startsWith "ok " && normEmpty (decoded.drop 3).toString == normEmpty orig)

/-- clause (1) over a *history* of calls: the codecs are functions of their argument — an encoding handed out by an
    earlier call still decodes to the value it was made from after any number of later encode / decode calls (the
    result does not alias state that later calls reuse), and a decoded value is unaffected by later calls and by the
    caller overwriting its input buffer. `final` is the rendering of the retained result at the end of the history,
    `fresh` the rendering of the same operation carried out on its own. -/
def checkHistoryStepP (fresh final : String) : Bool := fresh == final

end ZoektModel.C26
