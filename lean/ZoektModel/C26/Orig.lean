/-
C26 — the decoders as they were *before* the `fix:` commit (marshal.go / query/marshal.go at the snapshot):
`str` only checked `l > len(b)`, counts were used unchecked. Kept to state, as theorems, why the property's totality
clause was false on that code (Props/C26.lean: `orig_*`); the witnesses are replayed against the real code from
corpus/C26/. Not used by the driver.
-/
import ZoektModel.C26.Model
namespace ZoektModel.C26
open ZoektModel

/-- `binaryReader.str` before the fix: a negative length passes the check and reaches the slice expression -/
def Reader.strOrig (r : Reader) : Outcome (Bytes × Reader) :=
  let l := r.uvarint.1
  let r := r.uvarint.2
  if l > (r.b.length : Int) then .ok ([], r.fail)
  else do
    let s ← sliceTo r.b l
    let rest ← sliceFrom r.b l
    pure (s, { r with b := rest })

def strLoopOrig : Nat → Reader → List Bytes → Outcome (List Bytes × Reader)
  | 0, r, acc => .ok (acc, r)
  | n + 1, r, acc => do
    let sr ← r.strOrig
    strLoopOrig n (sr.2.tick.charge 1) (setInsert acc sr.1)

/-- `stringSetDecode` before the fix: `make(map, l)` and `for range l` with `l` straight from the input
    (a negative `l` allocates nothing and loops zero times) -/
def stringSetDecodeOrig (b : Bytes) : Outcome (Ret (List Bytes)) :=
  let r := Reader.init b
  let v := r.byt.1
  let r := r.byt.2
  if v ≠ 1 then .ok (r.ret none)
  else
    let l := r.uvarint.1
    let r := r.uvarint.2
    do
      let sr ← strLoopOrig l.toNat (r.charge l.toNat) []
      pure (sr.2.ret (if sr.2.err then none else some sr.1))

end ZoektModel.C26
