/-
C26 — the decoders as they were *before* the `fix:` commit (marshal.go / query/marshal.go at the snapshot):
`str` only checked `l > len(b)`, counts were used unchecked. Kept to state, as theorems, why the property's totality
clause was false on that code (Props/C26.lean: `orig_*`); the witnesses are replayed against the real code from
corpus/C26/. Not used by the driver.
-/
import ZoektModel.C26.Model
namespace ZoektModel.C26
open ZoektModel

/-- `binaryReader.str` before the fix: a negative length passes the check and reaches the slice expression -/
def Reader.strOrig (r : Reader) : Outcome (Bytes × Reader) :=
  let l := r.uvarint.1
  let r := r.uvarint.2
  if l > (r.b.length : Int) then .ok ([], r.fail)
  else do
    let s ← sliceTo r.b l
    let rest ← sliceFrom r.b l
    pure (s, { r with b := rest })

def strLoopOrig : Nat → Reader → List Bytes → Outcome (List Bytes × Reader)
  | 0, r, acc => .ok (acc, r)
  | n + 1, r, acc => do
    let sr ← r.strOrig
    strLoopOrig n (sr.2.tick.charge 1) (setInsert acc sr.1)

/-- `stringSetDecode` before the fix: `make(map, l)` and `for range l` with `l` straight from the input
    (a negative `l` allocates nothing and loops zero times) -/
def stringSetDecodeOrig (b : Bytes) : Outcome (Ret (List Bytes)) :=
  let r := Reader.init b
  let v := r.byt.1
  let r := r.byt.2
  if v ≠ 1 then .ok (r.ret none)
  else
    let l := r.uvarint.1
    let r := r.uvarint.2
    do
      let sr ← strLoopOrig l.toNat (r.charge l.toNat) []
      pure (sr.2.ret (if sr.2.err then none else some sr.1))

/-- Go `make([]T, n)` / `make([]T, 0, n)` for an element size in bytes: a run-time panic when `n` is negative or
    `n * size` exceeds the address space (`maxAlloc` = 2^48 on amd64); otherwise the allocation is attempted
    (and, for the sizes just below that, kills the process: "out of memory") -/
def makeSlice (n : Int) (elemSize : Nat) : Outcome Unit :=
  if n < 0 ∨ n * elemSize > 2 ^ 48 then .panic "makeslice: len out of range" else .ok ()

/-- `binaryReader.bitmap` before the fix: `_, b.err = r.FromBuffer(...)` — the result of *this* parse replaces
    whatever error the reader had -/
def Reader.bitmapOrig {β} (parse : Bytes → Option β) (r : Reader) : Outcome (Option (Option β) × Reader) :=
  let l := r.uvarint.1
  let r := r.uvarint.2
  if l > (r.b.length : Int) then .ok (none, r.fail)
  else do
    let s ← sliceTo r.b l
    let rest ← sliceFrom r.b l
    match parse s with
    | some m => pure (some (some m), { r with b := rest, err := false })
    | none => pure (some none, { r with b := rest, err := true })

def brLoopOrig {β} (parse : Bytes → Option β) : Nat → Reader → List (Bytes × Option (Option β)) →
    Outcome (List (Bytes × Option (Option β)) × Reader)
  | 0, r, acc => .ok (acc, r)
  | n + 1, r, acc => do
    let sr ← r.strOrig
    let mr ← sr.2.bitmapOrig parse
    brLoopOrig parse n mr.2.tick (acc ++ [(sr.1, mr.1)])

/-- `branchesReposDecode` before the fix (`BranchRepos` is 24 bytes: string header + pointer) -/
def branchesReposDecodeOrig {β} (parse : Bytes → Option β) (b : Bytes) :
    Outcome (Ret (List (Bytes × Option (Option β)))) :=
  let r := Reader.init b
  let v := r.byt.1
  let r := r.byt.2
  if v ≠ 1 then .ok (r.ret none)
  else
    let l := r.uvarint.1
    let r := r.uvarint.2
    do
      makeSlice l 24
      let sr ← brLoopOrig parse l.toNat (r.charge l.toNat) []
      pure (sr.2.ret (if sr.2.err then none else some sr.1))

def branchLoopOrig : Nat → Reader → List (Bytes × Bytes) → Outcome (List (Bytes × Bytes) × Reader)
  | 0, r, acc => .ok (acc, r)
  | n + 1, r, acc => do
    let nr ← r.strOrig
    let vr ← nr.2.strOrig
    branchLoopOrig n vr.2.tick (acc ++ [(nr.1, vr.1)])

def entryLoopOrig (readIndexTime : Bool) : Nat → Reader → List (Bytes × Bytes) → RMap → Outcome (RMap × Reader)
  | 0, r, _, m => .ok (m, r)
  | n + 1, r, all, m =>
    let h := (readEntryHead readIndexTime r).1
    let r := (readEntryHead readIndexTime r).2
    do
      let ar ← branchLoopOrig h.lb.toNat r all
      let branches ← sliceFrom ar.1 ((ar.1.length : Int) - h.lb)
      entryLoopOrig readIndexTime n (ar.2.tick.charge 1) ar.1
        (mapInsert m (h.repoID % 4294967296).toNat ⟨h.hasSymbols, branches, h.indexTime⟩)

/-- `reposMapDecode` before the fix (`RepositoryBranch` is 32 bytes) -/
def reposMapDecodeOrig (b : Bytes) : Outcome (Ret (Option RMap)) :=
  if b.length = 0 then .ok ⟨some none, 0, 0⟩
  else
    let r := Reader.init b
    let v := r.byt.1
    let r := r.byt.2
    if v ≠ 1 ∧ v ≠ 2 then .ok (r.ret none)
    else
      let l := r.uvarint.1
      let r := (r.uvarint.2).charge l.toNat
      let abl := r.uvarint.1
      let r := r.uvarint.2
      do
        makeSlice abl 32
        let mr ← entryLoopOrig (v == 2) l.toNat (r.charge abl.toNat) [] []
        pure (mr.2.ret (if mr.2.err then none else some (some mr.1)))

end ZoektModel.C26
