/-
C26 — model of the compact binary codecs: `binaryReader` (marshal.go and query/marshal.go, two copies of the same
reader), `reposMapEncode/Decode` (marshal.go), `branchesReposEncode/Decode` and `stringSetEncode/Decode`
(query/marshal.go), and of `encoding/binary`'s `PutUvarint` / `Uvarint` on which they rest.

The model follows the code *after* the `fix:` commit that bounds every length and count read from the input
(the code before that commit is modelled in `Orig.lean`, where the failure of totality is proved on witnesses).

Conventions
* Go `int` values are `Int`; `uint64` values are `Nat`; `toInt` is the conversion `int(x)` (two's complement).
* Every Go slice expression is explicit (`sliceTo`, `sliceFrom`) and yields `Outcome.panic` when out of range,
  so "does not panic" is a theorem about the model, not a convention.
* A normal Go return `(value, err)` is `Outcome.ok (Ret …)` with `val = none` when `err != nil`; `Outcome.panic`
  is a run-time panic.  `Outcome.err`/`diverge` are not produced by this model: every loop is a `for range n`
  with `n` checked against the remaining input first, so the recursion is structural on that count.
* Ghost counters: `alloc` counts elements/bytes requested from the allocator by the decoder itself
  (`slices.Clone`, `make(map, n)`, `make([]T, n)`, `make([]T, 0, n)`, map insertions, `append`),
  `steps` counts loop iterations.  Allocation *inside* roaring's `FromBuffer` is not counted (parameter `parse`).
* Maps are association lists in insertion order with Go's overwrite semantics (`setInsert`, `mapInsert`); the
  iteration order of a Go map is arbitrary, so encoders take the list of entries in the order iterated.
* roaring bitmaps are abstract: the codec is parameterised by `parse : Bytes → Option β` (`FromBuffer`, `none` =
  error) and, for encoding, by the serialised form of each bitmap.
-/
import ZoektModel.Basic.Bytes
import ZoektModel.Basic.Outcome
namespace ZoektModel.C26
open ZoektModel

/-! ## encoding/binary varints -/

/-- `binary.PutUvarint(buf, x)`: the bytes written (`byte(x)|0x80` is `x % 128 + 128`). -/
def putUvarint (x : Nat) : Bytes :=
  if h : x < 128 then [UInt8.ofNat x] else UInt8.ofNat (x % 128 + 128) :: putUvarint (x / 128)
termination_by x
decreasing_by omega

/-- the loop of `binary.Uvarint`: `i` = index of the byte looked at, `x` = accumulator, `s` = shift.
    Result `(value, n)` as in Go: `n > 0` bytes read, `n = 0` buffer too small, `n < 0` overflow.
    (`x | uint64(b&0x7f)<<s` is written `x + (b % 128) * 2^s`: the bit ranges are disjoint.) -/
def uvarintGo : Bytes → Nat → Nat → Nat → Nat × Int
  | [], _, _, _ => (0, 0)
  | b :: rest, i, x, s =>
    if i = 10 then (0, -((i : Int) + 1))
    else if b.toNat < 128 then
      if i = 9 ∧ b.toNat > 1 then (0, -((i : Int) + 1))
      else (x + b.toNat * 2 ^ s, (i : Int) + 1)
    else uvarintGo rest (i + 1) (x + (b.toNat % 128) * 2 ^ s) (s + 7)

def uvarintRaw (b : Bytes) : Nat × Int := uvarintGo b 0 0 0

/-- Go `int(x)` for `x : uint64` -/
def toInt (x : Nat) : Int := if x < 2 ^ 63 then (x : Int) else (x : Int) - 2 ^ 64

/-- Go `uint64(n)` for `n : int` -/
def toU64 (n : Int) : Nat := (n % 2 ^ 64).toNat

/-! ## slices -/

/-- Go `b[:l]` -/
def sliceTo {α} (b : List α) (l : Int) : Outcome (List α) :=
  if 0 ≤ l ∧ l ≤ (b.length : Int) then .ok (b.take l.toNat) else .panic "slice bounds out of range [:l]"

/-- Go `b[l:]` -/
def sliceFrom {α} (b : List α) (l : Int) : Outcome (List α) :=
  if 0 ≤ l ∧ l ≤ (b.length : Int) then .ok (b.drop l.toNat) else .panic "slice bounds out of range [l:]"

/-! ## binaryReader -/

structure Reader where
  b : Bytes
  err : Bool
  alloc : Nat
  steps : Nat
  deriving Repr, DecidableEq

/-- `b.b = nil; b.err = malformed` -/
def Reader.fail (r : Reader) : Reader := { r with b := [], err := true }
def Reader.charge (r : Reader) (n : Nat) : Reader := { r with alloc := r.alloc + n }
def Reader.tick (r : Reader) : Reader := { r with steps := r.steps + 1 }

/-- `binaryReader.uvarint`: only overflow (`n < 0`) is an error; a truncated varint (`n = 0`) yields 0 and
    consumes nothing. -/
def Reader.uvarint (r : Reader) : Int × Reader :=
  if (uvarintRaw r.b).2 < 0 then (0, r.fail)
  else (toInt (uvarintRaw r.b).1, { r with b := r.b.drop (uvarintRaw r.b).2.toNat })

/-- `binaryReader.byt` -/
def Reader.byt (r : Reader) : UInt8 × Reader :=
  match r.b with
  | [] => (0, r.fail)
  | x :: t => (x, { r with b := t })

/-- `binaryReader.str` (with the `l < 0` guard of the fix) -/
def Reader.str (r : Reader) : Outcome (Bytes × Reader) :=
  let l := r.uvarint.1
  let r := r.uvarint.2
  if l < 0 ∨ l > (r.b.length : Int) then .ok ([], r.fail)
  else do
    let s ← sliceTo r.b l
    let rest ← sliceFrom r.b l
    pure (s, { r with b := rest })

/-- `binaryReader.bitmap` (query/marshal.go): `parse` is roaring's `FromBuffer` (`none` = error). Result `none` is
    the nil pointer returned for a bad length, `some none` the (unusable) bitmap left behind by a failed parse,
    `some (some m)` a parsed bitmap. A parse error sets the reader's error; after the fix a later successful
    parse no longer clears it. -/
def Reader.bitmap {β} (parse : Bytes → Option β) (r : Reader) : Outcome (Option (Option β) × Reader) :=
  let l := r.uvarint.1
  let r := r.uvarint.2
  if l < 0 ∨ l > (r.b.length : Int) then .ok (none, r.fail)
  else do
    let s ← sliceTo r.b l
    let rest ← sliceFrom r.b l
    match parse s with
    | some m => pure (some (some m), { r with b := rest })
    | none => pure (some none, { r with b := rest, err := true })

/-- a normal Go return of a decoder: `val = none` iff the returned error is non-nil -/
structure Ret (α : Type) where
  val : Option α
  alloc : Nat
  steps : Nat
  deriving Repr, DecidableEq

def Reader.ret {α} (r : Reader) (v : Option α) : Ret α := ⟨v, r.alloc, r.steps⟩

/-- a reader over a private copy of the input (`slices.Clone(b)` / `append(make([]byte,0,len(b)), b...)`) -/
def Reader.init (b : Bytes) : Reader := { b := b, err := false, alloc := b.length, steps := 0 }

/-! ## FileNameSet: stringSetEncode / stringSetDecode -/

def encStr (s : Bytes) : Bytes := putUvarint s.length ++ s

/-- `stringSetEncode` for a map whose `range` yields `ks` in this order -/
def stringSetEncode (ks : List Bytes) : Bytes :=
  1 :: (putUvarint ks.length ++ ks.flatMap encStr)

/-- `set[k] = struct{}{}` -/
def setInsert (acc : List Bytes) (k : Bytes) : List Bytes := if acc.contains k then acc else acc ++ [k]

def strLoop : Nat → Reader → List Bytes → Outcome (List Bytes × Reader)
  | 0, r, acc => .ok (acc, r)
  | n + 1, r, acc => do
    let sr ← r.str
    strLoop n (sr.2.tick.charge 1) (setInsert acc sr.1)

def stringSetDecode (b : Bytes) : Outcome (Ret (List Bytes)) :=
  let r := Reader.init b
  let v := r.byt.1
  let r := r.byt.2
  if v ≠ 1 then .ok (r.ret none)
  else
    let l := r.uvarint.1
    let r := r.uvarint.2
    if l < 0 ∨ l > (r.b.length : Int) then .ok (r.ret none)
    else do
      let sr ← strLoop l.toNat (r.charge l.toNat) []
      pure (sr.2.ret (if sr.2.err then none else some sr.1))

/-! ## BranchesRepos: branchesReposEncode / branchesReposDecode -/

/-- `branchesReposEncode`; each entry is (branch name, serialised bitmap). `GetSerializedSizeInBytes` is the
    length of what `WriteTo` writes (checked by the encoder itself: `io.ErrShortWrite` otherwise). -/
def branchesReposEncode (brs : List (Bytes × Bytes)) : Bytes :=
  1 :: (putUvarint brs.length ++ brs.flatMap fun br => encStr br.1 ++ encStr br.2)

def brLoop {β} (parse : Bytes → Option β) : Nat → Reader → List (Bytes × Option (Option β)) →
    Outcome (List (Bytes × Option (Option β)) × Reader)
  | 0, r, acc => .ok (acc, r)
  | n + 1, r, acc => do
    let sr ← r.str
    let mr ← sr.2.bitmap parse
    brLoop parse n mr.2.tick (acc ++ [(sr.1, mr.1)])

def branchesReposDecode {β} (parse : Bytes → Option β) (b : Bytes) :
    Outcome (Ret (List (Bytes × Option (Option β)))) :=
  let r := Reader.init b
  let v := r.byt.1
  let r := r.byt.2
  if v ≠ 1 then .ok (r.ret none)
  else
    let l := r.uvarint.1
    let r := r.uvarint.2
    if l < 0 ∨ l > (r.b.length : Int) then .ok (r.ret none)
    else do
      let sr ← brLoop parse l.toNat (r.charge l.toNat) []
      pure (sr.2.ret (if sr.2.err then none else some sr.1))

/-! ## ReposMap: reposMapEncode / reposMapDecode -/

structure Entry where
  hasSymbols : Bool
  branches : List (Bytes × Bytes)   -- (Name, Version)
  indexTime : Int                   -- int64
  deriving Repr, DecidableEq

abbrev RMap := List (Nat × Entry)   -- keys are uint32

def encBranch (nv : Bytes × Bytes) : Bytes := encStr nv.1 ++ encStr nv.2

def encEntry (ke : Nat × Entry) : Bytes :=
  putUvarint ke.1 ++ [if ke.2.hasSymbols then 1 else 0] ++ putUvarint (toU64 ke.2.indexTime) ++
    putUvarint ke.2.branches.length ++ ke.2.branches.flatMap encBranch

def totalBranches (m : RMap) : Nat := (m.map fun ke => ke.2.branches.length).sum

/-- `reposMapEncode`; `none` is the nil map (encoded as no bytes at all) -/
def reposMapEncode : Option RMap → Bytes
  | none => []
  | some m => 2 :: (putUvarint m.length ++ putUvarint (totalBranches m) ++ m.flatMap encEntry)

/-- `m[k] = v` -/
def mapInsert (m : RMap) (k : Nat) (v : Entry) : RMap :=
  if m.any (fun p => p.1 == k) then m.map (fun p => if p.1 == k then (k, v) else p) else m ++ [(k, v)]

def branchLoop : Nat → Reader → List (Bytes × Bytes) → Outcome (List (Bytes × Bytes) × Reader)
  | 0, r, acc => .ok (acc, r)
  | n + 1, r, acc => do
    let nr ← r.str
    let vr ← nr.2.str
    branchLoop n vr.2.tick (acc ++ [(nr.1, vr.1)])

/-- what `reposMapDecode` reads at the start of one entry: repoID, HasSymbols, IndexTimeUnix (version 2 only) and
    the entry's branch count -/
structure EntryHead where
  repoID : Int
  hasSymbols : Bool
  indexTime : Int
  lb : Int

def readEntryHead (readIndexTime : Bool) (r : Reader) : EntryHead × Reader :=
  let repoID := r.uvarint.1
  let r := r.uvarint.2
  let hs := r.byt.1 == 1
  let r := r.byt.2
  let t := if readIndexTime then r.uvarint.1 else 0
  let r := if readIndexTime then r.uvarint.2 else r
  (⟨repoID, hs, t, r.uvarint.1⟩, r.uvarint.2)

/-- the `for range l` loop of `reposMapDecode`; `cap` is `cap(allBranches)` (= the declared total), `all` the
    branches appended so far. `none` = `return nil, malformed`. -/
def entryLoop (readIndexTime : Bool) (cap : Nat) : Nat → Reader → List (Bytes × Bytes) → RMap →
    Outcome (Option RMap × Reader)
  | 0, r, _, m => .ok (some m, r)
  | n + 1, r, all, m =>
    let h := (readEntryHead readIndexTime r).1
    let r := (readEntryHead readIndexTime r).2
    if h.lb < 0 ∨ h.lb > (cap : Int) - (all.length : Int) then .ok (none, r)
    else do
      let ar ← branchLoop h.lb.toNat r all
      let branches ← sliceFrom ar.1 ((ar.1.length : Int) - h.lb)
      entryLoop readIndexTime cap n (ar.2.tick.charge 1) ar.1
        (mapInsert m (h.repoID % 4294967296).toNat ⟨h.hasSymbols, branches, h.indexTime⟩)

/-- `reposMapDecode`; the value `some none` is the nil map returned for empty input -/
def reposMapDecode (b : Bytes) : Outcome (Ret (Option RMap)) :=
  if b.length = 0 then .ok ⟨some none, 0, 0⟩
  else
    let r := Reader.init b
    let v := r.byt.1
    let r := r.byt.2
    if v ≠ 1 ∧ v ≠ 2 then .ok (r.ret none)
    else
      let l := r.uvarint.1
      let r := r.uvarint.2
      if l < 0 ∨ l > (r.b.length : Int) then .ok (r.ret none)
      else
        let r := r.charge l.toNat
        let abl := r.uvarint.1
        let r := r.uvarint.2
        if abl < 0 ∨ abl > (r.b.length : Int) then .ok (r.ret none)
        else do
          let mr ← entryLoop (v == 2) abl.toNat l.toNat (r.charge abl.toNat) [] []
          match mr.1 with
          | none => pure (mr.2.ret none)
          | some m => pure (mr.2.ret (if mr.2.err then none else some (some m)))

end ZoektModel.C26
