/-
C26 — helper lemmas: varint round trip, reader primitives on encoded input, ghost-counter bookkeeping.
-/
import ZoektModel.C26.Spec
import ZoektModel.C26.Orig
namespace ZoektModel.C26
open ZoektModel

/-! ### varints -/

theorem putUvarint_length_pos (x : Nat) : 0 < (putUvarint x).length := by
  unfold putUvarint
  split <;> simp

theorem uvarintGo_put (x : Nat) : ∀ (rest : Bytes) (i acc s : Nat), i ≤ 9 → s = 7 * i → x * 2 ^ s < 2 ^ 64 →
    uvarintGo (putUvarint x ++ rest) i acc s = (acc + x * 2 ^ s, (i : Int) + ((putUvarint x).length : Int)) := by
  induction x using Nat.strongRecOn with
  | ind x ih =>
    intro rest i acc s hi hs hx
    unfold putUvarint
    split
    · rename_i hlt
      have hb : (UInt8.ofNat x).toNat = x := by
        simp [UInt8.toNat_ofNat']; omega
      simp only [List.cons_append, List.nil_append, uvarintGo, hb]
      have h10 : i ≠ 10 := by omega
      simp only [h10, if_false, hlt, if_true]
      have h9 : ¬ (i = 9 ∧ x > 1) := by
        rintro ⟨h9, h1⟩
        subst h9; subst hs
        have : x * 2 ^ 63 < 2 * 2 ^ 63 := by simpa using hx
        have := Nat.lt_of_mul_lt_mul_right this
        omega
      simp [h9]
    · rename_i hge
      have hb : (UInt8.ofNat (x % 128 + 128)).toNat = x % 128 + 128 := by
        simp [UInt8.toNat_ofNat']; omega
      simp only [List.cons_append, uvarintGo, hb]
      have h10 : i ≠ 10 := by omega
      have hnl : ¬ (x % 128 + 128 < 128) := by omega
      simp only [h10, if_false, hnl]
      have hi8 : i ≤ 8 := by
        rcases Nat.lt_or_ge i 9 with h | h
        · omega
        · have h9 : i = 9 := by omega
          subst h9; subst hs
          have : x * 2 ^ 63 < 2 * 2 ^ 63 := by simpa using hx
          have := Nat.lt_of_mul_lt_mul_right this
          omega
      have hp : 2 ^ (s + 7) = 128 * 2 ^ s := by rw [Nat.pow_add]; simp [Nat.mul_comm]
      have hdm : x / 128 * 128 ≤ x := Nat.div_mul_le_self x 128
      have hx' : x / 128 * 2 ^ (s + 7) < 2 ^ 64 := by
        rw [hp]
        calc x / 128 * (128 * 2 ^ s) = (x / 128 * 128) * 2 ^ s := by rw [Nat.mul_assoc]
          _ ≤ x * 2 ^ s := Nat.mul_le_mul_right _ hdm
          _ < 2 ^ 64 := hx
      rw [ih (x / 128) (by omega) rest (i + 1) _ (s + 7) (by omega) (by omega) hx']
      have hmod : (x % 128 + 128) % 128 = x % 128 := by omega
      have hsum : x % 128 * 2 ^ s + x / 128 * 2 ^ (s + 7) = x * 2 ^ s := by
        rw [hp, ← Nat.mul_assoc, ← Nat.add_mul]
        congr 1
        omega
      simp only [hmod, List.length_cons]
      refine Prod.ext ?_ ?_
      · show acc + x % 128 * 2 ^ s + x / 128 * 2 ^ (s + 7) = acc + x * 2 ^ s
        rw [Nat.add_assoc, hsum]
      · show ((i + 1 : Nat) : Int) + ((putUvarint (x / 128)).length : Int) = (i : Int) + (((putUvarint (x / 128)).length + 1 : Nat) : Int)
        omega

theorem uvarintRaw_put (x : Nat) (hx : x < 2 ^ 64) (rest : Bytes) :
    uvarintRaw (putUvarint x ++ rest) = (x, ((putUvarint x).length : Int)) := by
  unfold uvarintRaw
  rw [uvarintGo_put x rest 0 0 0 (by omega) (by omega) (by simpa using hx)]
  simp

theorem toInt_small (x : Nat) (h : x < 2 ^ 63) : toInt x = (x : Int) := by
  unfold toInt; simp [h]

theorem toInt_toU64 (t : Int) (h1 : -(2 ^ 63) ≤ t) (h2 : t < 2 ^ 63) : toInt (toU64 t) = t := by
  unfold toInt toU64
  split <;> omega

theorem toU64_lt (t : Int) : toU64 t < 2 ^ 64 := by
  unfold toU64; omega

/-! ### the Outcome monad -/

@[simp] theorem bind_ok {α β} (a : α) (f : α → Outcome β) : (Outcome.ok a >>= f) = f a := rfl
@[simp] theorem pure_eq {α} (a : α) : (pure a : Outcome α) = .ok a := rfl

/-! ### reader primitives: ghost counters and remaining length -/

theorem uvarint_ghost (r : Reader) :
    r.uvarint.2.alloc = r.alloc ∧ r.uvarint.2.steps = r.steps ∧ r.uvarint.2.b.length ≤ r.b.length := by
  unfold Reader.uvarint
  split <;> simp [Reader.fail]

theorem byt_ghost (r : Reader) :
    r.byt.2.alloc = r.alloc ∧ r.byt.2.steps = r.steps ∧ r.byt.2.b.length ≤ r.b.length := by
  unfold Reader.byt
  split <;> simp_all [Reader.fail]

theorem str_ok (r : Reader) :
    ∃ s r', r.str = .ok (s, r') ∧ r'.alloc = r.alloc ∧ r'.steps = r.steps ∧ r'.b.length ≤ r.b.length := by
  obtain ⟨ha, hs, hl⟩ := uvarint_ghost r
  unfold Reader.str
  simp only []
  split
  · exact ⟨[], _, rfl, by simp [Reader.fail, ha], by simp [Reader.fail, hs], by simp [Reader.fail]⟩
  · rename_i h
    have h' : 0 ≤ r.uvarint.1 ∧ r.uvarint.1 ≤ (r.uvarint.2.b.length : Int) := by omega
    simp only [sliceTo, sliceFrom, h', and_self, if_true, bind_ok, pure_eq]
    refine ⟨_, _, rfl, ?_, ?_, ?_⟩ <;> simp [ha, hs]
    omega

theorem bitmap_ok {β} (parse : Bytes → Option β) (r : Reader) :
    ∃ m r', r.bitmap parse = .ok (m, r') ∧ r'.alloc = r.alloc ∧ r'.steps = r.steps ∧ r'.b.length ≤ r.b.length := by
  obtain ⟨ha, hs, hl⟩ := uvarint_ghost r
  unfold Reader.bitmap
  simp only []
  split
  · exact ⟨none, _, rfl, by simp [Reader.fail, ha], by simp [Reader.fail, hs], by simp [Reader.fail]⟩
  · rename_i h
    have h' : 0 ≤ r.uvarint.1 ∧ r.uvarint.1 ≤ (r.uvarint.2.b.length : Int) := by omega
    simp only [sliceTo, sliceFrom, h', and_self, if_true, bind_ok]
    split
    · refine ⟨_, _, rfl, ?_, ?_, ?_⟩ <;> simp [ha, hs]
      omega
    · refine ⟨_, _, rfl, ?_, ?_, ?_⟩ <;> simp [ha, hs]
      omega

theorem readEntryHead_ghost (f : Bool) (r : Reader) :
    (readEntryHead f r).2.alloc = r.alloc ∧ (readEntryHead f r).2.steps = r.steps ∧
    (readEntryHead f r).2.b.length ≤ r.b.length := by
  unfold readEntryHead
  simp only []
  obtain ⟨a1, s1, l1⟩ := uvarint_ghost r
  obtain ⟨a2, s2, l2⟩ := byt_ghost r.uvarint.2
  cases f
  · obtain ⟨a4, s4, l4⟩ := uvarint_ghost r.uvarint.2.byt.2
    simp only [Bool.false_eq_true, if_false]
    exact ⟨by omega, by omega, by omega⟩
  · obtain ⟨a3, s3, l3⟩ := uvarint_ghost r.uvarint.2.byt.2
    obtain ⟨a4, s4, l4⟩ := uvarint_ghost r.uvarint.2.byt.2.uvarint.2
    simp only [if_true]
    exact ⟨by omega, by omega, by omega⟩

/-! ### loops never panic; ghost counters -/

theorem strLoop_total : ∀ (n : Nat) (r : Reader) (acc : List Bytes),
    ∃ res r', strLoop n r acc = .ok (res, r') ∧ r'.alloc = r.alloc + n ∧ r'.steps = r.steps + n := by
  intro n
  induction n with
  | zero => intro r acc; exact ⟨acc, r, rfl, by simp, by simp⟩
  | succ n ih =>
    intro r acc
    obtain ⟨s, r1, h1, ha, hs, _⟩ := str_ok r
    obtain ⟨res, r2, h2, ha2, hs2⟩ := ih (r1.tick.charge 1) (setInsert acc s)
    refine ⟨res, r2, ?_, ?_, ?_⟩
    · simp [strLoop, h1, h2]
    · simp [Reader.tick, Reader.charge] at ha2; omega
    · simp [Reader.tick, Reader.charge] at hs2; omega

theorem brLoop_total {β} (parse : Bytes → Option β) : ∀ (n : Nat) (r : Reader) (acc : List (Bytes × Option (Option β))),
    ∃ res r', brLoop parse n r acc = .ok (res, r') ∧ r'.alloc = r.alloc ∧ r'.steps = r.steps + n := by
  intro n
  induction n with
  | zero => intro r acc; exact ⟨acc, r, rfl, by simp, by simp⟩
  | succ n ih =>
    intro r acc
    obtain ⟨s, r1, h1, ha, hs, _⟩ := str_ok r
    obtain ⟨m, r1', h1', ha', hs', _⟩ := bitmap_ok parse r1
    obtain ⟨res, r2, h2, ha2, hs2⟩ := ih r1'.tick (acc ++ [(s, m)])
    refine ⟨res, r2, ?_, ?_, ?_⟩
    · simp [brLoop, h1, h1', h2]
    · simp [Reader.tick] at ha2; omega
    · simp [Reader.tick] at hs2; omega

theorem branchLoop_total : ∀ (n : Nat) (r : Reader) (acc : List (Bytes × Bytes)),
    ∃ res r', branchLoop n r acc = .ok (res, r') ∧ r'.alloc = r.alloc ∧ r'.steps = r.steps + n ∧
      res.length = acc.length + n := by
  intro n
  induction n with
  | zero => intro r acc; exact ⟨acc, r, rfl, by simp, by simp, by simp⟩
  | succ n ih =>
    intro r acc
    obtain ⟨s, r1, h1, ha, hs, _⟩ := str_ok r
    obtain ⟨v, r1', h1', ha', hs', _⟩ := str_ok r1
    obtain ⟨res, r2, h2, ha2, hs2, hl2⟩ := ih r1'.tick (acc ++ [(s, v)])
    refine ⟨res, r2, ?_, ?_, ?_, ?_⟩
    · simp [branchLoop, h1, h1', h2]
    · simp [Reader.tick] at ha2; omega
    · simp [Reader.tick] at hs2; omega
    · simp at hl2; omega

theorem entryLoop_total (f : Bool) (cap : Nat) : ∀ (n : Nat) (r : Reader) (all : List (Bytes × Bytes)) (m : RMap),
    all.length ≤ cap →
    ∃ res r', entryLoop f cap n r all m = .ok (res, r') ∧ r'.alloc ≤ r.alloc + n ∧
      r'.steps + all.length ≤ r.steps + n + cap := by
  intro n
  induction n with
  | zero => intro r all m h; exact ⟨some m, r, rfl, by simp, by omega⟩
  | succ n ih =>
    intro r all m hcap
    obtain ⟨ga, gs, _⟩ := readEntryHead_ghost f r
    unfold entryLoop
    simp only []
    split
    · exact ⟨none, _, rfl, by omega, by omega⟩
    · rename_i hg
      obtain ⟨all', r1, h1, ha1, hs1, hl1⟩ := branchLoop_total (readEntryHead f r).1.lb.toNat (readEntryHead f r).2 all
      have hlb : 0 ≤ (readEntryHead f r).1.lb ∧ (readEntryHead f r).1.lb ≤ (cap : Int) - (all.length : Int) := by omega
      have hsl : 0 ≤ (all'.length : Int) - (readEntryHead f r).1.lb ∧
          (all'.length : Int) - (readEntryHead f r).1.lb ≤ (all'.length : Int) := by omega
      obtain ⟨res, r2, h2, ha2, hs2⟩ := ih (r1.tick.charge 1) all'
        (mapInsert m ((readEntryHead f r).1.repoID % 4294967296).toNat
          ⟨(readEntryHead f r).1.hasSymbols, all'.drop ((all'.length : Int) - (readEntryHead f r).1.lb).toNat,
            (readEntryHead f r).1.indexTime⟩) (by omega)
      refine ⟨res, r2, ?_, ?_, ?_⟩
      · simp only [h1, bind_ok, sliceFrom, hsl, and_self, if_true]
        exact h2
      · simp [Reader.tick, Reader.charge] at ha2; omega
      · simp [Reader.tick, Reader.charge] at hs2; omega

/-! ### reader primitives on encoded input -/

theorem uvarint_put_raw (x : Nat) (hx : x < 2 ^ 64) (rest : Bytes) (e : Bool) (a s : Nat) :
    Reader.uvarint ⟨putUvarint x ++ rest, e, a, s⟩ = (toInt x, ⟨rest, e, a, s⟩) := by
  unfold Reader.uvarint
  simp only [uvarintRaw_put x hx rest]
  have : ¬ (((putUvarint x).length : Nat) : Int) < 0 := by omega
  simp [this]

theorem uvarint_put (x : Nat) (hx : x < 2 ^ 63) (rest : Bytes) (e : Bool) (a s : Nat) :
    Reader.uvarint ⟨putUvarint x ++ rest, e, a, s⟩ = ((x : Int), ⟨rest, e, a, s⟩) := by
  rw [uvarint_put_raw x (by omega) rest e a s, toInt_small x hx]

theorem str_enc (k : Bytes) (hk : k.length < 2 ^ 63) (rest : Bytes) (e : Bool) (a s : Nat) :
    Reader.str ⟨encStr k ++ rest, e, a, s⟩ = .ok (k, ⟨rest, e, a, s⟩) := by
  unfold Reader.str encStr
  simp only [List.append_assoc, uvarint_put k.length hk]
  have h : ¬ ((k.length : Int) < 0 ∨ (k.length : Int) > ((k ++ rest).length : Int)) := by
    simp; omega
  have h' : 0 ≤ (k.length : Int) ∧ (k.length : Int) ≤ ((k ++ rest).length : Int) := by
    simp; omega
  simp only [h, if_false, sliceTo, sliceFrom, h', and_self, if_true, bind_ok, pure_eq, Int.toNat_natCast,
    List.take_left', List.drop_left']

theorem length_le_flatMap_encStr (ks : List Bytes) : ks.length ≤ (ks.flatMap encStr).length := by
  induction ks with
  | nil => simp
  | cons k ks ih =>
    have := putUvarint_length_pos k.length
    simp only [List.flatMap_cons, List.length_append, List.length_cons, encStr]; omega

theorem setInsert_new (acc : List Bytes) (k : Bytes) (h : k ∉ acc) : setInsert acc k = acc ++ [k] := by
  simp [setInsert, h]

theorem strLoop_enc : ∀ (ks : List Bytes) (rest : Bytes) (acc : List Bytes) (r : Reader),
    r.b = ks.flatMap encStr ++ rest → r.err = false →
    (∀ k ∈ ks, k.length < 2 ^ 63) → (acc ++ ks).Nodup →
    ∃ r', strLoop ks.length r acc = .ok (acc ++ ks, r') ∧ r'.b = rest ∧ r'.err = false := by
  intro ks
  induction ks with
  | nil => intro rest acc r hb he _ _; exact ⟨r, by simp [strLoop], by simpa using hb, he⟩
  | cons k ks ih =>
    intro rest acc r hb he hk hnd
    obtain ⟨b, e, a, s⟩ := r
    simp only at hb he
    subst hb he
    have hnotin : k ∉ acc := by
      intro hm
      exact (List.nodup_append.mp hnd).2.2 k hm k (by simp) rfl
    have hnd' : ((acc ++ [k]) ++ ks).Nodup := by simpa using hnd
    obtain ⟨r', h, hb', he'⟩ := ih rest (acc ++ [k]) ⟨ks.flatMap encStr ++ rest, false, a + 1, s + 1⟩ rfl rfl
      (fun x hx => hk x (by simp [hx])) hnd'
    refine ⟨r', ?_, hb', he'⟩
    simp only [List.length_cons, strLoop, List.flatMap_cons, List.append_assoc,
      str_enc k (hk k (by simp)), bind_ok, setInsert_new acc k hnotin, Reader.tick, Reader.charge]
    simpa using h

/-! ### BranchesRepos on encoded input -/

theorem bitmap_enc {β} (parse : Bytes → Option β) (sb : Bytes) (m : β) (hp : parse sb = some m)
    (hk : sb.length < 2 ^ 63) (rest : Bytes) (e : Bool) (a s : Nat) :
    Reader.bitmap parse ⟨encStr sb ++ rest, e, a, s⟩ = .ok (some (some m), ⟨rest, e, a, s⟩) := by
  unfold Reader.bitmap encStr
  simp only [List.append_assoc, uvarint_put sb.length hk]
  have h : ¬ ((sb.length : Int) < 0 ∨ (sb.length : Int) > ((sb ++ rest).length : Int)) := by
    simp; omega
  have h' : 0 ≤ (sb.length : Int) ∧ (sb.length : Int) ≤ ((sb ++ rest).length : Int) := by
    simp; omega
  simp only [h, if_false, sliceTo, sliceFrom, h', and_self, if_true, bind_ok, pure_eq, Int.toNat_natCast,
    List.take_left', List.drop_left', hp]

def encBr (br : Bytes × Bytes) : Bytes := encStr br.1 ++ encStr br.2

theorem length_le_flatMap_encBr (es : List (Bytes × Bytes)) : es.length ≤ (es.flatMap encBr).length := by
  induction es with
  | nil => simp
  | cons k ks ih =>
    have := putUvarint_length_pos k.1.length
    simp only [List.flatMap_cons, List.length_append, List.length_cons, encBr, encStr]; omega

theorem brLoop_enc {β} (parse : Bytes → Option β) (ser : β → Bytes) (hrt : ∀ m, parse (ser m) = some m) :
    ∀ (brs : List (Bytes × β)) (rest : Bytes) (acc : List (Bytes × Option (Option β))) (r : Reader),
    r.b = (brs.map fun br => (br.1, ser br.2)).flatMap encBr ++ rest → r.err = false →
    (∀ br ∈ brs, br.1.length < 2 ^ 63 ∧ (ser br.2).length < 2 ^ 63) →
    ∃ r', brLoop parse brs.length r acc = .ok (acc ++ brs.map (fun br => (br.1, some (some br.2))), r') ∧
      r'.b = rest ∧ r'.err = false := by
  intro brs
  induction brs with
  | nil => intro rest acc r hb he _; exact ⟨r, by simp [brLoop], by simpa using hb, he⟩
  | cons k ks ih =>
    intro rest acc r hb he hk
    obtain ⟨b, e, a, s⟩ := r
    simp only at hb he
    subst hb he
    obtain ⟨r', h, hb', he'⟩ := ih rest (acc ++ [(k.1, some (some k.2))])
      ⟨(ks.map fun br => (br.1, ser br.2)).flatMap encBr ++ rest, false, a, s + 1⟩ rfl rfl
      (fun x hx => hk x (by simp [hx]))
    refine ⟨r', ?_, hb', he'⟩
    have hk1 := hk k (by simp)
    simp only [List.length_cons, brLoop, List.map_cons, List.flatMap_cons, encBr, List.append_assoc,
      str_enc k.1 hk1.1, bind_ok, bitmap_enc parse (ser k.2) k.2 (hrt k.2) hk1.2, Reader.tick]
    simpa [encBr] using h

/-! ### ReposMap on encoded input -/

def WFEntry (ke : Nat × Entry) : Prop :=
  ke.1 < 2 ^ 32 ∧ -(2 ^ 63) ≤ ke.2.indexTime ∧ ke.2.indexTime < 2 ^ 63 ∧ ke.2.branches.length < 2 ^ 63 ∧
  ∀ nv ∈ ke.2.branches, nv.1.length < 2 ^ 63 ∧ nv.2.length < 2 ^ 63

theorem branchLoop_enc : ∀ (bs : List (Bytes × Bytes)) (rest : Bytes) (acc : List (Bytes × Bytes)) (r : Reader),
    r.b = bs.flatMap encBranch ++ rest → r.err = false →
    (∀ nv ∈ bs, nv.1.length < 2 ^ 63 ∧ nv.2.length < 2 ^ 63) →
    ∃ r', branchLoop bs.length r acc = .ok (acc ++ bs, r') ∧ r'.b = rest ∧ r'.err = false := by
  intro bs
  induction bs with
  | nil => intro rest acc r hb he _; exact ⟨r, by simp [branchLoop], by simpa using hb, he⟩
  | cons k ks ih =>
    intro rest acc r hb he hk
    obtain ⟨b, e, a, s⟩ := r
    simp only at hb he
    subst hb he
    obtain ⟨r', h, hb', he'⟩ := ih rest (acc ++ [k]) ⟨ks.flatMap encBranch ++ rest, false, a, s + 1⟩ rfl rfl
      (fun x hx => hk x (by simp [hx]))
    refine ⟨r', ?_, hb', he'⟩
    have hk1 := hk k (by simp)
    simp only [List.length_cons, branchLoop, List.flatMap_cons, encBranch, List.append_assoc,
      str_enc k.1 hk1.1, bind_ok, str_enc k.2 hk1.2, Reader.tick]
    simpa [encBranch] using h

theorem length_le_flatMap_encBranch (bs : List (Bytes × Bytes)) : bs.length ≤ (bs.flatMap encBranch).length := by
  induction bs with
  | nil => simp
  | cons k ks ih =>
    have := putUvarint_length_pos k.1.length
    simp only [List.flatMap_cons, List.length_append, List.length_cons, encBranch, encStr]; omega

theorem readEntryHead_enc (ke : Nat × Entry) (hwf : WFEntry ke) (rest : Bytes) (e : Bool) (a s : Nat) :
    readEntryHead true ⟨encEntry ke ++ rest, e, a, s⟩ =
      (⟨(ke.1 : Int), ke.2.hasSymbols, ke.2.indexTime, (ke.2.branches.length : Int)⟩,
       ⟨ke.2.branches.flatMap encBranch ++ rest, e, a, s⟩) := by
  obtain ⟨h1, h2, h3, h4, _⟩ := hwf
  unfold readEntryHead encEntry
  have hk : ke.1 < 2 ^ 63 := by omega
  simp only [List.append_assoc, uvarint_put ke.1 hk, List.cons_append, List.nil_append, Reader.byt, if_true,
    uvarint_put_raw (toU64 ke.2.indexTime) (toU64_lt _), toInt_toU64 ke.2.indexTime h2 h3,
    uvarint_put ke.2.branches.length h4]
  cases ke.2.hasSymbols <;> simp

theorem mapInsert_new (m : RMap) (k : Nat) (v : Entry) (h : k ∉ m.map (·.1)) : mapInsert m k v = m ++ [(k, v)] := by
  unfold mapInsert
  have : (m.any fun p => p.1 == k) = false := by
    rw [List.any_eq_false]
    intro p hp heq
    exact h (by simp only [List.mem_map]; exact ⟨p, hp, by simpa using heq⟩)
  simp [this]

theorem totalBranches_cons (ke : Nat × Entry) (es : RMap) :
    totalBranches (ke :: es) = ke.2.branches.length + totalBranches es := by
  simp [totalBranches]

theorem entryLoop_enc (cap : Nat) : ∀ (es : RMap) (rest : Bytes) (all : List (Bytes × Bytes)) (m0 : RMap) (r : Reader),
    r.b = es.flatMap encEntry ++ rest → r.err = false →
    all.length + totalBranches es ≤ cap → (∀ ke ∈ es, WFEntry ke) → ((m0 ++ es).map (·.1)).Nodup →
    ∃ r', entryLoop true cap es.length r all m0 = .ok (some (m0 ++ es), r') ∧ r'.b = rest ∧ r'.err = false := by
  intro es
  induction es with
  | nil => intro rest all m0 r hb he _ _ _; exact ⟨r, by simp [entryLoop], by simpa using hb, he⟩
  | cons ke es ih =>
    intro rest all m0 r hb he hcap hwf hnd
    obtain ⟨b, e, a, s⟩ := r
    simp only at hb he
    subst hb he
    have hw := hwf ke (by simp)
    rw [totalBranches_cons] at hcap
    obtain ⟨ra, hbl, hba, hea⟩ := branchLoop_enc ke.2.branches (es.flatMap encEntry ++ rest) all
      ⟨ke.2.branches.flatMap encBranch ++ (es.flatMap encEntry ++ rest), false, a, s⟩ rfl rfl hw.2.2.2.2
    obtain ⟨b2, e2, a2, s2⟩ := ra
    simp only at hba hea
    subst hba hea
    have hnotin : ke.1 ∉ m0.map (·.1) := by
      intro hm
      have hnd' : (m0.map (·.1) ++ (ke :: es).map (·.1)).Nodup := by simpa using hnd
      exact (List.nodup_append.mp hnd').2.2 ke.1 hm ke.1 (by simp) rfl
    have hnd2 : (((m0 ++ [ke]) ++ es).map (·.1)).Nodup := by simpa using hnd
    obtain ⟨r', h, hb', he'⟩ := ih rest (all ++ ke.2.branches) (m0 ++ [ke])
      ⟨es.flatMap encEntry ++ rest, false, a2 + 1, s2 + 1⟩ rfl rfl (by simp; omega)
      (fun x hx => hwf x (by simp [hx])) hnd2
    refine ⟨r', ?_, hb', he'⟩
    have hguard : ¬ ((ke.2.branches.length : Int) < 0 ∨
        (ke.2.branches.length : Int) > (cap : Int) - (all.length : Int)) := by omega
    have hslice : 0 ≤ ((all ++ ke.2.branches).length : Int) - (ke.2.branches.length : Int) ∧
        ((all ++ ke.2.branches).length : Int) - (ke.2.branches.length : Int) ≤ ((all ++ ke.2.branches).length : Int) := by
      simp; omega
    have hdrop : (((all ++ ke.2.branches).length : Int) - (ke.2.branches.length : Int)).toNat = all.length := by
      simp
    have hkey : (((ke.1 : Nat) : Int) % 4294967296).toNat = ke.1 := by
      have := hw.1; omega
    simp only [List.length_cons, entryLoop, List.flatMap_cons, List.append_assoc, readEntryHead_enc ke hw,
      hguard, if_false, Int.toNat_natCast, hbl, bind_ok, sliceFrom, hslice, and_self, if_true, hdrop,
      List.drop_left', hkey, Reader.tick, Reader.charge]
    rw [mapInsert_new m0 ke.1 _ hnotin]
    simpa using h

theorem totalBranches_le (es : RMap) : totalBranches es ≤ (es.flatMap encEntry).length := by
  induction es with
  | nil => simp [totalBranches]
  | cons ke es ih =>
    rw [totalBranches_cons]
    have := length_le_flatMap_encBranch ke.2.branches
    simp only [List.flatMap_cons, List.length_append, encEntry]
    omega

theorem length_le_flatMap_encEntry (es : RMap) : es.length ≤ (es.flatMap encEntry).length := by
  induction es with
  | nil => simp
  | cons ke es ih =>
    simp only [List.flatMap_cons, List.length_append, List.length_cons, encEntry]
    omega

/-! ### the code before the fix (Orig.lean) -/

theorem putUvarint_length_le : ∀ (k x : Nat), 1 ≤ k → x < 128 ^ k → (putUvarint x).length ≤ k := by
  intro k
  induction k with
  | zero => intro x h; omega
  | succ k ih =>
    intro x _ hx
    unfold putUvarint
    split
    · simp
    · rename_i hge
      have hk : 1 ≤ k := by
        rcases Nat.eq_zero_or_pos k with h | h
        · subst h; simp at hx; omega
        · omega
      have : x / 128 < 128 ^ k := by
        rw [Nat.pow_succ] at hx
        exact Nat.div_lt_of_lt_mul (by rw [Nat.mul_comm]; exact hx)
      have := ih (x / 128) hk this
      simp; omega

theorem strOrig_empty (r : Reader) (h : r.b = []) : r.strOrig = .ok ([], r) := by
  obtain ⟨b, e, a, s⟩ := r
  simp only at h
  subst h
  simp [Reader.strOrig, Reader.uvarint, uvarintRaw, uvarintGo, toInt, sliceTo, sliceFrom]

theorem strLoopOrig_empty : ∀ (n : Nat) (r : Reader) (acc : List Bytes), r.b = [] →
    ∃ res r', strLoopOrig n r acc = .ok (res, r') ∧ r'.steps = r.steps + n ∧ r'.alloc = r.alloc + n ∧ r'.err = r.err := by
  intro n
  induction n with
  | zero => intro r acc _; exact ⟨acc, r, rfl, by simp, by simp, rfl⟩
  | succ n ih =>
    intro r acc hb
    obtain ⟨res, r', h, hs, ha, he⟩ := ih (r.tick.charge 1) (setInsert acc []) (by simpa [Reader.tick, Reader.charge] using hb)
    refine ⟨res, r', ?_, ?_, ?_, ?_⟩
    · simp [strLoopOrig, strOrig_empty r hb, h]
    · simp [Reader.tick, Reader.charge] at hs; omega
    · simp [Reader.tick, Reader.charge] at ha; omega
    · simpa [Reader.tick, Reader.charge] using he
