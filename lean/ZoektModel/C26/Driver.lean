import ZoektModel.Basic.Proto
namespace ZoektModel.C26
/-- stub: no model driver for C26 yet -/
def main : IO Unit := ZoektModel.Proto.runLines (fun _ => ZoektModel.Proto.badCase "no model driver for C26")
end ZoektModel.C26
