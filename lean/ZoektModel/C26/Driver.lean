import ZoektModel.Basic.Proto
import ZoektModel.C26.Spec
namespace ZoektModel.C26
open ZoektModel ZoektModel.Proto

/-! line formats (see harness/cmd/c26/main.go)
  byte string element: `x<hex>`;  lists: `-` when empty
  set      : `x..,x..`                                     (sorted)
  branches : `x<name>/x<version>+…`
  reposmap : `nil` | `-` | `id:hs:time:<branches>;…`        (sorted by id)
  brlist   : `x<name>:<token>;…`                            (in order)
  table    : `k<fnv1a64 of slice>.<len>=<token>,…`  token `E` = roaring parse error, else `h<fnv1a64>.<len>` of the
             parsed bitmap's canonical serialisation
-/

def xhex (b : Bytes) : String := "x" ++ (if b.isEmpty then "" else bytesToHex b)

def unx (s : String) : Option Bytes :=
  if s.startsWith "x" then hexCharsToBytes (s.drop 1).toString.toList else none

def bytesLe : Bytes → Bytes → Bool
  | [], _ => true
  | _ :: _, [] => false
  | a :: as, b :: bs => if a < b then true else if b < a then false else bytesLe as bs

def showSet (l : List Bytes) : String := showList xhex (l.mergeSort bytesLe)

def parseSet (s : String) : Option (List Bytes) :=
  if s == "-" then some [] else (s.splitOn ",").mapM unx

def showBranches (l : List (Bytes × Bytes)) : String :=
  if l.isEmpty then "-" else "+".intercalate (l.map fun nv => xhex nv.1 ++ "/" ++ xhex nv.2)

def parseBranches (s : String) : Option (List (Bytes × Bytes)) :=
  if s == "-" then some [] else
  (s.splitOn "+").mapM fun e =>
    match e.splitOn "/" with
    | [a, b] => do pure (← unx a, ← unx b)
    | _ => none

def showEntry (ke : Nat × Entry) : String :=
  s!"{ke.1}:{if ke.2.hasSymbols then 1 else 0}:{ke.2.indexTime}:{showBranches ke.2.branches}"

def showRMap : Option RMap → String
  | none => "nil"
  | some m => if m.isEmpty then "-" else ";".intercalate ((m.mergeSort fun a b => a.1 ≤ b.1).map showEntry)

def parseRMap (s : String) : Option (Option RMap) :=
  if s == "nil" then some none else if s == "-" then some (some []) else
  (fun x => some x) <$> (s.splitOn ";").mapM fun e =>
    match e.splitOn ":" with
    | [k, h, t, b] => do pure (← k.toNat?, ⟨← bool? h, ← parseBranches b, ← t.toInt?⟩)
    | _ => none

/-- FNV-1a, 64 bit -/
def fnv (b : Bytes) : Nat :=
  b.foldl (fun h x => ((h ^^^ x.toNat) * 1099511628211) % 18446744073709551616) 14695981039346656037

def sliceKey (b : Bytes) : String := s!"k{fnv b}.{b.length}"

def parseTable (s : String) : Option (List (String × String)) :=
  if s == "-" then some [] else
  (s.splitOn ",").mapM fun e =>
    match e.splitOn "=" with
    | [a, b] => some (a, b)
    | _ => none

/-- roaring's `FromBuffer`, as observed by the harness on every slice the reader can reach -/
def tableParse (t : List (String × String)) (s : Bytes) : Option String :=
  let k := sliceKey s
  match t.find? (fun p => p.1 == k) with
  | some (_, tok) => if tok == "E" then none else some tok
  | none => some "MISSING"   -- reported: the harness did not supply this slice

def showBrList (l : List (Bytes × Option (Option String))) : String :=
  if l.isEmpty then "-" else ";".intercalate (l.map fun p =>
    xhex p.1 ++ ":" ++ (match p.2 with | none => "nil" | some none => "bad" | some (some t) => t))

def parseBrEntries (s : String) : Option (List (Bytes × Bytes)) :=
  if s == "-" then some [] else
  (s.splitOn ";").mapM fun e =>
    match e.splitOn ":" with
    | [a, b] => do pure (← unx a, ← unx b)
    | _ => none

def showRet {α} (f : α → String) : Outcome (Ret α) → String
  | .ok ⟨some v, _, _⟩ => "ok " ++ f v
  | .ok ⟨none, _, _⟩ => "err"
  | .panic _ => "panic"
  | .err _ => "err"
  | .diverge => "diverge"

/-- outcome class of an implementation output (`ok …`, `err`, `panic`, `diverge`, `oom`) -/
def implClass (impl : String) : String := (impl.splitOn " ").headD ""

def decodeVerdict (codec : String) (len alloc : Nat) (model impl : String) : String :=
  if checkDecodeP len (implClass impl) alloc then answer model
  else if implClass impl == "ok" || implClass impl == "err" then specFail model s!"alloc-unbounded:{codec}"
  else specFail model s!"decode-not-total:{codec}:{implClass impl}"

/-- reader primitive ops; `m` only for the query package's reader -/
def runOps (t : List (String × String)) : List Char → Reader → List String → Outcome (List String × Reader)
  | [], r, acc => .ok (acc, r)
  | 'u' :: ops, r, acc => runOps t ops r.uvarint.2 (acc ++ [s!"u{r.uvarint.1}"])
  | 'b' :: ops, r, acc => runOps t ops r.byt.2 (acc ++ [s!"b{r.byt.1.toNat}"])
  | 's' :: ops, r, acc =>
    match r.str with
    | .ok (s, r') => runOps t ops r' (acc ++ ["s" ++ (if s.isEmpty then "" else bytesToHex s)])
    | .panic p => .panic p
    | _ => .panic "?"
  | 'm' :: ops, r, acc =>
    match r.bitmap (tableParse t) with
    | .ok (m, r') => runOps t ops r' (acc ++ [if m.isNone then "mnil" else "m"])
    | .panic p => .panic p
    | _ => .panic "?"
  | _ :: _, _, _ => .panic "bad op"

def encField (impl : String) : Option Bytes :=
  match fields impl with
  | e :: _ => if e.startsWith "enc=" then hexToBytes? (e.drop 4).toString else none
  | _ => none

def decField (impl : String) : String :=
  match impl.splitOn " dec=" with
  | [_, d] => d
  | _ => "?"

/-- one step of a history (op `hist`): `kind=arg`; result `(model rendering, spec ok, codec)`.
    Encode steps: `impl` is the hex of the bytes the call returned, *as they are at the end of the history*; they must
    still be an encoding of the value (the map iteration order is recovered from the bytes themselves).
    Decode steps: `impl` is the canonical rendering of the retained value at the end of the history. -/
def histStep (tbl : List (String × String)) (step impl : String) : Option (String × Bool × String) :=
  match step.splitOn "=" with
  | ["ssenc", ks] => do
    let keys ← parseSet ks
    let enc ← hexToBytes? impl
    let dec := stringSetDecode enc
    let order : List Bytes := match dec with | .ok ⟨some l, _, _⟩ => l | _ => []
    let ok := stringSetEncode order == enc && showSet order == showSet keys && order.length == keys.length
    pure (if ok then bytesToHex enc else "NOT-AN-ENCODING-OF-THE-VALUE", checkRoundTripP (showSet keys) (showRet showSet dec), "stringset")
  | ["rmenc", ms] => do
    let m ← parseRMap ms
    let enc ← hexToBytes? impl
    let dec := reposMapDecode enc
    let order : Option RMap := match dec with | .ok ⟨some v, _, _⟩ => v | _ => none
    let ok := reposMapEncode order == enc && showRMap order == showRMap m
    pure (if ok then bytesToHex enc else "NOT-AN-ENCODING-OF-THE-VALUE", checkRoundTripP (showRMap m) (showRet showRMap dec), "reposmap")
  | ["brenc", es] => do
    let entries ← parseBrEntries es
    let enc := branchesReposEncode entries
    let implEnc ← hexToBytes? impl
    let dec := branchesReposDecode (tableParse tbl) implEnc
    let orig := if entries.isEmpty then "-" else ";".intercalate (entries.map fun p =>
      xhex p.1 ++ ":" ++ ((tableParse tbl p.2).getD "E"))
    pure (bytesToHex enc, checkRoundTripP orig (showRet showBrList dec), "branchesrepos")
  | ["ssdec", h] => do
    let b ← hexToBytes? h
    let m := showRet showSet (stringSetDecode b)
    pure (m, checkHistoryStepP m impl, "stringset")
  | ["rmdec", h] => do
    let b ← hexToBytes? h
    let m := showRet showRMap (reposMapDecode b)
    pure (m, checkHistoryStepP m impl, "reposmap")
  | ["brdec", h] => do
    let b ← hexToBytes? h
    let m := showRet showBrList (branchesReposDecode (tableParse tbl) b)
    pure (m, checkHistoryStepP m impl, "branchesrepos")
  | _ => none

def handle (line : String) : String :=
  let (inp, impl) := splitCase line
  match fields inp with
  | ["ssdec", h, a] =>
    match hexToBytes? h, a.toNat? with
    | some b, some alloc =>
      decodeVerdict "stringset" b.length alloc (showRet showSet (stringSetDecode b)) impl
    | _, _ => badCase "fields"
  | ["rmdec", h, a] =>
    match hexToBytes? h, a.toNat? with
    | some b, some alloc =>
      decodeVerdict "reposmap" b.length alloc (showRet showRMap (reposMapDecode b)) impl
    | _, _ => badCase "fields"
  | ["brdec", h, a, t] =>
    match hexToBytes? h, a.toNat?, parseTable t with
    | some b, some alloc, some tbl =>
      decodeVerdict "branchesrepos" b.length alloc (showRet showBrList (branchesReposDecode (tableParse tbl) b)) impl
    | _, _, _ => badCase "fields"
  | ["rops", pkg, ops, h, t] =>
    match hexToBytes? h, parseTable t with
    | some b, some tbl =>
      if pkg == "z" && ops.toList.contains 'm' then badCase "m op on zoekt reader" else
      match runOps tbl ops.toList (Reader.init b) [] with
      | .ok (res, r) => answer s!"{showList id res}|rest={bytesToHex r.b}|err={showBool r.err}"
      | _ => answer "panic"
    | _, _ => badCase "fields"
  | ["ssrt", ks] =>
    -- impl: `enc=<hex> dec=<canonical>`; the iteration order of the Go map is recovered from the encoding itself
    match parseSet ks, encField impl with
    | some keys, some enc =>
      let dec := stringSetDecode enc
      let order : List Bytes := match dec with | .ok ⟨some l, _, _⟩ => l | _ => []
      let encOk := stringSetEncode order == enc && showSet order == showSet keys && order.length == keys.length
      let model := s!"enc={if encOk then bytesToHex enc else "MODEL-ENCODER-DIFFERS"} dec={showRet showSet dec}"
      if checkRoundTripP (showSet keys) (decField impl) then answer model else specFail model "roundtrip:stringset"
    | _, _ => badCase "fields"
  | ["rmrt", ms] =>
    match parseRMap ms, encField impl with
    | some m, some enc =>
      let dec := reposMapDecode enc
      let order : Option RMap := match dec with | .ok ⟨some v, _, _⟩ => v | _ => none
      let encOk := reposMapEncode order == enc && showRMap order == showRMap m
      let model := s!"enc={if encOk then bytesToHex enc else "MODEL-ENCODER-DIFFERS"} dec={showRet showRMap dec}"
      if checkRoundTripP (showRMap m) (decField impl) then answer model else specFail model "roundtrip:reposmap"
    | _, _ => badCase "fields"
  | ["brrt", es, t] =>
    match parseBrEntries es, parseTable t with
    | some entries, some tbl =>
      let enc := branchesReposEncode entries
      let dec := branchesReposDecode (tableParse tbl) enc
      let model := s!"enc={bytesToHex enc} dec={showRet showBrList dec}"
      let orig := if entries.isEmpty then "-" else ";".intercalate (entries.map fun p =>
        xhex p.1 ++ ":" ++ ((tableParse tbl p.2).getD "E"))
      if checkRoundTripP orig (decField impl) then answer model else specFail model "roundtrip:branchesrepos"
    | _, _ => badCase "fields"
  | ["hist", steps, t] =>
    -- a history of calls on one process; impl: the retained results as they are after the last call, `|`-separated
    match parseTable t with
    | some tbl =>
      let ss := steps.splitOn "|"
      let is := impl.splitOn "|"
      if ss.length != is.length then badCase "hist: step / result count" else
      match (ss.zip is).mapM (fun p => histStep tbl p.1 p.2) with
      | some rs =>
        let model := "|".intercalate (rs.map (·.1))
        match rs.find? (fun r => !r.2.1) with
        | some bad => specFail model ("history:result-not-stable:" ++ bad.2.2)
        | none => answer model
      | none => badCase "hist: step"
    | none => badCase "table"
  | _ => badCase "op"

def main : IO Unit := runLines handle
end ZoektModel.C26
