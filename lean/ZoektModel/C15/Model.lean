/-
C15 — model of
  * cmd/zoekt-index/main.go: `fileAggregator.add`, the `filepath.Walk` it is driven by, `indexArg`'s loop
    (display name, size limit, symlink = link target), and of `Builder.Add`'s skip policy as far as it decides
    what content a document is stored with (index/builder.go `Add`, index/shard_builder.go `DocChecker.Check`);
  * ignore/ignore.go: `ParseIgnoreFile`, `Matcher.Match` (glob subset: literals, `?`, `*`, `**`);
  * internal/archive: `tarArchive.Next` / `newZipArchive` member filter, `stripComponents`, `Index`'s loop with
    its lazily created builder.

The code is transcribed as written.  File names are `String`s (valid UTF-8), contents are byte lists.
-/
import ZoektModel.Basic.Bytes
import ZoektModel.Basic.Outcome
namespace ZoektModel.C15

/-! ## directory trees as `os.Lstat` sees them -/

/-- a file-system node; children of a directory in the order `filepath.Walk` visits them (sorted by name) -/
inductive Node where
  | file (name : String) (content : Bytes)
  | symlink (name : String) (target : Bytes)
  | other (name : String)                      -- fifo, socket, device: not regular, not a symlink, not a directory
  | dir (name : String) (children : List Node)

namespace Node
def name : Node → String
  | file n _ => n | symlink n _ => n | other n => n | dir n _ => n
def isDir : Node → Bool
  | dir _ _ => true | _ => false
/-- `mode.IsRegular() || mode&os.ModeSymlink != 0` -/
def isLeafDoc : Node → Bool
  | file _ _ => true | symlink _ _ => true | _ => false
def isSymlink : Node → Bool
  | symlink _ _ => true | _ => false
/-- what `indexArg` reads: `os.ReadFile` for a regular file, `os.Readlink` for a symlink -/
def payload : Node → Bytes
  | file _ c => c | symlink _ t => t | _ => []
end Node

/-- walk configuration: the `-ignore_dirs` set and `ignore.Matcher.Match` (on the slash-relative path) -/
structure WalkCfg where
  ignoreDirs : List String
  ign : String → Bool

/-- `filepath.ToSlash(rel)` of a component list -/
def relStr (p : List String) : String := "/".intercalate p

/-- the error value `fileAggregator.add` returns -/
inductive Ret where
  | nil | skipDir
  deriving DecidableEq, Repr

/-- `fileAggregator.add(path, info, nil)`: returned value, and whether a `fileInfo` is sent on the sink.
    `p` = path components relative to the root (`[]` = the root itself); `filepath.Base(path)` is the node's name. -/
def add (cfg : WalkCfg) (p : List String) (n : Node) : Ret × Bool :=
  if n.isDir && cfg.ignoreDirs.contains n.name then (.skipDir, false)
  else if !p.isEmpty && cfg.ign (relStr p) then (if n.isDir then .skipDir else .nil, false)
  else (.nil, n.isLeafDoc)

/-- a `fileInfo` on the sink: path components below the root, the node -/
structure Entry where
  path : List String
  node : Node

mutual
/-- `filepath.walk(path, info, fn)` with `fn = add`: entries sent, and the error returned to the caller -/
def walkNode (cfg : WalkCfg) (p : List String) : Node → List Entry × Ret
  | .dir nm cs =>
    if (add cfg p (.dir nm cs)).1 = .skipDir then ([], .skipDir) else walkKids cfg p cs
  | .file nm c =>
    let r := add cfg p (.file nm c)
    (if r.2 then [⟨p, .file nm c⟩] else [], r.1)
  | .symlink nm t =>
    let r := add cfg p (.symlink nm t)
    (if r.2 then [⟨p, .symlink nm t⟩] else [], r.1)
  | .other nm =>
    let r := add cfg p (.other nm)
    (if r.2 then [⟨p, .other nm⟩] else [], r.1)
/-- the `for _, name := range names` loop of `filepath.walk`: `SkipDir` from a directory child continues with the
    next sibling, `SkipDir` from a non-directory child abandons the remaining siblings -/
def walkKids (cfg : WalkCfg) (p : List String) : List Node → List Entry × Ret
  | [] => ([], .nil)
  | c :: rest =>
    let r := walkNode cfg (p ++ [c.name]) c
    if r.2 = .skipDir && !c.isDir then (r.1, .skipDir)
    else
      let r' := walkKids cfg p rest
      (r.1 ++ r'.1, r'.2)
end

/-- `filepath.Walk(root, add)`: `SkipDir` at the top is swallowed -/
def walk (cfg : WalkCfg) (root : Node) : List Entry := (walkNode cfg [] root).1

/-! ## documents -/

inductive Skip where
  | none | tooLarge | tooSmall | binary | tooManyTrigrams
  deriving DecidableEq, Repr

structure Doc where
  name : String
  content : Bytes
  skip : Skip := .none

/-- index options that matter here: `SizeMax`, `IgnoreSizeMax` (large-file patterns), `TrigramMax` -/
structure IdxCfg where
  sizeMax : Nat
  largeOk : String → Bool
  trigramMax : Nat
  rootAbs : String       -- `filepath.Abs(filepath.Clean(arg))`

/-- `strings.TrimPrefix(f.name, dir+"/")`: the relative path, or the absolute root when the root itself is sent -/
def displayName (ic : IdxCfg) (p : List String) : String :=
  if p.isEmpty then ic.rootAbs else relStr p

/-- the body of `for f := range comm` in `indexArg` -/
def toDoc (ic : IdxCfg) (e : Entry) : Doc :=
  let nm := displayName ic e.path
  if e.node.payload.length > ic.sizeMax && !ic.largeOk nm then ⟨nm, [], .tooLarge⟩
  else ⟨nm, e.node.payload, .none⟩

/-- `DocChecker.Check` for contents whose trigram upper bound does not exceed `TrigramMax` (or that are allowed
    large files); beyond that bound the distinct-trigram count decides, which this model does not compute. -/
def docCheck (content : Bytes) (trigramMax : Nat) (allowLarge : Bool) : Skip :=
  if content.length = 0 then .none
  else if content.length < 3 then .tooSmall
  else if content.contains 0 then .binary
  else if content.length - 3 + 1 ≤ trigramMax || allowLarge then .none
  else .tooManyTrigrams   -- upper bound exceeded: treated as skipped (never reached by the harness)

/-- `Builder.Add`: the skip decision, then the content dropped for skipped documents -/
def builderAdd (ic : IdxCfg) (d : Doc) : Doc :=
  if d.skip ≠ .none then { d with content := [] } else
  let allow := ic.largeOk d.name
  if d.content.length > ic.sizeMax && !allow then { d with skip := .tooLarge, content := [] }
  else
    let s := docCheck d.content ic.trigramMax allow
    if s ≠ .none then { d with skip := s, content := [] } else d

/-- `indexArg`: the documents handed to the shard builder, in walk order -/
def indexDir (wc : WalkCfg) (ic : IdxCfg) (root : Node) : List Doc :=
  (walk wc root).map fun e => builderAdd ic (toDoc ic e)

/-! ## ignore files (ignore/ignore.go) -/

inductive Tok where
  | lit (c : Char) | any1 | star | super
  deriving DecidableEq, Repr

/-- gobwas/glob lexer on the subset without `[ ] { } , \ !`: `**` → super, `*` → star, `?` → single -/
def lexGlob : List Char → List Tok
  | [] => []
  | '*' :: '*' :: r => .super :: lexGlob r
  | '*' :: r => .star :: lexGlob r
  | '?' :: r => .any1 :: lexGlob r
  | c :: r => .lit c :: lexGlob r

/-- glob matching with separator '/': `?` one non-separator, `*` any run of non-separators, `**` anything -/
def globMatch : List Tok → List Char → Bool
  | [], s => s.isEmpty
  | .lit c :: p, x :: s => x == c && globMatch p s
  | .lit _ :: _, [] => false
  | .any1 :: p, x :: s => x != '/' && globMatch p s
  | .any1 :: _, [] => false
  | .star :: p, [] => globMatch p []
  | .star :: p, x :: s => globMatch p (x :: s) || (x != '/' && globMatch (.star :: p) s)
  | .super :: p, [] => globMatch p []
  | .super :: p, x :: s => globMatch p (x :: s) || globMatch (.super :: p) s
termination_by p s => p.length + s.length

def isSpace (c : Char) : Bool :=
  c == ' ' || c == '\t' || c == '\n' || c == '\r' || c.toNat == 11 || c.toNat == 12

def trimSpace (s : List Char) : List Char :=
  ((s.dropWhile isSpace).reverse.dropWhile isSpace).reverse

/-- `bufio.ScanLines`: split at '\n' -/
def splitNl : List Char → List Char → List (List Char)
  | [], cur => if cur.isEmpty then [] else [cur.reverse]
  | c :: r, cur => if c == '\n' then cur.reverse :: splitNl r [] else splitNl r (c :: cur)

def globChars : List Char := ['.', ']', '[', '*', '?']

/-- one line of `ParseIgnoreFile`: `none` for blank lines and comments -/
def parseIgnoreLine (line : List Char) : Option (List Tok) :=
  let l := trimSpace line
  match l with
  | [] => none
  | '#' :: _ => none
  | _ =>
    let l := match l with | '/' :: r => r | _ => l
    let l := if l.any (fun c => globChars.contains c) then l else l ++ ['*', '*']
    some (lexGlob l)

def parseIgnoreFile (content : List Char) : List (List Tok) :=
  (splitNl content []).filterMap parseIgnoreLine

/-- `Matcher.Match` -/
def ignoreMatch (pats : List (List Tok)) (path : String) : Bool :=
  pats.any fun p => globMatch p path.toList

/-- bytes of an ignore file as characters (UTF-8 when valid, else byte-wise) -/
def bytesToChars (b : Bytes) : List Char :=
  match String.fromUTF8? b.toByteArray with
  | some s => s.toList
  | none => b.map fun x => Char.ofNat x.toNat

def findChild (nm : String) : List Node → Option Node
  | [] => none
  | c :: r => if c.name == nm then some c else findChild nm r

/-- `newIgnoreMatcher(root)`: `.sourcegraph` must be a real directory and `.sourcegraph/ignore` a regular file
    (both `Lstat`ed, symlinks are not resolved); anything else gives the empty matcher -/
def newIgnoreMatcher : Node → List (List Tok)
  | .dir _ cs =>
    match findChild ".sourcegraph" cs with
    | some (.dir _ cs') =>
      match findChild "ignore" cs' with
      | some (.file _ c) => parseIgnoreFile (bytesToChars c)
      | _ => []
    | _ => []
  | _ => []

/-- `indexArg(arg, opts, ignoreDirs)` up to the shard builder: matcher from the tree, walk, documents -/
def indexArg (ignoreDirs : List String) (ic : IdxCfg) (root : Node) : List Doc :=
  indexDir ⟨ignoreDirs, ignoreMatch (newIgnoreMatcher root)⟩ ic root

/-! ## archives (internal/archive) -/

/-- what kind of member the container reader reports -/
inductive MKind where
  | reg        -- tar.TypeReg / TypeRegA, zip entry with a regular mode
  | dir | symlink | hardlink | other
  deriving DecidableEq, Repr

/-- one archive member as the container reader presents it: `size` is what the member *header* announces
    (`File.Size`: `hdr.Size`, resp. `int64(UncompressedSize64)` — it can exceed the data that follows, or be
    negative after the conversion), `content` is the data the archive really holds for it -/
structure Member where
  kind : MKind
  name : List Char
  content : Bytes
  size : Int

/-- `io.ReadAll(f)` on a member: the container reader streams the data that is there and reports an error when it
    does not amount to the announced size (tar: `io.ErrUnexpectedEOF`, zip: `io.ErrUnexpectedEOF` / `zip.ErrFormat`).
    Nothing is ever allocated from the announced size. -/
def readAll (m : Member) : Except String Bytes :=
  if m.size = m.content.length then .ok m.content else .error "read"

/-- `tarArchive.Next` (`continue` on anything but a regular file) and `newZipArchive`'s filter -/
def nextFile : List Member → Option (Member × List Member)
  | [] => none
  | m :: r => if m.kind = .reg then some (m, r) else nextFile r

theorem nextFile_length {ms : List Member} {m : Member} {r : List Member} (h : nextFile ms = some (m, r)) :
    r.length < ms.length := by
  induction ms with
  | nil => simp [nextFile] at h
  | cons x xs ih =>
    simp only [nextFile] at h
    split at h
    · simp only [Option.some.injEq, Prod.mk.injEq] at h; rw [← h.2]; simp
    · have := ih h; simp; omega

/-- `strings.Index(path, "/")` then `path[i+1:]`: `none` when there is no slash -/
def afterSlash : List Char → Option (List Char)
  | [] => none
  | c :: r => if c == '/' then some r else afterSlash r

/-- `stripComponents`: the loop `for i := 0; path != "" && i < count; i++`, `fuel = count - i` -/
def stripLoop : Nat → List Char → List Char
  | 0, path => path
  | fuel + 1, path =>
    if path.isEmpty then path else
    match afterSlash path with
    | none => []
    | some rest => stripLoop fuel rest

def stripComponents (path : List Char) (count : Int) : List Char := stripLoop count.toNat path

structure ADoc where
  name : List Char
  content : Bytes
  deriving DecidableEq, Repr

/-- the `for { f, err := a.Next(); … add(f) }` loop of `archive.Index`; the builder is created by the first
    regular member (`once.Do`), so the state is `Option (documents added so far)`; a read error ends the loop -/
def indexLoop (strip : Int) : List Member → Option (List ADoc) → Except String (Option (List ADoc))
  | ms, b =>
    match h : nextFile ms with
    | none => .ok b
    | some (m, rest) =>
      let docs := b.getD []                 -- once.Do(NewBuilder) on the first regular member
      match readAll m with
      | .error e => .error e                -- `return err` (no Finish: nothing is written)
      | .ok contents =>
        let nm := stripComponents m.name strip
        let docs := if nm.isEmpty then docs else docs ++ [⟨nm, contents⟩]
        indexLoop strip rest (some docs)
termination_by ms => ms.length
decreasing_by exact nextFile_length h

/-- `archive.Index` after opening the archive, **as fixed** (`fix:` commit): an archive without regular members
    gets a builder before `Finish`, i.e. an empty index; `indexOrig` below is the code before the fix. -/
def index (strip : Int) (ms : List Member) : Outcome (List ADoc) :=
  match indexLoop strip ms none with
  | .error e => .err e
  | .ok none => .ok []                      -- builder == nil → NewBuilder → Finish: an empty shard
  | .ok (some docs) => .ok docs

/-- the code before the fix: `builder.Finish()` on a nil `*Builder` -/
def indexOrig (strip : Int) (ms : List Member) : Outcome (List ADoc) :=
  match indexLoop strip ms none with
  | .error e => .err e
  | .ok none => .panic "nil-builder-finish"
  | .ok (some docs) => .ok docs

end ZoektModel.C15
