/-
C15 — ignore patterns: a line without glob characters is a prefix match (ignore.go: "for patterns without any
glob-characters, a trailing ** is implicit").  Core Lean only.
-/
import ZoektModel.C15.Spec
namespace ZoektModel.C15

theorem globMatch_super (s : List Char) : globMatch [.super] s = true := by
  induction s with
  | nil => simp [globMatch]
  | cons x t ih => rw [globMatch]; simp [ih]

theorem globMatch_lits_super (l s : List Char) :
    globMatch (l.map Tok.lit ++ [.super]) s = l.isPrefixOf s := by
  induction l generalizing s with
  | nil => simp [globMatch_super]
  | cons c t ih =>
    cases s with
    | nil => simp [globMatch, List.isPrefixOf]
    | cons x s' =>
      simp only [List.map_cons, List.cons_append, globMatch, ih, List.isPrefixOf]
      cases h : (x == c) <;> cases h' : (c == x) <;> simp_all

theorem lexGlob_plain (l : List Char) (h : ∀ c ∈ l, c ≠ '*' ∧ c ≠ '?') :
    lexGlob (l ++ ['*', '*']) = l.map Tok.lit ++ [.super] := by
  induction l with
  | nil => simp [lexGlob]
  | cons c t ih =>
    obtain ⟨h1, h2⟩ := h c (by simp)
    have := ih (fun x hx => h x (by simp [hx]))
    simp only [List.cons_append, List.map_cons]
    rw [lexGlob.eq_def]
    split
    · simp_all
    · rename_i heq; simp at heq; exact absurd heq.1 h1
    · rename_i heq; simp at heq; exact absurd heq.1 h1
    · rename_i heq; simp at heq; exact absurd heq.1 h2
    · rename_i heq
      simp only [List.cons.injEq] at heq
      obtain ⟨rfl, rfl⟩ := heq
      rw [this]

end ZoektModel.C15
