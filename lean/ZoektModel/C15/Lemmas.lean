/-
C15 — helper lemmas (core Lean only).
-/
import ZoektModel.C15.Spec
namespace ZoektModel.C15

/-! ### stripComponents -/

theorem splitSlash_ne_nil (s : List Char) : splitSlash s ≠ [] := by
  cases s with
  | nil => simp [splitSlash]
  | cons c r =>
    simp only [splitSlash]
    split
    · simp
    · split <;> simp

theorem splitSlash_length_pos (s : List Char) : 0 < (splitSlash s).length :=
  List.length_pos_iff.mpr (splitSlash_ne_nil s)

/-- no slash: one component, the string itself -/
theorem splitSlash_of_afterSlash_none {s : List Char} (h : afterSlash s = none) : splitSlash s = [s] := by
  induction s with
  | nil => rfl
  | cons c r ih =>
    simp only [afterSlash] at h
    split at h
    · simp at h
    · rename_i hc
      simp only [splitSlash, ih h, hc]
      simp

/-- a slash: the first component, then the components of what follows the slash -/
theorem splitSlash_of_afterSlash_some {s rest : List Char} (h : afterSlash s = some rest) :
    ∃ first, splitSlash s = first :: splitSlash rest := by
  induction s with
  | nil => simp [afterSlash] at h
  | cons c r ih =>
    simp only [afterSlash] at h
    split at h
    · rename_i hc
      simp only [Option.some.injEq] at h
      subst h
      obtain ⟨a, t, hat⟩ := List.exists_cons_of_ne_nil (splitSlash_ne_nil r)
      refine ⟨[], ?_⟩
      simp only [splitSlash, hat, hc]
      simp
    · rename_i hc
      obtain ⟨first, hf⟩ := ih h
      refine ⟨c :: first, ?_⟩
      simp only [splitSlash, hf, hc]
      simp

theorem joinSlash_splitSlash (s : List Char) : joinSlash (splitSlash s) = s := by
  induction s with
  | nil => rfl
  | cons c r ih =>
    obtain ⟨a, t, hat⟩ := List.exists_cons_of_ne_nil (splitSlash_ne_nil r)
    simp only [splitSlash, hat]
    rw [hat] at ih
    by_cases hc : (c == '/') = true
    · simp only [hc, if_true]
      have : c = '/' := by simpa using hc
      subst this
      simp [joinSlash, ih]
    · simp only [hc]
      cases t with
      | nil => simp [joinSlash] at ih ⊢; exact ih
      | cons b t' => simp [joinSlash] at ih ⊢; exact ih

theorem splitSlash_nil_of_empty : splitSlash [] = [[]] := rfl

theorem stripLoop_spec (n : Nat) (path : List Char) : stripLoop n path = specStrip path n := by
  induction n generalizing path with
  | zero =>
    simp only [stripLoop, specStrip]
    have := splitSlash_length_pos path
    rw [if_neg (by omega)]
    simp [joinSlash_splitSlash]
  | succ k ih =>
    simp only [stripLoop]
    split
    · -- empty path
      rename_i he
      have : path = [] := by simpa using he
      subst this
      simp [specStrip, splitSlash]
    · cases hs : afterSlash path with
      | none =>
        simp only [specStrip, splitSlash_of_afterSlash_none hs]
        simp
      | some rest =>
        obtain ⟨first, hf⟩ := splitSlash_of_afterSlash_some hs
        simp only [ih rest, specStrip, hf, List.length_cons, List.drop_succ_cons]
        by_cases hle : (splitSlash rest).length ≤ k
        · rw [if_pos hle, if_pos (by omega)]
        · rw [if_neg hle, if_neg (by omega)]

/-! ### archive loop -/

def hasReg (ms : List Member) : Bool := ms.any fun m => m.kind = .reg

theorem nextFile_none_iff (ms : List Member) : nextFile ms = none ↔ hasReg ms = false := by
  induction ms with
  | nil => simp [nextFile, hasReg]
  | cons m r ih =>
    simp only [nextFile, hasReg, List.any_cons]
    by_cases hk : m.kind = .reg
    · simp [hk]
    · simp only [hk, if_false, decide_false, Bool.false_or]
      exact ih

/-- the first regular member and what follows it -/
theorem nextFile_some {ms : List Member} {m : Member} {r : List Member} (h : nextFile ms = some (m, r)) :
    m.kind = .reg ∧ ∃ pre, ms = pre ++ m :: r ∧ ∀ x ∈ pre, x.kind ≠ .reg := by
  induction ms with
  | nil => simp [nextFile] at h
  | cons x xs ih =>
    simp only [nextFile] at h
    split at h
    · rename_i hx
      simp only [Option.some.injEq, Prod.mk.injEq] at h
      obtain ⟨rfl, rfl⟩ := h
      exact ⟨hx, [], by simp, by simp⟩
    · rename_i hx
      obtain ⟨hm, pre, hpre, hall⟩ := ih h
      refine ⟨hm, x :: pre, by simp [hpre], ?_⟩
      intro y hy
      rcases List.mem_cons.mp hy with rfl | hy
      · exact hx
      · exact hall y hy

def docOf (strip : Int) (m : Member) : Option ADoc :=
  let nm := specStrip m.name strip.toNat
  if nm.isEmpty then none else some ⟨nm, m.content⟩

theorem specArchiveDocs_eq (strip : Int) (ms : List Member) :
    specArchiveDocs strip ms = (ms.filter (fun m => m.kind = .reg)).filterMap (docOf strip) := rfl

theorem specArchiveDocs_split (strip : Int) (pre r : List Member) (m : Member) (hm : m.kind = .reg)
    (hpre : ∀ x ∈ pre, x.kind ≠ .reg) :
    specArchiveDocs strip (pre ++ m :: r) = (docOf strip m).toList ++ specArchiveDocs strip r := by
  have hf : pre.filter (fun m => m.kind = .reg) = [] := by
    rw [List.filter_eq_nil_iff]
    intro x hx
    simpa using hpre x hx
  simp only [specArchiveDocs_eq, List.filter_append, hf, List.nil_append, List.filter_cons, hm, decide_true,
    if_true, List.filterMap_cons]
  cases docOf strip m <;> simp

theorem lies_split (pre r : List Member) (m : Member) (hm : m.kind = .reg) (hpre : ∀ x ∈ pre, x.kind ≠ .reg) :
    lies (pre ++ m :: r) = (decide (m.size ≠ m.content.length) || lies r) := by
  have hp : (pre.any fun m => decide (m.kind = .reg ∧ m.size ≠ m.content.length)) = false := by
    rw [List.any_eq_false]
    intro x hx
    simp [hpre x hx]
  simp only [lies, List.any_append, hp, Bool.false_or, List.any_cons, hm, true_and]

theorem lies_false_of_no_reg (ms : List Member) (h : hasReg ms = false) : lies ms = false := by
  simp only [hasReg, List.any_eq_false] at h
  simp only [lies, List.any_eq_false]
  intro x hx
  have := h x hx
  simp_all

theorem indexLoop_spec (strip : Int) (ms : List Member) (b : Option (List ADoc)) :
    indexLoop strip ms b =
      if lies ms then .error "read"
      else .ok (if hasReg ms then some (b.getD [] ++ specArchiveDocs strip ms) else b) := by
  induction hlen : ms.length using Nat.strongRecOn generalizing ms b with
  | ind n ih =>
    rw [indexLoop]
    split
    · rename_i hnone
      have hnr := (nextFile_none_iff ms).mp hnone
      rw [hnr, lies_false_of_no_reg ms hnr]
      simp
    · rename_i m rest hsome
      obtain ⟨hm, pre, hpre, hall⟩ := nextFile_some hsome
      have hlt := nextFile_length hsome
      have hreg : hasReg ms = true := by
        rw [hpre]; simp [hasReg, hm]
      rw [hpre, lies_split pre rest m hm hall, specArchiveDocs_split strip pre rest m hm hall]
      have hreg' : hasReg (pre ++ m :: rest) = true := by rw [← hpre]; exact hreg
      by_cases hsz : m.size = m.content.length
      · simp only [readAll, hsz, if_true, ne_eq, not_true_eq_false, decide_false, Bool.false_or, hreg']
        rw [ih rest.length (by omega) rest _ rfl]
        by_cases hl : lies rest = true
        · simp [hl]
        · have hl' : lies rest = false := by simpa using hl
          simp only [hl', Bool.false_eq_true, if_false, if_true, Option.getD_some, stripComponents, stripLoop_spec, docOf]
          by_cases hr : hasReg rest = true
          · simp only [hr, if_true]
            by_cases hs : specStrip m.name strip.toNat = [] <;> simp [hs]
          · have hr' : hasReg rest = false := by simpa using hr
            have hnil : specArchiveDocs strip rest = [] := by
              rw [specArchiveDocs_eq]
              have : rest.filter (fun m => m.kind = .reg) = [] := by
                rw [List.filter_eq_nil_iff]
                intro x hx
                simp only [hasReg, List.any_eq_false] at hr'
                simpa using hr' x hx
              simp [this]
            simp only [hr', hnil]
            by_cases hs : specStrip m.name strip.toNat = [] <;> simp [hs]
      · simp [readAll, hsz]

end ZoektModel.C15
