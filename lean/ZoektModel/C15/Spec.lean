/-
C15 — the property as executable predicates, written from the statement:

  directory: one document per regular file and per symbolic link (content = link target) outside ignored
             directories and ignore-file patterns, with the file's exact content;
  archive:   one document per regular member after stripping the requested number of leading path components;
  never crashes.

"Exact content" is read with the builder's documented exception: a document whose content is larger than the size
limit, shorter than one trigram, or binary is stored as a `NOT-INDEXED` marker document (still one document).
-/
import ZoektModel.C15.Model
namespace ZoektModel.C15

/-! ## directory -/

mutual
/-- every node strictly below a directory, with its path, in pre-order -/
def below (p : List String) : Node → List (List String × Node)
  | .dir _ cs => belowKids p cs
  | _ => []
def belowKids (p : List String) : List Node → List (List String × Node)
  | [] => []
  | c :: rest => (p ++ [c.name], c) :: (below (p ++ [c.name]) c ++ belowKids p rest)
end

/-- the ancestors of `p` (root excluded, `p` excluded) carry no ignored directory name, and neither `p` nor any
    ancestor below the root matches the ignore patterns -/
def pathOk (cfg : WalkCfg) (p : List String) : Bool :=
  p.dropLast.all (fun d => !cfg.ignoreDirs.contains d) &&
  (List.range p.length).all (fun i => !cfg.ign (relStr (p.take (i + 1))))

/-- the files the statement asks for: regular files and symlinks outside ignored directories / patterns -/
def expectedEntries (cfg : WalkCfg) (root : Node) : List (List String × Node) :=
  if cfg.ignoreDirs.contains root.name then [] else
  (below [] root).filter fun pn => pn.2.isLeafDoc && pathOk cfg pn.1

/-- how a document is stored: its bytes, or a skip marker -/
inductive Stored where
  | bytes (c : Bytes)
  | skipped (why : Skip)
  deriving DecidableEq, Repr

/-- the builder's documented skip classes, as a function of name and content -/
def specStored (ic : IdxCfg) (name : String) (payload : Bytes) : Stored :=
  let allow := ic.largeOk name
  if payload.length > ic.sizeMax ∧ ¬ allow then .skipped .tooLarge
  else if payload.length = 0 then .bytes payload
  else if payload.length < 3 then .skipped .tooSmall
  else if payload.contains 0 then .skipped .binary
  else if payload.length - 2 ≤ ic.trigramMax ∨ allow then .bytes payload
  else .skipped .tooManyTrigrams

def specDirDocs (wc : WalkCfg) (ic : IdxCfg) (root : Node) : List (String × Stored) :=
  (expectedEntries wc root).map fun pn => (relStr pn.1, specStored ic (relStr pn.1) pn.2.payload)

def Doc.stored (d : Doc) : Stored := if d.skip = .none then .bytes d.content else .skipped d.skip

def Skip.tag : Skip → String
  | .none => "none" | .tooLarge => "large" | .tooSmall => "small" | .binary => "binary" | .tooManyTrigrams => "trigrams"

/-! ## archive -/

/-- split at every '/' -/
def splitSlash : List Char → List (List Char)
  | [] => [[]]
  | c :: r =>
    match splitSlash r with
    | [] => [[]]          -- unreachable
    | h :: t => if c == '/' then [] :: h :: t else (c :: h) :: t

def joinSlash : List (List Char) → List Char
  | [] => []
  | [a] => a
  | a :: b :: r => a ++ '/' :: joinSlash (b :: r)

/-- drop the first `n` components; a name with at most `n` components disappears -/
def specStrip (name : List Char) (n : Nat) : List Char :=
  let parts := splitSlash name
  if parts.length ≤ n then [] else joinSlash (parts.drop n)

def specArchiveDocs (strip : Int) (ms : List Member) : List ADoc :=
  (ms.filter (fun m => m.kind = .reg)).filterMap fun m =>
    let nm := specStrip m.name strip.toNat
    if nm.isEmpty then none else some ⟨nm, m.content⟩

/-! ## rendering and the checks -/

def leStr (a b : String) : Bool := !(decide (b < a))

/-- order-insensitive comparison of rendered documents -/
def sameDocs (a b : List String) : Bool := a.mergeSort leStr == b.mergeSort leStr

/-- directory: the implementation's documents (rendered) are exactly the expected ones -/
def checkDir (expected impl : List String) : Bool := sameDocs expected impl

/-- some regular member's header announces another size than the data the archive holds for it -/
def lies (ms : List Member) : Bool := ms.any fun m => m.kind = .reg ∧ m.size ≠ m.content.length

/-- archive: the implementation did not crash and its documents are exactly the expected ones -/
def checkArchive (expected : List String) (implClass : String) (impl : List String) : Bool :=
  (implClass == "ok") && sameDocs expected impl

/-- archive whose headers lie about a member's size: indexing must come back (with the index or an error) -/
def checkLyingArchive (implClass : String) : Bool := implClass == "ok" || implClass == "err"

end ZoektModel.C15
