import ZoektModel.Basic.Proto
import ZoektModel.C15.Spec
namespace ZoektModel.C15
open ZoektModel ZoektModel.Proto

def hexToString? (s : String) : Option String := do
  let b ← hexToBytes? s
  String.fromUTF8? b.toByteArray

def stringToHex (s : String) : String := bytesToHex s.toUTF8.toList

/-- tree tokens separated by `;`: `D<nameHex>` … `E`, `F<nameHex>:<contentHex>`, `L<nameHex>:<targetHex>`, `O<nameHex>` -/
partial def parseNodes (toks : List String) (acc : List Node) : Option (List Node × List String) :=
  match toks with
  | [] => some (acc.reverse, [])
  | t :: rest =>
    if t == "E" then some (acc.reverse, rest) else
    let kind := t.front
    let body := (t.drop 1).toString
    if kind == 'D' then do
      let nm ← hexToString? body
      let (kids, rest') ← parseNodes rest []
      parseNodes rest' (Node.dir nm kids :: acc)
    else if kind == 'O' then do
      let nm ← hexToString? body
      parseNodes rest (Node.other nm :: acc)
    else if kind == 'F' || kind == 'L' then
      match body.splitOn ":" with
      | [n, c] => do
        let nm ← hexToString? n
        let c ← hexToBytes? c
        parseNodes rest ((if kind == 'F' then Node.file nm c else Node.symlink nm c) :: acc)
      | _ => none
    else none

def parseTree (s : String) : Option Node :=
  match parseNodes (s.splitOn ";") [] with
  | some ([n], []) => some n
  | _ => none

def parseStrList (s : String) : Option (List String) :=
  if s == "-" then some [] else (s.splitOn ",").mapM hexToString?

def renderStored : Stored → String
  | .bytes c => "b" ++ bytesToHex c
  | .skipped w => "!" ++ w.tag

def renderDoc (name : String) (st : Stored) : String := stringToHex name ++ ":" ++ renderStored st

def renderDocs (l : List String) : String := showList id (l.mergeSort leStr)

def parseDocs (s : String) : List String := if s == "-" then [] else s.splitOn ","

def parseMembers (s : String) : Option (List Member) :=
  if s == "-" then some [] else
  (s.splitOn ",").mapM fun e =>
    let mk (k n c : String) (size : Option Int) : Option Member := do
      let kind ← (match k with
        | "r" => some MKind.reg | "d" => some MKind.dir | "s" => some MKind.symlink
        | "h" => some MKind.hardlink | "o" => some MKind.other | _ => none)
      let nm ← hexToString? n
      let c ← hexToBytes? c
      pure ⟨kind, nm.toList, c, size.getD c.length⟩
    match e.splitOn ":" with
    | [k, n, c] => mk k n c none
    | [k, n, c, sz] => do let z ← sz.toInt?; mk k n c (some z)      -- the header announces `sz` bytes
    | _ => none

def mkIc (sizeMax : Nat) (rootAbs : String) : IdxCfg := ⟨sizeMax, fun _ => false, 20000, rootAbs⟩

def archiveDocs (ic : IdxCfg) (docs : List ADoc) : List String :=
  docs.map fun d =>
    let nm := String.ofList d.name
    renderDoc nm (builderAdd ic ⟨nm, d.content, .none⟩).stored

def handle (line : String) : String :=
  let (inp, impl) := splitCase line
  match fields inp with
  | ["walk", igd, root, tree] =>
    match parseStrList igd, hexToString? root, parseTree tree with
    | some ignoreDirs, some _, some t =>
      let es := walk ⟨ignoreDirs, ignoreMatch (newIgnoreMatcher t)⟩ t
      answer (showList (fun (e : Entry) =>
        s!"{stringToHex (relStr e.path)}:{e.node.payload.length}:{showBool e.node.isSymlink}") es)
    | _, _, _ => badCase "walk fields"
  | ["dir", igd, sizeMax, large, root, tree] =>
    match parseStrList igd, sizeMax.toNat?, parseStrList large, hexToString? root, parseTree tree with
    | some ignoreDirs, some sm, some largeNames, some rootAbs, some t =>
      -- `Options.IgnoreSizeMax` (doublestar patterns) is a parameter of the model: the harness lists the names it accepts
      let ic : IdxCfg := { mkIc sm rootAbs with largeOk := fun nm => largeNames.contains nm }
      let docs := indexArg ignoreDirs ic t
      let model := "ok " ++ renderDocs (docs.map fun d => renderDoc d.name d.stored)
      match fields impl with
      | [cls, idocs] =>
        if cls != "ok" then specFail model ("dir-" ++ cls)
        else if t.isDir then
          let wc : WalkCfg := ⟨ignoreDirs, ignoreMatch (newIgnoreMatcher t)⟩
          let expected := (specDirDocs wc ic t).map fun ns => renderDoc ns.1 ns.2
          if checkDir expected (parseDocs idocs) then answer model else specFail model "dir-docs"
        else answer model
      | _ => badCase "dir impl"
    | _, _, _, _, _ => badCase "dir fields"
  | ["ign", file, path] =>
    match hexToBytes? file, hexToString? path with
    | some f, some p => answer (showBool (ignoreMatch (parseIgnoreFile (bytesToChars f)) p))
    | _, _ => badCase "ign fields"
  | ["strip", name, count] =>
    match hexToString? name, count.toInt? with
    | some n, some c =>
      let model := stringToHex (String.ofList (stripComponents n.toList c))
      -- spec on the implementation's answer
      if stringToHex (String.ofList (specStrip n.toList c.toNat)) == impl then answer model
      else specFail model "strip-spec"
    | _, _ => badCase "strip fields"
  | ["members", ms] =>
    match parseMembers ms with
    | some ms =>
      let rec drain (fuel : Nat) (l : List Member) : List Member :=
        match fuel with
        | 0 => []
        | f + 1 => match nextFile l with
          | none => []
          | some (m, r) => m :: drain f r
      answer (showList (fun (m : Member) => s!"{stringToHex (String.ofList m.name)}:{bytesToHex m.content}")
        (drain (ms.length + 1) ms))
    | none => badCase "members fields"
  | ["arch", strip, sizeMax, ms] =>
    match strip.toInt?, sizeMax.toNat?, parseMembers ms with
    | some strip, some sm, some ms =>
      let ic := mkIc sm ""
      let out := index strip ms
      let model := match out with
        | .ok docs => "ok " ++ renderDocs (archiveDocs ic docs)
        | o => o.cls ++ " -"
      match fields impl with
      | [cls, idocs] =>
        let expected := (specArchiveDocs strip ms).map fun d =>
          let nm := String.ofList d.name
          renderDoc nm (specStored ic nm d.content)
        if cls == "panic" || cls == "crash" then
          specFail model (if lies ms then "archive-" ++ cls ++ ":lying-size"
            else if (ms.all fun m => m.kind != .reg) then "archive-panic:no-regular-member" else "archive-" ++ cls)
        else if lies ms then
          (if checkLyingArchive cls then answer model else specFail model "archive-lying-size")
        else if checkArchive expected cls (parseDocs idocs) then answer model
        else specFail model "archive-docs"
      | _ => badCase "arch impl"
    | _, _, _ => badCase "arch fields"
  | _ => badCase "op"

def main : IO Unit := runLines handle
end ZoektModel.C15
