import ZoektModel.Basic.Proto
namespace ZoektModel.C15
/-- stub: no model driver for C15 yet -/
def main : IO Unit := ZoektModel.Proto.runLines (fun _ => ZoektModel.Proto.badCase "no model driver for C15")
end ZoektModel.C15
