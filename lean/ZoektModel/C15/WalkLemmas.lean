/-
C15 — the directory walk: `walkNode` / `walkKids` (pruning recursion, as `filepath.Walk` + `fileAggregator.add`)
against the declarative enumeration `below` filtered by `pathOk` (core Lean only).
-/
import ZoektModel.C15.Spec
namespace ZoektModel.C15

/-- `pathOk` relative to an already accepted prefix `p`: the recursion the pruning walk performs -/
def okExt (cfg : WalkCfg) (p : List String) : List String → Bool
  | [] => true
  | [x] => !cfg.ign (relStr (p ++ [x]))
  | x :: y :: r => !cfg.ignoreDirs.contains x && !cfg.ign (relStr (p ++ [x])) && okExt cfg (p ++ [x]) (y :: r)

theorem all_range_succ (n : Nat) (f : Nat → Bool) :
    (List.range (n + 1)).all f = (f 0 && (List.range n).all fun i => f (i + 1)) := by
  rw [List.range_succ_eq_map]
  simp [List.all_map, Function.comp_def]

theorem okExt_eq (cfg : WalkCfg) (p e : List String) :
    okExt cfg p e = (e.dropLast.all (fun d => !cfg.ignoreDirs.contains d) &&
      (List.range e.length).all (fun i => !cfg.ign (relStr (p ++ e.take (i + 1))))) := by
  induction e generalizing p with
  | nil => simp [okExt]
  | cons x t ih =>
    cases t with
    | nil => simp [okExt]
    | cons y r =>
      rw [okExt, ih (p ++ [x])]
      simp only [List.dropLast_cons_cons, List.all_cons, List.length_cons]
      rw [all_range_succ (r.length + 1)]
      simp only [List.take_succ_cons, List.take_zero, List.append_assoc, List.singleton_append]
      cases cfg.ignoreDirs.contains x <;> cases cfg.ign (relStr (p ++ [x])) <;> simp

theorem pathOk_eq_okExt (cfg : WalkCfg) (q : List String) : pathOk cfg q = okExt cfg [] q := by
  rw [okExt_eq]; simp [pathOk]

/-! ### every enumerated path extends the directory's path -/

mutual
theorem below_prefix : ∀ (n : Node) (q : List String) (qn : List String × Node), qn ∈ below q n →
    ∃ e, e ≠ [] ∧ qn.1 = q ++ e
  | .dir _ cs, q, qn, h => by
    rw [below] at h
    exact belowKids_prefix cs q qn h
  | .file _ _, _, _, h => by simp [below] at h
  | .symlink _ _, _, _, h => by simp [below] at h
  | .other _, _, _, h => by simp [below] at h
theorem belowKids_prefix : ∀ (cs : List Node) (p : List String) (qn : List String × Node), qn ∈ belowKids p cs →
    ∃ e, e ≠ [] ∧ qn.1 = p ++ e
  | [], _, _, h => by simp [belowKids] at h
  | c :: rest, p, qn, h => by
    rw [belowKids] at h
    rcases List.mem_cons.mp h with rfl | h
    · exact ⟨[c.name], by simp, rfl⟩
    · rcases List.mem_append.mp h with h | h
      · obtain ⟨e, he, heq⟩ := below_prefix c (p ++ [c.name]) qn h
        exact ⟨c.name :: e, by simp, by rw [heq]; simp⟩
      · exact belowKids_prefix rest p qn h
end

/-! ### the walk -/

def mkEntry (qn : List String × Node) : Entry := ⟨qn.1, qn.2⟩

/-- the entries the statement asks for below a directory at `p`, given that `p` itself has been accepted -/
def wanted (cfg : WalkCfg) (p : List String) (l : List (List String × Node)) : List Entry :=
  (l.filter fun qn => qn.2.isLeafDoc && okExt cfg p (qn.1.drop p.length)).map mkEntry

theorem drop_append_self (p e : List String) : (p ++ e).drop p.length = e := by simp

/-- below an accepted child directory `q = p ++ [nm]`, the relative check splits into the child's own check and the
    check relative to `q` -/
theorem wanted_below_child (cfg : WalkCfg) (p : List String) (c : Node) :
    wanted cfg p (below (p ++ [c.name]) c) =
      if !cfg.ignoreDirs.contains c.name && !cfg.ign (relStr (p ++ [c.name])) then wanted cfg (p ++ [c.name]) (below (p ++ [c.name]) c)
      else [] := by
  unfold wanted
  have hcongr : ∀ qn ∈ below (p ++ [c.name]) c,
      (qn.2.isLeafDoc && okExt cfg p (qn.1.drop p.length)) =
      ((!cfg.ignoreDirs.contains c.name && !cfg.ign (relStr (p ++ [c.name]))) &&
        (qn.2.isLeafDoc && okExt cfg (p ++ [c.name]) (qn.1.drop (p ++ [c.name]).length))) := by
    intro qn hqn
    obtain ⟨e, he, heq⟩ := below_prefix c (p ++ [c.name]) qn hqn
    rw [heq, drop_append_self]
    have : (p ++ [c.name] ++ e).drop p.length = c.name :: e := by
      rw [List.append_assoc, drop_append_self]; rfl
    rw [this]
    cases e with
    | nil => exact absurd rfl he
    | cons y r =>
      rw [okExt]
      cases qn.2.isLeafDoc <;> cases cfg.ignoreDirs.contains c.name <;> cases cfg.ign (relStr (p ++ [c.name])) <;> simp
  rw [List.filter_congr hcongr]
  generalize (!cfg.ignoreDirs.contains c.name && !cfg.ign (relStr (p ++ [c.name]))) = g
  cases g <;> simp

theorem wanted_cons (cfg : WalkCfg) (p q : List String) (c : Node) (l : List (List String × Node)) :
    wanted cfg p ((q, c) :: l) =
      (if c.isLeafDoc && okExt cfg p (q.drop p.length) then [(⟨q, c⟩ : Entry)] else []) ++ wanted cfg p l := by
  unfold wanted
  rw [List.filter_cons]
  by_cases h : (c.isLeafDoc && okExt cfg p (q.drop p.length)) = true
  · simp [h, mkEntry]
  · simp [h]

theorem wanted_append (cfg : WalkCfg) (p : List String) (l1 l2 : List (List String × Node)) :
    wanted cfg p (l1 ++ l2) = wanted cfg p l1 ++ wanted cfg p l2 := by
  simp [wanted]

theorem below_file (q : List String) (nm : String) (c : Bytes) : below q (.file nm c) = [] := by simp [below]
theorem below_symlink (q : List String) (nm : String) (c : Bytes) : below q (.symlink nm c) = [] := by simp [below]
theorem below_other (q : List String) (nm : String) : below q (.other nm) = [] := by simp [below]
theorem below_dir (q : List String) (nm : String) (cs : List Node) : below q (.dir nm cs) = belowKids q cs := by
  simp [below]

theorem add_nonroot (cfg : WalkCfg) (q : List String) (hq : q ≠ []) (n : Node) :
    add cfg q n =
      if n.isDir && cfg.ignoreDirs.contains n.name then (.skipDir, false)
      else if cfg.ign (relStr q) then (if n.isDir then .skipDir else .nil, false)
      else (.nil, n.isLeafDoc) := by
  unfold add
  have : q.isEmpty = false := by cases q <;> simp_all
  simp [this]

mutual
/-- a node below the root at path `q`: what the walk sends, and `SkipDir` is only ever returned for a directory -/
theorem walkNode_spec (cfg : WalkCfg) : ∀ (n : Node) (q : List String), q ≠ [] →
    walkNode cfg q n =
      ((if n.isLeafDoc && !cfg.ign (relStr q) then [⟨q, n⟩] else []) ++
        (if !cfg.ignoreDirs.contains n.name && !cfg.ign (relStr q) then wanted cfg q (below q n) else []),
       if n.isDir && (cfg.ignoreDirs.contains n.name || cfg.ign (relStr q)) then .skipDir else .nil)
  | .dir nm cs, q, hq => by
    rw [walkNode, add_nonroot cfg q hq, below_dir]
    simp only [Node.isDir, Node.name, Node.isLeafDoc, Bool.true_and, Bool.false_and, Bool.false_eq_true, if_false,
      List.nil_append]
    by_cases h1 : nm ∈ cfg.ignoreDirs
    · simp [h1]
    · by_cases h2 : cfg.ign (relStr q) = true
      · simp [h1, h2]
      · simp [h1, h2, walkKids_spec cfg cs q]
  | .file nm c, q, hq => by
    rw [walkNode, add_nonroot cfg q hq, below_file]
    simp only [Node.isDir, Node.isLeafDoc, Bool.false_and, Bool.false_eq_true, if_false, Bool.true_and, wanted]
    cases h2 : cfg.ign (relStr q) <;> simp
  | .symlink nm t, q, hq => by
    rw [walkNode, add_nonroot cfg q hq, below_symlink]
    simp only [Node.isDir, Node.isLeafDoc, Bool.false_and, Bool.false_eq_true, if_false, Bool.true_and, wanted]
    cases h2 : cfg.ign (relStr q) <;> simp
  | .other nm, q, hq => by
    rw [walkNode, add_nonroot cfg q hq, below_other]
    simp only [Node.isDir, Node.isLeafDoc, Bool.false_and, Bool.false_eq_true, if_false, wanted]
    cases h2 : cfg.ign (relStr q) <;> simp
/-- the children of an accepted directory at `p`: exactly the wanted entries, in enumeration order, and the loop
    runs to its end -/
theorem walkKids_spec (cfg : WalkCfg) : ∀ (cs : List Node) (p : List String),
    walkKids cfg p cs = (wanted cfg p (belowKids p cs), .nil)
  | [], p => by simp [walkKids, belowKids, wanted]
  | c :: rest, p => by
    rw [walkKids, walkNode_spec cfg c (p ++ [c.name]) (by simp), walkKids_spec cfg rest p, belowKids]
    have hcond : (decide ((if c.isDir && (cfg.ignoreDirs.contains c.name || cfg.ign (relStr (p ++ [c.name]))) then Ret.skipDir else Ret.nil) = Ret.skipDir) && !c.isDir) = false := by
      cases hd : c.isDir <;> simp
    simp only [hcond, Bool.false_eq_true, if_false]
    rw [wanted_cons, wanted_append, wanted_below_child, drop_append_self]
    simp only [okExt, List.append_assoc]
    rfl
end

end ZoektModel.C15
