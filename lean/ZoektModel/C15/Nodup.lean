/-
C15 — distinct paths: in a tree whose directories have pairwise distinctly named entries (a file-system invariant),
the enumerated paths are pairwise distinct, so "one document per file" has no duplicates.
-/
import ZoektModel.C15.WalkLemmas
namespace ZoektModel.C15

mutual
/-- every directory's entries carry pairwise distinct names -/
def wfNode : Node → Prop
  | .dir _ cs => wfKids cs ∧ (cs.map Node.name).Nodup
  | _ => True
def wfKids : List Node → Prop
  | [] => True
  | c :: r => wfNode c ∧ wfKids r
end

mutual
/-- every enumerated path below the children `cs` of `p` starts with `p ++ [name of one of them]` -/
theorem belowKids_head : ∀ (cs : List Node) (p : List String) (qn : List String × Node), qn ∈ belowKids p cs →
    ∃ c ∈ cs, ∃ e, qn.1 = p ++ c.name :: e
  | [], _, _, h => by simp [belowKids] at h
  | c :: rest, p, qn, h => by
    rw [belowKids] at h
    rcases List.mem_cons.mp h with rfl | h
    · exact ⟨c, by simp, [], by simp⟩
    · rcases List.mem_append.mp h with h | h
      · obtain ⟨e, _, heq⟩ := below_prefix c (p ++ [c.name]) qn h
        exact ⟨c, by simp, e, by rw [heq]; simp⟩
      · obtain ⟨c', hc', e, heq⟩ := belowKids_head rest p qn h
        exact ⟨c', by simp [hc'], e, heq⟩
end

mutual
theorem below_nodup : ∀ (n : Node) (q : List String), wfNode n → ((below q n).map Prod.fst).Nodup
  | .dir _ cs, q, h => by
    rw [below_dir]
    rw [wfNode] at h
    exact belowKids_nodup cs q h.1 h.2
  | .file _ _, _, _ => by simp [below_file]
  | .symlink _ _, _, _ => by simp [below_symlink]
  | .other _, _, _ => by simp [below_other]
theorem belowKids_nodup : ∀ (cs : List Node) (p : List String), wfKids cs → (cs.map Node.name).Nodup →
    ((belowKids p cs).map Prod.fst).Nodup
  | [], _, _, _ => by simp [belowKids]
  | c :: rest, p, hw, hn => by
    rw [wfKids] at hw
    rw [List.map_cons, List.nodup_cons] at hn
    rw [belowKids, List.map_cons, List.map_append, List.nodup_cons, List.nodup_append]
    have ih1 := below_nodup c (p ++ [c.name]) hw.1
    have ih2 := belowKids_nodup rest p hw.2 hn.2
    refine ⟨?_, ih1, ih2, ?_⟩
    · -- the child's own path is not among its descendants' nor its siblings' paths
      intro hmem
      rcases List.mem_append.mp hmem with hm | hm
      · obtain ⟨qn, hqn, heq⟩ := List.mem_map.mp hm
        obtain ⟨e, he, hq⟩ := below_prefix c (p ++ [c.name]) qn hqn
        rw [hq] at heq
        have : e = [] := by
          have hl := congrArg List.length heq
          simp only [List.length_append, List.length_cons, List.length_nil] at hl
          exact List.eq_nil_of_length_eq_zero (by omega)
        exact he this
      · obtain ⟨qn, hqn, heq⟩ := List.mem_map.mp hm
        obtain ⟨c', hc', e, hq⟩ := belowKids_head rest p qn hqn
        rw [hq] at heq
        have h2 := List.append_cancel_left heq
        simp only [List.cons.injEq] at h2
        exact hn.1 (List.mem_map.mpr ⟨c', hc', h2.1⟩)
    · -- a descendant of this child is not a sibling's path or descendant
      intro a ha b hb hab
      subst hab
      obtain ⟨qn, hqn, heq⟩ := List.mem_map.mp ha
      obtain ⟨e, _, hq⟩ := below_prefix c (p ++ [c.name]) qn hqn
      obtain ⟨qn', hqn', heq'⟩ := List.mem_map.mp hb
      obtain ⟨c', hc', e', hq'⟩ := belowKids_head rest p qn' hqn'
      rw [← heq', hq', hq] at heq
      rw [List.append_assoc] at heq
      have h2 := List.append_cancel_left heq
      simp only [List.singleton_append, List.cons.injEq] at h2
      exact hn.1 (List.mem_map.mpr ⟨c', hc', h2.1.symm⟩)
end

end ZoektModel.C15
