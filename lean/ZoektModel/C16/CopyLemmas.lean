/-
C16 — the document loop (`copyDocs`): after copying the documents `ds` of an input shard the builder shows, decoded,
exactly what the input showed for them.
-/
import ZoektModel.C16.BuilderLemmas
namespace ZoektModel.C16

/-- one document as `flat` sees it -/
def flatDoc (sh : Shard) (d : Doc) : Option (RepoMeta × DocRec) :=
  match sh.repos[d.repo]? with
  | some r => if r.tomb then none else some (r, decode sh.langs r d)
  | none => none

theorem flat_eq (sh : Shard) : flat sh = sh.docs.filterMap (flatDoc sh) := rfl

/-- the repositories for which the loop calls `setRepository`, in order -/
def started (sh : Shard) : List Doc → Option Nat → List RepoMeta
  | [], _ => []
  | d :: ds, last =>
    match sh.repos[d.repo]? with
    | none => []
    | some r =>
      if r.tomb then started sh ds last
      else if last = some d.repo then started sh ds (some d.repo)
      else r :: started sh ds (some d.repo)

/-- every document points to a repository; documents of live repositories are copyable -/
def DocsOk (sh : Shard) (ds : List Doc) : Prop :=
  ∀ d ∈ ds, ∃ r, sh.repos[d.repo]? = some r ∧ (r.tomb = false → DocOk sh.langs r d)

theorem bflat_setRepository (b : Builder) (r : RepoMeta) :
    bflat { b with groups := b.groups ++ [(r, [])] } = bflat b := by
  simp [bflat]

theorem BI_setRepository (b : Builder) (r : RepoMeta) (h : BI b) (hr : r.tomb = false) :
    BI { b with groups := b.groups ++ [(r, [])] } := by
  constructor
  · intro i g hgi d hd
    simp only at hgi
    by_cases hi : i < b.groups.length
    · rw [List.getElem?_append_left hi] at hgi; exact h.idx i g hgi d hd
    · have : i - b.groups.length = 0 ∨ i - b.groups.length ≠ 0 := by omega
      rw [List.getElem?_append_right (by omega)] at hgi
      rcases this with h0 | h0
      · rw [h0] at hgi; simp at hgi; subst hgi; cases hd
      · have : ([(r, ([] : List Doc))] : List _)[i - b.groups.length]? = none := by
          apply List.getElem?_eq_none; simp; omega
        rw [this] at hgi; cases hgi
  · intro g hg d hd
    simp only at hg ⊢
    rcases List.mem_append.1 hg with h1 | h1
    · exact h.lang g h1 d hd
    · simp only [List.mem_singleton] at h1; subst h1; cases hd
  · intro g hg
    simp only at hg
    rcases List.mem_append.1 hg with h1 | h1
    · exact h.live g h1
    · simp only [List.mem_singleton] at h1; subst h1; exact hr

/-- every repository of the builder has a document -/
def NE (b : Builder) : Prop := ∀ g ∈ b.groups, g.2 ≠ []

theorem notgt (last : Option Nat) (n : Nat) (h : ∀ l, last = some l → l ≤ n) :
    gtLast last n = false := by
  unfold gtLast
  cases last with
  | none => rfl
  | some l => have := h l rfl; simp; omega

theorem OKI_setRepository (b : Builder) (r : RepoMeta) (h : OKI b) :
    OKI { b with groups := b.groups ++ [(r, [])] } := by
  intro g hg d hd
  simp only at hg ⊢
  rcases List.mem_append.1 hg with h1 | h1
  · exact h g h1 d hd
  · simp only [List.mem_singleton] at h1; subst h1; cases hd

theorem copyDocs_spec (sh : Shard) :
    ∀ (ds : List Doc) (last : Option Nat) (b : Builder), DocsOk sh ds →
      ds.Pairwise (fun a c => a.repo ≤ c.repo) → (∀ l, last = some l → ∀ d ∈ ds, l ≤ d.repo) → BI b → NE b → OKI b →
      (∀ l, last = some l → ∃ r pre ds0, sh.repos[l]? = some r ∧ r.tomb = false ∧ b.groups = pre ++ [(r, ds0)]) →
      ∃ b', copyDocs sh ds last b = some b' ∧ BI b' ∧ NE b' ∧ OKI b' ∧ bflat b' = bflat b ++ ds.filterMap (flatDoc sh) ∧
        b'.groups.map (·.1) = b.groups.map (·.1) ++ started sh ds last := by
  intro ds
  induction ds with
  | nil => intro last b _ _ _ hbi hne hoki _; exact ⟨b, rfl, hbi, hne, hoki, by simp, by simp [started]⟩
  | cons d ds ih =>
    intro last b hok hpw hlast hbi hne hoki hgrp
    obtain ⟨r, hr, hdoc⟩ := hok d (by simp)
    have hok' : DocsOk sh ds := fun d' hd' => hok d' (List.mem_cons_of_mem _ hd')
    rw [List.pairwise_cons] at hpw
    unfold copyDocs started
    simp only [hr, List.filterMap_cons]
    have hfd : flatDoc sh d = if r.tomb then none else some (r, decode sh.langs r d) := by
      unfold flatDoc; rw [hr]
    cases ht : r.tomb
    · -- live repository
      simp only [Bool.false_eq_true, if_false]
      have hdoc' := hdoc ht
      have hnext : ∀ l, some d.repo = some l → ∀ d' ∈ ds, l ≤ d'.repo := by
        intro l hl d' hd'; cases hl; exact hpw.1 d' hd'
      rw [hfd, ht]
      simp only [Bool.false_eq_true, if_false]
      by_cases hsame : last = some d.repo
      · rw [if_pos hsame, if_pos hsame]
        obtain ⟨r', pre, ds0, hr', _, hg⟩ := hgrp d.repo hsame
        rw [hr] at hr'; cases hr'
        obtain ⟨b2, ds', hadd, hbi2, hfl2, hg2, hds', hoki2⟩ := add_spec sh.langs b pre r ds0 hg hbi d hdoc'
        simp only [hadd]
        have hne2 : NE b2 := by
          intro g hgm
          rw [hg2] at hgm
          rcases List.mem_append.1 hgm with h | h
          · exact hne g (by rw [hg]; exact List.mem_append_left _ h)
          · simp only [List.mem_singleton] at h; subst h; exact hds'
        obtain ⟨b', hc, hbi', hne', hoki', hfl', hrep'⟩ := ih (some d.repo) b2 hok' hpw.2 hnext hbi2 hne2 (hoki2 hoki)
          (by intro l hl; cases hl; exact ⟨r, pre, ds', hr, ht, hg2⟩)
        refine ⟨b', hc, hbi', hne', hoki', ?_, ?_⟩
        · rw [hfl', hfl2]; simp
        · rw [hrep', hg2, hg]; simp
      · rw [if_neg hsame, if_neg hsame]
        have hnotgt := notgt last d.repo (fun l hl => hlast l hl d (by simp))
        rw [hnotgt]
        simp only [Bool.false_eq_true, if_false]
        unfold Builder.setRepository
        have hlen : ¬ r.branches.length > 64 := by have := hdoc'.br_len; omega
        simp only [hlen, if_false]
        obtain ⟨b2, ds', hadd, hbi2, hfl2, hg2, hds', hoki2⟩ :=
          add_spec sh.langs { b with groups := b.groups ++ [(r, [])] } b.groups r [] rfl
            (BI_setRepository b r hbi ht) d hdoc'
        simp only [hadd]
        have hne2 : NE b2 := by
          intro g hgm
          rw [hg2] at hgm
          rcases List.mem_append.1 hgm with h | h
          · exact hne g h
          · simp only [List.mem_singleton] at h; subst h; exact hds'
        obtain ⟨b', hc, hbi', hne', hoki', hfl', hrep'⟩ := ih (some d.repo) b2 hok' hpw.2 hnext hbi2 hne2
          (hoki2 (OKI_setRepository b r hoki))
          (by intro l hl; cases hl; exact ⟨r, b.groups, ds', hr, ht, hg2⟩)
        refine ⟨b', hc, hbi', hne', hoki', ?_, ?_⟩
        · rw [hfl', hfl2, bflat_setRepository]; simp
        · rw [hrep', hg2]; simp
    · -- tombstoned: skipped
      simp only [if_true]
      rw [hfd, ht]
      simp only [if_true]
      exact ih last b hok' hpw.2 (fun l hl d' hd' => hlast l hl d' (List.mem_cons_of_mem _ hd')) hbi hne hoki hgrp

end ZoektModel.C16
