/-
C16 — the property as an executable predicate over an output shard (or shards), evaluated by the driver on the
*implementation's* output and used verbatim in Props/C16.lean.

Statement: merging simple shards into a compound shard, and exploding a compound shard back into simple shards,
preserves every live repository that has at least one document (files, contents, branches, languages, symbols,
repository metadata); tombstoned repositories are dropped.

It is written from the statement, not from the loop: per document, look the repository up by index and decode the
document through the shard's own tables; compare the collections up to order.
-/
import ZoektModel.C16.Model
namespace ZoektModel.C16

/-- every document of a shard with its repository's metadata, decoded; documents of tombstoned repositories are not
    searchable and are left out -/
def flat (sh : Shard) : List (RepoMeta × DocRec) :=
  sh.docs.filterMap fun d =>
    match sh.repos[d.repo]? with
    | some r => if r.tomb then none else some (r, decode sh.langs r d)
    | none => none

def hasDocs (sh : Shard) (i : Nat) : Bool := sh.docs.any (·.repo == i)

/-- live repositories with at least one document, by index -/
def liveReposAux (sh : Shard) : List RepoMeta → Nat → List RepoMeta
  | [], _ => []
  | r :: rs, i => if !r.tomb && hasDocs sh i then r :: liveReposAux sh rs (i + 1) else liveReposAux sh rs (i + 1)

def liveRepos (sh : Shard) : List RepoMeta := liveReposAux sh sh.repos 0

def nondecreasing : List Nat → Bool
  | [] => true
  | [_] => true
  | a :: b :: r => decide (a ≤ b) && nondecreasing (b :: r)

/-- an output shard is well-formed for a reader: documents grouped by repository, every index in range,
    no tombstoned and no empty repository -/
def outShardOk (sh : Shard) : Bool :=
  nondecreasing (sh.docs.map (·.repo)) &&
  sh.docs.all (fun d => decide (d.repo < sh.repos.length)) &&
  sh.repos.all (fun r => !r.tomb) &&
  (List.range sh.repos.length).all (hasDocs sh)

/-! ### the hypotheses of the theorems, as an executable check on real input shards -/

def nodupS : List String → Bool
  | [] => true
  | x :: xs => !xs.contains x && nodupS xs

/-- the tables a stored document points into are sane: distinct branch names (at most 64), the mask only uses existing
    branches, distinct sub-repository paths, valid sections, language detection is idempotent on it, and every symbol section has its metadata -/
def docOkB (langs : List String) (r : RepoMeta) (d : Doc) : Bool :=
  nodupS r.branches && decide (r.branches.length ≤ 64) && decide (d.mask < 2 ^ r.branches.length) &&
  nodupS r.subPaths && decide (d.sub < r.subPaths.length) && secsOk (contentLen d.content) d.secs &&
  (langs.getD d.lang "" != "" || d.redetect == "") && d.syms.all (·.isSome) && d.syms.length == d.secs.length

/-- input shard: every document points to a repository, documents of live repositories are `docOkB`, documents are
    grouped by repository -/
def wfB (sh : Shard) : Bool :=
  sh.docs.all (fun d => match sh.repos[d.repo]? with
    | some r => r.tomb || docOkB sh.langs r d
    | none => false) &&
  nondecreasing (sh.docs.map (·.repo))

/-- merge: the output shows exactly the live documents and repositories of the inputs (up to order) -/
def checkMerge (inputs : List Shard) (out : Shard) : Option String :=
  if !outShardOk out then some "out-malformed"
  else if !(liveRepos out).isPerm (inputs.flatMap liveRepos) then some "repos-differ"
  else if !(flat out).isPerm (inputs.flatMap flat) then some "docs-differ"
  else none

/-- explode: one shard per live repository with documents, each holding exactly that repository -/
def checkExplode (input : Shard) (outs : List Shard) : Option String :=
  if !outs.all outShardOk then some "out-malformed"
  else if !outs.all (fun o => o.repos.length == 1) then some "not-one-repo-per-shard"
  else if !(outs.flatMap liveRepos).isPerm (liveRepos input) then some "repos-differ"
  else if !(outs.flatMap flat).isPerm (flat input) then some "docs-differ"
  else none

end ZoektModel.C16
