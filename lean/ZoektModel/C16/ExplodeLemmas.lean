/-
C16 — the loop of `explode`: one builder per repository run; every written shard holds one repository and together they
show what the compound shard showed.
-/
import ZoektModel.C16.MergeLemmas
namespace ZoektModel.C16

def curFlat : Option Builder → List (RepoMeta × DocRec)
  | some b => bflat b
  | none => []

def curOut : Option Builder → List Shard
  | some b => [b.flatten]
  | none => []

theorem started_cons (sh : Shard) (d : Doc) (ds : List Doc) (last : Option Nat) :
    started sh (d :: ds) last =
      match sh.repos[d.repo]? with
      | none => []
      | some r =>
        if r.tomb then started sh ds last
        else if last = some d.repo then started sh ds (some d.repo)
        else r :: started sh ds (some d.repo) := by
  cases h : sh.repos[d.repo]? <;> simp [started, h]

def curRepos : Option Builder → List RepoMeta
  | some b => b.groups.map (·.1)
  | none => []

theorem BI_empty : BI ⟨[], []⟩ where
  idx := by intro i g h; simp at h
  lang := by intro g h; cases h
  live := by intro g h; cases h

/-- a finished output shard of explode -/
def GoodOut (o : Shard) : Prop := outShardOk o = true ∧ o.repos.length = 1 ∧ realign o = o

theorem goodOut_flatten (b : Builder) (hbi : BI b) (hne : NE b) (hoki : OKI b) (r : RepoMeta) (ds0 : List Doc)
    (hg : b.groups = [(r, ds0)]) : GoodOut b.flatten :=
  ⟨outShardOk_flatten b hbi hne, by simp [Builder.flatten, hg], realign_flatten b hoki⟩

theorem explodeLoop_spec (sh : Shard) :
    ∀ (ds : List Doc) (last : Option Nat) (cur : Option Builder) (done : List Shard), DocsOk sh ds →
      ds.Pairwise (fun a c => a.repo ≤ c.repo) → (∀ l, last = some l → ∀ d ∈ ds, l ≤ d.repo) →
      ((last = none ∧ cur = none) ∨
        (∃ l b r ds0, last = some l ∧ cur = some b ∧ BI b ∧ NE b ∧ OKI b ∧ b.groups = [(r, ds0)] ∧
          sh.repos[l]? = some r ∧ r.tomb = false)) →
      ∃ outs, explodeLoop sh ds last cur done = some outs ∧
        outs.flatMap flat = done.flatMap flat ++ curFlat cur ++ ds.filterMap (flatDoc sh) ∧
        (∀ o ∈ outs, o ∈ done ∨ GoodOut o) ∧
        outs.flatMap (·.repos) = done.flatMap (·.repos) ++ curRepos cur ++ started sh ds last := by
  intro ds
  induction ds with
  | nil =>
    intro last cur done _ _ _ hcur
    refine ⟨done ++ curOut cur, ?_, ?_, ?_, ?_⟩
    rotate_left 3
    · cases cur <;> simp [curOut, curRepos, started, Builder.flatten]
    · unfold explodeLoop curOut; cases cur <;> rfl
    · rcases hcur with ⟨_, rfl⟩ | ⟨l, b, r, ds0, _, rfl, hbi, _, _, _, _, _⟩
      · simp [curOut, curFlat]
      · simp [curOut, curFlat, flat_flatten b hbi]
    · intro o ho
      rcases List.mem_append.1 ho with h | h
      · exact Or.inl h
      · rcases hcur with ⟨_, rfl⟩ | ⟨l, b, r, ds0, _, rfl, hbi, hne, hoki, hg, _, _⟩
        · simp [curOut] at h
        · simp only [curOut, List.mem_singleton] at h; subst h
          exact Or.inr (goodOut_flatten b hbi hne hoki r ds0 hg)
  | cons d ds ih =>
    intro last cur done hok hpw hlast hcur
    obtain ⟨r, hr, hdoc⟩ := hok d (by simp)
    have hok' : DocsOk sh ds := fun d' hd' => hok d' (List.mem_cons_of_mem _ hd')
    rw [List.pairwise_cons] at hpw
    unfold explodeLoop
    simp only [hr, List.filterMap_cons]
    have hfd : flatDoc sh d = if r.tomb then none else some (r, decode sh.langs r d) := by
      unfold flatDoc; rw [hr]
    cases ht : r.tomb
    · simp only [Bool.false_eq_true, if_false]
      have hdoc' := hdoc ht
      have hnext : ∀ l, some d.repo = some l → ∀ d' ∈ ds, l ≤ d'.repo := by
        intro l hl d' hd'; cases hl; exact hpw.1 d' hd'
      rw [hfd, ht]
      simp only [Bool.false_eq_true, if_false]
      by_cases hsame : last = some d.repo
      · rw [if_pos hsame]
        rcases hcur with ⟨hl, _⟩ | ⟨l, b, r', ds0, hl, hc, hbi, hne, hoki, hg, hr', _⟩
        · rw [hl] at hsame; cases hsame
        · rw [hl] at hsame; cases hsame
          rw [hr] at hr'; cases hr'
          subst hc
          subst hl
          obtain ⟨b2, ds', hadd, hbi2, hfl2, hg2, hds', hoki2⟩ := add_spec sh.langs b [] r ds0 (by simpa using hg) hbi d hdoc'
          simp only [hadd]
          have hne2 : NE b2 := by
            intro g hgm; rw [hg2] at hgm; simp at hgm; subst hgm; exact hds'
          obtain ⟨outs, he, hfl, hgood, hrep⟩ := ih (some d.repo) (some b2) done hok' hpw.2 hnext
            (Or.inr ⟨d.repo, b2, r, ds', rfl, rfl, hbi2, hne2, hoki2 hoki, by simpa using hg2, hr, ht⟩)
          refine ⟨outs, he, ?_, hgood, ?_⟩
          · rw [hfl]; simp [curFlat, hfl2]
          · rw [hrep, started_cons]; simp [hr, ht, curRepos, hg, hg2]
      · rw [if_neg hsame]
        have hnotgt := notgt last d.repo (fun l hl => hlast l hl d (by simp))
        rw [hnotgt]
        simp only [Bool.false_eq_true, if_false]
        unfold Builder.setRepository
        have hlen : ¬ r.branches.length > 64 := by have := hdoc'.br_len; omega
        simp only [hlen, if_false]
        obtain ⟨b2, ds', hadd, hbi2, hfl2, hg2, hds', hoki2⟩ :=
          add_spec sh.langs { groups := [] ++ [(r, [])], langs := [] } [] r [] rfl
            (BI_setRepository ⟨[], []⟩ r BI_empty ht) d hdoc'
        simp only [hadd]
        have hne2 : NE b2 := by
          intro g hgm; rw [hg2] at hgm; simp at hgm; subst hgm; exact hds'
        have hbf0 : bflat ({ groups := [(r, [])], langs := [] } : Builder) = [] := by simp [bflat]
        obtain ⟨outs, he, hfl, hgood, hrep⟩ := ih (some d.repo) (some b2) (done ++ curOut cur) hok' hpw.2 hnext
          (Or.inr ⟨d.repo, b2, r, ds', rfl, rfl, hbi2, hne2,
            hoki2 (OKI_setRepository ⟨[], []⟩ r (by intro g hg; cases hg)), by simpa using hg2, hr, ht⟩)
        refine ⟨outs, ?_, ?_, ?_, ?_⟩
        rotate_left 3
        · rw [hrep, started_cons]
          have : (curOut cur).flatMap (·.repos) = curRepos cur := by
            cases cur <;> simp [curOut, curRepos, Builder.flatten]
          simp [hr, ht, hsame, curRepos, hg2, this]
        · rw [← he]; unfold curOut; cases cur <;> rfl
        · rw [hfl]
          have : (curOut cur).flatMap flat = curFlat cur := by
            rcases hcur with ⟨_, rfl⟩ | ⟨l, b, r', ds0, _, rfl, hbi, _, _, _, _, _⟩
            · simp [curOut, curFlat]
            · simp [curOut, curFlat, flat_flatten b hbi]
          simp only [List.flatMap_append, this, curFlat, hfl2]
          simp
          exact hbf0
        · intro o ho
          rcases hgood o ho with h | h
          · rcases List.mem_append.1 h with h1 | h1
            · exact Or.inl h1
            · rcases hcur with ⟨_, rfl⟩ | ⟨l, b, r', ds0, _, rfl, hbi, hne, hoki, hg, _, _⟩
              · simp [curOut] at h1
              · simp only [curOut, List.mem_singleton] at h1; subst h1
                exact Or.inr (goodOut_flatten b hbi hne hoki r' ds0 hg)
          · exact Or.inr h
    · simp only [if_true]
      rw [hfd, ht]
      simp only [if_true]
      have := ih last cur done hok' hpw.2 (fun l hl d' hd' => hlast l hl d' (List.mem_cons_of_mem _ hd')) hcur
      obtain ⟨outs, he, hfl, hgood, hrep⟩ := this
      refine ⟨outs, he, hfl, hgood, ?_⟩
      rw [hrep, started_cons]; simp [hr, ht]

end ZoektModel.C16
