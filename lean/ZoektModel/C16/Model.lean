/-
C16 — model of index/merge.go (`merge`, `explode`, `addDocument`) and of the parts of index/shard_builder.go they drive
(`setRepository`, `ShardBuilder.Add`: language / branch-mask / sub-repository tables, section checks).

A shard is modelled by the tables the Go code reads (`indexData`): repository metadata, and per document the *indices*
into those tables (repository index, branch mask, sub-repository index, language code).  `addDocument` decodes a document
through the input shard's tables and `ShardBuilder.Add` re-encodes it through the tables of the shard being built;
content preservation is the statement that decoding the output gives back what decoding the input gave.

File names and contents are opaque strings (hex in the line protocol); only the content length is interpreted
(section bound check).
-/
namespace ZoektModel.C16

structure Sym where
  kind : String
  parent : String
  parentKind : String
  deriving DecidableEq, Repr

structure Sec where
  start : Nat
  stop : Nat
  deriving DecidableEq, Repr

/-- `zoekt.Repository` as far as merge looks at it; `rest` stands for every field that is copied verbatim -/
structure RepoMeta where
  name : String
  tomb : Bool
  prio : Int
  branches : List String   -- Branches[i].Name
  subPaths : List String   -- indexData.subRepoPaths[repo]: "" and the SubRepoMap keys, sorted
  rest : String
  deriving DecidableEq, Repr

/-- one document as stored -/
structure Doc where
  repo : Nat              -- indexData.repos[doc]
  name : String
  content : String        -- hex
  mask : Nat              -- fileBranchMasks[doc]
  sub : Nat               -- subRepos[doc]
  lang : Nat              -- language code
  cat : Nat               -- category byte
  secs : List Sec         -- symbol sections (byte offsets)
  syms : List (Option Sym)
  redetect : String       -- what `DetermineLanguageIfUnknown` answers for (name, content): an oracle of the model
  deriving DecidableEq, Repr

structure Shard where
  repos : List RepoMeta
  docs : List Doc
  langs : List String     -- code ↦ language name
  deriving DecidableEq, Repr

/-- a document after `addDocument` has looked everything up: `index.Document` -/
structure DocRec where
  name : String
  content : String
  branches : List String
  subPath : String
  lang : String
  cat : Nat
  secs : List Sec
  syms : List (Option Sym)
  deriving DecidableEq, Repr

def contentLen (hex : String) : Nat := hex.length / 2

/-- `for mask != 0 { if mask&1 != 0 { append(branchNames[repo][id]) }; id <<= 1; mask >>= 1 }`: the names of the set
    bits, lowest first; a bit without a branch yields "" (missing map key). `fuel` bounds the 64-bit mask. -/
def maskNames (branches : List String) : Nat → Nat → Nat → List String
  | 0, _, _ => []
  | fuel + 1, j, mask =>
    if mask = 0 then [] else
    let rest := maskNames branches fuel (j + 1) (mask / 2)
    if mask % 2 = 1 then branches.getD j "" :: rest else rest

/-- `addDocument`'s look-ups -/
def decode (langs : List String) (r : RepoMeta) (d : Doc) : DocRec :=
  { name := d.name, content := d.content,
    branches := maskNames r.branches 64 0 d.mask,
    subPath := r.subPaths.getD d.sub "",
    lang := langs.getD d.lang "",
    cat := d.cat, secs := d.secs, syms := d.syms }

/-- first index of `x` in `l` -/
def indexOf? (x : String) : List String → Option Nat
  | [] => none
  | y :: ys => if y = x then some 0 else (indexOf? x ys).map (· + 1)

/-- `ShardBuilder.branchMask` folded over `doc.Branches`: `none` = "no branch found" -/
def encodeMask (branches : List String) : List String → Option Nat
  | [] => some 0
  | b :: bs =>
    match indexOf? b branches, encodeMask branches bs with
    | some i, some m => some (2 ^ i ||| m)
    | _, _ => none

/-- sections as `ShardBuilder.Add` wants them after its sort: no overlap, inside the content -/
def secsOk (clen : Nat) : List Sec → Bool
  | [] => true
  | [s] => decide (s.stop ≤ clen)
  | a :: b :: r => decide (a.stop ≤ b.start) && secsOk clen (b :: r)

/-- the shard being built: repositories with their documents (a document always joins the last repository),
    and the language table in order of first use -/
structure Builder where
  groups : List (RepoMeta × List Doc)
  langs : List String
  deriving Repr

def langCode (langs : List String) (l : String) : List String × Nat :=
  match indexOf? l langs with
  | some i => (langs, i)
  | none => (langs ++ [l], langs.length)

/-- `ShardBuilder.Add(doc)` for a document that carries a category (no binary re-check) and no skip reason.
    `redetect`: language detection for documents whose language is unknown. -/
def Builder.add (b : Builder) (rec : DocRec) (redetect : String) : Option Builder :=
  match b.groups.getLast? with
  | none => none                       -- no repository: cannot happen after setRepository
  | some (r, ds) =>
    let lang := if rec.lang = "" then redetect else rec.lang
    -- `addDocument`: if the input shard has no metadata for one of the sections (`symbols.data` = nil) the document is
    -- handed over with `SymbolsMetaData = nil`: the sections are kept, the document contributes no metadata
    let syms := if rec.syms.any (·.isNone) then [] else rec.syms
    if !secsOk (contentLen rec.content) rec.secs then none else
    match indexOf? rec.subPath r.subPaths, encodeMask r.branches rec.branches with
    | some sub, some mask =>
      let (langs', code) := langCode b.langs lang
      let d : Doc := { repo := b.groups.length - 1, name := rec.name, content := rec.content, mask := mask, sub := sub,
                       lang := code, cat := rec.cat, secs := rec.secs, syms := syms, redetect := redetect }
      some { groups := b.groups.dropLast ++ [(r, ds ++ [d])], langs := langs' }
    | _, _ => none

/-- `setRepository`: more than 64 branches is an error -/
def Builder.setRepository (b : Builder) (r : RepoMeta) : Option Builder :=
  if r.branches.length > 64 then none else some { b with groups := b.groups ++ [(r, [])] }

/-- `lastRepoID > repoID` (`none` = -1) -/
def gtLast (last : Option Nat) (n : Nat) : Bool :=
  match last with
  | some l => decide (l > n)
  | none => false

/-- the document loop shared by `merge` and `explode` over one input shard.
    `last`: `lastRepoID` (`none` = -1).  Tombstoned repositories are skipped, a repository starts at its first
    document, ids must not decrease. -/
def copyDocs (sh : Shard) : List Doc → Option Nat → Builder → Option Builder
  | [], _, b => some b
  | d :: ds, last, b =>
    match sh.repos[d.repo]? with
    | none => none                        -- index out of range: Go panics; excluded by well-formedness
    | some r =>
      if r.tomb then copyDocs sh ds last b else
      let start : Option Builder :=
        if last = some d.repo then some b
        else if gtLast last d.repo then none
        else b.setRepository r
      match start with
      | none => none
      | some b1 =>
        match b1.add (decode sh.langs r d) d.redetect with
        | none => none
        | some b2 => copyDocs sh ds (some d.repo) b2

/-- stable sort by descending priority of the first repository: the head of the list precedes the rest, so it is
    inserted in front of the first element that does not have a strictly higher priority
    (`sort.Slice` with `prio[i] > prio[j]`; it is an insertion sort, hence stable, for the ≤ 12 inputs the harness uses) -/
def firstPrio (sh : Shard) : Int := match sh.repos with | r :: _ => r.prio | [] => 0

def insertByPrio (sh : Shard) : List Shard → List Shard
  | [] => [sh]
  | x :: xs => if firstPrio sh ≥ firstPrio x then sh :: x :: xs else x :: insertByPrio sh xs

def sortByPrio : List Shard → List Shard
  | [] => []
  | sh :: rest => insertByPrio sh (sortByPrio rest)

def mergeLoop : List Shard → Builder → Option Builder
  | [], b => some b
  | sh :: rest, b =>
    match copyDocs sh sh.docs none b with
    | none => none
    | some b' => mergeLoop rest b'

/-- the shard a builder writes -/
def Builder.flatten (b : Builder) : Shard :=
  { repos := b.groups.map (·.1), docs := b.groups.flatMap (·.2), langs := b.langs }

/-! ### symbol metadata of a written shard

The writer stores one global metadata table (the metadata every document contributed, in order) and a reader looks the
metadata of section `i` of a document up at `(number of sections of all earlier documents) + i`.  When every document
contributed one entry per section the look-up returns what the document contributed; otherwise the table is shorter
than the section table and the look-ups are shifted (`nil` beyond the end). -/

def metaTable (docs : List Doc) : List Sym := docs.flatMap fun d => d.syms.filterMap id

def realignDocs (table : List Sym) : List Doc → Nat → List Doc
  | [], _ => []
  | d :: ds, off =>
    { d with syms := (List.range d.secs.length).map fun i => table[off + i]? } ::
      realignDocs table ds (off + d.secs.length)

/-- every document has exactly one metadata entry per section -/
def aligned (sh : Shard) : Bool :=
  sh.docs.all fun d => d.syms.length == d.secs.length && d.syms.all (·.isSome)

/-- the shard as a reader sees it -/
def realign (sh : Shard) : Shard :=
  if aligned sh then sh else { sh with docs := realignDocs (metaTable sh.docs) sh.docs 0 }

/-- `index.merge(ds...)`: `none` = error -/
def merge (shards : List Shard) : Option Shard :=
  if shards.isEmpty then none else
  -- an input without repositories cannot be loaded (ErrEmptyShard) / `repoMetaData[0]` would panic
  if shards.any (·.repos.isEmpty) then none else
  (mergeLoop (sortByPrio shards) ⟨[], []⟩).map fun b => realign b.flatten

/-- `explode`: one fresh builder per repository run; each writes its own shard.
    `cur`: the builder of the repository being copied, `done`: shards already written (in order). -/
def explodeLoop (sh : Shard) : List Doc → Option Nat → Option Builder → List Shard → Option (List Shard)
  | [], _, cur, done => some (done ++ (match cur with | some b => [b.flatten] | none => []))
  | d :: ds, last, cur, done =>
    match sh.repos[d.repo]? with
    | none => none
    | some r =>
      if r.tomb then explodeLoop sh ds last cur done else
      if last = some d.repo then
        match cur with
        | none => none
        | some b =>
          match b.add (decode sh.langs r d) d.redetect with
          | none => none
          | some b' => explodeLoop sh ds last (some b') done
      else if gtLast last d.repo then none
      else
        let done' := done ++ (match cur with | some b => [b.flatten] | none => [])
        match (Builder.mk [] []).setRepository r with
        | none => none
        | some b0 =>
          match b0.add (decode sh.langs r d) d.redetect with
          | none => none
          | some b' => explodeLoop sh ds (some d.repo) (some b') done'

def explode (sh : Shard) : Option (List Shard) := (explodeLoop sh sh.docs none none []).map (List.map realign)

end ZoektModel.C16
