/-
C16 — the repositories at which the copy loop starts a new group are exactly the live repositories that have a
document (`liveRepos`, the index-based definition of the spec).
-/
import ZoektModel.C16.WfLemmas
namespace ZoektModel.C16

theorem liveReposAux_step (sh : Shard) (i : Nat) (r : RepoMeta) (h : sh.repos[i]? = some r) :
    liveReposAux sh (sh.repos.drop i) i =
      if !r.tomb && hasDocs sh i then r :: liveReposAux sh (sh.repos.drop (i + 1)) (i + 1)
      else liveReposAux sh (sh.repos.drop (i + 1)) (i + 1) := by
  have hi : i < sh.repos.length := by
    rcases Nat.lt_or_ge i sh.repos.length with h' | h'
    · exact h'
    · rw [List.getElem?_eq_none h'] at h; cases h
  have : sh.repos.drop i = r :: sh.repos.drop (i + 1) := by
    rw [List.drop_eq_getElem_cons hi]
    rw [List.getElem?_eq_getElem hi] at h
    cases h; rfl
  rw [this]; rfl

/-- indices without (live) documents contribute nothing -/
theorem liveReposAux_skip (sh : Shard) (n : Nat) :
    ∀ i, i + n ≤ sh.repos.length →
      (∀ k r, i ≤ k → k < i + n → sh.repos[k]? = some r → r.tomb = false → hasDocs sh k = false) →
      liveReposAux sh (sh.repos.drop i) i = liveReposAux sh (sh.repos.drop (i + n)) (i + n) := by
  induction n with
  | zero => intro i _ _; rfl
  | succ n ih =>
    intro i hle hno
    have hi : i < sh.repos.length := by omega
    have hr : sh.repos[i]? = some sh.repos[i] := List.getElem?_eq_getElem hi
    rw [liveReposAux_step sh i _ hr]
    have hskip : (!sh.repos[i].tomb && hasDocs sh i) = false := by
      cases ht : sh.repos[i].tomb
      · simp [hno i _ (Nat.le_refl _) (by omega) hr ht]
      · simp
    rw [hskip]
    simp only [Bool.false_eq_true, if_false]
    have := ih (i + 1) (by omega) (fun k r h1 h2 => hno k r (by omega) (by omega))
    rw [this]
    have e : i + 1 + n = i + (n + 1) := by omega
    rw [e]

def nextIdx : Option Nat → Nat
  | none => 0
  | some l => l + 1

theorem started_eq_liveRepos_aux (sh : Shard) :
    ∀ (ds : List Doc) (last : Option Nat),
      (∀ d ∈ ds, ∃ r, sh.repos[d.repo]? = some r) → ds.Pairwise (fun a c => a.repo ≤ c.repo) →
      (∀ l, last = some l → ∀ d ∈ ds, l ≤ d.repo) →
      (∀ l, last = some l → ∃ r, sh.repos[l]? = some r ∧ r.tomb = false) →
      (∀ k r, nextIdx last ≤ k → sh.repos[k]? = some r → r.tomb = false →
        (hasDocs sh k = true ↔ ∃ d ∈ ds, d.repo = k)) →
      started sh ds last = liveReposAux sh (sh.repos.drop (nextIdx last)) (nextIdx last) := by
  intro ds
  induction ds with
  | nil =>
    intro last _ _ _ hl hC
    unfold started
    -- nothing left: every remaining index is skipped
    have hle : nextIdx last ≤ sh.repos.length := by
      cases last with
      | none => simp [nextIdx]
      | some l =>
        obtain ⟨r, hr, _⟩ := hl l rfl
        rcases Nat.lt_or_ge l sh.repos.length with h' | h'
        · simp [nextIdx]; omega
        · rw [List.getElem?_eq_none h'] at hr; cases hr
    have := liveReposAux_skip sh (sh.repos.length - nextIdx last) (nextIdx last) (by omega)
      (by
        intro k r h1 _ hr ht
        rw [Bool.eq_false_iff]
        intro hh
        obtain ⟨d, hd, _⟩ := (hC k r h1 hr ht).1 hh
        cases hd)
    rw [this]
    have e : nextIdx last + (sh.repos.length - nextIdx last) = sh.repos.length := by omega
    rw [e]
    simp [liveReposAux]
  | cons d ds ih =>
    intro last hrange hpw hlast hl hC
    obtain ⟨r, hr⟩ := hrange d (by simp)
    rw [List.pairwise_cons] at hpw
    have hrange' : ∀ d' ∈ ds, ∃ r, sh.repos[d'.repo]? = some r := fun d' h => hrange d' (List.mem_cons_of_mem _ h)
    unfold started
    simp only [hr]
    cases ht : r.tomb
    · simp only [Bool.false_eq_true, if_false]
      have hnext : ∀ l, some d.repo = some l → ∀ d' ∈ ds, l ≤ d'.repo := by
        intro l hl' d' hd'; cases hl'; exact hpw.1 d' hd'
      have hC' : ∀ k r', nextIdx (some d.repo) ≤ k → sh.repos[k]? = some r' → r'.tomb = false →
          (hasDocs sh k = true ↔ ∃ d' ∈ ds, d'.repo = k) := by
        intro k r' hk hr' ht'
        have hk' : d.repo + 1 ≤ k := hk
        have hge : nextIdx last ≤ k := by
          cases last with
          | none => simp [nextIdx]
          | some l => have := hlast l rfl d (by simp); simp [nextIdx]; omega
        rw [hC k r' hge hr' ht']
        constructor
        · rintro ⟨d', hd', he⟩
          rcases List.mem_cons.1 hd' with rfl | h
          · omega
          · exact ⟨d', h, he⟩
        · rintro ⟨d', hd', he⟩; exact ⟨d', List.mem_cons_of_mem _ hd', he⟩
      by_cases hsame : last = some d.repo
      · rw [if_pos hsame]
        have := ih (some d.repo) hrange' hpw.2 hnext (by intro l hl'; cases hl'; exact ⟨r, hr, ht⟩) hC'
        rw [this, hsame]
      · rw [if_neg hsame]
        have := ih (some d.repo) hrange' hpw.2 hnext (by intro l hl'; cases hl'; exact ⟨r, hr, ht⟩) hC'
        rw [this]
        -- skip from nextIdx last to d.repo, then emit r
        have hle : nextIdx last ≤ d.repo := by
          cases hlv : last with
          | none => simp [nextIdx]
          | some l =>
            have h1 := hlast l hlv d (by simp)
            have h2 : l ≠ d.repo := by intro h; apply hsame; rw [hlv, h]
            simp [nextIdx]; omega
        have hdlt : d.repo < sh.repos.length := by
          rcases Nat.lt_or_ge d.repo sh.repos.length with h' | h'
          · exact h'
          · rw [List.getElem?_eq_none h'] at hr; cases hr
        have hskip := liveReposAux_skip sh (d.repo - nextIdx last) (nextIdx last) (by omega)
          (by
            intro k r' h1 h2 hr' ht'
            rw [Bool.eq_false_iff]
            intro hh
            obtain ⟨d', hd', he⟩ := (hC k r' h1 hr' ht').1 hh
            rcases List.mem_cons.1 hd' with rfl | h
            · omega
            · have := hpw.1 d' h; omega)
        have e : nextIdx last + (d.repo - nextIdx last) = d.repo := by omega
        rw [hskip, e, liveReposAux_step sh d.repo r hr]
        have hhas : hasDocs sh d.repo = true := (hC d.repo r hle hr ht).2 ⟨d, by simp, rfl⟩
        simp [ht, hhas, nextIdx]
    · simp only [if_true]
      apply ih last hrange' hpw.2 (fun l hl' d' hd' => hlast l hl' d' (List.mem_cons_of_mem _ hd')) hl
      intro k r' hk hr' ht'
      rw [hC k r' hk hr' ht']
      constructor
      · rintro ⟨d', hd', he⟩
        rcases List.mem_cons.1 hd' with rfl | h
        · rw [he, hr'] at hr; cases hr; rw [ht] at ht'; cases ht'
        · exact ⟨d', h, he⟩
      · rintro ⟨d', hd', he⟩; exact ⟨d', List.mem_cons_of_mem _ hd', he⟩

theorem started_eq_liveRepos (sh : Shard) (hwf : WF sh) : started sh sh.docs none = liveRepos sh := by
  have := started_eq_liveRepos_aux sh sh.docs none
    (fun d hd => by obtain ⟨r, hr, _⟩ := hwf.docs d hd; exact ⟨r, hr⟩) hwf.mono
    (by intro l hl; cases hl) (by intro l hl; cases hl)
    (by
      intro k r _ _ _
      unfold hasDocs
      rw [List.any_eq_true]
      constructor
      · rintro ⟨d, hd, he⟩; exact ⟨d, hd, by simpa using he⟩
      · rintro ⟨d, hd, he⟩; exact ⟨d, hd, by simpa using he⟩)
  simpa [nextIdx, liveRepos] using this

end ZoektModel.C16
