import ZoektModel.Basic.Proto
import ZoektModel.C16.Spec
namespace ZoektModel.C16
open ZoektModel ZoektModel.Proto

/-! line protocol (see harness/cmd/c16/main.go)

  merge   <shard>#<shard>…          answer / implementation:  ok <shard> | err
  explode <shard>                   answer / implementation:  ok <shard>#… | ok - | err

  shard := <repos>~<docs>~<langs>
  repos := name:tomb:prio:branches:subpaths:rest ; …      (`_` = none; lists are `,`-joined, `_` = empty list)
  docs  := repo:name:content:mask:sub:lang:cat:secs:syms[:redetect] ; …
  secs  := a-b,…      syms := kind.parent.parentKind | nil , …
All strings are hex (`-` = empty string) and stay hex inside the model.
-/

/-- hex strings: the empty string is spelled `-` on the wire and is "" inside the model -/
def unS (s : String) : String := if s == "-" then "" else s
def toS (s : String) : String := if s.isEmpty then "-" else s

def listOf (sep : String) (s : String) : List String := if s == "_" then [] else s.splitOn sep
def showL (sep : String) (l : List String) : String := if l.isEmpty then "_" else sep.intercalate l
def listS (s : String) : List String := (listOf "," s).map unS
def showS (l : List String) : String := showL "," (l.map toS)

def parseRepo (s : String) : Option RepoMeta :=
  match s.splitOn ":" with
  | [n, t, p, bs, sp, rest] => do
    pure { name := unS n, tomb := ← bool? t, prio := ← p.toInt?, branches := listS bs, subPaths := listS sp, rest := rest }
  | _ => none

def showRepo (r : RepoMeta) : String :=
  s!"{toS r.name}:{showBool r.tomb}:{r.prio}:{showS r.branches}:{showS r.subPaths}:{r.rest}"

def parseSec (s : String) : Option Sec :=
  match s.splitOn "-" with
  | [a, b] => do pure ⟨← a.toNat?, ← b.toNat?⟩
  | _ => none

def parseSym (s : String) : Option (Option Sym) :=
  if s == "nil" then some none else
  match s.splitOn "." with
  | [k, p, pk] => some (some ⟨unS k, unS p, unS pk⟩)
  | _ => none

def showSym : Option Sym → String
  | none => "nil"
  | some s => s!"{toS s.kind}.{toS s.parent}.{toS s.parentKind}"

def parseDoc (s : String) : Option Doc :=
  match s.splitOn ":" with
  | repo :: n :: c :: mask :: sub :: lang :: cat :: secs :: syms :: tl => do
    let rd ← match tl with
      | [] => some ""
      | [x] => some (unS x)
      | _ => none
    pure { repo := ← repo.toNat?, name := unS n, content := unS c, mask := ← mask.toNat?, sub := ← sub.toNat?,
           lang := ← lang.toNat?, cat := ← cat.toNat?, secs := ← (listOf "," secs).mapM parseSec,
           syms := ← (listOf "," syms).mapM parseSym, redetect := rd }
  | _ => none

def showDoc (d : Doc) : String :=
  let secs := showL "," (d.secs.map fun s => s!"{s.start}-{s.stop}")
  let syms := showL "," (d.syms.map showSym)
  s!"{d.repo}:{toS d.name}:{toS d.content}:{d.mask}:{d.sub}:{d.lang}:{d.cat}:{secs}:{syms}"

def parseShard (s : String) : Option Shard :=
  match s.splitOn "~" with
  | [rs, ds, ls] => do
    pure { repos := ← (listOf ";" rs).mapM parseRepo, docs := ← (listOf ";" ds).mapM parseDoc, langs := listS ls }
  | _ => none

def showShard (sh : Shard) : String :=
  showL ";" (sh.repos.map showRepo) ++ "~" ++ showL ";" (sh.docs.map showDoc) ++ "~" ++ showS sh.langs

def parseShards (s : String) : Option (List Shard) :=
  if s == "-" then some [] else (s.splitOn "#").mapM parseShard

def showShards (l : List Shard) : String := if l.isEmpty then "-" else "#".intercalate (l.map showShard)

def handle (line : String) : String :=
  let (inp, impl) := splitCase line
  match fields inp with
  | ["merge", ss] =>
    match parseShards ss with
    | none => badCase "shards"
    | some shards =>
      let model := match merge shards with
        | none => "err"
        | some out => "ok " ++ showShard out
      -- inputs outside the theorems' hypotheses (e.g. symbol sections without metadata): the statement is not evaluated,
      -- the model must still predict the implementation exactly
      if !shards.all wfB then
        (if model == impl then answer model else badCase "input outside the theorems' hypotheses (wfB) and model ≠ implementation")
      else
      match fields impl with
      | ["err"] => answer model
      | ["ok", o] =>
        match parseShard o with
        | none => badCase "impl shard"
        | some out =>
          match checkMerge shards out with
          | none => answer model
          | some key => specFail model ("merge-" ++ key)
      | _ => badCase "impl"
  | ["explode", s] =>
    match parseShard s with
    | none => badCase "shard"
    | some sh =>
      let model := match explode sh with
        | none => "err"
        | some outs => "ok " ++ showShards outs
      if !wfB sh then
        (if model == impl then answer model else badCase "input outside the theorems' hypotheses (wfB) and model ≠ implementation")
      else
      match fields impl with
      | ["err"] => answer model
      | ["ok", o] =>
        match parseShards o with
        | none => badCase "impl shards"
        | some outs =>
          match checkExplode sh outs with
          | none => answer model
          | some key => specFail model ("explode-" ++ key)
      | _ => badCase "impl"
  | _ => badCase "op"

def main : IO Unit := runLines handle
end ZoektModel.C16
