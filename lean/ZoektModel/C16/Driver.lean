import ZoektModel.Basic.Proto
namespace ZoektModel.C16
/-- stub: no model driver for C16 yet -/
def main : IO Unit := ZoektModel.Proto.runLines (fun _ => ZoektModel.Proto.badCase "no model driver for C16")
end ZoektModel.C16
