/-
C16 — the executable hypothesis check `wfB` implies the hypotheses `WF` of the theorems.
-/
import ZoektModel.C16.ExplodeLemmas
namespace ZoektModel.C16

theorem nodupS_iff (l : List String) : nodupS l = true ↔ l.Nodup := by
  induction l with
  | nil => simp [nodupS]
  | cons x xs ih => simp [nodupS, ih]

theorem docOkB_sound (langs : List String) (r : RepoMeta) (d : Doc) (h : docOkB langs r d = true) : DocOk langs r d := by
  unfold docOkB at h
  simp only [Bool.and_eq_true, decide_eq_true_eq, Bool.or_eq_true, bne_iff_ne, ne_eq, beq_iff_eq, nodupS_iff] at h
  obtain ⟨⟨⟨⟨⟨⟨⟨⟨h1, h2⟩, h3⟩, h4⟩, h5⟩, h6⟩, h7⟩, h8⟩, h9⟩ := h
  refine ⟨h1, h2, h3, h4, h5, h6, fun he => by rcases h7 with h | h; exact absurd he h; exact h, ?_, h9⟩
  rw [Bool.eq_false_iff]
  intro hany
  rw [List.any_eq_true] at hany
  obtain ⟨x, hx, hn⟩ := hany
  have := List.all_eq_true.1 h8 x hx
  cases x with
  | none => simp at this
  | some y => simp at hn

theorem wfB_sound (sh : Shard) (h : wfB sh = true) : WF sh := by
  unfold wfB at h
  simp only [Bool.and_eq_true, List.all_eq_true] at h
  constructor
  · intro d hd
    have := h.1 d hd
    split at this
    · rename_i r hr
      refine ⟨r, hr, fun ht => ?_⟩
      rw [ht] at this
      exact docOkB_sound _ _ _ (by simpa using this)
    · cases this
  · have := (nondecreasing_iff _).1 h.2
    rwa [List.pairwise_map] at this

end ZoektModel.C16
