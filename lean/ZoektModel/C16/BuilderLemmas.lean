/-
C16 — `ShardBuilder.Add` after `addDocument`: the document joins the last repository and decodes, through the tables of
the shard being built, to what it decoded to through the tables of the input shard.
-/
import ZoektModel.C16.Lemmas
namespace ZoektModel.C16

/-- every document of the shard under construction, decoded through its own tables -/
def bflat (b : Builder) : List (RepoMeta × DocRec) :=
  b.groups.flatMap fun g => g.2.map fun d => (g.1, decode b.langs g.1 d)

/-- invariant of the builder: documents carry the index of their group, language codes are valid, no tombstones -/
structure BI (b : Builder) : Prop where
  idx : ∀ (i : Nat) (g : RepoMeta × List Doc), b.groups[i]? = some g → ∀ d ∈ g.2, d.repo = i
  lang : ∀ g ∈ b.groups, ∀ d ∈ g.2, d.lang < b.langs.length
  live : ∀ g ∈ b.groups, g.1.tomb = false

/-- what makes a stored document copyable: the tables it points into are sane -/
structure DocOk (langs : List String) (r : RepoMeta) (d : Doc) : Prop where
  br_nodup : r.branches.Nodup
  br_len : r.branches.length ≤ 64
  mask_lt : d.mask < 2 ^ r.branches.length
  sub_nodup : r.subPaths.Nodup
  sub_lt : d.sub < r.subPaths.length
  secs : secsOk (contentLen d.content) d.secs = true
  lang_idem : langs.getD d.lang "" = "" → d.redetect = ""
  syms : d.syms.any (·.isNone) = false
  symlen : d.syms.length = d.secs.length

/-- every document of the builder is again copyable (so the written shard can be merged / exploded again) -/
def OKI (b : Builder) : Prop := ∀ g ∈ b.groups, ∀ d ∈ g.2, DocOk b.langs g.1 d

theorem DocOk_langs_ext (langs suf : List String) (r : RepoMeta) (d : Doc) (h : d.lang < langs.length)
    (hok : DocOk langs r d) : DocOk (langs ++ suf) r d :=
  { hok with lang_idem := by rw [getD_append_of_lt langs suf d.lang h]; exact hok.lang_idem }

theorem decode_langs_ext (langs suf : List String) (r : RepoMeta) (d : Doc) (h : d.lang < langs.length) :
    decode (langs ++ suf) r d = decode langs r d := by
  unfold decode; rw [getD_append_of_lt langs suf d.lang h]

theorem add_spec (langs : List String) (b : Builder) (pre : List (RepoMeta × List Doc)) (r : RepoMeta) (ds : List Doc)
    (hg : b.groups = pre ++ [(r, ds)]) (hbi : BI b) (d : Doc) (hok : DocOk langs r d) :
    ∃ b' ds', b.add (decode langs r d) d.redetect = some b' ∧ BI b' ∧
      bflat b' = bflat b ++ [(r, decode langs r d)] ∧ b'.groups = pre ++ [(r, ds')] ∧ ds' ≠ [] ∧ (OKI b → OKI b') := by
  have hlast : b.groups.getLast? = some (r, ds) := by rw [hg]; simp
  have hlang : (if (decode langs r d).lang = "" then d.redetect else (decode langs r d).lang) = (decode langs r d).lang := by
    split
    · rename_i h; rw [h]; exact hok.lang_idem h
    · rfl
  have hsub : indexOf? (decode langs r d).subPath r.subPaths = some d.sub := indexOf_getD _ hok.sub_nodup _ hok.sub_lt
  have hmask : encodeMask r.branches (decode langs r d).branches = some d.mask :=
    mask_roundtrip0 _ hok.br_nodup hok.br_len _ hok.mask_lt
  have hsecs : secsOk (contentLen (decode langs r d).content) (decode langs r d).secs = true := hok.secs
  have hsyms : (decode langs r d).syms.any (·.isNone) = false := hok.syms
  obtain ⟨hl1, hl2, suf, hl3⟩ := langCode_spec b.langs (decode langs r d).lang
  generalize hlc : langCode b.langs (decode langs r d).lang = lc at hl1 hl2 hl3
  obtain ⟨langs', code⟩ := lc
  simp only at hl1 hl2 hl3
  let d' : Doc := { repo := b.groups.length - 1, name := d.name, content := d.content, mask := d.mask, sub := d.sub,
                    lang := code, cat := d.cat, secs := d.secs, syms := d.syms, redetect := d.redetect }
  refine ⟨{ groups := pre ++ [(r, ds ++ [d'])], langs := langs' }, ds ++ [d'], ?_, ?_, ?_, rfl, by simp, ?_⟩
  · unfold Builder.add
    rw [hlast]
    simp only [hlang, hsecs, hsyms, hsub, hmask, hlc, Bool.not_true, Bool.false_eq_true, if_false]
    have : b.groups.dropLast = pre := by rw [hg]; simp
    rw [this]
    rfl
  · constructor
    · intro i g hgi d2 hd2
      simp only at hgi
      have hlen : b.groups.length = pre.length + 1 := by rw [hg]; simp
      by_cases hi : i < pre.length
      · rw [List.getElem?_append_left hi] at hgi
        exact hbi.idx i g (by rw [hg, List.getElem?_append_left hi]; exact hgi) d2 hd2
      · have hi' : i = pre.length := by
          have : i < (pre ++ [(r, ds ++ [d'])]).length := by
            rcases Nat.lt_or_ge i (pre ++ [(r, ds ++ [d'])]).length with h | h
            · exact h
            · rw [List.getElem?_eq_none h] at hgi; cases hgi
          simp at this; omega
        subst hi'
        rw [List.getElem?_append_right (Nat.le_refl _)] at hgi
        simp at hgi
        subst hgi
        rcases List.mem_append.1 hd2 with h | h
        · exact hbi.idx pre.length (r, ds) (by rw [hg, List.getElem?_append_right (Nat.le_refl _)]; simp) d2 h
        · simp only [List.mem_singleton] at h; subst h
          show b.groups.length - 1 = pre.length
          omega
    · intro g hgm d2 hd2
      simp only at hgm ⊢
      rw [hl3]
      rcases List.mem_append.1 hgm with h | h
      · have := hbi.lang g (by rw [hg]; exact List.mem_append_left _ h) d2 hd2
        rw [List.length_append]; omega
      · simp only [List.mem_singleton] at h; subst h
        rcases List.mem_append.1 hd2 with h2 | h2
        · have := hbi.lang (r, ds) (by rw [hg]; simp) d2 h2
          rw [List.length_append]; omega
        · simp only [List.mem_singleton] at h2; subst h2
          rw [← hl3]; exact hl2
    · intro g hgm
      simp only at hgm
      rcases List.mem_append.1 hgm with h | h
      · exact hbi.live g (by rw [hg]; exact List.mem_append_left _ h)
      · simp only [List.mem_singleton] at h; subst h
        exact hbi.live (r, ds) (by rw [hg]; simp)
  · -- the decoded view
    have hold : ∀ g ∈ b.groups, ∀ d2 ∈ g.2, decode langs' g.1 d2 = decode b.langs g.1 d2 := by
      intro g hgm d2 hd2
      rw [hl3]; exact decode_langs_ext _ _ _ _ (hbi.lang g hgm d2 hd2)
    have hnew : decode langs' r d' = decode langs r d := by
      unfold decode
      simp only [d', hl1]
      rfl
    unfold bflat
    simp only [hg, List.flatMap_append, List.flatMap_cons, List.flatMap_nil, List.append_nil, List.map_append,
      List.map_cons, List.map_nil, hnew]
    have h1 : (pre.flatMap fun g => g.2.map fun d => (g.1, decode langs' g.1 d)) =
        (pre.flatMap fun g => g.2.map fun d => (g.1, decode b.langs g.1 d)) := by
      apply List.flatMap_congr
      intro g hgm
      apply List.map_congr_left
      intro d2 hd2
      rw [hold g (by rw [hg]; exact List.mem_append_left _ hgm) d2 hd2]
    have h2 : (ds.map fun d => (r, decode langs' r d)) = (ds.map fun d => (r, decode b.langs r d)) := by
      apply List.map_congr_left
      intro d2 hd2
      rw [hold (r, ds) (by rw [hg]; simp) d2 hd2]
    rw [h1, h2]
    simp
  · -- the builder's documents stay copyable
    intro hoki g hgm d2 hd2
    simp only at hgm ⊢
    have hnewok : DocOk langs' r d' :=
      { br_nodup := hok.br_nodup, br_len := hok.br_len, mask_lt := hok.mask_lt, sub_nodup := hok.sub_nodup,
        sub_lt := hok.sub_lt, secs := hok.secs, syms := hok.syms, symlen := hok.symlen,
        lang_idem := by
          intro he
          have : langs.getD d.lang "" = "" := by
            have h' : (decode langs r d).lang = langs.getD d.lang "" := rfl
            rw [← h', ← hl1]; exact he
          exact hok.lang_idem this }
    rcases List.mem_append.1 hgm with h | h
    · rw [hl3]
      have hm : g ∈ b.groups := by rw [hg]; exact List.mem_append_left _ h
      exact DocOk_langs_ext _ _ _ _ (hbi.lang g hm d2 hd2) (hoki g hm d2 hd2)
    · simp only [List.mem_singleton] at h; subst h
      rcases List.mem_append.1 hd2 with h2 | h2
      · rw [hl3]
        have hm : (r, ds) ∈ b.groups := by rw [hg]; simp
        exact DocOk_langs_ext _ _ _ _ (hbi.lang _ hm d2 h2) (hoki _ hm d2 h2)
      · simp only [List.mem_singleton] at h2; subst h2; exact hnewok

end ZoektModel.C16
