/-
C16 — from the builder to the written shard (`flatten`), and the loop over the input shards.
-/
import ZoektModel.C16.CopyLemmas
namespace ZoektModel.C16

/-- what `flat`, `outShardOk` see of the documents of the groups `suf`, which sit behind `pre` in the builder -/
theorem flatten_aux (b : Builder) (hbi : BI b) :
    ∀ (suf pre : List (RepoMeta × List Doc)), b.groups = pre ++ suf →
      (suf.flatMap (·.2)).filterMap (flatDoc b.flatten) =
        suf.flatMap (fun g => g.2.map fun d => (g.1, decode b.langs g.1 d)) ∧
      (∀ d ∈ suf.flatMap (·.2), pre.length ≤ d.repo ∧ d.repo < b.groups.length) ∧
      (suf.flatMap (·.2)).Pairwise (fun a c => a.repo ≤ c.repo) := by
  intro suf
  induction suf with
  | nil => intro pre _; simp
  | cons g suf ih =>
    intro pre hg
    have hgi : b.groups[pre.length]? = some g := by rw [hg]; simp
    have hidx : ∀ d ∈ g.2, d.repo = pre.length := hbi.idx _ g hgi
    have hlive : g.1.tomb = false := hbi.live g (by rw [hg]; simp)
    have hlen : pre.length < b.groups.length := by rw [hg]; simp
    obtain ⟨i1, i2, i3⟩ := ih (pre ++ [g]) (by rw [hg]; simp)
    have hfd : ∀ d ∈ g.2, flatDoc b.flatten d = some (g.1, decode b.langs g.1 d) := by
      intro d hd
      unfold flatDoc Builder.flatten
      simp only [hidx d hd, List.getElem?_map, hgi, Option.map_some, hlive, Bool.false_eq_true, if_false]
    refine ⟨?_, ?_, ?_⟩
    · simp only [List.flatMap_cons, List.filterMap_append, i1]
      congr 1
      rw [List.filterMap_congr hfd]
      simp [List.filterMap_eq_map']
    · intro d hd
      simp only [List.flatMap_cons, List.mem_append] at hd
      rcases hd with h | h
      · rw [hidx d h]; exact ⟨Nat.le_refl _, hlen⟩
      · have := i2 d h
        simp at this; omega
    · simp only [List.flatMap_cons]
      rw [List.pairwise_append]
      refine ⟨?_, i3, ?_⟩
      · apply List.Pairwise.imp_of_mem (R := fun _ _ => True)
        · intro a c ha hc _; rw [hidx a ha, hidx c hc]
        · exact List.pairwise_of_forall (fun _ _ => trivial)
      · intro a ha c hc
        have := i2 c hc
        rw [hidx a ha]; simp at this; omega

theorem flat_flatten (b : Builder) (hbi : BI b) : flat b.flatten = bflat b := by
  have := (flatten_aux b hbi b.groups [] rfl).1
  rw [flat_eq]
  exact this

theorem nondecreasing_iff (l : List Nat) : nondecreasing l = true ↔ l.Pairwise (· ≤ ·) := by
  induction l with
  | nil => simp [nondecreasing]
  | cons a t ih =>
    cases t with
    | nil => simp [nondecreasing]
    | cons c r =>
      simp only [nondecreasing, Bool.and_eq_true, decide_eq_true_eq, ih]
      constructor
      · rintro ⟨h1, h2⟩
        rw [List.pairwise_cons]
        refine ⟨?_, h2⟩
        intro x hx
        rcases List.mem_cons.1 hx with rfl | hx'
        · exact h1
        · rw [List.pairwise_cons] at h2; exact Nat.le_trans h1 (h2.1 x hx')
      · intro h
        rw [List.pairwise_cons] at h
        exact ⟨h.1 c (by simp), h.2⟩

theorem outShardOk_flatten (b : Builder) (hbi : BI b) (hne : NE b) : outShardOk b.flatten = true := by
  obtain ⟨_, i2, i3⟩ := flatten_aux b hbi b.groups [] rfl
  unfold outShardOk
  simp only [Bool.and_eq_true, List.all_eq_true, decide_eq_true_eq, Bool.not_eq_true']
  refine ⟨⟨⟨?_, ?_⟩, ?_⟩, ?_⟩
  · rw [nondecreasing_iff, List.pairwise_map]; exact i3
  · intro d hd
    have := (i2 d hd).2
    simpa [Builder.flatten] using this
  · intro r hr
    simp only [Builder.flatten, List.mem_map] at hr
    obtain ⟨g, hg, rfl⟩ := hr
    exact hbi.live g hg
  · intro i hi
    simp only [Builder.flatten, List.mem_range, List.length_map] at hi
    have hgi : b.groups[i]? = some b.groups[i] := List.getElem?_eq_getElem hi
    have hnon := hne b.groups[i] (List.getElem_mem hi)
    obtain ⟨d, hd⟩ := List.exists_mem_of_ne_nil _ hnon
    unfold hasDocs
    rw [List.any_eq_true]
    refine ⟨d, ?_, ?_⟩
    · simp only [Builder.flatten, List.mem_flatMap]
      exact ⟨b.groups[i], List.getElem_mem hi, hd⟩
    · simp [hbi.idx i _ hgi d hd]

/-- a shard `merge` / `explode` can copy -/
structure WF (sh : Shard) : Prop where
  docs : DocsOk sh sh.docs
  mono : sh.docs.Pairwise (fun a c => a.repo ≤ c.repo)

/-- the written shard is again a well-formed input -/
theorem WF_flatten (b : Builder) (hbi : BI b) (hoki : OKI b) : WF b.flatten := by
  obtain ⟨_, _, i3⟩ := flatten_aux b hbi b.groups [] rfl
  refine ⟨?_, by simpa [Builder.flatten] using i3⟩
  intro d hd
  simp only [Builder.flatten, List.mem_flatMap] at hd
  obtain ⟨g, hg, hdg⟩ := hd
  obtain ⟨i, hi, hgi⟩ := List.getElem_of_mem hg
  have hgi' : b.groups[i]? = some g := by rw [List.getElem?_eq_getElem hi, hgi]
  refine ⟨g.1, ?_, fun _ => hoki g hg d hdg⟩
  simp [Builder.flatten, hbi.idx i g hgi' d hdg, hgi']

/-- a builder whose documents are all copyable writes an aligned shard: a reader sees the metadata as contributed -/
theorem realign_flatten (b : Builder) (hoki : OKI b) : realign b.flatten = b.flatten := by
  have : aligned b.flatten = true := by
    unfold aligned
    rw [List.all_eq_true]
    intro d hd
    simp only [Builder.flatten, List.mem_flatMap] at hd
    obtain ⟨g, hg, hdg⟩ := hd
    have ok := hoki g hg d hdg
    have h1 : d.syms.all (·.isSome) = true := by
      rw [List.all_eq_true]
      intro x hx
      cases x with
      | some y => rfl
      | none =>
        have := ok.syms
        rw [Bool.eq_false_iff] at this
        exact absurd (List.any_eq_true.2 ⟨none, hx, rfl⟩) this
    simp [ok.symlen, h1]
  unfold realign
  rw [if_pos this]

theorem mergeLoop_spec :
    ∀ (shards : List Shard) (b : Builder), (∀ sh ∈ shards, WF sh) → BI b → NE b → OKI b →
      ∃ b', mergeLoop shards b = some b' ∧ BI b' ∧ NE b' ∧ OKI b' ∧ bflat b' = bflat b ++ shards.flatMap flat ∧
        b'.groups.map (·.1) = b.groups.map (·.1) ++ shards.flatMap (fun sh => started sh sh.docs none) := by
  intro shards
  induction shards with
  | nil => intro b _ hbi hne hoki; exact ⟨b, rfl, hbi, hne, hoki, by simp, by simp⟩
  | cons sh rest ih =>
    intro b hwf hbi hne hoki
    have hw := hwf sh (by simp)
    obtain ⟨b1, hc, hbi1, hne1, hoki1, hfl1, hrep1⟩ :=
      copyDocs_spec sh sh.docs none b hw.docs hw.mono (by intro l hl; cases hl) hbi hne hoki (by intro l hl; cases hl)
    obtain ⟨b', hm, hbi', hne', hoki', hfl', hrep'⟩ := ih b1 (fun s hs => hwf s (List.mem_cons_of_mem _ hs)) hbi1 hne1 hoki1
    refine ⟨b', ?_, hbi', hne', hoki', ?_, ?_⟩
    · unfold mergeLoop; rw [hc]; exact hm
    · rw [hfl', hfl1, List.flatMap_cons, flat_eq]; simp
    · rw [hrep', hrep1]; simp

end ZoektModel.C16
