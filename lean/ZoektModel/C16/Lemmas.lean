/-
C16 — table round trips: branch mask ↔ branch names, sub-repository index ↔ path, language code ↔ name.
-/
import ZoektModel.C16.Spec
import Mathlib.Data.List.Nodup
import Mathlib.Tactic.Ring
namespace ZoektModel.C16

theorem indexOf_getD (l : List String) (h : l.Nodup) (i : Nat) (hi : i < l.length) :
    indexOf? (l.getD i "") l = some i := by
  induction l generalizing i with
  | nil => simp at hi
  | cons a t ih =>
    rw [List.nodup_cons] at h
    cases i with
    | zero => simp [indexOf?]
    | succ j =>
      have hj : j < t.length := by simpa using hi
      have hne : ¬ a = t.getD j "" := by
        intro he
        apply h.1
        rw [he, List.getD_eq_getElem?_getD, List.getElem?_eq_getElem hj]
        simp
      simp only [List.getD_cons_succ, indexOf?, hne, if_false, ih h.2 j hj, Option.map_some]

theorem indexOf_lt (x : String) (l : List String) (i : Nat) (h : indexOf? x l = some i) :
    i < l.length ∧ l.getD i "" = x := by
  induction l generalizing i with
  | nil => simp [indexOf?] at h
  | cons a t ih =>
    unfold indexOf? at h
    split at h
    · cases h; simp [*]
    · cases hr : indexOf? x t with
      | none => simp [hr] at h
      | some j =>
        simp [hr] at h; subst h
        have := ih j hr
        refine ⟨by simpa using this.1, ?_⟩
        rw [List.getD_cons_succ]; exact this.2

/-- decoding a branch mask and re-encoding the names gives the mask back (shifted to its bit position) -/
theorem mask_roundtrip (branches : List String) (hnd : branches.Nodup) :
    ∀ (fuel j m : Nat), m < 2 ^ (branches.length - j) → branches.length - j ≤ fuel →
      encodeMask branches (maskNames branches fuel j m) = some (m * 2 ^ j) := by
  intro fuel
  induction fuel with
  | zero =>
    intro j m hm hf
    have : branches.length - j = 0 := by omega
    rw [this] at hm
    have : m = 0 := by omega
    subst this
    simp [maskNames, encodeMask]
  | succ fuel ih =>
    intro j m hm hf
    unfold maskNames
    by_cases h0 : m = 0
    · subst h0; simp [encodeMask]
    · rw [if_neg h0]
      have hlen : 0 < branches.length - j := by
        rcases Nat.eq_zero_or_pos (branches.length - j) with h | h
        · rw [h] at hm; omega
        · exact h
      have hj : j < branches.length := by omega
      have hm2 : m / 2 < 2 ^ (branches.length - (j + 1)) := by
        have e : branches.length - j = (branches.length - (j + 1)) + 1 := by omega
        rw [e, Nat.pow_succ] at hm
        omega
      have hrec := ih (j + 1) (m / 2) hm2 (by omega)
      simp only []
      by_cases hodd : m % 2 = 1
      · rw [if_pos hodd]
        unfold encodeMask
        rw [indexOf_getD branches hnd j hj, hrec]
        simp only []
        congr 1
        have hlt : 2 ^ j < 2 ^ (j + 1) := Nat.pow_lt_pow_right (by omega) (by omega)
        have := Nat.two_pow_add_eq_or_of_lt hlt (m / 2)
        rw [Nat.or_comm, Nat.mul_comm (m / 2), ← this, Nat.pow_succ]
        have hm' : m = 2 * (m / 2) + 1 := by omega
        calc 2 ^ j * 2 * (m / 2) + 2 ^ j = 2 ^ j * (2 * (m / 2) + 1) := by ring
          _ = m * 2 ^ j := by rw [← hm', Nat.mul_comm]
      · rw [if_neg hodd, hrec]
        congr 1
        have hm' : m = 2 * (m / 2) := by omega
        rw [Nat.pow_succ]
        calc m / 2 * (2 ^ j * 2) = (2 * (m / 2)) * 2 ^ j := by ring
          _ = m * 2 ^ j := by rw [← hm']

theorem mask_roundtrip0 (branches : List String) (hnd : branches.Nodup) (hlen : branches.length ≤ 64) (m : Nat)
    (hm : m < 2 ^ branches.length) : encodeMask branches (maskNames branches 64 0 m) = some m := by
  have := mask_roundtrip branches hnd 64 0 m (by simpa using hm) (by omega)
  simpa using this

theorem langCode_spec (langs : List String) (l : String) :
    (langCode langs l).1.getD (langCode langs l).2 "" = l ∧ (langCode langs l).2 < (langCode langs l).1.length ∧
    ∃ suf, (langCode langs l).1 = langs ++ suf := by
  unfold langCode
  cases h : indexOf? l langs with
  | some i =>
    have := indexOf_lt l langs i h
    exact ⟨this.2, this.1, [], by simp⟩
  | none =>
    refine ⟨?_, by simp, [l], rfl⟩
    simp [List.getD_eq_getElem?_getD]

theorem getD_append_of_lt (l suf : List String) (i : Nat) (h : i < l.length) : (l ++ suf).getD i "" = l.getD i "" := by
  simp [List.getD_eq_getElem?_getD, List.getElem?_append_left h]

end ZoektModel.C16
