/-
C03 — helper lemmas, part 6: from chunk candidates to chunk matches.
-/
import ZoektModel.C03.Lemmas5
namespace ZoektModel.C03
open ZoektModel

theorem sep_pairwise {nls : Newlines} (ctx : Nat) (acc : List Chunk) (h : Sep ctx acc)
    (hinv : ∀ ch ∈ acc, ChunkInv nls ch) :
    acc.Pairwise (fun newer older => older.lastLine + 2 * ctx < newer.firstLine) := by
  induction acc with
  | nil => exact List.Pairwise.nil
  | cons b t ih =>
    cases t with
    | nil => simp
    | cons a r =>
      obtain ⟨h1, h2⟩ := h
      have iht := ih h2 (fun ch hch => hinv ch (by simp [hch]))
      refine List.pairwise_cons.mpr ⟨?_, iht⟩
      intro x hx
      rcases List.mem_cons.mp hx with rfl | hx
      · exact h1
      · have := (List.pairwise_cons.mp iht).1 x hx
        have := (hinv a (by simp)).firstLast
        omega

/-- the properties of the result of `chunkCandidates` -/
theorem chunkCandidates_spec {nls : Newlines} (wf : WF nls) (ctx : Nat) (ms : List Cand)
    (hp : ms.Pairwise (fun a b => a.off + a.sz ≤ b.off)) (hin : ∀ c ∈ ms, c.off + c.sz ≤ nls.fileSize) :
    (∀ ch ∈ chunkCandidates nls ctx ms, ChunkInv nls ch) ∧
    (chunkCandidates nls ctx ms).Pairwise (fun a b => a.lastLine + 2 * ctx < b.firstLine) ∧
    (chunkCandidates nls ctx ms).flatMap (·.cands) = ms := by
  have inv := foldl_chunkStep_inv wf ctx ms [] []
    { each := by simp, sep := trivial, flat := by simp, headMax := by intro h r hr; simp at hr } (by simpa using hp) hin
  simp only [List.nil_append] at inv
  unfold chunkCandidates
  refine ⟨?_, ?_, ?_⟩
  · intro ch hch
    simp only [List.mem_reverse, List.mem_map] at hch
    obtain ⟨c0, hc0, rfl⟩ := hch
    have h := inv.each c0 hc0
    exact { ne := by simpa using h.ne, first1 := h.first1, firstLast := h.firstLast,
            candsIn := by intro c hc; exact h.candsIn c (by simpa using hc),
            maxLe := h.maxLe, lastIs := h.lastIs }
  · rw [List.pairwise_reverse, List.pairwise_map]
    exact sep_pairwise ctx _ inv.sep inv.each
  · have := inv.flat
    rw [← List.map_reverse, List.flatMap_map]
    exact this

theorem chunkRanges_mem (data : Bytes) (nls : Newlines) : ∀ (cs : List Cand) (st : ColSt),
    ∀ r ∈ (chunkRanges data nls st cs).2, ∃ c ∈ cs, r.start.byteOff = c.off ∧ r.start.line = atOffset nls c.off ∧
      r.stop.byteOff = c.off + c.sz ∧ r.stop.line = atOffset nls (max c.off (max (c.off + c.sz) 1 - 1)) := by
  intro cs
  induction cs with
  | nil => intro st r hr; simp [chunkRanges] at hr
  | cons c t ih =>
    intro st r hr
    simp only [chunkRanges, offsetRangeToLineRange] at hr
    rcases List.mem_cons.mp hr with rfl | hr
    · exact ⟨c, by simp, rfl, rfl, rfl, rfl⟩
    · obtain ⟨c', hc', h⟩ := ih _ r hr
      exact ⟨c', by simp [hc'], h⟩

theorem chunkRanges_offsets (data : Bytes) (nls : Newlines) : ∀ (cs : List Cand) (st : ColSt),
    (chunkRanges data nls st cs).2.map (fun r => (r.start.byteOff, r.stop.byteOff)) = cs.map (fun c => (c.off, c.off + c.sz)) := by
  intro cs
  induction cs with
  | nil => intro st; simp [chunkRanges]
  | cons c t ih =>
    intro st
    simp only [chunkRanges, List.map_cons, List.cons.injEq, true_and]
    exact ih _

theorem slice_length (data : Bytes) (lo hi : Nat) (h1 : lo ≤ hi) (h2 : hi ≤ data.length) :
    (Bytes.slice data lo hi).length = hi - lo := by
  simp [Bytes.slice]; omega

theorem isLineBoundary_lineStart (data : Bytes) (n : Nat) :
    isLineBoundary data (lineStart (Newlines.ofData data) (n : Int)) = true := by
  have wf := wf_ofData data
  rw [lineStart_nat wf]
  unfold isLineBoundary
  split
  · simp
  · split
    · rename_i hl
      have hmem := getD_mem hl
      have := (mem_nlLocsFrom data 0 _).mp hmem
      simp only [Nat.sub_zero, Nat.zero_add, Nat.zero_le, true_and] at this
      simp only [Nat.add_sub_cancel, Bool.or_eq_true, beq_iff_eq, Bool.and_eq_true, decide_eq_true_eq]
      right
      exact ⟨by omega, this.2⟩
    · simp [Newlines.ofData]

/-- the chunk match built for one chunk -/
def mkChunk (data : Bytes) (nls : Newlines) (ctx : Nat) (ch : Chunk) (ranges : List Range) : ChunkMatch :=
  { content := getLines nls data ((max (ch.firstLine - ctx) 1 : Nat) : Int) ((ch.lastLine : Int) + ctx + 1),
    contentStart := ⟨lineStart nls ((max (ch.firstLine - ctx) 1 : Nat) : Int), max (ch.firstLine - ctx) 1, 1⟩,
    fileName := false, ranges := ranges }

theorem chunkMatches_cons (data : Bytes) (nls : Newlines) (ctx : Nat) (st : ColSt) (ch : Chunk) (r : List Chunk) :
    chunkMatches data nls ctx st (ch :: r) =
      mkChunk data nls ctx ch (chunkRanges data nls st ch.cands).2 ::
        chunkMatches data nls ctx (chunkRanges data nls st ch.cands).1 r := rfl

theorem mkChunk_span (data : Bytes) (ctx : Nat) (ch : Chunk) (ranges : List Range)
    (inv : ChunkInv (Newlines.ofData data) ch) :
    (mkChunk data (Newlines.ofData data) ctx ch ranges).contentStart.byteOff =
      lineStart (Newlines.ofData data) ((max (ch.firstLine - ctx) 1 : Nat) : Int) ∧
    (mkChunk data (Newlines.ofData data) ctx ch ranges).contentStart.byteOff +
      (mkChunk data (Newlines.ofData data) ctx ch ranges).content.length =
        lineStart (Newlines.ofData data) ((ch.lastLine + ctx + 1 : Nat) : Int) ∧
    (mkChunk data (Newlines.ofData data) ctx ch ranges).content =
      Bytes.slice data (lineStart (Newlines.ofData data) ((max (ch.firstLine - ctx) 1 : Nat) : Int))
        (lineStart (Newlines.ofData data) ((ch.lastLine + ctx + 1 : Nat) : Int)) := by
  have wf := wf_ofData data
  have hfl := inv.firstLast
  have hf1 := inv.first1
  have e : ((ch.lastLine : Int) + ctx + 1) = ((ch.lastLine + ctx + 1 : Nat) : Int) := by omega
  have hmono := lineStart_mono wf (show max (ch.firstLine - ctx) 1 ≤ ch.lastLine + ctx + 1 by omega)
  have hle := lineStart_le_size wf (ch.lastLine + ctx + 1)
  have hc : (mkChunk data (Newlines.ofData data) ctx ch ranges).content =
      Bytes.slice data (lineStart (Newlines.ofData data) ((max (ch.firstLine - ctx) 1 : Nat) : Int))
        (lineStart (Newlines.ofData data) ((ch.lastLine + ctx + 1 : Nat) : Int)) := by
    simp only [mkChunk]
    rw [getLines_eq _ _ _ _ (by omega), e]
  refine ⟨rfl, ?_, hc⟩
  rw [hc, slice_length _ _ _ hmono (by simpa [Newlines.ofData] using hle)]
  simp only [mkChunk]
  omega

end ZoektModel.C03

namespace ZoektModel.C03
open ZoektModel

theorem mkChunk_ok (data : Bytes) (ctx : Nat) (ch : Chunk) (ranges : List Range)
    (inv : ChunkInv (Newlines.ofData data) ch) (hne : ranges.length > 0)
    (hr : ∀ r ∈ ranges, ∃ c ∈ ch.cands, r.start.byteOff = c.off ∧ r.start.line = atOffset (Newlines.ofData data) c.off ∧
      r.stop.byteOff = c.off + c.sz ∧
      r.stop.line = atOffset (Newlines.ofData data) (max c.off (max (c.off + c.sz) 1 - 1))) :
    chunkShapeOk data (mkChunk data (Newlines.ofData data) ctx ch ranges) = true ∧
    chunkLinesOk data (mkChunk data (Newlines.ofData data) ctx ch ranges) = true := by
  have wf := wf_ofData data
  obtain ⟨hs1, hs2, hs3⟩ := mkChunk_span data ctx ch ranges inv
  have hle := lineStart_le_size wf (ch.lastLine + ctx + 1)
  have hsz : (Newlines.ofData data).fileSize = data.length := rfl
  have hf1 := inv.first1
  have hfl := inv.firstLast
  have hmono1 := lineStart_mono wf (show max (ch.firstLine - ctx) 1 ≤ ch.firstLine by omega)
  have hmono2 := lineStart_mono wf (show ch.lastLine + 1 ≤ ch.lastLine + ctx + 1 by omega)
  have hmono3 := lineStart_mono wf (show max (ch.firstLine - ctx) 1 ≤ ch.lastLine + ctx + 1 by omega)
  have e1 : ((ch.lastLine : Int) + 1) = ((ch.lastLine + 1 : Nat) : Int) := by omega
  have hmax := inv.maxLe
  rw [e1] at hmax
  constructor
  · simp only [chunkShapeOk, Bool.and_eq_true, decide_eq_true_eq, beq_iff_eq, List.all_eq_true]
    refine ⟨⟨⟨⟨⟨⟨⟨?_, rfl⟩, ?_⟩, ?_⟩, ?_⟩, ?_⟩, hne⟩, ?_⟩
    · show max (ch.firstLine - ctx) 1 ≥ 1; omega
    · rw [hs1]; exact lineStart_ofData data _
    · rw [hs2, hs1]; exact hs3
    · rw [hs2]; omega
    · rw [hs2]; exact isLineBoundary_lineStart data _
    · intro r hrm
      obtain ⟨c, hc, h1, _, h3, _⟩ := hr r hrm
      have := inv.candsIn c hc
      rw [hs2, hs1, h1, h3]
      refine ⟨⟨?_, ?_⟩, ?_⟩ <;> omega
  · simp only [chunkLinesOk, List.all_eq_true, Bool.and_eq_true, beq_iff_eq]
    intro r hrm
    obtain ⟨c, _, h1, h2, h3, h4⟩ := hr r hrm
    show r.start.line = lineOf data r.start.byteOff ∧ r.stop.line = endLineOf data r.start.byteOff r.stop.byteOff
    rw [h1, h2, h3, h4, atOffset_ofData, atOffset_ofData]
    refine ⟨rfl, ?_⟩
    unfold endLineOf
    congr 1
    omega

theorem chunksDisjoint_of_pairwise (l : List ChunkMatch)
    (h : l.Pairwise (fun a b => a.contentStart.byteOff + a.content.length ≤ b.contentStart.byteOff)) :
    chunksDisjoint l = true := by
  induction l with
  | nil => rfl
  | cons a t ih =>
    cases t with
    | nil => rfl
    | cons b r =>
      rw [List.pairwise_cons] at h
      simp only [chunksDisjoint, chunkBefore, Bool.and_eq_true, decide_eq_true_eq]
      exact ⟨h.1 b (by simp), ih h.2⟩

/-- everything `chunkMatches` builds from well-formed chunks -/
theorem chunkMatches_ok (data : Bytes) (ctx : Nat) : ∀ (chs : List Chunk) (st : ColSt),
    (∀ ch ∈ chs, ChunkInv (Newlines.ofData data) ch) →
    chs.Pairwise (fun a b => a.lastLine + 2 * ctx < b.firstLine) →
    (∀ cm ∈ chunkMatches data (Newlines.ofData data) ctx st chs,
        cm.fileName = false ∧ chunkShapeOk data cm = true ∧ chunkLinesOk data cm = true) ∧
    (∀ cm ∈ chunkMatches data (Newlines.ofData data) ctx st chs, ∃ ch ∈ chs,
        cm.contentStart.byteOff = lineStart (Newlines.ofData data) ((max (ch.firstLine - ctx) 1 : Nat) : Int) ∧
        cm.contentStart.byteOff + cm.content.length = lineStart (Newlines.ofData data) ((ch.lastLine + ctx + 1 : Nat) : Int)) ∧
    (chunkMatches data (Newlines.ofData data) ctx st chs).Pairwise
      (fun a b => a.contentStart.byteOff + a.content.length ≤ b.contentStart.byteOff) ∧
    (chunkMatches data (Newlines.ofData data) ctx st chs).flatMap
        (fun cm => cm.ranges.map (fun r => (r.start.byteOff, r.stop.byteOff))) =
      (chs.flatMap (·.cands)).map (fun c => (c.off, c.off + c.sz)) := by
  intro chs
  induction chs with
  | nil => intro st _ _; simp [chunkMatches]
  | cons ch r ih =>
    intro st hinv hpw
    have wf := wf_ofData data
    rw [chunkMatches_cons]
    have hch := hinv ch (by simp)
    obtain ⟨i1, i2, i3, i4⟩ := ih (chunkRanges data (Newlines.ofData data) st ch.cands).1
      (fun c hc => hinv c (by simp [hc])) (List.pairwise_cons.mp hpw).2
    have hlen : (chunkRanges data (Newlines.ofData data) st ch.cands).2.length > 0 := by
      have := congrArg List.length (chunkRanges_offsets data (Newlines.ofData data) ch.cands st)
      simp only [List.length_map] at this
      rw [this]
      exact List.length_pos_iff.mpr hch.ne
    have hok := mkChunk_ok data ctx ch _ hch hlen (chunkRanges_mem data _ ch.cands st)
    obtain ⟨hs1, hs2, _⟩ := mkChunk_span data ctx ch (chunkRanges data (Newlines.ofData data) st ch.cands).2 hch
    refine ⟨?_, ?_, ?_, ?_⟩
    · intro cm hcm
      rcases List.mem_cons.mp hcm with rfl | hcm
      · exact ⟨rfl, hok.1, hok.2⟩
      · exact i1 cm hcm
    · intro cm hcm
      rcases List.mem_cons.mp hcm with rfl | hcm
      · exact ⟨ch, by simp, hs1, hs2⟩
      · obtain ⟨c', hc', h⟩ := i2 cm hcm
        exact ⟨c', by simp [hc'], h⟩
    · refine List.pairwise_cons.mpr ⟨?_, i3⟩
      intro cm hcm
      obtain ⟨c', hc', h1, _⟩ := i2 cm hcm
      have hsep := (List.pairwise_cons.mp hpw).1 c' hc'
      rw [hs2, h1]
      exact lineStart_mono wf (by omega)
    · rw [List.flatMap_cons, List.flatMap_cons, List.map_append, i4]
      congr 1
      exact chunkRanges_offsets data _ ch.cands st

end ZoektModel.C03
