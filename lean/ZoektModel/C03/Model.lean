/-
C03 (and the content-provider half of C02) — model of index/contentprovider.go:
`newlines.atOffset / lineStart / offsetRangeToLineRange / getLines`, `chunkCandidates`, `columnHelper.get`,
`fillMatches / fillContentMatches`, `fillChunkMatches / fillContentChunkMatches`, and of
index/matchtree.go `breakOnNewlines / breakMatchesOnNewlines`, index/eval.go `sortByOffsetSlice.Less`.

Offsets are `Nat` (Go: `uint32`; shard contents are < 4 GiB, the format's own limit). Line numbers that Go computes
as `int` and that may go negative (`num - numContextLines`) are `Int`. Scores, symbol info and `BestLineMatch`
are not modelled.
-/
import ZoektModel.C03.Utf8
namespace ZoektModel.C03
open ZoektModel

/-! ## Go's `sort.Search` -/

/-- `sort.Search(n, f)` is `search f 0 n`: the loop `for i < j { h := (i+j)/2; if !f(h) {i = h+1} else {j = h} }` -/
def search (f : Nat → Bool) (i j : Nat) : Nat :=
  if h : i < j then
    let m := (i + j) / 2
    if f m then search f i m else search f (m + 1) j
  else i
termination_by j - i
decreasing_by all_goals omega

/-! ## candidates -/

/-- observable part of a `candidateMatch` -/
structure Cand where
  fileName : Bool
  off : Nat
  sz : Nat
  deriving Repr, DecidableEq

def Cand.stop (c : Cand) : Nat := c.off + c.sz

/-- `sortByOffsetSlice.Less` -/
def candLess (a b : Cand) : Bool :=
  if a.fileName != b.fileName then a.fileName
  else if a.off = b.off then decide (a.sz > b.sz)
  else decide (a.off < b.off)

/-- insertion into a list sorted by `candLess` (after the equal elements: a stable sort) -/
def insertCand (c : Cand) : List Cand → List Cand
  | [] => [c]
  | x :: r => if candLess c x then c :: x :: r else x :: insertCand c r

/-- `sort.Sort(sortByOffsetSlice(ms))`. Go's sort is not stable; candidates that compare equal have the same
    `fileName`, `off` and `sz`, so every sorted permutation is the same list of observable values. -/
def sortCands (l : List Cand) : List Cand := l.foldr insertCand []

/-- `sort.IsSorted` -/
def isSortedCands : List Cand → Bool
  | [] => true
  | [_] => true
  | a :: b :: r => !candLess b a && isSortedCands (b :: r)

/-! ## newlines -/

structure Newlines where
  locs : List Nat
  fileSize : Nat
  deriving Repr

def nlLocsFrom : Bytes → Nat → List Nat
  | [], _ => []
  | b :: r, i => if b = 10 then i :: nlLocsFrom r (i + 1) else nlLocsFrom r (i + 1)

/-- the newline table the builder stores for a document: offsets of every '\n' -/
def Newlines.ofData (data : Bytes) : Newlines := ⟨nlLocsFrom data 0, data.length⟩

/-- `newlines.atOffset` -/
def atOffset (nls : Newlines) (off : Nat) : Nat :=
  search (fun n => decide (nls.locs.getD n 0 ≥ off)) 0 nls.locs.length + 1

/-- `newlines.lineStart` -/
def lineStart (nls : Newlines) (ln : Int) : Nat :=
  let startIdx := ln - 2
  if startIdx < 0 then 0
  else if startIdx.toNat ≥ nls.locs.length then nls.fileSize
  else nls.locs.getD startIdx.toNat 0 + 1

/-- `newlines.offsetRangeToLineRange` -/
def offsetRangeToLineRange (nls : Newlines) (s e : Nat) : Nat × Nat :=
  (atOffset nls s, atOffset nls (max s (max e 1 - 1)))

/-- `newlines.getLines` (`nil` when `low ≥ high`) -/
def getLines (nls : Newlines) (data : Bytes) (low high : Int) : Bytes :=
  if low ≥ high then [] else Bytes.slice data (lineStart nls low) (lineStart nls high)

/-! ## breakOnNewlines -/

/-- the loop of `breakOnNewlines`: `i` runs over `[cm.off, cm.off+cm.sz)`, `start` is `addMe.byteOffset`;
    `bytes` is `text[i:]` -/
def breakLoop (fileName : Bool) (stop : Nat) : Bytes → Nat → Nat → List Cand
  | [], _, start => if stop - start ≠ 0 then [⟨fileName, start, stop - start⟩] else []
  | b :: rest, i, start =>
    if i ≥ stop then (if stop - start ≠ 0 then [⟨fileName, start, stop - start⟩] else [])
    else if b = 10 then
      (if i - start ≠ 0 then [⟨fileName, start, i - start⟩] else []) ++ breakLoop fileName stop rest (i + 1) (i + 1)
    else breakLoop fileName stop rest (i + 1) start

/-- `breakOnNewlines(cm, text)` (the Go code indexes `text[i]` for `i < cm.off+cm.sz`: callers pass in-bounds ranges) -/
def breakOnNewlines (text : Bytes) (cm : Cand) : List Cand :=
  breakLoop cm.fileName (cm.off + cm.sz) (text.drop cm.off) cm.off cm.off

/-- `breakMatchesOnNewlines` -/
def breakMatchesOnNewlines (text : Bytes) (cms : List Cand) : List Cand :=
  cms.flatMap (breakOnNewlines text)

/-! ## line matches -/

structure Frag where
  off : Nat          -- Offset
  lineOff : Int      -- LineOffset
  len : Nat          -- MatchLength
  deriving Repr, DecidableEq

structure LineMatch where
  line : Bytes
  lineStart : Nat
  lineEnd : Nat
  lineNumber : Nat
  before : Bytes
  after : Bytes
  fileName : Bool
  frags : List Frag
  deriving Repr, DecidableEq

/-- Go `bytes.IndexByte(b, '\n')` -/
def indexNL : Bytes → Option Nat
  | [] => none
  | b :: r => if b = 10 then some 0 else (indexNL r).map (· + 1)

/-- the loop "taking lines until we pass the last index" of `fillContentMatches` -/
def extendLine (data : Bytes) (endMatch : Nat) (nextLineStart : Nat) : Nat :=
  if _h : nextLineStart < data.length ∧ endMatch > nextLineStart then
    match indexNL (data.drop nextLineStart) with
    | none => extendLine data endMatch data.length
    | some next => extendLine data endMatch (nextLineStart + next + 1)
  else nextLineStart
termination_by data.length - nextLineStart
decreasing_by all_goals omega

/-- `endMatch` after the inner loop: the end of the last candidate taken (or of `ms[0]` if none is taken) -/
def lastStop (dflt : Nat) : List Cand → Nat
  | [] => dflt
  | [c] => c.stop
  | _ :: r => lastStop dflt r

theorem dropWhile_length_le {α} (p : α → Bool) (l : List α) : (l.dropWhile p).length ≤ l.length := by
  induction l with
  | nil => simp
  | cons a t ih => simp only [List.dropWhile_cons]; split <;> simp <;> omega

/-- `fillContentMatches`; `none` is the `log.Panicf("… infinite loop …")` of the Go code (no candidate on the line).
    The inner loop takes `ms[0]` iff `ms[0].off < nextLineStart` and then the longest run of following candidates
    below `nextLineStart`. -/
def fillContentMatches (data : Bytes) (nls : Newlines) (ctx : Nat) : List Cand → Option (List LineMatch)
  | [] => some []
  | m :: tl =>
    let num := atOffset nls m.off
    let ls := lineStart nls num
    let nextLineStart := lineStart nls (num + 1)
    if ¬ m.off < nextLineStart then none else
    let lineCands := m :: tl.takeWhile (fun c => decide (c.off < nextLineStart))
    let endMatch := lastStop m.stop lineCands
    let lineEnd := extendLine data endMatch nextLineStart
    let lm : LineMatch :=
      { line := Bytes.slice data ls lineEnd, lineStart := ls, lineEnd := lineEnd, lineNumber := num,
        before := if ctx > 0 then getLines nls data ((num : Int) - ctx) num else [],
        after := if ctx > 0 then getLines nls data ((num : Int) + 1) ((num : Int) + 1 + ctx) else [],
        fileName := false,
        frags := lineCands.map fun c => ⟨c.off, (c.off : Int) - ls, c.sz⟩ }
    match fillContentMatches data nls ctx (tl.dropWhile (fun c => decide (c.off < nextLineStart))) with
    | none => none
    | some r => some (lm :: r)
termination_by ms => ms.length
decreasing_by
  have := dropWhile_length_le (fun c : Cand => decide (c.off < lineStart nls (↑(atOffset nls m.off) + 1))) tl
  simp only [List.length_cons]
  omega

/-- the file-name line of `fillMatches` (no content candidates): `Line` = the file name, one fragment per candidate -/
def fileNameLine (name : Bytes) (ms : List Cand) : LineMatch :=
  { line := name, lineStart := 0, lineEnd := 0, lineNumber := 0, before := [], after := [], fileName := true,
    frags := ms.map fun c => ⟨c.off, c.off, c.sz⟩ }

/-- `contentProvider.fillMatches` -/
def fillMatches (data name : Bytes) (ctx : Nat) (ms : List Cand) : Option (List LineMatch) :=
  let contentMatches := ms.filter (fun c => !c.fileName)
  if contentMatches.length > 0 then
    fillContentMatches data (Newlines.ofData data) ctx (breakMatchesOnNewlines data contentMatches)
  else some [fileNameLine name ms]

/-! ## chunk matches -/

structure Chunk where
  cands : List Cand     -- in reverse order while accumulating
  firstLine : Nat
  lastLine : Nat
  minOff : Nat
  maxOff : Nat
  deriving Repr, DecidableEq

/-- one iteration of `chunkCandidates`; the accumulator is in reverse order (head = `chunks[len(chunks)-1]`) -/
def chunkStep (nls : Newlines) (ctx : Nat) (acc : List Chunk) (m : Cand) : List Chunk :=
  let startOffset := m.off
  let endOffset := m.off + m.sz
  let (firstLine, lastLine) := offsetRangeToLineRange nls startOffset endOffset
  match acc with
  | last :: older =>
    if (last.lastLine : Int) + ctx ≥ (firstLine : Int) - ctx then
      (if last.maxOff < endOffset then
        { last with cands := m :: last.cands, lastLine := lastLine, maxOff := endOffset }
       else { last with cands := m :: last.cands }) :: older
    else ⟨[m], firstLine, lastLine, startOffset, endOffset⟩ :: acc
  | [] => [⟨[m], firstLine, lastLine, startOffset, endOffset⟩]

/-- `chunkCandidates` -/
def chunkCandidates (nls : Newlines) (ctx : Nat) (ms : List Cand) : List Chunk :=
  ((ms.foldl (chunkStep nls ctx) []).map fun c => { c with cands := c.cands.reverse }).reverse

structure ColSt where
  lastLineOffset : Nat := 0
  lastOffset : Nat := 0
  lastRuneCount : Nat := 0
  deriving Repr

/-- `columnHelper.get` -/
def colGet (data : Bytes) (st : ColSt) (lineOffset offset : Nat) : ColSt × Nat :=
  let rc :=
    if lineOffset = st.lastLineOffset ∧ offset ≥ st.lastOffset then
      st.lastRuneCount + runeCount (Bytes.slice data st.lastOffset offset)
    else runeCount (Bytes.slice data lineOffset offset)
  (⟨lineOffset, offset, rc⟩, rc + 1)

structure Loc where
  byteOff : Nat
  line : Nat
  col : Nat
  deriving Repr, DecidableEq

structure Range where
  start : Loc
  stop : Loc
  deriving Repr, DecidableEq

structure ChunkMatch where
  content : Bytes
  contentStart : Loc
  fileName : Bool
  ranges : List Range
  deriving Repr, DecidableEq

/-- the ranges of one chunk, threading the column cache -/
def chunkRanges (data : Bytes) (nls : Newlines) : ColSt → List Cand → ColSt × List Range
  | st, [] => (st, [])
  | st, cm :: r =>
    let startOffset := cm.off
    let endOffset := cm.off + cm.sz
    let (startLine, endLine) := offsetRangeToLineRange nls startOffset endOffset
    let (st1, c1) := colGet data st (lineStart nls startLine) startOffset
    let (st2, c2) := colGet data st1 (lineStart nls endLine) endOffset
    let (st3, rs) := chunkRanges data nls st2 r
    (st3, ⟨⟨startOffset, startLine, c1⟩, ⟨endOffset, endLine, c2⟩⟩ :: rs)

def chunkMatches (data : Bytes) (nls : Newlines) (ctx : Nat) : ColSt → List Chunk → List ChunkMatch
  | _, [] => []
  | st, chunk :: r =>
    let (st', ranges) := chunkRanges data nls st chunk.cands
    let firstLineNumber : Nat := max (chunk.firstLine - ctx) 1
    let cm : ChunkMatch :=
      { content := getLines nls data firstLineNumber ((chunk.lastLine : Int) + ctx + 1),
        contentStart := ⟨lineStart nls firstLineNumber, firstLineNumber, 1⟩,
        fileName := false, ranges := ranges }
    cm :: chunkMatches data nls ctx st' r

/-- `fillContentChunkMatches` (its defensive re-sort included) -/
def fillContentChunkMatches (data : Bytes) (nls : Newlines) (ctx : Nat) (ms : List Cand) : List ChunkMatch :=
  let ms := if isSortedCands ms then ms else sortCands ms
  chunkMatches data nls ctx {} (chunkCandidates nls ctx ms)

/-- the file-name chunk of `fillChunkMatches` -/
def fileNameChunk (name : Bytes) (ms : List Cand) : ChunkMatch :=
  { content := name, contentStart := ⟨0, 1, 1⟩, fileName := true,
    ranges := ms.map fun c =>
      ⟨⟨c.off, 1, runeCount (name.take c.off) + 1⟩, ⟨c.off + c.sz, 1, runeCount (name.take (c.off + c.sz)) + 1⟩⟩ }

/-- `contentProvider.fillChunkMatches` -/
def fillChunkMatches (data name : Bytes) (ctx : Nat) (ms : List Cand) : List ChunkMatch :=
  let contentMatches := ms.filter (fun c => !c.fileName)
  if contentMatches.length > 0 then
    fillContentChunkMatches data (Newlines.ofData data) ctx contentMatches
  else [fileNameChunk name ms]

end ZoektModel.C03
