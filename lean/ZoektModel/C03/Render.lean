/-
Canonical text form of candidates, line matches and chunk matches for the line protocol (core only; used by the C02 and
C03 drivers). No spaces or tabs inside one value.

  cands   : `f.off.sz,f.off.sz,…`            (f = 1 file name, 0 content; `-` = none)
  lines   : `num:start:end:fn:lineHex:beforeHex:afterHex:off.lineOff.len+…` joined by `|`   (`-` = none)
  chunks  : `off.line.col:fn:contentHex:so.sl.sc~eo.el.ec+…` joined by `|`                  (`-` = none)
-/
import ZoektModel.Basic.Proto
import ZoektModel.C03.Model
namespace ZoektModel.C03
open ZoektModel ZoektModel.Proto

def showCand (c : Cand) : String := s!"{if c.fileName then 1 else 0}.{c.off}.{c.sz}"
def showCands (l : List Cand) : String := showList showCand l

def parseCand (s : String) : Option Cand :=
  match s.splitOn "." with
  | [f, o, z] => do pure ⟨(← f.toNat?) == 1, ← o.toNat?, ← z.toNat?⟩
  | _ => none

def parseCands (s : String) : Option (List Cand) :=
  if s == "-" then some [] else (s.splitOn ",").mapM parseCand

def showFrag (f : Frag) : String := s!"{f.off}.{f.lineOff}.{f.len}"

def showLine (lm : LineMatch) : String :=
  s!"{lm.lineNumber}:{lm.lineStart}:{lm.lineEnd}:{if lm.fileName then 1 else 0}:{bytesToHex lm.line}:{bytesToHex lm.before}:{bytesToHex lm.after}:" ++
  (if lm.frags.isEmpty then "-" else "+".intercalate (lm.frags.map showFrag))

def showLines (l : List LineMatch) : String := if l.isEmpty then "-" else "|".intercalate (l.map showLine)

def parseFrag (s : String) : Option Frag :=
  match s.splitOn "." with
  | [o, lo, n] => do pure ⟨← o.toNat?, ← lo.toInt?, ← n.toNat?⟩
  | _ => none

def parseLine (s : String) : Option LineMatch :=
  match s.splitOn ":" with
  | [num, st, en, fn, line, before, after, frags] => do
    let frags ← if frags == "-" then some [] else (frags.splitOn "+").mapM parseFrag
    pure { lineNumber := ← num.toNat?, lineStart := ← st.toNat?, lineEnd := ← en.toNat?, fileName := (← fn.toNat?) == 1,
           line := ← hexToBytes? line, before := ← hexToBytes? before, after := ← hexToBytes? after, frags := frags }
  | _ => none

def parseLines (s : String) : Option (List LineMatch) :=
  if s == "-" then some [] else (s.splitOn "|").mapM parseLine

def showLoc (l : Loc) : String := s!"{l.byteOff}.{l.line}.{l.col}"
def parseLoc (s : String) : Option Loc :=
  match s.splitOn "." with
  | [a, b, c] => do pure ⟨← a.toNat?, ← b.toNat?, ← c.toNat?⟩
  | _ => none

def showRange (r : Range) : String := showLoc r.start ++ "~" ++ showLoc r.stop
def parseRange (s : String) : Option Range :=
  match s.splitOn "~" with
  | [a, b] => do pure ⟨← parseLoc a, ← parseLoc b⟩
  | _ => none

def showChunk (cm : ChunkMatch) : String :=
  s!"{showLoc cm.contentStart}:{if cm.fileName then 1 else 0}:{bytesToHex cm.content}:" ++
  (if cm.ranges.isEmpty then "-" else "+".intercalate (cm.ranges.map showRange))

def showChunks (l : List ChunkMatch) : String := if l.isEmpty then "-" else "|".intercalate (l.map showChunk)

def parseChunk (s : String) : Option ChunkMatch :=
  match s.splitOn ":" with
  | [st, fn, content, ranges] => do
    let ranges ← if ranges == "-" then some [] else (ranges.splitOn "+").mapM parseRange
    pure { contentStart := ← parseLoc st, fileName := (← fn.toNat?) == 1, content := ← hexToBytes? content, ranges := ranges }
  | _ => none

def parseChunks (s : String) : Option (List ChunkMatch) :=
  if s == "-" then some [] else (s.splitOn "|").mapM parseChunk

end ZoektModel.C03
