/-
C03 — helper lemmas, part 2: order facts about `atOffset` / `lineStart` over a well-formed newline table.
-/
import ZoektModel.C03.Lemmas
namespace ZoektModel.C03
open ZoektModel

/-- a newline table is well formed: strictly increasing offsets inside the file -/
structure WF (nls : Newlines) : Prop where
  sorted : SortedLt nls.locs
  inside : ∀ x ∈ nls.locs, x < nls.fileSize

theorem wf_ofData (data : Bytes) : WF (Newlines.ofData data) where
  sorted := nlLocsFrom_sorted data 0
  inside := by
    intro x hx
    have := nlLocsFrom_ge data 0 x hx
    simp only [Newlines.ofData]; omega

theorem getD_mem {l : List Nat} {k : Nat} (hk : k < l.length) : l.getD k 0 ∈ l := by
  rw [List.getD_eq_getElem?_getD, List.getElem?_eq_getElem hk]; simp

/-- `rank` is the only threshold -/
theorem rank_unique {l : List Nat} (hs : SortedLt l) (off r : Nat) (hr : r ≤ l.length)
    (h1 : ∀ k, k < r → l.getD k 0 < off) (h2 : ∀ k, r ≤ k → k < l.length → off ≤ l.getD k 0) : rank l off = r := by
  obtain ⟨r1, r2⟩ := rank_spec hs off
  have hrl := rank_le_length l off
  rcases Nat.lt_trichotomy (rank l off) r with h | h | h
  · have a := h1 (rank l off) h
    have b := r2 (rank l off) (Nat.le_refl _) (by omega)
    omega
  · exact h
  · have a := r1 r h
    have b := h2 r (Nat.le_refl _) (by omega)
    omega

theorem rank_mono (l : List Nat) {a b : Nat} (h : a ≤ b) : rank l a ≤ rank l b := by
  induction l with
  | nil => simp [rank]
  | cons x t ih =>
    rw [rank_cons, rank_cons]
    by_cases h1 : x < a
    · have : x < b := by omega
      simp [h1, this]; exact ih
    · simp only [h1, if_false]
      split <;> omega

section
variable {nls : Newlines} (wf : WF nls)
include wf

theorem atOffset_eq (off : Nat) : atOffset nls off = rank nls.locs off + 1 := atOffset_eq_rank nls wf.sorted off

theorem atOffset_pos (off : Nat) : 1 ≤ atOffset nls off := by rw [atOffset_eq wf]; omega

theorem atOffset_mono {a b : Nat} (h : a ≤ b) : atOffset nls a ≤ atOffset nls b := by
  rw [atOffset_eq wf, atOffset_eq wf]
  have := rank_mono nls.locs h
  omega

theorem atOffset_le (off : Nat) : atOffset nls off ≤ nls.locs.length + 1 := by
  rw [atOffset_eq wf]; have := rank_le_length nls.locs off; omega

/-- `lineStart` of a natural line number, case by case -/
theorem lineStart_nat (n : Nat) :
    lineStart nls (n : Int) =
      if n ≤ 1 then 0 else if n - 2 < nls.locs.length then nls.locs.getD (n - 2) 0 + 1 else nls.fileSize := by
  unfold lineStart
  by_cases hn : n ≤ 1
  · have : (n : Int) - 2 < 0 := by omega
    simp [hn, this]
  · have h1 : ¬ ((n : Int) - 2 < 0) := by omega
    have h2 : ((n : Int) - 2).toNat = n - 2 := by omega
    simp only [hn, h1, if_false, h2]
    by_cases hl : n - 2 < nls.locs.length
    · have : ¬ (n - 2 ≥ nls.locs.length) := by omega
      simp [hl, this]
    · have : n - 2 ≥ nls.locs.length := by omega
      simp [hl, this]

theorem lineStart_le_size (n : Nat) : lineStart nls (n : Int) ≤ nls.fileSize := by
  rw [lineStart_nat wf]
  split
  · omega
  · split
    · rename_i h
      have := wf.inside _ (getD_mem h); omega
    · omega

theorem lineStart_mono {a b : Nat} (h : a ≤ b) : lineStart nls (a : Int) ≤ lineStart nls (b : Int) := by
  rw [lineStart_nat wf a, lineStart_nat wf b]
  by_cases ha : a ≤ 1
  · simp [ha]
  · have hb : ¬ b ≤ 1 := by omega
    simp only [ha, hb, if_false]
    by_cases hbl : b - 2 < nls.locs.length
    · have hal : a - 2 < nls.locs.length := by omega
      simp only [hal, hbl, if_true]
      rcases Nat.lt_or_eq_of_le (show a - 2 ≤ b - 2 by omega) with hlt | heq
      · have := getD_lt_of_sorted wf.sorted hlt hbl; omega
      · rw [heq]; omega
    · simp only [hbl, if_false]
      split
      · rename_i hal
        have := wf.inside _ (getD_mem hal); omega
      · omega

/-- (K1) the line containing an offset starts at or before it -/
theorem lineStart_atOffset_le (off : Nat) : lineStart nls (atOffset nls off : Int) ≤ off := by
  rw [lineStart_nat wf, atOffset_eq wf]
  obtain ⟨r1, _⟩ := rank_spec wf.sorted off
  have hrl := rank_le_length nls.locs off
  by_cases h0 : rank nls.locs off = 0
  · simp [h0]
  · have h1 : ¬ rank nls.locs off + 1 ≤ 1 := by omega
    have h2 : rank nls.locs off + 1 - 2 < nls.locs.length := by omega
    simp only [h1, if_false, h2, if_true]
    have := r1 (rank nls.locs off + 1 - 2) (by omega)
    omega

/-- (K2) the next line starts after the offset — at the latest at the end of the file -/
theorem lt_lineStart_succ (off : Nat) (h : off < nls.fileSize) :
    off < lineStart nls ((atOffset nls off : Int) + 1) := by
  have e : (atOffset nls off : Int) + 1 = ((atOffset nls off + 1 : Nat) : Int) := by omega
  rw [e, lineStart_nat wf, atOffset_eq wf]
  obtain ⟨_, r2⟩ := rank_spec wf.sorted off
  have h1 : ¬ rank nls.locs off + 1 + 1 ≤ 1 := by omega
  simp only [h1, if_false]
  have e2 : rank nls.locs off + 1 + 1 - 2 = rank nls.locs off := by omega
  rw [e2]
  split
  · rename_i hl
    have := r2 (rank nls.locs off) (Nat.le_refl _) hl; omega
  · exact h

theorem le_lineStart_succ (off : Nat) (h : off ≤ nls.fileSize) :
    off ≤ lineStart nls ((atOffset nls off : Int) + 1) := by
  rcases Nat.lt_or_eq_of_le h with h | h
  · exact Nat.le_of_lt (lt_lineStart_succ wf off h)
  · have e : (atOffset nls off : Int) + 1 = ((atOffset nls off + 1 : Nat) : Int) := by omega
    rw [e, lineStart_nat wf, atOffset_eq wf]
    have hr : rank nls.locs off = nls.locs.length := by
      apply rank_unique wf.sorted off _ (Nat.le_refl _)
      · intro k hk; have := wf.inside _ (getD_mem hk); omega
      · intro k h1 h2; omega
    have h1 : ¬ rank nls.locs off + 1 + 1 ≤ 1 := by omega
    have h2 : ¬ (rank nls.locs off + 1 + 1 - 2 < nls.locs.length) := by omega
    simp only [h1, if_false, h2]; omega

/-- (K6) an offset between the start of line `n` and the start of line `n+1` is on line `n` -/
theorem atOffset_of_between (n off : Nat) (hn : 1 ≤ n) (h1 : lineStart nls (n : Int) ≤ off)
    (h2 : off < lineStart nls ((n : Int) + 1) ∨ (off = nls.fileSize ∧ n = nls.locs.length + 1))
    (hn2 : n ≤ nls.locs.length + 1) : atOffset nls off = n := by
  rw [atOffset_eq wf]
  have : rank nls.locs off = n - 1 := by
    apply rank_unique wf.sorted off (n - 1) (by omega)
    · intro k hk
      rw [lineStart_nat wf] at h1
      have hn1 : ¬ n ≤ 1 := by omega
      have hl : n - 2 < nls.locs.length := by omega
      simp only [hn1, if_false, hl, if_true] at h1
      rcases Nat.lt_or_eq_of_le (show k ≤ n - 2 by omega) with hlt | heq
      · have := getD_lt_of_sorted wf.sorted hlt hl; omega
      · rw [heq]; omega
    · intro k hk1 hk2
      rcases h2 with h2 | ⟨_, h2⟩
      · have e : (n : Int) + 1 = ((n + 1 : Nat) : Int) := by omega
        rw [e, lineStart_nat wf] at h2
        have hn1 : ¬ n + 1 ≤ 1 := by omega
        have e2 : n + 1 - 2 = n - 1 := by omega
        simp only [hn1, if_false, e2] at h2
        have hl : n - 1 < nls.locs.length := by omega
        simp only [hl, if_true] at h2
        rcases Nat.lt_or_eq_of_le hk1 with hlt | heq
        · have := getD_lt_of_sorted wf.sorted hlt hk2; omega
        · rw [← heq]; omega
      · omega
  omega

/-- (K5) the start of line `n` is on line `n` -/
theorem atOffset_lineStart (n : Nat) (hn : 1 ≤ n) (hn2 : n ≤ nls.locs.length + 1) :
    atOffset nls (lineStart nls (n : Int)) = n := by
  apply atOffset_of_between wf n _ hn (Nat.le_refl _) _ hn2
  by_cases hl : n = nls.locs.length + 1
  · by_cases hlt : lineStart nls (n : Int) < lineStart nls ((n : Int) + 1)
    · exact Or.inl hlt
    · right
      refine ⟨?_, hl⟩
      have e : (n : Int) + 1 = ((n + 1 : Nat) : Int) := by omega
      rw [e, lineStart_nat wf (n + 1)] at hlt
      have h1 : ¬ n + 1 ≤ 1 := by omega
      have h2 : ¬ (n + 1 - 2 < nls.locs.length) := by omega
      simp only [h1, if_false, h2] at hlt
      have := lineStart_le_size wf n
      omega
  · left
    have e : (n : Int) + 1 = ((n + 1 : Nat) : Int) := by omega
    rw [e, lineStart_nat wf n, lineStart_nat wf (n + 1)]
    have h1 : ¬ n + 1 ≤ 1 := by omega
    have h2 : n + 1 - 2 < nls.locs.length := by omega
    simp only [h1, if_false, h2, if_true]
    by_cases hn1 : n ≤ 1
    · simp [hn1]
    · have h3 : n - 2 < nls.locs.length := by omega
      simp only [hn1, if_false, h3, if_true]
      have := getD_lt_of_sorted wf.sorted (show n - 2 < n + 1 - 2 by omega) h2
      omega

end

/-- the table of a document lists exactly its newline bytes -/
theorem mem_nlLocsFrom (data : Bytes) (i x : Nat) :
    x ∈ nlLocsFrom data i ↔ i ≤ x ∧ x < i + data.length ∧ data.getD (x - i) 0 = 10 := by
  induction data generalizing i with
  | nil => simp [nlLocsFrom]
  | cons b r ih =>
    simp only [nlLocsFrom, List.length_cons]
    by_cases hb : b = 10
    · simp only [hb, if_true, List.mem_cons, ih (i + 1)]
      constructor
      · rintro (rfl | ⟨h1, h2, h3⟩)
        · simp
        · refine ⟨by omega, by omega, ?_⟩
          have e : x - i = (x - (i + 1)) + 1 := by omega
          rw [e, List.getD_cons_succ]; exact h3
      · rintro ⟨h1, h2, h3⟩
        by_cases hx : x = i
        · exact Or.inl hx
        · right
          refine ⟨by omega, by omega, ?_⟩
          have e : x - i = (x - (i + 1)) + 1 := by omega
          rw [e, List.getD_cons_succ] at h3; exact h3
    · simp only [hb, if_false, ih (i + 1)]
      constructor
      · rintro ⟨h1, h2, h3⟩
        refine ⟨by omega, by omega, ?_⟩
        have e : x - i = (x - (i + 1)) + 1 := by omega
        rw [e, List.getD_cons_succ]; exact h3
      · rintro ⟨h1, h2, h3⟩
        by_cases hx : x = i
        · subst hx; simp at h3; exact absurd h3 hb
        · refine ⟨by omega, by omega, ?_⟩
          have e : x - i = (x - (i + 1)) + 1 := by omega
          rw [e, List.getD_cons_succ] at h3; exact h3

/-- (L3) a range that starts before the start of the next line and contains no newline ends at or before it -/
theorem stop_le_lineStart_succ (data : Bytes) (off stop : Nat) (hs : stop ≤ data.length)
    (hnn : ∀ p, off ≤ p → p < stop → data.getD p 0 ≠ 10) :
    stop ≤ lineStart (Newlines.ofData data) ((atOffset (Newlines.ofData data) off : Int) + 1) ∨ stop ≤ off := by
  have wf := wf_ofData data
  by_cases hso : stop ≤ off
  · exact Or.inr hso
  left
  have e : (atOffset (Newlines.ofData data) off : Int) + 1 = ((atOffset (Newlines.ofData data) off + 1 : Nat) : Int) := by omega
  rw [e, lineStart_nat wf, atOffset_eq wf]
  obtain ⟨_, r2⟩ := rank_spec wf.sorted off
  have h1 : ¬ rank (Newlines.ofData data).locs off + 1 + 1 ≤ 1 := by omega
  have e2 : rank (Newlines.ofData data).locs off + 1 + 1 - 2 = rank (Newlines.ofData data).locs off := by omega
  simp only [h1, if_false, e2]
  split
  · rename_i hl
    have hge := r2 _ (Nat.le_refl _) hl
    have hmem := getD_mem hl
    have := (mem_nlLocsFrom data 0 _).mp hmem
    simp only [Nat.sub_zero] at this
    -- the newline at locs[r] ≥ off cannot be inside [off, stop)
    rcases Nat.lt_or_ge ((Newlines.ofData data).locs.getD (rank (Newlines.ofData data).locs off) 0) stop with hlt | hge2
    · exact absurd this.2.2 (hnn _ hge hlt)
    · omega
  · simpa [Newlines.ofData] using hs

end ZoektModel.C03
