/-
C03 — helper lemmas, part 8: counting the lines of context.
-/
import ZoektModel.C03.Lemmas7
namespace ZoektModel.C03
open ZoektModel

theorem countNL_append (a b : Bytes) : countNL (a ++ b) = countNL a + countNL b := by
  simp [countNL, List.count_append]

theorem take_eq_take_append_slice (data : Bytes) (x y : Nat) (h : x ≤ y) :
    data.take y = data.take x ++ Bytes.slice data x y := by
  have e : y = x + (y - x) := by omega
  conv => lhs; rw [e, List.take_add]
  rfl

/-- newlines in a slice = difference of ranks -/
theorem countNL_slice (data : Bytes) (x y : Nat) (h : x ≤ y) :
    countNL (Bytes.slice data x y) = rank (Newlines.ofData data).locs y - rank (Newlines.ofData data).locs x := by
  have h1 := rank_nlLocsFrom data 0 y
  have h2 := rank_nlLocsFrom data 0 x
  simp only [Nat.zero_add] at h1 h2
  have := countNL_append (data.take x) (Bytes.slice data x y)
  rw [← take_eq_take_append_slice data x y h] at this
  simp only [Newlines.ofData]
  omega

theorem rank_lineStart (data : Bytes) (n : Nat) (h1 : 1 ≤ n) (h2 : n ≤ (Newlines.ofData data).locs.length + 1) :
    rank (Newlines.ofData data).locs (lineStart (Newlines.ofData data) (n : Int)) = n - 1 := by
  have wf := wf_ofData data
  have := atOffset_lineStart wf n h1 h2
  rw [atOffset_eq wf] at this
  omega

theorem rank_len (data : Bytes) : rank (Newlines.ofData data).locs data.length = (Newlines.ofData data).locs.length := by
  have wf := wf_ofData data
  apply rank_unique wf.sorted _ _ (Nat.le_refl _)
  · intro k hk
    have := wf.inside _ (getD_mem hk)
    simpa [Newlines.ofData] using this
  · intro k h1 h2; omega

theorem lineStart_beyond (data : Bytes) (n : Nat) (h : (Newlines.ofData data).locs.length + 2 ≤ n) :
    lineStart (Newlines.ofData data) (n : Int) = data.length := by
  rw [lineStart_nat (wf_ofData data)]
  have h1 : ¬ n ≤ 1 := by omega
  have h2 : ¬ n - 2 < (Newlines.ofData data).locs.length := by omega
  rw [if_neg h1, if_neg h2]; rfl

theorem slice_getLast (data : Bytes) (x y : Nat) (h1 : x < y) (h2 : y ≤ data.length) :
    (Bytes.slice data x y).getLast? = some (data.getD (y - 1) 0) := by
  have hlen : (Bytes.slice data x y).length = y - x := by simp [Bytes.slice]; omega
  rw [List.getLast?_eq_getElem?, hlen]
  simp only [Bytes.slice]
  rw [List.getElem?_take_of_lt (by omega), List.getElem?_drop]
  have e : x + (y - x - 1) = y - 1 := by omega
  rw [e, List.getD_eq_getElem?_getD, List.getElem?_eq_getElem (by omega)]
  simp

/-- the byte before the start of line `n ≥ 2` (when the line exists) is a newline -/
theorem newline_before_lineStart (data : Bytes) (n : Nat) (h1 : 2 ≤ n) (h2 : n ≤ (Newlines.ofData data).locs.length + 1) :
    1 ≤ lineStart (Newlines.ofData data) (n : Int) ∧ lineStart (Newlines.ofData data) (n : Int) ≤ data.length ∧
    data.getD (lineStart (Newlines.ofData data) (n : Int) - 1) 0 = 10 := by
  rw [lineStart_nat (wf_ofData data)]
  have a1 : ¬ n ≤ 1 := by omega
  have a2 : n - 2 < (Newlines.ofData data).locs.length := by omega
  simp only [a1, if_false, a2, if_true]
  have hmem := getD_mem a2
  have := (mem_nlLocsFrom data 0 _).mp hmem
  simp only [Nat.sub_zero, Nat.zero_add, Nat.zero_le, true_and] at this
  refine ⟨by omega, by omega, ?_⟩
  simpa using this.2

/-- (M1) the bytes between the starts of two existing lines are exactly that many lines -/
theorem countLines_between (data : Bytes) (a b : Nat) (h1 : 1 ≤ a) (h2 : a ≤ b)
    (h3 : b ≤ (Newlines.ofData data).locs.length + 1) :
    countLines (Bytes.slice data (lineStart (Newlines.ofData data) (a : Int)) (lineStart (Newlines.ofData data) (b : Int))) = b - a := by
  have wf := wf_ofData data
  have hmono := lineStart_mono wf h2
  have hnl := countNL_slice data _ _ hmono
  rw [rank_lineStart data a h1 (by omega), rank_lineStart data b (by omega) h3] at hnl
  unfold countLines
  rw [hnl]
  by_cases hab : a = b
  · subst hab; simp [slice_self]
  · obtain ⟨n1, n2, n3⟩ := newline_before_lineStart data b (by omega) h3
    have hlt : lineStart (Newlines.ofData data) (a : Int) < lineStart (Newlines.ofData data) (b : Int) := by
      rcases Nat.lt_or_eq_of_le hmono with h | h
      · exact h
      · rw [h, slice_self] at hnl
        simp [countNL] at hnl; omega
    rw [slice_getLast data _ _ hlt n2, n3]
    simp; omega

theorem countLines_data (data : Bytes) :
    countLines data = (Newlines.ofData data).locs.length + (if data.isEmpty || data.getLast? == some 10 then 0 else 1) := by
  unfold countLines
  have := rank_nlLocsFrom data 0 data.length
  simp only [Nat.zero_add, List.take_length] at this
  rw [← this]
  have := rank_len data
  simp only [Newlines.ofData] at this
  rw [this]
  rfl

/-- (M2) from the start of an existing line to the end of the file: the remaining lines -/
theorem countLines_to_end (data : Bytes) (a : Nat) (h1 : 1 ≤ a) (h3 : a ≤ (Newlines.ofData data).locs.length + 1) :
    countLines (Bytes.slice data (lineStart (Newlines.ofData data) (a : Int)) data.length) = countLines data - (a - 1) := by
  have wf := wf_ofData data
  have hle : lineStart (Newlines.ofData data) (a : Int) ≤ data.length := lineStart_le_size wf a
  have hnl := countNL_slice data _ _ hle
  rw [rank_lineStart data a h1 h3, rank_len] at hnl
  rw [countLines_data data]
  unfold countLines
  rw [hnl]
  rcases Nat.lt_or_eq_of_le hle with hlt | heq
  · have hne : data ≠ [] := by intro h; subst h; simp at hlt
    have hsl : (Bytes.slice data (lineStart (Newlines.ofData data) (a : Int)) data.length) ≠ [] := by
      intro h
      have := congrArg List.length h
      rw [slice_length _ _ _ hle (Nat.le_refl _)] at this
      simp at this; omega
    have hl1 := slice_getLast data _ _ hlt (Nat.le_refl _)
    have hl2 : data.getLast? = some (data.getD (data.length - 1) 0) := by
      rw [List.getLast?_eq_getElem?, List.getD_eq_getElem?_getD]
      have : data.length - 1 < data.length := by have := List.length_pos_iff.mpr hne; omega
      rw [List.getElem?_eq_getElem this]; simp
    rw [hl1, hl2]
    have e1 : (Bytes.slice data (lineStart (Newlines.ofData data) (a : Int)) data.length).isEmpty = false := by
      cases h : Bytes.slice data (lineStart (Newlines.ofData data) (a : Int)) data.length with
      | nil => exact absurd h hsl
      | cons _ _ => rfl
    have e2 : data.isEmpty = false := by cases data with
      | nil => exact absurd rfl hne
      | cons _ _ => rfl
    rw [e1, e2]
    simp only [Bool.false_or]
    split <;> omega
  · -- the line starts at the end of the file: the file is empty or ends with a newline
    rw [heq, slice_self]
    have hz : (if data.isEmpty || data.getLast? == some 10 then 0 else 1) = 0 := by
      by_cases ha : a = 1
      · subst ha
        rw [lineStart_neg _ _ (by omega)] at heq
        have : data = [] := List.length_eq_zero_iff.mp heq.symm
        subst this; rfl
      · obtain ⟨n1, n2, n3⟩ := newline_before_lineStart data a (by omega) h3
        rw [heq] at n3
        have hpos : 1 ≤ data.length := by rw [← heq]; exact n1
        have hne : data ≠ [] := by intro h; subst h; simp at hpos
        have hl2 : data.getLast? = some (data.getD (data.length - 1) 0) := by
          rw [List.getLast?_eq_getElem?, List.getD_eq_getElem?_getD]
          have : data.length - 1 < data.length := by omega
          rw [List.getElem?_eq_getElem this]; simp
        rw [hl2, n3]; simp
    rw [hz]
    simp <;> omega

end ZoektModel.C03

namespace ZoektModel.C03
open ZoektModel

/-- the context of a line match that agrees with the file *is* the requested number of lines: the line-count clauses
    follow from the location and text clauses -/
theorem count_of_core_context (data : Bytes) (ctx : Nat) (lm : LineMatch)
    (hcore : lineCoreOk data lm = true) (hctx : lineContextOk data ctx lm = true) :
    lineContextCountOk data ctx lm = true := by
  have wf := wf_ofData data
  simp only [lineCoreOk, Bool.and_eq_true, decide_eq_true_eq, beq_iff_eq] at hcore
  obtain ⟨⟨⟨⟨⟨⟨⟨⟨c1, c2⟩, c3⟩, c4⟩, c5⟩, c6⟩, _⟩, _⟩, _⟩ := hcore
  simp only [lineContextOk, Bool.and_eq_true, beq_iff_eq] at hctx
  obtain ⟨x1, x2⟩ := hctx
  -- the line number is that of an existing line
  have hT : lm.lineNumber ≤ (Newlines.ofData data).locs.length + 1 := by
    rw [c4, ← atOffset_ofData]; exact atOffset_le wf _
  simp only [lineContextCountOk, Bool.and_eq_true, beq_iff_eq]
  constructor
  · rw [x1, c2, ← lineStart_ofData, ← lineStart_ofData]
    rw [countLines_between data _ _ (by omega) (by omega) hT]
    omega
  · rw [x2, c5, ← lineStart_ofData, ← lineStart_ofData]
    have hcd := countLines_data data
    have hε : (if data.isEmpty || data.getLast? == some 10 then 0 else 1) ≤ 1 := by split <;> omega
    by_cases hA : lm.lineNumber + 1 + ctx ≤ (Newlines.ofData data).locs.length + 1
    · rw [countLines_between data _ _ (by omega) (by omega) hA]
      omega
    · rw [lineStart_beyond data (lm.lineNumber + 1 + ctx) (by omega)]
      by_cases hB : lm.lineNumber + 1 ≤ (Newlines.ofData data).locs.length + 1
      · rw [countLines_to_end data _ (by omega) hB]
        omega
      · rw [lineStart_beyond data (lm.lineNumber + 1) (by omega), slice_self]
        have h0 : countLines ([] : Bytes) = 0 := rfl
        rw [h0]
        omega

end ZoektModel.C03
