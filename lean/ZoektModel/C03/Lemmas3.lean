/-
C03 — helper lemmas, part 3: fillContentMatches.
-/
import ZoektModel.C03.Lemmas2
namespace ZoektModel.C03
open ZoektModel

theorem extendLine_id (data : Bytes) (endMatch nls : Nat) (h : ¬ (nls < data.length ∧ endMatch > nls)) :
    extendLine data endMatch nls = nls := by
  unfold extendLine
  simp [h]

theorem lastStop_mem (d : Nat) (l : List Cand) (h : l ≠ []) : ∃ c ∈ l, lastStop d l = c.stop := by
  induction l with
  | nil => exact absurd rfl h
  | cons a t ih =>
    cases t with
    | nil => exact ⟨a, by simp, rfl⟩
    | cons b r =>
      obtain ⟨c, hc, he⟩ := ih (by simp)
      exact ⟨c, by simp [hc], by simpa [lastStop] using he⟩

/-- what line mode hands to `fillContentMatches`: ordered, non-overlapping, non-empty, in-bounds, newline-free ranges -/
def LinePre (data : Bytes) (ms : List Cand) : Prop :=
  ms.Pairwise (fun a b => a.off + a.sz ≤ b.off) ∧
  ∀ c ∈ ms, 0 < c.sz ∧ c.off + c.sz ≤ data.length ∧ ∀ p, c.off ≤ p → p < c.off + c.sz → data.getD p 0 ≠ 10

theorem LinePre.sublist {data : Bytes} {l l' : List Cand} (h : LinePre data l) (hs : l'.Sublist l) : LinePre data l' :=
  ⟨h.1.sublist hs, fun c hc => h.2 c (hs.subset hc)⟩

theorem slice_self (data : Bytes) (a : Nat) : Bytes.slice data a a = [] := by simp [Bytes.slice]

end ZoektModel.C03

namespace ZoektModel.C03
open ZoektModel

/-- the line match `fillContentMatches` builds for a group of candidates on one line -/
def mkLine (data : Bytes) (nls : Newlines) (ctx : Nat) (m : Cand) (tl : List Cand) : LineMatch :=
  let num := atOffset nls m.off
  let ls := lineStart nls num
  let nextLineStart := lineStart nls (num + 1)
  let lineCands := m :: tl.takeWhile (fun c => decide (c.off < nextLineStart))
  let lineEnd := extendLine data (lastStop m.stop lineCands) nextLineStart
  { line := Bytes.slice data ls lineEnd, lineStart := ls, lineEnd := lineEnd, lineNumber := num,
    before := if ctx > 0 then getLines nls data ((num : Int) - ctx) num else [],
    after := if ctx > 0 then getLines nls data ((num : Int) + 1) ((num : Int) + 1 + ctx) else [],
    fileName := false,
    frags := lineCands.map fun c => ⟨c.off, (c.off : Int) - ls, c.sz⟩ }

theorem fillContentMatches_cons (data : Bytes) (nls : Newlines) (ctx : Nat) (m : Cand) (tl : List Cand) :
    fillContentMatches data nls ctx (m :: tl) =
      if ¬ m.off < lineStart nls ((atOffset nls m.off : Int) + 1) then none else
      match fillContentMatches data nls ctx
          (tl.dropWhile (fun c => decide (c.off < lineStart nls ((atOffset nls m.off : Int) + 1)))) with
      | none => none
      | some r => some (mkLine data nls ctx m tl :: r) := by
  rw [fillContentMatches]
  rfl

end ZoektModel.C03

namespace ZoektModel.C03
open ZoektModel

theorem mem_takeWhile {α} (p : α → Bool) (l : List α) (a : α) (h : a ∈ l.takeWhile p) : a ∈ l ∧ p a = true := by
  induction l with
  | nil => simp at h
  | cons x t ih =>
    simp only [List.takeWhile_cons] at h
    split at h
    · rcases List.mem_cons.mp h with rfl | h
      · exact ⟨by simp, by assumption⟩
      · exact ⟨by simp [(ih h).1], (ih h).2⟩
    · simp at h

theorem getLines_eq (nls : Newlines) (data : Bytes) (low high : Int) (h : low < high) :
    getLines nls data low high = Bytes.slice data (lineStart nls low) (lineStart nls high) := by
  unfold getLines
  have : ¬ low ≥ high := by omega
  simp [this]

/-- the line match built for a group of candidates agrees with the file -/
theorem mkLine_ok (data : Bytes) (ctx : Nat) (m : Cand) (tl : List Cand) (pre : LinePre data (m :: tl)) :
    lineCoreOk data (mkLine data (Newlines.ofData data) ctx m tl) = true ∧
    lineContextOk data ctx (mkLine data (Newlines.ofData data) ctx m tl) = true := by
  have wf := wf_ofData data
  have hsz : (Newlines.ofData data).fileSize = data.length := rfl
  obtain ⟨hpw, hall⟩ := pre
  have hm := hall m (by simp)
  have hnum1 := atOffset_pos wf m.off
  have hnumle := atOffset_le wf m.off
  have hls := lineStart_atOffset_le wf m.off
  have hnl := lt_lineStart_succ wf m.off (by rw [hsz]; omega)
  have e1 : ((atOffset (Newlines.ofData data) m.off : Int) + 1) = ((atOffset (Newlines.ofData data) m.off + 1 : Nat) : Int) := by omega
  -- every candidate of the group lies on the line and ends on it
  have hgrp : ∀ c ∈ m :: tl.takeWhile (fun c => decide (c.off < lineStart (Newlines.ofData data) ((atOffset (Newlines.ofData data) m.off : Int) + 1))),
      m.off ≤ c.off ∧ c.off + c.sz ≤ lineStart (Newlines.ofData data) ((atOffset (Newlines.ofData data) m.off : Int) + 1) := by
    intro c hc
    have hcl : m.off ≤ c.off ∧ c.off < lineStart (Newlines.ofData data) ((atOffset (Newlines.ofData data) m.off : Int) + 1) ∧ c ∈ m :: tl := by
      rcases List.mem_cons.mp hc with rfl | hc
      · exact ⟨Nat.le_refl _, hnl, by simp⟩
      · obtain ⟨h1, h2⟩ := mem_takeWhile _ _ _ hc
        have := (List.pairwise_cons.mp hpw).1 c h1
        exact ⟨by omega, by simpa using h2, by simp [h1]⟩
    have hcc := hall c hcl.2.2
    have hline : atOffset (Newlines.ofData data) c.off = atOffset (Newlines.ofData data) m.off :=
      atOffset_of_between wf _ c.off hnum1 (by omega) (Or.inl hcl.2.1) hnumle
    have := stop_le_lineStart_succ data c.off (c.off + c.sz) hcc.2.1 hcc.2.2
    rw [hline] at this
    exact ⟨hcl.1, by omega⟩
  have hend : lastStop m.stop (m :: tl.takeWhile (fun c => decide (c.off < lineStart (Newlines.ofData data) ((atOffset (Newlines.ofData data) m.off : Int) + 1))))
      ≤ lineStart (Newlines.ofData data) ((atOffset (Newlines.ofData data) m.off : Int) + 1) := by
    obtain ⟨c, hc, he⟩ := lastStop_mem m.stop _ (List.cons_ne_nil m _)
    rw [he]; exact (hgrp c hc).2
  have hext := extendLine_id data _ _ (show ¬ (lineStart (Newlines.ofData data) ((atOffset (Newlines.ofData data) m.off : Int) + 1) < data.length ∧
      lastStop m.stop (m :: tl.takeWhile (fun c => decide (c.off < lineStart (Newlines.ofData data) ((atOffset (Newlines.ofData data) m.off : Int) + 1)))) >
        lineStart (Newlines.ofData data) ((atOffset (Newlines.ofData data) m.off : Int) + 1)) by omega)
  constructor
  · simp only [lineCoreOk, mkLine, hext, Bool.and_eq_true, decide_eq_true_eq, beq_iff_eq, List.all_eq_true, List.mem_map,
      forall_exists_index, and_imp, forall_apply_eq_imp_iff₂, List.length_map, List.length_cons]
    refine ⟨⟨⟨⟨⟨⟨⟨⟨hnum1, ?_⟩, by omega⟩, ?_⟩, ?_⟩, by omega⟩, trivial⟩, ?_⟩, by omega⟩
    · exact lineStart_ofData data _
    · rw [← atOffset_ofData, atOffset_lineStart wf _ hnum1 hnumle]
    · rw [e1]; exact lineStart_ofData data _
    · intro c hc
      have := hgrp c hc
      exact ⟨⟨by omega, this.2⟩, trivial⟩
  · simp only [lineContextOk, mkLine, hext, Bool.and_eq_true, beq_iff_eq]
    constructor
    · by_cases hc0 : ctx > 0
      · simp only [hc0, if_true]
        rw [getLines_eq _ _ _ _ (by omega)]
        congr 1
        by_cases hge : ctx ≥ atOffset (Newlines.ofData data) m.off
        · rw [lineStart_neg _ _ (by omega)]
          have : min ctx (atOffset (Newlines.ofData data) m.off - 1) = atOffset (Newlines.ofData data) m.off - 1 := by omega
          rw [this]
          have : atOffset (Newlines.ofData data) m.off - (atOffset (Newlines.ofData data) m.off - 1) = 1 := by omega
          rw [this, ← lineStart_ofData data 1, lineStart_neg _ _ (by omega)]
        · have : min ctx (atOffset (Newlines.ofData data) m.off - 1) = ctx := by omega
          rw [this]
          have e : ((atOffset (Newlines.ofData data) m.off : Int) - (ctx : Int)) = ((atOffset (Newlines.ofData data) m.off - ctx : Nat) : Int) := by omega
          rw [e]; exact lineStart_ofData data _
      · have : ctx = 0 := by omega
        subst this
        simp only [Nat.lt_irrefl, if_false, Nat.zero_min, Nat.sub_zero]
        rw [lineStart_ofData, slice_self]
    · by_cases hc0 : ctx > 0
      · simp only [hc0, if_true]
        rw [getLines_eq _ _ _ _ (by omega)]
        congr 1
        have e : ((atOffset (Newlines.ofData data) m.off : Int) + 1 + (ctx : Int)) = ((atOffset (Newlines.ofData data) m.off + 1 + ctx : Nat) : Int) := by omega
        rw [e]; exact lineStart_ofData data _
      · have : ctx = 0 := by omega
        subst this
        simp only [Nat.lt_irrefl, if_false, Nat.add_zero]
        rw [e1, lineStart_ofData, slice_self]

end ZoektModel.C03

namespace ZoektModel.C03
open ZoektModel

theorem mkLine_frags (data : Bytes) (nls : Newlines) (ctx : Nat) (m : Cand) (tl : List Cand) :
    (mkLine data nls ctx m tl).frags.map (fun f => (f.off, f.len)) =
      (m :: tl.takeWhile (fun c => decide (c.off < lineStart nls ((atOffset nls m.off : Int) + 1)))).map
        (fun c => (c.off, c.sz)) := by
  simp [mkLine]

/-- `fillContentMatches` on line-mode input never hits its panic, every line match it builds agrees with the file, and
    the fragments of the line matches are, in order, exactly the candidates -/
theorem fill_lines_ok (data : Bytes) (ctx : Nat) : ∀ (n : Nat) (ms : List Cand), ms.length ≤ n → LinePre data ms →
    ∃ lms, fillContentMatches data (Newlines.ofData data) ctx ms = some lms ∧
      (∀ lm ∈ lms, lineCoreOk data lm = true ∧ lineContextOk data ctx lm = true ∧ lm.fileName = false) ∧
      lms.flatMap (fun lm => lm.frags.map (fun f => (f.off, f.len))) = ms.map (fun c => (c.off, c.sz)) := by
  intro n
  induction n with
  | zero =>
    intro ms hlen _
    have : ms = [] := List.length_eq_zero_iff.mp (by omega)
    subst this
    exact ⟨[], by simp [fillContentMatches], by simp, by simp⟩
  | succ n ih =>
    intro ms hlen pre
    cases ms with
    | nil => exact ⟨[], by simp [fillContentMatches], by simp, by simp⟩
    | cons m tl =>
      have wf := wf_ofData data
      have hm := pre.2 m (by simp)
      have hnl := lt_lineStart_succ wf m.off (by show m.off < data.length; omega)
      have hsub : (tl.dropWhile (fun c => decide (c.off < lineStart (Newlines.ofData data) ((atOffset (Newlines.ofData data) m.off : Int) + 1)))).Sublist (m :: tl) :=
        (List.dropWhile_sublist _).trans (List.sublist_cons_self m tl)
      have hlen' := dropWhile_length_le (fun c : Cand => decide (c.off < lineStart (Newlines.ofData data) ((atOffset (Newlines.ofData data) m.off : Int) + 1))) tl
      obtain ⟨r, hr, hok, hfr⟩ := ih _ (by simp only [List.length_cons] at hlen; omega) (pre.sublist hsub)
      refine ⟨mkLine data (Newlines.ofData data) ctx m tl :: r, ?_, ?_, ?_⟩
      · rw [fillContentMatches_cons]
        have : ¬ ¬ m.off < lineStart (Newlines.ofData data) ((atOffset (Newlines.ofData data) m.off : Int) + 1) := by omega
        simp only [this, if_false, hr]
      · intro lm hlm
        rcases List.mem_cons.mp hlm with rfl | hlm
        · have := mkLine_ok data ctx m tl pre
          exact ⟨this.1, this.2, rfl⟩
        · exact hok lm hlm
      · rw [List.flatMap_cons, hfr, mkLine_frags, ← List.map_append, List.cons_append, List.takeWhile_append_dropWhile]

end ZoektModel.C03
