/-
C03 — helper lemmas: Go's `sort.Search`, the newline table, bridges between the table-based functions of the model
(`atOffset`, `lineStart`) and the byte scans of the specification (`lineOf`, `lineStartSpec`).
-/
import ZoektModel.C03.Spec
namespace ZoektModel.C03
open ZoektModel

/-! ## sort.Search -/

/-- binary search over a monotone predicate returns its threshold -/
theorem search_spec (f : Nat → Bool) : ∀ (n i j : Nat), j - i = n → i ≤ j →
    (∀ a b, i ≤ a → a ≤ b → b < j → f a = true → f b = true) →
    i ≤ search f i j ∧ search f i j ≤ j ∧
    (∀ k, i ≤ k → k < search f i j → f k = false) ∧ (∀ k, search f i j ≤ k → k < j → f k = true) := by
  intro n
  induction n using Nat.strongRecOn with
  | _ n ih =>
    intro i j hn hij hmono
    unfold search
    by_cases h : i < j
    · simp only [h, dite_true]
      by_cases hf : f ((i + j) / 2) = true
      · simp only [hf, if_true]
        have := ih (((i + j) / 2) - i) (by omega) i ((i + j) / 2) rfl (by omega)
          (fun a b h1 h2 h3 h4 => hmono a b h1 h2 (by omega) h4)
        obtain ⟨a1, a2, a3, a4⟩ := this
        refine ⟨a1, by omega, a3, ?_⟩
        intro k hk1 hk2
        by_cases hk : k < (i + j) / 2
        · exact a4 k hk1 hk
        · exact hmono ((i + j) / 2) k (by omega) (by omega) hk2 hf
      · have hf' : f ((i + j) / 2) = false := by simpa using hf
        simp only [hf', Bool.false_eq_true, if_false]
        have := ih (j - ((i + j) / 2 + 1)) (by omega) ((i + j) / 2 + 1) j rfl (by omega)
          (fun a b h1 h2 h3 h4 => hmono a b (by omega) h2 h3 h4)
        obtain ⟨a1, a2, a3, a4⟩ := this
        refine ⟨by omega, a2, ?_, a4⟩
        intro k hk1 hk2
        by_cases hk : (i + j) / 2 + 1 ≤ k
        · exact a3 k hk hk2
        · cases hfk : f k with
          | false => rfl
          | true => exact absurd (hmono k ((i + j) / 2) hk1 (by omega) (by omega) hfk) hf
    · simp only [h, dite_false]
      refine ⟨Nat.le_refl _, hij, ?_, ?_⟩ <;> intro k h1 h2 <;> omega

/-! ## sorted tables -/

/-- strictly increasing -/
def SortedLt (l : List Nat) : Prop := l.Pairwise (· < ·)

/-- number of table entries below `off` -/
def rank (l : List Nat) (off : Nat) : Nat := (l.filter (fun x => decide (x < off))).length

theorem getD_lt_of_sorted {l : List Nat} (hs : SortedLt l) {a b : Nat} (hab : a < b) (hb : b < l.length) :
    l.getD a 0 < l.getD b 0 := by
  have ha : a < l.length := by omega
  rw [List.getD_eq_getElem?_getD, List.getD_eq_getElem?_getD, List.getElem?_eq_getElem ha, List.getElem?_eq_getElem hb]
  exact List.pairwise_iff_getElem.mp hs a b ha hb hab

theorem rank_le_length (l : List Nat) (off : Nat) : rank l off ≤ l.length := List.length_filter_le _ _

theorem rank_cons (x : Nat) (l : List Nat) (off : Nat) :
    rank (x :: l) off = (if x < off then 1 else 0) + rank l off := by
  unfold rank
  simp only [List.filter_cons]
  split <;> simp_all <;> omega

/-- in a strictly increasing table the entries below `off` are exactly the first `rank` ones -/
theorem rank_spec {l : List Nat} (hs : SortedLt l) (off : Nat) :
    (∀ k, k < rank l off → l.getD k 0 < off) ∧ (∀ k, rank l off ≤ k → k < l.length → off ≤ l.getD k 0) := by
  induction l with
  | nil => simp [rank]
  | cons x t ih =>
    have hs' : SortedLt t := (List.pairwise_cons.mp hs).2
    have hx := (List.pairwise_cons.mp hs).1
    obtain ⟨i1, i2⟩ := ih hs'
    rw [rank_cons]
    by_cases hxo : x < off
    · simp only [hxo, if_true]
      constructor
      · intro k hk
        cases k with
        | zero => simpa using hxo
        | succ k => simp only [List.getD_cons_succ]; exact i1 k (by omega)
      · intro k hk1 hk2
        cases k with
        | zero => omega
        | succ k => simp only [List.getD_cons_succ]; exact i2 k (by omega) (by simpa using hk2)
    · simp only [hxo, if_false, Nat.zero_add]
      have hr : rank t off = 0 := by
        unfold rank
        rw [List.length_eq_zero_iff, List.filter_eq_nil_iff]
        intro y hy
        have := hx y hy
        simp; omega
      rw [hr]
      constructor
      · intro k hk; omega
      · intro k _ hk2
        cases k with
        | zero => simp; omega
        | succ k =>
          simp only [List.getD_cons_succ]
          have hk : k < t.length := by simpa using hk2
          have : t.getD k 0 ∈ t := by
            rw [List.getD_eq_getElem?_getD, List.getElem?_eq_getElem hk]; simp
          have := hx _ this
          omega

/-- `atOffset` on a strictly increasing table is one more than the number of entries below the offset -/
theorem atOffset_eq_rank (nls : Newlines) (hs : SortedLt nls.locs) (off : Nat) :
    atOffset nls off = rank nls.locs off + 1 := by
  unfold atOffset
  have hmono : ∀ a b, 0 ≤ a → a ≤ b → b < nls.locs.length →
      (fun n => decide (nls.locs.getD n 0 ≥ off)) a = true → (fun n => decide (nls.locs.getD n 0 ≥ off)) b = true := by
    intro a b _ hab hb ha
    simp only [ge_iff_le, decide_eq_true_eq] at ha ⊢
    rcases Nat.lt_or_eq_of_le hab with h | h
    · have := getD_lt_of_sorted hs h hb; omega
    · subst h; exact ha
  obtain ⟨_, h2, h3, h4⟩ := search_spec _ nls.locs.length 0 nls.locs.length rfl (Nat.zero_le _) hmono
  obtain ⟨r1, r2⟩ := rank_spec hs off
  have hrl := rank_le_length nls.locs off
  generalize search (fun n => decide (nls.locs.getD n 0 ≥ off)) 0 nls.locs.length = s at *
  -- s = rank: both are the threshold
  have : s = rank nls.locs off := by
    rcases Nat.lt_trichotomy s (rank nls.locs off) with h | h | h
    · have a := h4 s (Nat.le_refl _) (by omega)
      have b := r1 s h
      simp only [ge_iff_le, decide_eq_true_eq] at a; omega
    · exact h
    · have a := h3 (rank nls.locs off) (Nat.zero_le _) h
      have b := r2 (rank nls.locs off) (Nat.le_refl _) (by omega)
      simp only [ge_iff_le, decide_eq_false_iff_not] at a; omega
  omega

/-! ## the newline table of a document -/

theorem nlLocsFrom_ge (data : Bytes) (i : Nat) : ∀ x ∈ nlLocsFrom data i, i ≤ x ∧ x < i + data.length := by
  induction data generalizing i with
  | nil => simp [nlLocsFrom]
  | cons b r ih =>
    intro x hx
    simp only [nlLocsFrom] at hx
    split at hx
    · rcases List.mem_cons.mp hx with rfl | hx
      · simp
      · have := ih (i + 1) x hx; simp; omega
    · have := ih (i + 1) x hx; simp; omega

theorem nlLocsFrom_sorted (data : Bytes) (i : Nat) : SortedLt (nlLocsFrom data i) := by
  induction data generalizing i with
  | nil => simp [nlLocsFrom, SortedLt]
  | cons b r ih =>
    simp only [nlLocsFrom]
    split
    · refine List.pairwise_cons.mpr ⟨?_, ih (i + 1)⟩
      intro x hx
      have := nlLocsFrom_ge r (i + 1) x hx; omega
    · exact ih (i + 1)

/-- bridge: the number of table entries below `i + k` is the number of newlines among the first `k` bytes -/
theorem rank_nlLocsFrom (data : Bytes) (i k : Nat) : rank (nlLocsFrom data i) (i + k) = countNL (data.take k) := by
  induction data generalizing i k with
  | nil => simp [nlLocsFrom, rank, countNL]
  | cons b r ih =>
    cases k with
    | zero =>
      simp only [Nat.add_zero, List.take_zero, countNL, List.count_nil]
      unfold rank
      rw [List.length_eq_zero_iff, List.filter_eq_nil_iff]
      intro x hx
      have := nlLocsFrom_ge (b :: r) i x hx
      simp; omega
    | succ k =>
      have e : i + (k + 1) = (i + 1) + k := by omega
      simp only [nlLocsFrom, List.take_succ_cons, countNL, List.count_cons]
      split
      · rename_i hb
        rw [rank_cons, e, ih (i + 1) k]
        have : i < i + 1 + k := by omega
        simp [hb, countNL, this]; omega
      · rename_i hb
        rw [e, ih (i + 1) k]
        simp [hb, countNL]

/-- **line number bridge**: `atOffset` over the document's newline table = 1 + newlines before the offset -/
theorem atOffset_ofData (data : Bytes) (off : Nat) : atOffset (Newlines.ofData data) off = lineOf data off := by
  rw [atOffset_eq_rank _ (nlLocsFrom_sorted data 0)]
  have := rank_nlLocsFrom data 0 off
  simp only [Nat.zero_add] at this
  simp only [Newlines.ofData, this, lineOf]; omega

/-- the scan of the specification, in terms of the table -/
theorem lineStartScan_eq (data : Bytes) (n pos : Nat) :
    lineStartScan data n pos =
      if n ≤ 1 then pos
      else if n - 2 < (nlLocsFrom data pos).length then (nlLocsFrom data pos).getD (n - 2) 0 + 1
      else pos + data.length := by
  induction data generalizing n pos with
  | nil => simp [lineStartScan, nlLocsFrom]
  | cons b r ih =>
    simp only [lineStartScan, nlLocsFrom]
    by_cases hn : n ≤ 1
    · simp [hn]
    · simp only [hn, if_false]
      by_cases hb : b = 10
      · simp only [hb, if_true, List.length_cons]
        rw [ih]
        by_cases hn2 : n = 2
        · subst hn2; simp
        · have e : n - 2 = (n - 1 - 2) + 1 := by omega
          have h1 : ¬ n - 1 ≤ 1 := by omega
          simp only [h1, if_false]
          rw [e, List.getD_cons_succ]
          by_cases hl : n - 1 - 2 < (nlLocsFrom r (pos + 1)).length
          · simp [hl]
          · simp [hl]; omega
      · simp only [hb, if_false]
        rw [ih]
        simp only [hn, if_false]
        by_cases hl : n - 2 < (nlLocsFrom r (pos + 1)).length
        · simp [hl]
        · simp [hl]; omega

/-- **line start bridge**: `lineStart` over the document's newline table = the specification's scan -/
theorem lineStart_ofData (data : Bytes) (n : Nat) :
    lineStart (Newlines.ofData data) (n : Int) = lineStartSpec data n := by
  unfold lineStartSpec
  rw [lineStartScan_eq]
  unfold lineStart Newlines.ofData
  simp only
  by_cases hn : n ≤ 1
  · have : (n : Int) - 2 < 0 := by omega
    simp [hn, this]
  · have h1 : ¬ ((n : Int) - 2 < 0) := by omega
    have h2 : ((n : Int) - 2).toNat = n - 2 := by omega
    simp only [hn, h1, if_false, h2, Nat.zero_add]
    by_cases hl : n - 2 < (nlLocsFrom data 0).length
    · have : ¬ (n - 2 ≥ (nlLocsFrom data 0).length) := by omega
      simp [hl, this]
    · have : n - 2 ≥ (nlLocsFrom data 0).length := by omega
      simp [hl, this]

theorem lineStart_neg (nls : Newlines) (n : Int) (h : n ≤ 1) : lineStart nls n = 0 := by
  unfold lineStart
  have : n - 2 < 0 := by omega
  simp [this]

end ZoektModel.C03
