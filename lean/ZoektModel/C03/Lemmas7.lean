/-
C03 — helper lemmas, part 7: the column cache.
-/
import ZoektModel.C03.Lemmas6
import ZoektModel.C03.Utf8Lemmas
namespace ZoektModel.C03
open ZoektModel

/-- the cached count is the from-scratch count, and the cached positions are rune boundaries -/
structure ColInv (data : Bytes) (st : ColSt) : Prop where
  count : st.lastRuneCount = runeCount (Bytes.slice data st.lastLineOffset st.lastOffset)
  bLine : IsBoundary data st.lastLineOffset
  bOff : IsBoundary data st.lastOffset
  le : st.lastLineOffset ≤ st.lastOffset

theorem colInv_init (data : Bytes) : ColInv data {} :=
  ⟨by simp [Bytes.slice, runeCount_nil], IsBoundary.zero _, IsBoundary.zero _, Nat.le_refl _⟩

/-- rune counts of adjacent slices add up when the cut is a rune boundary -/
theorem runeCount_slice_add (data : Bytes) (lo mid hi : Nat) (h1 : lo ≤ mid) (h2 : mid ≤ hi)
    (blo : IsBoundary data lo) (bmid : IsBoundary data mid) :
    runeCount (Bytes.slice data lo hi) = runeCount (Bytes.slice data lo mid) + runeCount (Bytes.slice data mid hi) := by
  have hb := blo.drop bmid h1
  have := runeCount_take_add hb (hi - lo) (by omega)
  simp only [Bytes.slice]
  rw [this, List.drop_drop]
  have e1 : lo + (mid - lo) = mid := by omega
  have e2 : hi - lo - (mid - lo) = hi - mid := by omega
  rw [e1, e2]

/-- **`columnHelper.get`**: with a consistent cache and rune-aligned arguments the column is the from-scratch count -/
theorem colGet_correct (data : Bytes) (st : ColSt) (lo off : Nat) (inv : ColInv data st) (hle : lo ≤ off)
    (blo : IsBoundary data lo) (boff : IsBoundary data off) :
    (colGet data st lo off).2 = 1 + runeCount (Bytes.slice data lo off) ∧ ColInv data (colGet data st lo off).1 := by
  unfold colGet
  by_cases hc : lo = st.lastLineOffset ∧ off ≥ st.lastOffset
  · simp only [hc, and_self, if_true]
    obtain ⟨rfl, hge⟩ := hc
    have hadd := runeCount_slice_add data st.lastLineOffset st.lastOffset off inv.le hge inv.bLine inv.bOff
    have hcnt := inv.count
    refine ⟨by omega, ⟨?_, blo, boff, hle⟩⟩
    show st.lastRuneCount + runeCount (Bytes.slice data st.lastOffset off) = runeCount (Bytes.slice data st.lastLineOffset off)
    omega
  · simp only [hc, if_false]
    exact ⟨by omega, ⟨rfl, blo, boff, hle⟩⟩

/-- the start of the line of any offset is a rune boundary: it is 0 or just after a newline byte -/
theorem lineStart_atOffset_boundary (data : Bytes) (x : Nat) :
    IsBoundary data (lineStart (Newlines.ofData data) (atOffset (Newlines.ofData data) x : Int)) := by
  have wf := wf_ofData data
  rw [lineStart_nat wf, atOffset_eq wf]
  have hrl := rank_le_length (Newlines.ofData data).locs x
  by_cases h0 : rank (Newlines.ofData data).locs x = 0
  · simp only [h0, Nat.zero_add, Nat.le_refl, if_true]; exact IsBoundary.zero _
  · have h1 : ¬ rank (Newlines.ofData data).locs x + 1 ≤ 1 := by omega
    have h2 : rank (Newlines.ofData data).locs x + 1 - 2 < (Newlines.ofData data).locs.length := by omega
    simp only [h1, if_false, h2, if_true]
    have hmem := getD_mem h2
    have := (mem_nlLocsFrom data 0 _).mp hmem
    simp only [Nat.sub_zero, Nat.zero_add, Nat.zero_le, true_and] at this
    apply isBoundary_succ_of_ascii data _ this.1
    rw [this.2]; decide

/-- candidates whose ends are rune boundaries of the content (as `utf8.DecodeRune` steps through it) -/
def Aligned (data : Bytes) (cs : List Cand) : Prop :=
  ∀ c ∈ cs, IsBoundary data c.off ∧ IsBoundary data (c.off + c.sz)

theorem chunkRanges_cols (data : Bytes) : ∀ (cs : List Cand) (st : ColSt), ColInv data st → Aligned data cs →
    (∀ r ∈ (chunkRanges data (Newlines.ofData data) st cs).2,
      r.start.col = 1 + runeCount (Bytes.slice data (lineStart (Newlines.ofData data) (r.start.line : Int)) r.start.byteOff) ∧
      r.stop.col = 1 + runeCount (Bytes.slice data (lineStart (Newlines.ofData data) (r.stop.line : Int)) r.stop.byteOff)) ∧
    ColInv data (chunkRanges data (Newlines.ofData data) st cs).1 := by
  intro cs
  induction cs with
  | nil => intro st inv _; exact ⟨by simp [chunkRanges], inv⟩
  | cons c t ih =>
    intro st inv hal
    have wf := wf_ofData data
    have hc := hal c (by simp)
    simp only [chunkRanges, offsetRangeToLineRange]
    have g1 := colGet_correct data st (lineStart (Newlines.ofData data) (atOffset (Newlines.ofData data) c.off : Int)) c.off inv
      (lineStart_atOffset_le wf c.off) (lineStart_atOffset_boundary data c.off) hc.1
    have hle2 : lineStart (Newlines.ofData data) (atOffset (Newlines.ofData data) (max c.off (max (c.off + c.sz) 1 - 1)) : Int) ≤ c.off + c.sz := by
      have := lineStart_atOffset_le wf (max c.off (max (c.off + c.sz) 1 - 1))
      omega
    have g2 := colGet_correct data _ (lineStart (Newlines.ofData data) (atOffset (Newlines.ofData data) (max c.off (max (c.off + c.sz) 1 - 1)) : Int))
      (c.off + c.sz) g1.2 hle2 (lineStart_atOffset_boundary data _) hc.2
    obtain ⟨i1, i2⟩ := ih _ g2.2 (fun x hx => hal x (by simp [hx]))
    refine ⟨?_, i2⟩
    intro r hr
    rcases List.mem_cons.mp hr with rfl | hr
    · exact ⟨g1.1, g2.1⟩
    · exact i1 r hr

theorem chunkMatches_cols (data : Bytes) (ctx : Nat) : ∀ (chs : List Chunk) (st : ColSt), ColInv data st →
    (∀ ch ∈ chs, Aligned data ch.cands) →
    ∀ cm ∈ chunkMatches data (Newlines.ofData data) ctx st chs, chunkColsOk data cm = true := by
  intro chs
  induction chs with
  | nil => intro st _ _ cm hcm; simp [chunkMatches] at hcm
  | cons ch r ih =>
    intro st inv hal cm hcm
    rw [chunkMatches_cons] at hcm
    obtain ⟨h1, h2⟩ := chunkRanges_cols data ch.cands st inv (hal ch (by simp))
    rcases List.mem_cons.mp hcm with rfl | hcm
    · simp only [chunkColsOk, mkChunk, List.all_eq_true, Bool.and_eq_true, beq_iff_eq, columnOf]
      intro rg hrg
      have := h1 rg hrg
      rw [← lineStart_ofData, ← lineStart_ofData]
      exact this
    · exact ih _ h2 (fun c hc => hal c (by simp [hc])) cm hcm

end ZoektModel.C03
