/-
Lemmas about the model of `utf8.DecodeRune` / `utf8.RuneCount`: rune boundaries and additivity of the rune count.
-/
import ZoektModel.C03.Utf8
namespace ZoektModel.C03
open ZoektModel

theorem runeSize_bounds (d : Bytes) : (d ≠ [] → 1 ≤ runeSize d) ∧ runeSize d ≤ d.length ∧ runeSize d ≤ 4 := by
  unfold runeSize
  split
  · simp
  · rename_i b0 rest
    simp only [List.length_cons]
    repeat' split
    all_goals simp_all
    all_goals omega

theorem runeSize_pos {d : Bytes} (h : d ≠ []) : 1 ≤ runeSize d := (runeSize_bounds d).1 h
theorem runeSize_le (d : Bytes) : runeSize d ≤ d.length := (runeSize_bounds d).2.1

/-- `DecodeRune` only looks at the bytes of the rune it returns -/
theorem runeSize_take (d : Bytes) (n : Nat) (h : runeSize d ≤ n) : runeSize (d.take n) = runeSize d := by
  rcases d with _ | ⟨b0, _ | ⟨b1, _ | ⟨b2, _ | ⟨b3, r⟩⟩⟩⟩ <;>
  rcases n with _ | _ | _ | _ | n <;>
  simp only [runeSize, List.take] at h ⊢ <;>
  (repeat' split) <;> simp_all

/-- the bytes of a multi-byte rune after the first are continuation bytes (≥ 0x80) -/
theorem runeSize_cont (d : Bytes) (j : Nat) (h1 : 0 < j) (h2 : j < runeSize d) : 0x80 ≤ (d.getD j 0).toNat := by
  rcases d with _ | ⟨b0, _ | ⟨b1, _ | ⟨b2, _ | ⟨b3, r⟩⟩⟩⟩ <;>
  rcases j with _ | _ | _ | _ | j <;>
  simp only [runeSize] at h2 ⊢ <;>
  (repeat' split at h2) <;> simp_all [inR] <;> omega

/-- an ASCII byte is a rune of its own -/
theorem runeSize_ascii (b : UInt8) (r : Bytes) (h : b.toNat < 0x80) : runeSize (b :: r) = 1 := by
  simp only [runeSize]
  have : b.toNat < 0xC2 := by omega
  simp [this]

theorem runeCountAux_eq (k : Nat) (l : Bytes) : runeCountAux k l = runeCount (l.drop k) := by
  induction k generalizing l with
  | zero => simp [runeCount]
  | succ k ih =>
    cases l with
    | nil => simp [runeCountAux, runeCount]
    | cons b r => simp [runeCountAux, ih]

theorem runeCount_nil : runeCount [] = 0 := rfl

/-- one `DecodeRune` step -/
theorem runeCount_step (d : Bytes) (h : d ≠ []) : runeCount d = 1 + runeCount (d.drop (runeSize d)) := by
  cases d with
  | nil => exact absurd rfl h
  | cons b r =>
    have hp := runeSize_pos h
    show runeCountAux 0 (b :: r) = _
    simp only [runeCountAux]
    rw [runeCountAux_eq]
    have e : runeSize (b :: r) = (runeSize (b :: r) - 1) + 1 := by omega
    conv => rhs; rw [e, List.drop_succ_cons]

/-- `k` is reached by decoding `d` rune by rune from its start -/
inductive IsBoundary : Bytes → Nat → Prop
  | zero (d : Bytes) : IsBoundary d 0
  | step (d : Bytes) (k : Nat) : d ≠ [] → IsBoundary (d.drop (runeSize d)) k → IsBoundary d (runeSize d + k)

theorem IsBoundary.le_length {d : Bytes} {k : Nat} (h : IsBoundary d k) : k ≤ d.length := by
  induction h with
  | zero d => omega
  | step d k _ _ ih =>
    have := runeSize_le d
    simp only [List.length_drop] at ih
    omega

/-- additivity of the rune count at a rune boundary, for any end point -/
theorem runeCount_take_add {d : Bytes} {k : Nat} (h : IsBoundary d k) (n : Nat) (hkn : k ≤ n) :
    runeCount (d.take n) = runeCount (d.take k) + runeCount ((d.drop k).take (n - k)) := by
  induction h generalizing n with
  | zero d => simp [runeCount_nil]
  | step d k hne _ ih =>
    have hs := runeSize_pos hne
    have hsl := runeSize_le d
    have hn : d.take n ≠ [] := by
      cases d with
      | nil => exact absurd rfl hne
      | cons b r => cases n with
        | zero => omega
        | succ n => simp
    have hk : d.take (runeSize d + k) ≠ [] := by
      cases d with
      | nil => exact absurd rfl hne
      | cons b r =>
        have : runeSize (b :: r) + k = (runeSize (b :: r) + k - 1) + 1 := by omega
        rw [this]; simp
    rw [runeCount_step _ hn, runeSize_take d n (by omega), runeCount_step _ hk, runeSize_take d _ (by omega)]
    rw [List.drop_take, List.drop_take, ih (n - runeSize d) (by omega)]
    have e1 : runeSize d + k - runeSize d = k := by omega
    have e2 : n - runeSize d - k = n - (runeSize d + k) := by omega
    rw [e1, e2, List.drop_drop]
    omega

/-- a boundary further on is a boundary relative to an earlier boundary -/
theorem IsBoundary.drop {d : Bytes} {a : Nat} (ha : IsBoundary d a) : ∀ {b : Nat}, IsBoundary d b → a ≤ b →
    IsBoundary (d.drop a) (b - a) := by
  induction ha with
  | zero d => intro b hb _; simpa using hb
  | step d k hne _ ih =>
    intro b hb hab
    have hs := runeSize_pos hne
    cases hb with
    | zero => omega
    | step _ k' _ hk' =>
      have := ih hk' (by omega)
      rw [List.drop_drop] at this
      have e : runeSize d + k' - (runeSize d + k) = k' - k := by omega
      rw [e]
      exact this

/-- every position holding an ASCII byte is a rune boundary: decoding never swallows an ASCII byte -/
theorem isBoundary_of_ascii : ∀ (n : Nat) (d : Bytes) (p : Nat), d.length ≤ n → p < d.length →
    (d.getD p 0).toNat < 0x80 → IsBoundary d p := by
  intro n
  induction n with
  | zero => intro d p h1 h2; omega
  | succ n ih =>
    intro d p hlen hp hascii
    by_cases hp0 : p = 0
    · subst hp0; exact IsBoundary.zero d
    · have hne : d ≠ [] := by intro h; subst h; simp at hp
      have hs := runeSize_pos hne
      have hsl := runeSize_le d
      have hge : runeSize d ≤ p := by
        rcases Nat.lt_or_ge p (runeSize d) with hlt | hge
        · have := runeSize_cont d p (by omega) hlt; omega
        · exact hge
      have := ih (d.drop (runeSize d)) (p - runeSize d) (by simp; omega) (by simp; omega)
        (by rw [List.getD_eq_getElem?_getD, List.getElem?_drop, ← List.getD_eq_getElem?_getD]
            have e : runeSize d + (p - runeSize d) = p := by omega
            rw [e]; exact hascii)
      have e : p = runeSize d + (p - runeSize d) := by omega
      rw [e]
      exact IsBoundary.step d _ hne this

/-- … and so is the position just after it -/
theorem isBoundary_succ_of_ascii (d : Bytes) (p : Nat) (hp : p < d.length) (hascii : (d.getD p 0).toNat < 0x80) :
    IsBoundary d (p + 1) := by
  have hb := isBoundary_of_ascii d.length d p (Nat.le_refl _) hp hascii
  -- one more step from p
  have key : ∀ {d : Bytes} {p : Nat}, IsBoundary d p → p < d.length → (d.getD p 0).toNat < 0x80 → IsBoundary d (p + 1) := by
    intro d p h
    induction h with
    | zero d =>
      intro hp ha
      cases d with
      | nil => simp at hp
      | cons b r =>
        simp only [List.getD_cons_zero] at ha
        have := IsBoundary.step (b :: r) 0 (by simp) (IsBoundary.zero _)
        rw [runeSize_ascii b r ha] at this
        exact this
    | step d k hne _ ih =>
      intro hp ha
      have hsl := runeSize_le d
      have := ih (by simp; omega) (by
        rw [List.getD_eq_getElem?_getD, List.getElem?_drop, ← List.getD_eq_getElem?_getD]; exact ha)
      have e : runeSize d + k + 1 = runeSize d + (k + 1) := by omega
      rw [e]
      exact IsBoundary.step d _ hne this
  exact key hb hp hascii

end ZoektModel.C03
