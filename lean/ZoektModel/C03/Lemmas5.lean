/-
C03 — helper lemmas, part 5: chunkCandidates.
-/
import ZoektModel.C03.Lemmas4
namespace ZoektModel.C03
open ZoektModel

structure ChunkInv (nls : Newlines) (ch : Chunk) : Prop where
  ne : ch.cands ≠ []
  first1 : 1 ≤ ch.firstLine
  firstLast : ch.firstLine ≤ ch.lastLine
  candsIn : ∀ c ∈ ch.cands, lineStart nls (ch.firstLine : Int) ≤ c.off ∧ c.off + c.sz ≤ ch.maxOff
  maxLe : ch.maxOff ≤ lineStart nls ((ch.lastLine : Int) + 1)
  lastIs : ∃ y, y ≤ ch.maxOff ∧ ch.lastLine = atOffset nls y

/-- consecutive chunks (accumulator order: newest first) are separated by more than twice the context -/
def Sep (ctx : Nat) : List Chunk → Prop
  | b :: a :: r => a.lastLine + 2 * ctx < b.firstLine ∧ Sep ctx (a :: r)
  | _ => True

structure AccInv (nls : Newlines) (ctx : Nat) (acc : List Chunk) (done : List Cand) : Prop where
  each : ∀ ch ∈ acc, ChunkInv nls ch
  sep : Sep ctx acc
  flat : acc.reverse.flatMap (fun c => c.cands.reverse) = done
  headMax : ∀ h r, acc = h :: r → ∃ c ∈ done, h.maxOff = c.off + c.sz

theorem lineRange_facts {nls : Newlines} (wf : WF nls) (s e : Nat) (hse : s ≤ e) (he : e ≤ nls.fileSize) :
    1 ≤ (offsetRangeToLineRange nls s e).1 ∧
    (offsetRangeToLineRange nls s e).1 ≤ (offsetRangeToLineRange nls s e).2 ∧
    lineStart nls ((offsetRangeToLineRange nls s e).1 : Int) ≤ s ∧
    e ≤ lineStart nls (((offsetRangeToLineRange nls s e).2 : Int) + 1) ∧
    (offsetRangeToLineRange nls s e).1 = atOffset nls s ∧
    ∃ y, s ≤ y ∧ y ≤ e ∧ (offsetRangeToLineRange nls s e).2 = atOffset nls y := by
  simp only [offsetRangeToLineRange]
  refine ⟨atOffset_pos wf s, atOffset_mono wf (by omega), lineStart_atOffset_le wf s, ?_, trivial,
    ⟨max s (max e 1 - 1), by omega, by omega, rfl⟩⟩
  by_cases h : s < e
  · have hy : max s (max e 1 - 1) = e - 1 := by omega
    rw [hy]
    have := lt_lineStart_succ wf (e - 1) (by omega)
    omega
  · have hy : max s (max e 1 - 1) = s := by omega
    rw [hy]
    have : e = s := by omega
    rw [this]
    exact le_lineStart_succ wf s (by omega)

theorem chunkStep_inv {nls : Newlines} (wf : WF nls) (ctx : Nat) (acc : List Chunk) (done : List Cand) (m : Cand)
    (inv : AccInv nls ctx acc done) (hord : ∀ c ∈ done, c.off + c.sz ≤ m.off) (hin : m.off + m.sz ≤ nls.fileSize) :
    AccInv nls ctx (chunkStep nls ctx acc m) (done ++ [m]) := by
  obtain ⟨f1, f2, f3, f4, f5, y, fy1, fy2, fy3⟩ := lineRange_facts wf m.off (m.off + m.sz) (by omega) hin
  have hnew : ChunkInv nls ⟨[m], (offsetRangeToLineRange nls m.off (m.off + m.sz)).1,
      (offsetRangeToLineRange nls m.off (m.off + m.sz)).2, m.off, m.off + m.sz⟩ :=
    { ne := by simp, first1 := f1, firstLast := f2,
      candsIn := by intro c hc; simp only [List.mem_singleton] at hc; subst hc; exact ⟨f3, Nat.le_refl _⟩,
      maxLe := f4, lastIs := ⟨y, fy2, fy3⟩ }
  cases acc with
  | nil =>
    have hd : done = [] := by have := inv.flat; simpa using this.symm
    subst hd
    simp only [chunkStep]
    exact { each := by intro ch hch; simp only [List.mem_singleton] at hch; subst hch; exact hnew,
            sep := trivial, flat := by simp,
            headMax := by intro h r hr; simp only [List.cons.injEq] at hr; exact ⟨m, by simp, by rw [← hr.1]⟩ }
  | cons last older =>
    have hl := inv.each last (by simp)
    obtain ⟨c0, hc0, hmax⟩ := inv.headMax last older rfl
    have hmaxle : last.maxOff ≤ m.off := by rw [hmax]; exact hord c0 hc0
    simp only [chunkStep]
    by_cases hmerge : (last.lastLine : Int) + ctx ≥ ((offsetRangeToLineRange nls m.off (m.off + m.sz)).1 : Int) - ctx
    · simp only [hmerge, if_true]
      -- facts shared by both merge variants
      have hfirst : lineStart nls (last.firstLine : Int) ≤ m.off := by
        obtain ⟨c1, hc1⟩ := List.exists_mem_of_ne_nil _ hl.ne
        have := hl.candsIn c1 hc1
        omega
      have hflat : ∀ (l' : Chunk), l'.cands = m :: last.cands →
          (l' :: older).reverse.flatMap (fun c => c.cands.reverse) = done ++ [m] := by
        intro l' hl'
        have := inv.flat
        simp only [List.reverse_cons, List.flatMap_append, List.flatMap_cons, List.flatMap_nil, List.append_nil] at this ⊢
        rw [hl', List.reverse_cons, ← List.append_assoc, this]
      have hsep : ∀ (l' : Chunk), l'.firstLine = last.firstLine → Sep ctx (l' :: older) := by
        intro l' hl'
        have := inv.sep
        cases older with
        | nil => trivial
        | cons a r => exact ⟨by rw [hl']; exact this.1, this.2⟩
      by_cases hupd : last.maxOff < m.off + m.sz
      · simp only [hupd, if_true]
        obtain ⟨y0, hy0, hy0'⟩ := hl.lastIs
        have hmono : last.lastLine ≤ (offsetRangeToLineRange nls m.off (m.off + m.sz)).2 := by
          rw [hy0', fy3]; exact atOffset_mono wf (by omega)
        exact {
          each := by
            intro ch hch
            rcases List.mem_cons.mp hch with rfl | hch
            · exact { ne := by simp, first1 := hl.first1, firstLast := by have := hl.firstLast; simp only; omega,
                      candsIn := by
                        intro c hc
                        simp only at hc ⊢
                        rcases List.mem_cons.mp hc with rfl | hc
                        · exact ⟨hfirst, Nat.le_refl _⟩
                        · have := hl.candsIn c hc; exact ⟨this.1, by omega⟩,
                      maxLe := f4, lastIs := ⟨y, fy2, fy3⟩ }
            · exact inv.each ch (by simp [hch]),
          sep := hsep _ rfl,
          flat := hflat _ rfl,
          headMax := by
            intro h r hr
            simp only [List.cons.injEq] at hr
            exact ⟨m, by simp, by rw [← hr.1]⟩ }
      · simp only [hupd, if_false]
        exact {
          each := by
            intro ch hch
            rcases List.mem_cons.mp hch with rfl | hch
            · exact { ne := by simp, first1 := hl.first1, firstLast := hl.firstLast,
                      candsIn := by
                        intro c hc
                        simp only at hc ⊢
                        rcases List.mem_cons.mp hc with rfl | hc
                        · exact ⟨hfirst, by omega⟩
                        · exact hl.candsIn c hc,
                      maxLe := hl.maxLe, lastIs := hl.lastIs }
            · exact inv.each ch (by simp [hch]),
          sep := hsep _ rfl,
          flat := hflat _ rfl,
          headMax := by
            intro h r hr
            simp only [List.cons.injEq] at hr
            exact ⟨c0, by simp [hc0], by rw [← hr.1]; exact hmax⟩ }
    · simp only [hmerge, if_false]
      exact {
        each := by
          intro ch hch
          rcases List.mem_cons.mp hch with rfl | hch
          · exact hnew
          · exact inv.each ch hch,
        sep := ⟨by show last.lastLine + 2 * ctx < (offsetRangeToLineRange nls m.off (m.off + m.sz)).1; omega, inv.sep⟩,
        flat := by
          have := inv.flat
          simp only [List.reverse_cons, List.flatMap_append, List.flatMap_cons, List.flatMap_nil, List.append_nil,
            List.reverse_nil, List.nil_append] at this ⊢
          rw [this],
        headMax := by
          intro h r hr
          simp only [List.cons.injEq] at hr
          exact ⟨m, by simp, by rw [← hr.1]⟩ }

theorem foldl_chunkStep_inv {nls : Newlines} (wf : WF nls) (ctx : Nat) (ms : List Cand) :
    ∀ (acc : List Chunk) (done : List Cand), AccInv nls ctx acc done →
      (done ++ ms).Pairwise (fun a b => a.off + a.sz ≤ b.off) → (∀ c ∈ ms, c.off + c.sz ≤ nls.fileSize) →
      AccInv nls ctx (ms.foldl (chunkStep nls ctx) acc) (done ++ ms) := by
  induction ms with
  | nil => intro acc done inv _ _; simpa using inv
  | cons m tl ih =>
    intro acc done inv hp hin
    simp only [List.foldl_cons]
    have hord : ∀ c ∈ done, c.off + c.sz ≤ m.off := by
      intro c hc
      exact (List.pairwise_append.mp hp).2.2 c hc m (by simp)
    have := ih _ _ (chunkStep_inv wf ctx acc done m inv hord (hin m (by simp)))
      (by simpa using hp) (fun c hc => hin c (by simp [hc]))
    simpa using this

end ZoektModel.C03
