/-
C03 — helper lemmas, part 4: from the invariants of `gatherMatches`' output to the preconditions of the fill functions.
-/
import ZoektModel.C03.Lemmas3
import ZoektModel.C02.Lemmas3
namespace ZoektModel.C03
open ZoektModel

/-- what `gatherMatches` guarantees about its output (C02, `gather_sorted_disjoint` / `gather_in_bounds`): sorted by
    `sortByOffsetSlice`, candidates of the same kind pairwise disjoint and ordered, every one inside its text -/
structure Gathered (data name : Bytes) (ms : List Cand) : Prop where
  sorted : ms.Pairwise C02.cle
  disjoint : ms.Pairwise (fun a b => a.fileName = b.fileName → a.off + a.sz ≤ b.off)
  inBounds : ∀ c ∈ ms, c.off + c.sz ≤ (if c.fileName then name.length else data.length)

theorem Gathered.content {data name : Bytes} {ms : List Cand} (g : Gathered data name ms) :
    (ms.filter (fun c => !c.fileName)).Pairwise (fun a b => a.off + a.sz ≤ b.off) ∧
    ∀ c ∈ ms.filter (fun c => !c.fileName), c.fileName = false ∧ c.off + c.sz ≤ data.length := by
  constructor
  · refine (g.disjoint.filter _).imp_of_mem ?_
    intro a b ha hb hab
    simp only [List.mem_filter, Bool.not_eq_true'] at ha hb
    exact hab (by rw [ha.2, hb.2])
  · intro c hc
    simp only [List.mem_filter, Bool.not_eq_true'] at hc
    have := g.inBounds c hc.1
    simp only [hc.2, Bool.false_eq_true, if_false] at this
    exact ⟨hc.2, this⟩

/-- line mode: breaking ordered, non-overlapping, in-bounds content candidates on newlines gives what
    `fillContentMatches` needs -/
theorem linePre_break (data : Bytes) (ms : List Cand) (hd : ms.Pairwise (fun a b => a.off + a.sz ≤ b.off))
    (hb : ∀ c ∈ ms, c.off + c.sz ≤ data.length) : LinePre data (breakMatchesOnNewlines data ms) := by
  constructor
  · unfold breakMatchesOnNewlines
    rw [List.pairwise_flatMap]
    constructor
    · intro a _
      exact (C02.breakLoop_struct a.fileName (a.off + a.sz) (data.drop a.off) a.off a.off (Nat.le_refl _) (by omega)).2.imp
        (fun h => Nat.le_of_lt h)
    · refine hd.imp_of_mem ?_
      intro a b _ _ hab x hx y hy
      have := (C02.breakLoop_struct a.fileName (a.off + a.sz) (data.drop a.off) a.off a.off (Nat.le_refl _) (by omega)).1 x hx
      have := (C02.breakLoop_struct b.fileName (b.off + b.sz) (data.drop b.off) b.off b.off (Nat.le_refl _) (by omega)).1 y hy
      omega
  · intro c hc
    simp only [breakMatchesOnNewlines, List.mem_flatMap] at hc
    obtain ⟨a, ha, hca⟩ := hc
    have hs := (C02.breakLoop_struct a.fileName (a.off + a.sz) (data.drop a.off) a.off a.off (Nat.le_refl _) (by omega)).1 c hca
    have hab := hb a ha
    refine ⟨hs.2.1, by omega, ?_⟩
    intro p h1 h2
    have hcov : C02.covers (breakLoop a.fileName (a.off + a.sz) (data.drop a.off) a.off a.off) p := ⟨c, hca, h1, h2⟩
    rw [C02.breakLoop_cover a.fileName (a.off + a.sz) (data.drop a.off) a.off a.off p (Nat.le_refl _) (by omega)
      (by simp; omega)] at hcov
    rcases hcov with h | ⟨h3, _, h5⟩
    · omega
    · rw [C02.getD_drop] at h5
      have e : a.off + (p - a.off) = p := by omega
      rwa [e] at h5

end ZoektModel.C03

namespace ZoektModel.C03
open ZoektModel

/-- the output of `gatherMatches` satisfies `Gathered` whenever the collected candidates lie inside their texts -/
theorem gathered_of_gather (data name : Bytes) (cands : List Cand)
    (hb : ∀ c ∈ cands, c.off + c.sz ≤ (if c.fileName then name.length else data.length)) :
    Gathered data name (C02.gatherCands name cands) := by
  by_cases hne : cands = []
  · subst hne
    simp only [C02.gatherCands, List.length_nil, if_true]
    exact ⟨by simp, by simp, by intro c hc; simp only [List.mem_singleton] at hc; subst hc; simp⟩
  · have hlen : ¬ cands.length = 0 := by simpa using hne
    simp only [C02.gatherCands, hlen, if_false]
    have hsub := C02.overlapFilter_sublist (sortCands cands)
    have hsorted := (C02.sortCands_sorted cands).sublist hsub
    refine ⟨hsorted, ?_, ?_⟩
    · cases h : sortCands cands with
      | nil => simp [C02.overlapFilter]
      | cons c r =>
        rw [h] at hsorted
        simp only [C02.overlapFilter] at hsorted ⊢
        exact C02.chain_pairwise c _ hsorted (C02.filterFrom_chain c r)
    · intro c hc
      exact hb c (C02.mem_sortCands.mp (hsub.subset hc))

end ZoektModel.C03
