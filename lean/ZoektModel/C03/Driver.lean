import ZoektModel.Basic.Proto
import ZoektModel.C03.Spec
import ZoektModel.C03.Render
import ZoektModel.C02.Model
namespace ZoektModel.C03
open ZoektModel ZoektModel.Proto

def mkNewlines (locs : List Nat) (fileSize : Nat) : Newlines := ⟨locs, fileSize⟩

def showChunkC (c : Chunk) : String := s!"{c.firstLine}.{c.lastLine}.{c.minOff}.{c.maxOff}:" ++ "+".intercalate (c.cands.map showCand)

/-- parse `a.b,a.b,…` pairs -/
def parsePairs (s : String) : Option (List (Nat × Nat)) :=
  if s == "-" then some [] else
  (s.splitOn ",").mapM fun e =>
    match e.splitOn "." with
    | [a, b] => do pure (← a.toNat?, ← b.toNat?)
    | _ => none

def colRun (data : Bytes) : ColSt → List (Nat × Nat) → List Nat
  | _, [] => []
  | st, (lo, o) :: r => let (st', c) := colGet data st lo o; c :: colRun data st' r

/-- the verdict of the C03 statement on the implementation's reported output -/
def verdictLines (data name : Bytes) (ctx : Nat) (impl : String) (model : String) : String :=
  if impl == "PANIC" then specFail model "panic" else
  match parseLines impl with
  | none => badCase "impl lines"
  | some lms => if checkLines data name ctx lms then answer model else specFail model "lines"

def verdictChunks (data name : Bytes) (impl : String) (model : String) : String :=
  if impl == "PANIC" then specFail model "panic" else
  match parseChunks impl with
  | none => badCase "impl chunks"
  | some cms => if checkChunks data name cms then answer model else specFail model "chunks"

def handle (line : String) : String :=
  let (inp, impl) := splitCase line
  match fields inp with
  -- nl <locs> <fileSize> <dataHex> <offs> <lines> : atOffset of each off; lineStart of each line; range→lines of
  -- consecutive off pairs; getLines for consecutive line pairs
  | ["nl", locs, fs, dataHex, offs, lns] =>
    match natList? locs, fs.toNat?, hexToBytes? dataHex, natList? offs, intList? lns with
    | some locs, some fs, some data, some offs, some lns =>
      let nls := mkNewlines locs fs
      let ats := offs.map (atOffset nls)
      let ls := lns.map (lineStart nls)
      let rl := (offs.zip (offs.drop 1)).map fun (a, b) =>
        let (x, y) := offsetRangeToLineRange nls a b; s!"{x}.{y}"
      let gl := (lns.zip (lns.drop 1)).map fun (a, b) => bytesToHex (getLines nls data a b)
      let model := s!"at={showNatList ats} ls={showNatList ls} rl={showList id rl} gl={showList id gl}"
      -- the statement on the implementation's output (the harness always sends the document's real newline table):
      -- atOffset = 1 + newlines before the offset, lineStart = the scan of the specification
      let wantAt := s!"at={showNatList (offs.map (lineOf data))}"
      let wantLs := s!"ls={showNatList (lns.map fun l => lineStartSpec data l.toNat)}"
      match fields impl with
      | [a, l, _, _] =>
        if locs != (Newlines.ofData data).locs || fs != data.length then answer model
        else if a != wantAt then specFail model "atoffset"
        else if l != wantLs then specFail model "linestart"
        else answer model
      | _ => badCase "impl nl"
    | _, _, _, _, _ => badCase "nl fields"
  -- chunk <locs> <fileSize> <ctx> <cands>
  | ["chunk", locs, fs, ctx, cands] =>
    match natList? locs, fs.toNat?, ctx.toNat?, parseCands cands with
    | some locs, some fs, some ctx, some cands =>
      let cs := chunkCandidates (mkNewlines locs fs) ctx cands
      answer (if cs.isEmpty then "-" else "|".intercalate (cs.map showChunkC))
    | _, _, _, _ => badCase "chunk fields"
  -- col <dataHex> <lineOff.off,…>
  | ["col", dataHex, qs] =>
    match hexToBytes? dataHex, parsePairs qs with
    | some data, some qs => answer (showNatList (colRun data {} qs))
    | _, _ => badCase "col fields"
  -- fill / e2e <mode> <ctx> <contentHex> <nameHex> <cands>: `fill` = fillMatches/fillChunkMatches on the given candidates,
  -- `e2e` = gatherMatches first (the candidates are every atom's matches)
  | [op, mode, ctx, dataHex, nameHex, cands] =>
    if op != "fill" && op != "e2e" then badCase "op" else
    match ctx.toNat?, hexToBytes? dataHex, hexToBytes? nameHex, parseCands cands with
    | some ctx, some data, some name, some cands =>
      let ms := if op == "e2e" then C02.gatherCands name cands else cands
      if mode == "l" then
        let model := match fillMatches data name ctx ms with
          | none => "PANIC"
          | some lms => showLines lms
        verdictLines data name ctx impl model
      else if mode == "c" then
        verdictChunks data name impl (showChunks (fillChunkMatches data name ctx ms))
      else badCase "mode"
    | _, _, _, _ => badCase "fill fields"
  | _ => badCase "op"

def main : IO Unit := runLines handle
end ZoektModel.C03
