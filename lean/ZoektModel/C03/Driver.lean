import ZoektModel.Basic.Proto
namespace ZoektModel.C03
/-- stub: no model driver for C03 yet -/
def main : IO Unit := ZoektModel.Proto.runLines (fun _ => ZoektModel.Proto.badCase "no model driver for C03")
end ZoektModel.C03
