/-
Model of Go's `utf8.DecodeRune` (size only) and `utf8.RuneCount` (core Lean only; shared by C02 and C03).

`runeSize b` is the width `utf8.DecodeRune(b)` reports: 0 for empty input, 1 for ASCII and for every invalid or
truncated sequence (Go returns `(RuneError, 1)`), 2–4 for a well-formed multi-byte sequence (surrogates and
over-long forms are invalid, exactly as in Go's `first`/`acceptRanges` tables).
`runeCount` is `utf8.RuneCount`: the number of `DecodeRune` steps needed to consume the input.
-/
import ZoektModel.Basic.Bytes
namespace ZoektModel.C03
open ZoektModel

def inR (b : UInt8) (lo hi : Nat) : Bool := decide (lo ≤ b.toNat) && decide (b.toNat ≤ hi)

def runeSize : Bytes → Nat
  | [] => 0
  | b0 :: rest =>
    let x := b0.toNat
    if x < 0xC2 then 1                       -- ASCII, stray continuation byte, over-long C0/C1
    else if x < 0xE0 then                    -- two bytes
      match rest with
      | b1 :: _ => if inR b1 0x80 0xBF then 2 else 1
      | _ => 1
    else if x < 0xF0 then                    -- three bytes
      let lo := if x = 0xE0 then 0xA0 else 0x80
      let hi := if x = 0xED then 0x9F else 0xBF
      match rest with
      | b1 :: b2 :: _ => if inR b1 lo hi && inR b2 0x80 0xBF then 3 else 1
      | _ => 1
    else if x < 0xF5 then                    -- four bytes
      let lo := if x = 0xF0 then 0x90 else 0x80
      let hi := if x = 0xF4 then 0x8F else 0xBF
      match rest with
      | b1 :: b2 :: b3 :: _ => if inR b1 lo hi && inR b2 0x80 0xBF && inR b3 0x80 0xBF then 4 else 1
      | _ => 1
    else 1

/-- `utf8.RuneCount`, byte by byte: `skip` = bytes of the current rune still to be consumed -/
def runeCountAux : Nat → Bytes → Nat
  | _, [] => 0
  | 0, b :: rest => 1 + runeCountAux (runeSize (b :: rest) - 1) rest
  | k + 1, _ :: rest => runeCountAux k rest

def runeCount (b : Bytes) : Nat := runeCountAux 0 b

/-- bytes consumed by `n` successive `DecodeRune` steps (a step on empty input consumes nothing, as in Go) -/
def advance : Nat → Bytes → Nat
  | 0, _ => 0
  | n + 1, d => let s := runeSize d; s + advance n (d.drop s)

end ZoektModel.C03
