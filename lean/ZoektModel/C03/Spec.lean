/-
C03 — the property as executable predicates over the *reported* line matches / chunk matches of one file,
written from the statement (properties.jsonl), not from the code: they only use byte scans of the content.
Evaluated by the driver on the implementation's output and used verbatim in Props/C03.lean.
-/
import ZoektModel.C03.Model
namespace ZoektModel.C03
open ZoektModel

/-- number of '\n' bytes -/
def countNL (b : Bytes) : Nat := b.count 10

/-- 1-based number of the line containing byte offset `off`: 1 + the number of newlines before it -/
def lineOf (data : Bytes) (off : Nat) : Nat := 1 + countNL (data.take off)

/-- byte offset at which 1-based line `n` starts: 0 for `n ≤ 1`, else just after the `(n-1)`-th newline; the file
    length if the file has fewer newlines (a scan, independent of the newline table) -/
def lineStartScan : Bytes → Nat → Nat → Nat
  | [], _, pos => pos
  | b :: r, n, pos =>
    if n ≤ 1 then pos
    else if b = 10 then lineStartScan r (n - 1) (pos + 1) else lineStartScan r n (pos + 1)

def lineStartSpec (data : Bytes) (n : Nat) : Nat := lineStartScan data n 0

/-- `pos` is a line boundary: the start of the file, just after a '\n', or the end of the file -/
def isLineBoundary (data : Bytes) (pos : Nat) : Bool :=
  pos == 0 || pos == data.length || (pos ≤ data.length && data.getD (pos - 1) 0 == 10)

/-- number of lines of a byte string (a last line without '\n' counts) -/
def countLines (b : Bytes) : Nat :=
  countNL b + (if b.isEmpty || b.getLast? == some 10 then 0 else 1)

/-- one content line match agrees with the file: number, start, end, text, fragments inside the line -/
def lineCoreOk (data : Bytes) (lm : LineMatch) : Bool :=
  decide (lm.lineNumber ≥ 1) &&
  lm.lineStart == lineStartSpec data lm.lineNumber &&
  decide (lm.lineStart < data.length) &&
  lm.lineNumber == lineOf data lm.lineStart &&
  -- the line ends at the first newline at or after its start (inclusive of it), or at the end of the file
  lm.lineEnd == lineStartSpec data (lm.lineNumber + 1) &&
  decide (lm.lineStart < lm.lineEnd) &&
  lm.line == Bytes.slice data lm.lineStart lm.lineEnd &&
  -- fragments: inside the line, LineOffset relative to the line start
  lm.frags.all (fun f => decide (lm.lineStart ≤ f.off) && decide (f.off + f.len ≤ lm.lineEnd) &&
                         f.lineOff == (f.off : Int) - (lm.lineStart : Int)) &&
  decide (lm.frags.length > 0)

/-- the before/after context is the text of the `ctx` neighbouring lines (up to the file boundaries) -/
def lineContextOk (data : Bytes) (ctx : Nat) (lm : LineMatch) : Bool :=
  (let k := min ctx (lm.lineNumber - 1)
   lm.before == Bytes.slice data (lineStartSpec data (lm.lineNumber - k)) lm.lineStart) &&
  lm.after == Bytes.slice data lm.lineEnd (lineStartSpec data (lm.lineNumber + 1 + ctx))

/-- … and is exactly the requested number of lines, fewer only at the file boundaries -/
def lineContextCountOk (data : Bytes) (ctx : Nat) (lm : LineMatch) : Bool :=
  countLines lm.before == min ctx (lm.lineNumber - 1) &&
  countLines lm.after == min ctx (countLines data - lm.lineNumber)

def lineMatchOk (data : Bytes) (ctx : Nat) (lm : LineMatch) : Bool :=
  lineCoreOk data lm && lineContextOk data ctx lm && lineContextCountOk data ctx lm

/-- a file-name match reports the file name as its text -/
def fileNameLineOk (name : Bytes) (lm : LineMatch) : Bool :=
  lm.line == name && lm.frags.all (fun f => decide (f.off + f.len ≤ name.length) && f.lineOff == (f.off : Int))

def checkLines (data name : Bytes) (ctx : Nat) (lms : List LineMatch) : Bool :=
  lms.all fun lm => if lm.fileName then fileNameLineOk name lm else lineMatchOk data ctx lm

/-- 1 + the runes between the start of line `line` and byte offset `off` -/
def columnOf (data : Bytes) (line off : Nat) : Nat :=
  1 + runeCount (Bytes.slice data (lineStartSpec data line) off)

/-- the line a range's exclusive end is reported on: the line of the range's last byte (so an end just after a '\n'
    is the position past the newline on that line); an empty range ends where it starts -/
def endLineOf (data : Bytes) (startOff stopOff : Nat) : Nat := lineOf data (max startOff (stopOff - 1))

/-- one content chunk: whole lines starting at its reported start location, containing all of its ranges -/
def chunkShapeOk (data : Bytes) (cm : ChunkMatch) : Bool :=
  decide (cm.contentStart.line ≥ 1) && cm.contentStart.col == 1 &&
  cm.contentStart.byteOff == lineStartSpec data cm.contentStart.line &&
  cm.content == Bytes.slice data cm.contentStart.byteOff (cm.contentStart.byteOff + cm.content.length) &&
  decide (cm.contentStart.byteOff + cm.content.length ≤ data.length) &&
  isLineBoundary data (cm.contentStart.byteOff + cm.content.length) &&
  decide (cm.ranges.length > 0) &&
  cm.ranges.all (fun r =>
    decide (cm.contentStart.byteOff ≤ r.start.byteOff) && decide (r.start.byteOff ≤ r.stop.byteOff) &&
    decide (r.stop.byteOff ≤ cm.contentStart.byteOff + cm.content.length))

/-- every range reports line numbers that agree with its byte offsets -/
def chunkLinesOk (data : Bytes) (cm : ChunkMatch) : Bool :=
  cm.ranges.all (fun r =>
    r.start.line == lineOf data r.start.byteOff && r.stop.line == endLineOf data r.start.byteOff r.stop.byteOff)

/-- every range reports character columns that agree with its byte offsets: 1 + runes since the start of the reported line -/
def chunkColsOk (data : Bytes) (cm : ChunkMatch) : Bool :=
  cm.ranges.all (fun r =>
    r.start.col == columnOf data r.start.line r.start.byteOff && r.stop.col == columnOf data r.stop.line r.stop.byteOff)

def chunkOk (data : Bytes) (cm : ChunkMatch) : Bool :=
  chunkShapeOk data cm && chunkLinesOk data cm && chunkColsOk data cm

/-- chunk `a` lies entirely before chunk `b` -/
def chunkBefore (a b : ChunkMatch) : Bool :=
  decide (a.contentStart.byteOff + a.content.length ≤ b.contentStart.byteOff)

/-- chunks (given in file order) never overlap -/
def chunksDisjoint : List ChunkMatch → Bool
  | [] => true
  | [_] => true
  | a :: b :: r => chunkBefore a b && chunksDisjoint (b :: r)

def fileNameChunkOk (name : Bytes) (cm : ChunkMatch) : Bool :=
  cm.content == name && cm.contentStart == ⟨0, 1, 1⟩ &&
  cm.ranges.all (fun r =>
    decide (r.start.byteOff ≤ r.stop.byteOff) && decide (r.stop.byteOff ≤ name.length) &&
    r.start.line == 1 && r.stop.line == 1 &&
    r.start.col == 1 + runeCount (name.take r.start.byteOff) &&
    r.stop.col == 1 + runeCount (name.take r.stop.byteOff))

/-- the chunk half of the statement; `cms` in file order -/
def checkChunks (data name : Bytes) (cms : List ChunkMatch) : Bool :=
  (cms.all fun cm => if cm.fileName then fileNameChunkOk name cm else chunkOk data cm) &&
  chunksDisjoint (cms.filter (fun cm => !cm.fileName))

end ZoektModel.C03
