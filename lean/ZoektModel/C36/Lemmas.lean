/-
C36 — lemmas about the escaper ports (core Lean only).
-/
import ZoektModel.C36.Spec
namespace ZoektModel.C36

/-! ## utf8.DecodeRuneInString: the bytes of a decoded rune are the rune itself (ASCII) or are all ≥ 0x80 -/

theorem isCont_ge (b : Nat) (h : isCont b = true) : 0x80 ≤ b := by
  unfold isCont at h
  simp at h
  exact h.1

theorem lo2_ge (s0 : Nat) : 0x80 ≤ lo2 s0 := by
  unfold lo2
  split
  · omega
  · split <;> omega

theorem dec2_spec (s0 : Nat) (rest : Str) :
    1 ≤ (dec2 s0 rest).2 ∧ ∀ b ∈ rest.take ((dec2 s0 rest).2 - 1), 0x80 ≤ b := by
  cases rest with
  | nil => simp [dec2]
  | cons s1 t =>
    by_cases h : isCont s1 = true
    · have := isCont_ge _ h
      simp [dec2, h]; omega
    · simp [dec2, h]

theorem dec3_spec (s0 : Nat) (rest : Str) :
    1 ≤ (dec3 s0 rest).2 ∧ ∀ b ∈ rest.take ((dec3 s0 rest).2 - 1), 0x80 ≤ b := by
  match rest with
  | [] => simp [dec3]
  | [_] => simp [dec3]
  | s1 :: s2 :: t =>
    by_cases h : (decide (lo2 s0 ≤ s1) && decide (s1 ≤ hi2 s0) && isCont s2) = true
    · have h' := h
      simp only [Bool.and_eq_true, decide_eq_true_eq] at h'
      have h2 := isCont_ge _ h'.2
      have h1 := lo2_ge s0
      simp [dec3, h]; omega
    · simp [dec3, h]

theorem dec4_spec (s0 : Nat) (rest : Str) :
    1 ≤ (dec4 s0 rest).2 ∧ ∀ b ∈ rest.take ((dec4 s0 rest).2 - 1), 0x80 ≤ b := by
  match rest with
  | [] => simp [dec4]
  | [_] => simp [dec4]
  | [_, _] => simp [dec4]
  | s1 :: s2 :: s3 :: t =>
    by_cases h : (decide (lo2 s0 ≤ s1) && decide (s1 ≤ hi2 s0) && isCont s2 && isCont s3) = true
    · have h' := h
      simp only [Bool.and_eq_true, decide_eq_true_eq] at h'
      have h3 := isCont_ge _ h'.2
      have h2 := isCont_ge _ h'.1.2
      have h1 := lo2_ge s0
      simp [dec4, h]; omega
    · simp [dec4, h]

theorem take_cons_pred (s0 : Nat) (rest : Str) (w : Nat) (hw : 1 ≤ w) :
    (s0 :: rest).take w = s0 :: rest.take (w - 1) := by
  cases w with
  | zero => omega
  | succ k => simp

theorem high_take (s0 : Nat) (rest : Str) (w : Nat) (h0 : 0x80 ≤ s0) (hw : 1 ≤ w)
    (h : ∀ b ∈ rest.take (w - 1), 0x80 ≤ b) : ∀ b ∈ (s0 :: rest).take w, 0x80 ≤ b := by
  rw [take_cons_pred _ _ _ hw]
  intro b hb
  simp only [List.mem_cons] at hb
  rcases hb with rfl | hb
  · exact h0
  · exact h b hb

theorem decodeRune_spec (s0 : Nat) (rest : Str) :
    ((s0 :: rest).take (decodeRune (s0 :: rest)).2 = [(decodeRune (s0 :: rest)).1] ∧ (decodeRune (s0 :: rest)).1 < 0x80) ∨
    (∀ b ∈ (s0 :: rest).take (decodeRune (s0 :: rest)).2, 0x80 ≤ b) := by
  by_cases h1 : s0 < 0x80
  · left; simp [decodeRune, h1]
  · right
    have h0 : 0x80 ≤ s0 := by omega
    by_cases h2 : s0 < 0xC2
    · simp [decodeRune, h1, h2]; exact h0
    · by_cases h3 : s0 < 0xE0
      · simp only [decodeRune, h1, h2, h3, if_false, if_true]
        exact high_take _ _ _ h0 (dec2_spec s0 rest).1 (dec2_spec s0 rest).2
      · by_cases h4 : s0 < 0xF0
        · simp only [decodeRune, h1, h2, h3, h4, if_false, if_true]
          exact high_take _ _ _ h0 (dec3_spec s0 rest).1 (dec3_spec s0 rest).2
        · by_cases h5 : s0 < 0xF5
          · simp only [decodeRune, h1, h2, h3, h4, h5, if_false, if_true]
            exact high_take _ _ _ h0 (dec4_spec s0 rest).1 (dec4_spec s0 rest).2
          · simp [decodeRune, h1, h2, h3, h4, h5]; exact h0

theorem decodeRune_width_pos (s0 : Nat) (rest : Str) : 1 ≤ (decodeRune (s0 :: rest)).2 := by
  by_cases h1 : s0 < 0x80
  · simp [decodeRune, h1]
  · by_cases h2 : s0 < 0xC2
    · simp [decodeRune, h1, h2]
    · by_cases h3 : s0 < 0xE0
      · simp only [decodeRune, h1, h2, h3, if_false, if_true]; exact (dec2_spec s0 rest).1
      · by_cases h4 : s0 < 0xF0
        · simp only [decodeRune, h1, h2, h3, h4, if_false, if_true]; exact (dec3_spec s0 rest).1
        · by_cases h5 : s0 < 0xF5
          · simp only [decodeRune, h1, h2, h3, h4, h5, if_false, if_true]; exact (dec4_spec s0 rest).1
          · simp [decodeRune, h1, h2, h3, h4, h5]

/-! ## the rune loop -/

theorem all_take {P : Nat → Bool} (s : Str) (n : Nat) (h : s.all P = true) : (s.take n).all P = true := by
  rw [List.all_eq_true] at *
  intro x hx
  exact h x (List.mem_of_mem_take hx)

theorem all_drop {P : Nat → Bool} (s : Str) (n : Nat) (h : s.all P = true) : (s.drop n).all P = true := by
  rw [List.all_eq_true] at *
  intro x hx
  exact h x (List.mem_of_mem_drop hx)

/-- replacements satisfy `P` and the input satisfies `P` ⇒ the output satisfies `P` -/
theorem runeLoop_preserves (P : Nat → Bool) (repl : Nat → Option Str)
    (hrepl : ∀ r t, repl r = some t → t.all P = true) :
    ∀ fuel s, s.all P = true → (runeLoop repl fuel s).all P = true := by
  intro fuel
  induction fuel with
  | zero => intro s _; simp [runeLoop]
  | succ n ih =>
    intro s hs
    cases s with
    | nil => simp [runeLoop]
    | cons s0 rest =>
      simp only [runeLoop, List.all_append, Bool.and_eq_true]
      refine ⟨?_, ih _ (all_drop _ _ hs)⟩
      split
      · rename_i t ht; exact hrepl _ t ht
      · exact all_take _ _ hs

/-- the fuel `s.length` is enough: more fuel changes nothing (every step consumes at least one byte), so the loop
    processes the whole string as the Go loop does -/
theorem runeLoop_fuel (repl : Nat → Option Str) : ∀ n s, s.length ≤ n → runeLoop repl (n + 1) s = runeLoop repl n s := by
  intro n
  induction n with
  | zero =>
    intro s hl
    have : s = [] := List.eq_nil_of_length_eq_zero (by omega)
    subst this
    simp [runeLoop]
  | succ m ih =>
    intro s hl
    cases s with
    | nil => simp [runeLoop]
    | cons c rest =>
      have hw := decodeRune_width_pos c rest
      have hd : ((c :: rest).drop (decodeRune (c :: rest)).2).length ≤ m := by
        simp only [List.length_drop, List.length_cons] at hl ⊢
        omega
      simp only [runeLoop]
      rw [ih _ hd]

/-- ASCII bytes that are never replaced pass through unchanged -/
theorem runeLoop_ident (repl : Nat → Option Str) (P : Nat → Bool)
    (hP : ∀ c, P c = true → c < 0x80 ∧ repl c = none) :
    ∀ fuel s, s.length ≤ fuel → s.all P = true → runeLoop repl fuel s = s := by
  intro fuel
  induction fuel with
  | zero =>
    intro s hl _
    have : s = [] := List.eq_nil_of_length_eq_zero (by omega)
    subst this
    simp [runeLoop]
  | succ n ih =>
    intro s hl hs
    cases s with
    | nil => simp [runeLoop]
    | cons c rest =>
      simp only [List.all_cons, Bool.and_eq_true] at hs
      obtain ⟨hlt, hnone⟩ := hP c hs.1
      have hd : decodeRune (c :: rest) = (c, 1) := by simp [decodeRune, hlt]
      simp only [runeLoop, hd, hnone]
      simp only [List.take_succ_cons, List.take_zero, List.drop_succ_cons, List.drop_zero, List.cons_append, List.nil_append]
      rw [ih rest (by simp at hl; omega) hs.2]

/-- every bad byte is ASCII and always replaced, replacements contain no bad byte ⇒ the output contains no bad byte,
    whatever the input -/
theorem runeLoop_noneOf (bad : List Nat) (repl : Nat → Option Str)
    (hbad : ∀ b ∈ bad, b < 0x80 ∧ repl b ≠ none)
    (hrepl : ∀ r t, repl r = some t → noneOf bad t = true) :
    ∀ fuel s, noneOf bad (runeLoop repl fuel s) = true := by
  intro fuel
  induction fuel with
  | zero => intro s; simp [runeLoop, noneOf]
  | succ n ih =>
    intro s
    cases s with
    | nil => simp [runeLoop, noneOf]
    | cons s0 rest =>
      have hrest := ih ((s0 :: rest).drop (decodeRune (s0 :: rest)).2)
      unfold noneOf at hrest ⊢
      simp only [runeLoop, List.all_append, Bool.and_eq_true]
      refine ⟨?_, hrest⟩
      split
      · rename_i t ht
        have := hrepl _ t ht
        unfold noneOf at this
        exact this
      · rename_i hnone
        rw [List.all_eq_true]
        intro x hx
        rcases decodeRune_spec s0 rest with ⟨htake, _⟩ | hge
        · rw [htake] at hx
          simp at hx
          subst hx
          simp only [Bool.not_eq_true', List.contains_eq_mem, decide_eq_false_iff_not]
          intro hmem
          exact (hbad _ hmem).2 hnone
        · have hx80 := hge x hx
          simp only [Bool.not_eq_true', List.contains_eq_mem, decide_eq_false_iff_not]
          intro hmem
          have := (hbad _ hmem).1
          omega

/-! ## html.go -/

theorem hexDigit_ne (n : Nat) (hn : n < 16) (bad : List Nat) (hb : ∀ b ∈ bad, b < 48 ∨ (57 < b ∧ b < 97) ∨ 102 < b) :
    hexDigit n ∉ bad := by
  intro hmem
  have := hb _ hmem
  unfold hexDigit at this
  split at this <;> omega

theorem hexOf_all (P : Nat → Bool) (hP : ∀ n, n < 16 → P (hexDigit n) = true) :
    ∀ fuel n, (hexOf fuel n).all P = true := by
  intro fuel
  induction fuel with
  | zero => intro n; simp [hexOf]
  | succ k ih =>
    intro n
    unfold hexOf
    split
    · rename_i h; simp [hP n h]
    · simp only [List.all_append, Bool.and_eq_true]
      exact ⟨ih _, by simp [hP (n % 16) (Nat.mod_lt _ (by decide))]⟩

theorem htmlTbl_some (r : Nat) (t : Str) (h : htmlTbl r = some t) :
    t ∈ [[0xEF, 0xBF, 0xBD], [38, 35, 51, 52, 59], [38, 97, 109, 112, 59], [38, 35, 51, 57, 59], [38, 35, 52, 51, 59],
         [38, 108, 116, 59], [38, 103, 116, 59]] := by
  unfold htmlTbl at h
  split at h <;> simp at h <;> subst h <;> simp

theorem nospaceTbl_some (r : Nat) (t : Str) (h : nospaceTbl r = some t) :
    t ∈ [[38, 35, 120, 102, 102, 102, 100, 59], [38, 35, 57, 59], [38, 35, 49, 48, 59], [38, 35, 49, 49, 59],
         [38, 35, 49, 50, 59], [38, 35, 49, 51, 59], [38, 35, 51, 50, 59], [38, 35, 51, 52, 59], [38, 97, 109, 112, 59],
         [38, 35, 51, 57, 59], [38, 35, 52, 51, 59], [38, 108, 116, 59], [38, 35, 54, 49, 59], [38, 103, 116, 59],
         [38, 35, 57, 54, 59]] := by
  unfold nospaceTbl at h
  split at h <;> simp at h <;> subst h <;> simp

/-- the replacement strings of the two HTML tables use only these bytes: `& # ; x`, digits, lower-case letters, and the
    three bytes of U+FFFD -/
def entityByte (c : Nat) : Bool :=
  c == 38 || c == 35 || c == 59 || (decide (48 ≤ c) && decide (c ≤ 57)) || (decide (97 ≤ c) && decide (c ≤ 122)) ||
  c == 0xEF || c == 0xBF || c == 0xBD

theorem hexDigit_entityByte (n : Nat) (hn : n < 16) : entityByte (hexDigit n) = true := by
  unfold hexDigit entityByte
  split <;> simp <;> omega

theorem htmlRepl_entity (tbl : Nat → Option Str) (bad : Bool)
    (htbl : ∀ r t, tbl r = some t → t.all entityByte = true) (r : Nat) (t : Str)
    (h : htmlRepl tbl bad r = some t) : t.all entityByte = true := by
  unfold htmlRepl at h
  split at h
  · rename_i t' ht
    cases h
    exact htbl _ _ ht
  · split at h
    · cases h
      simp only [List.all_append, Bool.and_eq_true]
      exact ⟨⟨by decide, hexOf_all _ hexDigit_entityByte _ _⟩, by decide⟩
    · cases h

theorem htmlTbl_entity (r : Nat) (t : Str) (h : htmlTbl r = some t) : t.all entityByte = true := by
  have := htmlTbl_some r t h
  simp only [List.mem_cons, List.not_mem_nil, or_false] at this
  rcases this with rfl | rfl | rfl | rfl | rfl | rfl | rfl <;> decide

theorem nospaceTbl_entity (r : Nat) (t : Str) (h : nospaceTbl r = some t) : t.all entityByte = true := by
  have := nospaceTbl_some r t h
  simp only [List.mem_cons, List.not_mem_nil, or_false] at this
  rcases this with rfl | rfl | rfl | rfl | rfl | rfl | rfl | rfl | rfl | rfl | rfl | rfl | rfl | rfl | rfl <;> decide

/-- a set of bad bytes none of which is an entity byte -/
theorem entity_noneOf (bad : List Nat) (hbad : bad.all (fun b => !entityByte b) = true) (t : Str)
    (ht : t.all entityByte = true) : noneOf bad t = true := by
  unfold noneOf
  rw [List.all_eq_true] at *
  intro x hx
  have hxe := ht x hx
  simp only [Bool.not_eq_true', List.contains_eq_mem, decide_eq_false_iff_not]
  intro hmem
  have := hbad x hmem
  simp [hxe] at this

theorem htmlRepl_ne_none_of_tbl (tbl : Nat → Option Str) (bad : Bool) (r : Nat) (h : tbl r ≠ none) :
    htmlRepl tbl bad r ≠ none := by
  unfold htmlRepl
  split
  · simp
  · rename_i hn; exact absurd hn h

/-- `htmlEscaper` / `rcdataEscaper` / `attrEscaper`: none of NUL `"` `'` `<` `>` `+` in the output -/
theorem htmlEscape_noneOf (s : Str) : noneOf [0, 34, 39, 43, 60, 62] (htmlEscape s) = true := by
  unfold htmlEscape htmlReplacer
  apply runeLoop_noneOf
  · intro b hb
    refine ⟨?_, htmlRepl_ne_none_of_tbl _ _ _ ?_⟩
    · simp at hb; omega
    · simp at hb
      rcases hb with rfl | rfl | rfl | rfl | rfl | rfl <;> simp [htmlTbl]
  · intro r t h
    exact entity_noneOf _ (by decide) t (htmlRepl_entity _ _ htmlTbl_entity r t h)

/-- `htmlNospaceEscaper` on a non-empty string -/
theorem nospaceReplacer_noneOf (s : Str) :
    noneOf [0, 9, 10, 11, 12, 13, 32, 34, 39, 43, 60, 61, 62, 96] (htmlReplacer nospaceTbl false s) = true := by
  unfold htmlReplacer
  apply runeLoop_noneOf
  · intro b hb
    refine ⟨?_, htmlRepl_ne_none_of_tbl _ _ _ ?_⟩
    · simp at hb; omega
    · simp at hb
      rcases hb with rfl | rfl | rfl | rfl | rfl | rfl | rfl | rfl | rfl | rfl | rfl | rfl | rfl | rfl <;> simp [nospaceTbl]
  · intro r t h
    exact entity_noneOf _ (by decide) t (htmlRepl_entity _ _ nospaceTbl_entity r t h)

theorem noneOf_mono (big small : List Nat) (h : ∀ b ∈ small, b ∈ big) (s : Str) (hs : noneOf big s = true) :
    noneOf small s = true := by
  unfold noneOf at *
  rw [List.all_eq_true] at *
  intro x hx
  have := hs x hx
  simp only [Bool.not_eq_true', List.contains_eq_mem, decide_eq_false_iff_not] at this ⊢
  intro hm
  exact this (h x hm)

/-- the rune loop never produces the empty string from a non-empty one -/
theorem runeLoop_ne_nil (repl : Nat → Option Str) (hrepl : ∀ r t, repl r = some t → t ≠ []) (n : Nat) (s0 : Nat) (rest : Str) :
    runeLoop repl (n + 1) (s0 :: rest) ≠ [] := by
  simp only [runeLoop]
  intro h
  rw [List.append_eq_nil_iff] at h
  have h1 := h.1
  split at h1
  · rename_i t ht; exact hrepl _ t ht h1
  · have := decodeRune_width_pos s0 rest
    cases hw : (decodeRune (s0 :: rest)).2 with
    | zero => omega
    | succ k => rw [hw] at h1; simp at h1

/-! ## url.go -/

theorem hexDigit_alnum (n : Nat) (hn : n < 16) : isAlnum (hexDigit n) = true := by
  unfold hexDigit isAlnum
  split <;> simp <;> omega

theorem urlKeep_escape (c : Nat) (rest : Str) (h : urlKeep false c rest = true) : isUnreserved c = true := by
  unfold urlKeep at h
  split at h
  · simp at h
  · split at h
    · rename_i hu; simp [isUnreserved, hu]
    · split at h
      · simp at h
      · simp [isUnreserved, h]

/-- bytes the URL normalizer can output -/
def urlByte (c : Nat) : Bool := isReserved c || isUnreserved c || c == 37

theorem urlKeep_norm (c : Nat) (rest : Str) (h : urlKeep true c rest = true) : urlByte c = true := by
  unfold urlKeep at h
  unfold urlByte
  split at h
  · rename_i hr; simp [hr]
  · split at h
    · rename_i hu; simp [isUnreserved, hu]
    · split at h
      · rename_i h37; simp [h37]
      · simp [isUnreserved, h]

theorem pctEncode_bytes (c : Nat) : (pctEncode c).all (fun c => isUnreserved c || c == 37) = true := by
  have h1 : (c / 16) % 16 < 16 := Nat.mod_lt _ (by decide)
  have h2 : c % 16 < 16 := Nat.mod_lt _ (by decide)
  simp [pctEncode, isUnreserved, hexDigit_alnum _ h1, hexDigit_alnum _ h2]

/-- `urlEscaper`: unreserved bytes and `%` only -/
theorem urlEscape_safe (s : Str) : (urlEscape s).all (fun c => isUnreserved c || c == 37) = true := by
  unfold urlEscape
  induction s with
  | nil => simp [urlProcess]
  | cons c rest ih =>
    simp only [urlProcess, List.all_append, Bool.and_eq_true]
    refine ⟨?_, ih⟩
    by_cases hk : urlKeep false c rest = true
    · simp [hk, urlKeep_escape c rest hk]
    · simp only [hk]
      exact pctEncode_bytes c

theorem urlNormalize_bytes (s : Str) : (urlNormalize s).all urlByte = true := by
  unfold urlNormalize
  induction s with
  | nil => simp [urlProcess]
  | cons c rest ih =>
    simp only [urlProcess, List.all_append, Bool.and_eq_true]
    refine ⟨?_, ih⟩
    by_cases hk : urlKeep true c rest = true
    · simp [hk, urlKeep_norm c rest hk]
    · simp only [hk]
      have := pctEncode_bytes c
      rw [List.all_eq_true] at *
      intro x hx
      have := this x hx
      unfold urlByte
      simp at this ⊢
      rcases this with h | h
      · exact Or.inl (Or.inr h)
      · exact Or.inr h

/-- a visible ASCII byte: above space, not DEL, below 0x80 -/
def visible (c : Nat) : Bool := decide (32 < c) && decide (c < 127)

theorem urlByte_visible (c : Nat) (h : urlByte c = true) : visible c = true := by
  unfold urlByte isReserved isUnreserved isUnreservedMark isAlnum at h
  unfold visible
  simp at h
  simp
  omega

/-! ## js.go -/

theorem isHex_hexDigit (n : Nat) (hn : n < 16) : isHex (hexDigit n) = true := by
  unfold hexDigit isHex
  split <;> simp <;> omega

theorem jsOk_plain (c : Nat) (rest : Str) (h : jsPlain c = true) : jsStrBodyOk (c :: rest) = jsStrBodyOk rest := by
  have hne : c ≠ 92 := by
    intro h92; subst h92
    simp [jsPlain] at h
  rw [jsStrBodyOk.eq_def]
  split
  · rename_i heq; cases heq
  · rename_i heq; injection heq with h1; exact absurd h1 hne
  · rename_i heq; injection heq with h1; exact absurd h1 hne
  · rename_i heq; injection heq with h1; exact absurd h1 hne
  · rename_i heq
    injection heq with h1 h2
    subst h1 h2
    simp [h]

theorem jsOk_plain_list (l rest : Str) (h : l.all jsPlain = true) : jsStrBodyOk (l ++ rest) = jsStrBodyOk rest := by
  induction l with
  | nil => rfl
  | cons c t ih =>
    simp only [List.all_cons, Bool.and_eq_true] at h
    rw [List.cons_append, jsOk_plain _ _ h.1, ih h.2]

theorem jsOk_u00 (r : Nat) (rest : Str) : jsStrBodyOk (jsU00 r ++ rest) = jsStrBodyOk rest := by
  have h1 := isHex_hexDigit _ (Nat.mod_lt (r / 16) (by decide : 0 < 16))
  have h2 := isHex_hexDigit _ (Nat.mod_lt r (by decide : 0 < 16))
  have h48 : isHex 48 = true := by decide
  unfold jsU00
  simp only [List.cons_append, List.nil_append]
  rw [jsStrBodyOk.eq_def]
  simp only [h1, h2, h48, Bool.true_and]

theorem jsOk_low (r : Nat) (rest : Str) : jsStrBodyOk (jsLow r ++ rest) = jsStrBodyOk rest := by
  unfold jsLow
  split
  · simp [jsStrBodyOk]
  · split
    · simp [jsStrBodyOk]
    · split
      · simp [jsStrBodyOk]
      · split
        · simp [jsStrBodyOk]
        · exact jsOk_u00 _ _

theorem jsOk_repl (r : Nat) (t rest : Str) (h : jsStrRepl r = some t) : jsStrBodyOk (t ++ rest) = jsStrBodyOk rest := by
  unfold jsStrRepl at h
  split at h
  · cases h; exact jsOk_low _ _
  · split at h
    · cases h; exact jsOk_u00 _ _
    · split at h
      · cases h; simp [jsStrBodyOk]
      · split at h
        · cases h; simp [jsStrBodyOk]
        · split at h
          · cases h; simp [jsStrBodyOk, isHex]
          · split at h
            · cases h; simp [jsStrBodyOk, isHex]
            · cases h

theorem jsRepl_none_plain (r : Nat) (h : jsStrRepl r = none) : jsPlain r = true := by
  unfold jsStrRepl at h
  unfold jsPlain
  split at h
  · cases h
  · rename_i h20
    split at h
    · cases h
    · rename_i hs
      split at h
      · cases h
      · split at h
        · cases h
        · rename_i h47 h92
          simp
          omega

theorem jsOk_high (l : Str) (h : ∀ b ∈ l, 0x80 ≤ b) : l.all jsPlain = true := by
  rw [List.all_eq_true]
  intro x hx
  have := h x hx
  unfold jsPlain
  simp
  omega

theorem jsLoop_ok : ∀ fuel s tail, jsStrBodyOk (runeLoop jsStrRepl fuel s ++ tail) = jsStrBodyOk tail := by
  intro fuel
  induction fuel with
  | zero => intro s tail; simp [runeLoop]
  | succ n ih =>
    intro s tail
    cases s with
    | nil => simp [runeLoop]
    | cons s0 rest =>
      simp only [runeLoop, List.append_assoc]
      split
      · rename_i t ht
        rw [jsOk_repl _ t _ ht, ih]
      · rename_i hnone
        rcases decodeRune_spec s0 rest with ⟨htake, _⟩ | hge
        · rw [htake]
          simp only [List.cons_append, List.nil_append]
          rw [jsOk_plain _ _ (jsRepl_none_plain _ hnone), ih]
        · rw [jsOk_plain_list _ _ (jsOk_high _ hge), ih]

/-! ## the scheme of a filtered, normalised URL -/

theorem cutColon_append (img rest : Str) (h : ∀ b ∈ img, b ≠ 58) :
    cutColon (img ++ rest) = (cutColon rest).map (img ++ ·) := by
  induction img with
  | nil => cases hcr : cutColon rest <;> simp [hcr]
  | cons c t ih =>
    have hc : c ≠ 58 := h c (by simp)
    have ht := ih (fun b hb => h b (by simp [hb]))
    simp only [List.cons_append, cutColon, hc, if_false, ht]
    cases cutColon rest <;> simp

theorem pctEncode_no_colon (c : Nat) : ∀ b ∈ pctEncode c, b ≠ 58 := by
  have h1 : (c / 16) % 16 < 16 := Nat.mod_lt _ (by decide)
  have h2 : c % 16 < 16 := Nat.mod_lt _ (by decide)
  intro b hb
  simp only [pctEncode, List.mem_cons, List.not_mem_nil, or_false] at hb
  unfold hexDigit at hb
  rcases hb with rfl | rfl | rfl
  · decide
  · split <;> omega
  · split <;> omega

theorem pctEncode_not_scheme (c : Nat) : (pctEncode c).all isSchemeChar = false := by
  simp [pctEncode, isSchemeChar, isAlnum]

/-- the image of one byte under the normaliser -/
def normImg (c : Nat) (rest : Str) : Str := if urlKeep true c rest then [c] else pctEncode c

theorem urlNormalize_cons (c : Nat) (rest : Str) : urlNormalize (c :: rest) = normImg c rest ++ urlNormalize rest := by
  simp [urlNormalize, urlProcess, normImg]

theorem urlKeep_colon (rest : Str) : urlKeep true 58 rest = true := by
  simp [urlKeep, isReserved]

/-- the prefix before the first `:` of the normalised URL: if it consists of scheme characters only, it is the
    prefix of the original URL, unchanged -/
theorem cutColon_normalize (u : Str) :
    match cutColon u with
    | none => cutColon (urlNormalize u) = none
    | some p => ∃ p', cutColon (urlNormalize u) = some p' ∧ (p'.all isSchemeChar = true → p' = p) := by
  induction u with
  | nil => simp [cutColon, urlNormalize, urlProcess]
  | cons c rest ih =>
    by_cases hc : c = 58
    · subst hc
      simp only [cutColon, if_true]
      refine ⟨[], ?_, fun _ => rfl⟩
      rw [urlNormalize_cons]
      simp [normImg, urlKeep_colon, cutColon]
    · have himg : ∀ b ∈ normImg c rest, b ≠ 58 := by
        unfold normImg
        split
        · intro b hb; simp at hb; subst hb; exact hc
        · exact pctEncode_no_colon c
      rw [urlNormalize_cons, cutColon_append _ _ himg]
      simp only [cutColon, hc, if_false]
      cases hcut : cutColon rest with
      | none =>
        rw [hcut] at ih
        simp [ih]
      | some p =>
        rw [hcut] at ih
        obtain ⟨p', hp', hall⟩ := ih
        simp only [Option.map_some]
        refine ⟨normImg c rest ++ p', by simp [hp'], ?_⟩
        intro h
        simp only [List.all_append, Bool.and_eq_true] at h
        have hp := hall h.2
        subst hp
        unfold normImg at h ⊢
        split
        · rfl
        · rename_i hk
          simp only [hk, Bool.false_eq_true, if_false] at h
          have := pctEncode_not_scheme c
          rw [this] at h
          exact absurd h.1 (by simp)

theorem foldLower_eq_asciiLower (p : Str) (h : p.all isSchemeChar = true) : foldLower p = asciiLower p := by
  induction p with
  | nil => rfl
  | cons c t ih =>
    simp only [List.all_cons, Bool.and_eq_true] at h
    have hc : c ≠ 0xC5 := by
      intro h5; subst h5
      have := h.1
      simp [isSchemeChar, isAlnum] at this
    have ht := ih h.2
    unfold asciiLower at ht ⊢
    rw [foldLower.eq_def]
    split
    · rename_i heq; cases heq
    · rename_i heq; injection heq with h1 _; exact absurd h1 hc
    · rename_i heq
      injection heq with h1 h2
      subst h1 h2
      simp [ht]

theorem schemeChars_no_slash (p : Str) (h : p.all isSchemeChar = true) : p.contains 47 = false := by
  induction p with
  | nil => rfl
  | cons c t ih =>
    simp only [List.all_cons, Bool.and_eq_true] at h
    have hc : c ≠ 47 := by
      intro h5; subst h5
      have := h.1
      simp [isSchemeChar, isAlnum] at this
    have := ih h.2
    simp only [List.contains_cons, Bool.or_eq_false_iff]
    exact ⟨by simp; exact fun h' => hc h'.symm, this⟩

/-- a URL that `isSafeURL` accepts still has no foreign scheme after normalisation -/
theorem schemeOk_normalize (u : Str) (h : isSafeURL u = true) : schemeOk (urlNormalize u) = true := by
  have hc := cutColon_normalize u
  unfold isSafeURL at h
  unfold schemeOk
  cases hcut : cutColon u with
  | none =>
    rw [hcut] at hc
    simp [hc]
  | some p =>
    rw [hcut] at hc h
    obtain ⟨p', hp', hall⟩ := hc
    simp only [hp']
    cases p' with
    | nil => rfl
    | cons c t =>
      by_cases hs : (c :: t).all isSchemeChar = true
      · have hp := hall hs
        subst hp
        have h47 := schemeChars_no_slash _ hs
        simp only [h47, Bool.false_or] at h
        rw [foldLower_eq_asciiLower _ hs] at h
        simp only [h, Bool.or_true]
      · have : (c :: t).all isSchemeChar = false := by simpa using hs
        simp only [this, Bool.and_false, Bool.not_false, Bool.true_or]

/-! ## `unescapeRefs ∘ htmlEscape` on URL bytes -/

theorem unescapeRefs_other (c : Nat) (rest : Str) (hc : c ≠ 38) : unescapeRefs (c :: rest) = c :: unescapeRefs rest := by
  rw [unescapeRefs.eq_def]
  split
  · rename_i heq; cases heq
  all_goals first
    | (rename_i heq; injection heq with h1 _; exact absurd h1 hc)
    | (rename_i heq; injection heq with h1 h2; subst h1 h2; rfl)

theorem runeLoop_ascii (repl : Nat → Option Str) (n c : Nat) (rest : Str) (hc : c < 0x80) :
    runeLoop repl (n + 1) (c :: rest) = (match repl c with | some t => t | none => [c]) ++ runeLoop repl n rest := by
  have hd : decodeRune (c :: rest) = (c, 1) := by simp [decodeRune, hc]
  simp only [runeLoop, hd]
  cases repl c <;> simp

/-- the browser's character-reference decoding undoes the attribute escaper on normalised URL bytes -/
theorem unescape_htmlEscape_url (x : Str) (h : x.all urlByte = true) : unescapeRefs (htmlEscape x) = x := by
  unfold htmlEscape htmlReplacer
  induction x with
  | nil => simp [runeLoop, unescapeRefs]
  | cons c rest ih =>
    simp only [List.all_cons, Bool.and_eq_true] at h
    have hv := urlByte_visible c h.1
    have hlt : c < 0x80 := by simp [visible] at hv; omega
    simp only [List.length_cons]
    rw [runeLoop_ascii _ _ _ _ hlt]
    have ihr := ih h.2
    by_cases h38 : c = 38
    · subst h38
      simp [htmlRepl, htmlTbl, unescapeRefs, ihr]
    · by_cases h43 : c = 43
      · subst h43
        simp [htmlRepl, htmlTbl, unescapeRefs, ihr]
      · have hne : c ≠ 0 ∧ c ≠ 34 ∧ c ≠ 39 ∧ c ≠ 60 ∧ c ≠ 62 := by
          have := h.1
          simp [urlByte, isReserved, isUnreserved, isUnreservedMark, isAlnum] at this
          omega
        have ht : htmlTbl c = none := by
          unfold htmlTbl
          split <;> first | rfl | omega
        simp only [htmlRepl, ht, Bool.not_true, Bool.false_and, Bool.false_eq_true, if_false, List.cons_append, List.nil_append]
        rw [unescapeRefs_other _ _ h38, ihr]

/-! ## a lead byte ≥ 0x80 never decodes to an ASCII rune -/

theorem dec2_high (s0 : Nat) (rest : Str) (h1 : 0xC2 ≤ s0) (h2 : s0 < 0xE0) : 0x80 ≤ (dec2 s0 rest).1 := by
  cases rest with
  | nil => simp [dec2]
  | cons s1 t =>
    by_cases h : isCont s1 = true
    · simp [dec2, h]; omega
    · simp [dec2, h]

theorem dec3_high (s0 : Nat) (rest : Str) (h1 : 0xE0 ≤ s0) (h2 : s0 < 0xF0) : 0x80 ≤ (dec3 s0 rest).1 := by
  match rest with
  | [] => simp [dec3]
  | [_] => simp [dec3]
  | s1 :: s2 :: t =>
    by_cases h : (decide (lo2 s0 ≤ s1) && decide (s1 ≤ hi2 s0) && isCont s2) = true
    · have h' := h
      simp only [Bool.and_eq_true, decide_eq_true_eq] at h'
      by_cases he : s0 = 0xE0
      · have hlo : 0xA0 ≤ s1 := by have := h'.1.1; simp [lo2, he] at this; exact this
        have hhi : s1 ≤ 0xBF := by have := h'.1.2; simp [hi2, he] at this; exact this
        simp [dec3, h]; omega
      · simp [dec3, h]; omega
    · simp [dec3, h]

theorem dec4_high (s0 : Nat) (rest : Str) (h1 : 0xF0 ≤ s0) (h2 : s0 < 0xF5) : 0x80 ≤ (dec4 s0 rest).1 := by
  match rest with
  | [] => simp [dec4]
  | [_] => simp [dec4]
  | [_, _] => simp [dec4]
  | s1 :: s2 :: s3 :: t =>
    by_cases h : (decide (lo2 s0 ≤ s1) && decide (s1 ≤ hi2 s0) && isCont s2 && isCont s3) = true
    · have h' := h
      simp only [Bool.and_eq_true, decide_eq_true_eq] at h'
      by_cases he : s0 = 0xF0
      · have hlo : 0x90 ≤ s1 := by have := h'.1.1.1; simp [lo2, he] at this; exact this
        have hhi : s1 ≤ 0xBF := by have := h'.1.1.2; simp [hi2, he] at this; exact this
        simp [dec4, h]; omega
      · simp [dec4, h]; omega
    · simp [dec4, h]

theorem decodeRune_high (s0 : Nat) (rest : Str) (h0 : 0x80 ≤ s0) : 0x80 ≤ (decodeRune (s0 :: rest)).1 := by
  have h1 : ¬ s0 < 0x80 := by omega
  by_cases h2 : s0 < 0xC2
  · simp [decodeRune, h1, h2]
  · by_cases h3 : s0 < 0xE0
    · simp only [decodeRune, h1, h2, h3, if_false, if_true]; exact dec2_high _ _ (by omega) h3
    · by_cases h4 : s0 < 0xF0
      · simp only [decodeRune, h1, h2, h3, h4, if_false, if_true]; exact dec3_high _ _ (by omega) h4
      · by_cases h5 : s0 < 0xF5
        · simp only [decodeRune, h1, h2, h3, h4, h5, if_false, if_true]; exact dec4_high _ _ (by omega) h5
        · simp [decodeRune, h1, h2, h3, h4, h5]

/-! ## fidelity: the browser's character-reference decoding gives back the value -/

theorem unescapeRefs_no_amp (l rest : Str) (h : ∀ b ∈ l, b ≠ 38) : unescapeRefs (l ++ rest) = l ++ unescapeRefs rest := by
  induction l with
  | nil => rfl
  | cons c t ih =>
    rw [List.cons_append, unescapeRefs_other _ _ (h c (by simp)), ih (fun b hb => h b (by simp [hb]))]
    rfl

theorem unescapeRefs_tbl (r : Nat) (t rest : Str) (h : htmlTbl r = some t) (h0 : r ≠ 0) :
    unescapeRefs (t ++ rest) = r :: unescapeRefs rest := by
  unfold htmlTbl at h
  split at h
  · exact absurd rfl h0
  all_goals first
    | (cases h; simp [unescapeRefs])
    | cases h

theorem htmlTbl_none_ne_amp (r : Nat) (h : htmlTbl r = none) : r ≠ 38 := by
  intro h38; subst h38; simp [htmlTbl] at h

theorem htmlTbl_some_lt (r : Nat) (t : Str) (h : htmlTbl r = some t) : r < 0x80 := by
  unfold htmlTbl at h
  split at h <;> first | omega | cases h

theorem unescape_htmlEscape_loop : ∀ fuel s, s.length ≤ fuel → (∀ b ∈ s, b ≠ 0) →
    unescapeRefs (runeLoop (htmlRepl htmlTbl true) fuel s) = s := by
  intro fuel
  induction fuel with
  | zero =>
    intro s hl _
    have : s = [] := List.eq_nil_of_length_eq_zero (by omega)
    subst this
    simp [runeLoop, unescapeRefs]
  | succ n ih =>
    intro s hl h0
    cases s with
    | nil => simp [runeLoop, unescapeRefs]
    | cons c rest =>
      have hw := decodeRune_width_pos c rest
      have hdl : ((c :: rest).drop (decodeRune (c :: rest)).2).length ≤ n := by
        simp only [List.length_drop, List.length_cons] at hl ⊢
        omega
      have hd0 : ∀ b ∈ (c :: rest).drop (decodeRune (c :: rest)).2, b ≠ 0 :=
        fun b hb => h0 b (List.mem_of_mem_drop hb)
      have ihd := ih _ hdl hd0
      simp only [runeLoop]
      have hsplit : (c :: rest).take (decodeRune (c :: rest)).2 ++ (c :: rest).drop (decodeRune (c :: rest)).2 = c :: rest :=
        List.take_append_drop _ _
      cases ht : htmlTbl (decodeRune (c :: rest)).1 with
      | some t =>
        have hlt := htmlTbl_some_lt _ _ ht
        rcases decodeRune_spec c rest with ⟨htake, _⟩ | hge
        · have hr0 : (decodeRune (c :: rest)).1 ≠ 0 := by
            intro hz
            have : (decodeRune (c :: rest)).1 ∈ c :: rest := by
              have : (decodeRune (c :: rest)).1 ∈ (c :: rest).take (decodeRune (c :: rest)).2 := by rw [htake]; simp
              exact List.mem_of_mem_take this
            exact h0 _ this hz
          have hfin : (decodeRune (c :: rest)).1 :: (c :: rest).drop (decodeRune (c :: rest)).2 = c :: rest := by
            have := hsplit
            rw [htake] at this
            exact this
          simp only [htmlRepl, ht]
          rw [unescapeRefs_tbl _ _ _ ht hr0, ihd]
          exact hfin
        · -- a table entry is ASCII, so the rune is the first byte, which is then < 0x80: contradiction with `hge`
          exfalso
          have hc80 : 0x80 ≤ c := hge c (by
            rw [take_cons_pred _ _ _ hw]; simp)
          have := decodeRune_high c rest hc80
          omega
      | none =>
        simp only [htmlRepl, ht, Bool.not_true, Bool.false_and, Bool.false_eq_true, if_false]
        have hna : ∀ b ∈ (c :: rest).take (decodeRune (c :: rest)).2, b ≠ 38 := by
          intro b hb
          rcases decodeRune_spec c rest with ⟨htake, _⟩ | hge
          · rw [htake] at hb
            simp at hb
            subst hb
            exact htmlTbl_none_ne_amp _ ht
          · have := hge b hb
            omega
        rw [unescapeRefs_no_amp _ _ hna, ihd, hsplit]

end ZoektModel.C36
