/-
C36 — Lean ports of the `html/template` escapers (Go 1.25) that `html/template` applies to the actions of zoekt's
web templates (web/templates.go), as listed by the translator table `Gen.c36Actions`:

  _html_template_htmlescaper       HTML text                       `htmlEscaper`
  _html_template_rcdataescaper     <title> body                    `rcdataEscaper`
  _html_template_attrescaper       double-quoted attribute value   `attrEscaper`
  _html_template_nospaceescaper    unquoted attribute value        `htmlNospaceEscaper`
  _html_template_urlfilter | _html_template_urlnormalizer | _html_template_attrescaper      whole URL in href="…"
  _html_template_urlescaper | _html_template_attrescaper                                    URL query/fragment part
  _html_template_jsstrescaper      inside a JS string literal (in <script> and in onclick="…")

Strings are lists of byte values (`Nat`; real bytes are < 256, the theorems hold for every list).
The values substituted are plain Go strings (content type "plain"): package web constructs no `template.HTML`, `JS`,
`URL`, … values (translator obligation), so the content-type special cases of the escapers are not reachable.
-/
namespace ZoektModel.C36

abbrev Str := List Nat

/-! ## utf8.DecodeRuneInString -/

def isCont (b : Nat) : Bool := decide (0x80 ≤ b) && decide (b ≤ 0xBF)

/-- lowest / highest second byte accepted after the lead byte `s0` (`acceptRanges`) -/
def lo2 (s0 : Nat) : Nat := if s0 = 0xE0 then 0xA0 else if s0 = 0xF0 then 0x90 else 0x80
def hi2 (s0 : Nat) : Nat := if s0 = 0xED then 0x9F else if s0 = 0xF4 then 0x8F else 0xBF

def dec2 (s0 : Nat) : Str → Nat × Nat
  | s1 :: _ => if isCont s1 then ((s0 % 32) * 64 + s1 % 64, 2) else (0xFFFD, 1)
  | [] => (0xFFFD, 1)

def dec3 (s0 : Nat) : Str → Nat × Nat
  | s1 :: s2 :: _ =>
    if decide (lo2 s0 ≤ s1) && decide (s1 ≤ hi2 s0) && isCont s2
    then ((s0 % 16) * 4096 + (s1 % 64) * 64 + s2 % 64, 3) else (0xFFFD, 1)
  | _ => (0xFFFD, 1)

def dec4 (s0 : Nat) : Str → Nat × Nat
  | s1 :: s2 :: s3 :: _ =>
    if decide (lo2 s0 ≤ s1) && decide (s1 ≤ hi2 s0) && isCont s2 && isCont s3
    then ((s0 % 8) * 262144 + (s1 % 64) * 4096 + (s2 % 64) * 64 + s3 % 64, 4) else (0xFFFD, 1)
  | _ => (0xFFFD, 1)

/-- `(rune, width)`; `(0xFFFD, 1)` for an invalid or short sequence, `(0xFFFD, 0)` for the empty string -/
def decodeRune : Str → Nat × Nat
  | [] => (0xFFFD, 0)
  | s0 :: rest =>
    if s0 < 0x80 then (s0, 1)
    else if s0 < 0xC2 then (0xFFFD, 1)
    else if s0 < 0xE0 then dec2 s0 rest
    else if s0 < 0xF0 then dec3 s0 rest
    else if s0 < 0xF5 then dec4 s0 rest
    else (0xFFFD, 1)

/-- the common loop of `htmlReplacer` and `replace`: decode a rune, emit its replacement or its bytes, advance by
    its width. `fuel` is the string length (every step consumes at least one byte). -/
def runeLoop (repl : Nat → Option Str) : Nat → Str → Str
  | 0, _ => []
  | _, [] => []
  | fuel + 1, s =>
    let d := decodeRune s
    (match repl d.1 with
     | some t => t
     | none => s.take d.2) ++ runeLoop repl fuel (s.drop d.2)

/-! ## html.go -/

def hexDigit (n : Nat) : Nat := if n < 10 then 48 + n else 87 + n

/-- `%x` of a rune (lower case, no padding) -/
def hexOf : Nat → Nat → Str
  | 0, _ => []
  | fuel + 1, n => if n < 16 then [hexDigit n] else hexOf fuel (n / 16) ++ [hexDigit (n % 16)]

/-- `htmlReplacementTable` -/
def htmlTbl : Nat → Option Str
  | 0 => some [0xEF, 0xBF, 0xBD]            -- "�"
  | 34 => some [38, 35, 51, 52, 59]         -- &#34;
  | 38 => some [38, 97, 109, 112, 59]       -- &amp;
  | 39 => some [38, 35, 51, 57, 59]         -- &#39;
  | 43 => some [38, 35, 52, 51, 59]         -- &#43;
  | 60 => some [38, 108, 116, 59]           -- &lt;
  | 62 => some [38, 103, 116, 59]           -- &gt;
  | _ => none

/-- `htmlNospaceReplacementTable` -/
def nospaceTbl : Nat → Option Str
  | 0 => some [38, 35, 120, 102, 102, 102, 100, 59]   -- &#xfffd;
  | 9 => some [38, 35, 57, 59]              -- &#9;
  | 10 => some [38, 35, 49, 48, 59]         -- &#10;
  | 11 => some [38, 35, 49, 49, 59]         -- &#11;
  | 12 => some [38, 35, 49, 50, 59]         -- &#12;
  | 13 => some [38, 35, 49, 51, 59]         -- &#13;
  | 32 => some [38, 35, 51, 50, 59]         -- &#32;
  | 34 => some [38, 35, 51, 52, 59]         -- &#34;
  | 38 => some [38, 97, 109, 112, 59]       -- &amp;
  | 39 => some [38, 35, 51, 57, 59]         -- &#39;
  | 43 => some [38, 35, 52, 51, 59]         -- &#43;
  | 60 => some [38, 108, 116, 59]           -- &lt;
  | 61 => some [38, 35, 54, 49, 59]         -- &#61;
  | 62 => some [38, 103, 116, 59]           -- &gt;
  | 96 => some [38, 35, 57, 54, 59]         -- &#96;
  | _ => none

/-- runes that `htmlReplacer` writes as `&#x…;` when `badRunes` is false -/
def isBadRune (r : Nat) : Bool :=
  (decide (0xfdd0 ≤ r) && decide (r ≤ 0xfdef)) || (decide (0xfff0 ≤ r) && decide (r ≤ 0xffff))

/-- the per-rune decision of `htmlReplacer(s, tbl, badRunes)` (every table entry is below both bad ranges) -/
def htmlRepl (tbl : Nat → Option Str) (badRunes : Bool) (r : Nat) : Option Str :=
  match tbl r with
  | some t => some t
  | none => if !badRunes && isBadRune r then some ([38, 35, 120] ++ hexOf 8 r ++ [59]) else none

def htmlReplacer (tbl : Nat → Option Str) (badRunes : Bool) (s : Str) : Str :=
  runeLoop (htmlRepl tbl badRunes) s.length s

/-- `htmlEscaper` = `rcdataEscaper` = `attrEscaper` on plain strings -/
def htmlEscape (s : Str) : Str := htmlReplacer htmlTbl true s

def filterFailsafe : Str := [90, 103, 111, 116, 109, 112, 108, 90]   -- ZgotmplZ

/-- `htmlNospaceEscaper` -/
def nospaceEscape (s : Str) : Str :=
  if s.isEmpty then filterFailsafe else htmlReplacer nospaceTbl false s

/-! ## url.go -/

def isAlnum (c : Nat) : Bool :=
  (decide (97 ≤ c) && decide (c ≤ 122)) || (decide (65 ≤ c) && decide (c ≤ 90)) || (decide (48 ≤ c) && decide (c ≤ 57))

def isHex (c : Nat) : Bool :=
  (decide (48 ≤ c) && decide (c ≤ 57)) || (decide (97 ≤ c) && decide (c ≤ 102)) || (decide (65 ≤ c) && decide (c ≤ 70))

/-- `! # $ & * + , / : ; = ? @ [ ]` -/
def isReserved (c : Nat) : Bool := [33, 35, 36, 38, 42, 43, 44, 47, 58, 59, 61, 63, 64, 91, 93].contains c

/-- `- . _ ~` -/
def isUnreservedMark (c : Nat) : Bool := [45, 46, 95, 126].contains c

/-- `%%%02x` -/
def pctEncode (c : Nat) : Str := [37, hexDigit ((c / 16) % 16), hexDigit (c % 16)]

/-- `processURLOnto`: is the byte `c` (followed by `rest`) copied unchanged? -/
def urlKeep (norm : Bool) (c : Nat) (rest : Str) : Bool :=
  if isReserved c then norm
  else if isUnreservedMark c then true
  else if c = 37 then
    norm && (match rest with
             | h1 :: h2 :: _ => isHex h1 && isHex h2
             | _ => false)
  else isAlnum c

/-- `processURLOnto` -/
def urlProcess (norm : Bool) : Str → Str
  | [] => []
  | c :: rest => (if urlKeep norm c rest then [c] else pctEncode c) ++ urlProcess norm rest

def urlEscape (s : Str) : Str := urlProcess false s
def urlNormalize (s : Str) : Str := urlProcess true s

/-- the part of `s` before the first `:` (`strings.Cut(s, ":")`), if there is a `:` -/
def cutColon : Str → Option Str
  | [] => none
  | c :: rest => if c = 58 then some [] else (cutColon rest).map (c :: ·)

/-- what `strings.EqualFold` does to ASCII-letter words: case-insensitive, and `ſ` (U+017F, bytes C5 BF) folds to `s` -/
def foldLower : Str → Str
  | [] => []
  | 0xC5 :: 0xBF :: rest => 115 :: foldLower rest
  | c :: rest => (if 65 ≤ c ∧ c ≤ 90 then c + 32 else c) :: foldLower rest

def safeSchemes : List Str :=
  [[104, 116, 116, 112], [104, 116, 116, 112, 115], [109, 97, 105, 108, 116, 111]]   -- http https mailto

/-- `isSafeURL` -/
def isSafeURL (s : Str) : Bool :=
  match cutColon s with
  | none => true
  | some p => p.contains 47 || safeSchemes.contains (foldLower p)

/-- `urlFilter` -/
def urlFilter (s : Str) : Str := if isSafeURL s then s else 35 :: filterFailsafe

/-- chain `urlfilter | urlnormalizer | attrescaper` -/
def urlAttrChain (s : Str) : Str := htmlEscape (urlNormalize (urlFilter s))

/-- chain `urlescaper | attrescaper` -/
def urlQueryChain (s : Str) : Str := htmlEscape (urlEscape s)

/-! ## js.go -/

/-- `\u00XX` -/
def jsU00 (r : Nat) : Str := [92, 117, 48, 48, hexDigit ((r / 16) % 16), hexDigit (r % 16)]

/-- `lowUnicodeReplacementTable[r]` for `r < 0x20` -/
def jsLow (r : Nat) : Str :=
  if r = 9 then [92, 116]            -- \t
  else if r = 10 then [92, 110]      -- \n
  else if r = 12 then [92, 102]      -- \f
  else if r = 13 then [92, 114]      -- \r
  else jsU00 r

/-- the per-rune decision of `replace(s, jsStrReplacementTable)`: `lowUnicodeReplacementTable` first -/
def jsStrRepl (r : Nat) : Option Str :=
  if r < 0x20 then some (jsLow r)
  else if r = 34 ∨ r = 96 ∨ r = 38 ∨ r = 39 ∨ r = 43 ∨ r = 60 ∨ r = 62 then some (jsU00 r)
  else if r = 47 then some [92, 47]          -- \/
  else if r = 92 then some [92, 92]          -- \\
  else if r = 0x2028 then some [92, 117, 50, 48, 50, 56]
  else if r = 0x2029 then some [92, 117, 50, 48, 50, 57]
  else none

/-- `jsStrEscaper` on a plain string -/
def jsStrEscape (s : Str) : Str := runeLoop jsStrRepl s.length s

/-! ## the chains by name -/

inductive Chain where
  | html | rcdata | attr | nospace | urlAttr | urlQuery | jsStr
  | urlTail   -- a value substituted into a URL after a literal prefix (`href="https://host/{{.}}"`, or inside a
              -- repository URL template whose result then goes through the urlAttr chain): normalizer + attrescaper
  deriving Repr, DecidableEq

def Chain.all : List Chain := [.html, .rcdata, .attr, .nospace, .urlAttr, .urlQuery, .jsStr, .urlTail]

def Chain.name : Chain → String
  | .html => "html" | .rcdata => "rcdata" | .attr => "attr" | .nospace => "nospace"
  | .urlAttr => "urlattr" | .urlQuery => "urlquery" | .jsStr => "jsstr" | .urlTail => "urltail"

def Chain.ofName? (s : String) : Option Chain := Chain.all.find? (·.name == s)

/-- the escaper functions `html/template` inserts for the chain, as they appear in the rewritten parse tree -/
def Chain.funcs : Chain → List String
  | .html => ["_html_template_htmlescaper"]
  | .rcdata => ["_html_template_rcdataescaper"]
  | .attr => ["_html_template_attrescaper"]
  | .nospace => ["_html_template_nospaceescaper"]
  | .urlAttr => ["_html_template_urlfilter", "_html_template_urlnormalizer", "_html_template_attrescaper"]
  | .urlQuery => ["_html_template_urlescaper", "_html_template_attrescaper"]
  | .jsStr => ["_html_template_jsstrescaper"]
  | .urlTail => ["_html_template_urlnormalizer", "_html_template_attrescaper"]

def Chain.apply : Chain → Str → Str
  | .html => htmlEscape
  | .rcdata => htmlEscape
  | .attr => htmlEscape
  | .nospace => nospaceEscape
  | .urlAttr => urlAttrChain
  | .urlQuery => urlQueryChain
  | .jsStr => jsStrEscape
  | .urlTail => fun s => htmlEscape (urlNormalize s)

/-! ## web/snippets.go: formatResults — the slice expressions that can panic

For every line match, `formatResults` cuts the line into `Pre`, `Match` (and for the last fragment `Post`) pieces:

    lastEnd := 0
    for i, f := range m.LineFragments {
        l := f.LineOffset; e := l + f.MatchLength
        Pre: line[lastEnd:l], Match: line[l:e]; if last { Post: m.Line[e:] }
        lastEnd = e
    }

and for a file of a sub-repository it evaluates `fMatch.FileName[len(f.SubRepositoryPath):]`.
`line` is modelled by its length (capacity = length); offsets are Go `int`s. -/

structure Frag where
  off : Int
  len : Int
  deriving Repr, DecidableEq

/-- one displayed fragment: byte ranges `[preLo, lo)`, `[lo, hi)` and, for the last one, `[hi, postHi)` -/
structure Piece where
  preLo : Nat
  lo : Nat
  hi : Nat
  postHi : Nat     -- = hi when there is no Post
  deriving Repr, DecidableEq

/-- Go `s[a:b]` on a slice of length = capacity `n`: in range iff `0 ≤ a ≤ b ≤ n` -/
def sliceOk (n : Nat) (a b : Int) : Bool := decide (0 ≤ a) && decide (a ≤ b) && decide (b ≤ (n : Int))

def cutFrags (n : Nat) : Int → List Frag → Option (List Piece)
  | _, [] => some []
  | lastEnd, f :: rest =>
    let l := f.off
    let e := f.off + f.len
    if sliceOk n lastEnd l && sliceOk n l e then
      match cutFrags n e rest with
      | none => none
      | some ps =>
        some (⟨lastEnd.toNat, l.toNat, e.toNat, if rest.isEmpty then n else e.toNat⟩ :: ps)
    else none

/-- the pieces of one line match, `none` = run-time panic (slice bounds out of range) -/
def formatLine (n : Nat) (frags : List Frag) : Option (List Piece) := cutFrags n 0 frags

/-- `fMatch.FileName[len(f.SubRepositoryPath):]` -/
def subPathOk (nameLen subLen : Nat) : Bool := decide (subLen ≤ nameLen)

/-! ## web/server.go: the template functions of `Funcmap` that handle index text

`LimitPre`, `LimitPost`, `TrimTrailingNewline`, `AddLineNumbers` are called by the results template on the text around a
match (arbitrary bytes from the index). A panic inside a template function is an execution error: the whole page is
lost. Go slice expressions are explicit: `none` = run-time panic. -/

/-- Go `s[i:]` -/
def goSliceFrom (s : Str) (i : Int) : Option Str :=
  if 0 ≤ i ∧ i ≤ (s.length : Int) then some (s.drop i.toNat) else none

/-- Go `s[:i]` -/
def goSliceTo (s : Str) (i : Int) : Option Str :=
  if 0 ≤ i ∧ i ≤ (s.length : Int) then some (s.take i.toNat) else none

def decimalAux : Nat → Nat → Str → Str
  | 0, _, acc => acc
  | fuel + 1, n, acc => if n < 10 then (48 + n) :: acc else decimalAux fuel (n / 10) ((48 + n % 10) :: acc)

/-- `%d` of a natural number -/
def decimal (n : Nat) : Str := decimalAux (n + 1) n []

/-- `"...(%d bytes skipped)..."` -/
def skippedMark (n : Nat) : Str :=
  [46, 46, 46, 40] ++ decimal n ++ [32, 98, 121, 116, 101, 115, 32, 115, 107, 105, 112, 112, 101, 100, 41, 46, 46, 46]

/-- `LimitPre(limit, pre)` -/
def limitPre (limit : Nat) (pre : Str) : Option Str :=
  if pre.length < limit then some pre
  else (goSliceFrom pre ((pre.length : Int) - limit)).map fun tail => skippedMark (pre.length - limit) ++ tail

/-- `LimitPost(limit, post)` -/
def limitPost (limit : Nat) (post : Str) : Option Str :=
  if post.length < limit then some post
  else (goSliceTo post limit).map fun head => head ++ skippedMark (post.length - limit)

/-- `strings.TrimSuffix(s, "\n")` -/
def trimTrailingNewline (s : Str) : Str :=
  if s.getLast? = some 10 then s.dropLast else s

/-- `strings.Split(s, "\n")` -/
def splitLines : Str → List Str
  | [] => [[]]
  | c :: rest =>
    if c = 10 then [] :: splitLines rest
    else match splitLines rest with
      | [] => [[c]]
      | l :: ls => (c :: l) :: ls

/-- `AddLineNumbers(content, lineNum, isBefore)`: numbered lines; a trailing empty line is dropped -/
def addLineNumbers (content : Str) (lineNum : Int) (isBefore : Bool) : List (Int × Str) :=
  if content.isEmpty then [] else
  let lines := splitLines content
  let n := lines.length
  let numbered := (List.range n).zip lines |>.map fun (i, l) =>
    ((if isBefore then lineNum - n + i else lineNum + i + 1 : Int), l)
  numbered.filter fun (p : Int × Str) => !(p.1 == (if isBefore then lineNum - 1 else lineNum + n) && p.2.isEmpty)

end ZoektModel.C36
