import ZoektModel.Basic.Proto
namespace ZoektModel.C36
/-- stub: no model driver for C36 yet -/
def main : IO Unit := ZoektModel.Proto.runLines (fun _ => ZoektModel.Proto.badCase "no model driver for C36")
end ZoektModel.C36
