import ZoektModel.Basic.Proto
import ZoektModel.C36.Spec
namespace ZoektModel.C36
open ZoektModel ZoektModel.Proto

def toStr (b : List UInt8) : Str := b.map (·.toNat)
def showStr (s : Str) : String := bytesToHex (s.map UInt8.ofNat)

/-! ops
  `esc <chain> <payloadHex>`   impl = hex of what the real html/template wrote for the payload at a place of that chain
                               model = hex of `chain.apply payload`; SPECFAIL when the implementation's text is not safe there
  `occ <payloadHex,…>`          impl = hex of a sentinel-delimited piece of text cut out of a real page, which was rendered
                               with the payload (sentinels included) in some data field; model = that same hex when it is the
                               output of one of the modelled chains (else `unmodelled`); SPECFAIL when it is no such output
                               or is not safe at that chain's place
-/
/-! `fmt <lineLen> <off:len,…|-> <nameLen> <subLen>`: impl = `panic` or `ok <pre:match:post;…|->` (lengths of the displayed
    pieces of the line match); the model predicts the same; SPECFAIL when a well-formed line match (sorted, disjoint,
    in-range fragments) is not formatted into pieces that tile the line. -/

def parseFrags (s : String) : Option (List Frag) :=
  if s == "-" then some [] else
  (s.splitOn ",").mapM fun e =>
    match e.splitOn ":" with
    | [a, b] => do pure ⟨← a.toInt?, ← b.toInt?⟩
    | _ => none

def showPieces (ps : List Piece) : String :=
  if ps.isEmpty then "-" else ";".intercalate (ps.map fun p => s!"{p.lo - p.preLo}:{p.hi - p.lo}:{p.postHi - p.hi}")

/-- rebuild pieces from the lengths the implementation produced, laid end to end -/
def piecesOfLengths : Nat → List (Nat × Nat × Nat) → List Piece
  | _, [] => []
  | pos, (a, b, c) :: rest => ⟨pos, pos + a, pos + a + b, pos + a + b + c⟩ :: piecesOfLengths (pos + a + b) rest

def parseLengths (s : String) : Option (List (Nat × Nat × Nat)) :=
  if s == "-" then some [] else
  (s.splitOn ";").mapM fun e =>
    match e.splitOn ":" with
    | [a, b, c] => do pure (← a.toNat?, ← b.toNat?, ← c.toNat?)
    | _ => none

def handleFmt (n : Nat) (frags : List Frag) (nameLen subLen : Nat) (impl : String) : String :=
  let model :=
    if !subPathOk nameLen subLen then "panic" else
    match formatLine n frags with
    | none => "panic"
    | some ps => "ok " ++ showPieces ps
  let implOut : Option (Option (List Piece)) :=
    if impl == "panic" then some none
    else if impl.startsWith "ok " then (parseLengths (impl.drop 3).toString).map fun l => some (piecesOfLengths 0 l)
    else none
  match implOut with
  | none => badCase "fmt impl"
  | some out =>
    if subPathOk nameLen subLen && !checkFormat n frags out then specFail model "well-formed-result-not-rendered"
    else answer model

def handle (line : String) : String :=
  let (inp, impl) := splitCase line
  match fields inp with
  | ["esc", ch, p] =>
    match Chain.ofName? ch, hexToBytes? p, hexToBytes? impl with
    | some c, some payload, some out =>
      let model := showStr (c.apply (toStr payload))
      if checkP c (toStr out) then answer model else specFail model ("not-safe-in-" ++ c.name)
    | _, _, _ => badCase "esc fields"
  | ["occ", ps] =>
    match (ps.splitOn ",").mapM hexToBytes?, hexToBytes? impl with
    | some payloads, some occ =>
      let cands := payloads.map toStr
      if occurrenceOkAny cands (toStr occ) then answer impl
      else
        -- not the output of any modelled chain, or such an output but not safe (cannot happen if the theorems hold)
        match Chain.all.find? fun c => cands.any fun p => c.apply p == toStr occ with
        | some c => specFail impl ("not-safe-in-" ++ c.name)
        | none => specFail "unmodelled" "value-not-escaped-by-a-modelled-chain"
    | _, _ => badCase "occ fields"
  | ["fmt", n, fr, nl, sl] =>
    match n.toNat?, parseFrags fr, nl.toNat?, sl.toNat? with
    | some n, some frags, some nameLen, some subLen => handleFmt n frags nameLen subLen impl
    | _, _, _, _ => badCase "fmt fields"
  | "fn" :: name :: args =>
    -- a template function of web.Funcmap called directly: impl = `panic` or the hex of its result
    -- (`addln`: `num:hex,…`, `-` = no line); SPECFAIL when the real function fails (the page would be lost)
    let model? : Option String :=
      match name, args with
      | "limitpre", [l, h] => do
        let l ← l.toNat?
        let s ← hexToBytes? h
        pure (match limitPre l (toStr s) with | some o => showStr o | none => "panic")
      | "limitpost", [l, h] => do
        let l ← l.toNat?
        let s ← hexToBytes? h
        pure (match limitPost l (toStr s) with | some o => showStr o | none => "panic")
      | "trimnl", [h] => do
        let s ← hexToBytes? h
        pure (showStr (trimTrailingNewline (toStr s)))
      | "addln", [n, b, h] => do
        let n ← n.toInt?
        let b ← bool? b
        let s ← hexToBytes? h
        pure (showList (fun (p : Int × Str) => s!"{p.1}:{showStr p.2}") (addLineNumbers (toStr s) n b))
      | _, _ => none
    match model? with
    | none => badCase "fn fields"
    | some model => if impl == "panic" then specFail model ("template-function-fails:" ++ name) else answer model
  | _ => badCase "op"

def main : IO Unit := runLines handle
end ZoektModel.C36
