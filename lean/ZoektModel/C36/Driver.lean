import ZoektModel.Basic.Proto
import ZoektModel.C36.Spec
namespace ZoektModel.C36
open ZoektModel ZoektModel.Proto

def toStr (b : List UInt8) : Str := b.map (·.toNat)
def showStr (s : Str) : String := bytesToHex (s.map UInt8.ofNat)

/-! ops
  `esc <chain> <payloadHex>`   impl = hex of what the real html/template wrote for the payload at a place of that chain
                               model = hex of `chain.apply payload`; SPECFAIL when the implementation's text is not safe there
  `occ <payloadHex,…>`          impl = hex of a sentinel-delimited piece of text cut out of a real page, which was rendered
                               with the payload (sentinels included) in some data field; model = that same hex when it is the
                               output of one of the modelled chains (else `unmodelled`); SPECFAIL when it is no such output
                               or is not safe at that chain's place
-/
def handle (line : String) : String :=
  let (inp, impl) := splitCase line
  match fields inp with
  | ["esc", ch, p] =>
    match Chain.ofName? ch, hexToBytes? p, hexToBytes? impl with
    | some c, some payload, some out =>
      let model := showStr (c.apply (toStr payload))
      if checkP c (toStr out) then answer model else specFail model ("not-safe-in-" ++ c.name)
    | _, _, _ => badCase "esc fields"
  | ["occ", ps] =>
    match (ps.splitOn ",").mapM hexToBytes?, hexToBytes? impl with
    | some payloads, some occ =>
      let cands := payloads.map toStr
      if occurrenceOkAny cands (toStr occ) then answer impl
      else
        -- not the output of any modelled chain, or such an output but not safe (cannot happen if the theorems hold)
        match Chain.all.find? fun c => cands.any fun p => c.apply p == toStr occ with
        | some c => specFail impl ("not-safe-in-" ++ c.name)
        | none => specFail "unmodelled" "value-not-escaped-by-a-modelled-chain"
    | _, _ => badCase "occ fields"
  | _ => badCase "op"

def main : IO Unit := runLines handle
end ZoektModel.C36
