/-
C36 — the property as executable predicates on the text that ends up in the page.

Statement (properties.jsonl): every HTML page served by the web UI renders file contents, file names, repository and
branch names, URLs from repository templates and the query string as text: no value taken from the index or the
request introduces markup or script, and rendering never fails for any search result.

"Introduces no markup or script", per place a value can be substituted into (the places zoekt's templates use):
  * HTML text / <title> body: the substituted text contains no `<` (no tag, comment or end tag can start) and no NUL;
  * double-quoted attribute value: no `"` (the value cannot end), and none of `' < >` NUL either;
  * unquoted attribute value: not empty, no whitespace, no `>`, none of `" ' = < `` ` `` NUL;
  * URL in `href="…"`: as for a quoted attribute, no raw control character or space, and the URL the browser
    sees (after character-reference decoding) has no scheme other than http, https, mailto;
  * URL query / fragment part: only unreserved characters and `%XX`;
  * JavaScript string literal (in <script> or in an event-handler attribute): a sequence of characters that are
    neither a quote, backslash, line terminator, `<`, `>`, `&` nor NUL, and of complete escape sequences —
    so the literal cannot end, no `</script>` / `<!--` can appear and the closing quote cannot be escaped.
-/
import ZoektModel.C36.Model
namespace ZoektModel.C36

def noneOf (bad : List Nat) (s : Str) : Bool := s.all fun c => !bad.contains c

/-- HTML text and RCDATA -/
def textSafe (s : Str) : Bool := noneOf [0, 60] s

/-- double-quoted attribute value (zoekt's templates only use double quotes) -/
def attrSafe (s : Str) : Bool := noneOf [0, 34, 39, 60, 62] s

/-- unquoted attribute value -/
def nospaceSafe (s : Str) : Bool := !s.isEmpty && noneOf [0, 9, 10, 11, 12, 13, 32, 34, 39, 60, 61, 62, 96] s

/-- undo the character references `attrEscaper` can emit (what a browser does to the attribute value) -/
def unescapeRefs : Str → Str
  | [] => []
  | 38 :: 97 :: 109 :: 112 :: 59 :: rest => 38 :: unescapeRefs rest       -- &amp;
  | 38 :: 35 :: 51 :: 52 :: 59 :: rest => 34 :: unescapeRefs rest         -- &#34;
  | 38 :: 35 :: 51 :: 57 :: 59 :: rest => 39 :: unescapeRefs rest         -- &#39;
  | 38 :: 35 :: 52 :: 51 :: 59 :: rest => 43 :: unescapeRefs rest         -- &#43;
  | 38 :: 108 :: 116 :: 59 :: rest => 60 :: unescapeRefs rest             -- &lt;
  | 38 :: 103 :: 116 :: 59 :: rest => 62 :: unescapeRefs rest             -- &gt;
  | c :: rest => c :: unescapeRefs rest

def isAlpha (c : Nat) : Bool := (decide (97 ≤ c) && decide (c ≤ 122)) || (decide (65 ≤ c) && decide (c ≤ 90))
def isSchemeChar (c : Nat) : Bool := isAlnum c || c == 43 || c == 45 || c == 46

def asciiLower (s : Str) : Str := s.map fun c => if 65 ≤ c ∧ c ≤ 90 then c + 32 else c

/-- the URL a browser sees has no scheme, or one of http / https / mailto
    (RFC 3986: scheme = ALPHA *( ALPHA / DIGIT / "+" / "-" / "." ) before the first ":") -/
def schemeOk (url : Str) : Bool :=
  match cutColon url with
  | none => true
  | some p =>
    match p with
    | [] => true
    | c :: _ => !(isAlpha c && p.all isSchemeChar) || safeSchemes.contains (asciiLower p)

def noControlOrSpace (s : Str) : Bool := s.all fun c => decide (32 < c) && c != 127

/-- URL in `href="…"` -/
def urlAttrSafe (s : Str) : Bool :=
  attrSafe s && noControlOrSpace s && schemeOk (unescapeRefs s)

def isUnreserved (c : Nat) : Bool := isAlnum c || isUnreservedMark c

/-- URL query / fragment part: unreserved characters and `%` only -/
def urlQuerySafe (s : Str) : Bool := s.all fun c => isUnreserved c || c == 37

/-- a byte that may appear unescaped inside a JS string literal embedded in HTML -/
def jsPlain (c : Nat) : Bool :=
  decide (0x20 ≤ c) && !([34, 39, 96, 92, 60, 62, 38].contains c)

/-- body of a JS string literal: plain bytes and complete escape sequences only
    (`\\`, `\/`, `\t`, `\n`, `\f`, `\r`, `\uXXXX`) -/
def jsStrBodyOk : Str → Bool
  | [] => true
  | 92 :: 117 :: a :: b :: c :: d :: rest =>
    isHex a && isHex b && isHex c && isHex d && jsStrBodyOk rest
  | 92 :: e :: rest => [92, 47, 116, 110, 102, 114].contains e && jsStrBodyOk rest
  | [92] => false
  | c :: rest => jsPlain c && jsStrBodyOk rest

def jsStrSafe (s : Str) : Bool := jsStrBodyOk s

/-- the safety predicate of each place -/
def Chain.safe : Chain → Str → Bool
  | .html => textSafe
  | .rcdata => textSafe
  | .attr => attrSafe
  | .nospace => nospaceSafe
  | .urlAttr => urlAttrSafe
  | .urlQuery => urlQuerySafe
  | .jsStr => jsStrSafe
  | .urlTail => fun s => attrSafe s && noControlOrSpace s   -- the scheme is fixed by the literal prefix

/-- the statement for one substituted value: `out` is what the page contains for the value `payload` at a place
    escaped by `chain` — it must be safe there -/
def checkP (chain : Chain) (out : Str) : Bool := chain.safe out

/-- for text found in a real page (place unknown): it is the output of one of the modelled chains on the payload, and
    safe for that chain's place -/
def occurrenceOk (payload occ : Str) : Option Chain :=
  Chain.all.find? fun c => c.apply payload == occ && c.safe occ

/-- same with several candidate values (the pieces a page was rendered with) -/
def occurrenceOkAny (payloads : List Str) (occ : Str) : Bool :=
  payloads.any fun p => (occurrenceOk p occ).isSome

/-! ## "rendering never fails for any search result": the fragments of a search result

What the searcher guarantees about the fragments of a line (property C02: match ranges are real, ordered and do not
overlap): offsets are non-negative, each fragment lies inside the line, and they are sorted and disjoint. -/

def fragsWF (n : Nat) : Int → List Frag → Bool
  | _, [] => true
  | lastEnd, f :: rest =>
    decide (lastEnd ≤ f.off) && decide (0 ≤ f.len) && decide (f.off + f.len ≤ (n : Int)) && fragsWF n (f.off + f.len) rest

/-- the displayed pieces tile the line: starting at `pos`, `Pre ++ Match` of each fragment and the final `Post` cover
    `[pos, n)` without gap or overlap — the snippet shows exactly the line -/
def tiles (n : Nat) : Nat → List Piece → Bool
  | _, [] => true
  | pos, [p] => decide (p.preLo = pos) && decide (p.preLo ≤ p.lo) && decide (p.lo ≤ p.hi) && decide (p.hi ≤ p.postHi) && decide (p.postHi = n)
  | pos, p :: q :: r => decide (p.preLo = pos) && decide (p.preLo ≤ p.lo) && decide (p.lo ≤ p.hi) && decide (p.postHi = p.hi) && tiles n p.hi (q :: r)

/-- for a well-formed line match, formatting must succeed and tile the line -/
def checkFormat (n : Nat) (frags : List Frag) (out : Option (List Piece)) : Bool :=
  !fragsWF n 0 frags ||
  match out with
  | none => false
  | some ps => tiles n 0 ps && decide (ps.length = frags.length)

end ZoektModel.C36
