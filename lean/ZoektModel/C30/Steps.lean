/-
C30 — lemmas, part 4: every queue operation preserves `WF`, with the facts about its effect that the property
theorems need.
-/
import ZoektModel.C30.Ops
namespace ZoektModel.C30

theorem heapN_congr_on {lt lt' : Nat → Nat → Bool} {l : List Nat} {n : Nat}
    (h : ∀ k k', k < n → k' < n → lt' (at_ l k) (at_ l k') = lt (at_ l k) (at_ l k')) (hh : HeapN lt l n) : HeapN lt' l n :=
  fun k hk0 hkn => by rw [h k _ hkn (by omega)]; exact hh k hk0 hkn

theorem lessPrio_fields {x x' y y' : Item} (h1 : x'.indexed = x.indexed) (h2 : x'.state = x.state) (h3 : x'.seq = x.seq)
    (h4 : y'.indexed = y.indexed) (h5 : y'.state = y.state) (h6 : y'.seq = y.seq) : lessPrio x' y' = lessPrio x y := by
  simp only [lessPrio, h1, h2, h3, h4, h5, h6]

theorem upd_upd (l : List Item) (a : Nat) (f g : Item → Item) (hf : ∀ x, (f x).id = x.id) :
    upd (upd l a f) a g = upd l a (g ∘ f) := by
  simp only [upd, List.map_map]
  apply List.map_congr_left
  intro x _
  simp only [Function.comp]
  by_cases h : x.id = a
  · simp [h, hf]
  · simp [h]

theorem modify_modify (q : Q) (a : Nat) (f g : Item → Item) (hf : ∀ x, (f x).id = x.id) :
    modify (modify q a f) a g = modify q a (g ∘ f) := by
  simp only [modify, upd_upd _ _ _ _ hf]

theorem inPq_of_not_tracked {q : Q} (hc : Cons q) (a : Nat) (h : tracked q a = false) : ¬ InPq q.pq a := fun hin => by
  have := (idx_of_inPq hc a hin).1
  rw [h] at this; cases this

/-! ### getOrAdd -/

theorem find_append_new (l : List Item) (a b : Nat) (h : find l a = none) :
    find (l ++ [newItem a]) b = if b = a then some (newItem a) else find l b := by
  induction l with
  | nil => simp only [List.nil_append, find, newItem]; split <;> (rename_i h'; simp [h', eq_comm])
  | cons y r ih =>
    simp only [find] at h
    split at h
    · cases h
    · rename_i hy
      simp only [List.cons_append, find]
      by_cases hb : y.id = b
      · have : ¬ b = a := fun e => hy (hb.trans e)
        simp [hb, this]
      · simp only [hb, if_false]; exact ih h

theorem getOrAdd_spec (q : Q) (a : Nat) (hw : WF q) :
    WF (getOrAdd q a) ∧ tracked (getOrAdd q a) a = true ∧ (getOrAdd q a).pq = q.pq ∧
      (∀ b, itemD (getOrAdd q a) b = itemD q b) ∧ (∀ b, tracked (getOrAdd q a) b = (tracked q b || b == a)) ∧
      (getOrAdd q a).seq = q.seq ∧ (getOrAdd q a).dur = q.dur ∧ (getOrAdd q a).maxB = q.maxB := by
  unfold getOrAdd
  by_cases ht : tracked q a = true
  · rw [if_pos ht]
    refine ⟨hw, ht, rfl, fun _ => rfl, fun b => ?_, rfl, rfl, rfl⟩
    by_cases hb : b = a
    · subst hb; simp [ht]
    · simp [hb]
  · rw [if_neg ht]
    have hnone : find q.items a = none := by
      simp only [tracked] at ht; cases hf : find q.items a <;> simp_all
    have hit : ∀ b, itemD ({ q with items := q.items ++ [newItem a] } : Q) b = itemD q b := by
      intro b
      simp only [itemD, find_append_new _ _ _ hnone]
      by_cases hb : b = a
      · subst hb; simp [hnone]
      · simp [hb]
    have htr : ∀ b, tracked ({ q with items := q.items ++ [newItem a] } : Q) b = (tracked q b || b == a) := by
      intro b
      simp only [tracked, find_append_new _ _ _ hnone]
      by_cases hb : b = a
      · subst hb; simp
      · simp [hb]
    refine ⟨⟨⟨hw.1.inj, ?_, ?_, ?_⟩, ?_⟩, by rw [htr]; simp, rfl, hit, htr, rfl, rfl, rfl⟩
    · show ((q.items ++ [newItem a]).map (·.id)).Nodup
      rw [List.map_append, List.nodup_append]
      refine ⟨hw.1.keys, by simp, ?_⟩
      intro x hx y hy
      simp only [List.map_cons, List.map_nil, List.mem_singleton] at hy
      subst hy
      obtain ⟨z, hz, rfl⟩ := List.mem_map.mp hx
      exact fun e => (find_none_iff.mp hnone) z hz e
    · intro i hi
      have := hw.1.slot i hi
      rw [htr, hit]
      exact ⟨by simp [this.1], this.2⟩
    · intro b hb hnb
      rw [hit]
      rw [htr] at hb
      by_cases hba : b = a
      · subst hba
        simp only [itemD, hnone]; rfl
      · exact hw.1.off b (by simpa [hba] using hb) hnb
    · exact heapN_congr (fun x y => by simp only [lessId, hit]) hw.2

/-! ### changing the fields of one tracked item, then repairing the heap -/

theorem heapIdx_modify (q : Q) (a : Nat) (f : Item → Item) (hid : ∀ x, (f x).id = x.id)
    (hidx : ∀ x, (f x).heapIdx = x.heapIdx) (b : Nat) : (itemD (modify q a f) b).heapIdx = (itemD q b).heapIdx := by
  by_cases h : b = a
  · subst h
    by_cases ht : tracked q b = true
    · rw [itemD_modify_same _ _ _ hid ht, hidx]
    · have hn : find q.items b = none := by
        simp only [tracked] at ht; cases hf : find q.items b <;> simp_all
      simp only [itemD, modify, find_upd_same hid, hn]; rfl
  · rw [itemD_modify_other _ _ _ _ hid h]

/-- the item is not queued: any change of its fields keeps the queue well-formed -/
theorem wf_modify_off {q : Q} (hw : WF q) (a : Nat) (f : Item → Item) (hid : ∀ x, (f x).id = x.id)
    (hidx : ∀ x, (f x).heapIdx = x.heapIdx) (hn : ¬ InPq q.pq a) : WF (modify q a f) := by
  refine ⟨cons_modify hw.1 a f hid hidx, ?_⟩
  apply heapN_congr_on _ hw.2
  intro k k' hk hk'
  apply lessId_modify_other _ _ _ hid
  · exact fun e => hn ⟨k, hk, e⟩
  · exact fun e => hn ⟨k', hk', e⟩

/-- the item is queued at slot `i`: after any change of its fields `heap.Fix(i)` restores the invariant -/
theorem wf_modify_fix {q : Q} (hw : WF q) (a : Nat) (f : Item → Item) (hid : ∀ x, (f x).id = x.id)
    (hidx : ∀ x, (f x).heapIdx = x.heapIdx) (ht : tracked q a = true) (hq : 0 ≤ (itemD q a).heapIdx) :
    WF (hfix (modify q a f) (itemD q a).heapIdx.toNat) ∧ Same (modify q a f) (hfix (modify q a f) (itemD q a).heapIdx.toNat) ∧
      PermN q.pq (hfix (modify q a f) (itemD q a).heapIdx.toNat).pq q.pq.length := by
  have hs := slot_of_idx hw.1 a ht hq
  have hc2 := cons_modify hw.1 a f hid hidx
  apply hfix_wf (modify q a f) _ hc2 hs.1
  apply fixInv_of_change (lessId_swo q) q.pq _ hw.1.inj hs.1 hw.2
  intro x y hx hy
  rw [hs.2] at hx hy
  exact lessId_modify_other _ _ _ hid x y hx hy

/-- … and `heap.Remove(i)` removes exactly it -/
theorem wf_modify_remove {q : Q} (hw : WF q) (a : Nat) (f : Item → Item) (hid : ∀ x, (f x).id = x.id)
    (hidx : ∀ x, (f x).heapIdx = x.heapIdx) (ht : tracked q a = true) (hq : 0 ≤ (itemD q a).heapIdx) :
    let r := hremove (modify q a f) (itemD q a).heapIdx.toNat
    WF r.1 ∧ Same (modify q a f) r.1 ∧ r.2 = a ∧ (∀ b, InPq r.1.pq b ↔ InPq q.pq b ∧ b ≠ a) ∧ (itemD r.1 a).heapIdx = -1 := by
  have hs := slot_of_idx hw.1 a ht hq
  have hc2 := cons_modify hw.1 a f hid hidx
  have := hremove_wf (modify q a f) _ hc2 hs.1 (lessId q) (lessId_swo q) hw.2 (by
    intro x y hx hy
    have e : at_ (modify q a f).pq (itemD q a).heapIdx.toNat = a := hs.2
    rw [e] at hx hy
    exact lessId_modify_other _ _ _ hid x y hx hy)
  have e : at_ (modify q a f).pq (itemD q a).heapIdx.toNat = a := hs.2
  rw [e] at this
  exact this

theorem Same.untl {q q' : Q} (h : Same q q') (b : Nat) : (itemD q' b).untl = (itemD q b).untl := by
  have := congrArg Item.untl (h.it b); exact this

theorem Same.cf {q q' : Q} (h : Same q q') (b : Nat) : (itemD q' b).cf = (itemD q b).cf := by
  have := congrArg Item.cf (h.it b); exact this

theorem Same.opts {q q' : Q} (h : Same q q') (b : Nat) : (itemD q' b).opts = (itemD q b).opts := by
  have := congrArg Item.opts (h.it b); exact this

/-! ### enqueue (the common tail of AddOrUpdate and Bump) -/

theorem enqueue_spec (q : Q) (a : Nat) (now : Int) (hw : WF q) (ht : tracked q a = true) (hoff : (itemD q a).heapIdx < 0) :
    WF (enqueue q a now) ∧ (∀ b, tracked (enqueue q a now) b = tracked q b) ∧
      (∀ b, InPq (enqueue q a now).pq b ↔ InPq q.pq b ∨ (b = a ∧ (itemD q a).untl < now)) ∧
      (∀ b, (itemD (enqueue q a now) b).untl = (itemD q b).untl) ∧
      (∀ b, (itemD (enqueue q a now) b).opts = (itemD q b).opts) ∧
      (enqueue q a now).dur = q.dur ∧ (enqueue q a now).maxB = q.maxB ∧ q.seq ≤ (enqueue q a now).seq := by
  unfold enqueue
  by_cases hal : allow (itemD q a) now = true
  · rw [if_pos hal]
    have hlt : (itemD q a).untl < now := by simpa [allow] using hal
    have hn : ¬ InPq q.pq a := not_inPq_of_neg hw.1 a hoff
    let q1 : Q := { q with seq := q.seq + 1 }
    have hw1 : WF q1 := ⟨⟨hw.1.inj, hw.1.keys, hw.1.slot, hw.1.off⟩, hw.2⟩
    let g : Item → Item := fun x => { x with seq := q1.seq, date := now }
    have gid : ∀ x, (g x).id = x.id := fun _ => rfl
    have gidx : ∀ x, (g x).heapIdx = x.heapIdx := fun _ => rfl
    have hw2 : WF (modify q1 a g) := wf_modify_off hw1 a g gid gidx hn
    have ht2 : tracked (modify q1 a g) a = true := by rw [tracked_modify _ _ _ _ gid]; exact ht
    have hp := hpush_wf (modify q1 a g) a hw2 ht2 hn
    have hitem : ∀ b, (itemD (modify q1 a g) b).untl = (itemD q b).untl ∧ (itemD (modify q1 a g) b).opts = (itemD q b).opts := by
      intro b
      by_cases hb : b = a
      · subst hb; rw [itemD_modify_same q1 _ g gid ht]; exact ⟨rfl, rfl⟩
      · rw [itemD_modify_other q1 _ _ g gid hb]; exact ⟨rfl, rfl⟩
    refine ⟨hp.1, ?_, ?_, ?_, ?_, hp.2.1.dur, hp.2.1.maxB, ?_⟩
    · intro b; rw [hp.2.1.tr, tracked_modify _ _ _ _ gid]; rfl
    · intro b
      rw [hp.2.2 b]
      constructor
      · rintro (h | h)
        · exact Or.inl h
        · exact Or.inr ⟨h, hlt⟩
      · rintro (h | ⟨h, _⟩)
        · exact Or.inl h
        · exact Or.inr h
    · intro b; rw [hp.2.1.untl, (hitem b).1]
    · intro b; rw [hp.2.1.opts, (hitem b).2]
    · rw [hp.2.1.seq]; show q.seq ≤ q.seq + 1; omega
  · rw [if_neg hal]
    have hlt : ¬ (itemD q a).untl < now := by simpa [allow] using hal
    refine ⟨hw, fun _ => rfl, fun b => ?_, fun _ => rfl, fun _ => rfl, rfl, rfl, Nat.le_refl _⟩
    constructor
    · exact Or.inl
    · rintro (h | ⟨_, h⟩)
      · exact h
      · exact absurd h hlt

/-! ### AddOrUpdate -/

theorem addOrUpdate_spec (q : Q) (o : Opts) (now : Int) (hw : WF q) :
    WF (addOrUpdate q o now) ∧
      (∀ b, tracked (addOrUpdate q o now) b = (tracked q b || b == o.rid)) ∧
      (∀ b, InPq (addOrUpdate q o now).pq b ↔ InPq q.pq b ∨ (b = o.rid ∧ ¬ InPq q.pq o.rid ∧ (itemD q o.rid).untl < now)) ∧
      (itemD (addOrUpdate q o now) o.rid).opts = o ∧
      (∀ b, (itemD (addOrUpdate q o now) b).untl = (itemD q b).untl) ∧
      (addOrUpdate q o now).dur = q.dur ∧ (addOrUpdate q o now).maxB = q.maxB := by
  have h1 := getOrAdd_spec q o.rid hw
  unfold addOrUpdate
  generalize getOrAdd q o.rid = q1 at h1
  obtain ⟨hw1, ht1, hpq1, hit1, htr1, _, hd1, hm1⟩ := h1
  let f : Item → Item := fun x => { x with indexed := false, opts := o }
  -- q2 is q1 with the options of o.rid brought up to date; in both cases it is `modify q1 o.rid f'` for a harmless f'
  have key : ∀ f' : Item → Item, (∀ x, (f' x).id = x.id) → (∀ x, (f' x).heapIdx = x.heapIdx) → (∀ x, (f' x).untl = x.untl) →
      (f' (itemD q1 o.rid)).opts = o →
      let q2 := modify q1 o.rid f'
      WF (if (itemD q2 o.rid).heapIdx < 0 then enqueue q2 o.rid now else hfix q2 (itemD q2 o.rid).heapIdx.toNat) ∧
      (∀ b, tracked (if (itemD q2 o.rid).heapIdx < 0 then enqueue q2 o.rid now else hfix q2 (itemD q2 o.rid).heapIdx.toNat) b = (tracked q b || b == o.rid)) ∧
      (∀ b, InPq (if (itemD q2 o.rid).heapIdx < 0 then enqueue q2 o.rid now else hfix q2 (itemD q2 o.rid).heapIdx.toNat).pq b ↔
        InPq q.pq b ∨ (b = o.rid ∧ ¬ InPq q.pq o.rid ∧ (itemD q o.rid).untl < now)) ∧
      (itemD (if (itemD q2 o.rid).heapIdx < 0 then enqueue q2 o.rid now else hfix q2 (itemD q2 o.rid).heapIdx.toNat) o.rid).opts = o ∧
      (∀ b, (itemD (if (itemD q2 o.rid).heapIdx < 0 then enqueue q2 o.rid now else hfix q2 (itemD q2 o.rid).heapIdx.toNat) b).untl = (itemD q b).untl) ∧
      (if (itemD q2 o.rid).heapIdx < 0 then enqueue q2 o.rid now else hfix q2 (itemD q2 o.rid).heapIdx.toNat).dur = q.dur ∧
      (if (itemD q2 o.rid).heapIdx < 0 then enqueue q2 o.rid now else hfix q2 (itemD q2 o.rid).heapIdx.toNat).maxB = q.maxB := by
    intro f' hid hidx huntl hopts q2
    have hidx2 : (itemD q2 o.rid).heapIdx = (itemD q1 o.rid).heapIdx := heapIdx_modify q1 o.rid f' hid hidx o.rid
    have ht2 : ∀ b, tracked q2 b = tracked q1 b := fun b => tracked_modify q1 o.rid b f' hid
    have hitem2 : ∀ b, (itemD q2 b).untl = (itemD q b).untl := by
      intro b
      by_cases hb : b = o.rid
      · rw [hb]; show (itemD (modify q1 o.rid f') o.rid).untl = _
        rw [itemD_modify_same _ _ _ hid ht1, huntl, hit1]
      · show (itemD (modify q1 o.rid f') b).untl = _
        rw [itemD_modify_other _ _ _ _ hid hb, hit1]
    have hopts2 : (itemD q2 o.rid).opts = o := by
      show (itemD (modify q1 o.rid f') o.rid).opts = _
      rw [itemD_modify_same _ _ _ hid ht1]; exact hopts
    by_cases hneg : (itemD q2 o.rid).heapIdx < 0
    · simp only [hneg, if_true]
      have hn1 : ¬ InPq q1.pq o.rid := not_inPq_of_neg hw1.1 o.rid (by rw [← hidx2]; exact hneg)
      have hw2 : WF q2 := wf_modify_off hw1 o.rid f' hid hidx hn1
      have he := enqueue_spec q2 o.rid now hw2 (by rw [ht2]; exact ht1) hneg
      refine ⟨he.1, ?_, ?_, ?_, ?_, ?_, ?_⟩
      · intro b; rw [he.2.1 b, ht2, htr1]
      · intro b
        rw [he.2.2.1 b, hitem2]
        show InPq q1.pq b ∨ _ ↔ _
        rw [hpq1] at hn1 ⊢
        constructor
        · rintro (h | ⟨h1, h2⟩)
          · exact Or.inl h
          · exact Or.inr ⟨h1, hn1, h2⟩
        · rintro (h | ⟨h1, _, h2⟩)
          · exact Or.inl h
          · exact Or.inr ⟨h1, h2⟩
      · rw [he.2.2.2.2.1]; exact hopts2
      · intro b; rw [he.2.2.2.1 b, hitem2]
      · rw [he.2.2.2.2.2.1]; exact hd1
      · rw [he.2.2.2.2.2.2.1]; exact hm1
    · simp only [hneg, if_false]
      have hq : 0 ≤ (itemD q1 o.rid).heapIdx := by rw [← hidx2]; omega
      have hf := wf_modify_fix hw1 o.rid f' hid hidx ht1 hq
      rw [hidx2]
      have hin1 : InPq q1.pq o.rid := ⟨_, (slot_of_idx hw1.1 o.rid ht1 hq).1, (slot_of_idx hw1.1 o.rid ht1 hq).2⟩
      have hmem : ∀ b, InPq (hfix q2 (itemD q1 o.rid).heapIdx.toNat).pq b ↔ InPq q1.pq b := by
        intro b
        rw [inPq_iff_inN, hf.2.2.1, hf.2.2.2.1 b]
        exact Iff.rfl
      refine ⟨hf.1, ?_, ?_, ?_, ?_, ?_, ?_⟩
      · intro b; rw [hf.2.1.tr, ht2, htr1]
      · intro b
        rw [hmem b, hpq1]
        rw [hpq1] at hin1
        constructor
        · exact Or.inl
        · rintro (h | ⟨_, h, _⟩)
          · exact h
          · exact absurd hin1 h
      · rw [hf.2.1.opts]; exact hopts2
      · intro b; rw [hf.2.1.untl, hitem2]
      · rw [hf.2.1.dur]; exact hd1
      · rw [hf.2.1.maxB]; exact hm1
  by_cases hne : (itemD q1 o.rid).opts ≠ o
  · simp only [hne, if_true, ne_eq, not_false_eq_true]
    have fid : ∀ x, (f x).id = x.id := fun _ => rfl
    have fidx : ∀ x, (f x).heapIdx = x.heapIdx := fun _ => rfl
    have funtl : ∀ x, (f x).untl = x.untl := fun _ => rfl
    exact key f fid fidx funtl rfl
  · have heq : (itemD q1 o.rid).opts = o := by simpa using hne
    simp only [hne, if_false]
    have e : modify q1 o.rid id = q1 := by
      simp only [modify, upd]
      have : (q1.items.map fun x => if x.id = o.rid then id x else x) = q1.items := by
        conv => rhs; rw [← List.map_id q1.items]
        apply List.map_congr_left; intro x _; simp
      rw [this]
    have := key id (fun _ => rfl) (fun _ => rfl) (fun _ => rfl) heq
    rw [e] at this
    exact this

/-! ### SetIndexed -/

theorem find_of_mem_nodup {l : List Item} (hk : (l.map (·.id)).Nodup) {y : Item} (hy : y ∈ l) : find l y.id = some y := by
  induction l with
  | nil => cases hy
  | cons z r ih =>
    simp only [List.map_cons, List.nodup_cons] at hk
    simp only [find]
    rcases List.mem_cons.mp hy with rfl | hy'
    · simp
    · have : z.id ≠ y.id := fun e => hk.1 (by rw [e]; exact List.mem_map.mpr ⟨y, hy', rfl⟩)
      simp only [this, if_false]
      exact ih hk.2 hy'

theorem setIdx_self (x : Item) (k : Int) (h : x.heapIdx = k) : setIdx k x = x := by
  cases x; simp_all [setIdx]

/-- `item.heapIdx = -1` after `heap.Remove` already set it -/
theorem modify_setIdx_neg {q : Q} (hc : Cons q) (a : Nat) (h : (itemD q a).heapIdx = -1) : modify q a (setIdx (-1)) = q := by
  have : upd q.items a (setIdx (-1)) = q.items := by
    simp only [upd]
    conv => rhs; rw [← List.map_id q.items]
    apply List.map_congr_left
    intro y hy
    by_cases hya : y.id = a
    · have hf := find_of_mem_nodup hc.keys hy
      rw [hya] at hf
      have : itemD q a = y := by simp [itemD, hf]
      rw [this] at h
      simp [hya, setIdx_self y (-1) h]
    · simp [hya]
  simp only [modify, this]

theorem backoffDur_eq (dur maxB : Int) (now : Int) (x : Item) :
    (failItem dur maxB now x).untl = now + backoffDur dur maxB x.cf ∧ (failItem dur maxB now x).id = x.id ∧
    (failItem dur maxB now x).heapIdx = x.heapIdx ∧ (failItem dur maxB now x).opts = x.opts := by
  unfold failItem backoffDur
  simp only []
  split <;> simp

theorem setIndexed_spec (q : Q) (o : Opts) (st : Nat) (now : Int) (hw : WF q) :
    WF (setIndexed q o st now) ∧
      (∀ b, tracked (setIndexed q o st now) b = (tracked q b || b == o.rid)) ∧
      (∀ b, InPq (setIndexed q o st now).pq b ↔ InPq q.pq b ∧ ¬ (b = o.rid ∧ st = stFail)) ∧
      (st = stFail → (itemD (setIndexed q o st now) o.rid).untl = now + backoffDur q.dur q.maxB (itemD q o.rid).cf) ∧
      (∀ b, b ≠ o.rid → (itemD (setIndexed q o st now) b).untl = (itemD q b).untl) ∧
      (setIndexed q o st now).dur = q.dur ∧ (setIndexed q o st now).maxB = q.maxB := by
  have h1 := getOrAdd_spec q o.rid hw
  unfold setIndexed
  generalize getOrAdd q o.rid = q1 at h1
  obtain ⟨hw1, ht1, hpq1, hit1, htr1, _, hd1, hm1⟩ := h1
  let f : Item → Item := fun x => { x with state := st }
  have fid : ∀ x, (f x).id = x.id := fun _ => rfl
  by_cases hst : st ≠ stFail
  · simp only [hst, if_true, ne_eq, not_false_eq_true]
    let g : Item → Item := fun x => { x with indexed := decide (o = x.opts), cf := 0, untl := tEpoch }
    have e3 : modify (modify q1 o.rid f) o.rid g = modify q1 o.rid (g ∘ f) := modify_modify q1 o.rid f g fid
    show (fun q3 : Q => WF (if (itemD q3 o.rid).heapIdx ≥ 0 then hfix q3 (itemD q3 o.rid).heapIdx.toNat else q3) ∧ _)
      (modify (modify q1 o.rid f) o.rid g)
    rw [e3]
    have hid : ∀ x, ((g ∘ f) x).id = x.id := fun _ => rfl
    have hidx : ∀ x, ((g ∘ f) x).heapIdx = x.heapIdx := fun _ => rfl
    have hidx3 := heapIdx_modify q1 o.rid (g ∘ f) hid hidx o.rid
    have huntl3 : ∀ b, b ≠ o.rid → (itemD (modify q1 o.rid (g ∘ f)) b).untl = (itemD q b).untl := by
      intro b hb; rw [itemD_modify_other _ _ _ _ hid hb, hit1]
    have ht3 : ∀ b, tracked (modify q1 o.rid (g ∘ f)) b = (tracked q b || b == o.rid) := by
      intro b; rw [tracked_modify _ _ _ _ hid, htr1]
    simp only [hst, not_false_eq_true, and_false, not_false_eq_true, and_true, false_imp_iff, true_and]
    by_cases hq : (itemD (modify q1 o.rid (g ∘ f)) o.rid).heapIdx ≥ 0
    · simp only [hq, if_true]
      rw [hidx3] at hq ⊢
      have hf := wf_modify_fix hw1 o.rid (g ∘ f) hid hidx ht1 hq
      refine ⟨hf.1, ?_, ?_, ?_, ?_, ?_⟩
      · intro b; rw [hf.2.1.tr, ht3]
      · intro b
        rw [inPq_iff_inN, hf.2.2.1, hf.2.2.2.1 b, ← hpq1]; exact Iff.rfl
      · intro b hb; rw [hf.2.1.untl, huntl3 b hb]
      · rw [hf.2.1.dur]; exact hd1
      · rw [hf.2.1.maxB]; exact hm1
    · simp only [hq, if_false]
      rw [hidx3] at hq
      have hn1 : ¬ InPq q1.pq o.rid := not_inPq_of_neg hw1.1 o.rid (by omega)
      refine ⟨wf_modify_off hw1 o.rid (g ∘ f) hid hidx hn1, ht3, ?_, huntl3, hd1, hm1⟩
      intro b; show InPq q1.pq b ↔ _; rw [hpq1]
  · have hst' : st = stFail := by simpa using hst
    simp only [hst, if_false]
    let g : Item → Item := failItem q.dur q.maxB now
    have gf := fun x => backoffDur_eq q.dur q.maxB now x
    have e3 : modify (modify q1 o.rid f) o.rid g = modify q1 o.rid (g ∘ f) := modify_modify q1 o.rid f g fid
    show (fun q3 : Q => WF (if (itemD q3 o.rid).heapIdx ≥ 0 then modify (hremove q3 (itemD q3 o.rid).heapIdx.toNat).1 o.rid (setIdx (-1)) else q3) ∧ _)
      (modify (modify q1 o.rid f) o.rid g)
    rw [e3]
    have hid : ∀ x, ((g ∘ f) x).id = x.id := fun x => (gf (f x)).2.1
    have hidx : ∀ x, ((g ∘ f) x).heapIdx = x.heapIdx := fun x => (gf (f x)).2.2.1
    have hidx3 := heapIdx_modify q1 o.rid (g ∘ f) hid hidx o.rid
    have huntl3 : ∀ b, b ≠ o.rid → (itemD (modify q1 o.rid (g ∘ f)) b).untl = (itemD q b).untl := by
      intro b hb; rw [itemD_modify_other _ _ _ _ hid hb, hit1]
    have huntl3' : (itemD (modify q1 o.rid (g ∘ f)) o.rid).untl = now + backoffDur q.dur q.maxB (itemD q o.rid).cf := by
      rw [itemD_modify_same _ _ _ hid ht1]
      show (failItem q.dur q.maxB now (f (itemD q1 o.rid))).untl = _
      rw [(gf _).1, hit1]
    have ht3 : ∀ b, tracked (modify q1 o.rid (g ∘ f)) b = (tracked q b || b == o.rid) := by
      intro b; rw [tracked_modify _ _ _ _ hid, htr1]
    simp only [hst', true_implies, and_true]
    by_cases hq : (itemD (modify q1 o.rid (g ∘ f)) o.rid).heapIdx ≥ 0
    · simp only [hq, if_true]
      rw [hidx3] at hq ⊢
      have hr := wf_modify_remove hw1 o.rid (g ∘ f) hid hidx ht1 hq
      simp only [] at hr
      rw [modify_setIdx_neg hr.1.1 o.rid hr.2.2.2.2]
      refine ⟨hr.1, ?_, ?_, ?_, ?_, ?_, ?_⟩
      · intro b; rw [hr.2.1.tr, ht3]
      · intro b; rw [hr.2.2.2.1 b, hpq1]
      · rw [hr.2.1.untl]; exact huntl3'
      · intro b hb; rw [hr.2.1.untl, huntl3 b hb]
      · rw [hr.2.1.dur]; exact hd1
      · rw [hr.2.1.maxB]; exact hm1
    · simp only [hq, if_false]
      rw [hidx3] at hq
      have hn1 : ¬ InPq q1.pq o.rid := not_inPq_of_neg hw1.1 o.rid (by omega)
      refine ⟨wf_modify_off hw1 o.rid (g ∘ f) hid hidx hn1, ht3, ?_, huntl3', huntl3, hd1, hm1⟩
      intro b
      show InPq q1.pq b ↔ _
      rw [hpq1] at hn1 ⊢
      constructor
      · intro h; exact ⟨h, fun e => hn1 (e ▸ h)⟩
      · exact fun h => h.1

end ZoektModel.C30
